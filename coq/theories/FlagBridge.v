(** FlagBridge.v -- the run-level bridge from the per-connection flags of the
    model ([c_bound], [c_did_claim], [c_did_allocate], [c_did_release],
    [c_did_close], [c_nameplate_id], [c_mailbox_id], [c_mailbox]) to the
    commands the connection actually sent and the answers it got (C01, C02,
    C03, C17); a command that does not fail internally keeps every connection
    (C17); and the [XOracle] disjunct of [C17_no_internal_error] concerns
    ill-fitting recorded oracles only (C17).

    Part 1 is a calculus for the connection registry: every operation of
    server.py leaves it alone, except [mailbox_close], which may apply
    [stop_listener] to some records; no operation of server.py ever raises a
    protocol error ([XErr]); [XOracle] is raised by [claim_nameplate] /
    [allocate_nameplate] only.  Part 2 computes the exact record of the acting
    connection after every handler.  Parts 3-6 lift that to events, histories
    and the statements asked for. *)
From MW Require Import Base Store Monad Usage Server Websocket Service Findings
     Inv Hoare Obs ProtoFacts StepFacts HistFacts WireFacts Corollaries Inst_Params.
Local Open Scope list_scope.

(** * Part 1: the registry calculus *)

(** an exception a server operation may raise: never a protocol error; the
    oracle misfit only where [strict = false] *)
Definition okx (strict : bool) (e : exn) : Prop :=
  match e with
  | XErr _ => False
  | XOracle => strict = false
  | _ => True
  end.

Lemma okx_weaken strict e : okx true e -> okx strict e.
Proof. destruct e; cbn; try tauto. discriminate. Qed.

(** [stop_listener] applied to the records of the connections selected by [g] *)
Definition stop_map (g : nat -> bool) (l : list (nat * conn_state)) : list (nat * conn_state) :=
  map (fun p => if g (fst p) then (fst p, stop_listener (snd p)) else p) l.

Lemma stop_map_none l : stop_map (fun _ => false) l = l.
Proof. unfold stop_map. apply map_id. Qed.

Lemma stop_listener_idem cs : stop_listener (stop_listener cs) = stop_listener cs.
Proof. reflexivity. Qed.

Lemma stop_map_map g1 g2 l :
  stop_map g2 (stop_map g1 l) = stop_map (fun c => g1 c || g2 c) l.
Proof.
  unfold stop_map. rewrite map_map. apply map_ext. intros [c cs]. cbn [fst snd].
  destruct (g1 c) eqn:E1; cbn [fst snd orb].
  - destruct (g2 c); reflexivity.
  - reflexivity.
Qed.

Lemma stop_map_fst g l : map fst (stop_map g l) = map fst l.
Proof. apply map_if_fst. Qed.

Lemma lookup_stop_map g c l :
  lookup_conn c (stop_map g l) =
  match lookup_conn c l with
  | Some cs => Some (if g c then stop_listener cs else cs)
  | None => None
  end.
Proof. apply lookup_map_if. Qed.

Lemma stop_map_update g c X l :
  stop_map g (update_conn c X l) =
  update_conn c (if g c then stop_listener X else X) (stop_map g l).
Proof.
  unfold stop_map. induction l as [|[c1 cs1] l IH]; cbn [update_conn map]; [reflexivity|].
  destruct (Nat.eqb c c1) eqn:E; cbn [map fst snd].
  - apply Nat.eqb_eq in E. subst c1.
    destruct (g c); cbn [update_conn]; rewrite Nat.eqb_refl; reflexivity.
  - rewrite IH. destruct (g c1); cbn [update_conn]; rewrite E; reflexivity.
Qed.

(** [QS strict m]: [m] applies [stop_listener] to some records of the registry
    and does nothing else to it; its exceptions are [okx strict] *)
Definition QS (strict : bool) {A} (m : M A) : Prop :=
  forall s, match m s with
            | Ok _ s' => exists g, conns s' = stop_map g (conns s)
            | Exn e s' => (exists g, conns s' = stop_map g (conns s)) /\ okx strict e
            end.

(** [Q0 strict m]: [m] leaves the registry alone *)
Definition Q0 (strict : bool) {A} (m : M A) : Prop :=
  forall s, match m s with
            | Ok _ s' => conns s' = conns s
            | Exn e s' => conns s' = conns s /\ okx strict e
            end.

Lemma Q0_QS strict {A} (m : M A) : Q0 strict m -> QS strict m.
Proof.
  intros H s. specialize (H s). destruct (m s) as [a s'|e s'].
  - exists (fun _ => false). rewrite stop_map_none. exact H.
  - destruct H as [H Hx]. split; [|exact Hx]. exists (fun _ => false). rewrite stop_map_none. exact H.
Qed.

Lemma Q0_weaken strict {A} (m : M A) : Q0 true m -> Q0 strict m.
Proof.
  intros H s. specialize (H s). destruct (m s) as [a s'|e s']; [exact H|].
  destruct H as [H Hx]. split; [exact H|apply okx_weaken; exact Hx].
Qed.

Lemma Q0_ret strict {A} (a : A) : Q0 strict (ret a).
Proof. intros s. reflexivity. Qed.

Lemma Q0_raise strict {A} e : okx strict e -> Q0 strict (@raise A e).
Proof. intros H s. split; [reflexivity|exact H]. Qed.

Lemma Q0_bind strict {A B} (m : M A) (k : A -> M B) :
  Q0 strict m -> (forall a, Q0 strict (k a)) -> Q0 strict (bind m k).
Proof.
  intros Hm Hk s. unfold bind. specialize (Hm s). destruct (m s) as [a s1|e s1]; [|exact Hm].
  specialize (Hk a s1). destruct (k a s1) as [b s2|e s2].
  - congruence.
  - destruct Hk as [Hk Hx]. split; [congruence|exact Hx].
Qed.

Lemma QS_bind strict {A B} (m : M A) (k : A -> M B) :
  QS strict m -> (forall a, QS strict (k a)) -> QS strict (bind m k).
Proof.
  intros Hm Hk s. unfold bind. specialize (Hm s). destruct (m s) as [a s1|e s1]; [|exact Hm].
  destruct Hm as [g1 H1].
  specialize (Hk a s1). destruct (k a s1) as [b s2|e s2].
  - destruct Hk as [g2 H2]. exists (fun c => g1 c || g2 c). rewrite H2, H1. apply stop_map_map.
  - destruct Hk as [[g2 H2] Hx]. split; [|exact Hx].
    exists (fun c => g1 c || g2 c). rewrite H2, H1. apply stop_map_map.
Qed.

Lemma Q0_get strict : Q0 strict get.
Proof. intros s. reflexivity. Qed.

Lemma Q0_q strict {A} (f : chan_db -> A) : Q0 strict (q f).
Proof. intros s. reflexivity. Qed.

Lemma Q0_utx strict f : Q0 strict (utx f).
Proof. intros s. reflexivity. Qed.

Lemma Q0_commit_chan strict : Q0 strict commit_chan.
Proof. intros s. reflexivity. Qed.

Lemma Q0_commit_usage strict : Q0 strict commit_usage.
Proof. intros s. reflexivity. Qed.

Lemma Q0_send strict c f : Q0 strict (send c f).
Proof. intros s. reflexivity. Qed.

Lemma Q0_get_conn strict c : Q0 strict (get_conn c).
Proof. intros s. reflexivity. Qed.

Lemma Q0_add_sub strict a m c : Q0 strict (add_sub a m c).
Proof. intros s. unfold add_sub. destruct (existsb _ _); reflexivity. Qed.

Lemma Q0_remove_sub strict a m c : Q0 strict (remove_sub a m c).
Proof. intros s. reflexivity. Qed.

Lemma Q0_tx strict {A} (f : chan_db -> txres A) :
  (forall d e d', f d = TxFail e d' -> okx strict e) -> Q0 strict (tx f).
Proof.
  intros H s. unfold tx. destruct (f (chan_w s)) as [a d|e d] eqn:E; [reflexivity|].
  split; [reflexivity|exact (H _ _ _ E)].
Qed.

Lemma Q0_if strict {A} (b : bool) (m1 m2 : M A) :
  Q0 strict m1 -> Q0 strict m2 -> Q0 strict (if b then m1 else m2).
Proof. destruct b; auto. Qed.

(** ** the transaction bodies never fail with a protocol error *)

Lemma open_body_okx d a m side w e d' : open_body d a m side w = TxFail e d' -> okx true e.
Proof.
  unfold open_body. destruct (add_mailbox d a m false w) as [d1|]; [|intros H; inversion H; exact I].
  destruct (mailbox_open_body d1 m side w); intros H; inversion H; exact I.
Qed.

Lemma claim_side_body_okx d npid mbox side w e d' :
  claim_side_body d npid mbox side w = TxFail e d' -> okx true e.
Proof.
  unfold claim_side_body. destruct (sel_nps d npid side) as [r|].
  - destruct (nps_claimed r); intros H; inversion H; exact I.
  - destruct (ins_nps d _); intros H; inversion H; exact I.
Qed.

Lemma claim_body_okx d a n side w draw e d' :
  claim_body d a n side w draw = TxFail e d' -> okx false e.
Proof.
  unfold claim_body. destruct (sel_np d a n) as [row|].
  - intros H. apply okx_weaken. exact (claim_side_body_okx _ _ _ _ _ _ _ H).
  - destruct draw as [bytes|]; [|intros H; inversion H; reflexivity].
    destruct (add_mailbox d a (genid bytes) true w) as [d1|]; [|intros H; inversion H; exact I].
    destruct (ins_np d1 a n (genid bytes)) as [[d2 npid]|]; [|intros H; inversion H; exact I].
    intros H. apply okx_weaken. exact (claim_side_body_okx _ _ _ _ _ _ _ H).
Qed.

(** ... and [claim_body] reports an oracle misfit only when it needs a draw
    (the nameplate does not exist) and none was recorded *)
Lemma claim_body_oracle d a n side w draw d' :
  claim_body d a n side w draw = TxFail XOracle d' -> sel_np d a n = None /\ draw = None.
Proof.
  unfold claim_body. destruct (sel_np d a n) as [row|].
  - intros H. apply claim_side_body_okx in H. discriminate H.
  - destruct draw as [bytes|]; [|auto].
    destruct (add_mailbox d a (genid bytes) true w) as [d1|]; [|discriminate].
    destruct (ins_np d1 a n (genid bytes)) as [[d2 npid]|]; [|discriminate].
    intros H. apply claim_side_body_okx in H. discriminate H.
Qed.

Section Ops.
Variable cfg : config.

Lemma del_nameplates_body_okx a w pruned : forall ids d acc e d',
  del_nameplates_body cfg d a ids w pruned acc = TxFail e d' -> okx true e.
Proof.
  induction ids as [|npid rest IH]; intros d acc e d'; cbn [del_nameplates_body]; [discriminate|].
  destruct (del_np (del_nps_of d npid) npid) as [d2|]; [|intros H; inversion H; exact I].
  destruct (usage_on cfg); [|apply IH].
  destruct (summarize_nameplate _ _ _ _ _) as [u|]; [apply IH|intros H; inversion H; exact I].
Qed.

Lemma del_mailbox_body_okx d a m fornp rows w pruned e d' :
  del_mailbox_body cfg d a m fornp rows w pruned = TxFail e d' -> okx true e.
Proof.
  unfold del_mailbox_body. destruct (del_mb _ m); intros H; inversion H; exact I.
Qed.

Lemma close_delete_body_okx d a m fornp w e d' :
  close_delete_body cfg d a m fornp w = TxFail e d' -> okx true e.
Proof.
  unfold close_delete_body. destruct (existsb mbs_opened (sel_mbs_all d m)); [discriminate|].
  destruct (del_nameplates_body cfg d a _ w false []) as [unps d1|e1 d1] eqn:E1.
  - destruct (del_mailbox_body cfg d1 a m fornp _ w false) as [umbs d2|e2 d2] eqn:E2.
    + discriminate.
    + intros H. inversion H; subst. exact (del_mailbox_body_okx _ _ _ _ _ _ _ _ _ E2).
  - intros H. inversion H; subst. exact (del_nameplates_body_okx _ _ _ _ _ _ _ _ E1).
Qed.

Lemma release_delete_body_okx d a npid w e d' :
  release_delete_body cfg d a npid w = TxFail e d' -> okx true e.
Proof.
  unfold release_delete_body. destruct (existsb nps_claimed (sel_nps_all d npid)); [discriminate|].
  destruct (del_np (del_nps_of d npid) npid) as [d2|]; [|intros H; inversion H; exact I].
  destruct (usage_on cfg); [|discriminate].
  destruct (summarize_nameplate _ _ _ _ _); [discriminate|intros H; inversion H; exact I].
Qed.

(** ** the operations of server.py *)

Lemma Q0_open_mailbox a m side w : Q0 true (open_mailbox a m side w).
Proof.
  unfold open_mailbox.
  apply Q0_bind; [apply Q0_tx; intros d e d'; apply open_body_okx|intros _].
  apply Q0_bind; [apply Q0_commit_chan|intros _].
  apply Q0_bind; [apply Q0_commit_chan|intros _].
  apply Q0_bind; [apply Q0_q|intros rows].
  apply Q0_if; [apply Q0_raise; exact I|apply Q0_ret].
Qed.

Lemma Q0_claim_nameplate a n side w draw : Q0 false (claim_nameplate a n side w draw).
Proof.
  unfold claim_nameplate.
  apply Q0_bind; [apply Q0_tx; intros d e d'; apply claim_body_okx|intros [npid mbox]].
  apply Q0_bind; [apply Q0_commit_chan|intros _].
  apply Q0_bind; [apply Q0_weaken, Q0_open_mailbox|intros _].
  apply Q0_bind; [apply Q0_q|intros rows].
  apply Q0_if; [apply Q0_raise; exact I|apply Q0_ret].
Qed.

Lemma Q0_allocate_nameplate a side w o draw : Q0 false (allocate_nameplate a side w o draw).
Proof.
  unfold allocate_nameplate.
  apply Q0_bind; [apply Q0_q|intros claimed].
  destruct (find_available claimed o) as [n| |].
  - apply Q0_bind; [apply Q0_claim_nameplate|intros _; apply Q0_ret].
  - apply Q0_raise. exact I.
  - apply Q0_raise. reflexivity.
Qed.

Lemma Q0_write_usage unps umbs : Q0 true (write_usage unps umbs).
Proof. apply Q0_utx. Qed.

Lemma Q0_release_nameplate a n side w : Q0 true (release_nameplate cfg a n side w).
Proof.
  unfold release_nameplate.
  apply Q0_bind.
  { apply Q0_tx. intros d e d'. destruct (release_mark_body d a n side) as [[npid d1]|]; discriminate. }
  intros [npid|]; [|apply Q0_ret].
  apply Q0_bind; [apply Q0_commit_chan|intros _].
  apply Q0_bind; [apply Q0_tx; intros d e d'; apply release_delete_body_okx|].
  intros [unps|]; [|apply Q0_ret].
  apply Q0_bind; [|intros _; apply Q0_commit_chan].
  apply Q0_if; [|apply Q0_ret].
  apply Q0_bind; [apply Q0_write_usage|intros _; apply Q0_commit_usage].
Qed.

Lemma Q0_send_all cs f : Q0 true (send_all cs f).
Proof.
  induction cs as [|c rest IH]; cbn [send_all]; [apply Q0_ret|].
  apply Q0_bind; [apply Q0_send|intros _; exact IH].
Qed.

Lemma Q0_send_each c l : Q0 true (send_each c l).
Proof.
  induction l as [|r rest IH]; cbn [send_each]; [apply Q0_ret|].
  apply Q0_bind; [apply Q0_send|intros _; exact IH].
Qed.

Lemma Q0_add_message a m r : Q0 true (add_message a m r).
Proof.
  unfold add_message.
  apply Q0_bind; [apply Q0_tx; intros d e d'; discriminate|intros _].
  apply Q0_bind; [apply Q0_commit_chan|intros _].
  apply Q0_bind; [apply Q0_get|intros s0]. apply Q0_send_all.
Qed.

Lemma Q0_get_messages a m : Q0 true (get_messages a m).
Proof. apply Q0_q. Qed.

Lemma Q0_log_client_version a side w cv : Q0 true (log_client_version cfg a side w cv).
Proof.
  unfold log_client_version. apply Q0_if; [|apply Q0_ret].
  apply Q0_bind; [apply Q0_utx|intros _; apply Q0_commit_usage].
Qed.

Lemma QS_stop_listeners a m : QS true (stop_listeners a m).
Proof.
  intros s. cbn [stop_listeners].
  exists (fun c => existsb (Nat.eqb c) (subs_of a m (subs s))). reflexivity.
Qed.

Lemma QS_mailbox_close a m side mood w : QS true (mailbox_close cfg a m side mood w).
Proof.
  unfold mailbox_close.
  apply QS_bind.
  { apply Q0_QS, Q0_tx. intros d e d'.
    destruct (close_mark_body d a m side mood) as [[fornp d1]|]; discriminate. }
  intros [fornp|]; [|apply Q0_QS, Q0_ret].
  apply QS_bind; [apply Q0_QS, Q0_commit_chan|intros _].
  apply QS_bind; [apply Q0_QS, Q0_tx; intros d e d'; apply close_delete_body_okx|].
  intros [[unps umbs]|]; [|apply Q0_QS, Q0_ret].
  apply QS_bind.
  { apply Q0_QS, Q0_if; [|apply Q0_ret].
    apply Q0_bind; [apply Q0_write_usage|intros _; apply Q0_commit_usage]. }
  intros _. apply QS_bind; [apply Q0_QS, Q0_commit_chan|intros _]. apply QS_stop_listeners.
Qed.

(** the sweep and the start-up code leave the registry alone (whatever they raise) *)
Definition C0 {A} (m : M A) : Prop := forall s, conns (match m s with Ok _ s' => s' | Exn _ s' => s' end) = conns s.

Lemma C0_of_Q0 strict {A} (m : M A) : Q0 strict m -> C0 m.
Proof. intros H s. specialize (H s). destruct (m s); [exact H|apply H]. Qed.

Lemma C0_bind {A B} (m : M A) (k : A -> M B) : C0 m -> (forall a, C0 (k a)) -> C0 (bind m k).
Proof.
  intros Hm Hk s. unfold bind. specialize (Hm s). destruct (m s) as [a s1|e s1]; [|exact Hm].
  rewrite (Hk a s1). exact Hm.
Qed.

Lemma C0_try_catch {A} (m : M A) (h : exn -> M A) : C0 m -> (forall e, C0 (h e)) -> C0 (try_catch m h).
Proof.
  intros Hm Hh s. unfold try_catch. specialize (Hm s). destruct (m s) as [a s1|e s1]; [exact Hm|].
  rewrite (Hh e s1). exact Hm.
Qed.

Lemma C0_tx {A} (f : chan_db -> txres A) : C0 (tx f).
Proof. intros s. unfold tx. destruct (f (chan_w s)); reflexivity. Qed.

Lemma C0_prune_app a w old : C0 (prune_app cfg a w old).
Proof.
  unfold prune_app.
  apply C0_bind; [apply (C0_of_Q0 true), Q0_get|intros s0].
  apply C0_bind; [apply C0_tx|intros _].
  apply C0_bind; [apply (C0_of_Q0 true), Q0_commit_chan|intros _].
  apply C0_bind; [apply C0_tx|intros [[modified unps] umbs]].
  apply C0_bind.
  { destruct (usage_on cfg); [apply (C0_of_Q0 true), Q0_write_usage|apply (C0_of_Q0 true), Q0_ret]. }
  intros _. destruct modified; [|apply (C0_of_Q0 true), Q0_ret].
  apply C0_bind; [apply (C0_of_Q0 true), Q0_commit_chan|intros _].
  destruct (usage_on cfg); [apply (C0_of_Q0 true), Q0_commit_usage|apply (C0_of_Q0 true), Q0_ret].
Qed.

Lemma C0_prune_apps w old : forall apps, C0 (prune_apps cfg apps w old).
Proof.
  induction apps as [|a rest IH]; cbn [prune_apps]; [apply (C0_of_Q0 true), Q0_ret|].
  apply C0_bind; [apply C0_prune_app|intros _; exact IH].
Qed.

Lemma C0_dump_stats w r : C0 (dump_stats cfg w r).
Proof.
  unfold dump_stats. destruct (usage_on cfg); [|apply (C0_of_Q0 true), Q0_ret].
  apply C0_bind; [apply (C0_of_Q0 true), Q0_get|intros s0].
  apply C0_bind; [apply (C0_of_Q0 true), Q0_utx|intros _; apply (C0_of_Q0 true), Q0_commit_usage].
Qed.

Lemma C0_expire fault : C0 (expire cfg fault).
Proof.
  unfold expire, prune_all_apps.
  apply C0_bind; [apply (C0_of_Q0 true), Q0_get|intros s0].
  apply C0_bind; [|intros _; apply C0_dump_stats].
  destruct fault; [apply (C0_of_Q0 true), Q0_ret|].
  apply C0_try_catch; [|intros _; apply (C0_of_Q0 true), Q0_ret].
  apply C0_bind; [apply (C0_of_Q0 true), Q0_q|intros apps]. apply C0_prune_apps.
Qed.

End Ops.

(** * Part 2: the record of the acting connection after each handler *)

Lemma update_update c X X' l : update_conn c X' (update_conn c X l) = update_conn c X' l.
Proof.
  induction l as [|[c1 cs1] l IH]; cbn [update_conn]; [reflexivity|].
  destruct (Nat.eqb c c1) eqn:E; cbn [update_conn]; rewrite E; [reflexivity|].
  rewrite IH. reflexivity.
Qed.

Lemma update_same c X l : lookup_conn c l = Some X -> update_conn c X l = l.
Proof.
  induction l as [|[c1 cs1] l IH]; cbn [lookup_conn update_conn]; [reflexivity|].
  destruct (Nat.eqb c c1) eqn:E.
  - intros H. inversion H. apply Nat.eqb_eq in E. subst. reflexivity.
  - intros H. rewrite (IH H). reflexivity.
Qed.

(** what a command leaves of the acting connection's record, by kind of answer
    ([None]: no `error` frame) *)
Definition after_bind (cs : conn_state) (a sd : string) : conn_state := set_bound cs (Some (a, sd)).
Definition after_claim (cs : conn_state) (n : string) : conn_state :=
  set_nameplate_id (set_did_claim cs true) (Some n).
Definition after_open_refused (cs : conn_state) (m : string) : conn_state := set_mailbox_id cs (Some m).
Definition after_open (cs : conn_state) (m : string) : conn_state :=
  set_listening (set_mailbox (set_mailbox_id cs (Some m)) (Some m)) true.
Definition after_close (cs : conn_state) : conn_state :=
  mkConn (c_bound cs) (c_did_allocate cs) false (c_did_claim cs) (c_nameplate_id cs)
         (c_did_release cs) None (c_mailbox_id cs) true.

Definition conn_step (cs : conn_state) (msg : command) (k : option err_kind) : conn_state :=
  match k with
  | Some ErrOther => cs                       (* refused: nothing changes *)
  | Some _ =>                                 (* crowded / reclaimed *)
      match m_type msg with
      | Some TClaim => match m_nameplate msg with Some n => after_claim cs n | None => cs end
      | Some TOpen => match m_mailbox msg with Some m => after_open_refused cs m | None => cs end
      | _ => cs
      end
  | None =>
      match m_type msg with
      | Some TBind =>
          match m_appid msg, m_side msg with
          | Some a, Some sd => after_bind cs a sd
          | _, _ => cs
          end
      | Some TAllocate => set_did_allocate cs true
      | Some TClaim => match m_nameplate msg with Some n => after_claim cs n | None => cs end
      | Some TRelease => set_did_release cs true
      | Some TOpen => match m_mailbox msg with Some m => after_open cs m | None => cs end
      | Some TClose => after_close cs
      | _ => cs
      end
  end.

(** the recorded oracle has the shape the command consumes: a claim of a
    nameplate that does not exist draws a mailbox id; an allocate needs a
    possible outcome of the allocator and, when a name is found, a draw *)
Definition alloc_fits (d : chan_db) (a : string) (o : oracle) : Prop :=
  match find_available (sel_names d a) (o_alloc o) with
  | AllocOk _ => o_draw o <> None
  | AllocValueError => True
  | AllocOracleError => False
  end.

Definition claim_fits (d : chan_db) (a n : string) (o : oracle) : Prop :=
  sel_np d a n = None -> o_draw o <> None.

Definition oracle_fits (s : state) (c : nat) (msg : command) (o : oracle) : Prop :=
  match c_bound (conn_of s c), m_type msg with
  | Some (a, _), Some TAllocate => alloc_fits (chan_w s) a o
  | Some (a, _), Some TClaim =>
      match m_nameplate msg with
      | Some n => claim_fits (chan_w s) a n o
      | None => True
      end
  | _, _ => True
  end.

(** ** where an oracle misfit comes from *)

Lemma Q0_claim_rest a npid mbox side w :
  Q0 true (commit_chan ;;; open_mailbox a mbox side w ;;;
           rows <- q (fun d => sel_nps_all d npid) ;;
           if (2 <? List.length rows)%nat then raise XCrowded else ret mbox).
Proof.
  apply Q0_bind; [apply Q0_commit_chan|intros _].
  apply Q0_bind; [apply Q0_open_mailbox|intros _].
  apply Q0_bind; [apply Q0_q|intros rows].
  apply Q0_if; [apply Q0_raise; exact I|apply Q0_ret].
Qed.

Lemma claim_nameplate_oracle a n side w draw s s' :
  claim_nameplate a n side w draw s = Exn XOracle s' ->
  sel_np (chan_w s) a n = None /\ draw = None.
Proof.
  unfold claim_nameplate. unfold bind at 1. unfold tx.
  destruct (claim_body (chan_w s) a n side w draw) as [[npid mbox] d|e d] eqn:E.
  - cbv beta iota. intros H. exfalso.
    pose proof (Q0_claim_rest a npid mbox side w (set_chan_w s d)) as Q.
    rewrite H in Q. destruct Q as [_ Q]. discriminate Q.
  - intros H. inversion H; subst. exact (claim_body_oracle _ _ _ _ _ _ _ E).
Qed.

Lemma allocate_nameplate_oracle a side w o draw s s' :
  allocate_nameplate a side w o draw s = Exn XOracle s' ->
  ~ match find_available (sel_names (chan_w s) a) o with
    | AllocOk _ => draw <> None
    | AllocValueError => True
    | AllocOracleError => False
    end.
Proof.
  unfold allocate_nameplate. unfold bind at 1. unfold q.
  destruct (find_available (sel_names (chan_w s) a) o) as [n| |].
  - unfold bind. destruct (claim_nameplate a n side w draw s) as [m s1|e s1] eqn:E; [discriminate|].
    intros H. inversion H; subst. apply claim_nameplate_oracle in E. destruct E as [_ ->].
    intros K. apply K. reflexivity.
  - discriminate.
  - intros _ K. exact K.
Qed.

(** ** the kind of answer: the `error` frame of an (oldest-first) event log, if any *)
Fixpoint answer_kind (l : list log_entry) : option err_kind :=
  match l with
  | [] => None
  | LFrame _ (FError k _) _ _ :: _ => Some k
  | _ :: l' => answer_kind l'
  end.

Definition noerr_entry (e : log_entry) : Prop :=
  match e with LFrame _ (FError _ _) _ _ => False | _ => True end.

Lemma answer_kind_app l1 l2 : Forall noerr_entry l1 -> answer_kind (l1 ++ l2) = answer_kind l2.
Proof.
  induction 1 as [|x l1 Hx Hl IH]; cbn [app answer_kind]; [reflexivity|].
  destruct x as [d|u|c f b tx]; try exact IH. destruct f; try exact IH. destruct Hx.
Qed.

Lemma answer_kind_noerr l : Forall noerr_entry l -> answer_kind l = None.
Proof. intros H. rewrite <- (app_nil_r l). rewrite (answer_kind_app l [] H). reflexivity. Qed.

Lemma eok_noerr n e : eok n (fun _ => True) None e -> noerr_entry e.
Proof.
  destruct e as [d|u|c f b tx]; cbn; auto. intros (_ & _ & H). destruct f; auto. discriminate H.
Qed.

Lemma WI_noerr n s : WI n (fun _ => True) None s -> Forall noerr_entry (rev (log s)).
Proof.
  intros (_ & H & _). rewrite Forall_forall in *. intros e He. apply in_rev in He.
  exact (eok_noerr n e (H e He)).
Qed.

Definition close_cmd (msg : command) : bool :=
  match m_type msg with Some TClose => true | _ => false end.

Section Handlers.
Variable cfg : config.
Variable c : nat.

(** the registry is [L] with the record of [c] replaced by [X] *)
Definition CS (X : conn_state) (L : list (nat * conn_state)) (s : state) : Prop :=
  conns s = update_conn c X L /\ lookup_conn c L <> None.

Lemma CS_lookup X L s : CS X L s -> lookup_conn c (conns s) = Some X.
Proof.
  intros [H Hl]. rewrite H. destruct (lookup_conn c L) as [cs0|] eqn:E; [|congruence].
  exact (lookup_update_same c X L cs0 E).
Qed.

Lemma CS_upd X X' L s : CS X L s -> CS X' L (set_conns s (update_conn c X' (conns s))).
Proof.
  intros [H Hl]. split; [|exact Hl]. cbn [conns set_conns]. rewrite H. apply update_update.
Qed.

Lemma CS_conns X L s s' : CS X L s -> conns s' = conns s -> CS X L s'.
Proof. intros [H Hl] E. split; [congruence|exact Hl]. Qed.

Lemma CS_stop X L s s' g :
  CS X L s -> conns s' = stop_map g (conns s) ->
  CS (if g c then stop_listener X else X) (stop_map g L) s'.
Proof.
  intros [H Hl] E. split.
  - rewrite E, H. apply stop_map_update.
  - rewrite lookup_stop_map. destruct (lookup_conn c L); congruence.
Qed.

Lemma CS_init s cs : lookup_conn c (conns s) = Some cs -> CS cs (conns s) s.
Proof. intros H. split; [symmetry; apply update_same; exact H|congruence]. Qed.

Lemma wp_Q0 strict {A} (m : M A) (Q : A -> state -> Prop) (E : exn -> state -> Prop) s :
  Q0 strict m ->
  (forall a s', conns s' = conns s -> Q a s') ->
  (forall e s', conns s' = conns s -> okx strict e -> E e s') ->
  wp m Q E s.
Proof.
  intros H HQ HE. unfold wp. specialize (H s). destruct (m s) as [a s'|e s'].
  - apply HQ. exact H.
  - destruct H as [H Hx]. apply HE; assumption.
Qed.

Lemma wp_QS strict {A} (m : M A) (Q : A -> state -> Prop) (E : exn -> state -> Prop) s :
  QS strict m ->
  (forall a s' g, conns s' = stop_map g (conns s) -> Q a s') ->
  (forall e s' g, conns s' = stop_map g (conns s) -> okx strict e -> E e s') ->
  wp m Q E s.
Proof.
  intros H HQ HE. unfold wp. specialize (H s). destruct (m s) as [a s'|e s'].
  - destruct H as [g H]. exact (HQ a s' g H).
  - destruct H as [[g H] Hx]. exact (HE e s' g H Hx).
Qed.

(** the registry a command leaves: [L0], or (for a close) [L0] with some listeners stopped *)
Definition Lrel (stops : bool) (L0 L : list (nat * conn_state)) : Prop :=
  L = L0 \/ (stops = true /\ exists g, L = stop_map g L0).

(** the outcome of a handler: on success the record is [Xok]; a protocol error
    [k] is never [ErrOther] and leaves [Xerr k]; an oracle misfit refutes [fit] *)
Definition HOk (stops : bool) (L0 : list (nat * conn_state)) (Xok : conn_state)
  : unit -> state -> Prop :=
  fun _ s' => exists L, Lrel stops L0 L /\ CS Xok L s'.

Definition HEx (stops : bool) (L0 : list (nat * conn_state)) (Xerr : err_kind -> conn_state)
           (fit : Prop) : exn -> state -> Prop :=
  fun e s' => exists X L, Lrel stops L0 L /\ CS X L s' /\
    (forall k, e = XErr k -> k <> ErrOther /\ X = Xerr k) /\ (e = XOracle -> ~ fit).

Lemma HEx_okx stops L0 Xerr fit X s' e :
  CS X L0 s' -> okx true e -> HEx stops L0 Xerr fit e s'.
Proof.
  intros H Hx. exists X, L0. split; [left; reflexivity|]. split; [exact H|].
  split; [intros k ->; destruct Hx|intros ->; discriminate Hx].
Qed.

Ltac cs_lookup H :=
  match goal with
  | |- context [lookup_conn c (conns ?st)] => rewrite (CS_lookup _ _ st H)
  end.

Lemma handle_ping_conns msg v s cs L0 :
  CS cs L0 s -> m_ping msg = Some v ->
  wp (handle_ping c msg) (HOk false L0 cs) (HEx false L0 (fun _ => cs) True) s.
Proof.
  intros H Hv. unfold handle_ping. rewrite Hv. wp_step.
  exists L0. split; [left; reflexivity|exact H].
Qed.

Lemma handle_list_conns a s cs L0 :
  CS cs L0 s ->
  wp (handle_list cfg c a) (HOk false L0 cs) (HEx false L0 (fun _ => cs) True) s.
Proof.
  intros H. unfold handle_list. wp_step. wp_step. wp_step.
  exists L0. split; [left; reflexivity|exact H].
Qed.

Lemma handle_bind_conns msg a sd s cs L0 :
  CS cs L0 s -> c_bound cs = None -> m_appid msg = Some a -> m_side msg = Some sd ->
  wp (handle_bind cfg c msg) (HOk false L0 (after_bind cs a sd)) (HEx false L0 (fun _ => cs) True) s.
Proof.
  intros H Hb Ha Hs. unfold handle_bind. wp_step. wp_step. cs_lookup H. rewrite Hb, Ha, Hs.
  wp_step. wp_step. wp_step. wp_step.
  pose proof (CS_upd cs (after_bind cs a sd) L0 s H) as H1.
  apply (wp_Q0 true); [apply Q0_log_client_version| |].
  - intros [] s' E. exists L0. split; [left; reflexivity|]. exact (CS_conns _ _ _ s' H1 E).
  - intros e s' E Hx. exact (HEx_okx _ _ _ _ _ _ _ (CS_conns _ _ _ s' H1 E) Hx).
Qed.

Lemma handle_allocate_conns a side o s cs L0 :
  CS cs L0 s -> c_did_allocate cs = false ->
  wp (handle_allocate c a side o) (HOk false L0 (set_did_allocate cs true))
     (HEx false L0 (fun _ => cs) (alloc_fits (chan_w s) a o)) s.
Proof.
  intros H Hd. unfold handle_allocate. wp_step. wp_step. cs_lookup H. rewrite Hd.
  wp_step. wp_step. wp_step.
  unfold wp.
  pose proof (Q0_allocate_nameplate a side (now s) (o_alloc o) (o_draw o) s) as Q.
  pose proof (allocate_nameplate_oracle a side (now s) (o_alloc o) (o_draw o) s) as O.
  destruct (allocate_nameplate a side (now s) (o_alloc o) (o_draw o) s) as [n s1|e s1].
  - pose proof (CS_conns _ _ _ s1 H Q) as H1.
    change (wp (cs0 <- get_conn c ;; set_conn c (set_did_allocate cs0 true) ;;; send c (FAllocated n))
               (HOk false L0 (set_did_allocate cs true))
               (HEx false L0 (fun _ => cs) (alloc_fits (chan_w s) a o)) s1).
    wp_step. wp_step. cs_lookup H1. wp_step. wp_step. wp_step.
    exists L0. split; [left; reflexivity|]. exact (CS_upd _ _ _ _ H1).
  - destruct Q as [Q Hx]. exists cs, L0. split; [left; reflexivity|].
    split; [exact (CS_conns _ _ _ s1 H Q)|]. split.
    + intros k ->. destruct Hx.
    + intros ->. exact (O s1 eq_refl).
Qed.

Lemma handle_claim_conns a side msg o n s cs L0 :
  CS cs L0 s -> m_nameplate msg = Some n -> c_did_claim cs = false ->
  wp (handle_claim c a side msg o) (HOk false L0 (after_claim cs n))
     (HEx false L0 (fun _ => after_claim cs n) (claim_fits (chan_w s) a n o)) s.
Proof.
  intros H Hn Hd. unfold handle_claim. rewrite Hn. wp_step. wp_step. cs_lookup H. rewrite Hd.
  wp_step. wp_step. wp_step. wp_step.
  pose proof (CS_upd cs (after_claim cs n) L0 s H) as H1.
  fold (after_claim cs n).
  set (s1 := set_conns s (update_conn c (after_claim cs n) (conns s))) in *.
  wp_step. unfold catch_crowded_reclaimed. wp_step.
  unfold wp.
  pose proof (Q0_claim_nameplate a n side (now s1) (o_draw o) s1) as Q.
  pose proof (claim_nameplate_oracle a n side (now s1) (o_draw o) s1) as O.
  destruct (claim_nameplate a n side (now s1) (o_draw o) s1) as [m s2|e s2].
  - exists L0. split; [left; reflexivity|]. exact (CS_conns _ _ _ s2 H1 Q).
  - destruct Q as [Q Hx]. pose proof (CS_conns _ _ _ s2 H1 Q) as H2.
    assert (G : forall k, k <> ErrOther ->
                HEx false L0 (fun _ => after_claim cs n) (claim_fits (chan_w s) a n o) (XErr k) s2).
    { intros k Hk. exists (after_claim cs n), L0. split; [left; reflexivity|]. split; [exact H2|].
      split; [intros k' K; inversion K; subst; auto|discriminate]. }
    destruct e; cbv beta iota; try (apply G; discriminate);
      try (exists (after_claim cs n), L0; split; [left; reflexivity|]; split; [exact H2|];
           split; [discriminate|discriminate]).
    + exists (after_claim cs n), L0. split; [left; reflexivity|]. split; [exact H2|].
      split; [discriminate|]. intros _ K. destruct (O s2 eq_refl) as [O1 O2].
      exact (K O1 O2).
    + destruct Hx.
Qed.

Lemma handle_release_conns a side msg s cs L0 :
  CS cs L0 s -> c_did_release cs = false ->
  name_mismatch (m_nameplate msg) (c_nameplate_id cs) = false ->
  wp (handle_release cfg c a side msg) (HOk false L0 (set_did_release cs true))
     (HEx false L0 (fun _ => cs) True) s.
Proof.
  intros H Hd Hm. unfold handle_release. wp_step. wp_step. cs_lookup H. rewrite Hd.
  wp_step.
  assert (Hn : exists n, (match m_nameplate msg, c_nameplate_id cs with
                          | Some n, Some n' => if seqb n n' then ret n else err
                          | Some n, None => ret n
                          | None, Some n' => ret n'
                          | None, None => err
                          end) = ret n).
  { unfold name_mismatch in Hm.
    destruct (m_nameplate msg) as [n|], (c_nameplate_id cs) as [n'|]; try discriminate; eauto.
    apply negb_false_iff in Hm. rewrite Hm. eauto. }
  destruct Hn as [n ->]. wp_step. wp_step. wp_step. wp_step. wp_step.
  pose proof (CS_upd cs (set_did_release cs true) L0 s H) as H1.
  wp_step.
  apply (wp_Q0 true); [apply Q0_release_nameplate| |].
  - intros [] s' E. wp_step. exists L0. split; [left; reflexivity|]. exact (CS_conns _ _ _ s' H1 E).
  - intros e s' E Hx. exact (HEx_okx _ _ _ _ _ _ _ (CS_conns _ _ _ s' H1 E) Hx).
Qed.

(** [catch_crowded (open_mailbox ...)]: the registry stays; the only protocol error is `crowded` *)
Lemma wp_open_crowded a m side w (Q : unit -> state -> Prop) (E : exn -> state -> Prop) s :
  (forall s', conns s' = conns s -> Q tt s') ->
  (forall s', conns s' = conns s -> E (XErr ErrCrowded) s') ->
  (forall e s', conns s' = conns s -> okx true e -> E e s') ->
  wp (catch_crowded (open_mailbox a m side w)) Q E s.
Proof.
  intros HQ HC HE. unfold catch_crowded. wp_step. unfold wp.
  pose proof (Q0_open_mailbox a m side w s) as Q1.
  destruct (open_mailbox a m side w s) as [[] s1|e s1]; [apply HQ; exact Q1|].
  destruct Q1 as [Q1 Hx].
  destruct e; cbv beta iota; try (apply HE; [exact Q1|exact I]).
  - discriminate Hx.
  - apply HC. exact Q1.
  - destruct Hx.
Qed.

Lemma handle_open_conns a side msg m s cs L0 :
  CS cs L0 s -> c_mailbox cs = None -> m_mailbox msg = Some m ->
  wp (handle_open c a side msg) (HOk false L0 (after_open cs m))
     (HEx false L0 (fun _ => after_open_refused cs m) True) s.
Proof.
  intros H Hmb Hm. unfold handle_open. wp_step. wp_step. cs_lookup H. rewrite Hmb, Hm.
  wp_step. wp_step. wp_step. wp_step.
  pose proof (CS_upd cs (after_open_refused cs m) L0 s H) as H1.
  fold (after_open_refused cs m).
  set (s1 := set_conns s (update_conn c (after_open_refused cs m) (conns s))) in *.
  wp_step.
  apply wp_open_crowded.
  - intros s2 E2. pose proof (CS_conns _ _ _ s2 H1 E2) as H2.
    wp_step. wp_step. cs_lookup H2. wp_step. wp_step.
    pose proof (CS_upd _ (after_open cs m) L0 s2 H2) as H3.
    change (set_listening (set_mailbox (after_open_refused cs m) (Some m)) true) with (after_open cs m).
    set (s3 := set_conns s2 (update_conn c (after_open cs m) (conns s2))) in *.
    wp_step.
    apply (wp_Q0 true); [apply Q0_add_sub| |].
    + intros [] s4 E4. pose proof (CS_conns _ _ _ s4 H3 E4) as H4. wp_step.
      apply (wp_Q0 true); [apply Q0_get_messages| |].
      * intros old s5 E5. pose proof (CS_conns _ _ _ s5 H4 E5) as H5.
        apply (wp_Q0 true); [apply Q0_send_each| |].
        -- intros [] s6 E6. exists L0. split; [left; reflexivity|]. exact (CS_conns _ _ _ s6 H5 E6).
        -- intros e s6 E6 Hx. exact (HEx_okx _ _ _ _ _ _ _ (CS_conns _ _ _ s6 H5 E6) Hx).
      * intros e s5 E5 Hx. exact (HEx_okx _ _ _ _ _ _ _ (CS_conns _ _ _ s5 H4 E5) Hx).
    + intros e s4 E4 Hx. exact (HEx_okx _ _ _ _ _ _ _ (CS_conns _ _ _ s4 H3 E4) Hx).
  - intros s2 E2. exists (after_open_refused cs m), L0. split; [left; reflexivity|].
    split; [exact (CS_conns _ _ _ s2 H1 E2)|]. split; [|discriminate].
    intros k K. inversion K; subst. split; [discriminate|reflexivity].
  - intros e s2 E2 Hx. exact (HEx_okx _ _ _ _ _ _ _ (CS_conns _ _ _ s2 H1 E2) Hx).
Qed.

Lemma handle_add_conns a side msg h ph bd s cs L0 :
  CS cs L0 s -> c_mailbox cs = Some h -> m_phase msg = Some ph -> m_body msg = Some bd ->
  wp (handle_add c a side msg) (HOk false L0 cs) (HEx false L0 (fun _ => cs) True) s.
Proof.
  intros H Hmb Hp Hb. unfold handle_add. wp_step. wp_step. cs_lookup H. rewrite Hmb, Hp, Hb.
  wp_step. wp_step.
  apply (wp_Q0 true); [apply Q0_add_message| |].
  - intros [] s' E. exists L0. split; [left; reflexivity|]. exact (CS_conns _ _ _ s' H E).
  - intros e s' E Hx. exact (HEx_okx _ _ _ _ _ _ _ (CS_conns _ _ _ s' H E) Hx).
Qed.

Lemma HEx_okx_rel stops L0 L Xerr fit X s' e :
  Lrel stops L0 L -> CS X L s' -> okx true e -> HEx stops L0 Xerr fit e s'.
Proof.
  intros HL H Hx. exists X, L. split; [exact HL|]. split; [exact H|].
  split; [intros k ->; destruct Hx|intros ->; discriminate Hx].
Qed.

Lemma after_close_final (X : conn_state) (g : bool) :
  set_mailbox (if g then stop_listener (set_did_close
                 (if c_listening X then set_listening X false else X) true)
               else set_did_close (if c_listening X then set_listening X false else X) true) None
  = after_close X.
Proof.
  destruct X as [b da li dc ni dr mb mi dcl]. cbn [c_listening].
  destruct g, li; reflexivity.
Qed.

(** the part of [handle_close] after the mailbox is at hand *)
Lemma close_tail_conns a held side mood w Xerr X1 s L0 :
  CS X1 L0 s ->
  wp (cs2 <- get_conn c ;;
      (if c_listening cs2
       then remove_sub a held c ;;; set_conn c (set_listening cs2 false)
       else ret tt) ;;;
      cs3 <- get_conn c ;;
      set_conn c (set_did_close cs3 true) ;;;
      mailbox_close cfg a held side mood w ;;;
      cs4 <- get_conn c ;;
      set_conn c (set_mailbox cs4 None) ;;;
      send c FClosed)
     (HOk true L0 (after_close X1)) (HEx true L0 Xerr True) s.
Proof.
  intros H. wp_step. wp_step. cs_lookup H. wp_step.
  set (X2 := if c_listening X1 then set_listening X1 false else X1).
  assert (W : forall s2, CS X2 L0 s2 ->
    wp (cs3 <- get_conn c ;;
        set_conn c (set_did_close cs3 true) ;;;
        mailbox_close cfg a held side mood w ;;;
        cs4 <- get_conn c ;;
        set_conn c (set_mailbox cs4 None) ;;;
        send c FClosed)
       (HOk true L0 (after_close X1)) (HEx true L0 Xerr True) s2).
  { intros s2 H2. wp_step. wp_step. cs_lookup H2. wp_step. wp_step.
    pose proof (CS_upd _ (set_did_close X2 true) L0 s2 H2) as H3.
    set (s3 := set_conns s2 (update_conn c (set_did_close X2 true) (conns s2))) in *.
    wp_step.
    apply (wp_QS true); [apply QS_mailbox_close| |].
    - intros [] s4 g E4. pose proof (CS_stop _ _ _ s4 g H3 E4) as H4.
      wp_step. wp_step. cs_lookup H4. wp_step. wp_step. wp_step.
      exists (stop_map g L0). split; [right; split; [reflexivity|exists g; reflexivity]|].
      assert (EX : set_mailbox (if g c then stop_listener (set_did_close X2 true)
                                else set_did_close X2 true) None = after_close X1)
        by (unfold X2; apply after_close_final).
      rewrite EX. exact (CS_upd _ (after_close X1) _ s4 H4).
    - intros e s4 g E4 Hx. pose proof (CS_stop _ _ _ s4 g H3 E4) as H4.
      eapply HEx_okx_rel; [|exact H4|exact Hx].
      right. split; [reflexivity|exists g; reflexivity]. }
  destruct (c_listening X1) eqn:El.
  - wp_step. wp_step. wp_step. wp_step. apply W.
    exact (CS_upd _ (set_listening X1 false) L0 _ H).
  - wp_step. wp_step. apply W. exact H.
Qed.

Lemma handle_close_conns a side msg s cs L0 :
  CS cs L0 s -> c_did_close cs = false ->
  name_mismatch (m_mailbox msg) (c_mailbox_id cs) = false ->
  wp (handle_close cfg c a side msg) (HOk true L0 (after_close cs))
     (HEx true L0 (fun _ => cs) True) s.
Proof.
  intros H Hd Hm. unfold handle_close. wp_step. wp_step. cs_lookup H. rewrite Hd.
  wp_step.
  assert (Hn : exists m, (match m_mailbox msg, c_mailbox_id cs with
                          | Some m, Some m' => if seqb m m' then ret m else err
                          | Some m, None => ret m
                          | None, Some m' => ret m'
                          | None, None => err
                          end) = ret m).
  { unfold name_mismatch in Hm.
    destruct (m_mailbox msg) as [m|], (c_mailbox_id cs) as [m'|]; try discriminate; eauto.
    apply negb_false_iff in Hm. rewrite Hm. eauto. }
  destruct Hn as [m ->]. wp_step. wp_step. wp_step. wp_step.
  destruct (c_mailbox cs) as [h|] eqn:Emb.
  - wp_step. apply close_tail_conns. exact H.
  - wp_step.
    apply wp_open_crowded.
    + intros s2 E2. pose proof (CS_conns _ _ _ s2 H E2) as H2.
      wp_step. wp_step. cs_lookup H2. wp_step. wp_step. wp_step.
      pose proof (CS_upd _ (set_mailbox cs (Some m)) L0 s2 H2) as H3.
      change (after_close cs) with (after_close (set_mailbox cs (Some m))).
      apply close_tail_conns. exact H3.
    + intros s2 E2. exists cs, L0. split; [left; reflexivity|].
      split; [exact (CS_conns _ _ _ s2 H E2)|]. split; [|discriminate].
      intros k K. inversion K; subst. split; [discriminate|reflexivity].
    + intros e s2 E2 Hx. eapply HEx_okx_rel; [left; reflexivity|exact (CS_conns _ _ _ s2 H E2)|exact Hx].
Qed.

Lemma HEx_conv stops L0 (Xerr Xerr' : err_kind -> conn_state) (fit fit' : Prop) e s' :
  (forall k, k <> ErrOther -> Xerr k = Xerr' k) -> (fit' -> fit) ->
  HEx stops L0 Xerr fit e s' -> HEx stops L0 Xerr' fit' e s'.
Proof.
  intros HX Hf (X & L & HL & H & Hk & Ho). exists X, L. split; [exact HL|]. split; [exact H|].
  split.
  - intros k Ek. destruct (Hk k Ek) as [Hne ->]. split; [exact Hne|]. apply HX. exact Hne.
  - intros Ee K. exact (Ho Ee (Hf K)).
Qed.

Lemma wp_eq {A} (m m' : M A) (Q : A -> state -> Prop) (E : exn -> state -> Prop) s :
  m s = m' s -> wp m' Q E s -> wp m Q E s.
Proof. unfold wp. intros ->. auto. Qed.

Definition is_close (t : mtype) : bool := match t with TClose => true | _ => false end.

(** a command that is not [erroneous]: the record of the acting connection is
    [conn_step] of the kind of answer; a protocol error is never the plain
    refusal [ErrOther]; an oracle misfit refutes [oracle_fits] *)
Lemma dispatch_conns t msg o s cs L0 :
  CS cs L0 s -> m_type msg = Some t -> erroneous cs msg = false ->
  wp (dispatch cfg c t msg o)
     (HOk (is_close t) L0 (conn_step cs msg None))
     (HEx (is_close t) L0 (fun k => conn_step cs msg (Some k)) (oracle_fits s c msg o)) s.
Proof.
  intros H Et Herr.
  assert (Eco : conn_of s c = cs) by (unfold conn_of; rewrite (CS_lookup _ _ _ H); reflexivity).
  unfold erroneous in Herr. rewrite Et in Herr.
  unfold conn_step, oracle_fits. rewrite Et, Eco.
  destruct t.
  - (* ping *)
    destruct (m_ping msg) as [v|] eqn:Ev; [|discriminate].
    unfold dispatch. eapply wp_conseq; [exact (handle_ping_conns msg v s cs L0 H Ev)|auto|].
    intros e s'. apply HEx_conv; [intros [] Hk; try reflexivity; congruence|].
    destruct (c_bound cs) as [[a sd]|]; auto.
  - (* bind *)
    destruct (c_bound cs) as [b|] eqn:Eb; [discriminate|].
    destruct (m_appid msg) as [a|] eqn:Ea; [|discriminate].
    destruct (m_side msg) as [sd|] eqn:Es; [|discriminate].
    unfold dispatch.
    eapply wp_conseq; [exact (handle_bind_conns msg a sd s cs L0 H Eb Ea Es)|auto|].
    intros e s'. apply HEx_conv; [intros [] Hk; try reflexivity; congruence|auto].
  - (* list *)
    destruct (c_bound cs) as [[a sd]|] eqn:Eb; [|discriminate].
    eapply wp_eq; [apply (dispatch_bound cfg c TList msg o s a sd); [discriminate|discriminate|rewrite Eco; exact Eb]|].
    eapply wp_conseq; [exact (handle_list_conns a s cs L0 H)|auto|].
    intros e s'. apply HEx_conv; [intros [] Hk; try reflexivity; congruence|auto].
  - (* allocate *)
    destruct (c_bound cs) as [[a sd]|] eqn:Eb; [|discriminate].
    eapply wp_eq; [apply (dispatch_bound cfg c TAllocate msg o s a sd); [discriminate|discriminate|rewrite Eco; exact Eb]|].
    eapply wp_conseq; [exact (handle_allocate_conns a sd o s cs L0 H Herr)|auto|].
    intros e s'. apply HEx_conv; [intros [] Hk; try reflexivity; congruence|auto].
  - (* claim *)
    destruct (c_bound cs) as [[a sd]|] eqn:Eb; [|discriminate].
    destruct (m_nameplate msg) as [n|] eqn:En; [|discriminate].
    eapply wp_eq; [apply (dispatch_bound cfg c TClaim msg o s a sd); [discriminate|discriminate|rewrite Eco; exact Eb]|].
    eapply wp_conseq; [exact (handle_claim_conns a sd msg o n s cs L0 H En Herr)|auto|].
    intros e s'. apply HEx_conv; [intros [] Hk; try reflexivity; congruence|auto].
  - (* release *)
    destruct (c_bound cs) as [[a sd]|] eqn:Eb; [|discriminate].
    apply orb_false_iff in Herr. destruct Herr as [Hd Hm].
    eapply wp_eq; [apply (dispatch_bound cfg c TRelease msg o s a sd); [discriminate|discriminate|rewrite Eco; exact Eb]|].
    eapply wp_conseq; [exact (handle_release_conns a sd msg s cs L0 H Hd Hm)|auto|].
    intros e s'. apply HEx_conv; [intros [] Hk; try reflexivity; congruence|auto].
  - (* open *)
    destruct (c_bound cs) as [[a sd]|] eqn:Eb; [|discriminate].
    destruct (c_mailbox cs) as [h|] eqn:Emb; [discriminate|].
    destruct (m_mailbox msg) as [m|] eqn:Em; [|discriminate].
    eapply wp_eq; [apply (dispatch_bound cfg c TOpen msg o s a sd); [discriminate|discriminate|rewrite Eco; exact Eb]|].
    eapply wp_conseq; [exact (handle_open_conns a sd msg m s cs L0 H Emb Em)|auto|].
    intros e s'. apply HEx_conv; [intros [] Hk; try reflexivity; congruence|auto].
  - (* add *)
    destruct (c_bound cs) as [[a sd]|] eqn:Eb; [|discriminate].
    destruct (c_mailbox cs) as [h|] eqn:Emb; [|discriminate].
    destruct (m_phase msg) as [ph|] eqn:Ep; [|discriminate].
    destruct (m_body msg) as [bd|] eqn:Ebd; [|discriminate].
    eapply wp_eq; [apply (dispatch_bound cfg c TAdd msg o s a sd); [discriminate|discriminate|rewrite Eco; exact Eb]|].
    eapply wp_conseq; [exact (handle_add_conns a sd msg h ph bd s cs L0 H Emb Ep Ebd)|auto|].
    intros e s'. apply HEx_conv; [intros [] Hk; try reflexivity; congruence|auto].
  - (* close *)
    destruct (c_bound cs) as [[a sd]|] eqn:Eb; [|discriminate].
    apply orb_false_iff in Herr. destruct Herr as [Hd Hm].
    eapply wp_eq; [apply (dispatch_bound cfg c TClose msg o s a sd); [discriminate|discriminate|rewrite Eco; exact Eb]|].
    eapply wp_conseq; [exact (handle_close_conns a sd msg s cs L0 H Hd Hm)|auto|].
    intros e s'. apply HEx_conv; [intros [] Hk; try reflexivity; congruence|auto].
  - (* unknown *)
    destruct (c_bound cs); discriminate.
Qed.

(** ** onMessage as a whole, from an event boundary (empty log) *)
Theorem on_message_conns msg o s cs :
  lookup_conn c (conns s) = Some cs -> log s = [] ->
  match on_message cfg c msg o s with
  | Ok _ s' =>
      exists L, Lrel (close_cmd msg) (conns s) L /\
        conns s' = update_conn c (conn_step cs msg (answer_kind (rev (log s')))) L /\
        (erroneous cs msg = true <-> answer_kind (rev (log s')) = Some ErrOther)
  | Exn e s' =>
      exists X L, Lrel (close_cmd msg) (conns s) L /\ conns s' = update_conn c X L /\
        (forall k, e <> XErr k) /\ (e = XOracle -> ~ oracle_fits s c msg o) /\
        erroneous cs msg = false
  end.
Proof.
  intros Hl Hlog.
  assert (Eco : conn_of s c = cs) by (unfold conn_of; rewrite Hl; reflexivity).
  destruct (erroneous cs msg) eqn:Herr.
  - rewrite (erroneous_harmless cfg c msg o s) by (rewrite Eco; exact Herr).
    rewrite Hlog, app_nil_r. cbn [log set_log conns].
    assert (Ek : answer_kind (rev (LFrame c (FError ErrOther msg) (is_clean s) (now s) ::
                 match m_type msg with
                 | Some _ => [LFrame c (FAck (m_id msg)) (is_clean s) (now s)]
                 | None => []
                 end)) = Some ErrOther).
    { destruct (m_type msg); reflexivity. }
    rewrite Ek. exists (conns s). split; [left; reflexivity|].
    split; [symmetry; apply update_same; exact Hl|]. split; reflexivity.
  - destruct (m_type msg) as [t|] eqn:Et;
      [|unfold erroneous in Herr; rewrite Et in Herr; discriminate].
    set (s1 := set_log s (LFrame c (FAck (m_id msg)) (is_clean s) (now s) :: log s)).
    assert (H1 : CS cs (conns s) s1) by exact (CS_init s cs Hl).
    pose proof (dispatch_conns t msg o s1 cs (conns s) H1 Et Herr) as D.
    assert (W1 : WI (now s) (fun _ => True) None s1).
    { split; [reflexivity|]. split.
      - unfold s1. cbn [log set_log]. rewrite Hlog. constructor; [|constructor].
        cbn [eok]. split; [reflexivity|]. split; exact I.
      - intros p _. exact I. }
    pose proof (wpres_elim _ _ _ _ s1 (wpres_dispatch (now s) (fun _ => True) None cfg c I t msg o) W1) as W.
    assert (Ecl : is_close t = close_cmd msg) by (unfold close_cmd; rewrite Et; reflexivity).
    rewrite Ecl in D.
    unfold on_message. rewrite Et. unfold try_catch. unfold bind at 1.
    change (send c (FAck (m_id msg)) s) with (Ok tt s1).
    cbv beta iota. unfold wp in D.
    destruct (dispatch cfg c t msg o s1) as [[] s2|e s2].
    + destruct D as (L & HL & [D1 D2]). apply WI_noerr in W.
      rewrite (answer_kind_noerr _ W). exists L. split; [exact HL|]. split; [exact D1|].
      split; discriminate.
    + destruct D as (X & L & HL & [D1 D2] & Dk & Do). apply WI_noerr in W.
      destruct e as [| | | | | |k];
        try (exists X, L; split; [exact HL|]; split; [exact D1|]; split; [discriminate|];
             split; [exact Do|reflexivity]).
      destruct (Dk k eq_refl) as [Hne ->].
      cbn [send log set_log conns rev].
      rewrite (answer_kind_app _ _ W). cbn [answer_kind].
      exists L. split; [exact HL|]. split; [exact D1|].
      split; [discriminate|]. intros K. inversion K. contradiction.
Qed.

End Handlers.

(** * Part 3: events *)

(** the flags of a connection record that only its own commands write
    ([c_listening] and [c_mailbox] are also cleared when the mailbox is deleted
    by somebody else's close) *)
Record flags := mkFlags
  { f_bound : option (string * string);
    f_did_allocate : bool;
    f_did_claim : bool;
    f_nameplate_id : option string;
    f_did_release : bool;
    f_mailbox_id : option string;
    f_did_close : bool }.

Definition flags_of (cs : conn_state) : flags :=
  mkFlags (c_bound cs) (c_did_allocate cs) (c_did_claim cs) (c_nameplate_id cs)
          (c_did_release cs) (c_mailbox_id cs) (c_did_close cs).

Definition new_flags : flags := flags_of new_conn.

(** the flags of connection [c] in state [s]; [None]: not connected *)
Definition conn_flags (s : state) (c : nat) : option flags :=
  option_map flags_of (lookup_conn c (conns s)).

(** what a command sent on the connection does to its flags, by the kind of
    answer it got ([None]: no `error` frame) *)
Definition flag_step (fl : flags) (msg : command) (k : option err_kind) : flags :=
  match k with
  | Some ErrOther => fl
  | Some _ =>
      match m_type msg with
      | Some TClaim =>
          match m_nameplate msg with
          | Some n => mkFlags (f_bound fl) (f_did_allocate fl) true (Some n) (f_did_release fl)
                              (f_mailbox_id fl) (f_did_close fl)
          | None => fl
          end
      | Some TOpen =>
          match m_mailbox msg with
          | Some m => mkFlags (f_bound fl) (f_did_allocate fl) (f_did_claim fl) (f_nameplate_id fl)
                              (f_did_release fl) (Some m) (f_did_close fl)
          | None => fl
          end
      | _ => fl
      end
  | None =>
      match m_type msg with
      | Some TBind =>
          match m_appid msg, m_side msg with
          | Some a, Some sd => mkFlags (Some (a, sd)) (f_did_allocate fl) (f_did_claim fl)
                                       (f_nameplate_id fl) (f_did_release fl) (f_mailbox_id fl)
                                       (f_did_close fl)
          | _, _ => fl
          end
      | Some TAllocate => mkFlags (f_bound fl) true (f_did_claim fl) (f_nameplate_id fl)
                                  (f_did_release fl) (f_mailbox_id fl) (f_did_close fl)
      | Some TClaim =>
          match m_nameplate msg with
          | Some n => mkFlags (f_bound fl) (f_did_allocate fl) true (Some n) (f_did_release fl)
                              (f_mailbox_id fl) (f_did_close fl)
          | None => fl
          end
      | Some TRelease => mkFlags (f_bound fl) (f_did_allocate fl) (f_did_claim fl) (f_nameplate_id fl)
                                 true (f_mailbox_id fl) (f_did_close fl)
      | Some TOpen =>
          match m_mailbox msg with
          | Some m => mkFlags (f_bound fl) (f_did_allocate fl) (f_did_claim fl) (f_nameplate_id fl)
                              (f_did_release fl) (Some m) (f_did_close fl)
          | None => fl
          end
      | Some TClose => mkFlags (f_bound fl) (f_did_allocate fl) (f_did_claim fl) (f_nameplate_id fl)
                               (f_did_release fl) (f_mailbox_id fl) true
      | _ => fl
      end
  end.

Lemma flags_conn_step cs msg k : flags_of (conn_step cs msg k) = flag_step (flags_of cs) msg k.
Proof.
  unfold conn_step, flag_step.
  destruct k as [[]|]; try reflexivity;
    (destruct (m_type msg) as [[]|]; try reflexivity);
    try (destruct (m_nameplate msg); reflexivity);
    try (destruct (m_mailbox msg); reflexivity).
  destruct (m_appid msg); [|reflexivity]. destruct (m_side msg); reflexivity.
Qed.

Lemma flags_stop_listener cs : flags_of (stop_listener cs) = flags_of cs.
Proof. reflexivity. Qed.

Lemma Lrel_flags b l L c :
  Lrel b l L -> option_map flags_of (lookup_conn c L) = option_map flags_of (lookup_conn c l).
Proof.
  intros [->|[_ [g ->]]]; [reflexivity|]. rewrite lookup_stop_map.
  destruct (lookup_conn c l) as [cs|]; [|reflexivity]. destruct (g c); reflexivity.
Qed.

Lemma Lrel_fst b l L : Lrel b l L -> map fst L = map fst l.
Proof. intros [->|[_ [g ->]]]; [reflexivity|apply stop_map_fst]. Qed.

Lemma Lrel_lookup_some b l L c : Lrel b l L -> lookup_conn c l <> None -> lookup_conn c L <> None.
Proof.
  intros H Hn. pose proof (Lrel_flags b l L c H) as E.
  destruct (lookup_conn c l); [|congruence]. destruct (lookup_conn c L); [discriminate|discriminate E].
Qed.

Section Events.
Variable cfg : config.

Lemma drop_conn_conns c s : conns (drop_conn c s) = remove_conn c (conns s).
Proof.
  unfold drop_conn, on_close. rewrite bind_get_conn.
  destruct (c_mailbox (conn_of s c)) as [m|]; [|reflexivity].
  destruct (c_bound (conn_of s c)) as [[a sd]|]; [|reflexivity].
  destruct (c_listening (conn_of s c)); reflexivity.
Qed.

Lemma drop_conn_log c s : log (drop_conn c s) = log s.
Proof.
  unfold drop_conn, on_close. rewrite bind_get_conn.
  destruct (c_mailbox (conn_of s c)) as [m|]; [|reflexivity].
  destruct (c_bound (conn_of s c)) as [[a sd]|]; [|reflexivity].
  destruct (c_listening (conn_of s c)); reflexivity.
Qed.

(** the step of a command on a connected connection, unfolded *)
Lemma step_cmd_eq c msg o s :
  has_conn c s = true ->
  step cfg s (EB (ECmd c msg o)) =
  match on_message cfg c msg o (set_log s []) with
  | Ok _ s' => (set_log s' [], mkObs true (rev (log s')) None [])
  | Exn e s' => (set_log (drop_conn c s') [], mkObs true (rev (log s')) (Some e) [])
  end.
Proof.
  intros Hc. unfold step. cbv zeta. unfold step_b.
  change (has_conn c (set_log s [])) with (has_conn c s). rewrite Hc.
  destruct (on_message cfg c msg o (set_log s [])) as [[] s'|e s']; [reflexivity|].
  rewrite drop_conn_log. reflexivity.
Qed.

Lemma step_cmd_absent c msg o s :
  has_conn c s = false ->
  step cfg s (EB (ECmd c msg o)) = (set_log s [], mkObs false [] None []).
Proof.
  intros Hc. unfold step. cbv zeta. unfold step_b.
  change (has_conn c (set_log s [])) with (has_conn c s). rewrite Hc. reflexivity.
Qed.

(** ** the registry after a command: exact *)
Theorem cmd_step_conns s c msg o cs :
  lookup_conn c (conns s) = Some cs ->
  let '(s', ob) := step cfg s (EB (ECmd c msg o)) in
  exists L, Lrel (close_cmd msg) (conns s) L /\
    match o_exc ob with
    | None =>
        conns s' = update_conn c (conn_step cs msg (answer_kind (o_log ob))) L /\
        (erroneous cs msg = true <-> answer_kind (o_log ob) = Some ErrOther)
    | Some e =>
        conns s' = remove_conn c L /\ (forall k, e <> XErr k) /\
        (e = XOracle -> ~ oracle_fits s c msg o) /\ erroneous cs msg = false
    end.
Proof.
  intros Hl.
  assert (Hc : has_conn c s = true) by (unfold has_conn; rewrite Hl; reflexivity).
  rewrite (step_cmd_eq c msg o s Hc).
  pose proof (on_message_conns cfg c msg o (set_log s []) cs Hl eq_refl) as H.
  destruct (on_message cfg c msg o (set_log s [])) as [[] s'|e s'].
  - destruct H as (L & HL & H1 & H2). exists L. split; [exact HL|].
    cbn [o_exc o_log conns set_log]. split; assumption.
  - destruct H as (X & L & HL & H1 & H2 & H3 & H4). exists L. split; [exact HL|].
    cbn [o_exc o_log conns set_log]. rewrite drop_conn_conns, H1, remove_update.
    split; [reflexivity|]. split; [exact H2|]. split; [exact H3|exact H4].
Qed.

(** ** the registry after every other event *)

Lemma run_m_expire_conns fault s : conns (fst (run_m (expire cfg fault) s)) = conns s.
Proof.
  unfold run_m. pose proof (C0_expire cfg fault s) as H.
  destruct (expire cfg fault s); exact H.
Qed.

Lemma boot_on_conns d u t : conns (fst (fst (boot_on cfg d u t))) = [].
Proof.
  rewrite boot_on_eq.
  pose proof (C0_expire cfg false (mkState d d u u [] [] t t t (t + period cfg) [])) as H.
  destruct (expire cfg false _); exact H.
Qed.

Lemma step_restart_conns s : conns (fst (step cfg s ERestart)) = [].
Proof.
  unfold step. cbv zeta.
  pose proof (boot_on_conns (chan_c (set_log s [])) (usage_c (set_log s [])) (now (set_log s []))) as H.
  destruct (boot_on cfg _ _ _) as [[s1 bl] x]. exact H.
Qed.

Lemma step_crash_conns s k b : conns (fst (step cfg s (ECrash k b))) = [].
Proof.
  unfold step. cbv zeta. destruct (step_b cfg (set_log s []) b) as [[s1 valid] x].
  destruct ((count_commits (rev (log s1)) <? k)%nat || negb valid).
  - pose proof (boot_on_conns (chan_c s1) (usage_c s1) (now s1)) as H.
    destruct (boot_on cfg _ _ _) as [[s2 bl] x2]. exact H.
  - destruct (replay_commits _ _ _) as [d u].
    pose proof (boot_on_conns d u (now s1)) as H.
    destruct (boot_on cfg _ _ _) as [[s2 bl] x2]. exact H.
Qed.

Lemma step_connect_conns s c :
  conns (fst (step cfg s (EB (EConnect c)))) =
  if has_conn c s then conns s else conns s ++ [(c, new_conn)].
Proof.
  unfold step. cbv zeta. unfold step_b.
  change (has_conn c (set_log s [])) with (has_conn c s).
  destruct (has_conn c s); reflexivity.
Qed.

Lemma step_disconnect_conns s c :
  conns (fst (step cfg s (EB (EDisconnect c)))) =
  if has_conn c s then remove_conn c (conns s) else conns s.
Proof.
  unfold step. cbv zeta. unfold step_b.
  change (has_conn c (set_log s [])) with (has_conn c s).
  destruct (has_conn c s); [|reflexivity].
  exact (drop_conn_conns c (set_log s [])).
Qed.

Lemma step_sweep_conns s fault : conns (fst (step cfg s (EB (ESweep fault)))) = conns s.
Proof.
  unfold step. cbv zeta. unfold step_b.
  pose proof (run_m_expire_conns fault (set_log s [])) as H.
  destruct (run_m (expire cfg fault) (set_log s [])) as [s1 x]. exact H.
Qed.

Lemma step_advance_conns s dt fault : conns (fst (step cfg s (EB (EAdvance dt fault)))) = conns s.
Proof.
  unfold step. cbv zeta. unfold step_b.
  destruct (dt <? 0); [reflexivity|]. cbv zeta.
  destruct (next_due _ <=? now _); [|reflexivity].
  pose proof (run_m_expire_conns fault (set_now (set_log s []) (now (set_log s []) + dt))) as H.
  destruct (run_m (expire cfg fault) _) as [s2 x]. exact H.
Qed.

(** ** the flags of a connection along one event *)

Definition track_step (c : nat) (st : option flags) (e : event) (ob : obs) : option flags :=
  match e with
  | ERestart | ECrash _ _ => None
  | EB (EConnect c') =>
      if Nat.eqb c' c then match st with None => Some new_flags | Some _ => st end else st
  | EB (EDisconnect c') => if Nat.eqb c' c then None else st
  | EB (ECmd c' msg _) =>
      if Nat.eqb c' c then
        match st with
        | None => None
        | Some fl =>
            match o_exc ob with
            | Some _ => None              (* internal failure: the connection is dropped *)
            | None => Some (flag_step fl msg (answer_kind (o_log ob)))
            end
        end
      else st
  | EB _ => st
  end.

Lemma has_conn_flags c s : has_conn c s = true <-> conn_flags s c <> None.
Proof.
  unfold has_conn, conn_flags. destruct (lookup_conn c (conns s)); cbn; split; congruence.
Qed.

Lemma lookup_snoc_other c c' X l :
  c' <> c -> lookup_conn c (l ++ [(c', X)]) = lookup_conn c l.
Proof.
  intros Hne. destruct (lookup_conn c l) as [cs|] eqn:E.
  - apply lookup_app_l. exact E.
  - rewrite (lookup_app_r c l _ E). cbn [lookup_conn].
    destruct (Nat.eqb c c') eqn:E'; [apply Nat.eqb_eq in E'; congruence|reflexivity].
Qed.

Theorem flags_track_step s e c :
  conn_flags (fst (step cfg s e)) c = track_step c (conn_flags s c) e (snd (step cfg s e)).
Proof.
  destruct e as [b|k b|].
  - destruct b as [c'|c' msg o|c'|fault|dt fault]; cbn [track_step].
    + (* connect *)
      unfold conn_flags. rewrite step_connect_conns. unfold has_conn.
      destruct (Nat.eqb c' c) eqn:E.
      * apply Nat.eqb_eq in E. subst c'.
        destruct (lookup_conn c (conns s)) as [cs|] eqn:El; [rewrite El; reflexivity|].
        rewrite (lookup_app_r c _ _ El). cbn [lookup_conn]. rewrite Nat.eqb_refl. reflexivity.
      * apply Nat.eqb_neq in E.
        destruct (lookup_conn c' (conns s)); [reflexivity|].
        rewrite (lookup_snoc_other c c' _ _ E). reflexivity.
    + (* command *)
      destruct (lookup_conn c' (conns s)) as [cs'|] eqn:El.
      * pose proof (cmd_step_conns s c' msg o cs' El) as H.
        destruct (step cfg s (EB (ECmd c' msg o))) as [s' ob]. cbn [fst snd].
        destruct H as (L & HL & H).
        pose proof (Lrel_flags _ _ _ c HL) as HF.
        destruct (Nat.eqb c' c) eqn:E.
        -- apply Nat.eqb_eq in E. subst c'. unfold conn_flags. rewrite El. cbn [option_map].
           destruct (o_exc ob) as [ex|].
           ++ destruct H as (H & _). rewrite H, lookup_remove_same. reflexivity.
           ++ destruct H as (H & _). rewrite H.
              destruct (lookup_conn c L) as [cs0|] eqn:E0.
              ** rewrite (lookup_update_same c _ L cs0 E0). cbn [option_map].
                 rewrite flags_conn_step. reflexivity.
              ** rewrite El in HF. discriminate HF.
        -- apply Nat.eqb_neq in E. unfold conn_flags.
           destruct (o_exc ob) as [ex|].
           ++ destruct H as (H & _). rewrite H, (lookup_remove_other c' c L) by congruence. exact HF.
           ++ destruct H as (H & _). rewrite H, (lookup_update_other c' c _ L) by congruence. exact HF.
      * assert (Hc : has_conn c' s = false) by (unfold has_conn; rewrite El; reflexivity).
        rewrite (step_cmd_absent c' msg o s Hc). cbn [fst snd]. unfold conn_flags.
        cbn [conns set_log].
        destruct (Nat.eqb c' c) eqn:E; [|reflexivity].
        apply Nat.eqb_eq in E. subst c'. rewrite El. reflexivity.
    + (* disconnect *)
      unfold conn_flags. rewrite step_disconnect_conns. unfold has_conn.
      destruct (Nat.eqb c' c) eqn:E.
      * apply Nat.eqb_eq in E. subst c'.
        destruct (lookup_conn c (conns s)) as [cs|] eqn:El; [|rewrite El; reflexivity].
        rewrite lookup_remove_same. reflexivity.
      * apply Nat.eqb_neq in E.
        destruct (lookup_conn c' (conns s)); [|reflexivity].
        rewrite (lookup_remove_other c' c) by congruence. reflexivity.
    + unfold conn_flags. rewrite step_sweep_conns. reflexivity.
    + unfold conn_flags. rewrite step_advance_conns. reflexivity.
  - cbn [track_step]. unfold conn_flags. rewrite step_crash_conns. reflexivity.
  - cbn [track_step]. unfold conn_flags. rewrite step_restart_conns. reflexivity.
Qed.

End Events.

(** * Part 4: histories *)

Section Track.
Variable c : nat.

(** the flags of [c] after a list of (event, observation) pairs, from [st] *)
Definition track (st : option flags) (tr : list (event * obs)) : option flags :=
  fold_left (fun st p => track_step c st (fst p) (snd p)) tr st.

Lemma track_app st tr1 tr2 : track st (tr1 ++ tr2) = track (track st tr1) tr2.
Proof. apply fold_left_app. Qed.

Lemma track_cons st p tr : track st (p :: tr) = track (track_step c st (fst p) (snd p)) tr.
Proof. reflexivity. Qed.

(** the event ends the connection [c]: its disconnect, a restart, a crash, or
    an internal failure of one of its own commands *)
Definition drops (e : event) (ob : obs) : bool :=
  match e with
  | ERestart | ECrash _ _ => true
  | EB (EDisconnect c') => Nat.eqb c' c
  | EB (ECmd c' _ _) => Nat.eqb c' c && match o_exc ob with Some _ => true | None => false end
  | EB _ => false
  end.

Definition alive (tr : list (event * obs)) : Prop :=
  forall p, In p tr -> drops (fst p) (snd p) = false.

Lemma alive_nil : alive [].
Proof. intros p []. Qed.

Lemma alive_cons p tr : alive (p :: tr) <-> drops (fst p) (snd p) = false /\ alive tr.
Proof.
  split.
  - intros H. split; [apply H; left; reflexivity|]. intros q Hq. apply H. right. exact Hq.
  - intros [H1 H2] q [<-|Hq]; [exact H1|apply H2; exact Hq].
Qed.

Lemma alive_app tr1 tr2 : alive (tr1 ++ tr2) <-> alive tr1 /\ alive tr2.
Proof.
  split.
  - intros H. split; intros q Hq; apply H; apply in_or_app; [left|right]; exact Hq.
  - intros [H1 H2] q Hq. apply in_app_or in Hq. destruct Hq as [Hq|Hq]; [apply H1|apply H2]; exact Hq.
Qed.

Lemma track_step_some_inv st e ob fl :
  track_step c st e ob = Some fl ->
  (st = None /\ e = EB (EConnect c) /\ fl = new_flags) \/
  (exists fl', st = Some fl' /\ drops e ob = false /\
     (fl = fl' \/
      exists msg o, e = EB (ECmd c msg o) /\ o_exc ob = None /\
                    fl = flag_step fl' msg (answer_kind (o_log ob)))).
Proof.
  destruct e as [b|k b|]; cbn [track_step drops]; try discriminate.
  destruct b as [c'|c' msg o|c'|fault|dt fault].
  - destruct (Nat.eqb c' c) eqn:E.
    + apply Nat.eqb_eq in E. subst c'. destruct st as [fl'|].
      * intros H. inversion H; subst. right. exists fl. auto.
      * intros H. inversion H; subst. left. auto.
    + intros H. right. exists fl. auto.
  - destruct (Nat.eqb c' c) eqn:E; cbn [andb].
    + apply Nat.eqb_eq in E. subst c'. destruct st as [fl'|]; [|discriminate].
      destruct (o_exc ob) as [ex|] eqn:Ex; [discriminate|].
      intros H. inversion H; subst. right. exists fl'. split; [reflexivity|]. split; [reflexivity|].
      right. exists msg, o. auto.
    + intros H. right. exists fl. auto.
  - destruct (Nat.eqb c' c) eqn:E; [discriminate|]. intros H. right. exists fl. auto.
  - intros H. right. exists fl. auto.
  - intros H. right. exists fl. auto.
Qed.

Lemma track_step_alive fl e ob :
  drops e ob = false ->
  track_step c (Some fl) e ob = Some fl \/
  (exists msg o, e = EB (ECmd c msg o) /\ o_exc ob = None /\
     track_step c (Some fl) e ob = Some (flag_step fl msg (answer_kind (o_log ob)))).
Proof.
  destruct e as [b|k b|]; cbn [track_step drops]; try discriminate.
  destruct b as [c'|c' msg o|c'|fault|dt fault]; auto.
  - destruct (Nat.eqb c' c); auto.
  - destruct (Nat.eqb c' c) eqn:E; cbn [andb]; auto.
    apply Nat.eqb_eq in E. subst c'. destruct (o_exc ob) as [ex|] eqn:Ex; [discriminate|].
    intros _. right. exists msg, o. auto.
  - destruct (Nat.eqb c' c); [discriminate|auto].
Qed.

Lemma track_step_cmd fl msg o ob :
  o_exc ob = None ->
  track_step c (Some fl) (EB (ECmd c msg o)) ob = Some (flag_step fl msg (answer_kind (o_log ob))).
Proof. intros H. cbn [track_step]. rewrite Nat.eqb_refl, H. reflexivity. Qed.

(** ** a value-carrying flag: its value is the one written by the last command that wrote it *)
Section Value.
Variable V : Type.
Variable pv : flags -> option V.
Variable S : command -> option err_kind -> option V.
Hypothesis HS : forall fl msg k,
  pv (flag_step fl msg k) = match S msg k with Some v => Some v | None => pv fl end.
Hypothesis Hnew : pv new_flags = None.

(** no command of [c] in [tr] writes the flag *)
Definition nosetter (tr : list (event * obs)) : Prop :=
  forall msg o ob, In (EB (ECmd c msg o), ob) tr -> o_exc ob = None ->
    S msg (answer_kind (o_log ob)) = None.

Lemma nosetter_app tr1 tr2 : nosetter (tr1 ++ tr2) <-> nosetter tr1 /\ nosetter tr2.
Proof.
  split.
  - intros H. split; intros msg o ob Hin; apply (H msg o ob); apply in_or_app; [left|right]; exact Hin.
  - intros [H1 H2] msg o ob Hin. apply in_app_or in Hin.
    destruct Hin as [Hin|Hin]; [apply (H1 _ _ _ Hin)|apply (H2 _ _ _ Hin)].
Qed.

Lemma value_kept tr : forall fl0 v,
  pv fl0 = Some v -> alive tr -> nosetter tr ->
  exists fl, track (Some fl0) tr = Some fl /\ pv fl = Some v.
Proof.
  induction tr as [|[e ob] tr IH]; intros fl0 v Hv Ha Hn.
  - exists fl0. auto.
  - apply alive_cons in Ha. destruct Ha as [Hd Ha]. cbn [fst snd] in Hd.
    rewrite track_cons. cbn [fst snd].
    assert (Hn' : nosetter tr) by (intros msg o ob' Hin; apply (Hn msg o ob'); right; exact Hin).
    destruct (track_step_alive fl0 e ob Hd) as [->|(msg & o & -> & Ex & ->)].
    + apply (IH fl0 v Hv Ha Hn').
    + apply (IH _ v); [|exact Ha|exact Hn'].
      rewrite HS. rewrite (Hn msg o ob (or_introl eq_refl) Ex). exact Hv.
Qed.

Theorem value_origin tr : forall st fl v,
  track st tr = Some fl -> pv fl = Some v ->
  (exists fl0, st = Some fl0 /\ pv fl0 = Some v /\ alive tr /\ nosetter tr) \/
  (exists tr1 msg o ob tr2,
     tr = tr1 ++ (EB (ECmd c msg o), ob) :: tr2 /\ track st tr1 <> None /\ o_exc ob = None /\
     S msg (answer_kind (o_log ob)) = Some v /\ alive tr2 /\ nosetter tr2).
Proof.
  induction tr as [|[e ob] tr IH] using rev_ind; intros st fl v Ht Hv.
  - cbn in Ht. left. exists fl. split; [exact Ht|]. split; [exact Hv|].
    split; [apply alive_nil|intros msg o ob []].
  - rewrite track_app in Ht. cbn [track fold_left fst snd] in Ht.
    fold (track st tr) in Ht.
    destruct (track_step_some_inv _ _ _ _ Ht) as [(_ & _ & ->)|(fl' & Est & Hd & Hcase)];
      [rewrite Hnew in Hv; discriminate|].
    assert (Hlast_alive : alive [(e, ob)]).
    { intros p [<-|[]]. exact Hd. }
    destruct Hcase as [->|(msg & o & -> & Ex & ->)].
    + (* the last event does not write *)
      assert (Hlast_ns : nosetter [(e, ob)] \/ exists msg o, e = EB (ECmd c msg o)).
      { destruct e as [[c1|c1 m1 o1|c1|f1|d1 f1]|k1 b1|];
          try solve [left; intros msg o ob' [K|[]]; inversion K].
        destruct (Nat.eq_dec c1 c) as [->|Hne]; [right; eauto|].
        left. intros msg o ob' [K|[]]. inversion K. congruence. }
      destruct Hlast_ns as [Hlast_ns|(msg & o & ->)].
      * destruct (IH st fl' v Est Hv) as [(fl0 & E0 & Hv0 & Ha & Hn)|
                                        (tr1 & msg & o & ob1 & tr2 & -> & Hc & Ex & Hs & Ha & Hn)].
        -- left. exists fl0. split; [exact E0|]. split; [exact Hv0|].
           split; [apply alive_app; auto|apply nosetter_app; auto].
        -- right. exists tr1, msg, o, ob1, (tr2 ++ [(e, ob)]).
           split; [rewrite <- app_assoc; reflexivity|]. split; [exact Hc|]. split; [exact Ex|].
           split; [exact Hs|]. split; [apply alive_app; auto|apply nosetter_app; auto].
      * (* a command of c whose step leaves the flags as they are *)
        cbn [track_step] in Ht. rewrite Nat.eqb_refl, Est in Ht.
        destruct (o_exc ob) as [ex|] eqn:Ex; [discriminate|]. inversion Ht as [Hfl].
        destruct (S msg (answer_kind (o_log ob))) as [v'|] eqn:Es.
        -- (* it writes: it is the last writer *)
           assert (v' = v).
           { pose proof (HS fl' msg (answer_kind (o_log ob))) as K. rewrite Es, Hfl, Hv in K.
             inversion K. reflexivity. }
           subst v'. right. exists tr, msg, o, ob, [].
           split; [reflexivity|]. split; [rewrite Est; discriminate|]. split; [exact Ex|].
           split; [exact Es|]. split; [apply alive_nil|intros m1 o1 ob1 []].
        -- assert (Hns : nosetter [(EB (ECmd c msg o), ob)]).
           { intros m1 o1 ob1 [K|[]] _. inversion K; subst. exact Es. }
           destruct (IH st fl' v Est Hv) as [(fl0 & E0 & Hv0 & Ha & Hn)|
                                             (tr1 & m1 & o1 & ob1 & tr2 & -> & Hc & Ex1 & Hs & Ha & Hn)].
           ++ left. exists fl0. split; [exact E0|]. split; [exact Hv0|].
              split; [apply alive_app; auto|apply nosetter_app; auto].
           ++ right. exists tr1, m1, o1, ob1, (tr2 ++ [(EB (ECmd c msg o), ob)]).
              split; [rewrite <- app_assoc; reflexivity|]. split; [exact Hc|]. split; [exact Ex1|].
              split; [exact Hs|]. split; [apply alive_app; auto|apply nosetter_app; auto].
    + (* the last event is a command of c *)
      rewrite HS in Hv.
      destruct (S msg (answer_kind (o_log ob))) as [v'|] eqn:Es.
      * inversion Hv; subst v'. right. exists tr, msg, o, ob, [].
        split; [reflexivity|]. split; [rewrite Est; discriminate|]. split; [exact Ex|].
        split; [exact Es|]. split; [apply alive_nil|intros m1 o1 ob1 []].
      * assert (Hns : nosetter [(EB (ECmd c msg o), ob)]).
        { intros m1 o1 ob1 [K|[]] _. inversion K; subst. exact Es. }
        destruct (IH st fl' v Est Hv) as [(fl0 & E0 & Hv0 & Ha & Hn)|
                                          (tr1 & m1 & o1 & ob1 & tr2 & -> & Hc & Ex1 & Hs & Ha & Hn)].
        -- left. exists fl0. split; [exact E0|]. split; [exact Hv0|].
           split; [apply alive_app; auto|apply nosetter_app; auto].
        -- right. exists tr1, m1, o1, ob1, (tr2 ++ [(EB (ECmd c msg o), ob)]).
           split; [rewrite <- app_assoc; reflexivity|]. split; [exact Hc|]. split; [exact Ex1|].
           split; [exact Hs|]. split; [apply alive_app; auto|apply nosetter_app; auto].
Qed.

Theorem value_established tr1 msg o ob tr2 st v :
  track st tr1 <> None -> o_exc ob = None -> S msg (answer_kind (o_log ob)) = Some v ->
  alive tr2 -> nosetter tr2 ->
  exists fl, track st (tr1 ++ (EB (ECmd c msg o), ob) :: tr2) = Some fl /\ pv fl = Some v.
Proof.
  intros Hc Ex Hs Ha Hn. rewrite track_app, track_cons. cbn [fst snd].
  destruct (track st tr1) as [fl1|]; [|congruence].
  rewrite (track_step_cmd fl1 msg o ob Ex).
  apply value_kept; [|exact Ha|exact Hn]. rewrite HS, Hs. reflexivity.
Qed.

End Value.
End Track.

(** ** a once-set flag: it is set iff some command set it *)
Section TrackBool.
Variable c : nat.
Variable P : flags -> bool.
Variable Sb : command -> option err_kind -> bool.
Hypothesis HS : forall fl msg k, P (flag_step fl msg k) = P fl || Sb msg k.
Hypothesis Hnew : P new_flags = false.

Definition pv_of (fl : flags) : option unit := if P fl then Some tt else None.
Definition S_of (msg : command) (k : option err_kind) : option unit :=
  if Sb msg k then Some tt else None.

Lemma pv_of_step fl msg k :
  pv_of (flag_step fl msg k) = match S_of msg k with Some v => Some v | None => pv_of fl end.
Proof.
  unfold pv_of, S_of. rewrite HS. destruct (P fl), (Sb msg k); reflexivity.
Qed.

Lemma bool_kept tr : forall fl0,
  P fl0 = true -> alive c tr -> exists fl, track c (Some fl0) tr = Some fl /\ P fl = true.
Proof.
  induction tr as [|[e ob] tr IH]; intros fl0 Hp Ha.
  - exists fl0. auto.
  - apply alive_cons in Ha. destruct Ha as [Hd Ha]. cbn [fst snd] in Hd.
    rewrite track_cons. cbn [fst snd].
    destruct (track_step_alive c fl0 e ob Hd) as [->|(msg & o & -> & Ex & ->)].
    + apply (IH fl0 Hp Ha).
    + apply IH; [|exact Ha]. rewrite HS, Hp. reflexivity.
Qed.

Theorem bool_origin tr st fl :
  track c st tr = Some fl -> P fl = true ->
  (exists fl0, st = Some fl0 /\ P fl0 = true /\ alive c tr) \/
  (exists tr1 msg o ob tr2,
     tr = tr1 ++ (EB (ECmd c msg o), ob) :: tr2 /\ track c st tr1 <> None /\ o_exc ob = None /\
     Sb msg (answer_kind (o_log ob)) = true /\ alive c tr2).
Proof.
  intros Ht Hp.
  assert (Hnew' : pv_of new_flags = None) by (unfold pv_of; rewrite Hnew; reflexivity).
  assert (Hv : pv_of fl = Some tt) by (unfold pv_of; rewrite Hp; reflexivity).
  destruct (value_origin c unit pv_of S_of pv_of_step Hnew' tr st fl tt Ht Hv)
    as [(fl0 & E0 & Hv0 & Ha & _)|(tr1 & msg & o & ob & tr2 & E & Hc & Ex & Hs & Ha & _)].
  - left. exists fl0. split; [exact E0|]. split; [|exact Ha].
    unfold pv_of in Hv0. destruct (P fl0); [reflexivity|discriminate].
  - right. exists tr1, msg, o, ob, tr2. split; [exact E|]. split; [exact Hc|]. split; [exact Ex|].
    split; [|exact Ha]. unfold S_of in Hs. destruct (Sb msg _); [reflexivity|discriminate].
Qed.

Theorem bool_established tr1 msg o ob tr2 st :
  track c st tr1 <> None -> o_exc ob = None -> Sb msg (answer_kind (o_log ob)) = true ->
  alive c tr2 ->
  exists fl, track c st (tr1 ++ (EB (ECmd c msg o), ob) :: tr2) = Some fl /\ P fl = true.
Proof.
  intros Hc Ex Hs Ha. rewrite track_app, track_cons. cbn [fst snd].
  destruct (track c st tr1) as [fl1|]; [|congruence].
  rewrite (track_step_cmd c fl1 msg o ob Ex).
  apply bool_kept; [|exact Ha]. rewrite HS, Hs. apply orb_true_r.
Qed.

End TrackBool.

(** ** runs *)
Section Runs.
Variable cfg : config.

(** a history with the observation of each of its events *)
Fixpoint trace (s : state) (h : list event) : list (event * obs) :=
  match h with
  | [] => []
  | e :: h' => (e, snd (step cfg s e)) :: trace (fst (step cfg s e)) h'
  end.

Lemma run_nil_fst s : fst (run cfg s []) = s.
Proof. reflexivity. Qed.

Lemma run_app_fst h1 : forall s h2,
  fst (run cfg s (h1 ++ h2)) = fst (run cfg (fst (run cfg s h1)) h2).
Proof.
  induction h1 as [|e h1 IH]; intros s h2; [reflexivity|].
  cbn [app]. rewrite !(run_cons_fst cfg). apply IH.
Qed.

Lemma trace_combine h : forall s, trace s h = combine h (snd (run cfg s h)).
Proof.
  induction h as [|e h IH]; intros s; [reflexivity|].
  cbn [trace run]. destruct (step cfg s e) as [s1 o1]. cbn [fst snd].
  rewrite IH. destruct (run cfg s1 h) as [s2 os]. reflexivity.
Qed.

Lemma trace_app h1 : forall s h2,
  trace s (h1 ++ h2) = trace s h1 ++ trace (fst (run cfg s h1)) h2.
Proof.
  induction h1 as [|e h1 IH]; intros s h2; [reflexivity|].
  cbn [app trace]. rewrite IH, (run_cons_fst cfg). reflexivity.
Qed.

Lemma trace_split tr1 : forall s h e ob tr2,
  trace s h = tr1 ++ (e, ob) :: tr2 ->
  exists h1 h2, h = h1 ++ e :: h2 /\ tr1 = trace s h1 /\
    ob = snd (step cfg (fst (run cfg s h1)) e) /\
    tr2 = trace (fst (step cfg (fst (run cfg s h1)) e)) h2.
Proof.
  induction tr1 as [|p tr1 IH]; intros s h e ob tr2 H.
  - destruct h as [|e' h']; [discriminate|]. cbn [trace app] in H. inversion H; subst.
    exists [], h'. repeat split; reflexivity.
  - destruct h as [|e' h']; [discriminate|]. cbn [trace app] in H. inversion H as [[Hp Ht]].
    destruct (IH _ _ _ _ _ Ht) as (h1 & h2 & -> & -> & -> & ->).
    exists (e' :: h1), h2. rewrite (run_cons_fst cfg). repeat split; reflexivity.
Qed.

(** the flags of every connection after any history are what its own commands
    and their answers made them *)
Theorem flags_track_history h : forall s c,
  conn_flags (fst (run cfg s h)) c = track c (conn_flags s c) (trace s h).
Proof.
  induction h as [|e h IH]; intros s c; [reflexivity|].
  rewrite (run_cons_fst cfg). cbn [trace]. rewrite track_cons. cbn [fst snd].
  rewrite IH, flags_track_step. reflexivity.
Qed.

Lemma init_conns t0 : conns (init cfg t0) = [].
Proof. unfold init. apply boot_on_conns. Qed.

Lemma init_flags t0 c : conn_flags (init cfg t0) c = None.
Proof. unfold conn_flags. rewrite init_conns. reflexivity. Qed.

Corollary flags_track_init t0 h c :
  conn_flags (fst (run cfg (init cfg t0) h)) c = track c None (trace (init cfg t0) h).
Proof. rewrite flags_track_history, init_flags. reflexivity. Qed.

End Runs.

(** * Part 5: the flags and the commands sent (C01, C02, C03, C17) *)

Section FlagTheorems.
Variable cfg : config.
Variable t0 : Z.
Variable c : nat.

(** the state a command arrives in, its observation and its answer *)
Definition cmd_obs (s : state) (msg : command) (o : oracle) : obs :=
  snd (step cfg s (EB (ECmd c msg o))).
Definition cmd_next (s : state) (msg : command) (o : oracle) : state :=
  fst (step cfg s (EB (ECmd c msg o))).
(** the kind of `error` frame the command is answered with, [None] if none *)
Definition answer (s : state) (msg : command) (o : oracle) : option err_kind :=
  answer_kind (o_log (cmd_obs s msg o)).

Local Notation after h := (fst (run cfg (init cfg t0) h)).

Lemma connected_track h : has_conn c (after h) = true <-> track c None (trace cfg (init cfg t0) h) <> None.
Proof. rewrite has_conn_flags, flags_track_init. reflexivity. Qed.

(** a value-carrying flag holds [v] iff the connection, while connected, sent a
    command that wrote [v] (given its answer), did not fail internally, was
    not dropped afterwards, and sent no later command that wrote the flag *)
Theorem value_flag_run (V : Type) (pv : flags -> option V)
        (S : command -> option err_kind -> option V)
        (HS : forall fl msg k, pv (flag_step fl msg k) =
                               match S msg k with Some v => Some v | None => pv fl end)
        (Hnew : pv new_flags = None) h v :
  (exists fl, conn_flags (after h) c = Some fl /\ pv fl = Some v) <->
  exists h1 msg o h2, h = h1 ++ EB (ECmd c msg o) :: h2 /\
    has_conn c (after h1) = true /\
    o_exc (cmd_obs (after h1) msg o) = None /\
    S msg (answer (after h1) msg o) = Some v /\
    alive c (trace cfg (cmd_next (after h1) msg o) h2) /\
    nosetter c V S (trace cfg (cmd_next (after h1) msg o) h2).
Proof.
  split.
  - intros (fl & Hf & Hv). rewrite flags_track_init in Hf.
    destruct (value_origin c V pv S HS Hnew _ _ _ _ Hf Hv)
      as [(fl0 & E0 & _)|(tr1 & msg & o & ob & tr2 & E & Hc & Ex & Hs & Ha & Hn)];
      [discriminate|].
    destruct (trace_split cfg _ _ _ _ _ _ E) as (h1 & h2 & -> & -> & -> & ->).
    exists h1, msg, o, h2. split; [reflexivity|]. split; [apply connected_track; exact Hc|].
    split; [exact Ex|]. split; [exact Hs|]. split; [exact Ha|exact Hn].
  - intros (h1 & msg & o & h2 & -> & Hc & Ex & Hs & Ha & Hn).
    rewrite flags_track_init, trace_app. cbn [trace].
    apply (value_established c V pv S HS); try assumption.
    apply connected_track. exact Hc.
Qed.

(** a once-set flag is set iff the connection, while connected, sent a command
    that set it (given its answer), did not fail internally and was not
    dropped afterwards *)
Theorem bool_flag_run (P : flags -> bool) (Sb : command -> option err_kind -> bool)
        (HS : forall fl msg k, P (flag_step fl msg k) = P fl || Sb msg k)
        (Hnew : P new_flags = false) h :
  (exists fl, conn_flags (after h) c = Some fl /\ P fl = true) <->
  exists h1 msg o h2, h = h1 ++ EB (ECmd c msg o) :: h2 /\
    has_conn c (after h1) = true /\
    o_exc (cmd_obs (after h1) msg o) = None /\
    Sb msg (answer (after h1) msg o) = true /\
    alive c (trace cfg (cmd_next (after h1) msg o) h2).
Proof.
  split.
  - intros (fl & Hf & Hp). rewrite flags_track_init in Hf.
    destruct (bool_origin c P Sb HS Hnew _ _ _ Hf Hp)
      as [(fl0 & E0 & _)|(tr1 & msg & o & ob & tr2 & E & Hc & Ex & Hs & Ha)];
      [discriminate|].
    destruct (trace_split cfg _ _ _ _ _ _ E) as (h1 & h2 & -> & -> & -> & ->).
    exists h1, msg, o, h2. split; [reflexivity|]. split; [apply connected_track; exact Hc|].
    split; [exact Ex|]. split; [exact Hs|exact Ha].
  - intros (h1 & msg & o & h2 & -> & Hc & Ex & Hs & Ha).
    rewrite flags_track_init, trace_app. cbn [trace].
    apply (bool_established c P Sb HS); try assumption.
    apply connected_track. exact Hc.
Qed.

(** ** the writers of each flag (read off the handlers of Websocket.v) *)

(** [c_bound]: a bind with both fields that is not answered by an error *)
Definition sets_bound (msg : command) (k : option err_kind) : option (string * string) :=
  match k, m_type msg, m_appid msg, m_side msg with
  | None, Some TBind, Some a, Some sd => Some (a, sd)
  | _, _, _, _ => None
  end.

(** [c_did_allocate]: an allocate that is not answered by an error *)
Definition sets_allocate (msg : command) (k : option err_kind) : bool :=
  match k, m_type msg with None, Some TAllocate => true | _, _ => false end.

(** [c_did_claim], [c_nameplate_id]: a claim naming a nameplate that is not
    refused ([ErrOther]) -- the flags are set before the claim can be answered
    `crowded` or `reclaimed` *)
Definition sets_claim (msg : command) (k : option err_kind) : option string :=
  match k, m_type msg with
  | Some ErrOther, _ => None
  | _, Some TClaim => m_nameplate msg
  | _, _ => None
  end.

(** [c_did_release]: a release that is not answered by an error *)
Definition sets_release (msg : command) (k : option err_kind) : bool :=
  match k, m_type msg with None, Some TRelease => true | _, _ => false end.

(** [c_mailbox_id]: an open naming a mailbox that is not refused ([ErrOther])
    -- remembered before the open can be answered `crowded` *)
Definition sets_mailbox_id (msg : command) (k : option err_kind) : option string :=
  match k, m_type msg with
  | Some ErrOther, _ => None
  | _, Some TOpen => m_mailbox msg
  | _, _ => None
  end.

(** [c_did_close]: a close that is not answered by an error (a close on a
    connection that does not hold the mailbox opens it first and can be
    answered `crowded`: then nothing is recorded) *)
Definition sets_close (msg : command) (k : option err_kind) : bool :=
  match k, m_type msg with None, Some TClose => true | _, _ => false end.

Definition is_some {A} (x : option A) : bool := match x with Some _ => true | None => false end.

Ltac flag_cases :=
  intros fl msg k; unfold flag_step, sets_bound, sets_allocate, sets_claim, sets_release,
                          sets_mailbox_id, sets_close, is_some;
  destruct k as [[]|]; destruct (m_type msg) as [[]|]; cbn;
  repeat match goal with
         | |- context [match ?x with _ => _ end] => destruct x; cbn
         end;
  try reflexivity; try (rewrite orb_false_r; reflexivity); try (rewrite orb_true_r; reflexivity).

Lemma bound_writer : forall fl msg k,
  f_bound (flag_step fl msg k) =
  match sets_bound msg k with Some v => Some v | None => f_bound fl end.
Proof. flag_cases. Qed.

Lemma allocate_writer : forall fl msg k,
  f_did_allocate (flag_step fl msg k) = f_did_allocate fl || sets_allocate msg k.
Proof. flag_cases. Qed.

Lemma claim_writer : forall fl msg k,
  f_did_claim (flag_step fl msg k) = f_did_claim fl || is_some (sets_claim msg k).
Proof. flag_cases. Qed.

Lemma nameplate_writer : forall fl msg k,
  f_nameplate_id (flag_step fl msg k) =
  match sets_claim msg k with Some v => Some v | None => f_nameplate_id fl end.
Proof. flag_cases. Qed.

Lemma release_writer : forall fl msg k,
  f_did_release (flag_step fl msg k) = f_did_release fl || sets_release msg k.
Proof. flag_cases. Qed.

Lemma mailbox_id_writer : forall fl msg k,
  f_mailbox_id (flag_step fl msg k) =
  match sets_mailbox_id msg k with Some v => Some v | None => f_mailbox_id fl end.
Proof. flag_cases. Qed.

Lemma close_writer : forall fl msg k,
  f_did_close (flag_step fl msg k) = f_did_close fl || sets_close msg k.
Proof. flag_cases. Qed.

Lemma sets_bound_some msg k a sd :
  sets_bound msg k = Some (a, sd) <->
  k = None /\ m_type msg = Some TBind /\ m_appid msg = Some a /\ m_side msg = Some sd.
Proof.
  unfold sets_bound. destruct k as [k|]; [split; [discriminate|intros [K _]; discriminate]|].
  destruct (m_type msg) as [[]|]; try (split; [discriminate|intros (_ & K & _); discriminate]).
  destruct (m_appid msg) as [a'|]; [|split; [discriminate|intros (_ & _ & K & _); discriminate]].
  destruct (m_side msg) as [sd'|]; [|split; [discriminate|intros (_ & _ & _ & K); discriminate]].
  split.
  - intros H. inversion H. auto.
  - intros (_ & _ & H1 & H2). inversion H1. inversion H2. reflexivity.
Qed.

Lemma sets_claim_some msg k n :
  sets_claim msg k = Some n <->
  m_type msg = Some TClaim /\ m_nameplate msg = Some n /\ k <> Some ErrOther.
Proof.
  unfold sets_claim. split.
  - destruct k as [[]|]; try discriminate;
      (destruct (m_type msg) as [[]|]; try discriminate);
      intros H; (split; [reflexivity|]); (split; [exact H|discriminate]).
  - intros (-> & H & Hk). destruct k as [[]|]; try exact H. congruence.
Qed.

Lemma sets_mailbox_id_some msg k m :
  sets_mailbox_id msg k = Some m <->
  m_type msg = Some TOpen /\ m_mailbox msg = Some m /\ k <> Some ErrOther.
Proof.
  unfold sets_mailbox_id. split.
  - destruct k as [[]|]; try discriminate;
      (destruct (m_type msg) as [[]|]; try discriminate);
      intros H; (split; [reflexivity|]); (split; [exact H|discriminate]).
  - intros (-> & H & Hk). destruct k as [[]|]; try exact H. congruence.
Qed.

Lemma sets_allocate_true msg k : sets_allocate msg k = true <-> k = None /\ m_type msg = Some TAllocate.
Proof.
  unfold sets_allocate. destruct k as [k|]; [split; [discriminate|intros [K _]; discriminate]|].
  destruct (m_type msg) as [[]|]; split; try discriminate; auto; intros [_ K]; discriminate.
Qed.

Lemma sets_release_true msg k : sets_release msg k = true <-> k = None /\ m_type msg = Some TRelease.
Proof.
  unfold sets_release. destruct k as [k|]; [split; [discriminate|intros [K _]; discriminate]|].
  destruct (m_type msg) as [[]|]; split; try discriminate; auto; intros [_ K]; discriminate.
Qed.

Lemma sets_close_true msg k : sets_close msg k = true <-> k = None /\ m_type msg = Some TClose.
Proof.
  unfold sets_close. destruct k as [k|]; [split; [discriminate|intros [K _]; discriminate]|].
  destruct (m_type msg) as [[]|]; split; try discriminate; auto; intros [_ K]; discriminate.
Qed.

Lemma conn_flags_some s fl :
  conn_flags s c = Some fl <-> exists cs, lookup_conn c (conns s) = Some cs /\ flags_of cs = fl.
Proof.
  unfold conn_flags. destruct (lookup_conn c (conns s)) as [cs|]; cbn [option_map]; split.
  - intros H. inversion H. eauto.
  - intros (cs' & H & <-). inversion H. reflexivity.
  - discriminate.
  - intros (cs' & H & _). discriminate.
Qed.

Lemma bound_to_flags s a sd :
  bound_to s c a sd <-> exists fl, conn_flags s c = Some fl /\ f_bound fl = Some (a, sd).
Proof.
  unfold bound_to. split.
  - intros (cs & H & Hb). exists (flags_of cs). split; [apply conn_flags_some; eauto|exact Hb].
  - intros (fl & H & Hb). apply conn_flags_some in H. destruct H as (cs & H & <-). eauto.
Qed.

(** a connected connection's command that does not fail internally is refused
    (answered `error` without the crowded / reclaimed reason) iff it is
    [erroneous]: malformed or out of order *)
Theorem refused_iff_erroneous s msg o :
  has_conn c s = true -> o_exc (cmd_obs s msg o) = None ->
  (erroneous (conn_of s c) msg = true <-> answer s msg o = Some ErrOther).
Proof.
  intros Hc Ex. unfold has_conn in Hc. unfold conn_of.
  destruct (lookup_conn c (conns s)) as [cs|] eqn:El; [|discriminate].
  pose proof (cmd_step_conns cfg s c msg o cs El) as H. unfold answer, cmd_obs in *.
  destruct (step cfg s (EB (ECmd c msg o))) as [s' ob]. cbn [fst snd] in *.
  destruct H as (L & _ & H). rewrite Ex in H. apply H.
Qed.

(** *** C02 "the side the adding connection bound to", C17 "a second bind":
    [c_bound] *)
Theorem bound_flag_iff h a sd :
  bound_to (after h) c a sd <->
  exists h1 msg o h2, h = h1 ++ EB (ECmd c msg o) :: h2 /\
    has_conn c (after h1) = true /\
    o_exc (cmd_obs (after h1) msg o) = None /\
    (answer (after h1) msg o = None /\ m_type msg = Some TBind /\
     m_appid msg = Some a /\ m_side msg = Some sd) /\
    alive c (trace cfg (cmd_next (after h1) msg o) h2) /\
    nosetter c _ sets_bound (trace cfg (cmd_next (after h1) msg o) h2).
Proof.
  rewrite bound_to_flags.
  rewrite (value_flag_run _ f_bound sets_bound bound_writer eq_refl h (a, sd)).
  split; intros (h1 & msg & o & h2 & E & Hc & Ex & Hs & Ha & Hn);
    exists h1, msg, o, h2; (split; [exact E|]); (split; [exact Hc|]); (split; [exact Ex|]);
    (split; [apply sets_bound_some; exact Hs|]); auto.
Qed.

(** the same two theorems, read on the connection record *)
Lemma bool_field_run (P : flags -> bool) (Sb : command -> option err_kind -> bool)
      (HS : forall fl msg k, P (flag_step fl msg k) = P fl || Sb msg k)
      (Hnew : P new_flags = false) (pc : conn_state -> bool)
      (Hpc : forall cs, P (flags_of cs) = pc cs) h :
  (exists cs, lookup_conn c (conns (after h)) = Some cs /\ pc cs = true) <->
  exists h1 msg o h2, h = h1 ++ EB (ECmd c msg o) :: h2 /\
    has_conn c (after h1) = true /\
    o_exc (cmd_obs (after h1) msg o) = None /\
    Sb msg (answer (after h1) msg o) = true /\
    alive c (trace cfg (cmd_next (after h1) msg o) h2).
Proof.
  rewrite <- (bool_flag_run P Sb HS Hnew h). split.
  - intros (cs & Hl & Hf). exists (flags_of cs). split; [apply conn_flags_some; eauto|].
    rewrite Hpc. exact Hf.
  - intros (fl & Hf & Hp). apply conn_flags_some in Hf. destruct Hf as (cs & Hl & <-).
    exists cs. split; [exact Hl|]. rewrite <- Hpc. exact Hp.
Qed.

Lemma value_field_run (V : Type) (pv : flags -> option V)
      (S : command -> option err_kind -> option V)
      (HS : forall fl msg k, pv (flag_step fl msg k) =
                             match S msg k with Some v => Some v | None => pv fl end)
      (Hnew : pv new_flags = None) (pc : conn_state -> option V)
      (Hpc : forall cs, pv (flags_of cs) = pc cs) h v :
  (exists cs, lookup_conn c (conns (after h)) = Some cs /\ pc cs = Some v) <->
  exists h1 msg o h2, h = h1 ++ EB (ECmd c msg o) :: h2 /\
    has_conn c (after h1) = true /\
    o_exc (cmd_obs (after h1) msg o) = None /\
    S msg (answer (after h1) msg o) = Some v /\
    alive c (trace cfg (cmd_next (after h1) msg o) h2) /\
    nosetter c V S (trace cfg (cmd_next (after h1) msg o) h2).
Proof.
  rewrite <- (value_flag_run V pv S HS Hnew h v). split.
  - intros (cs & Hl & Hf). exists (flags_of cs). split; [apply conn_flags_some; eauto|].
    rewrite Hpc. exact Hf.
  - intros (fl & Hf & Hp). apply conn_flags_some in Hf. destruct Hf as (cs & Hl & <-).
    exists cs. split; [exact Hl|]. rewrite <- Hpc. exact Hp.
Qed.

(** *** C17 "a second allocate": [c_did_allocate] is set iff the connection
    sent an allocate that was answered without an `error` frame *)
Theorem did_allocate_iff h :
  (exists cs, lookup_conn c (conns (after h)) = Some cs /\ c_did_allocate cs = true) <->
  exists h1 msg o h2, h = h1 ++ EB (ECmd c msg o) :: h2 /\
    has_conn c (after h1) = true /\
    o_exc (cmd_obs (after h1) msg o) = None /\
    (answer (after h1) msg o = None /\ m_type msg = Some TAllocate) /\
    alive c (trace cfg (cmd_next (after h1) msg o) h2).
Proof.
  rewrite (bool_field_run f_did_allocate sets_allocate allocate_writer eq_refl
             c_did_allocate (fun _ => eq_refl) h).
  split; intros (h1 & msg & o & h2 & E & Hc & Ex & Hs & Ha);
    exists h1, msg, o, h2; (split; [exact E|]); (split; [exact Hc|]); (split; [exact Ex|]);
    (split; [apply sets_allocate_true; exact Hs|exact Ha]).
Qed.

(** *** C03 / C17 "a second claim": [c_did_claim] is set iff the connection
    sent a claim naming a nameplate that was not refused -- it may have been
    answered `crowded` or `reclaimed`: the flag is set before the claim can fail *)
Theorem did_claim_iff h :
  (exists cs, lookup_conn c (conns (after h)) = Some cs /\ c_did_claim cs = true) <->
  exists h1 msg o h2, h = h1 ++ EB (ECmd c msg o) :: h2 /\
    has_conn c (after h1) = true /\
    o_exc (cmd_obs (after h1) msg o) = None /\
    (exists n, m_type msg = Some TClaim /\ m_nameplate msg = Some n /\
               answer (after h1) msg o <> Some ErrOther) /\
    alive c (trace cfg (cmd_next (after h1) msg o) h2).
Proof.
  rewrite (bool_field_run f_did_claim (fun msg k => is_some (sets_claim msg k)) claim_writer eq_refl
             c_did_claim (fun _ => eq_refl) h).
  split; intros (h1 & msg & o & h2 & E & Hc & Ex & Hs & Ha);
    exists h1, msg, o, h2; (split; [exact E|]); (split; [exact Hc|]); (split; [exact Ex|]);
    (split; [|exact Ha]).
  - destruct (sets_claim msg (answer (after h1) msg o)) as [n|] eqn:Es; [|discriminate].
    exists n. apply sets_claim_some. exact Es.
  - destruct Hs as (n & Hs). apply sets_claim_some in Hs. rewrite Hs. reflexivity.
Qed.

(** *** C03 / C17 "release naming something other than what was claimed":
    [c_nameplate_id] is the nameplate of the last such claim *)
Theorem nameplate_id_iff h n :
  (exists cs, lookup_conn c (conns (after h)) = Some cs /\ c_nameplate_id cs = Some n) <->
  exists h1 msg o h2, h = h1 ++ EB (ECmd c msg o) :: h2 /\
    has_conn c (after h1) = true /\
    o_exc (cmd_obs (after h1) msg o) = None /\
    (m_type msg = Some TClaim /\ m_nameplate msg = Some n /\
     answer (after h1) msg o <> Some ErrOther) /\
    alive c (trace cfg (cmd_next (after h1) msg o) h2) /\
    nosetter c _ sets_claim (trace cfg (cmd_next (after h1) msg o) h2).
Proof.
  rewrite (value_field_run _ f_nameplate_id sets_claim nameplate_writer eq_refl
             c_nameplate_id (fun _ => eq_refl) h n).
  split; intros (h1 & msg & o & h2 & E & Hc & Ex & Hs & Ha & Hn);
    exists h1, msg, o, h2; (split; [exact E|]); (split; [exact Hc|]); (split; [exact Ex|]);
    (split; [apply sets_claim_some; exact Hs|]); auto.
Qed.

(** *** C17 "a second release": [c_did_release] *)
Theorem did_release_iff h :
  (exists cs, lookup_conn c (conns (after h)) = Some cs /\ c_did_release cs = true) <->
  exists h1 msg o h2, h = h1 ++ EB (ECmd c msg o) :: h2 /\
    has_conn c (after h1) = true /\
    o_exc (cmd_obs (after h1) msg o) = None /\
    (answer (after h1) msg o = None /\ m_type msg = Some TRelease) /\
    alive c (trace cfg (cmd_next (after h1) msg o) h2).
Proof.
  rewrite (bool_field_run f_did_release sets_release release_writer eq_refl
             c_did_release (fun _ => eq_refl) h).
  split; intros (h1 & msg & o & h2 & E & Hc & Ex & Hs & Ha);
    exists h1, msg, o, h2; (split; [exact E|]); (split; [exact Hc|]); (split; [exact Ex|]);
    (split; [apply sets_release_true; exact Hs|exact Ha]).
Qed.

(** *** C17 "a second close": [c_did_close] is set iff the connection sent a
    close that was answered without an `error` frame (neither refused nor,
    for a close on a connection not holding the mailbox, `crowded`) *)
Theorem did_close_iff h :
  (exists cs, lookup_conn c (conns (after h)) = Some cs /\ c_did_close cs = true) <->
  exists h1 msg o h2, h = h1 ++ EB (ECmd c msg o) :: h2 /\
    has_conn c (after h1) = true /\
    o_exc (cmd_obs (after h1) msg o) = None /\
    (answer (after h1) msg o = None /\ m_type msg = Some TClose) /\
    alive c (trace cfg (cmd_next (after h1) msg o) h2).
Proof.
  rewrite (bool_field_run f_did_close sets_close close_writer eq_refl
             c_did_close (fun _ => eq_refl) h).
  split; intros (h1 & msg & o & h2 & E & Hc & Ex & Hs & Ha);
    exists h1, msg, o, h2; (split; [exact E|]); (split; [exact Hc|]); (split; [exact Ex|]);
    (split; [apply sets_close_true; exact Hs|exact Ha]).
Qed.

(** *** C17 "close naming something other than what was opened":
    [c_mailbox_id] is the mailbox of the last open that was not refused (it is
    remembered before the open can be answered `crowded`) *)
Theorem mailbox_id_iff h m :
  (exists cs, lookup_conn c (conns (after h)) = Some cs /\ c_mailbox_id cs = Some m) <->
  exists h1 msg o h2, h = h1 ++ EB (ECmd c msg o) :: h2 /\
    has_conn c (after h1) = true /\
    o_exc (cmd_obs (after h1) msg o) = None /\
    (m_type msg = Some TOpen /\ m_mailbox msg = Some m /\
     answer (after h1) msg o <> Some ErrOther) /\
    alive c (trace cfg (cmd_next (after h1) msg o) h2) /\
    nosetter c _ sets_mailbox_id (trace cfg (cmd_next (after h1) msg o) h2).
Proof.
  rewrite (value_field_run _ f_mailbox_id sets_mailbox_id mailbox_id_writer eq_refl
             c_mailbox_id (fun _ => eq_refl) h m).
  split; intros (h1 & msg & o & h2 & E & Hc & Ex & Hs & Ha & Hn);
    exists h1, msg, o, h2; (split; [exact E|]); (split; [exact Hc|]); (split; [exact Ex|]);
    (split; [apply sets_mailbox_id_some; exact Hs|]); auto.
Qed.

(** ** [alive] in terms of the history alone *)

(** [c] is not disconnected, and there is no restart and no crash *)
Definition quiet (h : list event) : Prop :=
  ~ In (EB (EDisconnect c)) h /\ ~ In ERestart h /\ forall k b, ~ In (ECrash k b) h.

Lemma trace_In_fst h : forall s p, In p (trace cfg s h) -> In (fst p) h.
Proof.
  induction h as [|e h IH]; intros s p; cbn [trace]; [intros []|].
  intros [<-|H]; [left; reflexivity|right; exact (IH _ _ H)].
Qed.

Lemma trace_In h : forall s e, In e h -> exists ob, In (e, ob) (trace cfg s h).
Proof.
  induction h as [|e' h IH]; intros s e; [intros []|].
  intros [->|H]; cbn [trace].
  - eexists. left. reflexivity.
  - destruct (IH (fst (step cfg s e')) e H) as [ob Hob]. exists ob. right. exact Hob.
Qed.

Lemma trace_In_obs h s p : In p (trace cfg s h) -> In (snd p) (snd (run cfg s h)).
Proof.
  rewrite trace_combine. destruct p as [e ob]. intros H. exact (in_combine_r _ _ _ _ H).
Qed.

Lemma alive_quiet s h : alive c (trace cfg s h) -> quiet h.
Proof.
  intros Ha. split; [|split].
  - intros H. destruct (trace_In h s _ H) as [ob Hob]. specialize (Ha _ Hob).
    cbn [drops fst snd] in Ha. rewrite Nat.eqb_refl in Ha. discriminate.
  - intros H. destruct (trace_In h s _ H) as [ob Hob]. specialize (Ha _ Hob). discriminate Ha.
  - intros k b H. destruct (trace_In h s _ H) as [ob Hob]. specialize (Ha _ Hob). discriminate Ha.
Qed.

Lemma alive_no_failure s h msg o ob :
  alive c (trace cfg s h) -> In (EB (ECmd c msg o), ob) (trace cfg s h) -> o_exc ob = None.
Proof.
  intros Ha Hin. specialize (Ha _ Hin). cbn [drops fst snd] in Ha. rewrite Nat.eqb_refl in Ha.
  destruct (o_exc ob); [discriminate|reflexivity].
Qed.

Lemma quiet_alive s h :
  quiet h ->
  (forall msg o ob, In (EB (ECmd c msg o), ob) (trace cfg s h) -> o_exc ob = None) ->
  alive c (trace cfg s h).
Proof.
  intros (Q1 & Q2 & Q3) Hx [e ob] Hin. pose proof (trace_In_fst h s _ Hin) as He. cbn [fst snd] in *.
  destruct e as [[c'|c' msg o|c'|f|dt f]|k b|]; cbn [drops]; try reflexivity.
  - destruct (Nat.eqb c' c) eqn:E; [|reflexivity]. apply Nat.eqb_eq in E. subst c'.
    rewrite (Hx _ _ _ Hin). reflexivity.
  - destruct (Nat.eqb c' c) eqn:E; [|reflexivity]. apply Nat.eqb_eq in E. subst c'. contradiction.
  - destruct (Q3 k b He).
  - contradiction.
Qed.

(** ** gap 1: [bound_to] and the bind command *)

(** a bound connection's further binds are refused; no other command writes the binding *)
Lemma sets_bound_refused s msg o a sd :
  bound_to s c a sd -> o_exc (cmd_obs s msg o) = None -> sets_bound msg (answer s msg o) = None.
Proof.
  intros (cs & Hl & Hb) Ex.
  destruct (sets_bound msg (answer s msg o)) as [[a' sd']|] eqn:Es; [|reflexivity].
  apply sets_bound_some in Es. destruct Es as (Ek & Et & _).
  assert (Hc : has_conn c s = true) by (unfold has_conn; rewrite Hl; reflexivity).
  assert (Herr : erroneous (conn_of s c) msg = true).
  { unfold erroneous, conn_of. rewrite Hl, Et, Hb. reflexivity. }
  apply (refused_iff_erroneous s msg o Hc Ex) in Herr. congruence.
Qed.

(** a binding stays as long as the connection does, and no later command rewrites it *)
Theorem bound_persists h2 : forall s a sd,
  bound_to s c a sd -> alive c (trace cfg s h2) ->
  bound_to (fst (run cfg s h2)) c a sd /\ nosetter c _ sets_bound (trace cfg s h2).
Proof.
  induction h2 as [|e h2 IH]; intros s a sd Hb Ha.
  - split; [exact Hb|intros msg o ob []].
  - cbn [trace] in Ha. apply alive_cons in Ha. destruct Ha as [Hd Ha]. cbn [fst snd] in Hd.
    assert (Hhead : forall msg o, e = EB (ECmd c msg o) -> o_exc (snd (step cfg s e)) = None ->
                      sets_bound msg (answer_kind (o_log (snd (step cfg s e)))) = None).
    { intros msg o -> Ex. exact (sets_bound_refused s msg o a sd Hb Ex). }
    assert (Hb' : bound_to (fst (step cfg s e)) c a sd).
    { apply bound_to_flags in Hb. destruct Hb as (fl & Hf & Hfb). apply bound_to_flags.
      rewrite flags_track_step, Hf.
      destruct (track_step_alive c fl e _ Hd) as [->|(msg & o & He & Ex & ->)].
      - exists fl. auto.
      - eexists. split; [reflexivity|]. rewrite bound_writer, (Hhead msg o He Ex). exact Hfb. }
    destruct (IH _ a sd Hb' Ha) as [IH1 IH2].
    rewrite (run_cons_fst cfg). split; [exact IH1|].
    intros msg o ob [K|K] Ex.
    + inversion K; subst. exact (Hhead msg o eq_refl Ex).
    + exact (IH2 msg o ob K Ex).
Qed.

(** a bind with both fields on a connected, unbound connection never fails, is
    answered without an `error` frame, and binds *)
Theorem bind_step_bound s msg o a sd :
  has_conn c s = true -> c_bound (conn_of s c) = None ->
  m_type msg = Some TBind -> m_appid msg = Some a -> m_side msg = Some sd ->
  o_exc (cmd_obs s msg o) = None /\ answer s msg o = None /\ bound_to (cmd_next s msg o) c a sd.
Proof.
  intros Hc Hb Et Ea Es. unfold has_conn in Hc. unfold conn_of in Hb.
  destruct (lookup_conn c (conns s)) as [cs|] eqn:El; [clear Hc|discriminate].
  assert (Hc : has_conn c s = true) by (unfold has_conn; rewrite El; reflexivity).
  assert (Hb0 : c_bound (conn_of (set_log s []) c) = None)
    by (unfold conn_of; cbn [conns set_log]; rewrite El; exact Hb).
  destruct (bind_effect cfg c msg o (set_log s []) a sd Et Hb0 Ea Es) as (s1 & E1 & _ & _ & _ & Hconns & _).
  pose proof (cmd_step_conns cfg s c msg o cs El) as H.
  unfold answer, cmd_obs, cmd_next.
  rewrite (step_cmd_eq cfg c msg o s Hc), E1 in *. cbn [fst snd o_exc o_log] in *.
  destruct H as (L & HL & Hk & _).
  assert (EL : L = conns s).
  { destruct HL as [->|[K _]]; [reflexivity|]. unfold close_cmd in K. rewrite Et in K. discriminate. }
  subst L. cbn [conns set_log] in Hk, Hconns.
  assert (Ecs : conn_of (set_log s []) c = cs) by (unfold conn_of; cbn [conns set_log]; rewrite El; reflexivity).
  rewrite Ecs in Hconns.
  assert (Erec : conn_step cs msg (answer_kind (rev (log s1))) = set_bound cs (Some (a, sd))).
  { assert (K : lookup_conn c (conns s1) = Some (conn_step cs msg (answer_kind (rev (log s1)))))
      by (rewrite Hk; exact (lookup_update_same c _ _ cs El)).
    rewrite Hconns, (lookup_update_same c _ _ cs El) in K. inversion K. reflexivity. }
  split; [reflexivity|]. split.
  - destruct (answer_kind (rev (log s1))) as [k|]; [|reflexivity]. exfalso.
    unfold conn_step in Erec. rewrite Et in Erec.
    assert (K : c_bound cs = Some (a, sd)) by (destruct k; rewrite Erec; reflexivity).
    congruence.
  - exists (set_bound cs (Some (a, sd))). split; [|reflexivity].
    cbn [conns set_log]. rewrite Hconns. exact (lookup_update_same c _ _ cs El).
Qed.

(** conversely: a bind command with both fields on a connected, unbound
    connection establishes [bound_to], and it lasts as long as the connection *)
Theorem bind_establishes_bound h1 msg o h2 a sd :
  has_conn c (after h1) = true -> c_bound (conn_of (after h1) c) = None ->
  m_type msg = Some TBind -> m_appid msg = Some a -> m_side msg = Some sd ->
  alive c (trace cfg (cmd_next (after h1) msg o) h2) ->
  bound_to (after (h1 ++ EB (ECmd c msg o) :: h2)) c a sd.
Proof.
  intros Hc Hb Et Ea Es Ha.
  destruct (bind_step_bound (after h1) msg o a sd Hc Hb Et Ea Es) as (_ & _ & Hbd).
  rewrite run_app_fst, (run_cons_fst cfg).
  exact (proj1 (bound_persists h2 _ a sd Hbd Ha)).
Qed.

(** gap 1, as asked: the binding of a connection is the bind command it sent *)
Theorem bound_is_bind_cmd h a sd :
  bound_to (after h) c a sd ->
  exists h1 msg o h2, h = h1 ++ EB (ECmd c msg o) :: h2 /\
    m_type msg = Some TBind /\ m_appid msg = Some a /\ m_side msg = Some sd /\
    (* it was accepted: the connection was connected and unbound, nothing failed, no `error` *)
    has_conn c (after h1) = true /\ c_bound (conn_of (after h1) c) = None /\
    o_exc (cmd_obs (after h1) msg o) = None /\ answer (after h1) msg o = None /\
    (* since then: no disconnect of c, no restart, no crash, no internal failure on c *)
    quiet h2 /\
    (forall msg' o' ob, In (EB (ECmd c msg' o'), ob) (trace cfg (cmd_next (after h1) msg o) h2) ->
                        o_exc ob = None) /\
    (* it stays bound throughout (so every later bind on c is refused) *)
    (forall h3 h4, h2 = h3 ++ h4 -> bound_to (after (h1 ++ EB (ECmd c msg o) :: h3)) c a sd).
Proof.
  intros Hbd. apply bound_flag_iff in Hbd.
  destruct Hbd as (h1 & msg & o & h2 & -> & Hc & Ex & (Ek & Et & Ea & Es) & Ha & Hn).
  assert (Hb : c_bound (conn_of (after h1) c) = None).
  { destruct (erroneous (conn_of (after h1) c) msg) eqn:Herr.
    - apply (refused_iff_erroneous _ msg o Hc Ex) in Herr. congruence.
    - unfold erroneous in Herr. rewrite Et in Herr.
      destruct (c_bound (conn_of (after h1) c)); [discriminate|reflexivity]. }
  exists h1, msg, o, h2. split; [reflexivity|]. repeat (split; [assumption|]).
  split; [exact (alive_quiet _ _ Ha)|]. split.
  - intros msg' o' ob Hin. exact (alive_no_failure _ _ _ _ _ Ha Hin).
  - intros h3 h4 ->. rewrite trace_app in Ha. apply alive_app in Ha. destruct Ha as [Ha _].
    exact (bind_establishes_bound h1 msg o h3 a sd Hc Hb Et Ea Es Ha).
Qed.

End FlagTheorems.

(** ** a guarded flag: once the guard [J] is up, no command of the connection writes the flag again *)
Section Guarded.
Variable cfg : config.
Variable c : nat.
Variable V : Type.
Variable pv : flags -> option V.
Variable S : command -> option err_kind -> option V.
Hypothesis HS : forall fl msg k,
  pv (flag_step fl msg k) = match S msg k with Some v => Some v | None => pv fl end.
Variable J : flags -> bool.
Hypothesis HJ : forall fl msg k, J fl = true -> J (flag_step fl msg k) = true.
Hypothesis HG : forall s msg o fl,
  conn_flags s c = Some fl -> J fl = true -> o_exc (cmd_obs cfg c s msg o) = None ->
  S msg (answer cfg c s msg o) = None.

Theorem guarded_persists h2 : forall s fl v,
  conn_flags s c = Some fl -> J fl = true -> pv fl = Some v -> alive c (trace cfg s h2) ->
  (exists fl', conn_flags (fst (run cfg s h2)) c = Some fl' /\ pv fl' = Some v) /\
  nosetter c V S (trace cfg s h2).
Proof.
  induction h2 as [|e h2 IH]; intros s fl v Hf Hj Hv Ha.
  - split; [exists fl; auto|intros msg o ob []].
  - cbn [trace] in Ha. apply alive_cons in Ha. destruct Ha as [Hd Ha]. cbn [fst snd] in Hd.
    assert (Hhead : forall msg o, e = EB (ECmd c msg o) -> o_exc (snd (step cfg s e)) = None ->
                      S msg (answer_kind (o_log (snd (step cfg s e)))) = None).
    { intros msg o -> Ex. exact (HG s msg o fl Hf Hj Ex). }
    assert (Hnext : exists fl1, conn_flags (fst (step cfg s e)) c = Some fl1 /\
                                J fl1 = true /\ pv fl1 = Some v).
    { rewrite flags_track_step, Hf.
      destruct (track_step_alive c fl e _ Hd) as [->|(msg & o & He & Ex & ->)].
      - exists fl. auto.
      - eexists. split; [reflexivity|]. split; [apply HJ; exact Hj|].
        rewrite HS, (Hhead msg o He Ex). exact Hv. }
    destruct Hnext as (fl1 & Hf1 & Hj1 & Hv1).
    destruct (IH _ fl1 v Hf1 Hj1 Hv1 Ha) as [IH1 IH2].
    rewrite (run_cons_fst cfg). split; [exact IH1|].
    intros msg o ob [K|K] Ex.
    + inversion K; subst. exact (Hhead msg o eq_refl Ex).
    + exact (IH2 msg o ob K Ex).
Qed.

End Guarded.

(** *** [c_nameplate_id], without the "no later writer" clause: a second claim is refused *)
Section NameplateFlag.
Variable cfg : config.
Variable t0 : Z.
Variable c : nat.

Local Notation after h := (fst (run cfg (init cfg t0) h)).

Lemma sets_claim_refused s msg o fl :
  conn_flags s c = Some fl -> f_did_claim fl = true -> o_exc (cmd_obs cfg c s msg o) = None ->
  sets_claim msg (answer cfg c s msg o) = None.
Proof.
  intros Hf Hj Ex.
  destruct (sets_claim msg (answer cfg c s msg o)) as [n|] eqn:Es; [|reflexivity].
  apply sets_claim_some in Es. destruct Es as (Et & En & Hk).
  apply conn_flags_some in Hf. destruct Hf as (cs & Hl & <-).
  assert (Hc : has_conn c s = true) by (unfold has_conn; rewrite Hl; reflexivity).
  assert (Herr : erroneous (conn_of s c) msg = true).
  { unfold erroneous, conn_of. rewrite Hl, Et.
    destruct (c_bound cs); [|reflexivity]. rewrite En. exact Hj. }
  apply (refused_iff_erroneous cfg c s msg o Hc Ex) in Herr. congruence.
Qed.

Lemma did_claim_stays fl msg k : f_did_claim fl = true -> f_did_claim (flag_step fl msg k) = true.
Proof. intros H. rewrite claim_writer, H. reflexivity. Qed.

(** a claim naming [n] that is not refused records [n] for as long as the connection lasts *)
Theorem claim_establishes_nameplate_id h1 msg o h2 n :
  has_conn c (after h1) = true ->
  o_exc (cmd_obs cfg c (after h1) msg o) = None ->
  m_type msg = Some TClaim -> m_nameplate msg = Some n ->
  answer cfg c (after h1) msg o <> Some ErrOther ->
  alive c (trace cfg (cmd_next cfg c (after h1) msg o) h2) ->
  exists cs, lookup_conn c (conns (after (h1 ++ EB (ECmd c msg o) :: h2))) = Some cs /\
             c_nameplate_id cs = Some n /\ c_did_claim cs = true.
Proof.
  intros Hc Ex Et En Hk Ha.
  assert (Hs : sets_claim msg (answer cfg c (after h1) msg o) = Some n)
    by (apply sets_claim_some; auto).
  apply has_conn_flags in Hc. destruct (conn_flags (after h1) c) as [fl|] eqn:Ef; [|congruence].
  assert (Hf1 : conn_flags (cmd_next cfg c (after h1) msg o) c =
                Some (flag_step fl msg (answer cfg c (after h1) msg o))).
  { unfold cmd_next. rewrite flags_track_step, Ef. apply track_step_cmd. exact Ex. }
  assert (Hj1 : f_did_claim (flag_step fl msg (answer cfg c (after h1) msg o)) = true).
  { rewrite claim_writer, Hs. apply orb_true_r. }
  assert (Hv1 : f_nameplate_id (flag_step fl msg (answer cfg c (after h1) msg o)) = Some n).
  { rewrite nameplate_writer, Hs. reflexivity. }
  destruct (guarded_persists cfg c _ (fun fl => match f_nameplate_id fl, f_did_claim fl with
                                                | Some n, true => Some n | _, _ => None end)
              sets_claim) with (J := f_did_claim) (h2 := h2)
              (s := cmd_next cfg c (after h1) msg o)
              (fl := flag_step fl msg (answer cfg c (after h1) msg o)) (v := n)
    as [(fl' & Hf' & Hv') _].
  - intros fl0 m0 k0. rewrite nameplate_writer, claim_writer.
    destruct (sets_claim m0 k0); cbn [is_some]; [rewrite orb_true_r; reflexivity|].
    rewrite orb_false_r. reflexivity.
  - intros fl0 m0 k0. apply did_claim_stays.
  - intros s m0 o0 fl0. apply sets_claim_refused.
  - exact Hf1.
  - exact Hj1.
  - rewrite Hv1, Hj1. reflexivity.
  - exact Ha.
  - rewrite run_app_fst, (run_cons_fst cfg). fold (cmd_next cfg c (after h1) msg o).
    apply conn_flags_some in Hf'. destruct Hf' as (cs & Hl & <-). exists cs.
    split; [exact Hl|]. cbn [f_nameplate_id f_did_claim flags_of] in Hv'.
    destruct (c_nameplate_id cs) as [n'|]; [|discriminate].
    destruct (c_did_claim cs); [|discriminate]. inversion Hv'. auto.
Qed.

(** C03 / C17: the remembered nameplate is the one of the claim the connection sent *)
Theorem nameplate_id_is_claim_cmd h n :
  (exists cs, lookup_conn c (conns (after h)) = Some cs /\ c_nameplate_id cs = Some n) <->
  exists h1 msg o h2, h = h1 ++ EB (ECmd c msg o) :: h2 /\
    has_conn c (after h1) = true /\
    o_exc (cmd_obs cfg c (after h1) msg o) = None /\
    (m_type msg = Some TClaim /\ m_nameplate msg = Some n /\
     answer cfg c (after h1) msg o <> Some ErrOther) /\
    alive c (trace cfg (cmd_next cfg c (after h1) msg o) h2).
Proof.
  split.
  - intros H. apply nameplate_id_iff in H.
    destruct H as (h1 & msg & o & h2 & E & Hc & Ex & Hs & Ha & _).
    exists h1, msg, o, h2. auto.
  - intros (h1 & msg & o & h2 & -> & Hc & Ex & (Et & En & Hk) & Ha).
    destruct (claim_establishes_nameplate_id h1 msg o h2 n Hc Ex Et En Hk Ha) as (cs & Hl & Hn & _).
    eauto.
Qed.

End NameplateFlag.

(** * Part 6: C17 -- commands keep connections; the oracle disjunct *)

Section Discipline.
Variable cfg : config.

(** gap 3: a command that does not fail internally keeps the registry's
    connections, in order (no invariant needed) *)
Theorem cmd_keeps_conns s c msg o :
  has_conn c s = true ->
  o_exc (snd (step cfg s (EB (ECmd c msg o)))) = None ->
  map fst (conns (fst (step cfg s (EB (ECmd c msg o))))) = map fst (conns s).
Proof.
  unfold has_conn. destruct (lookup_conn c (conns s)) as [cs|] eqn:El; [intros _|discriminate].
  pose proof (cmd_step_conns cfg s c msg o cs El) as H.
  destruct (step cfg s (EB (ECmd c msg o))) as [s' ob]. cbn [fst snd].
  destruct H as (L & HL & H). intros Ex. rewrite Ex in H. destruct H as [H _].
  rewrite H, update_conn_fst. exact (Lrel_fst _ _ _ HL).
Qed.

(** in the form asked for, with the (unused) invariant *)
Corollary cmd_keeps_conns_inv s c msg o :
  SInv s -> has_conn c s = true ->
  o_exc (snd (step cfg s (EB (ECmd c msg o)))) = None ->
  map fst (conns (fst (step cfg s (EB (ECmd c msg o))))) = map fst (conns s).
Proof. intros _. apply cmd_keeps_conns. Qed.

(** ... and one that does fail internally removes exactly its own connection *)
Theorem cmd_failure_drops_sender s c msg o :
  has_conn c s = true ->
  o_exc (snd (step cfg s (EB (ECmd c msg o)))) <> None ->
  map fst (conns (fst (step cfg s (EB (ECmd c msg o))))) =
  filter (fun c' => negb (Nat.eqb c' c)) (map fst (conns s)).
Proof.
  unfold has_conn. destruct (lookup_conn c (conns s)) as [cs|] eqn:El; [intros _|discriminate].
  pose proof (cmd_step_conns cfg s c msg o cs El) as H.
  destruct (step cfg s (EB (ECmd c msg o))) as [s' ob]. cbn [fst snd].
  destruct H as (L & HL & H). intros Ex. destruct (o_exc ob) as [e|]; [|congruence].
  destruct H as [H _]. rewrite H, remove_conn_fst, (Lrel_fst _ _ _ HL). reflexivity.
Qed.

(** a connection leaves the registry only by its own disconnect, a restart, a
    crash, or an internal failure of one of its own commands *)
Theorem conn_leaves_only_by s e c :
  has_conn c s = true -> has_conn c (fst (step cfg s e)) = false ->
  e = EB (EDisconnect c) \/ e = ERestart \/ (exists k b, e = ECrash k b) \/
  (exists msg o, e = EB (ECmd c msg o) /\ o_exc (snd (step cfg s e)) <> None).
Proof.
  intros Hc Hn.
  assert (Hd : drops c e (snd (step cfg s e)) = true).
  { destruct (drops c e (snd (step cfg s e))) eqn:Hd; [reflexivity|]. exfalso.
    apply has_conn_flags in Hc. destruct (conn_flags s c) as [fl|] eqn:Ef; [|congruence].
    assert (K : conn_flags (fst (step cfg s e)) c <> None).
    { rewrite flags_track_step, Ef.
      destruct (track_step_alive c fl e _ Hd) as [->|(msg & o & _ & _ & ->)]; discriminate. }
    apply has_conn_flags in K. congruence. }
  destruct e as [[c'|c' msg o|c'|f|dt f]|k b|]; cbn [drops] in Hd; try discriminate.
  - apply andb_true_iff in Hd. destruct Hd as [E Hx]. apply Nat.eqb_eq in E. subst c'.
    right; right; right. exists msg, o. split; [reflexivity|].
    destruct (o_exc _); [discriminate|discriminate Hx].
  - apply Nat.eqb_eq in Hd. subst c'. left. reflexivity.
  - right; right; left. eauto.
  - right; left. reflexivity.
Qed.

(** ... so along a history without internal failures, without its disconnect,
    without restart and without crash, a connection stays *)
Theorem conn_stays_run h s c :
  has_conn c s = true ->
  (forall ob, In ob (snd (run cfg s h)) -> o_exc ob = None) ->
  ~ In (EB (EDisconnect c)) h -> ~ In ERestart h -> (forall k b, ~ In (ECrash k b) h) ->
  has_conn c (fst (run cfg s h)) = true.
Proof.
  intros Hc Hx Q1 Q2 Q3.
  assert (Ha : alive c (trace cfg s h)).
  { apply quiet_alive; [split; [exact Q1|split; [exact Q2|exact Q3]]|].
    intros msg o ob Hin. apply Hx. exact (trace_In_obs cfg h s _ Hin). }
  apply has_conn_flags in Hc. destruct (conn_flags s c) as [fl|] eqn:Ef; [|congruence].
  apply has_conn_flags. rewrite flags_track_history, Ef.
  destruct (bool_kept c (fun _ => true) (fun _ _ => true) (fun _ _ _ => eq_refl) _ fl eq_refl Ha)
    as (fl' & -> & _). discriminate.
Qed.

(** gap 4: [XOracle] is the model rejecting a recorded oracle that does not
    have the shape the command consumes ([oracle_fits], defined next to
    [conn_step] above): with a fitting oracle it never escapes *)
Theorem xoracle_only_misfit_b s c msg ora :
  oracle_fits s c msg ora ->
  snd (step_b cfg (set_log s []) (ECmd c msg ora)) <> Some XOracle.
Proof.
  intros Hfit. unfold step_b. change (has_conn c (set_log s [])) with (has_conn c s).
  unfold has_conn. destruct (lookup_conn c (conns s)) as [cs|] eqn:El; [|discriminate].
  pose proof (on_message_conns cfg c msg ora (set_log s []) cs El eq_refl) as H.
  destruct (on_message cfg c msg ora (set_log s [])) as [[] s'|e s']; [discriminate|].
  destruct H as (X & L & _ & _ & _ & Ho & _). cbn [snd]. intros K. inversion K; subst.
  exact (Ho eq_refl Hfit).
Qed.

Lemma step_EB_exc s b : o_exc (snd (step cfg s (EB b))) = snd (step_b cfg (set_log s []) b).
Proof.
  unfold step. cbv zeta. destruct (step_b cfg (set_log s []) b) as [[s1 valid] x]. reflexivity.
Qed.

Lemma step_crash_exc s k b :
  o_exc (snd (step cfg s (ECrash k b))) = None \/
  o_exc (snd (step cfg s (ECrash k b))) = snd (step_b cfg (set_log s []) b).
Proof.
  unfold step. cbv zeta. destruct (step_b cfg (set_log s []) b) as [[s1 valid] x].
  destruct ((count_commits (rev (log s1)) <? k)%nat || negb valid).
  - destruct (boot_on cfg _ _ _) as [[s2 bl] x2]. right. reflexivity.
  - destruct (replay_commits _ _ _) as [d u]. destruct (boot_on cfg _ _ _) as [[s2 bl] x2].
    left. reflexivity.
Qed.

Theorem xoracle_only_misfit s c msg ora :
  oracle_fits s c msg ora ->
  o_exc (snd (step cfg s (EB (ECmd c msg ora)))) <> Some XOracle.
Proof. intros H. rewrite step_EB_exc. apply xoracle_only_misfit_b. exact H. Qed.

(** in the form asked for, with the (unused) invariant *)
Corollary xoracle_only_misfit_inv s c msg ora :
  SInv s -> oracle_fits s c msg ora ->
  o_exc (snd (step cfg s (EB (ECmd c msg ora)))) <> Some XOracle.
Proof. intros _. apply xoracle_only_misfit. Qed.

Theorem xoracle_only_misfit_crash s k c msg ora :
  oracle_fits s c msg ora ->
  o_exc (snd (step cfg s (ECrash k (ECmd c msg ora)))) <> Some XOracle.
Proof.
  intros H. destruct (step_crash_exc s k (ECmd c msg ora)) as [->| ->]; [discriminate|].
  apply xoracle_only_misfit_b. exact H.
Qed.

Hypothesis Hexp : 0 < exp cfg.

(** with a fitting oracle, an escaping exception is one of the known findings *)
Theorem no_internal_error_fits s e o ex k c msg ora :
  SInv s -> (e = EB (ECmd c msg ora) \/ e = ECrash k (ECmd c msg ora)) ->
  oracle_fits s c msg ora ->
  snd (step cfg s e) = o -> o_exc o = Some ex ->
  kf1_trigger s c msg \/ id_collision s ora \/ kf3_cmd s c msg ora = true.
Proof.
  intros Hs He Hfit Ho Hx.
  destruct (internal_error_causes cfg Hexp s e o ex Hs Ho Hx)
    as (k' & c' & msg' & ora' & He' & Hcase).
  assert (E : c' = c /\ msg' = msg /\ ora' = ora).
  { destruct He as [->| ->], He' as [K|K]; inversion K; auto. }
  destruct E as (-> & -> & ->).
  destruct Hcase as [H|[H|[H|H]]]; auto.
  exfalso. subst ex o.
  destruct He as [->| ->].
  - exact (xoracle_only_misfit s c msg ora Hfit Hx).
  - exact (xoracle_only_misfit_crash s k c msg ora Hfit Hx).
Qed.

(** the same for any event: no sequence of commands with fitting oracles makes
    a handler fail internally except through KF1 / KF3 *)
Theorem no_internal_error_any s e o ex :
  SInv s ->
  (forall k c msg ora, e = EB (ECmd c msg ora) \/ e = ECrash k (ECmd c msg ora) ->
                       oracle_fits s c msg ora) ->
  snd (step cfg s e) = o -> o_exc o = Some ex ->
  exists k c msg ora, (e = EB (ECmd c msg ora) \/ e = ECrash k (ECmd c msg ora)) /\
    (kf1_trigger s c msg \/ id_collision s ora \/ kf3_cmd s c msg ora = true).
Proof.
  intros Hs Hfit Ho Hx.
  destruct (internal_error_causes cfg Hexp s e o ex Hs Ho Hx)
    as (k & c & msg & ora & He & _).
  exists k, c, msg, ora. split; [exact He|].
  exact (no_internal_error_fits s e o ex k c msg ora Hs He (Hfit k c msg ora He) Ho Hx).
Qed.

End Discipline.

(** * Part 7: the mailbox flag [c_mailbox] (C01, C02)

    [c_mailbox] is not only written by the connection's own commands: the
    deletion of the mailbox by somebody else's close clears it
    ([stop_listeners]).  So it is not a function of the connection's own
    commands; what holds is: a connection holds mailbox [m] only by an open of
    [m] it sent, answered without an `error` frame, since when it was not
    dropped and sent no close answered without an `error` frame.  (That it
    keeps holding it until then, unless the mailbox is deleted, is
    [LifeFacts.holds_ends_only_by].) *)

Lemma conn_step_mailbox cs msg k m :
  c_mailbox (conn_step cs msg k) = Some m ->
  (k = None /\ m_type msg = Some TOpen /\ m_mailbox msg = Some m) \/
  (c_mailbox cs = Some m /\ ~ (m_type msg = Some TClose /\ k = None)).
Proof.
  assert (Keep : forall X, c_mailbox X = c_mailbox cs ->
                   ~ (m_type msg = Some TClose /\ k = None) -> c_mailbox X = Some m ->
                   (k = None /\ m_type msg = Some TOpen /\ m_mailbox msg = Some m) \/
                   (c_mailbox cs = Some m /\ ~ (m_type msg = Some TClose /\ k = None))).
  { intros X E Hn H. right. split; [congruence|exact Hn]. }
  unfold conn_step.
  destruct k as [[]|]; (destruct (m_type msg) as [[]|] eqn:Et);
    try (apply Keep; [reflexivity|intros [K1 K2]; discriminate]);
    try (destruct (m_nameplate msg); apply Keep; [reflexivity|intros [K1 K2]; discriminate
                                                 |reflexivity|intros [K1 K2]; discriminate]);
    try (destruct (m_mailbox msg); apply Keep; [reflexivity|intros [K1 K2]; discriminate
                                               |reflexivity|intros [K1 K2]; discriminate]).
  - destruct (m_appid msg); [|apply Keep; [reflexivity|intros [K1 K2]; discriminate]].
    destruct (m_side msg); apply Keep; try reflexivity; intros [K1 K2]; discriminate.
  - destruct (m_mailbox msg) as [m'|] eqn:Em.
    + cbn. intros H. inversion H; subst. left. auto.
    + apply Keep; [reflexivity|intros [K1 K2]; discriminate].
  - cbn. discriminate.
Qed.

Section MailboxFlag.
Variable cfg : config.
Variable t0 : Z.
Variable c : nat.

Local Notation after h := (fst (run cfg (init cfg t0) h)).

(** no close of [c] in [tr] was answered without an `error` frame *)
Definition no_close (tr : list (event * obs)) : Prop :=
  forall msg o ob, In (EB (ECmd c msg o), ob) tr ->
    ~ (m_type msg = Some TClose /\ answer_kind (o_log ob) = None).

Lemma mailbox_step_inv s e cs' m :
  lookup_conn c (conns (fst (step cfg s e))) = Some cs' -> c_mailbox cs' = Some m ->
  (exists msg o, e = EB (ECmd c msg o) /\ has_conn c s = true /\
     o_exc (snd (step cfg s e)) = None /\ m_type msg = Some TOpen /\ m_mailbox msg = Some m /\
     answer_kind (o_log (snd (step cfg s e))) = None) \/
  (exists cs, lookup_conn c (conns s) = Some cs /\ c_mailbox cs = Some m /\
     drops c e (snd (step cfg s e)) = false /\
     forall msg o, e = EB (ECmd c msg o) ->
       ~ (m_type msg = Some TClose /\ answer_kind (o_log (snd (step cfg s e))) = None)).
Proof.
  destruct e as [b|k b|].
  - destruct b as [c'|c' msg o|c'|fault|dt fault].
    + (* connect *)
      rewrite step_connect_conns. unfold has_conn. intros Hl Hm. right.
      destruct (lookup_conn c' (conns s)) as [csA|] eqn:El.
      * exists cs'. split; [exact Hl|]. split; [exact Hm|]. split; [reflexivity|discriminate].
      * destruct (Nat.eq_dec c' c) as [->|Hne].
        -- rewrite (lookup_app_r c _ _ El) in Hl. cbn [lookup_conn] in Hl.
           rewrite Nat.eqb_refl in Hl. inversion Hl; subst. discriminate Hm.
        -- rewrite (lookup_snoc_other c c' _ _ Hne) in Hl.
           exists cs'. split; [exact Hl|]. split; [exact Hm|]. split; [reflexivity|discriminate].
    + (* command *)
      destruct (lookup_conn c' (conns s)) as [csA|] eqn:El.
      * pose proof (cmd_step_conns cfg s c' msg o csA El) as H.
        assert (Hc : has_conn c' s = true) by (unfold has_conn; rewrite El; reflexivity).
        destruct (step cfg s (EB (ECmd c' msg o))) as [s' ob]. cbn [fst snd].
        destruct H as (L & HL & H). intros Hl Hm.
        destruct (Nat.eq_dec c' c) as [->|Hne].
        -- destruct (o_exc ob) as [ex|] eqn:Ex.
           ++ destruct H as [H _]. rewrite H, lookup_remove_same in Hl. discriminate.
           ++ destruct H as [H _].
              assert (HlL : lookup_conn c L <> None).
              { apply (Lrel_lookup_some _ _ _ _ HL). congruence. }
              destruct (lookup_conn c L) as [cs0|] eqn:E0; [|congruence].
              rewrite H, (lookup_update_same c _ L cs0 E0) in Hl. inversion Hl; subst cs'.
              destruct (conn_step_mailbox _ _ _ _ Hm) as [(Hk & Et & Em)|(Hm0 & Hnc)].
              ** left. exists msg, o. repeat (split; [solve [auto]|]). exact Hk.
              ** right. exists csA. split; [exact El|]. split; [exact Hm0|].
                 split; [cbn [drops]; rewrite Nat.eqb_refl, Ex; reflexivity|].
                 intros msg' o' K. inversion K; subst. exact Hnc.
        -- assert (HlL : lookup_conn c L = Some cs').
           { destruct (o_exc ob) as [ex|]; destruct H as [H _]; rewrite H in Hl.
             - rewrite (lookup_remove_other c' c L) in Hl by congruence. exact Hl.
             - rewrite (lookup_update_other c' c _ L) in Hl by congruence. exact Hl. }
           right.
           assert (Hcs : lookup_conn c (conns s) = Some cs').
           { destruct HL as [->|[_ [g ->]]]; [exact HlL|].
             rewrite lookup_stop_map in HlL.
             destruct (lookup_conn c (conns s)) as [cs|]; [|discriminate].
             destruct (g c); [|exact HlL]. inversion HlL; subst cs'. discriminate Hm. }
           exists cs'. split; [exact Hcs|]. split; [exact Hm|]. split.
           ++ cbn [drops]. apply Nat.eqb_neq in Hne. rewrite Hne. reflexivity.
           ++ intros msg' o' K. inversion K. congruence.
      * assert (Hc : has_conn c' s = false) by (unfold has_conn; rewrite El; reflexivity).
        rewrite (step_cmd_absent cfg c' msg o s Hc). cbn [fst snd conns set_log].
        intros Hl Hm. right. exists cs'. split; [exact Hl|]. split; [exact Hm|]. split.
        -- cbn [drops o_exc]. apply andb_false_r.
        -- intros msg' o' K. inversion K; subst. congruence.
    + (* disconnect *)
      rewrite step_disconnect_conns. unfold has_conn. intros Hl Hm. right.
      destruct (Nat.eq_dec c' c) as [->|Hne].
      * destruct (lookup_conn c (conns s)) as [csA|] eqn:El.
        -- rewrite lookup_remove_same in Hl. discriminate.
        -- congruence.
      * assert (Hl' : lookup_conn c (conns s) = Some cs').
        { destruct (lookup_conn c' (conns s)); [|exact Hl].
          rewrite (lookup_remove_other c' c) in Hl by congruence. exact Hl. }
        exists cs'. split; [exact Hl'|]. split; [exact Hm|]. split; [|discriminate].
        cbn [drops]. apply Nat.eqb_neq in Hne. exact Hne.
    + rewrite step_sweep_conns. intros Hl Hm. right. exists cs'.
      split; [exact Hl|]. split; [exact Hm|]. split; [reflexivity|discriminate].
    + rewrite step_advance_conns. intros Hl Hm. right. exists cs'.
      split; [exact Hl|]. split; [exact Hm|]. split; [reflexivity|discriminate].
  - rewrite step_crash_conns. discriminate.
  - rewrite step_restart_conns. discriminate.
Qed.

Theorem held_is_open_cmd h m :
  (exists cs, lookup_conn c (conns (after h)) = Some cs /\ c_mailbox cs = Some m) ->
  exists h1 msg o h2, h = h1 ++ EB (ECmd c msg o) :: h2 /\
    has_conn c (after h1) = true /\
    o_exc (cmd_obs cfg c (after h1) msg o) = None /\
    m_type msg = Some TOpen /\ m_mailbox msg = Some m /\
    answer cfg c (after h1) msg o = None /\
    alive c (trace cfg (cmd_next cfg c (after h1) msg o) h2) /\
    no_close (trace cfg (cmd_next cfg c (after h1) msg o) h2).
Proof.
  induction h as [|e h IH] using rev_ind; intros (cs' & Hl & Hm).
  - cbn [run fst] in Hl. rewrite init_conns in Hl. discriminate.
  - rewrite run_app_fst, (run_cons_fst cfg), run_nil_fst in Hl.
    destruct (mailbox_step_inv (after h) e cs' m Hl Hm)
      as [(msg & o & -> & Hc & Ex & Et & Em & Ek)|(cs & Hl0 & Hm0 & Hd & Hnc)].
    + exists h, msg, o, []. split; [reflexivity|]. split; [exact Hc|]. split; [exact Ex|].
      split; [exact Et|]. split; [exact Em|]. split; [exact Ek|].
      split; [apply alive_nil|intros m1 o1 ob1 []].
    + destruct (IH (ex_intro _ cs (conj Hl0 Hm0)))
        as (h1 & msg & o & h2 & -> & Hc & Ex & Et & Em & Ek & Ha & Hn).
      exists h1, msg, o, (h2 ++ [e]).
      split; [rewrite <- app_assoc; reflexivity|]. split; [exact Hc|]. split; [exact Ex|].
      split; [exact Et|]. split; [exact Em|]. split; [exact Ek|].
      assert (Est : fst (run cfg (cmd_next cfg c (after h1) msg o) h2) =
                    after (h1 ++ EB (ECmd c msg o) :: h2)).
      { rewrite run_app_fst, (run_cons_fst cfg). reflexivity. }
      rewrite trace_app, Est. cbn [trace]. split.
      * apply alive_app. split; [exact Ha|]. intros p [<-|[]]. exact Hd.
      * intros m1 o1 ob1 Hin. apply in_app_or in Hin. destruct Hin as [Hin|[K|[]]].
        -- exact (Hn m1 o1 ob1 Hin).
        -- inversion K; subst. exact (Hnc m1 o1 eq_refl).
Qed.

(** in terms of [holds] *)
Corollary holds_is_open_cmd h a m :
  holds (after h) c a m ->
  exists h1 msg o h2, h = h1 ++ EB (ECmd c msg o) :: h2 /\
    has_conn c (after h1) = true /\
    o_exc (cmd_obs cfg c (after h1) msg o) = None /\
    m_type msg = Some TOpen /\ m_mailbox msg = Some m /\
    answer cfg c (after h1) msg o = None /\
    alive c (trace cfg (cmd_next cfg c (after h1) msg o) h2) /\
    no_close (trace cfg (cmd_next cfg c (after h1) msg o) h2).
Proof.
  intros (cs & sd & Hl & _ & Hm). apply held_is_open_cmd. eauto.
Qed.

End MailboxFlag.

(** * Non-vacuity and refutations (concrete histories, [vm_compute]) *)

Definition aliveb (c : nat) (tr : list (event * obs)) : bool :=
  forallb (fun p => negb (drops c (fst p) (snd p))) tr.

Lemma aliveb_alive c tr : aliveb c tr = true -> alive c tr.
Proof.
  unfold aliveb. rewrite forallb_forall. intros H p Hp. apply negb_true_iff. exact (H p Hp).
Qed.

Module FlagBridgeExamples.

Definition x_cfg : config := gen_cfg true false None.
Definition x_o : oracle := mkOracle None (mkAO None []).
Definition x_od : oracle := mkOracle (Some "AAAAAAAA") (mkAO None []).
Definition x_bind (sd : string) : command :=
  mkCmd (Some TBind) None (Some "a") (Some sd) None None None None None None None.
Definition x_claim (n : string) : command :=
  mkCmd (Some TClaim) None None None (Some n) None None None None None None.
Definition x_release : command :=
  mkCmd (Some TRelease) None None None None None None None None None None.
Definition x_open (m : string) : command :=
  mkCmd (Some TOpen) None None None None (Some m) None None None None None.
Definition x_close : command :=
  mkCmd (Some TClose) None None None None None None None None None None.

(** one connection: bind, a refused second bind, claim, open, release, close;
    then somebody else connects *)
Definition x_h1 : list event :=
  [EB (EConnect 1); EB (ECmd 1 (x_bind "A") x_o); EB (ECmd 1 (x_bind "B") x_o);
   EB (ECmd 1 (x_claim "n") x_od); EB (ECmd 1 (x_open "m") x_o); EB (ECmd 1 x_release x_o);
   EB (ECmd 1 x_close x_o); EB (EConnect 2); EB (ECmd 2 (x_bind "B") x_o)].

(** groups 1, 2: the flags are what the commands and their answers made them *)
Example flags_nonvacuous :
  let r := run x_cfg (init x_cfg 0) x_h1 in
  let tr := trace x_cfg (init x_cfg 0) x_h1 in
  conn_flags (fst r) 1 =
    Some (mkFlags (Some ("a", "A")) false true (Some "n") true (Some "m") true) /\
  track 1 None tr = conn_flags (fst r) 1 /\
  map (fun p => (o_exc (snd p), answer_kind (o_log (snd p)))) tr =
    [(None, None); (None, None); (None, Some ErrOther); (None, None); (None, None);
     (None, None); (None, None); (None, None); (None, None)] /\
  aliveb 1 tr = true.
Proof. vm_compute. repeat split; reflexivity. Qed.

(** the hypotheses of [bind_establishes_bound] / the right-hand side of
    [bound_flag_iff] hold of the first bind of [x_h1] *)
Example bound_nonvacuous :
  bound_to (fst (run x_cfg (init x_cfg 0) x_h1)) 1 "a" "A".
Proof.
  change x_h1 with ([EB (EConnect 1)] ++ EB (ECmd 1 (x_bind "A") x_o) ::
    [EB (ECmd 1 (x_bind "B") x_o); EB (ECmd 1 (x_claim "n") x_od); EB (ECmd 1 (x_open "m") x_o);
     EB (ECmd 1 x_release x_o); EB (ECmd 1 x_close x_o); EB (EConnect 2);
     EB (ECmd 2 (x_bind "B") x_o)]).
  apply bind_establishes_bound.
  - vm_compute. reflexivity.
  - vm_compute. reflexivity.
  - reflexivity.
  - reflexivity.
  - reflexivity.
  - apply aliveb_alive. vm_compute. reflexivity.
Qed.

(** three sides claim one nameplate, then open one mailbox: the third claim
    and the third open are answered `crowded` *)
Definition x_h2 : list event :=
  [EB (EConnect 1); EB (ECmd 1 (x_bind "A") x_o); EB (ECmd 1 (x_claim "n") x_od);
   EB (ECmd 1 (x_open "m") x_o);
   EB (EConnect 2); EB (ECmd 2 (x_bind "B") x_o); EB (ECmd 2 (x_claim "n") x_o);
   EB (ECmd 2 (x_open "m") x_o);
   EB (EConnect 3); EB (ECmd 3 (x_bind "C") x_o); EB (ECmd 3 (x_claim "n") x_o);
   EB (ECmd 3 (x_open "m") x_o)].

(** REFUTED: "[c_did_claim] / [c_nameplate_id] / the remembered mailbox id are
    set iff the connection sent a claim / open that was not answered by a
    protocol error".  Connection 3's only claim and only open were both
    answered by an `error` frame (crowded), nothing failed internally, and yet
    [c_did_claim], [c_nameplate_id] and [c_mailbox_id] are set (the handlers
    set them before the operation can fail) -- while [c_mailbox] is not.  The
    true condition ("not refused": not [ErrOther]) is in [did_claim_iff],
    [nameplate_id_iff], [mailbox_id_iff]. *)
Example flags_error_answer_refuted :
  let r := run x_cfg (init x_cfg 0) x_h2 in
  let tr := trace x_cfg (init x_cfg 0) x_h2 in
  map (fun p => (o_exc (snd p), answer_kind (o_log (snd p)))) (skipn 8 tr) =
    [(None, None); (None, None); (None, Some ErrCrowded); (None, Some ErrCrowded)] /\
  option_map (fun cs => (c_did_claim cs, c_nameplate_id cs, c_mailbox_id cs, c_mailbox cs))
             (lookup_conn 3 (conns (fst r))) =
    Some (true, Some "n", Some "m", None).
Proof. vm_compute. split; reflexivity. Qed.

(** REFUTED: "[c_mailbox] is set iff the connection sent an open that was
    answered without error and no close since".  Connection 1 opens "m"; a
    second connection of the same side opens and closes it: the mailbox is
    deleted and connection 1's [c_mailbox] is cleared although connection 1
    sent nothing.  (Only the direction [held_is_open_cmd] holds.) *)
Definition x_h3 : list event :=
  [EB (EConnect 1); EB (ECmd 1 (x_bind "A") x_o); EB (ECmd 1 (x_open "m") x_o);
   EB (EConnect 3); EB (ECmd 3 (x_bind "A") x_o)].

Example mailbox_flag_cleared_by_other_refuted :
  option_map c_mailbox (lookup_conn 1 (conns (fst (run x_cfg (init x_cfg 0) x_h3)))) =
    Some (Some "m") /\
  option_map c_mailbox
    (lookup_conn 1 (conns (fst (run x_cfg (init x_cfg 0)
       (x_h3 ++ [EB (ECmd 3 (x_open "m") x_o); EB (ECmd 3 x_close x_o)]))))) = Some None /\
  aliveb 1 (trace x_cfg (init x_cfg 0)
              (x_h3 ++ [EB (ECmd 3 (x_open "m") x_o); EB (ECmd 3 x_close x_o)])) = true.
Proof. vm_compute. repeat split; reflexivity. Qed.

(** group 3: a command that does not fail keeps both connections; one that
    fails internally (here: an oracle misfit) drops exactly its sender *)
Definition x_s2 : state :=
  fst (run x_cfg (init x_cfg 0) [EB (EConnect 1); EB (ECmd 1 (x_bind "A") x_o); EB (EConnect 2)]).

Example keeps_conns_nonvacuous :
  has_conn 1 x_s2 = true /\
  o_exc (snd (step x_cfg x_s2 (EB (ECmd 1 (x_claim "n") x_od)))) = None /\
  map fst (conns (fst (step x_cfg x_s2 (EB (ECmd 1 (x_claim "n") x_od))))) = [1; 2]%nat /\
  o_exc (snd (step x_cfg x_s2 (EB (ECmd 1 (x_claim "n") x_o)))) = Some XOracle /\
  map fst (conns (fst (step x_cfg x_s2 (EB (ECmd 1 (x_claim "n") x_o))))) = [2]%nat.
Proof. vm_compute. repeat split; reflexivity. Qed.

(** group 4: the recorded oracle of the second claim above does not fit (the
    nameplate does not exist and no draw was recorded): that is the only way
    [XOracle] arises; with the draw recorded the oracle fits *)
Example oracle_fits_nonvacuous :
  oracle_fits x_s2 1 (x_claim "n") x_od /\ ~ oracle_fits x_s2 1 (x_claim "n") x_o.
Proof.
  split.
  - unfold oracle_fits. vm_compute. intros _. discriminate.
  - unfold oracle_fits. vm_compute. intros H. apply H; reflexivity.
Qed.

End FlagBridgeExamples.

(** * Assumptions *)
Print Assumptions on_message_conns.
Print Assumptions cmd_step_conns.
Print Assumptions flags_track_step.
Print Assumptions flags_track_history.
Print Assumptions flags_track_init.
Print Assumptions value_origin.
Print Assumptions value_established.
Print Assumptions bool_origin.
Print Assumptions bool_established.
Print Assumptions value_flag_run.
Print Assumptions bool_flag_run.
Print Assumptions refused_iff_erroneous.
Print Assumptions bound_flag_iff.
Print Assumptions did_allocate_iff.
Print Assumptions did_claim_iff.
Print Assumptions nameplate_id_iff.
Print Assumptions did_release_iff.
Print Assumptions did_close_iff.
Print Assumptions mailbox_id_iff.
Print Assumptions guarded_persists.
Print Assumptions claim_establishes_nameplate_id.
Print Assumptions nameplate_id_is_claim_cmd.
Print Assumptions bound_persists.
Print Assumptions bind_step_bound.
Print Assumptions bind_establishes_bound.
Print Assumptions bound_is_bind_cmd.
Print Assumptions cmd_keeps_conns.
Print Assumptions cmd_keeps_conns_inv.
Print Assumptions cmd_failure_drops_sender.
Print Assumptions conn_leaves_only_by.
Print Assumptions conn_stays_run.
Print Assumptions xoracle_only_misfit_b.
Print Assumptions xoracle_only_misfit.
Print Assumptions xoracle_only_misfit_inv.
Print Assumptions xoracle_only_misfit_crash.
Print Assumptions no_internal_error_fits.
Print Assumptions no_internal_error_any.
Print Assumptions held_is_open_cmd.
Print Assumptions holds_is_open_cmd.
Print Assumptions FlagBridgeExamples.flags_nonvacuous.
Print Assumptions FlagBridgeExamples.bound_nonvacuous.
Print Assumptions FlagBridgeExamples.flags_error_answer_refuted.
Print Assumptions FlagBridgeExamples.mailbox_flag_cleared_by_other_refuted.
Print Assumptions FlagBridgeExamples.keeps_conns_nonvacuous.
Print Assumptions FlagBridgeExamples.oracle_fits_nonvacuous.
