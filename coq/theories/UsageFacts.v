(** UsageFacts.v -- facts about blur rounding and the usage summaries. *)
From MW Require Import Base Store Monad Usage.
From Coq Require Import ZifyBool Sorting.Permutation.
Ltac Zify.zify_post_hook ::= Z.to_euclidean_division_equations.

(** * blur_round *)

Lemma blur_round_none t : blur_round None t = t.
Proof. reflexivity. Qed.

(** for every positive interval B and every time t (in any unit: ticks of
    any granularity, hence every rational time), the blurred time is a
    multiple of B, is not after t, and is less than one interval before t *)
Lemma blur_round_spec B t :
  0 < B ->
  let r := blur_round (Some B) t in
  (B | r) /\ r <= t /\ t < r + B.
Proof.
  intros HB r. subst r. unfold blur_round.
  destruct (B =? 0) eqn:E; [lia|].
  split.
  - exists (t / B). lia.
  - split; lia.
Qed.

Lemma blur_round_idem B t :
  0 < B -> blur_round (Some B) (blur_round (Some B) t) = blur_round (Some B) t.
Proof.
  intros HB. unfold blur_round. destruct (B =? 0) eqn:E; [lia|].
  rewrite (Z.mul_comm B (t / B)), Z.div_mul by lia. lia.
Qed.

Lemma blur_round_mono B t u :
  0 < B -> t <= u -> blur_round (Some B) t <= blur_round (Some B) u.
Proof.
  intros HB H. unfold blur_round. destruct (B =? 0) eqn:E; [lia|].
  apply Z.mul_le_mono_nonneg_l; [lia|]. apply Z.div_le_mono; lia.
Qed.

(** * zsort *)

Lemma zinsert_perm x l : Permutation (x :: l) (zinsert x l).
Proof.
  induction l as [|y l IH]; cbn; [reflexivity|].
  destruct (x <=? y); [reflexivity|].
  rewrite perm_swap. now constructor.
Qed.

Lemma zsort_perm l : Permutation l (zsort l).
Proof.
  induction l as [|x l IH]; cbn; [constructor|].
  rewrite <- zinsert_perm. now constructor.
Qed.

Lemma zsort_length l : List.length (zsort l) = List.length l.
Proof. symmetry. apply Permutation_length, zsort_perm. Qed.

Inductive zsorted : list Z -> Prop :=
| zs_nil : zsorted []
| zs_one x : zsorted [x]
| zs_cons x y l : x <= y -> zsorted (y :: l) -> zsorted (x :: y :: l).

Lemma zinsert_sorted x l : zsorted l -> zsorted (zinsert x l).
Proof.
  induction 1 as [|y|y z l Hyz Hs IH]; cbn.
  - constructor.
  - destruct (x <=? y) eqn:E; constructor; try constructor; lia.
  - destruct (x <=? y) eqn:E.
    + constructor; [lia|]. now constructor.
    + cbn in IH. destruct (x <=? z) eqn:E2.
      * constructor; [lia|]. constructor; [lia|]. exact Hs.
      * constructor; [lia|]. exact IH.
Qed.

Lemma zsort_sorted l : zsorted (zsort l).
Proof. induction l; cbn; [constructor|]. now apply zinsert_sorted. Qed.

Lemma zsorted_head_min x l : zsorted (x :: l) -> forall y, In y l -> x <= y.
Proof.
  revert x. induction l as [|z l IH]; intros x Hs y Hin; [contradiction|].
  inversion Hs; subst. destruct Hin as [->|Hin]; [lia|].
  specialize (IH z H3 y Hin). lia.
Qed.

(** the head of the sorted list is the minimum of the original list *)
Lemma zsort_head_min l t0 rest :
  zsort l = t0 :: rest -> In t0 l /\ forall y, In y l -> t0 <= y.
Proof.
  intros E. split.
  - eapply Permutation_in; [symmetry; apply zsort_perm|]. rewrite E. now left.
  - intros y Hy. assert (Hin : In y (zsort l)) by (eapply Permutation_in; [apply zsort_perm|exact Hy]).
    rewrite E in Hin. destruct Hin as [->|Hin]; [lia|].
    eapply zsorted_head_min; [|exact Hin]. rewrite <- E. apply zsort_sorted.
Qed.

(** * Classification: the documented precedence, for any number of sides *)

Section Classification.
Variables (b : option Z) (app : string).

(** nameplates: crowded > pruney > happy (2 sides) > lonely *)
Lemma nameplate_result_spec side_rows dt pruned u :
  summarize_nameplate b app side_rows dt pruned = Some u ->
  let n := List.length side_rows in
  unp_result u =
    (if (2 <? n)%nat then "crowded"
     else if pruned then "pruney"
     else if (n =? 2)%nat then "happy" else "lonely")%string
  /\ unp_app u = app.
Proof.
  intros H n. unfold summarize_nameplate in H.
  destruct (zsort (map nps_added side_rows)) as [|t0 rest] eqn:E; [discriminate|].
  inversion H; subst u; clear H. cbn [unp_result unp_app].
  assert (L : List.length (t0 :: rest) = n).
  { rewrite <- E, zsort_length, map_length. reflexivity. }
  cbn [List.length] in L. rewrite <- L. split; reflexivity.
Qed.

Lemma nameplate_summary_none side_rows dt pruned :
  summarize_nameplate b app side_rows dt pruned = None <-> side_rows = [].
Proof.
  unfold summarize_nameplate. split.
  - destruct (zsort (map nps_added side_rows)) eqn:E; [|discriminate]. intros _.
    apply (f_equal (@List.length Z)) in E. rewrite zsort_length, map_length in E.
    destruct side_rows; [reflexivity|discriminate].
  - intros ->. reflexivity.
Qed.

(** times of a nameplate record: started is the blurred earliest arrival,
    total is retirement minus earliest arrival *)
Lemma nameplate_times_spec side_rows dt pruned u :
  summarize_nameplate b app side_rows dt pruned = Some u ->
  exists t0, In t0 (map nps_added side_rows) /\
             (forall y, In y (map nps_added side_rows) -> t0 <= y) /\
             unp_started u = blur_round b t0 /\ unp_total u = dt - t0 /\
             (List.length side_rows = 1%nat -> unp_waiting u = None).
Proof.
  unfold summarize_nameplate. intros H.
  destruct (zsort (map nps_added side_rows)) as [|t0 rest] eqn:E; [discriminate|].
  inversion H; subst u; clear H. cbn.
  destruct (zsort_head_min _ _ _ E) as [Hin Hmin].
  exists t0. repeat split; auto.
  intros L. assert (L' : List.length (t0 :: rest) = 1%nat).
  { rewrite <- E, zsort_length, map_length. exact L. }
  destruct rest; [reflexivity|discriminate].
Qed.

(** mailboxes: crowded > pruney > scary > errory > lonely(mood) > by number of sides;
    unknown, empty and missing moods have no influence *)
Definition has_mood (m : string) (side_rows : list mbs_row) : bool :=
  existsb (fun r => match mbs_mood r with Some s => seqb s m | None => false end) side_rows.

Lemma seqb_eq a b' : seqb a b' = true <-> a = b'.
Proof. apply String.eqb_eq. Qed.

Lemma smem_moods m side_rows :
  m <> ""%string -> smem m (moods_of side_rows) = has_mood m side_rows.
Proof.
  intros Hm. induction side_rows as [|r l IH]; [reflexivity|].
  cbn [moods_of has_mood existsb]. unfold truthy_mood.
  destruct (mbs_mood r) as [s|] eqn:Em.
  - destruct (seqb s "") eqn:Es.
    + apply seqb_eq in Es. subst s.
      assert (seqb "" m = false) as ->.
      { destruct (seqb "" m) eqn:E; [apply seqb_eq in E; congruence|reflexivity]. }
      cbn. exact IH.
    + cbn [smem]. rewrite IH. unfold has_mood.
      f_equal. unfold seqb. apply String.eqb_sym.
  - cbn. exact IH.
Qed.

Lemma mailbox_result_spec fornp side_rows dt pruned :
  let n := List.length side_rows in
  umb_result (summarize_mailbox b app fornp side_rows dt pruned) =
    (if (2 <? n)%nat then "crowded"
     else if pruned then "pruney"
     else if has_mood "scary" side_rows then "scary"
     else if has_mood "errory" side_rows then "errory"
     else if has_mood "lonely" side_rows then "lonely"
     else if (n =? 0)%nat then "quiet"
     else if (n =? 1)%nat then "lonely"
     else "happy")%string.
Proof.
  intros n. unfold summarize_mailbox. cbn [umb_result].
  rewrite zsort_length, map_length. fold n.
  rewrite !smem_moods by discriminate. reflexivity.
Qed.

Lemma mailbox_times_spec fornp side_rows dt pruned :
  let u := summarize_mailbox b app fornp side_rows dt pruned in
  umb_app u = app /\ umb_fornp u = fornp /\
  match side_rows with
  | [] => umb_started u = blur_round b dt /\ umb_total u = 0 /\ umb_waiting u = None
  | _ => exists t0, In t0 (map mbs_added side_rows) /\
                    (forall y, In y (map mbs_added side_rows) -> t0 <= y) /\
                    umb_started u = blur_round b t0 /\ umb_total u = dt - t0
  end.
Proof.
  intros u. subst u. unfold summarize_mailbox. cbn [umb_app umb_fornp umb_started umb_total umb_waiting].
  split; [reflexivity|]. split; [reflexivity|].
  destruct side_rows as [|r l].
  - cbn. repeat split. lia.
  - destruct (zsort (map mbs_added (r :: l))) as [|t0 rest] eqn:E.
    + apply (f_equal (@List.length Z)) in E. rewrite zsort_length in E. discriminate.
    + destruct (zsort_head_min _ _ _ E) as [Hin Hmin].
      exists t0. repeat split; auto.
Qed.

End Classification.
