(** IdleFacts.v -- the converse of ActivityFacts.v, PART A (C13, first sentence).

    ActivityFacts.v: a served claim / allocate / open / add stamps the mailbox
    it concerns with the arrival time, stamps never decrease, and a recently
    stamped mailbox survives every sweep.  Here, the other direction:

    - [stamp_moves_only_by] ([_cases]: with the disjunction spelled out): over
      one event of ANY kind (commands, connects, disconnects, sweeps, clock
      advances, clean restarts, crashes after any number of commits) the
      [mb_updated] stamp of mailbox (a, m) changes only (i) to the time of the
      event, and (ii) if the event is -- or is a crash during -- either a
      command of a connection bound to app [a] that goes through
      [open_mailbox a m] / [add_message a m] ([concerns] = [cmd_touches]:
      claim, allocate, open -- also when refused `crowded` --, add, and a close
      on a connection that does NOT hold a mailbox: KF4), or a non-faulty sweep
      (explicit, or the timer's at a due clock advance) while (a, m) has a
      subscriber.  A clean restart never moves a stamp (the start-up sweep
      finds no subscriber: [restart_keeps_stamp]); nor does a close of the
      mailbox the connection holds, a refused (reclaimed) claim, or a command
      of another app naming the same id (KF1: PRIMARY KEY failure);
    - [idle_stamp_constant]: over a history none of whose events moves (a, m)
      ([idle_hist]) a surviving row of (a, m) keeps its stamp -- and a deleted
      one is not re-created;
    - [idle_is_swept] ([_sweep], [_timer]): hence the first non-faulty sweep at
      a time [T >= stamp + exp] after an idle history removes the mailbox, its
      messages, its side rows, the nameplate pointing at it and that nameplate's
      side rows ([removed], the exact counterpart of ActivityFacts.kept).

    PART 1 is one traversal of server.py / server_websocket.py, after
    ActivityFacts.StampGE (itself after TimeInv.v), for an abstract [policy]:
    a predicate on mailbox rows that holds of every row -- in the working
    database, the committed one, and every committed snapshot of the log,
    hence in whatever a crash leaves -- together with the row insertions and
    stamp updates it tolerates.  Each handler keeps the invariant provided the
    state it starts from makes it go only through tolerated insertions and
    updates ([okcmd]).  PART 3 instantiates it twice: [stamp_pol m v b]
    ("every row with id m carries the stamp v -- or, b = true, the time of the
    event") and [absent_pol a m] ("(a, m) has no row"). *)
From MW Require Import Base Store Monad Usage Server Websocket Service Findings
     Inv StoreFacts Hoare DbFactsA DbFactsB OpFacts ProtoFacts Obs StepFacts SweepFacts
     TimeInv NpFactsA NpFactsB MbFactsA MbFactsB Corollaries CrowdFacts QuiesceFacts
     DupFacts UsageFacts KfFacts ActivityFacts Inst_Params Inst_Timer.
From MWGen Require GenParams.
Local Open Scope list_scope.

(* ====================================================================== *)
(** * PART 1 -- the traversal *)
(* ====================================================================== *)

(** what the invariant says about a mailbox row ([RO0]: between events, [RO T]:
    while an event at time [T] is being handled), which rows may be inserted
    ([FI app id], stamped with the current time) and which ids may be touched
    ([FT id]) *)
Record policy := mkPolicy
  { RO0 : mb_row -> Prop;
    RO : Z -> mb_row -> Prop;
    FI : string -> string -> Prop;
    FT : string -> Prop;
    pol_weak : forall T r, RO0 r -> RO T r;
    pol_ins : forall T a m f, FI a m -> RO T (mkMb a m T f);
    pol_touch : forall T r, FT (mb_id r) -> RO T r ->
                RO T (mkMb (mb_app r) (mb_id r) T (mb_fornp r)) }.

Section Stamp.
Variables (p : policy) (T : Z).

Definition DB (d : chan_db) : Prop := Forall (RO p T) (mailboxes d).
Definition db_entry (e : log_entry) : Prop :=
  match e with LCommitChan d => DB d | _ => True end.

(** creating, then touching, mailbox (a, m') is harmless *)
Definition fr (a m' : string) : Prop := FI p a m' /\ FT p m'.
(** [open_body d a m'] is harmless: by the policy, or because it fails on the
    PRIMARY KEY (the id exists under another app: known finding KF1) *)
Definition okopen (d : chan_db) (a m' : string) : Prop := fr a m' \/ pk_clash d a m'.
(** [claim_body d a n side _ draw] is harmless: the nameplate exists and
    points at a harmless mailbox, or exists and this side's claim is refused
    (reclaimed); or it does not exist and the mailbox id drawn is harmless *)
Definition okclaim (d : chan_db) (a n side : string) (draw : option string) : Prop :=
  match sel_np d a n with
  | Some np => fr a (np_mbox np) \/
               exists r, sel_nps d (np_id np) side = Some r /\ nps_claimed r = false
  | None => forall bytes, draw = Some bytes -> okopen d a (genid bytes)
  end.

Lemma db_same d d' : mailboxes d' = mailboxes d -> DB d -> DB d'.
Proof. unfold DB. intros ->. auto. Qed.

Lemma db_ins_mb d r d' :
  ins_mb d r = Some d' -> mb_updated r = T -> FI p (mb_app r) (mb_id r) -> DB d -> DB d'.
Proof.
  unfold ins_mb. destruct (mb_exists d (mb_id r)); [discriminate|].
  intros H Hr Hf Hd. inversion H; subst d'. unfold DB. cbn [set_mailboxes mailboxes].
  apply Forall_snoc; [exact Hd|]. destruct r as [ra ri ru rf]. cbn in Hr, Hf. subst ru.
  apply pol_ins. exact Hf.
Qed.

Lemma db_upd_touch d m' : FT p m' -> DB d -> DB (upd_touch d m' T).
Proof.
  intros Hf Hd. unfold DB, upd_touch. cbn [set_mailboxes mailboxes].
  apply Forall_map_keep; [|exact Hd]. intros r Hr. cbv beta.
  destruct (seqb (mb_id r) m') eqn:E; [|exact Hr].
  apply seqb_eq in E. apply pol_touch; [rewrite E; exact Hf|exact Hr].
Qed.

Lemma db_del_mb d m' d' : del_mb d m' = Some d' -> DB d -> DB d'.
Proof.
  unfold del_mb.
  destruct (mb_exists d m' &&
            (existsb (fun r => seqb (np_mbox r) m') (nameplates d) ||
             existsb (fun r => seqb (mbs_mbox r) m') (mb_sides d))); [discriminate|].
  intros H Hd. inversion H; subst d'. unfold DB. cbn [set_mailboxes mailboxes].
  apply Forall_filter_keep. exact Hd.
Qed.

Lemma db_ins_np d a n m' d' i : ins_np d a n m' = Some (d', i) -> DB d -> DB d'.
Proof.
  unfold ins_np. destruct (mb_exists d m'); [|discriminate].
  intros H Hd. inversion H; subst d' i. exact Hd.
Qed.

Lemma db_ins_nps d r d' : ins_nps d r = Some d' -> DB d -> DB d'.
Proof.
  unfold ins_nps. destruct (np_exists d (nps_npid r)); [|discriminate].
  intros H Hd. inversion H; subst d'. exact Hd.
Qed.

Lemma db_ins_mbs d r d' : ins_mbs d r = Some d' -> DB d -> DB d'.
Proof.
  unfold ins_mbs. destruct (mb_exists d (mbs_mbox r)); [|discriminate].
  intros H Hd. inversion H; subst d'. exact Hd.
Qed.

Lemma db_del_np d npid d' : del_np d npid = Some d' -> DB d -> DB d'.
Proof.
  unfold del_np.
  destruct (np_exists d npid && existsb (fun r => nps_npid r =? npid) (np_sides d)); [discriminate|].
  intros H Hd. inversion H; subst d'. exact Hd.
Qed.

(** ** transaction bodies of Server.v (with [when] = T) *)

Definition gtxok {A} (r : txres A) : Prop :=
  match r with TxOk _ d => DB d | TxFail _ d => DB d end.

Section Bodies.
Variable cfg : config.

Lemma db_add_mailbox d a m' fornp d' :
  add_mailbox d a m' fornp T = Some d' -> FI p a m' -> DB d -> DB d'.
Proof.
  unfold add_mailbox. destruct (sel_mb d a m').
  - intros H _ Hd. inversion H; subst d'. exact Hd.
  - intros H Hf Hd. eapply db_ins_mb; [exact H|reflexivity|exact Hf|exact Hd].
Qed.

Lemma db_mailbox_open_body d m' side d' :
  mailbox_open_body d m' side T = Some d' -> FT p m' -> DB d -> DB d'.
Proof.
  unfold mailbox_open_body. destruct (sel_mbs d m' side).
  - intros H Hf Hd. inversion H; subst d'. apply db_upd_touch; assumption.
  - destruct (ins_mbs d (mkMbs m' true side T None)) as [d1|] eqn:E; [|discriminate].
    intros H Hf Hd. inversion H; subst d'. apply db_upd_touch; [exact Hf|].
    eapply db_ins_mbs; [exact E|exact Hd].
Qed.

Lemma gtx_open_body a m' side d : okopen d a m' -> DB d -> gtxok (open_body d a m' side T).
Proof.
  intros [Hf|Hc] Hd.
  - unfold open_body.
    destruct (add_mailbox d a m' false T) as [d1|] eqn:E1; [|exact Hd].
    pose proof (db_add_mailbox _ _ _ _ _ E1 (proj1 Hf) Hd) as Hd1.
    destruct (mailbox_open_body d1 m' side T) as [d2|] eqn:E2; [|exact Hd1].
    cbn [gtxok]. eapply db_mailbox_open_body; [exact E2|exact (proj2 Hf)|exact Hd1].
  - rewrite (kf_pk_clash_fail d a m' side T Hc). exact Hd.
Qed.

Lemma gtx_claim_side_body npid mbox side d : DB d -> gtxok (claim_side_body d npid mbox side T).
Proof.
  intros Hd. unfold claim_side_body. destruct (sel_nps d npid side) as [r|].
  - destruct (nps_claimed r); exact Hd.
  - destruct (ins_nps d (mkNps npid true side T)) as [d1|] eqn:E; [|exact Hd].
    cbn [gtxok]. eapply db_ins_nps; [exact E|exact Hd].
Qed.

Lemma claim_side_body_res npid mbox side d x y d' :
  claim_side_body d npid mbox side T = TxOk (x, y) d' -> y = mbox.
Proof.
  unfold claim_side_body. destruct (sel_nps d npid side) as [r|].
  - destruct (nps_claimed r); [|discriminate]. intros H; inversion H; reflexivity.
  - destruct (ins_nps d (mkNps npid true side T)); [|discriminate].
    intros H; inversion H; reflexivity.
Qed.

(** the first transaction of a claim: the invariant, and the mailbox it
    returns (which [open_mailbox] is about to touch) is harmless *)
Lemma gtx_claim_body a n side draw d :
  okclaim d a n side draw -> DB d ->
  match claim_body d a n side T draw with
  | TxOk (npid, mbox) d' => DB d' /\ fr a mbox
  | TxFail _ d' => DB d'
  end.
Proof.
  intros Hok Hd. unfold okclaim in Hok. unfold claim_body.
  destruct (sel_np d a n) as [np|].
  - pose proof (gtx_claim_side_body (np_id np) (np_mbox np) side d Hd) as H.
    destruct (claim_side_body d (np_id np) (np_mbox np) side T) as [[x y] d'|e d'] eqn:E;
      [|exact H].
    split; [exact H|]. rewrite (claim_side_body_res _ _ _ _ _ _ _ E).
    destruct Hok as [Hf|(r & Hr & Hc)]; [exact Hf|].
    exfalso. unfold claim_side_body in E. rewrite Hr, Hc in E. discriminate.
  - destruct draw as [bytes|]; [|exact Hd]. cbv zeta.
    destruct (Hok bytes eq_refl) as [Hf|[Hex Hno]].
    + destruct (add_mailbox d a (genid bytes) true T) as [d1|] eqn:E1; [|exact Hd].
      pose proof (db_add_mailbox _ _ _ _ _ E1 (proj1 Hf) Hd) as Hd1.
      destruct (ins_np d1 a n (genid bytes)) as [[d2 npid]|] eqn:E2; [|exact Hd1].
      pose proof (db_ins_np _ _ _ _ _ _ E2 Hd1) as Hd2.
      pose proof (gtx_claim_side_body npid (genid bytes) side d2 Hd2) as H.
      destruct (claim_side_body d2 npid (genid bytes) side T) as [[x y] d'|e d'] eqn:E;
        [|exact H].
      split; [exact H|]. rewrite (claim_side_body_res _ _ _ _ _ _ _ E). exact Hf.
    + unfold add_mailbox.
      destruct (sel_mb d a (genid bytes)) as [r|] eqn:Es.
      * exfalso. apply Hno. apply has_mb_sel. eauto.
      * unfold ins_mb. cbn [mb_id]. rewrite Hex. exact Hd.
Qed.

Lemma gtx_del_nameplates_body a when pruned ids : forall d acc,
  DB d -> gtxok (del_nameplates_body cfg d a ids when pruned acc).
Proof.
  induction ids as [|npid rest IH]; intros d acc Hd; cbn [del_nameplates_body]; cbv zeta.
  - exact Hd.
  - assert (Hd1 : DB (del_nps_of d npid)) by exact Hd.
    destruct (del_np (del_nps_of d npid) npid) as [d2|] eqn:E; [|exact Hd1].
    pose proof (db_del_np _ _ _ E Hd1) as Hd2.
    destruct (usage_on cfg).
    + destruct (summarize_nameplate (blur cfg) a (sel_nps_all d npid) when pruned);
        [apply IH; exact Hd2|exact Hd2].
    + apply IH; exact Hd2.
Qed.

Lemma gtx_del_mailbox_body a m' fornp rows when pruned d :
  DB d -> gtxok (del_mailbox_body cfg d a m' fornp rows when pruned).
Proof.
  intros Hd. unfold del_mailbox_body. cbv zeta.
  assert (Hd2 : DB (del_mbs_of (del_msgs_of d m') m')) by exact Hd.
  destruct (del_mb (del_mbs_of (del_msgs_of d m') m') m') as [d3|] eqn:E; [|exact Hd2].
  cbn [gtxok]. eapply db_del_mb; [exact E|exact Hd2].
Qed.

Lemma gtx_del_mailboxes_body a when rows : forall d acc,
  DB d -> gtxok (del_mailboxes_body cfg d a rows when acc).
Proof.
  induction rows as [|r rest IH]; intros d acc Hd; cbn [del_mailboxes_body].
  - exact Hd.
  - pose proof (gtx_del_mailbox_body a (mb_id r) (mb_fornp r) (sel_mbs_all d (mb_id r)) when true d Hd)
      as H.
    destruct (del_mailbox_body cfg d a (mb_id r) (mb_fornp r) (sel_mbs_all d (mb_id r)) when true)
      as [us d1|e d1]; [apply IH; exact H|exact H].
Qed.

Lemma gtx_close_mark a m' side mood d :
  DB d -> gtxok (match close_mark_body d a m' side mood with
                 | None => TxOk None d
                 | Some (fornp, d1) => TxOk (Some fornp) d1
                 end).
Proof.
  intros Hd. unfold close_mark_body.
  destruct (sel_mb d a m') as [row|]; [|exact Hd].
  destruct (sel_mbs d m' side); exact Hd.
Qed.

Lemma gtx_close_delete_body a m' fornp when d :
  DB d -> gtxok (close_delete_body cfg d a m' fornp when).
Proof.
  intros Hd. unfold close_delete_body. cbv zeta.
  destruct (existsb mbs_opened (sel_mbs_all d m')); [exact Hd|].
  pose proof (gtx_del_nameplates_body a when false (map np_id (sel_np_by_mbox d m')) d [] Hd) as H1.
  destruct (del_nameplates_body cfg d a (map np_id (sel_np_by_mbox d m')) when false [])
    as [unps d1|e d1]; [|exact H1].
  pose proof (gtx_del_mailbox_body a m' fornp (sel_mbs_all d m') when false d1 H1) as H2.
  destruct (del_mailbox_body cfg d1 a m' fornp (sel_mbs_all d m') when false) as [umbs d2|e d2];
    exact H2.
Qed.

Lemma gtx_release_mark a name side d :
  DB d -> gtxok (match release_mark_body d a name side with
                 | None => TxOk None d
                 | Some (npid, d1) => TxOk (Some npid) d1
                 end).
Proof.
  intros Hd. unfold release_mark_body.
  destruct (sel_np d a name) as [np|]; [|exact Hd].
  destruct (sel_nps d (np_id np) side); exact Hd.
Qed.

Lemma gtx_release_delete_body a npid when d :
  DB d -> gtxok (release_delete_body cfg d a npid when).
Proof.
  intros Hd. unfold release_delete_body. cbv zeta.
  destruct (existsb nps_claimed (sel_nps_all d npid)); [exact Hd|].
  assert (Hd1 : DB (del_nps_of d npid)) by exact Hd.
  destruct (del_np (del_nps_of d npid) npid) as [d2|] eqn:E; [|exact Hd1].
  pose proof (db_del_np _ _ _ E Hd1) as Hd2.
  destruct (usage_on cfg); [|exact Hd2].
  destruct (summarize_nameplate (blur cfg) a (sel_nps_all d npid) when false); exact Hd2.
Qed.

Lemma gtx_prune_body a when old d : DB d -> gtxok (prune_body cfg d a when old).
Proof.
  intros Hd. unfold prune_body. cbv zeta.
  pose proof (gtx_del_nameplates_body a when true (map np_id (old_nameplates d a old)) d [] Hd) as H1.
  destruct (del_nameplates_body cfg d a (map np_id (old_nameplates d a old)) when true [])
    as [unps d1|e d1]; [|exact H1].
  pose proof (gtx_del_mailboxes_body a when (old_mailboxes d a old) d1 [] H1) as H2.
  destruct (del_mailboxes_body cfg d1 a (old_mailboxes d a old) when []) as [umbs d2|e d2];
    exact H2.
Qed.

Lemma db_touch_all ms : forall d, (forall m', In m' ms -> FT p m') -> DB d -> DB (touch_all d ms T).
Proof.
  induction ms as [|m' rest IH]; intros d Hf Hd; cbn [touch_all]; [exact Hd|].
  apply IH; [intros x Hx; apply Hf; right; exact Hx|].
  apply db_upd_touch; [apply Hf; left; reflexivity|exact Hd].
Qed.

Lemma gtx_add_message_body m' r d :
  FT p m' -> msg_rx r = T -> DB d -> @gtxok unit (TxOk tt (upd_touch (ins_msg d r) m' (msg_rx r))).
Proof. intros Hf Hr Hd. cbn [gtxok]. rewrite Hr. apply db_upd_touch; [exact Hf|exact Hd]. Qed.

End Bodies.

(** ** the invariant carried through a handler.  [X]: what is known about the
    subscription table (nothing for commands; "nobody listens to [m]" for the
    sweeps of the [b = false] instance) *)

Definition GI (s : state) : Prop :=
  DB (chan_w s) /\ DB (chan_c s) /\ Forall db_entry (log s) /\ now s = T.

Lemma GI_ext s s' :
  chan_w s' = chan_w s -> chan_c s' = chan_c s -> log s' = log s -> now s' = now s ->
  GI s -> GI s'.
Proof. intros Ew Ec El En H. unfold GI. rewrite Ew, Ec, El, En. exact H. Qed.

Section Pres.
Variables (cfg : config) (X : list (string * string * nat) -> Prop).

Definition GINV (s : state) : Prop := GI s /\ X (subs s).

Lemma GINV_ext s s' :
  chan_w s' = chan_w s -> chan_c s' = chan_c s -> log s' = log s -> now s' = now s ->
  subs s' = subs s -> GINV s -> GINV s'.
Proof.
  intros Ew Ec El En Es [H1 H2]. split; [eapply GI_ext; eauto|rewrite Es; exact H2].
Qed.

(** [gat P c s]: running [c] from [s] keeps the invariant, whatever the outcome *)
Definition gat {A} (P : A -> Prop) (c : M A) (s : state) : Prop :=
  wp c (fun a s' => P a /\ GINV s') (fun _ s' => GINV s') s.
Definition gpres {A} (P : A -> Prop) (c : M A) : Prop := forall s, GINV s -> gat P c s.

Lemma gat_elim {A} (P : A -> Prop) (c : M A) s : gat P c s -> GINV (out (c s)).
Proof. unfold gat, wp. destruct (c s); cbn [out]; [intros [_ H]; exact H|auto]. Qed.

Lemma gat_weaken {A} (P Q : A -> Prop) (c : M A) s :
  (forall a, P a -> Q a) -> gat P c s -> gat Q c s.
Proof.
  intros HPQ H. eapply wp_conseq; [exact H| |auto]. intros a s' [Ha Hs]. split; auto.
Qed.

Lemma gat_bind {A C} (P : A -> Prop) (Q : C -> Prop) (c : M A) (k : A -> M C) s :
  gat P c s -> (forall a, P a -> gpres Q (k a)) -> gat Q (bind c k) s.
Proof.
  intros Hm Hk. apply wp_bind. eapply wp_conseq; [exact Hm| |auto].
  intros a s' [Ha Hs']. apply (Hk a Ha s' Hs').
Qed.

Lemma gat_try_catch {A} (P : A -> Prop) (c : M A) (h : exn -> M A) s :
  gat P c s -> (forall e, gpres P (h e)) -> gat P (try_catch c h) s.
Proof.
  intros Hm Hh. apply wp_try_catch. eapply wp_conseq; [exact Hm|auto|].
  intros e s' Hs'. apply (Hh e s' Hs').
Qed.

(** symbolic execution of the primitives that cannot fail *)
Lemma gat_get_conn {A} (P : A -> Prop) c (k : conn_state -> M A) s :
  gat P (k (conn_of s c)) s -> gat P (bind (get_conn c) k) s.
Proof. exact (fun H => H). Qed.

Lemma gat_set_conn {A} (P : A -> Prop) c cs (k : unit -> M A) s :
  gat P (k tt) (set_conns s (update_conn c cs (conns s))) -> gat P (bind (set_conn c cs) k) s.
Proof. exact (fun H => H). Qed.

Lemma gat_get {A} (P : A -> Prop) (k : state -> M A) s : gat P (k s) s -> gat P (bind get k) s.
Proof. exact (fun H => H). Qed.

Lemma gat_send {A} (P : A -> Prop) c f (k : unit -> M A) s :
  gat P (k tt) (set_log s (LFrame c f (is_clean s) (now s) :: log s)) -> gat P (bind (send c f) k) s.
Proof. exact (fun H => H). Qed.

Lemma gat_q {A B} (P : A -> Prop) (f : chan_db -> B) (k : B -> M A) s :
  gat P (k (f (chan_w s))) s -> gat P (bind (q f) k) s.
Proof. exact (fun H => H). Qed.

Lemma gpres_bind {A C} (P : A -> Prop) (Q : C -> Prop) (c : M A) (k : A -> M C) :
  gpres P c -> (forall a, P a -> gpres Q (k a)) -> gpres Q (bind c k).
Proof. intros Hm Hk s Hs. eapply gat_bind; [apply Hm; exact Hs|exact Hk]. Qed.

Lemma gpres_try_catch {A} (P : A -> Prop) (c : M A) (h : exn -> M A) :
  gpres P c -> (forall e, gpres P (h e)) -> gpres P (try_catch c h).
Proof. intros Hm Hh s Hs. eapply gat_try_catch; [apply Hm; exact Hs|exact Hh]. Qed.

Lemma gpres_ret {A} (P : A -> Prop) (a : A) : P a -> gpres P (ret a).
Proof. intros Ha s Hs. apply wp_ret. split; assumption. Qed.

Lemma gpres_raise {A} (P : A -> Prop) e : gpres P (raise e).
Proof. intros s Hs. apply wp_raise. exact Hs. Qed.

Lemma gpres_get : gpres (fun s => now s = T /\ X (subs s)) get.
Proof.
  intros s Hs. apply wp_get. split; [|exact Hs].
  split; [exact (proj2 (proj2 (proj2 (proj1 Hs))))|exact (proj2 Hs)].
Qed.

Lemma gpres_q {A} (f : chan_db -> A) : gpres (fun _ => True) (q f).
Proof. intros s Hs. apply wp_q. split; [exact I|exact Hs]. Qed.

(** a transaction from a given state *)
Lemma gat_tx {A} (P : A -> Prop) (f : chan_db -> txres A) s :
  GINV s ->
  match f (chan_w s) with TxOk a d => P a /\ DB d | TxFail _ d => DB d end ->
  gat P (tx f) s.
Proof.
  intros [(Hw & Hc & Hl & Hn) HX] Hf. apply wp_tx.
  assert (Hset : forall d, DB d -> GINV (set_chan_w s d)).
  { intros d Hd. split; [|exact HX]. unfold GI. cbn [set_chan_w chan_w chan_c log now]. auto. }
  destruct (f (chan_w s)) as [a d|e d]; [split; [apply Hf|]|]; apply Hset; apply Hf.
Qed.

Lemma gpres_tx {A} (f : chan_db -> txres A) :
  (forall d, DB d -> gtxok (f d)) -> gpres (fun _ => True) (tx f).
Proof.
  intros Hf s Hs. apply gat_tx; [exact Hs|].
  pose proof (Hf (chan_w s) (proj1 (proj1 Hs))) as H.
  destruct (f (chan_w s)); cbn [gtxok] in H; auto.
Qed.

Lemma gpres_utx f : gpres (fun _ => True) (utx f).
Proof.
  intros s Hs. apply wp_utx. split; [exact I|]. eapply GINV_ext; [..|exact Hs]; reflexivity.
Qed.

Lemma gpres_commit_chan : gpres (fun _ => True) commit_chan.
Proof.
  intros s [(Hw & Hc & Hl & Hn) HX]. apply wp_commit_chan. split; [exact I|].
  split; [|exact HX]. unfold GI. cbn [chan_w chan_c log now].
  split; [exact Hw|]. split; [exact Hw|]. split; [constructor; [exact Hw|exact Hl]|exact Hn].
Qed.

Lemma gpres_commit_usage : gpres (fun _ => True) commit_usage.
Proof.
  intros s [(Hw & Hc & Hl & Hn) HX]. apply wp_commit_usage. split; [exact I|].
  split; [|exact HX]. unfold GI. cbn [chan_w chan_c log now].
  split; [exact Hw|]. split; [exact Hc|]. split; [constructor; [exact I|exact Hl]|exact Hn].
Qed.

Lemma gpres_send c f : gpres (fun _ => True) (send c f).
Proof.
  intros s [(Hw & Hc & Hl & Hn) HX]. apply wp_send. split; [exact I|].
  split; [|exact HX]. unfold GI. cbn [chan_w chan_c log now set_log].
  split; [exact Hw|]. split; [exact Hc|]. split; [constructor; [exact I|exact Hl]|exact Hn].
Qed.

Lemma gpres_get_conn c : gpres (fun _ => True) (get_conn c).
Proof. intros s Hs. apply wp_get_conn. split; [exact I|exact Hs]. Qed.

Lemma gpres_set_conn c cs : gpres (fun _ => True) (set_conn c cs).
Proof.
  intros s Hs. apply wp_set_conn. split; [exact I|]. eapply GINV_ext; [..|exact Hs]; reflexivity.
Qed.

Lemma gpres_write_usage unps umbs : gpres (fun _ => True) (write_usage unps umbs).
Proof. unfold write_usage. apply gpres_utx. Qed.

Ltac gtx_body :=
  first [ apply gtx_release_mark | apply gtx_release_delete_body | apply gtx_close_mark
        | apply gtx_close_delete_body | apply gtx_prune_body ]; assumption.

Ltac gpres_step :=
  cbv beta;
  lazymatch goal with
  | |- gpres _ (bind get _) =>
      let Hnow := fresh "Hnow" in
      apply (gpres_bind (fun s => now s = T /\ X (subs s)));
      [apply gpres_get|intros ? [Hnow ?]; rewrite ?Hnow]
  | |- gpres _ (bind _ _) => apply (gpres_bind (fun _ => True)); [|intros ? _]
  | |- gpres _ (ret _) => apply gpres_ret; exact I
  | |- gpres _ (raise _) => apply gpres_raise
  | |- gpres _ err => apply gpres_raise
  | |- gpres _ (try_catch _ _) => apply gpres_try_catch; [|intros ?]
  | |- gpres _ (catch_crowded _) => apply gpres_try_catch; [|intros ?]
  | |- gpres _ (catch_crowded_reclaimed _) => apply gpres_try_catch; [|intros ?]
  | |- gpres _ (q _) => apply gpres_q
  | |- gpres _ (tx _) => apply gpres_tx; intros ? ?; gtx_body
  | |- gpres _ (utx _) => apply gpres_utx
  | |- gpres _ commit_chan => apply gpres_commit_chan
  | |- gpres _ commit_usage => apply gpres_commit_usage
  | |- gpres _ (send _ _) => apply gpres_send
  | |- gpres _ (get_conn _) => apply gpres_get_conn
  | |- gpres _ (set_conn _ _) => apply gpres_set_conn
  | |- gpres _ (write_usage _ _) => apply gpres_write_usage
  | |- gpres _ (match ?x with _ => _ end) => destruct x
  | |- gpres _ _ => solve [eauto with idb]
  end.

(** ** Server.v, the operations that do not write the subscription table *)

(** the tail of [open_mailbox] after its transaction *)
Lemma gpres_open_tail m' :
  gpres (fun _ => True)
        (commit_chan ;;; commit_chan ;;;
         rows <- q (fun d => sel_mbs_all d m') ;;
         if (2 <? List.length rows)%nat then raise XCrowded else ret tt).
Proof. repeat gpres_step. Qed.

Lemma gat_open_mailbox a m' side s :
  GINV s -> okopen (chan_w s) a m' -> gat (fun _ => True) (open_mailbox a m' side T) s.
Proof.
  intros Hs Hok. unfold open_mailbox.
  apply (gat_bind (fun _ => True)); [|intros ? _; apply gpres_open_tail].
  apply gat_tx; [exact Hs|].
  pose proof (gtx_open_body a m' side (chan_w s) Hok (proj1 (proj1 Hs))) as H.
  destruct (open_body (chan_w s) a m' side T); cbn [gtxok] in H; auto.
Qed.

Lemma gpres_open_mailbox a m' side : fr a m' -> gpres (fun _ => True) (open_mailbox a m' side T).
Proof. intros Hf s Hs. apply gat_open_mailbox; [exact Hs|left; exact Hf]. Qed.

Lemma gat_claim_nameplate a n side draw s :
  GINV s -> okclaim (chan_w s) a n side draw ->
  gat (fun _ => True) (claim_nameplate a n side T draw) s.
Proof.
  intros Hs Hok. unfold claim_nameplate.
  apply (gat_bind (fun r => fr a (snd r))).
  - apply gat_tx; [exact Hs|].
    pose proof (gtx_claim_body a n side draw (chan_w s) Hok (proj1 (proj1 Hs))) as H.
    destruct (claim_body (chan_w s) a n side T draw) as [[npid mbox] d|e d]; [|exact H].
    cbn [snd]. tauto.
  - intros [npid mbox] Hf. cbn [snd] in Hf. cbv beta iota.
    apply (gpres_bind (fun _ => True)); [apply gpres_commit_chan|intros ? _].
    apply (gpres_bind (fun _ => True)); [apply gpres_open_mailbox; exact Hf|intros ? _].
    repeat gpres_step.
Qed.

Lemma gat_allocate_nameplate a side o draw s :
  GINV s ->
  (forall n, find_available (sel_names (chan_w s) a) o = AllocOk n ->
             okclaim (chan_w s) a n side draw) ->
  gat (fun _ => True) (allocate_nameplate a side T o draw) s.
Proof.
  intros Hs Hok. unfold allocate_nameplate.
  apply gat_q.
  destruct (find_available (sel_names (chan_w s) a) o) as [n| |] eqn:Ef.
  - apply (gat_bind (fun _ => True));
      [apply gat_claim_nameplate; [exact Hs|apply Hok; reflexivity]|intros ? _].
    apply gpres_ret. exact I.
  - apply gpres_raise. exact Hs.
  - apply gpres_raise. exact Hs.
Qed.

Lemma gpres_release_nameplate a name side when :
  gpres (fun _ => True) (release_nameplate cfg a name side when).
Proof. unfold release_nameplate. repeat gpres_step. Qed.
Local Hint Resolve gpres_release_nameplate : idb.

Lemma gpres_send_all cs f : gpres (fun _ => True) (send_all cs f).
Proof. induction cs as [|c rest IH]; cbn [send_all]; repeat gpres_step. Qed.
Local Hint Resolve gpres_send_all : idb.

Lemma gpres_add_message a m' r :
  FT p m' -> msg_rx r = T -> gpres (fun _ => True) (add_message a m' r).
Proof.
  intros Hf Hr. unfold add_message.
  apply (gpres_bind (fun _ => True)); [|intros ? _; repeat gpres_step].
  apply gpres_tx. intros d Hd. apply gtx_add_message_body; assumption.
Qed.

Lemma gpres_get_messages a m' : gpres (fun _ => True) (get_messages a m').
Proof. unfold get_messages. repeat gpres_step. Qed.
Local Hint Resolve gpres_get_messages : idb.

Lemma gpres_dump_stats when rebooted : gpres (fun _ => True) (dump_stats cfg when rebooted).
Proof. unfold dump_stats. repeat gpres_step. Qed.
Local Hint Resolve gpres_dump_stats : idb.

Lemma gpres_log_client_version a side when cv :
  gpres (fun _ => True) (log_client_version cfg a side when cv).
Proof. unfold log_client_version. repeat gpres_step. Qed.
Local Hint Resolve gpres_log_client_version : idb.

(** a sweep whose first database access fails touches nothing *)
Lemma gpres_expire_fault : gpres (fun _ => True) (expire cfg true).
Proof.
  unfold expire.
  apply (gpres_bind (fun s => now s = T /\ X (subs s))); [apply gpres_get|intros s0 [Hn _]].
  apply (gpres_bind (fun _ => True)); [apply gpres_ret; exact I|intros ? _].
  apply gpres_dump_stats.
Qed.

(** ** the sweep: harmless when nobody listens to [m] *)
Section Sweep.
Hypothesis HXfree : forall l a' m', X l -> In m' (listened_mailboxes a' l) -> FT p m'.

Lemma gpres_prune_app a old : gpres (fun _ => True) (prune_app cfg a T old).
Proof.
  unfold prune_app.
  apply (gpres_bind (fun s => now s = T /\ X (subs s))); [apply gpres_get|intros s0 [_ HX0]].
  apply (gpres_bind (fun _ => True)).
  { apply gpres_tx. intros d Hd. cbn [gtxok]. apply db_touch_all; [|exact Hd].
    intros m' Hm'. exact (HXfree _ _ _ HX0 Hm'). }
  intros ? _. repeat gpres_step.
Qed.
Local Hint Resolve gpres_prune_app : idb.

Lemma gpres_prune_apps apps old : gpres (fun _ => True) (prune_apps cfg apps T old).
Proof. induction apps as [|a rest IH]; cbn [prune_apps]; repeat gpres_step. Qed.
Local Hint Resolve gpres_prune_apps : idb.

Lemma gpres_prune_all_apps old : gpres (fun _ => True) (prune_all_apps cfg T old).
Proof. unfold prune_all_apps. repeat gpres_step. Qed.
Local Hint Resolve gpres_prune_all_apps : idb.

Lemma gpres_expire fault : gpres (fun _ => True) (expire cfg fault).
Proof. unfold expire. repeat gpres_step. Qed.

End Sweep.

(** ** the commands: nothing is assumed (or kept) about the subscription table *)
Section Cmds.
Hypothesis HXany : forall l l', X l -> X l'.

Lemma gpres_add_sub a m' c : gpres (fun _ => True) (add_sub a m' c).
Proof.
  intros s Hs. apply wp_add_sub. split; [exact I|].
  destruct (existsb (sub_is a m' c) (subs s)); [exact Hs|].
  destruct Hs as [H1 H2]. split; [eapply GI_ext; [..|exact H1]; reflexivity|].
  eapply HXany; exact H2.
Qed.

Lemma gpres_remove_sub a m' c : gpres (fun _ => True) (remove_sub a m' c).
Proof.
  intros s [H1 H2]. apply wp_remove_sub. split; [exact I|].
  split; [eapply GI_ext; [..|exact H1]; reflexivity|eapply HXany; exact H2].
Qed.

Lemma gpres_stop_listeners a m' : gpres (fun _ => True) (stop_listeners a m').
Proof.
  intros s [H1 H2]. unfold gat, wp, stop_listeners. split; [exact I|].
  split; [eapply GI_ext; [..|exact H1]; reflexivity|eapply HXany; exact H2].
Qed.
Local Hint Resolve gpres_add_sub gpres_remove_sub gpres_stop_listeners : idb.

Lemma gpres_mailbox_close a m' side mood when :
  gpres (fun _ => True) (mailbox_close cfg a m' side mood when).
Proof. unfold mailbox_close. repeat gpres_step. Qed.
Local Hint Resolve gpres_mailbox_close : idb.

(** Websocket.v: the handlers that never touch a stamp *)

Lemma gpres_handle_ping c msg : gpres (fun _ => True) (handle_ping c msg).
Proof. unfold handle_ping. repeat gpres_step. Qed.

Lemma gpres_handle_bind c msg : gpres (fun _ => True) (handle_bind cfg c msg).
Proof. unfold handle_bind. repeat gpres_step. Qed.

Lemma gpres_handle_list c a : gpres (fun _ => True) (handle_list cfg c a).
Proof. unfold handle_list. repeat gpres_step. Qed.

Lemma gpres_handle_release c a side msg : gpres (fun _ => True) (handle_release cfg c a side msg).
Proof. unfold handle_release. repeat gpres_step. Qed.

Lemma gpres_send_each c l : gpres (fun _ => True) (send_each c l).
Proof. induction l as [|r rest IH]; cbn [send_each]; repeat gpres_step. Qed.
Local Hint Resolve gpres_send_each : idb.

(** the handlers that may: harmless under a condition on the state they find *)

Lemma GINV_set_conns s x : GINV s -> GINV (set_conns s x).
Proof. intros Hs. eapply GINV_ext; [..|exact Hs]; reflexivity. Qed.

Definition okcmd_allocate (d : chan_db) (cs : conn_state) (a side : string) (o : oracle) : Prop :=
  c_did_allocate cs = false ->
  forall n, find_available (sel_names d a) (o_alloc o) = AllocOk n ->
            okclaim d a n side (o_draw o).

Lemma gat_handle_allocate c a side o s :
  GINV s -> okcmd_allocate (chan_w s) (conn_of s c) a side o ->
  gat (fun _ => True) (handle_allocate c a side o) s.
Proof.
  intros Hs Hok. unfold handle_allocate. apply gat_get_conn.
  destruct (c_did_allocate (conn_of s c)) eqn:Eda; [apply gpres_raise; exact Hs|].
  apply gat_get.
  destruct Hs as [HG HX]. pose proof (proj2 (proj2 (proj2 HG))) as Hn. rewrite Hn.
  apply (gat_bind (fun _ => True));
    [apply gat_allocate_nameplate; [split; assumption|exact (Hok Eda)]|intros n _].
  repeat gpres_step.
Qed.

Definition okcmd_claim (d : chan_db) (cs : conn_state) (a side : string) (msg : command)
           (o : oracle) : Prop :=
  c_did_claim cs = false ->
  forall n, m_nameplate msg = Some n -> okclaim d a n side (o_draw o).

Lemma gat_handle_claim c a side msg o s :
  GINV s -> okcmd_claim (chan_w s) (conn_of s c) a side msg o ->
  gat (fun _ => True) (handle_claim c a side msg o) s.
Proof.
  intros Hs Hok. unfold handle_claim.
  destruct (m_nameplate msg) as [n|] eqn:En; [|apply gpres_raise; exact Hs].
  apply gat_get_conn.
  destruct (c_did_claim (conn_of s c)) eqn:Edc; [apply gpres_raise; exact Hs|].
  apply gat_set_conn. apply gat_get.
  set (s1 := set_conns s _).
  assert (Hs1 : GINV s1) by (apply GINV_set_conns; exact Hs).
  assert (Hn : now s1 = T) by exact (proj2 (proj2 (proj2 (proj1 Hs1)))). rewrite Hn.
  apply (gat_bind (fun _ => True)); [|intros mb _; repeat gpres_step].
  apply gat_try_catch.
  - apply gat_claim_nameplate; [exact Hs1|]. exact (Hok Edc n En).
  - intros e. destruct e; apply gpres_raise.
Qed.

Definition okcmd_open (d : chan_db) (cs : conn_state) (a : string) (msg : command) : Prop :=
  c_mailbox cs = None -> forall m', m_mailbox msg = Some m' -> okopen d a m'.

Lemma gat_handle_open c a side msg s :
  GINV s -> okcmd_open (chan_w s) (conn_of s c) a msg ->
  gat (fun _ => True) (handle_open c a side msg) s.
Proof.
  intros Hs Hok. unfold handle_open. apply gat_get_conn.
  destruct (c_mailbox (conn_of s c)) as [h|] eqn:Emb; [apply gpres_raise; exact Hs|].
  destruct (m_mailbox msg) as [m'|] eqn:Em; [|apply gpres_raise; exact Hs].
  apply gat_set_conn. apply gat_get.
  set (s1 := set_conns s _).
  assert (Hs1 : GINV s1) by (apply GINV_set_conns; exact Hs).
  assert (Hn : now s1 = T) by exact (proj2 (proj2 (proj2 (proj1 Hs1)))). rewrite Hn.
  apply (gat_bind (fun _ => True)); [|intros ? _; repeat gpres_step].
  apply gat_try_catch.
  - apply gat_open_mailbox; [exact Hs1|]. exact (Hok Emb m' Em).
  - intros e. destruct e; apply gpres_raise.
Qed.

Definition okcmd_add (cs : conn_state) (msg : command) : Prop :=
  forall h ph bd, c_mailbox cs = Some h -> m_phase msg = Some ph -> m_body msg = Some bd -> FT p h.

Lemma gat_handle_add c a side msg s :
  GINV s -> okcmd_add (conn_of s c) msg ->
  gat (fun _ => True) (handle_add c a side msg) s.
Proof.
  intros Hs Hok. unfold handle_add. apply gat_get_conn.
  destruct (c_mailbox (conn_of s c)) as [h|] eqn:Emb; [|apply gpres_raise; exact Hs].
  destruct (m_phase msg) as [ph|] eqn:Eph; [|apply gpres_raise; exact Hs].
  destruct (m_body msg) as [bd|] eqn:Ebd; [|apply gpres_raise; exact Hs].
  apply gat_get.
  apply gpres_add_message; [exact (Hok h ph bd Emb Eph Ebd)| |exact Hs].
  cbn [msg_rx]. exact (proj2 (proj2 (proj2 (proj1 Hs)))).
Qed.

(** the mailbox a close command names: [None] = refused with an error *)
Definition close_name (cs : conn_state) (msg : command) : option string :=
  match m_mailbox msg, c_mailbox_id cs with
  | Some x, Some x' => if seqb x x' then Some x else None
  | Some x, None => Some x
  | None, Some x' => Some x'
  | None, None => None
  end.

Definition okcmd_close (d : chan_db) (cs : conn_state) (a : string) (msg : command) : Prop :=
  c_did_close cs = false -> c_mailbox cs = None ->
  forall m', close_name cs msg = Some m' -> okopen d a m'.

(** everything in [handle_close] after the mailbox has been obtained *)
Lemma gpres_close_tail c a side msg when held :
  gpres (fun _ => True)
    (cs2 <- get_conn c ;;
     (if c_listening cs2
      then remove_sub a held c ;;; set_conn c (set_listening cs2 false)
      else ret tt) ;;;
     cs3 <- get_conn c ;;
     set_conn c (set_did_close cs3 true) ;;;
     mailbox_close cfg a held side (m_mood msg) when ;;;
     cs4 <- get_conn c ;;
     set_conn c (set_mailbox cs4 None) ;;;
     send c FClosed).
Proof. repeat gpres_step. Qed.

Lemma gat_handle_close c a side msg s :
  GINV s -> okcmd_close (chan_w s) (conn_of s c) a msg ->
  gat (fun _ => True) (handle_close cfg c a side msg) s.
Proof.
  intros Hs Hok. unfold handle_close. apply gat_get_conn.
  destruct (c_did_close (conn_of s c)) eqn:Edc; [apply gpres_raise; exact Hs|].
  assert (Hn : now s = T) by exact (proj2 (proj2 (proj2 (proj1 Hs)))).
  assert (Hname : forall m',
    close_name (conn_of s c) msg = Some m' ->
    gat (fun _ => True)
      (s0 <- get ;;
       held <- match c_mailbox (conn_of s c) with
               | Some h => ret h
               | None =>
                   catch_crowded (open_mailbox a m' side (now s0)) ;;;
                   cs1 <- get_conn c ;;
                   set_conn c (set_mailbox cs1 (Some m')) ;;;
                   ret m'
               end ;;
       cs2 <- get_conn c ;;
       (if c_listening cs2
        then remove_sub a held c ;;; set_conn c (set_listening cs2 false)
        else ret tt) ;;;
       cs3 <- get_conn c ;;
       set_conn c (set_did_close cs3 true) ;;;
       mailbox_close cfg a held side (m_mood msg) (now s0) ;;;
       cs4 <- get_conn c ;;
       set_conn c (set_mailbox cs4 None) ;;;
       send c FClosed) s).
  { intros m' Hcn. apply gat_get. rewrite Hn.
    apply (gat_bind (fun _ => True)); [|intros held _; apply gpres_close_tail].
    destruct (c_mailbox (conn_of s c)) as [h|] eqn:Emb; [apply gpres_ret; [exact I|exact Hs]|].
    apply (gat_bind (fun _ => True)); [|intros ? _; repeat gpres_step].
    apply gat_try_catch.
    - apply gat_open_mailbox; [exact Hs|]. exact (Hok Edc Emb m' Hcn).
    - intros e. destruct e; apply gpres_raise. }
  unfold close_name in Hname.
  destruct (m_mailbox msg) as [x|], (c_mailbox_id (conn_of s c)) as [x'|].
  - destruct (seqb x x'); [|apply gpres_raise; exact Hs].
    exact (Hname x eq_refl).
  - exact (Hname x eq_refl).
  - exact (Hname x' eq_refl).
  - apply gpres_raise; exact Hs.
Qed.

(** the condition under which a bound command leaves [m]'s stamp alone *)
Definition okcmd (d : chan_db) (cs : conn_state) (a side : string) (t : mtype)
           (msg : command) (o : oracle) : Prop :=
  match t with
  | TAllocate => okcmd_allocate d cs a side o
  | TClaim => okcmd_claim d cs a side msg o
  | TOpen => okcmd_open d cs a msg
  | TAdd => okcmd_add cs msg
  | TClose => okcmd_close d cs a msg
  | _ => True
  end.

Lemma gat_dispatch c t msg o s :
  GINV s ->
  (forall a side, c_bound (conn_of s c) = Some (a, side) ->
                  okcmd (chan_w s) (conn_of s c) a side t msg o) ->
  gat (fun _ => True) (dispatch cfg c t msg o) s.
Proof.
  intros Hs Hok. unfold dispatch.
  destruct t; try (apply gpres_handle_ping; exact Hs); try (apply gpres_handle_bind; exact Hs);
    apply gat_get_conn;
    (destruct (c_bound (conn_of s c)) as [[a side]|] eqn:Eb; [|apply gpres_raise; exact Hs]);
    specialize (Hok a side eq_refl); cbn [okcmd] in Hok.
  - apply gpres_handle_list; exact Hs.
  - apply gat_handle_allocate; assumption.
  - apply gat_handle_claim; assumption.
  - apply gpres_handle_release; exact Hs.
  - apply gat_handle_open; assumption.
  - apply gat_handle_add; assumption.
  - apply gat_handle_close; assumption.
  - apply gpres_raise; exact Hs.
Qed.

Lemma gat_on_message c msg o s :
  GINV s ->
  (forall t a side, m_type msg = Some t -> c_bound (conn_of s c) = Some (a, side) ->
                    okcmd (chan_w s) (conn_of s c) a side t msg o) ->
  gat (fun _ => True) (on_message cfg c msg o) s.
Proof.
  intros Hs Hok. unfold on_message. apply gat_try_catch.
  - destruct (m_type msg) as [t|]; [|apply gpres_raise; exact Hs].
    apply gat_send.
    apply gat_dispatch.
    + destruct Hs as [(Hw & Hc & Hl & Hn) HX]. split; [|exact HX].
      unfold GI. cbn [chan_w chan_c log now set_log].
      split; [exact Hw|]. split; [exact Hc|]. split; [constructor; [exact I|exact Hl]|exact Hn].
    + intros a side Hb. exact (Hok t a side eq_refl Hb).
  - intros e. destruct e; try apply gpres_raise. apply gpres_send.
Qed.

Lemma gpres_on_open c : gpres (fun _ => True) (on_open cfg c).
Proof. unfold on_open. repeat gpres_step. Qed.

Lemma gpres_on_close c : gpres (fun _ => True) (on_close c).
Proof. unfold on_close. repeat gpres_step. Qed.

Lemma drop_conn_GINV c s : GINV s -> GINV (drop_conn c s).
Proof.
  intros Hs. pose proof (gat_elim _ _ s (gpres_on_close c s Hs)) as H. unfold drop_conn.
  destruct (on_close c s) as [u s'|e s']; cbn [out] in H; apply GINV_set_conns; exact H.
Qed.

End Cmds.
End Pres.
End Stamp.

(* ====================================================================== *)
(** * PART 2 -- events *)
(* ====================================================================== *)

Lemma GI_self p T s : GI p T s -> GI p (now s) s.
Proof. intros H. pose proof (proj2 (proj2 (proj2 H))) as Hn. rewrite Hn. exact H. Qed.

Section Events.
Variables (cfg : config) (p : policy).

(** touching every mailbox somebody listens to is harmless *)
Definition nosub (l : list (string * string * nat)) : Prop :=
  forall a' m' c, In (a', m', c) l -> FT p m'.
Definition anysub (l : list (string * string * nat)) : Prop := True.

Lemma nosub_free l a' m' : nosub l -> In m' (listened_mailboxes a' l) -> FT p m'.
Proof.
  intros Hn Hin. apply listened_mailboxes_In in Hin. destruct Hin as [c Hc]. exact (Hn a' m' c Hc).
Qed.

Lemma anysub_any (l l' : list (string * string * nat)) : anysub l -> anysub l'.
Proof. exact (fun H => H). Qed.

(** the event is harmless for the policy *)
Definition quiet_b (s : state) (e : bevent) : Prop :=
  match e with
  | ECmd c msg o =>
      has_conn c s = true ->
      forall t a side, m_type msg = Some t -> c_bound (conn_of s c) = Some (a, side) ->
                       okcmd p (chan_w s) (conn_of s c) a side t msg o
  | ESweep false => nosub (subs s)
  | EAdvance dt false => 0 <= dt -> next_due s <= now s + dt -> nosub (subs s)
  | _ => True
  end.

Definition quiet (s : state) (e : event) : Prop :=
  match e with EB e0 => quiet_b s e0 | ECrash _ e0 => quiet_b s e0 | ERestart => True end.

(** the starting point, between events: [RO0] everywhere *)
Definition DB0 (d : chan_db) : Prop := Forall (RO0 p) (mailboxes d).
Definition entry0 (e : log_entry) : Prop := match e with LCommitChan d => DB0 d | _ => True end.
Definition G0 (s : state) : Prop := DB0 (chan_w s) /\ DB0 (chan_c s) /\ Forall entry0 (log s).

Lemma DB_weaken T d : DB0 d -> DB p T d.
Proof. unfold DB0, DB. apply Forall_impl. intros r. apply pol_weak. Qed.

Lemma G0_set_now s t : G0 s -> GI p t (set_now s t).
Proof.
  intros (Hw & Hc & Hl). unfold GI. cbn [set_now chan_w chan_c log now].
  split; [apply DB_weaken; exact Hw|]. split; [apply DB_weaken; exact Hc|].
  split; [|reflexivity]. eapply Forall_impl; [|exact Hl].
  intros [d|u|n f bb]; cbn [entry0 db_entry]; [apply DB_weaken|auto|auto].
Qed.

Lemma G0_GI s : G0 s -> GI p (now s) s.
Proof.
  intros H. pose proof (G0_set_now s (now s) H) as H1.
  eapply GI_ext; [..|exact H1]; reflexivity.
Qed.

Lemma run_m_G T X c s :
  gpres p T X (fun _ => True) c -> GINV p T X s -> GINV p T X (fst (run_m c s)).
Proof.
  intros Hm Hs. pose proof (gat_elim _ _ _ _ _ s (Hm s Hs)) as H. unfold run_m.
  destruct (c s); exact H.
Qed.

Lemma expire_G T fault s :
  GI p T s -> (fault = false -> nosub (subs s)) ->
  GI p T (fst (run_m (expire cfg fault) s)).
Proof.
  intros Hs Hq. destruct fault.
  - apply (run_m_G T anysub); [apply gpres_expire_fault|split; [exact Hs|exact I]].
  - apply (run_m_G T nosub); [apply gpres_expire; apply nosub_free|split; [exact Hs|exact (Hq eq_refl)]].
Qed.

Lemma step_b_G s e :
  G0 s -> quiet_b s e ->
  GI p (now (fst (fst (step_b cfg s e)))) (fst (fst (step_b cfg s e))).
Proof.
  intros H0 Hq. pose proof (G0_GI s H0) as Hs.
  assert (HsA : GINV p (now s) anysub s) by (split; [exact Hs|exact I]).
  destruct e as [c|c cmd o|c|fault|dt fault]; cbn [step_b].
  - destruct (has_conn c s); [apply (GI_self _ _ _ Hs)|]. cbv zeta.
    assert (Hs1 : GINV p (now s) anysub (set_conns s (conns s ++ [(c, new_conn)])))
      by (apply GINV_set_conns; exact HsA).
    pose proof (run_m_G (now s) anysub (on_open cfg c) _ (gpres_on_open p (now s) cfg anysub c) Hs1) as H.
    destruct (run_m (on_open cfg c) (set_conns s (conns s ++ [(c, new_conn)]))) as [s2 x].
    cbn [fst] in *. apply (GI_self _ _ _ (proj1 H)).
  - cbn [quiet_b] in Hq. destruct (has_conn c s); [|apply (GI_self _ _ _ Hs)].
    pose proof (gat_elim _ _ _ _ _ s
                  (gat_on_message p (now s) cfg anysub anysub_any c cmd o s HsA (Hq eq_refl))) as H.
    destruct (on_message cfg c cmd o s) as [u s'|e s']; cbn [fst out] in *.
    + apply (GI_self _ _ _ (proj1 H)).
    + apply (GI_self p (now s)).
      exact (proj1 (drop_conn_GINV p (now s) anysub anysub_any c s' H)).
  - destruct (has_conn c s); [|apply (GI_self _ _ _ Hs)]. cbn [fst].
    apply (GI_self p (now s)).
    exact (proj1 (drop_conn_GINV p (now s) anysub anysub_any c s HsA)).
  - assert (Hq' : fault = false -> nosub (subs s)).
    { intros ->. exact Hq. }
    pose proof (expire_G (now s) fault s Hs Hq') as H.
    destruct (run_m (expire cfg fault) s) as [s1 x]. cbn [fst] in *.
    apply (GI_self _ _ _ H).
  - destruct (dt <? 0) eqn:Edt; [apply (GI_self _ _ _ Hs)|]. apply Z.ltb_ge in Edt. cbv zeta.
    pose proof (G0_set_now s (now s + dt) H0) as Hs1.
    destruct (next_due (set_now s (now s + dt)) <=? now (set_now s (now s + dt))) eqn:Edue.
    + apply Z.leb_le in Edue. cbn [next_due now set_now] in Edue.
      assert (Hq' : fault = false -> nosub (subs (set_now s (now s + dt)))).
      { intros ->. exact (Hq Edt Edue). }
      pose proof (expire_G (now s + dt) fault _ Hs1 Hq') as H.
      destruct (run_m (expire cfg fault) (set_now s (now s + dt))) as [s2 x]. cbn [fst] in *.
      apply (GI_self p (now s + dt)). eapply GI_ext; [..|exact H]; reflexivity.
    + cbn [fst]. apply (GI_self _ _ _ Hs1).
Qed.

(** the start-up sweep finds no subscriber *)
Lemma boot_on_G c u t : DB p t c -> GI p t (fst (fst (boot_on cfg c u t))).
Proof.
  intros Hc.
  assert (H0 : GI p t (mkState c c u u [] [] t t t (t + period cfg) [])).
  { unfold GI. cbn [chan_w chan_c log now]. auto. }
  unfold boot_on. cbv zeta.
  assert (Hq : false = false -> nosub (subs (mkState c c u u [] [] t t t (t + period cfg) []))).
  { intros _ a' m' c' []. }
  pose proof (expire_G t false _ H0 Hq) as H1.
  destruct (run_m (expire cfg false) (mkState c c u u [] [] t t t (t + period cfg) [])) as [s1 x].
  cbn [fst] in *. destruct H1 as (Hw & Hc' & Hl & Hn).
  unfold GI. cbn [chan_w chan_c log set_log now]. auto.
Qed.

Lemma replay_db T l : forall c u,
  Forall (db_entry p T) l -> DB p T c -> DB p T (fst (replay_commits l c u)).
Proof.
  induction l as [|x l IH]; intros c u Hl Hc; cbn [replay_commits]; [exact Hc|].
  inversion Hl as [|x' l' Hx Hl']; subst.
  destruct x as [c'|u'|n f bb]; apply IH; auto.
Qed.

Lemma G0_set_log_nil s : G0 s -> G0 (set_log s []).
Proof. intros (Hw & Hc & Hl). unfold G0. cbn [chan_w chan_c log set_log]. auto. Qed.

(** the invariant over one event of any kind *)
Lemma step_G s e :
  G0 s -> quiet s e ->
  GI p (now (fst (step cfg s e))) (fst (step cfg s e)).
Proof.
  intros H00 Hq. pose proof (G0_set_log_nil s H00) as H0. unfold step. cbv zeta.
  assert (Hboot : forall c u t, DB p t c ->
            GI p (now (fst (fst (boot_on cfg c u t)))) (fst (fst (boot_on cfg c u t)))).
  { intros c u t Hc. apply (GI_self p t). apply boot_on_G. exact Hc. }
  destruct e as [e|k e|]; cbn [quiet] in Hq.
  - pose proof (step_b_G (set_log s []) e H0 Hq) as H.
    destruct (step_b cfg (set_log s []) e) as [[s1 valid] x]. cbn [fst snd] in *.
    destruct H as (Hw & Hc & Hl & Hn). unfold GI. cbn [chan_w chan_c log set_log now]. auto.
  - pose proof (step_b_G (set_log s []) e H0 Hq) as H.
    destruct (step_b cfg (set_log s []) e) as [[s1 valid] x]. cbn [fst snd] in H.
    destruct ((count_commits (rev (log s1)) <? k)%nat || negb valid).
    + pose proof (Hboot (chan_c s1) (usage_c s1) (now s1) (proj1 (proj2 H))) as Hb.
      destruct (boot_on cfg (chan_c s1) (usage_c s1) (now s1)) as [[s2 bl] x2].
      cbn [fst snd] in *. exact Hb.
    + assert (Hc : DB p (now s1) (fst (replay_commits (log_prefix k (rev (log s1)))
                                          (chan_c (set_log s [])) (usage_c (set_log s []))))).
      { destruct H as (_ & _ & Hl & _). apply replay_db.
        - apply log_prefix_Forall. apply Forall_rev. exact Hl.
        - apply DB_weaken. exact (proj1 (proj2 H0)). }
      destruct (replay_commits (log_prefix k (rev (log s1))) (chan_c (set_log s []))
                  (usage_c (set_log s []))) as [c u].
      cbn [fst] in Hc.
      pose proof (Hboot c u (now s1) Hc) as Hb.
      destruct (boot_on cfg c u (now s1)) as [[s2 bl] x2]. cbn [fst snd] in *. exact Hb.
  - assert (Hc : DB p (now (set_log s [])) (chan_c (set_log s [])))
      by (apply DB_weaken; exact (proj1 (proj2 H0))).
    pose proof (Hboot _ (usage_c (set_log s [])) _ Hc) as Hb.
    destruct (boot_on cfg (chan_c (set_log s [])) (usage_c (set_log s [])) (now (set_log s [])))
      as [[s1 bl] x].
    cbn [fst snd] in *. exact Hb.
Qed.

(** what it says about the working database afterwards *)
Corollary step_G_rows s e r' :
  SInv s -> log s = [] -> DB0 (chan_w s) -> quiet s e ->
  In r' (mailboxes (chan_w (fst (step cfg s e)))) -> RO p (now (fst (step cfg s e))) r'.
Proof.
  intros HS Hl H0 Hq Hr'.
  assert (HG : G0 s).
  { destruct (si_clean s HS) as [Cw _]. unfold G0. rewrite <- Cw, Hl. auto. }
  destruct (step_G s e HG Hq) as (Hw & _). unfold DB in Hw. rewrite Forall_forall in Hw.
  exact (Hw r' Hr').
Qed.

End Events.

(* ====================================================================== *)
(** * PART 3 -- the two policies, and what moves a stamp *)
(* ====================================================================== *)

(** ** policy 1: every row with id [m] carries the stamp [v] -- or, with
    [b = true], the time of the event being handled *)
Lemma stamp_pol_weak m v b (T : Z) r :
  (mb_id r = m -> mb_updated r = v) ->
  (mb_id r = m -> mb_updated r = v \/ (b = true /\ mb_updated r = T)).
Proof. intros H Ei. left. auto. Qed.

Lemma stamp_pol_ins m v b (T : Z) (a' m' : string) (f : bool) :
  (b = true \/ m' <> m) ->
  mb_id (mkMb a' m' T f) = m ->
  mb_updated (mkMb a' m' T f) = v \/ (b = true /\ mb_updated (mkMb a' m' T f) = T).
Proof. intros [Hb|Hne] Ei; cbn in *; [right; auto|contradiction]. Qed.

Lemma stamp_pol_touch m v b (T : Z) r :
  (b = true \/ mb_id r <> m) ->
  (mb_id r = m -> mb_updated r = v \/ (b = true /\ mb_updated r = T)) ->
  mb_id (mkMb (mb_app r) (mb_id r) T (mb_fornp r)) = m ->
  mb_updated (mkMb (mb_app r) (mb_id r) T (mb_fornp r)) = v \/
  (b = true /\ mb_updated (mkMb (mb_app r) (mb_id r) T (mb_fornp r)) = T).
Proof. intros [Hb|Hne] _ Ei; cbn in *; [right; auto|contradiction]. Qed.

Definition stamp_pol (m : string) (v : Z) (b : bool) : policy :=
  mkPolicy (fun r => mb_id r = m -> mb_updated r = v)
           (fun T r => mb_id r = m -> mb_updated r = v \/ (b = true /\ mb_updated r = T))
           (fun _ m' => b = true \/ m' <> m)
           (fun m' => b = true \/ m' <> m)
           (stamp_pol_weak m v b) (stamp_pol_ins m v b) (stamp_pol_touch m v b).

(** ** policy 2: mailbox (a, m) has no row *)
Lemma absent_pol_weak (a m : string) (T : Z) (r : mb_row) :
  ~ (mb_app r = a /\ mb_id r = m) -> ~ (mb_app r = a /\ mb_id r = m).
Proof. exact (fun H => H). Qed.

Lemma absent_pol_ins (a m : string) (T : Z) (a' m' : string) (f : bool) :
  ~ (a' = a /\ m' = m) -> ~ (mb_app (mkMb a' m' T f) = a /\ mb_id (mkMb a' m' T f) = m).
Proof. exact (fun H => H). Qed.

Lemma absent_pol_touch (a m : string) (T : Z) (r : mb_row) :
  True -> ~ (mb_app r = a /\ mb_id r = m) ->
  ~ (mb_app (mkMb (mb_app r) (mb_id r) T (mb_fornp r)) = a /\
     mb_id (mkMb (mb_app r) (mb_id r) T (mb_fornp r)) = m).
Proof. exact (fun _ H => H). Qed.

Definition absent_pol (a m : string) : policy :=
  mkPolicy (fun r => ~ (mb_app r = a /\ mb_id r = m))
           (fun _ r => ~ (mb_app r = a /\ mb_id r = m))
           (fun a' m' => ~ (a' = a /\ m' = m))
           (fun _ => True)
           (absent_pol_weak a m) (absent_pol_ins a m) (absent_pol_touch a m).

(** ** which commands go through a touch of mailbox (a, m) *)

(** the mailbox a claim of nameplate (a, n) by [side] ends up opening: the one
    the nameplate points at -- unless this side's claim is refused (its side
    row says released: reclaimed) -- or, for a new nameplate, the id drawn *)
Definition claim_target (d : chan_db) (a n side : string) (draw : option string)
  : option string :=
  match sel_np d a n with
  | Some np =>
      match sel_nps d (np_id np) side with
      | Some r => if nps_claimed r then Some (np_mbox np) else None
      | None => Some (np_mbox np)
      end
  | None => option_map genid draw
  end.

(** command [msg] (with oracle [o]) of a connection in state [cs], bound to
    (a, side), goes through [open_mailbox a m] or [add_message a m]:
    - claim: not claimed before on this connection; [m] is the mailbox of the
      nameplate named (or the id drawn for a new nameplate);
    - allocate: not allocated before; [m] is the id drawn for the new nameplate;
    - open: no mailbox held; [m] is the mailbox named -- also when the answer is
      `crowded` (ActivityFacts.open_stamps);
    - add: [m] is the mailbox held (phase and body present);
    - close: not closed before, NO mailbox held, [m] is the mailbox named (or
      remembered from a failed open): such a close passes through
      [open_mailbox] (known finding KF4).  A close of the mailbox the
      connection holds does NOT stamp. *)
Definition concerns (d : chan_db) (cs : conn_state) (a side m : string)
           (msg : command) (o : oracle) : Prop :=
  match m_type msg with
  | Some TClaim =>
      c_did_claim cs = false /\
      exists n, m_nameplate msg = Some n /\ claim_target d a n side (o_draw o) = Some m
  | Some TAllocate =>
      c_did_allocate cs = false /\
      exists n, find_available (sel_names d a) (o_alloc o) = AllocOk n /\
                claim_target d a n side (o_draw o) = Some m
  | Some TOpen => c_mailbox cs = None /\ m_mailbox msg = Some m
  | Some TAdd => c_mailbox cs = Some m /\ (exists ph, m_phase msg = Some ph) /\
                 (exists bd, m_body msg = Some bd)
  | Some TClose => c_did_close cs = false /\ c_mailbox cs = None /\ close_name cs msg = Some m
  | _ => False
  end.

(** the same, decidably *)
Definition oseq (x : option string) (m : string) : bool :=
  match x with Some y => seqb y m | None => false end.

Lemma oseq_true x m : oseq x m = true <-> x = Some m.
Proof.
  destruct x as [y|]; cbn [oseq]; [|split; discriminate].
  rewrite seqb_eq. split; [intros ->; reflexivity|intros H; inversion H; reflexivity].
Qed.

Definition type_touches (d : chan_db) (cs : conn_state) (a side m : string)
           (msg : command) (o : oracle) (t : mtype) : bool :=
  match t with
  | TClaim =>
      negb (c_did_claim cs) &&
      match m_nameplate msg with
      | Some n => oseq (claim_target d a n side (o_draw o)) m
      | None => false
      end
  | TAllocate =>
      negb (c_did_allocate cs) &&
      match find_available (sel_names d a) (o_alloc o) with
      | AllocOk n => oseq (claim_target d a n side (o_draw o)) m
      | _ => false
      end
  | TOpen => match c_mailbox cs with None => oseq (m_mailbox msg) m | Some _ => false end
  | TAdd => oseq (c_mailbox cs) m &&
            match m_phase msg, m_body msg with Some _, Some _ => true | _, _ => false end
  | TClose => negb (c_did_close cs) &&
              match c_mailbox cs with None => oseq (close_name cs msg) m | Some _ => false end
  | _ => false
  end.

Definition cmd_touches (d : chan_db) (cs : conn_state) (a m : string)
           (msg : command) (o : oracle) : bool :=
  match c_bound cs, m_type msg with
  | Some (a', side), Some t => seqb a' a && type_touches d cs a side m msg o t
  | _, _ => false
  end.

Lemma cmd_touches_spec d cs a m msg o :
  cmd_touches d cs a m msg o = true <->
  exists side, c_bound cs = Some (a, side) /\ concerns d cs a side m msg o.
Proof.
  unfold cmd_touches, concerns.
  destruct (c_bound cs) as [[a' side]|]; [|split; [discriminate|intros (x & H & _); discriminate]].
  destruct (m_type msg) as [t|];
    [|split; [discriminate|intros (x & _ & [])]].
  rewrite andb_true_iff, seqb_eq.
  assert (Hmain : type_touches d cs a side m msg o t = true <->
                  match t with
                  | TClaim =>
                      c_did_claim cs = false /\
                      exists n, m_nameplate msg = Some n /\
                                claim_target d a n side (o_draw o) = Some m
                  | TAllocate =>
                      c_did_allocate cs = false /\
                      exists n, find_available (sel_names d a) (o_alloc o) = AllocOk n /\
                                claim_target d a n side (o_draw o) = Some m
                  | TOpen => c_mailbox cs = None /\ m_mailbox msg = Some m
                  | TAdd => c_mailbox cs = Some m /\ (exists ph, m_phase msg = Some ph) /\
                            (exists bd, m_body msg = Some bd)
                  | TClose => c_did_close cs = false /\ c_mailbox cs = None /\
                              close_name cs msg = Some m
                  | _ => False
                  end).
  { destruct t; cbn [type_touches]; try (split; [discriminate|intros []]).
    - rewrite andb_true_iff, negb_true_iff.
      destruct (find_available (sel_names d a) (o_alloc o)) as [n| |].
      + rewrite oseq_true. split.
        * intros [H1 H2]. split; [exact H1|]. exists n. auto.
        * intros [H1 (n' & E & H2)]. inversion E; subst n'. auto.
      + split; [intros [_ H]; discriminate|intros [_ (n' & E & _)]; discriminate].
      + split; [intros [_ H]; discriminate|intros [_ (n' & E & _)]; discriminate].
    - rewrite andb_true_iff, negb_true_iff.
      destruct (m_nameplate msg) as [n|].
      + rewrite oseq_true. split.
        * intros [H1 H2]. split; [exact H1|]. exists n. auto.
        * intros [H1 (n' & E & H2)]. inversion E; subst n'. auto.
      + split; [intros [_ H]; discriminate|intros [_ (n' & E & _)]; discriminate].
    - destruct (c_mailbox cs) as [h|].
      + split; [discriminate|intros [H _]; discriminate].
      + rewrite oseq_true. split; [intros H; auto|intros [_ H]; exact H].
    - rewrite andb_true_iff, oseq_true.
      destruct (m_phase msg) as [ph|], (m_body msg) as [bd|].
      + split; [intros [H _]; split; [exact H|split; eauto]|intros [H _]; auto].
      + split; [intros [_ H]; discriminate|intros (_ & _ & (x & H)); discriminate].
      + split; [intros [_ H]; discriminate|intros (_ & (x & H) & _); discriminate].
      + split; [intros [_ H]; discriminate|intros (_ & (x & H) & _); discriminate].
    - rewrite andb_true_iff, negb_true_iff.
      destruct (c_mailbox cs) as [h|].
      + split; [intros [_ H]; discriminate|intros (_ & H & _); discriminate].
      + rewrite oseq_true. split; [intros [H1 H2]; auto|intros (H1 & _ & H2); auto]. }
  split.
  - intros [-> H]. exists side. split; [reflexivity|]. apply Hmain. exact H.
  - intros (side' & E & H). inversion E; subst a' side'. split; [reflexivity|].
    apply Hmain. exact H.
Qed.

(** for an allocate the nameplate is new, so [m] is the id drawn *)
Lemma allocate_target d a n side o :
  find_available (sel_names d a) (o_alloc o) = AllocOk n ->
  claim_target d a n side (o_draw o) = option_map genid (o_draw o).
Proof. intros Hf. unfold claim_target. rewrite (sel_np_fresh d a (o_alloc o) n Hf). reflexivity. Qed.

(** ** what can move the stamp of (a, m) *)

(** a command that goes through a touch of (a, m) *)
Definition activity (s : state) (a m : string) (e : bevent) : Prop :=
  match e with
  | ECmd c msg o =>
      has_conn c s = true /\ cmd_touches (chan_w s) (conn_of s c) a m msg o = true
  | _ => False
  end.

(** a non-faulty sweep runs: an explicit one, or the timer's at a clock advance
    that reaches the due time *)
Definition sweep_fires (s : state) (e : bevent) : Prop :=
  match e with
  | ESweep false => True
  | EAdvance dt false => 0 <= dt /\ next_due s <= now s + dt
  | _ => False
  end.

Definition moves_b (s : state) (a m : string) (e : bevent) : Prop :=
  activity s a m e \/ (sweep_fires s e /\ listened s a m).

(** ... possibly cut short by a crash; never a clean restart *)
Definition moves (s : state) (a m : string) (e : event) : Prop :=
  match e with
  | EB e0 => moves_b s a m e0
  | ECrash _ e0 => moves_b s a m e0
  | ERestart => False
  end.

Lemma moves_dec s a m e : moves s a m e \/ ~ moves s a m e.
Proof.
  assert (Hb : forall e0, moves_b s a m e0 \/ ~ moves_b s a m e0).
  { intros e0. unfold moves_b.
    assert (Hs : (sweep_fires s e0 /\ listened s a m) \/ ~ (sweep_fires s e0 /\ listened s a m)).
    { destruct (lis_dec (subs s) a m) as [HL|HnL]; [|right; intros [_ K]; exact (HnL K)].
      destruct e0 as [c|c msg o|c|[|]|dt [|]]; cbn [sweep_fires]; try solve [right; intros [[] _]].
      - left. split; [exact I|exact HL].
      - destruct (Z_le_gt_dec 0 dt) as [H1|H1]; [|right; intros [[K _] _]; lia].
        destruct (Z_le_gt_dec (next_due s) (now s + dt)) as [H2|H2];
          [|right; intros [[_ K] _]; lia].
        left. split; [split; assumption|exact HL]. }
    assert (Ha : activity s a m e0 \/ ~ activity s a m e0).
    { destruct e0 as [c|c msg o|c|f|dt f]; cbn [activity]; try solve [right; intros []].
      destruct (has_conn c s); [|right; intros [K _]; discriminate].
      destruct (cmd_touches (chan_w s) (conn_of s c) a m msg o);
        [left; auto|right; intros [_ K]; discriminate]. }
    destruct Ha as [Ha|Ha]; [left; left; exact Ha|].
    destruct Hs as [Hs|Hs]; [left; right; exact Hs|].
    right. intros [K|K]; contradiction. }
  destruct e as [e0|k e0|]; cbn [moves]; [apply Hb|apply Hb|right; intros []].
Qed.

(** ** an event that does not move (a, m) is harmless for a policy that
    allows everything else *)
Section Idle.
Variables (p : policy) (a m : string) (s : state).
Hypothesis HS : SInv s.
Hypothesis Hopen : forall a' m', (a' = a -> m' <> m) -> okopen p (chan_w s) a' m'.
Hypothesis Hheld : forall a' m', has_mb (chan_w s) a' m' -> (a' = a -> m' <> m) -> fr p a' m'.

Lemma okclaim_of a' n side draw :
  (a' = a -> claim_target (chan_w s) a n side draw <> Some m) ->
  okclaim p (chan_w s) a' n side draw.
Proof.
  intros H. unfold okclaim. destruct (sel_np (chan_w s) a' n) as [np|] eqn:Enp.
  - assert (Hfk : has_mb (chan_w s) a' (np_mbox np)).
    { destruct (sel_np_some _ _ _ _ Enp) as (Hin & Ha & _). rewrite <- Ha.
      apply (inv_fk_np _ (si_db s HS)). exact Hin. }
    assert (Hl : (a' = a -> np_mbox np <> m) -> fr p a' (np_mbox np))
      by (intros K; apply Hheld; assumption).
    destruct (sel_nps (chan_w s) (np_id np) side) as [x|] eqn:Ex.
    + destruct (nps_claimed x) eqn:Ec; [|right; eauto].
      left. apply Hl. intros -> Em. apply (H eq_refl). unfold claim_target.
      rewrite Enp, Ex, Ec, Em. reflexivity.
    + left. apply Hl. intros -> Em. apply (H eq_refl). unfold claim_target.
      rewrite Enp, Ex, Em. reflexivity.
  - intros bytes ->. apply Hopen. intros -> Eg. apply (H eq_refl). unfold claim_target.
    rewrite Enp. cbn [option_map]. rewrite Eg. reflexivity.
Qed.

Lemma quiet_of_idle e : ~ moves s a m e -> quiet p s e.
Proof.
  assert (Hb : forall e0, ~ moves_b s a m e0 -> quiet_b p s e0).
  { intros e0 Hnm. destruct e0 as [c|c msg o|c|[|]|dt [|]]; cbn [quiet_b]; try exact I.
    - (* command *)
      intros Hhas t a' side Ht Hbd.
      assert (Hnc : a' = a -> ~ concerns (chan_w s) (conn_of s c) a side m msg o).
      { intros -> Hc. apply Hnm. left. cbn [activity]. split; [exact Hhas|].
        apply cmd_touches_spec. exists side. auto. }
      unfold concerns in Hnc. rewrite Ht in Hnc.
      destruct t; cbn [okcmd]; try exact I.
      + intros Hda n Hf. apply okclaim_of. intros -> Et. apply (Hnc eq_refl).
        split; [exact Hda|]. exists n. auto.
      + intros Hdc n Hn. apply okclaim_of. intros -> Et. apply (Hnc eq_refl).
        split; [exact Hdc|]. exists n. auto.
      + intros Hmb m' Hm'. apply Hopen. intros -> ->. apply (Hnc eq_refl). auto.
      + intros h ph bd Hmb Hph Hbdy.
        apply (proj2 (Hheld a' h (held_has_mb s c HS a' side h Hbd Hmb)
                        ltac:(intros -> ->; apply (Hnc eq_refl); eauto))).
      + intros Hdc Hmb m' Hcn. apply Hopen. intros -> ->. apply (Hnc eq_refl). auto.
    - (* explicit sweep *)
      intros a' m' c Hin. destruct (si_subs s HS _ Hin) as [Hmb _].
      apply (proj2 (Hheld a' m' Hmb ltac:(intros -> ->; apply Hnm; right;
                                          split; [exact I|exists c; exact Hin]))).
    - (* timer sweep *)
      intros Hdt Hdue a' m' c Hin. destruct (si_subs s HS _ Hin) as [Hmb _].
      apply (proj2 (Hheld a' m' Hmb ltac:(intros -> ->; apply Hnm; right;
                                          split; [split; assumption|exists c; exact Hin]))). }
  destruct e as [e0|k e0|]; cbn [moves quiet]; [apply Hb|apply Hb|intros _; exact I].
Qed.

End Idle.

Lemma rows_unique d r x :
  DbInv d -> In r (mailboxes d) -> In x (mailboxes d) -> mb_id x = mb_id r -> x = r.
Proof.
  intros Hinv Hr Hx Ei.
  apply (NoDup_map_inj mb_id (mailboxes d)); [apply inv_mb_id; exact Hinv|exact Hx|exact Hr|exact Ei].
Qed.

(** with the row of (a, m) present, everything that is not about (a, m) is
    harmless for the stamp policy: another id; or the same id under another
    app, which fails on the PRIMARY KEY *)
Lemma quiet_stamp s a m v e :
  SInv s -> has_mb (chan_w s) a m -> ~ moves s a m e -> quiet (stamp_pol m v false) s e.
Proof.
  intros HS Hmb Hnm. apply (quiet_of_idle (stamp_pol m v false) a m s HS); [| |exact Hnm].
  - intros a' m' H. destruct (string_dec m' m) as [->|Hne].
    + right. split.
      * apply mb_exists_iff. destruct Hmb as (r & Hr & _ & Hi). eauto.
      * intros Hh. apply (H (has_mb_app_unique _ a a' m (si_db s HS) Hmb Hh)). reflexivity.
    + left. split; right; exact Hne.
  - intros a' m' Hh H.
    assert (Hne : m' <> m).
    { intros ->. apply (H (has_mb_app_unique _ a a' m (si_db s HS) Hmb Hh)). reflexivity. }
    split; right; exact Hne.
Qed.

(** with no row of (a, m), everything that does not create one is harmless
    for the absence policy *)
Lemma quiet_absent s a m e :
  SInv s -> ~ moves s a m e -> quiet (absent_pol a m) s e.
Proof.
  intros HS Hnm. apply (quiet_of_idle (absent_pol a m) a m s HS); [| |exact Hnm].
  - intros a' m' H. left. split; [|exact I]. intros [-> ->]. exact (H eq_refl eq_refl).
  - intros a' m' _ H. split; [|exact I]. intros [-> ->]. exact (H eq_refl eq_refl).
Qed.

(** with [b = true] every event is allowed *)
Lemma quiet_true m v s e : quiet (stamp_pol m v true) s e.
Proof.
  assert (Hfr : forall a' m', fr (stamp_pol m v true) a' m')
    by (intros a' m'; split; left; reflexivity).
  assert (Hcl : forall d a' n side draw, okclaim (stamp_pol m v true) d a' n side draw).
  { intros d a' n side draw. unfold okclaim. destruct (sel_np d a' n); [left; apply Hfr|].
    intros bytes _. left. apply Hfr. }
  assert (Hb : forall e0, quiet_b (stamp_pol m v true) s e0).
  { intros e0. destruct e0 as [c|c msg o|c|[|]|dt [|]]; cbn [quiet_b]; try exact I.
    - intros _ t a' side _ _. destruct t; cbn [okcmd]; try exact I.
      + intros _ n _. apply Hcl.
      + intros _ n _. apply Hcl.
      + intros _ m' _. left. apply Hfr.
      + intros h ph bd _ _ _. left. reflexivity.
      + intros _ _ m' _. left. apply Hfr.
    - intros a' m' c _. left. reflexivity.
    - intros _ _ a' m' c _. left. reflexivity. }
  destruct e as [e0|k e0|]; cbn [quiet]; [apply Hb|apply Hb|exact I].
Qed.

(* ====================================================================== *)
(** * PART 4 -- the theorems *)
(* ====================================================================== *)

Section Theorems.
Variable cfg : config.

Lemma run_app_fst h1 h2 : forall s,
  fst (run cfg s (h1 ++ h2)) = fst (run cfg (fst (run cfg s h1)) h2).
Proof.
  induction h1 as [|e h1 IH]; intros s; cbn [app run]; [reflexivity|].
  specialize (IH (fst (step cfg s e))). destruct (step cfg s e) as [s1 o1]. cbn [fst] in *.
  destruct (run cfg s1 (h1 ++ h2)) as [s2 os2]. destruct (run cfg s1 h1) as [s3 os3]. exact IH.
Qed.

Lemma DB0_stamp_of_row d r b :
  DbInv d -> In r (mailboxes d) -> DB0 (stamp_pol (mb_id r) (mb_updated r) b) d.
Proof.
  intros Hinv Hr. unfold DB0. apply Forall_forall. intros x Hx. cbn [RO0 stamp_pol]. intros Ei.
  rewrite (rows_unique d r x Hinv Hr Hx Ei). reflexivity.
Qed.

(** over one event of any kind a stamp stays, or becomes the time of the event *)
Theorem stamp_old_or_now s e r r' :
  SInv s -> log s = [] ->
  In r (mailboxes (chan_w s)) ->
  In r' (mailboxes (chan_w (fst (step cfg s e)))) -> mb_id r' = mb_id r ->
  mb_updated r' = mb_updated r \/ mb_updated r' = now (fst (step cfg s e)).
Proof.
  intros HS Hl Hr Hr' Ei.
  pose proof (step_G_rows cfg (stamp_pol (mb_id r) (mb_updated r) true) s e r' HS Hl
                (DB0_stamp_of_row _ r true (si_db s HS) Hr) (quiet_true _ _ s e) Hr') as H.
  cbn [RO stamp_pol] in H. destruct (H Ei) as [K|[_ K]]; auto.
Qed.

(** over an event that does not move (a, m), its stamp stays *)
Theorem unmoved_keeps s e a m r r' :
  SInv s -> log s = [] ->
  In r (mailboxes (chan_w s)) -> mb_app r = a -> mb_id r = m ->
  ~ moves s a m e ->
  In r' (mailboxes (chan_w (fst (step cfg s e)))) -> mb_id r' = m ->
  mb_updated r' = mb_updated r.
Proof.
  intros HS Hl Hr Ea Ei Hnm Hr' Ei'. subst a m.
  assert (Hmb : has_mb (chan_w s) (mb_app r) (mb_id r)) by (exists r; auto).
  pose proof (step_G_rows cfg (stamp_pol (mb_id r) (mb_updated r) false) s e r' HS Hl
                (DB0_stamp_of_row _ r false (si_db s HS) Hr)
                (quiet_stamp s _ _ _ e HS Hmb Hnm) Hr') as H.
  cbn [RO stamp_pol] in H. destruct (H Ei') as [K|[K _]]; [exact K|discriminate].
Qed.

(** ** 1. [stamp_moves_only_by] *)
Theorem stamp_moves_only_by s e a m r r' :
  SInv s -> log s = [] ->
  In r (mailboxes (chan_w s)) -> mb_app r = a -> mb_id r = m ->
  In r' (mailboxes (chan_w (fst (step cfg s e)))) -> mb_id r' = m ->
  mb_updated r' <> mb_updated r ->
  mb_updated r' = now (fst (step cfg s e)) /\ moves s a m e.
Proof.
  intros HS Hl Hr Ea Ei Hr' Ei' Hne.
  destruct (moves_dec s a m e) as [Hm|Hnm].
  - split; [|exact Hm].
    destruct (stamp_old_or_now s e r r' HS Hl Hr Hr' ltac:(congruence)) as [K|K];
      [contradiction|exact K].
  - exfalso. apply Hne. exact (unmoved_keeps s e a m r r' HS Hl Hr Ea Ei Hnm Hr' Ei').
Qed.

(** the same with the disjunction spelled out *)
Corollary stamp_moves_only_by_cases s e a m r r' :
  SInv s -> log s = [] ->
  In r (mailboxes (chan_w s)) -> mb_app r = a -> mb_id r = m ->
  In r' (mailboxes (chan_w (fst (step cfg s e)))) -> mb_id r' = m ->
  mb_updated r' <> mb_updated r ->
  mb_updated r' = now (fst (step cfg s e)) /\
  exists e0, (e = EB e0 \/ exists k, e = ECrash k e0) /\
    ((exists c msg o cs side,
        e0 = ECmd c msg o /\ lookup_conn c (conns s) = Some cs /\
        c_bound cs = Some (a, side) /\ concerns (chan_w s) cs a side m msg o) \/
     ((e0 = ESweep false \/
       exists dt, e0 = EAdvance dt false /\ 0 <= dt /\ next_due s <= now s + dt) /\
      listened s a m)).
Proof.
  intros HS Hl Hr Ea Ei Hr' Ei' Hne.
  destruct (stamp_moves_only_by s e a m r r' HS Hl Hr Ea Ei Hr' Ei' Hne) as [Ht Hm].
  split; [exact Ht|].
  assert (Hb : forall e0, moves_b s a m e0 ->
    (exists c msg o cs side,
        e0 = ECmd c msg o /\ lookup_conn c (conns s) = Some cs /\
        c_bound cs = Some (a, side) /\ concerns (chan_w s) cs a side m msg o) \/
     ((e0 = ESweep false \/
       exists dt, e0 = EAdvance dt false /\ 0 <= dt /\ next_due s <= now s + dt) /\
      listened s a m)).
  { intros e0 [Ha|[Hf HL]].
    - left. destruct e0 as [c|c msg o|c|f|dt f]; cbn [activity] in Ha; try contradiction.
      destruct Ha as [Hhas Ht']. apply cmd_touches_spec in Ht'. destruct Ht' as (side & Hbd & Hc).
      exists c, msg, o, (conn_of s c), side. split; [reflexivity|].
      split; [apply has_conn_lookup; exact Hhas|]. auto.
    - right. split; [|exact HL].
      destruct e0 as [c|c msg o|c|[|]|dt [|]]; cbn [sweep_fires] in Hf; try contradiction.
      + left; reflexivity.
      + right. exists dt. destruct Hf. auto. }
  destruct e as [e0|k e0|]; cbn [moves] in Hm; [| |contradiction].
  - exists e0. split; [left; reflexivity|apply Hb; exact Hm].
  - exists e0. split; [right; exists k; reflexivity|apply Hb; exact Hm].
Qed.

(** a clean restart never moves a stamp: its start-up sweep runs with an empty
    subscription table *)
Corollary restart_keeps_stamp s r r' :
  SInv s -> log s = [] ->
  In r (mailboxes (chan_w s)) ->
  In r' (mailboxes (chan_w (fst (step cfg s ERestart)))) -> mb_id r' = mb_id r ->
  mb_updated r' = mb_updated r.
Proof.
  intros HS Hl Hr Hr' Ei.
  exact (unmoved_keeps s ERestart (mb_app r) (mb_id r) r r' HS Hl Hr eq_refl eq_refl
           (fun H => H) Hr' Ei).
Qed.

(** ** 2. [idle_stamp_constant] *)

(** no event of the history moves (a, m): no command goes through a touch of
    (a, m), and (a, m) has no subscriber whenever a non-faulty sweep runs *)
Fixpoint idle_hist (s : state) (a m : string) (h : list event) : Prop :=
  match h with
  | [] => True
  | e :: h' => ~ moves s a m e /\ idle_hist (fst (step cfg s e)) a m h'
  end.

Lemma idle_hist_app a m h1 h2 : forall s,
  idle_hist s a m (h1 ++ h2) <->
  idle_hist s a m h1 /\ idle_hist (fst (run cfg s h1)) a m h2.
Proof.
  induction h1 as [|e h1 IH]; intros s; cbn [app idle_hist run].
  - tauto.
  - rewrite (IH (fst (step cfg s e))).
    destruct (step cfg s e) as [s1 o1]. cbn [fst].
    destruct (run cfg s1 h1) as [s2 os]. cbn [fst]. tauto.
Qed.

(** every row of (a, m), if there is one, carries the stamp [v] *)
Definition stamp_is (s : state) (a m : string) (v : Z) : Prop :=
  forall r, In r (mailboxes (chan_w s)) -> mb_app r = a -> mb_id r = m -> mb_updated r = v.

(** one step: a present row keeps its stamp ([unmoved_keeps]); an absent one
    is not re-created (a row of (a, m) is created only by a command that goes
    through [open_mailbox a m] or a claim drawing [m]: the absence policy) *)
Lemma idle_step s e a m v :
  SInv s -> log s = [] -> stamp_is s a m v -> ~ moves s a m e ->
  stamp_is (fst (step cfg s e)) a m v.
Proof.
  intros HS Hl Hst Hnm r' Hr' Ea' Ei'.
  destruct (sel_mb (chan_w s) a m) as [r|] eqn:Es.
  - destruct (sel_mb_some _ _ _ _ Es) as (Hr & Ea & Ei).
    rewrite (unmoved_keeps s e a m r r' HS Hl Hr Ea Ei Hnm Hr' Ei').
    exact (Hst r Hr Ea Ei).
  - exfalso.
    assert (H0 : DB0 (absent_pol a m) (chan_w s)).
    { unfold DB0. apply Forall_forall. intros x Hx. cbn [RO0 absent_pol].
      exact (proj1 (sel_mb_none _ _ _) Es x Hx). }
    pose proof (step_G_rows cfg (absent_pol a m) s e r' HS Hl H0 (quiet_absent s a m e HS Hnm) Hr')
      as H.
    cbn [RO absent_pol] in H. apply H. auto.
Qed.

Hypothesis Hexp : 0 < exp cfg.

Lemma idle_run h a m v : forall s,
  SInv s -> log s = [] -> stamp_is s a m v -> idle_hist s a m h ->
  stamp_is (fst (run cfg s h)) a m v.
Proof.
  induction h as [|e h IH]; intros s HS Hl Hst Hid; cbn [run]; [exact Hst|].
  destruct Hid as [Hnm Hid].
  pose proof (idle_step s e a m v HS Hl Hst Hnm) as H1.
  destruct (step_SInv cfg Hexp s e HS) as [HS1 Hl1].
  destruct (step cfg s e) as [s1 o1]. cbn [fst] in *.
  specialize (IH s1 HS1 Hl1 H1 Hid). destruct (run cfg s1 h) as [s2 os]. exact IH.
Qed.

(** over a history that is idle for (a, m) a surviving row of (a, m) keeps
    its stamp.  (Crashes, restarts, faulty sweeps, other mailboxes' and other
    apps' traffic -- also on the same id -- in between are all allowed.) *)
Theorem idle_stamp_constant s h a m r r' :
  SInv s -> log s = [] ->
  In r (mailboxes (chan_w s)) -> mb_app r = a -> mb_id r = m ->
  idle_hist s a m h ->
  In r' (mailboxes (chan_w (fst (run cfg s h)))) -> mb_app r' = a -> mb_id r' = m ->
  mb_updated r' = mb_updated r.
Proof.
  intros HS Hl Hr Ea Ei Hid Hr' Ea' Ei'.
  apply (idle_run h a m (mb_updated r) s HS Hl); auto.
  intros x Hx _ Ex. rewrite (rows_unique _ r x (si_db s HS) Hr Hx ltac:(congruence)). reflexivity.
Qed.

(** ** 3. [idle_is_swept] *)

(** mailbox row [r] of [d] is gone in [d'] with every side row, every message,
    the nameplate pointing at it and that nameplate's side rows *)
Definition removed (d d' : chan_db) (r : mb_row) : Prop :=
  ~ mb_alive d' (mb_id r) /\
  (forall x, In x (mb_sides d') -> mbs_mbox x <> mb_id r) /\
  (forall x, In x (messages d') -> msg_mbox x <> mb_id r) /\
  (forall n, In n (nameplates d') -> np_mbox n <> mb_id r) /\
  (forall n, In n (nameplates d) -> np_mbox n = mb_id r ->
             forall x, In x (np_sides d') -> nps_npid x <> np_id n).

(** SweepFacts.sweep_char, read for a row that is old and has no subscriber *)
Lemma sweep_removes s s' r :
  SInv s -> log s = [] -> expire cfg false s = Ok tt s' ->
  In r (mailboxes (chan_w s)) ->
  mb_updated r <= now s - exp cfg -> ~ listened s (mb_app r) (mb_id r) ->
  removed (chan_w s) (chan_w s') r.
Proof.
  intros HS Hl E Hr Hold HnL.
  destruct (sweep_char cfg Hexp s HS Hl) as (s'' & E' & H). rewrite E in E'.
  assert (Es : s'' = s') by congruence. subst s''. cbv zeta in H.
  destruct H as (Hmb & Hnp & Hnps & Hmbs & Hmsg & _).
  assert (Hdead : ~ mb_alive (chan_w s') (mb_id r)).
  { intros (x & Hx & Ei). apply Hmb in Hx.
    destruct Hx as [(Hx & _ & Ho)|(r0 & Hr0 & HL & Ex)].
    - rewrite (rows_unique _ r x (si_db s HS) Hr Hx Ei) in Ho. lia.
    - subst x. cbn [mb_id] in Ei.
      rewrite (rows_unique _ r r0 (si_db s HS) Hr Hr0 Ei) in HL. exact (HnL HL). }
  split; [exact Hdead|]. split; [|split; [|split]].
  - intros x Hx Ex. apply Hmbs in Hx. destruct Hx as [_ Ha]. rewrite Ex in Ha. exact (Hdead Ha).
  - intros x Hx Ex. apply Hmsg in Hx. destruct Hx as [_ Ha]. rewrite Ex in Ha. exact (Hdead Ha).
  - intros n Hn En. apply Hnp in Hn. destruct Hn as [_ Ha]. rewrite En in Ha. exact (Hdead Ha).
  - intros n Hn En x Hx Ex. apply Hnps in Hx. destruct Hx as [_ (n' & Hn' & En')].
    apply Hnp in Hn'. destruct Hn' as [Hn'd Ha].
    assert (n' = n).
    { apply (NoDup_map_inj np_id (nameplates (chan_w s)));
        [apply inv_np_id; exact (si_db s HS)|exact Hn'd|exact Hn|congruence]. }
    subst n'. rewrite En in Ha. exact (Hdead Ha).
Qed.

(** a sweep creates no mailbox *)
Lemma sweep_creates_none s s' a m :
  SInv s -> log s = [] -> expire cfg false s = Ok tt s' ->
  ~ has_mb (chan_w s) a m -> ~ has_mb (chan_w s') a m.
Proof.
  intros HS Hl E Hno (x & Hx & Ea & Ei).
  destruct (sweep_char cfg Hexp s HS Hl) as (s'' & E' & H). rewrite E in E'.
  assert (Es : s'' = s') by congruence. subst s''. cbv zeta in H.
  destruct H as (Hmb & _). apply Hmb in Hx.
  destruct Hx as [(Hx & _)|(r0 & Hr0 & _ & Ex)].
  - apply Hno. exists x. auto.
  - subst x. cbn [mb_app mb_id] in Ea, Ei. apply Hno. exists r0. auto.
Qed.

(** [idle_is_swept].  Mailbox (a, m) carries the stamp [t] in a well-formed
    state [s0] (for instance right after its last served claim / open / add at
    time [t]: ActivityFacts PART A.1); the history [h] from [s0] is idle for
    (a, m); in the state [s] it leads to, at a time [now s >= t + exp], (a, m)
    has no subscriber and a non-faulty sweep runs.  Then the row of (a, m), if
    it is still there, is removed with all its side rows, its messages, the
    nameplate pointing at it and that nameplate's side rows -- and in any case
    no row of (a, m) is left. *)
Theorem idle_is_swept s0 h a m t s' :
  SInv s0 -> log s0 = [] ->
  stamped (chan_w s0) a m t ->
  idle_hist s0 a m h ->
  let s := fst (run cfg s0 h) in
  t + exp cfg <= now s -> ~ listened s a m ->
  expire cfg false s = Ok tt s' ->
  (forall r, In r (mailboxes (chan_w s)) -> mb_app r = a -> mb_id r = m ->
             mb_updated r = t /\ removed (chan_w s) (chan_w s') r) /\
  ~ has_mb (chan_w s') a m.
Proof.
  intros HS0 Hl0 (r0 & Hr0 & Ea0 & Ei0 & Eu0) Hid s Hle HnL E.
  destruct (run_SInv cfg Hexp h s0 HS0 Hl0) as [HS Hl]. fold s in HS, Hl.
  assert (Hall : forall r, In r (mailboxes (chan_w s)) -> mb_app r = a -> mb_id r = m ->
                           mb_updated r = t /\ removed (chan_w s) (chan_w s') r).
  { intros r Hr Ea Ei.
    assert (Eu : mb_updated r = t).
    { rewrite <- Eu0. exact (idle_stamp_constant s0 h a m r0 r HS0 Hl0 Hr0 Ea0 Ei0 Hid Hr Ea Ei). }
    split; [exact Eu|].
    apply (sweep_removes s s' r HS Hl E Hr); [lia|rewrite Ea, Ei; exact HnL]. }
  split; [exact Hall|].
  intros (x & Hx & Ea & Ei).
  destruct (sel_mb (chan_w s) a m) as [r|] eqn:Es.
  - destruct (sel_mb_some _ _ _ _ Es) as (Hr & Ear & Eir).
    destruct (Hall r Hr Ear Eir) as [_ (Hdead & _)]. apply Hdead. exists x. split; [exact Hx|congruence].
  - apply (sweep_creates_none s s' a m HS Hl E).
    + intros Hh. apply has_mb_sel in Hh. destruct Hh as [r Hr]. congruence.
    + exists x. auto.
Qed.

(** the same for the two events that run a sweep, the sweep being the last
    event of an idle history *)

Theorem idle_is_swept_sweep s0 h a m t :
  SInv s0 -> log s0 = [] ->
  stamped (chan_w s0) a m t ->
  idle_hist s0 a m (h ++ [EB (ESweep false)]) ->
  let s := fst (run cfg s0 h) in
  let s' := fst (run cfg s0 (h ++ [EB (ESweep false)])) in
  t + exp cfg <= now s ->
  (forall r, In r (mailboxes (chan_w s)) -> mb_app r = a -> mb_id r = m ->
             mb_updated r = t /\ removed (chan_w s) (chan_w s') r) /\
  ~ has_mb (chan_w s') a m.
Proof.
  intros HS0 Hl0 Hst Hid s s' Hle.
  apply idle_hist_app in Hid. destruct Hid as [Hid1 Hid2]. fold s in Hid2.
  cbn [idle_hist moves] in Hid2. destruct Hid2 as [Hnm _].
  assert (HnL : ~ listened s a m).
  { intros HL. apply Hnm. right. split; [exact I|exact HL]. }
  destruct (run_SInv cfg Hexp h s0 HS0 Hl0) as [HS Hl]. fold s in HS, Hl.
  destruct (sweep_event_runs cfg Hexp s HS Hl) as (s1 & E1 & E2).
  assert (Es' : chan_w s' = chan_w s1).
  { unfold s'. rewrite run_app_fst. fold s. cbn [run].
    destruct (step cfg s (EB (ESweep false))) as [sx ox]. cbn [fst] in *. rewrite E2. reflexivity. }
  rewrite Es'. exact (idle_is_swept s0 h a m t s1 HS0 Hl0 Hst Hid1 Hle HnL E1).
Qed.

Theorem idle_is_swept_timer s0 h a m t dt :
  SInv s0 -> log s0 = [] ->
  stamped (chan_w s0) a m t ->
  idle_hist s0 a m (h ++ [EB (EAdvance dt false)]) ->
  let s := fst (run cfg s0 h) in
  let s' := fst (run cfg s0 (h ++ [EB (EAdvance dt false)])) in
  0 <= dt -> next_due s <= now s + dt ->            (* the timer fires ... *)
  t + exp cfg <= now s + dt ->                      (* ... when the stamp has expired *)
  (forall r, In r (mailboxes (chan_w s)) -> mb_app r = a -> mb_id r = m ->
             mb_updated r = t /\ removed (chan_w s) (chan_w s') r) /\
  ~ has_mb (chan_w s') a m.
Proof.
  intros HS0 Hl0 Hst Hid s s' Hdt Hdue Hle.
  apply idle_hist_app in Hid. destruct Hid as [Hid1 Hid2]. fold s in Hid2.
  cbn [idle_hist moves] in Hid2. destruct Hid2 as [Hnm _].
  assert (HnL : ~ listened s a m).
  { intros HL. apply Hnm. right. split; [split; assumption|exact HL]. }
  destruct (run_SInv cfg Hexp h s0 HS0 Hl0) as [HS Hl]. fold s in HS, Hl.
  destruct (due_sweep_runs_aux cfg Hexp s dt false HS Hl Hdt Hdue) as (s1 & E1 & _ & E2).
  assert (Es' : chan_w s' = chan_w s1).
  { unfold s'. rewrite run_app_fst. fold s. cbn [run].
    destruct (step cfg s (EB (EAdvance dt false))) as [sx ox]. cbn [fst] in *. rewrite E2.
    reflexivity. }
  rewrite Es'.
  (* the sweep runs in [set_now s (now s + dt)]: same database, same subscribers *)
  set (sa := set_now s (now s + dt)) in *.
  assert (HSa : SInv sa) by (apply SInv_set_now; exact HS).
  destruct Hst as (r0 & Hr0 & Ea0 & Ei0 & Eu0).
  assert (Hall : forall r, In r (mailboxes (chan_w s)) -> mb_app r = a -> mb_id r = m ->
                           mb_updated r = t /\ removed (chan_w s) (chan_w s1) r).
  { intros r Hr Ea Ei.
    assert (Eu : mb_updated r = t).
    { rewrite <- Eu0. exact (idle_stamp_constant s0 h a m r0 r HS0 Hl0 Hr0 Ea0 Ei0 Hid1 Hr Ea Ei). }
    split; [exact Eu|].
    apply (sweep_removes sa s1 r HSa Hl E1 Hr); [cbn [now sa set_now]; lia|].
    rewrite Ea, Ei. exact HnL. }
  split; [exact Hall|].
  intros (x & Hx & Ea & Ei).
  destruct (sel_mb (chan_w s) a m) as [r|] eqn:Es.
  - destruct (sel_mb_some _ _ _ _ Es) as (Hr & Ear & Eir).
    destruct (Hall r Hr Ear Eir) as [_ (Hdead & _)]. apply Hdead. exists x. split; [exact Hx|congruence].
  - apply (sweep_creates_none sa s1 a m HSa Hl E1).
    + intros Hh. apply has_mb_sel in Hh. destruct Hh as [r Hr]. cbn [chan_w sa set_now] in Hr. congruence.
    + exists x. auto.
Qed.

End Theorems.

Print Assumptions stamp_old_or_now.
Print Assumptions unmoved_keeps.
Print Assumptions stamp_moves_only_by.
Print Assumptions stamp_moves_only_by_cases.
Print Assumptions restart_keeps_stamp.
Print Assumptions idle_stamp_constant.
Print Assumptions idle_is_swept.
Print Assumptions idle_is_swept_sweep.
Print Assumptions idle_is_swept_timer.

(* ====================================================================== *)
(** * Non-vacuity *)
(* ====================================================================== *)

(** ActivityFacts.ex_cfg: expiration 11, period 5.  Side A connects at time 0,
    binds, opens "m", and adds a message at time 2: stamp 2. *)
Definition idle_s0 : state :=
  fst (run ex_cfg (init ex_cfg 0) (ex_h0 ++ [EB (ECmd 1 ex_add no_oracle)])).

Definition ex_close (m : string) : command :=
  mkCmd (Some TClose) None None None None (Some m) None None (Some "happy") None None.

Ltac not_moves :=
  let H := fresh in
  intros H; vm_compute in H;
  repeat match goal with
         | H : _ \/ _ |- _ => destruct H as [H|H]
         | H : _ /\ _ |- _ => destruct H
         | H : exists _, _ |- _ => destruct H
         | H : False |- _ => destruct H
         | H : true = false |- _ => discriminate H
         | H : false = true |- _ => discriminate H
         end; try discriminate; try lia.

(** the client leaves at 2 and nothing concerns (a, m) any more: the history
    is idle (the timer's sweep at 10 finds no subscriber and 10 < 2 + 11), and
    the sweep at 13 = 2 + 11 exactly removes the mailbox and its message *)
Definition idle_h : list event :=
  [EB (EDisconnect 1); EB (EAdvance 8 false); EB (EAdvance 3 false)].

Example idle_hist_nonvacuous :
  stamped (chan_w idle_s0) "a" "m" 2 /\
  idle_hist ex_cfg idle_s0 "a" "m" (idle_h ++ [EB (ESweep false)]).
Proof.
  split; [exists (mkMb "a" "m" 2 false); vm_compute; auto|].
  cbn [app idle_hist idle_h]. repeat split; not_moves.
Qed.

Example idle_swept_at_exactly_t_plus_exp :
  let s := fst (run ex_cfg idle_s0 idle_h) in
  let s' := fst (run ex_cfg idle_s0 (idle_h ++ [EB (ESweep false)])) in
  now s = 2 + exp ex_cfg /\
  mailboxes (chan_w s) = [mkMb "a" "m" 2 false] /\ List.length (messages (chan_w s)) = 1%nat /\
  List.length (mb_sides (chan_w s)) = 1%nat /\
  mailboxes (chan_w s') = [] /\ messages (chan_w s') = [] /\ mb_sides (chan_w s') = [].
Proof. vm_compute. repeat split. Qed.

(** [idle_is_swept_sweep] applies to it *)
Example idle_is_swept_applies :
  let s := fst (run ex_cfg idle_s0 idle_h) in
  let s' := fst (run ex_cfg idle_s0 (idle_h ++ [EB (ESweep false)])) in
  removed (chan_w s) (chan_w s') (mkMb "a" "m" 2 false) /\ ~ has_mb (chan_w s') "a" "m".
Proof.
  destruct (init_spec ex_cfg ex_exp 0) as [HS0 Hl0].
  assert (H : SInv idle_s0 /\ log idle_s0 = [])
    by exact (run_SInv ex_cfg ex_exp (ex_h0 ++ [EB (ECmd 1 ex_add no_oracle)]) _ HS0 Hl0).
  destruct H as [HS Hl].
  destruct idle_hist_nonvacuous as [Hst Hid].
  destruct (idle_is_swept_sweep ex_cfg ex_exp idle_s0 idle_h "a" "m" 2 HS Hl Hst Hid
              ltac:(vm_compute; discriminate)) as [H1 H2].
  cbv zeta. split; [|exact H2].
  refine (proj2 (H1 (mkMb "a" "m" 2 false) _ eq_refl eq_refl)). vm_compute. auto.
Qed.

(** the same mailbox when an `add` happens in between (at time 4): that event
    moves (a, m) -- the history is not idle -- and the sweep at 13 keeps the
    mailbox, now stamped 4, with both messages *)
Definition busy_h : list event :=
  [EB (EAdvance 2 false); EB (ECmd 1 ex_add no_oracle); EB (EDisconnect 1);
   EB (EAdvance 6 false); EB (EAdvance 3 false)].

Example add_in_between_keeps :
  let s1 := fst (run ex_cfg idle_s0 [EB (EAdvance 2 false)]) in
  moves s1 "a" "m" (EB (ECmd 1 ex_add no_oracle)) /\
  ~ idle_hist ex_cfg idle_s0 "a" "m" (busy_h ++ [EB (ESweep false)]) /\
  let s := fst (run ex_cfg idle_s0 busy_h) in
  let s' := fst (run ex_cfg idle_s0 (busy_h ++ [EB (ESweep false)])) in
  now s = 2 + exp ex_cfg /\ subs s = [] /\
  mailboxes (chan_w s') = [mkMb "a" "m" 4 false] /\ List.length (messages (chan_w s')) = 2%nat.
Proof.
  assert (Hm : moves (fst (run ex_cfg idle_s0 [EB (EAdvance 2 false)])) "a" "m"
                     (EB (ECmd 1 ex_add no_oracle))).
  { left. vm_compute. split; reflexivity. }
  cbv zeta. split; [exact Hm|]. split.
  - cbn [app idle_hist busy_h]. intros (_ & H & _). exact (H Hm).
  - vm_compute. repeat split.
Qed.

(** the stamping commands of [concerns], at work.  From the idle state at 13
    (mailbox "m" of app "a" stamped 2, nobody connected):
    - a close on a fresh connection that names "m" passes through
      open_mailbox and re-stamps it (KF4);
    - an open of the id "m" by a connection of ANOTHER app fails on the
      PRIMARY KEY and leaves the stamp alone (KF1): not an activity on (a, m). *)
Example close_on_fresh_connection_stamps :
  let s := fst (run ex_cfg idle_s0 idle_h) in
  let s1 := fst (run ex_cfg s [EB (EConnect 2); EB (ECmd 2 (bind_cmd "a" "B") no_oracle)]) in
  moves s1 "a" "m" (EB (ECmd 2 (ex_close "m") no_oracle)) /\
  mailboxes (chan_w (fst (step ex_cfg s1 (EB (ECmd 2 (ex_close "m") no_oracle))))) =
  [mkMb "a" "m" 13 false].
Proof. cbv zeta. split; [left; vm_compute; split; reflexivity|vm_compute; reflexivity]. Qed.

Example foreign_open_does_not_stamp :
  let s := fst (run ex_cfg idle_s0 idle_h) in
  let s1 := fst (run ex_cfg s [EB (EConnect 2); EB (ECmd 2 (bind_cmd "b" "B") no_oracle)]) in
  ~ moves s1 "a" "m" (EB (ECmd 2 (ex_open "m") no_oracle)) /\
  mailboxes (chan_w (fst (step ex_cfg s1 (EB (ECmd 2 (ex_open "m") no_oracle))))) =
  [mkMb "a" "m" 2 false].
Proof. cbv zeta. split; [not_moves|vm_compute; reflexivity]. Qed.

(** a close of the mailbox the connection HOLDS does not stamp it (here a
    second side keeps it open, so it is not deleted either) *)
Example close_of_held_does_not_stamp :
  let s1 := fst (run ex_cfg idle_s0
                   [EB (EConnect 2); EB (ECmd 2 (bind_cmd "a" "B") no_oracle);
                    EB (ECmd 2 (ex_open "m") no_oracle); EB (EAdvance 2 false)]) in
  ~ moves s1 "a" "m" (EB (ECmd 1 (ex_close "m") no_oracle)) /\
  now s1 = 4 /\
  mailboxes (chan_w (fst (step ex_cfg s1 (EB (ECmd 1 (ex_close "m") no_oracle))))) =
  [mkMb "a" "m" 2 false].
Proof. cbv zeta. split; [not_moves|vm_compute; split; reflexivity]. Qed.

(** a crowded third side's open is refused, and stamps (ActivityFacts.open_stamps) *)
Example crowded_open_stamps :
  let s1 := fst (run ex_cfg idle_s0
                   [EB (EConnect 2); EB (ECmd 2 (bind_cmd "a" "B") no_oracle);
                    EB (ECmd 2 (ex_open "m") no_oracle);
                    EB (EConnect 3); EB (ECmd 3 (bind_cmd "a" "C") no_oracle);
                    EB (EAdvance 2 false)]) in
  moves s1 "a" "m" (EB (ECmd 3 (ex_open "m") no_oracle)) /\
  let '(s', ob) := step ex_cfg s1 (EB (ECmd 3 (ex_open "m") no_oracle)) in
  frames_of (o_log ob) = [(3%nat, FAck None); (3%nat, FError ErrCrowded (ex_open "m"))] /\
  mailboxes (chan_w s') = [mkMb "a" "m" 4 false].
Proof. cbv zeta. split; [left; vm_compute; split; reflexivity|vm_compute; split; reflexivity]. Qed.

(** a refused (reclaimed) claim does not: side A claims nameplate 7, releases
    it, and claims it again at time 3 on a new connection *)
Definition ex_release : command :=
  mkCmd (Some TRelease) None None None None None None None None None None.

Example reclaimed_claim_does_not_stamp :
  let s1 := fst (run ex_cfg (init ex_cfg 0)
                   [EB (EConnect 1); EB (ECmd 1 (bind_cmd "a" "A") no_oracle);
                    EB (ECmd 1 (ex_claim "7") ex_oracle);
                    EB (EConnect 2); EB (ECmd 2 (bind_cmd "a" "B") no_oracle);
                    EB (ECmd 2 (ex_claim "7") ex_oracle);
                    EB (ECmd 1 ex_release no_oracle);
                    EB (EConnect 3); EB (ECmd 3 (bind_cmd "a" "A") no_oracle);
                    EB (EAdvance 3 false)]) in
  let mbox := genid "12345678" in
  mailboxes (chan_w s1) = [mkMb "a" mbox 0 true] /\
  ~ moves s1 "a" mbox (EB (ECmd 3 (ex_claim "7") ex_oracle)) /\
  let '(s', ob) := step ex_cfg s1 (EB (ECmd 3 (ex_claim "7") ex_oracle)) in
  frames_of (o_log ob) = [(3%nat, FAck None); (3%nat, FError ErrReclaimed (ex_claim "7"))] /\
  mailboxes (chan_w s') = [mkMb "a" mbox 0 true].
Proof.
  cbv zeta. split; [vm_compute; reflexivity|]. split; [not_moves|vm_compute; split; reflexivity].
Qed.

(* ====================================================================== *)
(** * The named deliverables, collected *)
(* ====================================================================== *)

Theorem idle_facts :
  ltac:(let t1 := type of stamp_moves_only_by in let t2 := type of idle_stamp_constant in
        let t3 := type of idle_is_swept in let t4 := type of idle_is_swept_sweep in
        let t5 := type of idle_is_swept_timer in
        exact (t1 /\ t2 /\ t3 /\ t4 /\ t5)).
Proof.
  exact (conj stamp_moves_only_by (conj idle_stamp_constant (conj idle_is_swept
           (conj idle_is_swept_sweep idle_is_swept_timer)))).
Qed.
Print Assumptions idle_facts.
