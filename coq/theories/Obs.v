(** Obs.v -- vocabulary for stating the property theorems (definitions only). *)
From MW Require Import Base Store Monad Usage Server Websocket Service.
Local Open Scope list_scope.

(** the frames of an (oldest-first) log, in emission order *)
Fixpoint frames_of (l : list log_entry) : list (nat * frame) :=
  match l with
  | [] => []
  | LFrame c f _ _ :: l' => (c, f) :: frames_of l'
  | _ :: l' => frames_of l'
  end.

(** the send time stamps ([server_tx]) of the frames of a log, in emission order *)
Fixpoint stamps_of (l : list log_entry) : list Z :=
  match l with
  | [] => []
  | LFrame _ _ _ tx :: l' => tx :: stamps_of l'
  | _ :: l' => stamps_of l'
  end.

(** frames sent to one connection *)
Definition frames_to (c : nat) (l : list log_entry) : list frame :=
  map snd (filter (fun p => Nat.eqb (fst p) c) (frames_of l)).

(** connection [c] is bound to (app, side) *)
Definition bound_to (s : state) (c : nat) (a side : string) : Prop :=
  exists cs, lookup_conn c (conns s) = Some cs /\ c_bound cs = Some (a, side).

(** connection [c] holds (is subscribed to) mailbox (a, m) *)
Definition holds (s : state) (c : nat) (a m : string) : Prop :=
  exists cs side, lookup_conn c (conns s) = Some cs /\ c_bound cs = Some (a, side) /\
                  c_mailbox cs = Some m.

(** the nameplate / mailbox a release / close command resolves to *)
Definition cmd_nameplate (cs : conn_state) (msg : command) : option string :=
  match m_nameplate msg with Some n => Some n | None => c_nameplate_id cs end.
Definition cmd_mbox (cs : conn_state) (msg : command) : option string :=
  match m_mailbox msg with Some m => Some m | None => c_mailbox_id cs end.

(** side [side] holds a claim on nameplate (a, n) *)
Definition holder (d : chan_db) (a n side : string) : Prop :=
  exists np r, sel_np d a n = Some np /\ In r (np_sides d) /\
               nps_npid r = np_id np /\ nps_side r = side /\ nps_claimed r = true.

(** side [side] has mailbox m open (its row says opened) *)
Definition keeper (d : chan_db) (m side : string) : Prop :=
  exists r, In r (mb_sides d) /\ mbs_mbox r = m /\ mbs_side r = side /\ mbs_opened r = true.

(** some mailbox row carries id [m] *)
Definition mb_alive (d : chan_db) (m : string) : Prop :=
  exists r, In r (mailboxes d) /\ mb_id r = m.

(** [d'] keeps everything [d] has: no row of any table is removed or altered,
    except that a mailbox's [updated] stamp may change *)
Definition grows (d d' : chan_db) : Prop :=
  incl (nameplates d) (nameplates d') /\ incl (np_sides d) (np_sides d') /\
  incl (mb_sides d) (mb_sides d') /\ incl (messages d) (messages d') /\
  (forall r, In r (mailboxes d) ->
     exists r', In r' (mailboxes d') /\ mb_app r' = mb_app r /\ mb_id r' = mb_id r /\
                mb_fornp r' = mb_fornp r).

(** reachable states *)
Definition reachable (cfg : config) (s : state) : Prop :=
  exists t0 h, s = fst (run cfg (init cfg t0) h).
