(** UsageRun.v -- C15 at the level of whole histories.

    UsageCount.v / UsageCount2.v / RestartUsage.v give the exact effect of EACH
    event kind on the usage database.  Here they are put together:

    - [np_retired] / [mb_retired]: the nameplate rows and mailbox rows an event
      retires = the rows present before the event (for a close re-sent on a
      connection that does not hold the mailbox: after its implicit open, so
      that a transient mailbox created and closed inside the command counts)
      and [gone] after it;
    - [event_usage]: every crash-free event appends to the nameplate / mailbox
      tables of the usage database exactly (a permutation of) the records of
      the rows it retires -- for every kind of event, so in particular
      nothing when nothing is retired;
    - [usage_run]: over a crash-free history from the initial state the two
      tables are a permutation of the concatenation, event by event, of the
      records of the retired rows; hence ([usage_run_count]) as many records as
      retirements; a row retired by an event is present before and has no row
      with its id afterwards ([retired_present], [retired_not_alive]: rows
      still alive contribute nothing; an id retired and created again is
      counted once per incarnation), and one event retires an id at most once
      ([mb_retired_nodup], [np_retired_nodup]);
    - [usage_off_run]: without a usage database nothing is ever written. *)
From MW Require Import Base Store Monad Usage Server Websocket Service Findings
     Inv StoreFacts Hoare DbFactsA DbFactsB OpFacts ProtoFacts Obs StepFacts SweepFacts
     NpFactsA NpFactsB MbFactsA MbFactsB CrowdFacts LifeFacts QuiesceFacts
     UsageCount UsageCount2 RestartUsage MbStable.
From Coq Require Import Sorting.Permutation.
Local Open Scope list_scope.

(** * Lists: [gone] *)

Lemma filter_none {A} (p : A -> bool) l : (forall x, In x l -> p x = false) -> filter p l = [].
Proof.
  induction l as [|x l IH]; intros H; cbn [filter]; [reflexivity|].
  rewrite (H x (or_introl eq_refl)). apply IH. intros y Hy. apply H. right. exact Hy.
Qed.

(** nothing is gone when every key is still there *)
Lemma gone_nil_keys {A K} (key : A -> K) (keqb : K -> K -> bool) l l' :
  (forall k, keqb k k = true) ->
  incl (map key l) (map key l') ->
  gone (fun x y => keqb (key x) (key y)) l l' = [].
Proof.
  intros Hr Hin. unfold gone. apply filter_none. intros x Hx.
  apply negb_false_iff. apply existsb_exists.
  assert (H : In (key x) (map key l')) by (apply Hin, in_map, Hx).
  apply in_map_iff in H. destruct H as (y & Ey & Hy). exists y. split; [exact Hy|].
  rewrite Ey. apply Hr.
Qed.

(** what is gone after a filter, for rows with pairwise different keys *)
Lemma gone_filter_key {A K} (key : A -> K) (keqb : K -> K -> bool) (q : A -> bool) l :
  (forall x y, keqb x y = true <-> x = y) -> NoDup (map key l) ->
  gone (fun x y => keqb (key x) (key y)) l (filter q l) = filter (fun x => negb (q x)) l.
Proof.
  intros Hk Hnd. unfold gone. apply filter_ext_in. intros x Hx. f_equal.
  destruct (q x) eqn:Eq.
  - apply existsb_exists. exists x. split; [apply filter_In; auto|]. apply Hk. reflexivity.
  - apply existsb_false_iff. intros y Hy. apply filter_In in Hy. destruct Hy as [Hy Hq].
    destruct (keqb (key x) (key y)) eqn:E; [|reflexivity]. apply Hk in E.
    assert (x = y) by (apply (NoDup_map_inj key l); assumption). subst y. congruence.
Qed.

(** the single row with a given key *)
Lemma filter_key_single {A K} (key : A -> K) (keqb : K -> K -> bool) l r :
  (forall x y, keqb x y = true <-> x = y) -> NoDup (map key l) -> In r l ->
  filter (fun x => keqb (key x) (key r)) l = [r].
Proof.
  intros Hk. induction l as [|x l IH]; intros Hnd Hr; [destruct Hr|].
  cbn [map] in Hnd. inversion Hnd as [|? ? Hnin Hnd']; subst. cbn [filter].
  destruct Hr as [->|Hr].
  - rewrite (proj2 (Hk (key r) (key r)) eq_refl). f_equal. apply filter_none.
    intros y Hy. destruct (keqb (key y) (key r)) eqn:E; [|reflexivity]. apply Hk in E.
    exfalso. apply Hnin. rewrite <- E. apply in_map. exact Hy.
  - destruct (keqb (key x) (key r)) eqn:E.
    + apply Hk in E. exfalso. apply Hnin. rewrite E. apply in_map. exact Hr.
    + apply IH; assumption.
Qed.

Lemma gone_In {A} (eqb : A -> A -> bool) l l' x :
  In x (gone eqb l l') <-> In x l /\ forall y, In y l' -> eqb x y = false.
Proof.
  unfold gone. rewrite filter_In, negb_true_iff, existsb_false_iff. reflexivity.
Qed.

Lemma np_same_unfold : np_same = (fun x y => Z.eqb (np_id x) (np_id y)).
Proof. reflexivity. Qed.
Lemma mb_same_unfold : mb_same = (fun x y => seqb (mb_id x) (mb_id y)).
Proof. reflexivity. Qed.

(** * Databases: which ids an operation keeps *)

Definition ids_kept (d d' : chan_db) : Prop :=
  incl (map np_id (nameplates d)) (map np_id (nameplates d')) /\
  incl (map mb_id (mailboxes d)) (map mb_id (mailboxes d')).

Lemma ids_kept_gone d d' :
  ids_kept d d' ->
  gone np_same (nameplates d) (nameplates d') = [] /\
  gone mb_same (mailboxes d) (mailboxes d') = [].
Proof.
  intros [H1 H2]. split.
  - rewrite np_same_unfold. apply gone_nil_keys; [apply Z.eqb_refl|exact H1].
  - rewrite mb_same_unfold. apply gone_nil_keys; [apply seqb_refl|exact H2].
Qed.

Lemma ids_kept_refl d : ids_kept d d.
Proof. split; apply incl_refl. Qed.

Lemma ids_kept_eq d d' : d' = d -> ids_kept d d'.
Proof. intros ->. apply ids_kept_refl. Qed.

Lemma ids_kept_tables d d' :
  nameplates d' = nameplates d -> map mb_id (mailboxes d') = map mb_id (mailboxes d) -> ids_kept d d'.
Proof. intros E1 E2. unfold ids_kept. rewrite E1, E2. split; apply incl_refl. Qed.

Lemma ids_kept_grows d d' : grows d d' -> ids_kept d d'.
Proof.
  intros (G1 & _ & _ & _ & G5). split.
  - apply incl_map. exact G1.
  - intros k Hk. apply in_map_iff in Hk. destruct Hk as (r & <- & Hr).
    destruct (G5 r Hr) as (r' & Hr' & _ & Ei & _). rewrite <- Ei. apply in_map. exact Hr'.
Qed.

Lemma touch_row_id m w r : mb_id (touch_row m w r) = mb_id r.
Proof. unfold touch_row. destruct (seqb (mb_id r) m); reflexivity. Qed.

Lemma open_db_nameplates d a m side w : nameplates (open_db d a m side w) = nameplates d.
Proof. reflexivity. Qed.

Lemma open_db_mb_ids d a m side w :
  map mb_id (mailboxes (open_db d a m side w)) =
  map mb_id (match sel_mb d a m with
             | Some _ => mailboxes d
             | None => mailboxes d ++ [mkMb a m w false]
             end).
Proof.
  unfold open_db. cbn [mailboxes]. rewrite map_map. apply map_ext. intros r. apply touch_row_id.
Qed.

Lemma ids_kept_open d a m side w : ids_kept d (open_db d a m side w).
Proof.
  split; [rewrite open_db_nameplates; apply incl_refl|].
  rewrite open_db_mb_ids. destruct (sel_mb d a m); [apply incl_refl|].
  rewrite map_app. apply incl_appl, incl_refl.
Qed.

(** a failed implicit open (the id exists under another app) created no id *)
Lemma open_db_clash_ids d a m side w :
  mb_exists d m = true -> ids_kept (open_db d a m side w) d.
Proof.
  intros Hex. split; [rewrite open_db_nameplates; apply incl_refl|].
  rewrite open_db_mb_ids. destruct (sel_mb d a m); [apply incl_refl|].
  rewrite map_app. apply incl_app; [apply incl_refl|].
  intros k [<-|[]]. cbn [mb_id]. unfold mb_exists in Hex. apply existsb_exists in Hex.
  destruct Hex as (r & Hr & E). apply seqb_eq in E. rewrite <- E. apply in_map. exact Hr.
Qed.

Lemma ids_kept_add d r m w : ids_kept d (upd_touch (ins_msg d r) m w).
Proof.
  destruct (upd_touch_tables (ins_msg d r) m w) as (_ & _ & E1 & E2).
  apply ids_kept_tables; [exact E1|exact E2].
Qed.

(** what a close retires: when it deletes the mailbox, the mailbox row and the
    nameplates pointing at it; otherwise nothing *)
Lemma close_db_gone d a h side mood :
  DbInv d ->
  if close_deletes d a h side mood
  then exists mbrow, sel_mb d a h = Some mbrow /\
         gone np_same (nameplates d) (nameplates (close_db d a h side mood)) = sel_np_by_mbox d h /\
         gone mb_same (mailboxes d) (mailboxes (close_db d a h side mood)) = [mbrow]
  else gone np_same (nameplates d) (nameplates (close_db d a h side mood)) = [] /\
       gone mb_same (mailboxes d) (mailboxes (close_db d a h side mood)) = [].
Proof.
  intros Hinv. unfold close_deletes, close_db.
  destruct (sel_mb d a h) as [mbrow|] eqn:Emb;
    [|apply ids_kept_gone, ids_kept_refl].
  destruct (sel_mbs d h side) as [x|]; [|apply ids_kept_gone, ids_kept_refl].
  cbv zeta.
  destruct (existsb mbs_opened (sel_mbs_all (upd_mbs_close d h side mood) h)); cbn [negb].
  - apply ids_kept_gone. apply ids_kept_tables; reflexivity.
  - exists mbrow. split; [reflexivity|]. cbn [nameplates mailboxes upd_mbs_close set_mb_sides].
    apply sel_mb_some in Emb. destruct Emb as (Hr & _ & Ei). split.
    + rewrite np_same_unfold.
      rewrite (gone_filter_key np_id Z.eqb); [|apply Z.eqb_eq|apply inv_np_id; exact Hinv].
      unfold sel_np_by_mbox. apply filter_ext. intros n. apply negb_involutive.
    + rewrite mb_same_unfold.
      rewrite (gone_filter_key mb_id seqb); [|apply seqb_eq|apply inv_mb_id; exact Hinv].
      rewrite <- (filter_key_single mb_id seqb (mailboxes d) mbrow);
        [|apply seqb_eq|apply inv_mb_id; exact Hinv|exact Hr].
      apply filter_ext. intros r. rewrite negb_involutive, Ei. reflexivity.
Qed.

(** * Vocabulary: what an event retires *)

(** the well-formed close command an event is, if any:
    (app, mailbox, side, mood, fresh) -- [fresh]: the connection does not hold
    the mailbox, so the command opens it first *)
Definition ev_close (s : state) (e : event)
  : option (string * string * string * option string * bool) :=
  match e with
  | EB (ECmd c msg o) =>
      match lookup_conn c (conns s) with
      | Some cs =>
          match m_type msg, c_bound cs, closed_mbox cs msg with
          | Some TClose, Some (a, side), Some m =>
              if erroneous cs msg then None
              else Some (a, m, side, m_mood msg,
                         match c_mailbox cs with None => true | Some _ => false end)
          | _, _, _ => None
          end
      | None => None
      end
  | _ => None
  end.

(** the database in which the event finds what it retires *)
Definition ev_pre (s : state) (e : event) : chan_db :=
  match ev_close s e with
  | Some (a, m, side, _, true) => open_db (chan_w s) a m side (now s)
  | _ => chan_w s
  end.

(** the database from whose side rows the mailbox records are computed: a
    close records the closing side's mood first *)
Definition ev_mbdb (s : state) (e : event) : chan_db :=
  match ev_close s e with
  | Some (a, m, side, mood, _) => upd_mbs_close (ev_pre s e) m side mood
  | None => ev_pre s e
  end.

(** the instant of the retirements, and whether they are expiries *)
Definition ev_when (s : state) (e : event) : Z :=
  match e with
  | EB (EAdvance dt _) => now s + dt
  | _ => now s
  end.

Definition ev_pruned (e : event) : bool :=
  match e with
  | EB (ECmd _ _ _) => false
  | _ => true
  end.

Section WithConfig.
Variable cfg : config.
Hypothesis Hexp : 0 < exp cfg.

(** the rows an event retires: present before, [gone] after *)
Definition np_retired (s : state) (e : event) : list np_row :=
  gone np_same (nameplates (ev_pre s e)) (nameplates (chan_w (fst (step cfg s e)))).
Definition mb_retired (s : state) (e : event) : list mb_row :=
  gone mb_same (mailboxes (ev_pre s e)) (mailboxes (chan_w (fst (step cfg s e)))).

(** ... and their records *)
Definition np_records (s : state) (e : event) : list (option u_np_row) :=
  map (np_record cfg (ev_pre s e) (ev_when s e) (ev_pruned e)) (np_retired s e).
Definition mb_records (s : state) (e : event) : list u_mb_row :=
  map (mb_record cfg (ev_mbdb s e) (ev_when s e) (ev_pruned e)) (mb_retired s e).

(** over a history *)
Fixpoint np_retired_run (s : state) (h : list event) : list np_row :=
  match h with
  | [] => []
  | e :: h' => np_retired s e ++ np_retired_run (fst (step cfg s e)) h'
  end.
Fixpoint mb_retired_run (s : state) (h : list event) : list mb_row :=
  match h with
  | [] => []
  | e :: h' => mb_retired s e ++ mb_retired_run (fst (step cfg s e)) h'
  end.
Fixpoint np_records_run (s : state) (h : list event) : list (option u_np_row) :=
  match h with
  | [] => []
  | e :: h' => np_records s e ++ np_records_run (fst (step cfg s e)) h'
  end.
Fixpoint mb_records_run (s : state) (h : list event) : list u_mb_row :=
  match h with
  | [] => []
  | e :: h' => mb_records s e ++ mb_records_run (fst (step cfg s e)) h'
  end.

(** what one event does to the two tables *)
Definition ev_post (s : state) (e : event) : Prop :=
  let s' := fst (step cfg s e) in
  exists unps umbs,
    u_nameplates (usage_w s') = u_nameplates (usage_w s) ++ unps /\
    u_mailboxes (usage_w s') = u_mailboxes (usage_w s) ++ umbs /\
    Permutation (map Some unps) (np_records s e) /\
    Permutation umbs (mb_records s e).

Lemma ev_pre_none s e : ev_close s e = None -> ev_pre s e = chan_w s.
Proof. unfold ev_pre. intros ->. reflexivity. Qed.

(** an event that retires nothing and writes nothing *)
Lemma ev_post_quiet s e :
  ev_close s e = None ->
  u_nameplates (usage_w (fst (step cfg s e))) = u_nameplates (usage_w s) ->
  u_mailboxes (usage_w (fst (step cfg s e))) = u_mailboxes (usage_w s) ->
  ids_kept (chan_w s) (chan_w (fst (step cfg s e))) ->
  ev_post s e.
Proof.
  intros Hc E1 E2 Hk. unfold ev_post. cbv zeta. exists [], [].
  rewrite E1, E2, !app_nil_r. split; [reflexivity|]. split; [reflexivity|].
  unfold np_records, mb_records, np_retired, mb_retired. rewrite (ev_pre_none s e Hc).
  destruct (ids_kept_gone _ _ Hk) as [-> ->]. split; constructor.
Qed.

Lemma ev_close_not_close s c msg o :
  m_type msg <> Some TClose -> ev_close s (EB (ECmd c msg o)) = None.
Proof.
  intros H. unfold ev_close. destruct (lookup_conn c (conns s)); [|reflexivity].
  destruct (m_type msg) as [[]|]; try reflexivity. congruence.
Qed.

Lemma ev_close_erroneous s c cs msg o :
  lookup_conn c (conns s) = Some cs -> erroneous cs msg = true ->
  ev_close s (EB (ECmd c msg o)) = None.
Proof.
  intros Hl He. unfold ev_close. rewrite Hl, He.
  destruct (m_type msg) as [[]|]; try reflexivity.
  destruct (c_bound cs) as [[a side]|]; [|reflexivity].
  destruct (closed_mbox cs msg); reflexivity.
Qed.

Section UsageOn.
Hypothesis Husage : usage_on cfg = true.

(** a sweep (periodic, or by the clock), as an event *)
Lemma sweep_post s0 fault (s : state) e :
  SInv s0 -> log s0 = [] ->
  ev_close s e = None -> chan_w s0 = chan_w s -> usage_w s0 = usage_w s ->
  ev_when s e = now s0 -> ev_pruned e = true ->
  (forall s1, expire cfg fault s0 = Ok tt s1 ->
     chan_w (fst (step cfg s e)) = chan_w s1 /\ usage_w (fst (step cfg s e)) = usage_w s1) ->
  ev_post s e.
Proof using Hexp Husage.
  intros HS0 Hl0 Hc Ew Eu Et Ep Hstep.
  destruct (sweep_usage cfg Hexp Husage s0 fault HS0 Hl0) as (s1 & E & K). cbv zeta in K.
  destruct K as (_ & _ & _ & unps & umbs & En & Em & Pn & Pm).
  destruct (Hstep s1 E) as [Hw Hu].
  unfold ev_post. cbv zeta. exists unps, umbs.
  unfold np_records, mb_records, np_retired, mb_retired, ev_mbdb.
  rewrite (ev_pre_none s e Hc), Hc, Hw, Hu, Et, Ep, <- Ew, <- Eu.
  auto.
Qed.

(** a fresh close whose implicit open fails: the connection is dropped,
    nothing else changes *)
Lemma close_fresh_clash_full s c cs a side msg o m :
  SInv s -> log s = [] -> lookup_conn c (conns s) = Some cs -> c_bound cs = Some (a, side) ->
  c_mailbox cs = None -> m_type msg = Some TClose -> erroneous cs msg = false ->
  cmd_mbox cs msg = Some m -> pk_clash (chan_w s) a m ->
  chan_w (fst (step cfg s (EB (ECmd c msg o)))) = chan_w s /\
  usage_w (fst (step cfg s (EB (ECmd c msg o)))) = usage_w s.
Proof.
  intros Hinv Hlog Hl Hb Hmb Ht Herr Hcm Hclash.
  assert (Hdc : c_did_close cs = false /\ name_mismatch (m_mailbox msg) (c_mailbox_id cs) = false).
  { unfold erroneous in Herr. rewrite Ht, Hb in Herr. apply orb_false_iff in Herr. exact Herr. }
  destruct Hdc as [Hdc Hnm].
  rewrite (step_cmd cfg s c msg o TClose cs Hl Ht).
  set (s0 := set_log s [LFrame c (FAck (m_id msg)) (is_clean s) (now s)]).
  assert (Hc0 : conn_of s0 c = cs) by (unfold conn_of, s0; cbn [conns set_log]; rewrite Hl; reflexivity).
  rewrite (dispatch_bound cfg c TClose msg o s0 a side)
    by (try discriminate; rewrite Hc0; exact Hb).
  rewrite (handle_close_fresh_fail cfg c a side msg s0 cs m (chan_w s) Hl Hdc Hnm Hcm Hmb
             (pk_clash_fail _ _ _ side (now s) Hclash)).
  cbn [fst].
  destruct (MbFactsA.drop_conn_frame c (set_chan_w s0 (chan_w s))) as [Dw _].
  destruct (drop_conn_usage c (set_chan_w s0 (chan_w s))) as [Du _].
  cbn [chan_w usage_w set_log]. rewrite Dw, Du. split; reflexivity.
Qed.

(** a close, held or fresh, on database [d1] (the database after the implicit
    open, if any) *)
Lemma close_post s e a m side mood fresh d1 (s' : state) :
  DbInv d1 ->
  ev_close s e = Some (a, m, side, mood, fresh) -> ev_pre s e = d1 ->
  ev_when s e = now s -> ev_pruned e = false ->
  fst (step cfg s e) = s' ->
  chan_w s' = close_db d1 a m side mood ->
  (if close_deletes d1 a m side mood
   then exists mbrow unps,
          sel_mb d1 a m = Some mbrow /\
          map Some unps = map (np_record cfg d1 (now s) false) (sel_np_by_mbox d1 m) /\
          usage_w s' = uins_mb (fold_left uins_np unps (usage_w s))
                               (mb_record cfg (upd_mbs_close d1 m side mood) (now s) false mbrow)
   else usage_w s' = usage_w s) ->
  ev_post s e.
Proof.
  intros Hinv Hc Hpre Hw Hp Hs' Hd Hu.
  unfold ev_post. cbv zeta.
  unfold np_records, mb_records, np_retired, mb_retired, ev_mbdb.
  rewrite Hc, Hpre, Hw, Hp, Hs', Hd.
  pose proof (close_db_gone d1 a m side mood Hinv) as G.
  destruct (close_deletes d1 a m side mood).
  - destruct G as (mbrow & Emb & -> & ->).
    destruct Hu as (mbrow' & unps & Emb' & Hm & ->). rewrite Emb in Emb'. inversion Emb'; subst mbrow'.
    exists unps, [mb_record cfg (upd_mbs_close d1 m side mood) (now s) false mbrow].
    change (uins_mb ?u ?r) with (fold_left uins_mb [r] u). rewrite fold_uins.
    cbn [u_nameplates u_mailboxes]. split; [reflexivity|]. split; [reflexivity|].
    rewrite Hm. split; apply Permutation_refl.
  - destruct G as [-> ->]. rewrite Hu. exists [], []. rewrite !app_nil_r.
    split; [reflexivity|]. split; [reflexivity|]. split; constructor.
Qed.

Lemma step_cmd_ok s c msg o s1 :
  log s = [] -> has_conn c s = true -> on_message cfg c msg o s = Ok tt s1 ->
  fst (step cfg s (EB (ECmd c msg o))) = set_log s1 [].
Proof.
  intros Hlog Hc Hom. unfold step. rewrite (set_log_nil s Hlog). unfold step_b.
  rewrite Hc, Hom. reflexivity.
Qed.

(** * every command *)
Lemma cmd_post s c msg o :
  SInv s -> log s = [] -> ev_post s (EB (ECmd c msg o)).
Proof using Hexp Husage.
  intros HS Hlog.
  destruct (lookup_conn c (conns s)) as [cs|] eqn:Hlk.
  2:{ assert (E : fst (step cfg s (EB (ECmd c msg o))) = s).
      { unfold step. rewrite (set_log_nil s Hlog). unfold step_b, has_conn. rewrite Hlk.
        cbn [fst]. apply set_log_nil. exact Hlog. }
      apply ev_post_quiet; rewrite ?E; try reflexivity; [|apply ids_kept_refl].
      unfold ev_close. rewrite Hlk. reflexivity. }
  assert (Hhas : has_conn c s = true) by (unfold has_conn; rewrite Hlk; reflexivity).
  assert (Hco : conn_of s c = cs) by (unfold conn_of; rewrite Hlk; reflexivity).
  destruct (erroneous cs msg) eqn:Herr.
  { pose proof (erroneous_harmless cfg c msg o s) as Hom. rewrite Hco in Hom.
    specialize (Hom Herr).
    apply ev_post_quiet; rewrite ?(step_cmd_ok s c msg o _ Hlog Hhas Hom); try reflexivity;
      [|apply ids_kept_refl].
    exact (ev_close_erroneous s c cs msg o Hlk Herr). }
  (* commands other than release and close write nothing *)
  assert (Hq : m_type msg <> Some TRelease -> m_type msg <> Some TClose ->
               ids_kept (chan_w s) (chan_w (fst (step cfg s (EB (ECmd c msg o))))) ->
               ev_post s (EB (ECmd c msg o))).
  { intros Hnr Hnc Hk.
    pose proof (other_cmd_usage cfg Hexp Husage s c msg o HS Hlog Hhas Hnr Hnc) as U.
    apply ev_post_quiet; [apply ev_close_not_close; exact Hnc| | |exact Hk];
      destruct (step cfg s (EB (ECmd c msg o))) as [s' ob]; cbn [fst]; apply U. }
  pose proof Herr as He. unfold erroneous in He.
  destruct (m_type msg) as [t|] eqn:Et; [|discriminate].
  destruct t; cbv beta iota in He.
  - (* ping *)
    destruct (m_ping msg) as [v|] eqn:Ev; [|discriminate].
    apply Hq; try discriminate.
    rewrite (step_cmd_w cfg _ _ _ _ _ Hlog Hhas (ping_pong cfg c msg o s v Et Ev)).
    apply ids_kept_refl.
  - (* bind *)
    destruct (c_bound cs) eqn:Eb; [discriminate|].
    destruct (m_appid msg) as [a'|] eqn:Ea; [|discriminate].
    destruct (m_side msg) as [sd|] eqn:Esd; [|discriminate].
    assert (Eb' : c_bound (conn_of s c) = None) by (rewrite Hco; exact Eb).
    destruct (bind_effect cfg c msg o s a' sd Et Eb' Ea Esd) as (s1 & Hom & Hw & _).
    apply Hq; try discriminate.
    rewrite (step_cmd_w cfg _ _ _ _ _ Hlog Hhas Hom), Hw. apply ids_kept_refl.
  - (* list *)
    destruct (c_bound cs) as [[a' side']|] eqn:Eb; [|discriminate].
    assert (Eb' : c_bound (conn_of s c) = Some (a', side')) by (rewrite Hco; exact Eb).
    apply Hq; try discriminate.
    rewrite (step_cmd_w cfg _ _ _ _ _ Hlog Hhas (list_answer cfg c msg o s a' side' Et Eb')).
    apply ids_kept_refl.
  - (* allocate *)
    destruct (c_bound cs) as [[a' side']|] eqn:Eb; [|discriminate].
    apply Hq; try discriminate.
    pose proof (allocate_full cfg s c cs a' side' msg o HS Hlog Hlk Eb Et Herr) as T.
    destruct (step cfg s (EB (ECmd c msg o))) as [s' ob]. cbn [fst] in *. cbv zeta in T.
    destruct T as (_ & G & _). apply ids_kept_grows. exact G.
  - (* claim *)
    destruct (c_bound cs) as [[a' side']|] eqn:Eb; [|discriminate].
    destruct (m_nameplate msg) as [n'|] eqn:En; [|discriminate].
    apply Hq; try discriminate.
    pose proof (claim_outcome cfg s c cs a' side' msg o n' HS Hlog Hlk Eb Et Herr En) as T.
    destruct (step cfg s (EB (ECmd c msg o))) as [s' ob]. cbn [fst] in *. cbv zeta in T.
    destruct T as (_ & [(_ & _ & E & _)|[(_ & _ & E & _)|(_ & G & _)]]).
    + apply ids_kept_eq; exact E.
    + apply ids_kept_eq; exact E.
    + apply ids_kept_grows; exact G.
  - (* release *)
    clear Hq.
    destruct (c_bound cs) as [[a' side']|] eqn:Eb; [|discriminate].
    apply orb_false_elim in He. destruct He as [Hdr Hmm].
    assert (Hn' : exists n', cmd_nameplate cs msg = Some n').
    { unfold cmd_nameplate, name_mismatch in *. destruct (m_nameplate msg); [eauto|].
      destruct (c_nameplate_id cs); [eauto|discriminate]. }
    destruct Hn' as [n' Hn'].
    pose proof (release_effect cfg s c cs a' side' msg o n' HS Hlog Hlk Eb Et Herr Hn') as T.
    pose proof (release_usage cfg Hexp Husage s c cs a' side' msg o n' HS Hlog Hlk Eb Et Herr Hn') as U.
    assert (Hc : ev_close s (EB (ECmd c msg o)) = None)
      by (apply ev_close_not_close; rewrite Et; discriminate).
    unfold ev_post, np_records, mb_records, np_retired, mb_retired, ev_mbdb.
    rewrite Hc, (ev_pre_none _ _ Hc). cbv zeta. cbn [ev_when ev_pruned].
    destruct (step cfg s (EB (ECmd c msg o))) as [s' ob]. cbn [fst] in *. cbv zeta in T, U.
    destruct T as (_ & _ & _ & _ & R1 & _ & _ & _ & R).
    destruct U as (_ & U).
    rewrite R1, (gone_same mb_same) by (intros x; apply seqb_refl).
    assert (Hnone : usage_w s' = usage_w s ->
                    nameplates (chan_w s') = nameplates (chan_w s) ->
                    exists unps umbs,
                      u_nameplates (usage_w s') = u_nameplates (usage_w s) ++ unps /\
                      u_mailboxes (usage_w s') = u_mailboxes (usage_w s) ++ umbs /\
                      Permutation (map Some unps)
                        (map (np_record cfg (chan_w s) (now s) false)
                             (gone np_same (nameplates (chan_w s)) (nameplates (chan_w s')))) /\
                      Permutation umbs (map (mb_record cfg (chan_w s) (now s) false) [])).
    { intros -> ->. exists [], []. rewrite !app_nil_r.
      rewrite (gone_same np_same) by (intros x; apply Z.eqb_refl).
      split; [reflexivity|]. split; [reflexivity|]. split; constructor. }
    destruct (sel_np (chan_w s) a' n') as [np|] eqn:Enp;
      [|apply Hnone; [exact U|rewrite R; reflexivity]].
    destruct (sel_nps (chan_w s) (np_id np) side');
      [|apply Hnone; [exact U|rewrite R; reflexivity]].
    destruct (existsb _ _); [apply Hnone; [exact U|rewrite R; reflexivity]|].
    destruct R as [Rn _]. destruct U as (u & Eu & ->).
    exists [u], []. unfold uins_np. cbn [u_nameplates u_mailboxes]. rewrite app_nil_r.
    split; [reflexivity|]. split; [reflexivity|]. split; [|constructor].
    rewrite Rn, np_same_unfold.
    rewrite (gone_filter_key np_id Z.eqb);
      [|apply Z.eqb_eq|apply inv_np_id; exact (si_db s HS)].
    apply sel_np_some in Enp. destruct Enp as (Hin & _).
    rewrite (filter_ext _ (fun x => np_id x =? np_id np))
      by (intros x; apply negb_involutive).
    rewrite (filter_key_single np_id Z.eqb (nameplates (chan_w s)) np);
      [|apply Z.eqb_eq|apply inv_np_id; exact (si_db s HS)|exact Hin].
    cbn [map]. rewrite Eu. apply Permutation_refl.
  - (* open *)
    destruct (c_bound cs) as [[a' side']|] eqn:Eb; [|discriminate].
    destruct (c_mailbox cs) eqn:Em; [discriminate|].
    destruct (m_mailbox msg) as [m'|] eqn:Emm; [|discriminate].
    apply Hq; try discriminate.
    pose proof (open_outcome cfg s c cs a' side' msg o m' HS Hlog Hlk Eb Et Herr Emm) as T.
    destruct (step cfg s (EB (ECmd c msg o))) as [s' ob]. cbn [fst] in *. cbv zeta in T.
    destruct T as (_ & [(_ & _ & E & _)|(_ & E & _)]); rewrite E.
    + apply ids_kept_refl.
    + apply ids_kept_open.
  - (* add *)
    destruct (c_bound cs) as [[a' side']|] eqn:Eb; [|discriminate].
    destruct (c_mailbox cs) as [m'|] eqn:Em; [|discriminate].
    destruct (m_phase msg) as [ph|] eqn:Eph; [|discriminate].
    destruct (m_body msg) as [bd|] eqn:Ebd; [|discriminate].
    apply Hq; try discriminate.
    pose proof (add_effect cfg s c cs a' side' msg o m' ph bd HS Hlog Hlk Eb Em Et Eph Ebd) as T.
    cbv zeta in T.
    destruct (step cfg s (EB (ECmd c msg o))) as [s' ob]. cbn [fst] in *.
    destruct T as (_ & _ & E & _). rewrite E. apply ids_kept_add.
  - (* close *)
    clear Hq.
    destruct (c_bound cs) as [[a' side']|] eqn:Eb; [|discriminate].
    destruct (c_mailbox cs) as [h|] eqn:Em.
    + (* the connection holds h *)
      pose proof (close_held_effect cfg s c cs a' side' msg o h HS Hlog Hlk Eb Em Et Herr) as T.
      pose proof (close_usage cfg Hexp Husage s c cs a' side' msg o h HS Hlog Hlk Eb Em Et Herr) as U.
      assert (Hc : ev_close s (EB (ECmd c msg o)) = Some (a', h, side', m_mood msg, false)).
      { unfold ev_close, closed_mbox. rewrite Hlk, Et, Eb, Em, Herr. reflexivity. }
      destruct (step cfg s (EB (ECmd c msg o))) as [s' ob] eqn:Est. cbv zeta in T, U.
      destruct T as (_ & _ & E & _). destruct U as (_ & U).
      apply (close_post s _ a' h side' (m_mood msg) false (chan_w s) s' (si_db s HS) Hc);
        [unfold ev_pre; rewrite Hc; reflexivity|reflexivity|reflexivity|
         rewrite Est; reflexivity|exact E|exact U].
    + (* it holds none: open, then close *)
      apply orb_false_elim in He. destruct He as [Hdc Hmm].
      assert (Hm' : exists m', cmd_mbox cs msg = Some m').
      { unfold cmd_mbox, name_mismatch in *. destruct (m_mailbox msg); [eauto|].
        destruct (c_mailbox_id cs); [eauto|discriminate]. }
      destruct Hm' as [m' Hm'].
      assert (Hc : ev_close s (EB (ECmd c msg o)) = Some (a', m', side', m_mood msg, true)).
      { unfold ev_close, closed_mbox. rewrite Hlk, Et, Eb, Em, Hm', Herr. reflexivity. }
      assert (Hpre : ev_pre s (EB (ECmd c msg o)) = open_db (chan_w s) a' m' side' (now s))
        by (unfold ev_pre; rewrite Hc; reflexivity).
      (* an event that leaves [d'] with every id of the opened database *)
      assert (Hnone : forall s', fst (step cfg s (EB (ECmd c msg o))) = s' ->
                 usage_w s' = usage_w s ->
                 ids_kept (open_db (chan_w s) a' m' side' (now s)) (chan_w s') ->
                 ev_post s (EB (ECmd c msg o))).
      { intros s' Es' Hu Hk. unfold ev_post. cbv zeta.
        unfold np_records, mb_records, np_retired, mb_retired. rewrite Hpre, Es', Hu.
        destruct (ids_kept_gone _ _ Hk) as [-> ->]. exists [], []. rewrite !app_nil_r.
        split; [reflexivity|]. split; [reflexivity|]. split; constructor. }
      destruct (cl_open_body_eval (chan_w s) a' m' side' (now s)) as [[_ Hclash]|Hok].
      { (* the id exists under another app: nothing changes *)
        destruct (close_fresh_clash_full s c cs a' side' msg o m' HS Hlog Hlk Eb Em Et Herr Hm' Hclash)
          as [Ew Eu].
        apply (Hnone _ eq_refl Eu). rewrite Ew. apply open_db_clash_ids. apply Hclash. }
      assert (Hinv1 : DbInv (open_db (chan_w s) a' m' side' (now s))).
      { pose proof (open_body_ok (chan_w s) a' m' side' (now s) (si_db s HS)) as Hob.
        rewrite Hok in Hob. apply Hob. }
      pose proof (close_fresh_outcome cfg s c cs a' side' msg o m' HS Hlog Hlk Eb Em Et Herr Hm') as T.
      pose proof (close_fresh_usage cfg Hexp Husage s c cs a' side' msg o m' HS Hlog Hlk Eb Em Et Herr Hm') as U.
      destruct (step cfg s (EB (ECmd c msg o))) as [s' ob] eqn:Est. cbv zeta in T, U.
      destruct U as (_ & U).
      destruct T as (_ & [(_ & _ & _ & Hcl)|[(Hx & Hlen & _ & E & _)|(Hx & Hlen & _ & E & _)]]).
      * exfalso. rewrite (pk_clash_fail _ _ _ side' (now s) Hcl) in Hok. discriminate.
      * assert (El : (Datatypes.length (sel_mbs_all (open_db (chan_w s) a' m' side' (now s)) m') <=? 2)%nat
                     = false) by (apply Nat.leb_gt; exact Hlen).
        rewrite El, andb_false_r in U. cbn [andb] in U.
        apply (Hnone s'); [reflexivity|exact U|rewrite E; apply ids_kept_refl].
      * assert (El : (Datatypes.length (sel_mbs_all (open_db (chan_w s) a' m' side' (now s)) m') <=? 2)%nat
                     = true) by (apply Nat.leb_le; exact Hlen).
        rewrite Hx, El in U. cbn [andb] in U.
        apply (close_post s _ a' m' side' (m_mood msg) true _ s' Hinv1 Hc Hpre);
          [reflexivity|reflexivity|rewrite Est; reflexivity|exact E|exact U].
  - (* unknown type *)
    destruct (c_bound cs); discriminate.
Qed.

(** * every crash-free event: the records appended to the two tables are
    exactly (a permutation of) the records of the rows the event retires *)
Theorem event_usage s e :
  SInv s -> log s = [] -> not_crash e -> ev_post s e.
Proof using Hexp Husage.
  intros HS Hlog Hnc.
  destruct e as [b|k b|]; [|destruct Hnc|].
  - destruct b as [c|c msg o|c|fault|dt fault].
    + (* connect *)
      destruct (conn_events_usage cfg Hexp Husage s (EB (EConnect c)) HS Hlog) as [Eu _];
        [exists c; left; reflexivity|].
      apply ev_post_quiet; [reflexivity|rewrite Eu; reflexivity|rewrite Eu; reflexivity|].
      apply ids_kept_eq. unfold step, step_b. destruct (has_conn c (set_log s [])); reflexivity.
    + exact (cmd_post s c msg o HS Hlog).
    + (* disconnect *)
      destruct (conn_events_usage cfg Hexp Husage s (EB (EDisconnect c)) HS Hlog) as [Eu _];
        [exists c; right; reflexivity|].
      apply ev_post_quiet; [reflexivity|rewrite Eu; reflexivity|rewrite Eu; reflexivity|].
      apply ids_kept_eq. unfold step, step_b. destruct (has_conn c (set_log s [])); [|reflexivity].
      cbn [fst chan_w set_log]. apply (MbFactsA.drop_conn_frame c (set_log s [])).
    + (* sweep *)
      apply (sweep_post s fault s _ HS Hlog); try reflexivity.
      intros s1 E. unfold step. rewrite (set_log_nil s Hlog). unfold step_b, run_m. rewrite E.
      split; reflexivity.
    + (* the clock advances *)
      assert (Hsame : fst (step cfg s (EB (EAdvance dt fault))) = s \/
                      fst (step cfg s (EB (EAdvance dt fault))) = set_now s (now s + dt) ->
                      ev_post s (EB (EAdvance dt fault))).
      { intros E. apply ev_post_quiet; [reflexivity| | |];
          destruct E as [-> | ->]; try reflexivity; apply ids_kept_refl. }
      assert (Est : step cfg s (EB (EAdvance dt fault)) =
                    let '(s1, valid, x) := step_b cfg s (EAdvance dt fault) in
                    (set_log s1 [], mkObs valid (rev (log s1)) x []))
        by (unfold step; rewrite (set_log_nil s Hlog); reflexivity).
      unfold step_b in Est.
      destruct (dt <? 0) eqn:Edt.
      { apply Hsame. left. rewrite Est. cbn [fst]. apply set_log_nil. exact Hlog. }
      cbv zeta in Est. set (s1 := set_now s (now s + dt)) in *.
      destruct (next_due s1 <=? now s1) eqn:Edue.
      2:{ apply Hsame. right. rewrite Est. cbn [fst]. apply set_log_nil. exact Hlog. }
      apply (sweep_post s1 fault s _ (SInv_set_now s _ HS) Hlog); try reflexivity.
      intros s2 E. rewrite Est. unfold run_m. rewrite E. split; reflexivity.
  - (* restart *)
    destruct (restart_usage cfg Hexp Husage s HS Hlog) as (_ & _ & _ & unps & umbs & K).
    exists unps, umbs. exact K.
Qed.

(** * whole histories *)

Lemma init_usage t0 :
  u_nameplates (usage_w (init cfg t0)) = [] /\ u_mailboxes (usage_w (init cfg t0)) = [].
Proof using Hexp Husage.
  unfold init. rewrite boot_on_eq.
  set (s0 := mkState empty_chan empty_chan empty_usage empty_usage [] [] t0 t0 t0 (t0 + period cfg) []).
  assert (HS0 : SInv s0) by (apply SInv_boot, DbInv_empty).
  destruct (sweep_usage cfg Hexp Husage s0 false HS0 eq_refl) as (s1 & E & K). cbv zeta in K.
  rewrite E. cbn [fst usage_w set_log].
  destruct K as (_ & _ & _ & unps & umbs & En & Em & Pn & Pm).
  cbn [chan_w s0 empty_chan nameplates mailboxes gone filter map] in Pn, Pm.
  apply Permutation_sym, Permutation_nil in Pn. apply Permutation_sym, Permutation_nil in Pm.
  apply map_eq_nil in Pn. subst unps umbs. rewrite En, Em. split; reflexivity.
Qed.

Lemma run_usage h : forall s,
  SInv s -> log s = [] -> Forall not_crash h ->
  let sf := fst (run cfg s h) in
  exists unps umbs,
    u_nameplates (usage_w sf) = u_nameplates (usage_w s) ++ unps /\
    u_mailboxes (usage_w sf) = u_mailboxes (usage_w s) ++ umbs /\
    Permutation (map Some unps) (np_records_run s h) /\
    Permutation umbs (mb_records_run s h).
Proof using Hexp Husage.
  induction h as [|e h IH]; intros s HS Hlog Hh; cbn [run np_records_run mb_records_run].
  - exists [], []. rewrite !app_nil_r. cbn [fst]. repeat split; constructor.
  - inversion Hh as [|? ? He Hh']; subst.
    destruct (event_usage s e HS Hlog He) as (u1 & m1 & En1 & Em1 & Pn1 & Pm1).
    destruct (step_SInv cfg Hexp s e HS) as [HS1 Hl1].
    specialize (IH (fst (step cfg s e)) HS1 Hl1 Hh').
    destruct (step cfg s e) as [s1 o1]. cbn [fst] in *.
    destruct (run cfg s1 h) as [s2 os]. cbn [fst] in *.
    destruct IH as (u2 & m2 & En2 & Em2 & Pn2 & Pm2).
    exists (u1 ++ u2), (m1 ++ m2).
    rewrite En2, Em2, En1, Em1, <- !app_assoc, map_app.
    split; [reflexivity|]. split; [reflexivity|].
    split; apply Permutation_app; assumption.
Qed.

(** C15, history level: after every crash-free history from the initial
    state, the nameplate table of the usage database is (a permutation of) the
    records of the nameplates retired, event by event, and the mailbox table
    (a permutation of) the records of the mailboxes retired; everything is
    committed *)
Theorem usage_run t0 h :
  Forall not_crash h ->
  let s0 := init cfg t0 in
  let sf := fst (run cfg s0 h) in
  Permutation (map Some (u_nameplates (usage_w sf))) (np_records_run s0 h) /\
  Permutation (u_mailboxes (usage_w sf)) (mb_records_run s0 h) /\
  usage_c sf = usage_w sf.
Proof using Hexp Husage.
  intros Hh. cbv zeta.
  destruct (init_spec cfg Hexp t0) as [HS0 Hl0].
  destruct (run_usage h (init cfg t0) HS0 Hl0 Hh) as (unps & umbs & En & Em & Pn & Pm).
  destruct (init_usage t0) as [E1 E2]. rewrite E1 in En. rewrite E2 in Em. cbn [app] in En, Em.
  rewrite En, Em. split; [exact Pn|]. split; [exact Pm|].
  destruct (run_spec cfg Hexp (init cfg t0) h HS0) as [HSf _].
  symmetry. apply (si_clean _ HSf).
Qed.

Lemma records_run_length s h :
  List.length (np_records_run s h) = List.length (np_retired_run s h) /\
  List.length (mb_records_run s h) = List.length (mb_retired_run s h).
Proof.
  revert s. induction h as [|e h IH]; intros s; cbn [np_records_run mb_records_run np_retired_run mb_retired_run];
    [split; reflexivity|].
  destruct (IH (fst (step cfg s e))) as [I1 I2].
  unfold np_records, mb_records. rewrite !app_length, !map_length, I1, I2. split; reflexivity.
Qed.

(** as many records as retirements (incarnations, not names: a name or id
    retired, created again and retired again is two retirements), and every
    nameplate record is defined *)
Corollary usage_run_count t0 h :
  Forall not_crash h ->
  let s0 := init cfg t0 in
  let sf := fst (run cfg s0 h) in
  List.length (u_nameplates (usage_w sf)) = List.length (np_retired_run s0 h) /\
  List.length (u_mailboxes (usage_w sf)) = List.length (mb_retired_run s0 h) /\
  (forall r, In r (np_records_run s0 h) -> r <> None).
Proof using Hexp Husage.
  intros Hh. cbv zeta. destruct (usage_run t0 h Hh) as (Pn & Pm & _). cbv zeta in Pn, Pm.
  destruct (records_run_length (init cfg t0) h) as [L1 L2].
  split; [|split].
  - rewrite <- L1, <- (Permutation_length Pn), map_length. reflexivity.
  - rewrite <- L2, <- (Permutation_length Pm). reflexivity.
  - intros r Hr. apply (Permutation_in _ (Permutation_sym Pn)) in Hr.
    apply in_map_iff in Hr. destruct Hr as (u & <- & _). discriminate.
Qed.

End UsageOn.

(** * what "retired" means *)

(** a retired row was present (for a fresh close: after the implicit open) *)
Lemma retired_present s e :
  (forall r, In r (mb_retired s e) -> In r (mailboxes (ev_pre s e))) /\
  (forall n, In n (np_retired s e) -> In n (nameplates (ev_pre s e))).
Proof.
  unfold mb_retired, np_retired. split; intros x Hx; apply gone_In in Hx; apply Hx.
Qed.

(** ... and no row with its id is left: rows that are still there were not
    retired and contribute no record *)
Lemma retired_not_alive s e :
  let d' := chan_w (fst (step cfg s e)) in
  (forall r r', In r (mb_retired s e) -> In r' (mailboxes d') -> mb_id r' <> mb_id r) /\
  (forall n n', In n (np_retired s e) -> In n' (nameplates d') -> np_id n' <> np_id n).
Proof.
  cbv zeta. unfold mb_retired, np_retired. split; intros x y Hx Hy E; apply gone_In in Hx;
    destruct Hx as [_ Hx]; specialize (Hx y Hy).
  - unfold mb_same in Hx. rewrite E, seqb_refl in Hx. discriminate.
  - unfold np_same in Hx. rewrite E, Z.eqb_refl in Hx. discriminate.
Qed.

(** [ev_close] is MbStable's [close_by] *)
Lemma ev_close_inv s e a m side mood fresh :
  ev_close s e = Some (a, m, side, mood, fresh) ->
  exists c cs msg o,
    e = EB (ECmd c msg o) /\ lookup_conn c (conns s) = Some cs /\
    c_bound cs = Some (a, side) /\ m_type msg = Some TClose /\ erroneous cs msg = false /\
    closed_mbox cs msg = Some m /\ mood = m_mood msg /\
    fresh = match c_mailbox cs with None => true | Some _ => false end.
Proof.
  unfold ev_close. destruct e as [[c|c msg o|c|f|dt f]|k b|]; try discriminate.
  destruct (lookup_conn c (conns s)) as [cs|] eqn:Hlk; [|discriminate].
  destruct (m_type msg) as [[]|] eqn:Et; try discriminate.
  destruct (c_bound cs) as [[a0 side0]|] eqn:Eb; [|discriminate].
  destruct (closed_mbox cs msg) as [m0|] eqn:Em; [|discriminate].
  destruct (erroneous cs msg) eqn:Herr; [discriminate|].
  intros H. inversion H; subst. exists c, cs, msg, o. auto 10.
Qed.

Lemma ev_close_close_by s e a m side :
  (exists mood fresh, ev_close s e = Some (a, m, side, mood, fresh)) <-> close_by s e a m side.
Proof.
  split.
  - intros (mood & fresh & H). apply ev_close_inv in H.
    destruct H as (c & cs & msg & o & -> & Hl & Hb & Ht & He & Hm & _).
    exists c, cs, msg, o. auto 10.
  - intros (c & cs & msg & o & -> & Hl & Hb & Ht & He & Hm).
    unfold ev_close. rewrite Hl, Ht, Hb, Hm, He. eauto.
Qed.

(** the database in which an event finds its retirements is well-formed --
    except for a fresh close whose implicit open fails, which retires nothing *)
Lemma ev_pre_inv s e :
  SInv s -> log s = [] ->
  DbInv (ev_pre s e) \/ (mb_retired s e = [] /\ np_retired s e = []).
Proof using Hexp.
  intros HS Hlog. unfold mb_retired, np_retired, ev_pre.
  destruct (ev_close s e) as [[[[[a m] side] mood] fresh]|] eqn:Hc; [|left; exact (si_db s HS)].
  destruct fresh; [|left; exact (si_db s HS)].
  apply ev_close_inv in Hc.
  destruct Hc as (c & cs & msg & o & -> & Hl & Hb & Ht & He & Hm & _ & Hf).
  destruct (c_mailbox cs) eqn:Em; [discriminate|].
  unfold closed_mbox in Hm. rewrite Em in Hm.
  destruct (cl_open_body_eval (chan_w s) a m side (now s)) as [[_ Hclash]|Hok].
  - right. rewrite (close_fresh_clash cfg s c cs a side msg o m HS Hlog Hl Hb Em Ht He Hm Hclash).
    destruct (ids_kept_gone _ _ (open_db_clash_ids (chan_w s) a m side (now s) (proj1 Hclash)))
      as [-> ->]. split; reflexivity.
  - left. pose proof (open_body_ok (chan_w s) a m side (now s) (si_db s HS)) as Hob.
    rewrite Hok in Hob. apply Hob.
Qed.

(** one event retires an id at most once *)
Lemma retired_nodup s e :
  SInv s -> log s = [] ->
  NoDup (map mb_id (mb_retired s e)) /\ NoDup (map np_id (np_retired s e)).
Proof using Hexp.
  intros HS Hlog. destruct (ev_pre_inv s e HS Hlog) as [Hinv|[-> ->]]; [|split; constructor].
  unfold mb_retired, np_retired, gone. split; apply NoDup_map_filter.
  - apply inv_mb_id. exact Hinv.
  - apply inv_np_id. exact Hinv.
Qed.

(** * without a usage database *)
Section UsageOff.
Hypothesis Hoff : usage_on cfg = false.

Lemma upres_stop_listeners a m : upres (stop_listeners a m).
Proof. intros s. split; reflexivity. Qed.

Lemma upres_handle_bind_off c msg : upres (handle_bind cfg c msg).
Proof. unfold handle_bind, log_client_version. rewrite Hoff. repeat upres_step. Qed.

Lemma upres_release_nameplate_off a n side w : upres (release_nameplate cfg a n side w).
Proof. unfold release_nameplate. rewrite Hoff. repeat upres_step. Qed.

Lemma upres_mailbox_close_off a m side mood w : upres (mailbox_close cfg a m side mood w).
Proof.
  unfold mailbox_close. rewrite Hoff.
  repeat first [apply upres_stop_listeners | upres_step].
Qed.

Lemma upres_handle_release_off c a side msg : upres (handle_release cfg c a side msg).
Proof.
  unfold handle_release.
  repeat first [apply upres_release_nameplate_off | upres_step].
Qed.

Lemma upres_handle_close_off c a side msg : upres (handle_close cfg c a side msg).
Proof.
  unfold handle_close.
  repeat first [apply upres_mailbox_close_off | apply upres_catch_crowded, upres_open_mailbox
               | upres_step].
Qed.

Lemma upres_on_message_off c msg o : upres (on_message cfg c msg o).
Proof.
  unfold on_message. apply upres_try_catch.
  - destruct (m_type msg) as [t|]; [|apply upres_err].
    apply upres_bind; [apply upres_send|]. intros _.
    destruct t; try (apply upres_dispatch; discriminate).
    + apply upres_handle_bind_off.
    + unfold dispatch. apply upres_bind; [apply upres_get_conn|]. intros cs.
      destruct (c_bound cs) as [[a side]|]; [apply upres_handle_release_off|apply upres_err].
    + unfold dispatch. apply upres_bind; [apply upres_get_conn|]. intros cs.
      destruct (c_bound cs) as [[a side]|]; [apply upres_handle_close_off|apply upres_err].
  - intros e. destruct e; try apply upres_raise. apply upres_send.
Qed.

(** no crash-free event touches the usage database *)
Theorem event_usage_off s e :
  SInv s -> not_crash e -> usame s (fst (step cfg s e)).
Proof using Hexp Hoff.
  intros HS Hnc. destruct e as [b|k b|]; [|destruct Hnc|].
  - unfold step. set (s0 := set_log s []).
    assert (H0 : usame s s0) by (split; reflexivity).
    assert (Hb : usame s0 (fst (fst (step_b cfg s0 b)))).
    { destruct b as [c|c msg o|c|fault|dt fault]; unfold step_b.
      - destruct (has_conn c s0); [apply usame_refl|]. split; reflexivity.
      - destruct (has_conn c s0); [|apply usame_refl].
        pose proof (upres_on_message_off c msg o s0) as H.
        destruct (on_message cfg c msg o s0) as [u s'|x s']; cbn [fst]; [exact H|].
        eapply usame_trans; [exact H|apply drop_conn_usage].
      - destruct (has_conn c s0); [|apply usame_refl]. apply drop_conn_usage.
      - unfold run_m. pose proof (upres_expire_off cfg fault Hoff s0) as H.
        destruct (expire cfg fault s0); exact H.
      - destruct (dt <? 0); [apply usame_refl|]. cbv zeta.
        set (s1 := set_now s0 (now s0 + dt)).
        destruct (next_due s1 <=? now s1); [|split; reflexivity].
        unfold run_m. pose proof (upres_expire_off cfg fault Hoff s1) as H.
        destruct (expire cfg fault s1) as [u s2|x s2]; cbn [fst]; destruct H as [H1 H2];
          split; cbn [usage_w usage_c set_next_due]; assumption. }
    destruct (step_b cfg s0 b) as [[s1 valid] x]. cbn [fst] in *.
    destruct Hb as [B1 B2]. split; cbn [usage_w usage_c set_log]; [rewrite B1|rewrite B2]; apply H0.
  - exact (restart_usage_off cfg Hexp s Hoff HS).
Qed.

(** C15 without a usage database: nothing is ever recorded *)
Theorem usage_off_run t0 h :
  Forall not_crash h ->
  let sf := fst (run cfg (init cfg t0) h) in
  usage_w sf = empty_usage /\ usage_c sf = empty_usage.
Proof using Hexp Hoff.
  intros Hh. cbv zeta.
  destruct (init_spec cfg Hexp t0) as [HS0 _].
  assert (H0 : usage_w (init cfg t0) = empty_usage /\ usage_c (init cfg t0) = empty_usage).
  { unfold init. rewrite boot_on_eq.
    set (s0 := mkState empty_chan empty_chan empty_usage empty_usage [] [] t0 t0 t0 (t0 + period cfg) []).
    pose proof (upres_expire_off cfg false Hoff s0) as H.
    destruct (expire cfg false s0); cbn [fst usage_w usage_c set_log]; exact H. }
  revert HS0 H0. generalize (init cfg t0). induction h as [|e h IH]; intros s HS [E1 E2]; cbn [run].
  - split; assumption.
  - inversion Hh as [|? ? He Hh']; subst.
    destruct (event_usage_off s e HS He) as [U1 U2].
    destruct (step_SInv cfg Hexp s e HS) as [HS1 _].
    specialize (IH Hh' (fst (step cfg s e)) HS1).
    destruct (step cfg s e) as [s1 o1]. cbn [fst] in *.
    destruct (run cfg s1 h) as [s2 os]. cbn [fst] in *.
    apply IH. split; congruence.
Qed.

End UsageOff.
End WithConfig.

(** * non-vacuity (computed).  Side s1 claims nameplate "7" and releases it 5
    ticks later (retirement by release); opens mailbox "mm" and closes it
    (retirement by close); a connection that never opened "zz" closes it (a
    transient mailbox, created and retired inside the command); the timer
    firing at 162 prunes the mailbox the claim had created (expiry); later
    side s2 claims "7" again -- a second incarnation -- and opens "late";
    the next timer firing fails, and the restart at 282 prunes that nameplate,
    its mailbox and "late" (expiry by a restart's start-up sweep) *)
Definition ur_cfg : config := mkCfg true true (Some 10) 100 50 (mkWelcome None None None).
Lemma ur_exp : 0 < exp ur_cfg.
Proof. reflexivity. Qed.
Definition ur_o0 : oracle := mkOracle None (mkAO None []).
Definition ur_o1 : oracle := mkOracle (Some "AAAAAAAA") (mkAO None []).
Definition ur_o2 : oracle := mkOracle (Some "BBBBBBBB") (mkAO None []).
Definition ur_bind (side : string) : command :=
  mkCmd (Some TBind) None (Some "a") (Some side) None None None None None None None.
Definition ur_claim : command :=
  mkCmd (Some TClaim) None None None (Some "7") None None None None None None.
Definition ur_release : command :=
  mkCmd (Some TRelease) None None None (Some "7") None None None None None None.
Definition ur_open (m : string) : command :=
  mkCmd (Some TOpen) None None None None (Some m) None None None None None.
Definition ur_close (m : option string) (mood : string) : command :=
  mkCmd (Some TClose) None None None None m None None (Some mood) None None.
Definition ur_hist : list event :=
  [EB (EConnect 1); EB (ECmd 1 (ur_bind "s1") ur_o0); EB (ECmd 1 ur_claim ur_o1);
   EB (EAdvance 5 false);
   EB (ECmd 1 ur_release ur_o0);                       (* release: nameplate "7" *)
   EB (ECmd 1 (ur_open "mm") ur_o0);
   EB (EAdvance 7 false);
   EB (ECmd 1 (ur_close None "happy") ur_o0);          (* close: mailbox "mm" *)
   EB (EConnect 3); EB (ECmd 3 (ur_bind "s3") ur_o0);
   EB (ECmd 3 (ur_close (Some "zz") "scary") ur_o0);   (* fresh close: transient "zz" *)
   EB (EAdvance 150 false);                            (* expiry: the claim's mailbox *)
   EB (EConnect 2); EB (ECmd 2 (ur_bind "s2") ur_o0); EB (ECmd 2 ur_claim ur_o2);
   EB (ECmd 2 (ur_open "late") ur_o0);
   EB (EDisconnect 2);
   EB (EAdvance 120 true);
   ERestart].                                          (* restart: "7" again, its mailbox, "late" *)

(** retirements (nameplates, mailboxes) event by event *)
Fixpoint ur_counts (s : state) (h : list event) : list (nat * nat) :=
  match h with
  | [] => []
  | e :: h' => (List.length (np_retired ur_cfg s e), List.length (mb_retired ur_cfg s e))
               :: ur_counts (fst (step ur_cfg s e)) h'
  end.

Example usage_run_nonvacuous :
  let s0 := init ur_cfg 0 in
  let sf := fst (run ur_cfg s0 ur_hist) in
  Forall not_crash ur_hist /\
  ur_counts s0 ur_hist =
    [(0,0); (0,0); (0,0); (0,0); (1,0); (0,0); (0,0); (0,1); (0,0); (0,0); (0,1); (0,1);
     (0,0); (0,0); (0,0); (0,0); (0,0); (0,0); (1,2)]%nat /\
  map np_name (np_retired_run ur_cfg s0 ur_hist) = ["7"; "7"] /\
  map mb_id (mb_retired_run ur_cfg s0 ur_hist) = ["mm"; "zz"; "ifaucqkbifauc"; "ijbeeqscijbee"; "late"] /\
  np_records_run ur_cfg s0 ur_hist = map Some (u_nameplates (usage_w sf)) /\
  mb_records_run ur_cfg s0 ur_hist = u_mailboxes (usage_w sf) /\
  u_nameplates (usage_w sf) =
    [mkUNp "a" 0 None 5 "lonely"; mkUNp "a" 160 None 120 "pruney"] /\
  u_mailboxes (usage_w sf) =
    [mkUMb "a" false 0 7 None "lonely"; mkUMb "a" false 10 0 None "scary";
     mkUMb "a" true 0 162 None "pruney"; mkUMb "a" true 160 120 None "pruney";
     mkUMb "a" false 160 120 None "pruney"] /\
  nameplates (chan_w sf) = [] /\ mailboxes (chan_w sf) = [].
Proof.
  cbv zeta. split; [repeat constructor|]. vm_compute. repeat split; reflexivity.
Qed.

Print Assumptions event_usage.
Print Assumptions usage_run.
Print Assumptions usage_run_count.
Print Assumptions retired_present.
Print Assumptions retired_not_alive.
Print Assumptions retired_nodup.
Print Assumptions ev_close_close_by.
Print Assumptions event_usage_off.
Print Assumptions usage_off_run.
Print Assumptions usage_run_nonvacuous.
