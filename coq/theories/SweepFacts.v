(** SweepFacts.v -- C12 / C13: the exact effect of an expiry sweep
    (server_tap.expire -> Server.prune_all_apps -> AppNamespace.prune ->
    dump_stats) on the channel database, for any well-formed state. *)
From MW Require Import Base Store Monad Usage Server Websocket Service
     Inv UsageFacts StoreFacts Hoare DbFactsA DbFactsB OpFacts.
Local Open Scope list_scope.

(** some connection is subscribed to mailbox (a, m) *)
Definition listened (s : state) (a m : string) : Prop := exists c, In (a, m, c) (subs s).

(** row [x] of a dependent table hangs off a surviving mailbox *)
Definition mb_alive (d : chan_db) (m : string) : Prop := exists r, In r (mailboxes d) /\ mb_id r = m.

(** * Auxiliary: lists *)

Lemma nil_of_none {A} (l : list A) : (forall x, ~ In x l) -> l = [].
Proof.
  destruct l as [|x l]; [reflexivity|]. intros H. exfalso. apply (H x). left. reflexivity.
Qed.

Lemma sinsert_In x a l : In x (sinsert a l) <-> x = a \/ In x l.
Proof.
  induction l as [|y l IH]; cbn [sinsert].
  - cbn. intuition.
  - destruct (String.leb a y); cbn [In].
    + intuition.
    + rewrite IH. intuition.
Qed.

Lemma ssort_In x l : In x (ssort l) <-> In x l.
Proof.
  induction l as [|y l IH]; cbn [ssort fold_right]; [tauto|].
  change (fold_right sinsert [] l) with (ssort l).
  rewrite sinsert_In, IH. cbn [In]. intuition.
Qed.

(** * Auxiliary: subscriptions as a list *)

Definition lis (S : list (string * string * nat)) (a m : string) : Prop :=
  exists c, In (a, m, c) S.

Lemma lis_dec S a m : lis S a m \/ ~ lis S a m.
Proof.
  induction S as [|[[a' m'] c'] S IH].
  - right. intros [c []].
  - destruct IH as [[c Hc]|Hn]; [left; exists c; right; exact Hc|].
    destruct (string_dec a' a) as [Ha|Ha]; [destruct (string_dec m' m) as [Hm|Hm]|].
    + left. exists c'. left. subst. reflexivity.
    + right. intros [c [Hc|Hc]]; [inversion Hc; contradiction|apply Hn; exists c; exact Hc].
    + right. intros [c [Hc|Hc]]; [inversion Hc; contradiction|apply Hn; exists c; exact Hc].
Qed.

Lemma listened_mailboxes_In a m l : In m (listened_mailboxes a l) <-> lis l a m.
Proof.
  split.
  - intros H. unfold listened_mailboxes in H. apply (proj1 (sdedup_In _ _)) in H.
    apply in_map_iff in H.
    destruct H as [[[a' m'] c] [E H]]. apply filter_In in H. destruct H as [H Ha].
    cbn in E, Ha. apply seqb_eq in Ha. subst. exists c. exact H.
  - intros [c H]. apply listened_In with c. exact H.
Qed.

(** * Auxiliary: iterated deletion, exactly *)

Lemma rm_nps_nameplates ids : forall d n,
  In n (nameplates (fold_left rm_np ids d)) <-> In n (nameplates d) /\ ~ In (np_id n) ids.
Proof.
  induction ids as [|i rest IH]; intros d n; cbn [fold_left In]; [tauto|].
  rewrite IH. unfold rm_np at 1. cbn [nameplates]. rewrite filter_In, negb_true_iff, Z.eqb_neq.
  intuition.
Qed.

Lemma rm_nps_sides ids : forall d x,
  In x (np_sides (fold_left rm_np ids d)) <-> In x (np_sides d) /\ ~ In (nps_npid x) ids.
Proof.
  induction ids as [|i rest IH]; intros d x; cbn [fold_left In]; [tauto|].
  rewrite IH. unfold rm_np at 1. cbn [np_sides]. rewrite filter_In, negb_true_iff, Z.eqb_neq.
  intuition.
Qed.

Lemma rm_nps_frame ids : forall d,
  mailboxes (fold_left rm_np ids d) = mailboxes d /\
  mb_sides (fold_left rm_np ids d) = mb_sides d /\
  messages (fold_left rm_np ids d) = messages d /\
  np_seq (fold_left rm_np ids d) = np_seq d.
Proof.
  induction ids as [|i rest IH]; intros d; cbn [fold_left]; [auto|].
  destruct (IH (rm_np d i)) as (H1 & H2 & H3 & H4). rewrite H1, H2, H3, H4. auto.
Qed.

Lemma rm_mbs_mailboxes ms : forall d r,
  In r (mailboxes (fold_left rm_mb ms d)) <-> In r (mailboxes d) /\ ~ In (mb_id r) ms.
Proof.
  induction ms as [|m rest IH]; intros d r; cbn [fold_left In]; [tauto|].
  rewrite IH. unfold rm_mb at 1. cbn [mailboxes]. rewrite filter_In, negb_true_iff, seqb_neq.
  intuition.
Qed.

Lemma rm_mbs_sides ms : forall d x,
  In x (mb_sides (fold_left rm_mb ms d)) <-> In x (mb_sides d) /\ ~ In (mbs_mbox x) ms.
Proof.
  induction ms as [|m rest IH]; intros d x; cbn [fold_left In]; [tauto|].
  rewrite IH. unfold rm_mb at 1. cbn [mb_sides]. rewrite filter_In, negb_true_iff, seqb_neq.
  intuition.
Qed.

Lemma rm_mbs_messages ms : forall d x,
  In x (messages (fold_left rm_mb ms d)) <-> In x (messages d) /\ ~ In (msg_mbox x) ms.
Proof.
  induction ms as [|m rest IH]; intros d x; cbn [fold_left In]; [tauto|].
  rewrite IH. unfold rm_mb at 1. cbn [messages]. rewrite filter_In, negb_true_iff, seqb_neq.
  intuition.
Qed.

Lemma rm_mbs_frame ms : forall d,
  nameplates (fold_left rm_mb ms d) = nameplates d /\
  np_sides (fold_left rm_mb ms d) = np_sides d /\
  np_seq (fold_left rm_mb ms d) = np_seq d.
Proof.
  induction ms as [|m rest IH]; intros d; cbn [fold_left]; [auto|].
  destruct (IH (rm_mb d m)) as (H1 & H2 & H3). rewrite H1, H2, H3. auto.
Qed.

(** * Auxiliary: touching, exactly *)

Definition touch_row (w : Z) (r : mb_row) : mb_row := mkMb (mb_app r) (mb_id r) w (mb_fornp r).

Lemma touch_all_exact ms when : forall d,
  touch_all d ms when =
  set_mailboxes d (map (fun r => if smem (mb_id r) ms then touch_row when r else r) (mailboxes d)).
Proof.
  induction ms as [|m rest IH]; intros d; cbn [touch_all].
  - cbn [smem]. rewrite map_id. destruct d; reflexivity.
  - rewrite IH. unfold upd_touch, set_mailboxes.
    cbn [nameplates np_sides mailboxes mb_sides messages np_seq].
    rewrite map_map. f_equal. apply map_ext. intros r. cbn [smem].
    destruct (seqb (mb_id r) m) eqn:E; unfold touch_row; cbn.
    + destruct (smem (mb_id r) rest); reflexivity.
    + reflexivity.
Qed.

Lemma touch_all_mailboxes ms when d r :
  In r (mailboxes (touch_all d ms when)) <->
  exists r0, In r0 (mailboxes d) /\ r = if smem (mb_id r0) ms then touch_row when r0 else r0.
Proof.
  rewrite touch_all_exact. cbn [set_mailboxes mailboxes]. rewrite in_map_iff.
  split; intros (r0 & H1 & H2); exists r0; split; auto.
Qed.

(** * The effect of pruning a list of apps, relative to the starting database *)

Definition deps (d d' : chan_db) : Prop :=
  (forall n, In n (nameplates d') <-> In n (nameplates d) /\ mb_alive d' (np_mbox n)) /\
  (forall x, In x (np_sides d') <->
             In x (np_sides d) /\ exists n, In n (nameplates d') /\ np_id n = nps_npid x) /\
  (forall x, In x (mb_sides d') <-> In x (mb_sides d) /\ mb_alive d' (mbs_mbox x)) /\
  (forall x, In x (messages d') <-> In x (messages d) /\ mb_alive d' (msg_mbox x)) /\
  np_seq d' = np_seq d.

Definition mbs_step (S : list (string * string * nat)) (apps : list string) (when old : Z)
           (d d' : chan_db) : Prop :=
  forall r, In r (mailboxes d') <->
    (In r (mailboxes d) /\ ~ In (mb_app r) apps) \/
    (In r (mailboxes d) /\ In (mb_app r) apps /\ ~ lis S (mb_app r) (mb_id r) /\
     old < mb_updated r) \/
    (exists r0, In r0 (mailboxes d) /\ In (mb_app r0) apps /\ lis S (mb_app r0) (mb_id r0) /\
                r = touch_row when r0).

Definition apps_step S apps when old d d' : Prop :=
  mbs_step S apps when old d d' /\ deps d d'.

Lemma deps_refl d : DbInv d -> deps d d.
Proof.
  intros Hinv. unfold deps, mb_alive. split; [|split; [|split; [|split]]].
  - intros n. split; [|tauto]. intros Hn. split; [exact Hn|].
    destruct (inv_fk_np d Hinv n Hn) as (r & Hr & _ & Ei). exists r. auto.
  - intros x. split; [|tauto]. intros Hx. split; [exact Hx|exact (inv_fk_nps d Hinv x Hx)].
  - intros x. split; [|tauto]. intros Hx. split; [exact Hx|exact (inv_fk_mbs d Hinv x Hx)].
  - intros x. split; [|tauto]. intros Hx. split; [exact Hx|].
    destruct (inv_msg d Hinv x Hx) as (r & Hr & _ & Ei). exists r. auto.
  - reflexivity.
Qed.

Lemma deps_trans d0 d1 d2 :
  deps d0 d1 -> deps d1 d2 -> (forall m, mb_alive d2 m -> mb_alive d1 m) -> deps d0 d2.
Proof.
  intros (A1 & A2 & A3 & A4 & A5) (B1 & B2 & B3 & B4 & B5) Hal.
  split; [|split; [|split; [|split]]].
  - intros n. rewrite (B1 n), (A1 n). split; [tauto|]. intros [Hn Ha].
    split; [split; [exact Hn|apply Hal; exact Ha]|exact Ha].
  - intros x. rewrite (B2 x), (A2 x). split; [tauto|]. intros [Hx (n & Hn & En)].
    split; [split; [exact Hx|]|].
    + exists n. split; [|exact En]. apply B1 in Hn. tauto.
    + exists n. split; [exact Hn|exact En].
  - intros x. rewrite (B3 x), (A3 x). split; [tauto|]. intros [Hx Ha].
    split; [split; [exact Hx|apply Hal; exact Ha]|exact Ha].
  - intros x. rewrite (B4 x), (A4 x). split; [tauto|]. intros [Hx Ha].
    split; [split; [exact Hx|apply Hal; exact Ha]|exact Ha].
  - congruence.
Qed.

Lemma mbs_step_alive S apps when old d d' m :
  mbs_step S apps when old d d' -> mb_alive d' m -> mb_alive d m.
Proof.
  intros H (r & Hr & Ei). apply H in Hr.
  destruct Hr as [[Hr _]|[(Hr & _)|(r0 & Hr0 & _ & _ & Er)]].
  - exists r. auto.
  - exists r. auto.
  - exists r0. split; [exact Hr0|]. subst r. exact Ei.
Qed.

Lemma mbs_step_nil S when old d : mbs_step S [] when old d d.
Proof.
  intros r. split.
  - intros Hr. left. split; [exact Hr|]. intros [].
  - intros [[Hr _]|[(_ & [] & _)|(r0 & _ & [] & _)]]. exact Hr.
Qed.

Lemma mbs_step_app S l1 l2 when old d0 d1 d2 :
  mbs_step S l1 when old d0 d1 -> mbs_step S l2 when old d1 d2 ->
  mbs_step S (l1 ++ l2) when old d0 d2.
Proof.
  intros H1 H2 r. split.
  - intros Hr. apply H2 in Hr.
    destruct Hr as [[Hr Hn2]|[(Hr & Hp2 & HnL & Ho)|(r1 & Hr1 & Hp2 & HL & Er)]].
    + apply H1 in Hr.
      destruct Hr as [[Hr Hn1]|[(Hr & Hp1 & HnL & Ho)|(r0 & Hr0 & Hp1 & HL & Er)]].
      * left. split; [exact Hr|]. rewrite in_app_iff. tauto.
      * right; left. split; [exact Hr|]. split; [apply in_or_app; left; exact Hp1|]. tauto.
      * right; right. exists r0. split; [exact Hr0|].
        split; [apply in_or_app; left; exact Hp1|]. tauto.
    + apply H1 in Hr.
      destruct Hr as [[Hr Hn1]|[(Hr & Hp1 & _ & _)|(r0 & Hr0 & Hp1 & HL & Er)]].
      * right; left. split; [exact Hr|]. split; [apply in_or_app; right; exact Hp2|]. tauto.
      * right; left. split; [exact Hr|]. split; [apply in_or_app; right; exact Hp2|]. tauto.
      * exfalso. apply HnL. subst r. exact HL.
    + apply H1 in Hr1.
      destruct Hr1 as [[Hr1 Hn1]|[(Hr1 & Hp1 & HnL & Ho)|(r0 & Hr0 & Hp1 & HL0 & Er1)]].
      * right; right. exists r1. split; [exact Hr1|].
        split; [apply in_or_app; right; exact Hp2|]. tauto.
      * contradiction.
      * right; right. exists r0. split; [exact Hr0|].
        split; [apply in_or_app; left; exact Hp1|]. split; [exact HL0|].
        subst r1 r. reflexivity.
  - intros [[Hr Hn]|[(Hr & Hp & HnL & Ho)|(r0 & Hr0 & Hp & HL & Er)]].
    + rewrite in_app_iff in Hn. apply H2. left. split; [apply H1; left; tauto|tauto].
    + assert (Hr1 : In r (mailboxes d1)).
      { apply H1. destruct (in_dec string_dec (mb_app r) l1) as [Hi|Hi];
          [right; left; auto|left; auto]. }
      apply H2. destruct (in_dec string_dec (mb_app r) l2) as [Hi|Hi];
        [right; left; auto|left; auto].
    + apply in_app_iff in Hp. destruct (in_dec string_dec (mb_app r0) l1) as [Hi1|Hi1].
      * assert (Hr1 : In r (mailboxes d1)).
        { apply H1. right; right. exists r0. auto. }
        apply H2. destruct (in_dec string_dec (mb_app r0) l2) as [Hi2|Hi2].
        -- right; right. exists r. split; [exact Hr1|]. subst r.
           split; [exact Hi2|]. split; [exact HL|reflexivity].
        -- left. split; [exact Hr1|]. subst r. exact Hi2.
      * destruct Hp as [Hp|Hp]; [contradiction|]. apply H2. right; right. exists r0.
        split; [apply H1; left; auto|auto].
Qed.

Lemma apps_step_nil S when old d : DbInv d -> apps_step S [] when old d d.
Proof. intros H. split; [apply mbs_step_nil|apply deps_refl; exact H]. Qed.

Lemma apps_step_app S l1 l2 when old d0 d1 d2 :
  apps_step S l1 when old d0 d1 -> apps_step S l2 when old d1 d2 ->
  apps_step S (l1 ++ l2) when old d0 d2.
Proof.
  intros [M1 D1] [M2 D2]. split; [eapply mbs_step_app; eauto|].
  apply (deps_trans d0 d1 d2 D1 D2). intros m. apply (mbs_step_alive _ _ _ _ _ _ _ M2).
Qed.

Lemma SInv_set_now s t : SInv s -> SInv (set_now s t).
Proof. intros [H1 H2 H3 H4 H5 H6]. constructor; assumption. Qed.

Definition subs_live (s : state) : Prop :=
  forall a m, lis (subs s) a m -> has_mb (chan_w s) a m.

Lemma SInv_subs_live s : SInv s -> subs_live s.
Proof.
  intros H a m [c Hc]. destruct (si_subs s H (a, m, c) Hc) as [Hmb _]. exact Hmb.
Qed.

Section WithConfig.
Variable cfg : config.
Hypothesis Hexp : 0 < exp cfg.

Lemma del_nps_exact a when pruned : forall ids d acc,
  DbInv d -> NoDup ids -> (forall i, In i ids -> np_exists d i = true) ->
  exists us, del_nameplates_body cfg d a ids when pruned acc = TxOk us (fold_left rm_np ids d).
Proof.
  induction ids as [|i rest IH]; intros d acc Hinv Hnd Hex.
  - exists acc. reflexivity.
  - inversion Hnd as [|? ? Hnin Hnd']; subst.
    assert (Hrec : forall acc', exists us,
      del_nameplates_body cfg (rm_np d i) a rest when pruned acc' =
      TxOk us (fold_left rm_np rest (rm_np d i))).
    { intros acc'. apply IH; [apply rm_np_inv; exact Hinv|exact Hnd'|].
      intros j Hj. apply np_exists_rm_np; [apply Hex; now right|].
      intros Eq. subst j. contradiction. }
    cbn [del_nameplates_body fold_left]. rewrite del_np_rm.
    destruct (usage_on cfg).
    + destruct (summarize_nameplate (blur cfg) a (sel_nps_all d i) when pruned) as [u|] eqn:Es.
      * apply Hrec.
      * exfalso. apply nameplate_summary_none in Es.
        apply (np_sided_rows d i Hinv); [apply Hex; now left|exact Es].
    + apply Hrec.
Qed.

Lemma del_mbs_exact a when : forall rows d acc,
  (forall x n, In x rows -> In n (nameplates d) -> np_mbox n <> mb_id x) ->
  exists us, del_mailboxes_body cfg d a rows when acc =
             TxOk us (fold_left rm_mb (map mb_id rows) d).
Proof.
  induction rows as [|r rest IH]; intros d acc Hnp.
  - exists acc. reflexivity.
  - assert (Hr : forall n, In n (nameplates d) -> np_mbox n <> mb_id r).
    { intros n Hn. apply Hnp; [now left|exact Hn]. }
    cbn [del_mailboxes_body map fold_left]. rewrite (del_mailbox_body_rm _ _ _ _ _ _ _ _ Hr).
    apply IH. intros x n Hx Hn. apply Hnp; [now right|exact Hn].
Qed.

(** one app's prune transaction, exactly (set level) *)
Lemma prune_body_char d a when old :
  DbInv d ->
  exists modified unps umbs d',
    prune_body cfg d a when old = TxOk (modified, unps, umbs) d' /\
    (forall r, In r (mailboxes d') <->
               In r (mailboxes d) /\ (mb_app r <> a \/ old < mb_updated r)) /\
    (forall n, In n (nameplates d') <-> In n (nameplates d) /\ mb_alive d' (np_mbox n)) /\
    (forall x, In x (np_sides d') <->
               In x (np_sides d) /\ exists n, In n (nameplates d') /\ np_id n = nps_npid x) /\
    (forall x, In x (mb_sides d') <-> In x (mb_sides d) /\ mb_alive d' (mbs_mbox x)) /\
    (forall x, In x (messages d') <-> In x (messages d) /\ mb_alive d' (msg_mbox x)) /\
    np_seq d' = np_seq d.
Proof using Hexp.
  (* [using Hexp]: same closed signature (cfg, Hexp, ...) as every other theorem of this
     section and as the admitted statement in wip/SweepFacts.v *)
  intros Hinv. unfold prune_body. cbv zeta.
  set (oldm := old_mailboxes d a old). set (oldn := old_nameplates d a old).
  set (ids := map np_id oldn).
  assert (Hold : forall x, In x oldm <->
                           In x (mailboxes d) /\ mb_app x = a /\ ~ old < mb_updated x).
  { intros x. unfold oldm, old_mailboxes.
    rewrite filter_In, sel_mbs_of_app_In, negb_true_iff, Z.ltb_nlt. tauto. }
  assert (K1 : forall r, In r (mailboxes d) ->
                         (In (mb_id r) (map mb_id oldm) <-> mb_app r = a /\ ~ old < mb_updated r)).
  { intros r Hr. split.
    - intros H. apply in_map_iff in H. destruct H as [x [Ex Hx]]. apply Hold in Hx.
      destruct Hx as (Hx & Ha & Ho).
      assert (Exr : x = r).
      { apply (NoDup_map_inj mb_id (mailboxes d));
          [apply inv_mb_id; exact Hinv|exact Hx|exact Hr|exact Ex]. }
      subst x. auto.
    - intros [Ha Ho]. apply in_map. apply Hold. auto. }
  assert (K2 : forall n, In n (nameplates d) ->
                         (In (np_id n) ids <-> In (np_mbox n) (map mb_id oldm))).
  { intros n Hn. split.
    - intros H. apply in_map_iff in H. destruct H as [n0 [En Hn0]].
      unfold oldn, old_nameplates in Hn0. apply filter_In in Hn0. destruct Hn0 as [Hn0 Hm].
      apply sel_nps_of_app_In in Hn0. destruct Hn0 as [Hn0 _].
      assert (Enn : n0 = n).
      { apply (NoDup_map_inj np_id (nameplates d));
          [apply inv_np_id; exact Hinv|exact Hn0|exact Hn|exact En]. }
      subst n0. apply smem_In in Hm. exact Hm.
    - intros H. destruct (inv_fk_np d Hinv n Hn) as (r & Hr & Ea & Ei).
      rewrite <- Ei in H. pose proof (proj1 (K1 r Hr) H) as [Ha Ho].
      apply in_map. unfold oldn, old_nameplates. apply filter_In. split.
      + apply sel_nps_of_app_In. split; [exact Hn|congruence].
      + apply smem_In. rewrite <- Ei. exact H. }
  destruct (del_nps_exact a when true ids d [] Hinv) as [unps E1].
  { unfold ids, oldn, old_nameplates, sel_nps_of_app. do 2 apply NoDup_map_filter.
    apply inv_np_id. exact Hinv. }
  { intros i Hi. apply in_map_iff in Hi. destruct Hi as [n [En Hn]].
    unfold oldn, old_nameplates in Hn. apply filter_In in Hn. destruct Hn as [Hn _].
    apply sel_nps_of_app_In in Hn. apply np_exists_iff. exists n. tauto. }
  destruct (rm_nps_frame ids d) as (F1 & F2 & F3 & F4).
  pose proof (rm_nps_nameplates ids d) as N1. pose proof (rm_nps_sides ids d) as N2.
  set (d1 := fold_left rm_np ids d) in *.
  destruct (del_mbs_exact a when oldm d1 []) as [umbs E2].
  { intros x n Hx Hn Em. apply N1 in Hn. destruct Hn as [Hn Hnot]. apply Hnot.
    apply (K2 n Hn). rewrite Em. apply in_map. exact Hx. }
  destruct (rm_mbs_frame (map mb_id oldm) d1) as (G1 & G2 & G3).
  pose proof (rm_mbs_mailboxes (map mb_id oldm) d1) as M1.
  pose proof (rm_mbs_sides (map mb_id oldm) d1) as M2.
  pose proof (rm_mbs_messages (map mb_id oldm) d1) as M3.
  set (ms := map mb_id oldm) in *.
  set (d2 := fold_left rm_mb ms d1) in *.
  rewrite E1, E2.
  exists (match oldn, oldm with [], [] => false | _, _ => true end), unps, umbs, d2.
  split; [reflexivity|].
  assert (Alive : forall m, mb_alive d2 m <->
                            (exists r, In r (mailboxes d) /\ mb_id r = m) /\ ~ In m ms).
  { intros m. unfold mb_alive. split.
    - intros (r & Hr & Ei). apply M1 in Hr. rewrite F1 in Hr. destruct Hr as [Hr Hn].
      split; [exists r; auto|]. rewrite <- Ei. exact Hn.
    - intros [(r & Hr & Ei) Hn]. exists r. split; [|exact Ei]. apply M1. rewrite F1.
      split; [exact Hr|]. rewrite Ei. exact Hn. }
  split; [|split; [|split; [|split; [|split]]]].
  - intros r. rewrite (M1 r), F1. split.
    + intros [Hr Hn]. split; [exact Hr|].
      destruct (string_dec (mb_app r) a) as [Ha|Ha]; [|left; exact Ha].
      destruct (Z_lt_dec old (mb_updated r)) as [Ho|Ho]; [right; exact Ho|].
      exfalso. apply Hn. apply (K1 r Hr). auto.
    + intros [Hr Hc]. split; [exact Hr|]. intros H. apply (K1 r Hr) in H.
      destruct H as [Ha Ho]. destruct Hc; contradiction.
  - intros n. rewrite G1, (N1 n). split.
    + intros [Hn Hni]. split; [exact Hn|]. apply Alive. split.
      * destruct (inv_fk_np d Hinv n Hn) as (r & Hr & _ & Ei). exists r. auto.
      * intros H. apply Hni. apply (K2 n Hn). exact H.
    + intros [Hn Ha]. split; [exact Hn|]. apply Alive in Ha. destruct Ha as [_ Hnm].
      intros H. apply Hnm. apply (K2 n Hn). exact H.
  - intros x. rewrite G2, (N2 x). split.
    + intros [Hx Hni]. split; [exact Hx|].
      destruct (inv_fk_nps d Hinv x Hx) as (n & Hn & En). exists n. split; [|exact En].
      rewrite G1. apply N1. split; [exact Hn|]. rewrite En. exact Hni.
    + intros [Hx (n & Hn & En)]. split; [exact Hx|]. rewrite G1 in Hn. apply N1 in Hn.
      destruct Hn as [_ Hni]. rewrite <- En. exact Hni.
  - intros x. rewrite (M2 x), F2. split.
    + intros [Hx Hn]. split; [exact Hx|]. apply Alive. split; [|exact Hn].
      destruct (inv_fk_mbs d Hinv x Hx) as (r & Hr & Ei). exists r. auto.
    + intros [Hx Ha]. split; [exact Hx|]. apply Alive in Ha. tauto.
  - intros x. rewrite (M3 x), F3. split.
    + intros [Hx Hn]. split; [exact Hx|]. apply Alive. split; [|exact Hn].
      destruct (inv_msg d Hinv x Hx) as (r & Hr & _ & Ei). exists r. auto.
    + intros [Hx Ha]. split; [exact Hx|]. apply Alive in Ha. tauto.
  - rewrite G3, F4. reflexivity.
Qed.

(** * One app: the touch commit followed by the prune transaction *)

Lemma prune_step_db S a when old d :
  DbInv d -> (forall m, lis S a m -> has_mb d a m) -> old < when ->
  exists mo u1 u2 d',
    prune_body cfg (touch_all d (listened_mailboxes a S) when) a when old =
      TxOk (mo, u1, u2) d' /\
    apps_step S [a] when old d d'.
Proof.
  intros Hinv Hlive Hlt.
  destruct (touch_all_ok d (listened_mailboxes a S) when Hinv) as (Hinv1 & _).
  destruct (prune_body_char (touch_all d (listened_mailboxes a S) when) a when old Hinv1)
    as (mo & u1 & u2 & d' & E & Hmb & Hnp & Hnps & Hmbs & Hmsg & Hseq).
  exists mo, u1, u2, d'. split; [exact E|].
  rewrite touch_all_exact in Hnp, Hnps, Hmbs, Hmsg, Hseq.
  cbn [set_mailboxes nameplates np_sides mb_sides messages np_seq] in Hnp, Hnps, Hmbs, Hmsg, Hseq.
  assert (Key : forall r0, In r0 (mailboxes d) ->
            (smem (mb_id r0) (listened_mailboxes a S) = true <->
             mb_app r0 = a /\ lis S a (mb_id r0))).
  { intros r0 Hr0. rewrite smem_In, listened_mailboxes_In. split; [|tauto].
    intros HL. split; [|exact HL]. destruct (Hlive _ HL) as (r' & Hr' & Ea & Ei).
    assert (Er : r' = r0).
    { apply (NoDup_map_inj mb_id (mailboxes d));
        [apply inv_mb_id; exact Hinv|exact Hr'|exact Hr0|exact Ei]. }
    subst r'. exact Ea. }
  split; [|unfold deps; auto].
  intros r. rewrite (Hmb r), touch_all_mailboxes. split.
  - intros [(r0 & Hr0 & Er) Hc].
    destruct (smem (mb_id r0) (listened_mailboxes a S)) eqn:Es.
    + apply (Key r0 Hr0) in Es. destruct Es as [Ea HL]. right; right. exists r0.
      split; [exact Hr0|]. rewrite Ea. split; [left; reflexivity|]. split; [exact HL|exact Er].
    + subst r.
      assert (Hn : ~ (mb_app r0 = a /\ lis S a (mb_id r0))).
      { intros H. apply (Key r0 Hr0) in H. congruence. }
      destruct (string_dec (mb_app r0) a) as [Ea|Ea].
      * right; left. split; [exact Hr0|]. rewrite Ea. split; [left; reflexivity|].
        split; [tauto|]. destruct Hc as [Hc|Hc]; [contradiction|exact Hc].
      * left. split; [exact Hr0|]. intros [H|[]]. apply Ea. symmetry. exact H.
  - intros [[Hr Hn]|[(Hr & Hp & HnL & Ho)|(r0 & Hr0 & Hp & HL & Er)]].
    + assert (Ea : mb_app r <> a) by (intros H; apply Hn; left; symmetry; exact H).
      split; [|left; exact Ea]. exists r. split; [exact Hr|].
      destruct (smem (mb_id r) (listened_mailboxes a S)) eqn:Es; [|reflexivity].
      apply (Key r Hr) in Es. tauto.
    + destruct Hp as [Hp|[]]. split; [|right; exact Ho]. exists r. split; [exact Hr|].
      destruct (smem (mb_id r) (listened_mailboxes a S)) eqn:Es; [|reflexivity].
      apply (Key r Hr) in Es. destruct Es as [_ HL]. exfalso. apply HnL. rewrite <- Hp. exact HL.
    + destruct Hp as [Hp|[]].
      assert (Es : smem (mb_id r0) (listened_mailboxes a S) = true).
      { apply (Key r0 Hr0). split; [auto|rewrite Hp; exact HL]. }
      split.
      * exists r0. split; [exact Hr0|]. rewrite Es. exact Er.
      * right. subst r. exact Hlt.
Qed.

Lemma prune_app_db a when old s :
  DbInv (chan_w s) ->
  wp (prune_app cfg a when old)
     (fun _ s' => exists mo u1 u2,
        prune_body cfg (touch_all (chan_w s) (listened_mailboxes a (subs s)) when) a when old =
        TxOk (mo, u1, u2) (chan_w s'))
     (fun _ _ => True) s.
Proof.
  intros Hdb. unfold prune_app.
  destruct (touch_all_ok (chan_w s) (listened_mailboxes a (subs s)) when Hdb) as (Hdb1 & _).
  wp_step. wp_step. wp_step. wp_step. cbv beta iota.
  wp_step. wp_step. wp_step. wp_step. cbn [chan_w set_chan_w].
  set (d1 := touch_all (chan_w s) (listened_mailboxes a (subs s)) when) in *.
  destruct (prune_body_ok cfg d1 a when old Hdb1)
    as (modified & unps & umbs & d2 & E & _).
  rewrite E. cbv beta iota.
  wp_step. destruct modified.
  - destruct (usage_on cfg).
    + unfold write_usage. wp_step. wp_step. wp_step. wp_step.
      exists true, unps, umbs. reflexivity.
    + wp_step. wp_step. wp_step. wp_step. exists true, unps, umbs. reflexivity.
  - destruct (usage_on cfg).
    + unfold write_usage. wp_step. wp_step. exists false, unps, umbs. reflexivity.
    + wp_step. wp_step. exists false, unps, umbs. reflexivity.
Qed.

Lemma prune_app_char a when old s :
  RInv s -> clean s -> old < when -> subs_live s ->
  wp (prune_app cfg a when old)
     (fun _ s' => good s s' /\ subs_live s' /\
                  apps_step (subs s) [a] when old (chan_w s) (chan_w s'))
     (fun _ _ => False) s.
Proof.
  intros HR HC Hlt Hlive.
  pose proof (wp_and _ _ _ _ _ _ (prune_app_spec cfg a when old s HR HC Hlt)
                (prune_app_db a when old s (proj1 HR))) as H.
  eapply wp_conseq; [exact H| |].
  - intros [] s' [[G K] (mo & u1 & u2 & E)]. split; [exact G|]. split.
    + intros a' m [c Hc]. destruct G as (_ & _ & (Es & _)). rewrite Es in Hc.
      apply (K a' m c Hc). apply Hlive. exists c. exact Hc.
    + destruct (prune_step_db (subs s) a when old (chan_w s) (proj1 HR) (Hlive a) Hlt)
        as (mo' & u1' & u2' & d' & E' & A).
      assert (Ed : d' = chan_w s') by congruence.
      rewrite <- Ed. exact A.
  - intros e s' [[] _].
Qed.

Lemma prune_apps_char apps when old :
  old < when -> forall s, RInv s -> clean s -> subs_live s ->
  wp (prune_apps cfg apps when old)
     (fun _ s' => good s s' /\ subs_live s' /\
                  apps_step (subs s) apps when old (chan_w s) (chan_w s'))
     (fun _ _ => False) s.
Proof.
  intros Hlt. induction apps as [|a rest IH]; intros s HR HC Hlive; cbn [prune_apps].
  - wp_step. split; [apply good_refl; assumption|]. split; [exact Hlive|].
    apply apps_step_nil. apply HR.
  - wp_step. eapply wp_conseq; [exact (prune_app_char a when old s HR HC Hlt Hlive)| |].
    + intros [] s1 (G1 & L1 & A1).
      eapply wp_conseq; [exact (IH s1 (proj1 G1) (proj1 (proj2 G1)) L1)| |].
      * intros [] s2 (G2 & L2 & A2). split; [eapply good_trans; eauto|]. split; [exact L2|].
        assert (Es : subs s1 = subs s) by (destruct G1 as (_ & _ & (Es & _)); exact Es).
        rewrite Es in A2. exact (apps_step_app _ [a] rest _ _ _ _ _ A1 A2).
      * intros e s' [].
    + intros e s' [].
Qed.

(** * The whole sweep *)

Lemma expire_spec fault s :
  SInv s -> log s = [] ->
  wp (expire cfg fault)
     (fun _ s' => good s s' /\
        if fault then chan_w s' = chan_w s
        else apps_step (subs s) (ssort (sel_all_apps (chan_w s))) (now s) (now s - exp cfg)
                       (chan_w s) (chan_w s'))
     (fun _ _ => False) s.
Proof.
  intros HS Hlog.
  assert (HR : RInv s). { split; [apply (si_db s HS)|rewrite Hlog; constructor]. }
  pose proof (si_clean s HS) as HC.
  unfold expire. wp_step. wp_step. wp_step. destruct fault.
  - wp_step. eapply wp_conseq; [exact (dump_stats_spec cfg (now s) (boot s) s HR HC)| |].
    + intros [] s' [G E]. split; assumption.
    + intros e s' [].
  - wp_step. unfold prune_all_apps. wp_step. wp_step.
    eapply wp_conseq;
      [apply (prune_apps_char _ (now s) (now s - exp cfg));
       [lia|exact HR|exact HC|apply SInv_subs_live; exact HS]| |].
    + intros [] s1 (G1 & L1 & A1).
      eapply wp_conseq;
        [exact (dump_stats_spec cfg (now s) (boot s) s1 (proj1 G1) (proj1 (proj2 G1)))| |].
      * intros [] s2 [G2 E]. split; [eapply good_trans; eauto|]. rewrite E. exact A1.
      * intros e s' [].
    + intros e s' [].
Qed.

Lemma expire_run fault s :
  SInv s -> log s = [] -> exists s', expire cfg fault s = Ok tt s' /\ db_step s s'.
Proof.
  intros HS Hlog.
  destruct (wp_elim _ _ _ _ (expire_spec fault s HS Hlog))
    as [([] & s' & E & G & _)|(e & s' & _ & [])].
  exists s'. split; [exact E|apply G].
Qed.

(** a whole non-faulty sweep at time [now s] with cut-off [now s - exp]:
    - a mailbox with a subscriber is kept and stamped [now s];
    - a mailbox without subscriber is kept, unchanged, iff it was updated after the cut-off;
    - nameplates, side rows and messages survive exactly when their mailbox does;
    - nothing else changes (in particular no row of a surviving mailbox, in any app). *)
Theorem sweep_char s :
  SInv s -> log s = [] ->
  exists s',
    expire cfg false s = Ok tt s' /\
    let d := chan_w s in
    let d' := chan_w s' in
    let old := now s - exp cfg in
    (forall r, In r (mailboxes d') <->
       (In r (mailboxes d) /\ ~ listened s (mb_app r) (mb_id r) /\ old < mb_updated r) \/
       (exists r0, In r0 (mailboxes d) /\ listened s (mb_app r0) (mb_id r0) /\
                   r = mkMb (mb_app r0) (mb_id r0) (now s) (mb_fornp r0))) /\
    (forall n, In n (nameplates d') <-> In n (nameplates d) /\ mb_alive d' (np_mbox n)) /\
    (forall x, In x (np_sides d') <->
               In x (np_sides d) /\ exists n, In n (nameplates d') /\ np_id n = nps_npid x) /\
    (forall x, In x (mb_sides d') <-> In x (mb_sides d) /\ mb_alive d' (mbs_mbox x)) /\
    (forall x, In x (messages d') <-> In x (messages d) /\ mb_alive d' (msg_mbox x)) /\
    np_seq d' = np_seq d /\
    chan_c s' = chan_w s' /\ subs s' = subs s /\ conns s' = conns s /\ now s' = now s.
Proof.
  intros HS Hlog.
  destruct (wp_elim _ _ _ _ (expire_spec false s HS Hlog))
    as [([] & s' & E & G & A)|(e & s' & _ & [])].
  exists s'. split; [exact E|]. cbv zeta.
  destruct A as [Hmb (D1 & D2 & D3 & D4 & D5)].
  destruct G as (_ & [Cw _] & (Es & Ec & En & _)).
  assert (Happs : forall r, In r (mailboxes (chan_w s)) ->
                            In (mb_app r) (ssort (sel_all_apps (chan_w s)))).
  { intros r Hr. apply (proj2 (ssort_In _ _)). unfold sel_all_apps.
    apply (proj2 (sdedup_In _ _)). apply in_or_app. right. apply in_or_app. left.
    apply in_map. exact Hr. }
  split; [|split; [exact D1|split; [exact D2|split; [exact D3|split; [exact D4|
           split; [exact D5|split; [symmetry; exact Cw|split; [exact Es|
           split; [exact Ec|exact En]]]]]]]]].
  intros r. rewrite (Hmb r). split.
  - intros [[Hr Hn]|[(Hr & Hp & HnL & Ho)|(r0 & Hr0 & Hp & HL & Er)]].
    + exfalso. apply Hn. apply Happs. exact Hr.
    + left. split; [exact Hr|]. split; [exact HnL|exact Ho].
    + right. exists r0. split; [exact Hr0|]. split; [exact HL|exact Er].
  - intros [(Hr & HnL & Ho)|(r0 & Hr0 & HL & Er)].
    + right; left. split; [exact Hr|]. split; [apply Happs; exact Hr|].
      split; [exact HnL|exact Ho].
    + right; right. exists r0. split; [exact Hr0|]. split; [apply Happs; exact Hr0|].
      split; [exact HL|exact Er].
Qed.

(** a sweep whose first database access fails changes nothing in the channel
    database but still refreshes the status row *)
Theorem sweep_fault s :
  SInv s -> log s = [] ->
  exists s', expire cfg true s = Ok tt s' /\ chan_w s' = chan_w s /\ chan_c s' = chan_c s /\
             subs s' = subs s /\ conns s' = conns s.
Proof.
  intros HS Hlog.
  destruct (wp_elim _ _ _ _ (expire_spec true s HS Hlog))
    as [([] & s' & E & G & A)|(e & s' & _ & [])].
  exists s'. split; [exact E|].
  destruct G as (_ & [Cw _] & (Es & Ec & _)). destruct (si_clean s HS) as [Cw0 _].
  split; [exact A|]. split; [congruence|]. split; assumption.
Qed.

(** C12: what a sweep spares *)
Corollary sweep_spares s s' r :
  SInv s -> log s = [] -> expire cfg false s = Ok tt s' ->
  In r (mailboxes (chan_w s)) ->
  (now s - exp cfg < mb_updated r \/ listened s (mb_app r) (mb_id r)) ->
  (* the mailbox row survives (stamped now if subscribed, else unchanged) ... *)
  (exists r', In r' (mailboxes (chan_w s')) /\ mb_app r' = mb_app r /\ mb_id r' = mb_id r /\
              mb_fornp r' = mb_fornp r /\
              (listened s (mb_app r) (mb_id r) -> mb_updated r' = now s) /\
              (~ listened s (mb_app r) (mb_id r) -> r' = r)) /\
  (* ... with all its side rows, all its messages, the nameplate pointing at it
     and that nameplate's side rows, unchanged *)
  (forall x, In x (mb_sides (chan_w s)) -> mbs_mbox x = mb_id r -> In x (mb_sides (chan_w s'))) /\
  (forall x, In x (messages (chan_w s)) -> msg_mbox x = mb_id r -> In x (messages (chan_w s'))) /\
  (forall n, In n (nameplates (chan_w s)) -> np_mbox n = mb_id r ->
             In n (nameplates (chan_w s')) /\
             forall x, In x (np_sides (chan_w s)) -> nps_npid x = np_id n -> In x (np_sides (chan_w s'))).
Proof.
  intros HS Hlog E Hr Hc.
  destruct (sweep_char s HS Hlog) as (s'' & E' & H). rewrite E in E'.
  assert (Es : s'' = s') by congruence. subst s''. cbv zeta in H.
  destruct H as (Hmb & Hnp & Hnps & Hmbs & Hmsg & _).
  assert (H1 : exists r', In r' (mailboxes (chan_w s')) /\ mb_app r' = mb_app r /\
                          mb_id r' = mb_id r /\ mb_fornp r' = mb_fornp r /\
                          (listened s (mb_app r) (mb_id r) -> mb_updated r' = now s) /\
                          (~ listened s (mb_app r) (mb_id r) -> r' = r)).
  { destruct (lis_dec (subs s) (mb_app r) (mb_id r)) as [HL|HnL].
    - exists (mkMb (mb_app r) (mb_id r) (now s) (mb_fornp r)).
      split; [apply Hmb; right; exists r; auto|]. cbn [mb_app mb_id mb_fornp mb_updated].
      split; [reflexivity|]. split; [reflexivity|]. split; [reflexivity|].
      split; [reflexivity|]. intros Hn. contradiction.
    - exists r. split.
      + apply Hmb. left. split; [exact Hr|]. split; [exact HnL|].
        destruct Hc as [Hc|Hc]; [exact Hc|contradiction].
      + split; [reflexivity|]. split; [reflexivity|]. split; [reflexivity|].
        split; [intros HL; contradiction|reflexivity]. }
  destruct H1 as (r' & Hr' & Ea & Ei & Ef & Hu1 & Hu2).
  assert (Hal : mb_alive (chan_w s') (mb_id r)) by (exists r'; auto).
  split; [exact (ex_intro _ r' (conj Hr' (conj Ea (conj Ei (conj Ef (conj Hu1 Hu2))))))|].
  split; [|split].
  - intros x Hx Ex. apply Hmbs. split; [exact Hx|]. rewrite Ex. exact Hal.
  - intros x Hx Ex. apply Hmsg. split; [exact Hx|]. rewrite Ex. exact Hal.
  - intros n Hn En.
    assert (Hn' : In n (nameplates (chan_w s'))).
    { apply Hnp. split; [exact Hn|]. rewrite En. exact Hal. }
    split; [exact Hn'|]. intros x Hx Ex. apply Hnps. split; [exact Hx|]. exists n. auto.
Qed.

(** C13: what a sweep removes *)
Corollary sweep_complete s s' r :
  SInv s -> log s = [] -> expire cfg false s = Ok tt s' ->
  In r (mailboxes (chan_w s')) ->
  now s - exp cfg < mb_updated r.
Proof.
  intros HS Hlog E Hr.
  destruct (sweep_char s HS Hlog) as (s'' & E' & H). rewrite E in E'.
  assert (Es : s'' = s') by congruence. subst s''. cbv zeta in H.
  destruct H as (Hmb & _). apply Hmb in Hr.
  destruct Hr as [(_ & _ & Ho)|(r0 & _ & _ & Er)]; [exact Ho|].
  subst r. cbn [mb_updated]. lia.
Qed.

(** C13: once every client has gone and nothing was active for the expiration
    time, one sweep empties the store *)
Theorem quiescent_empty s :
  SInv s -> log s = [] -> conns s = [] ->
  (forall r, In r (mailboxes (chan_w s)) -> mb_updated r <= now s - exp cfg) ->
  exists s', expire cfg false s = Ok tt s' /\
    nameplates (chan_w s') = [] /\ np_sides (chan_w s') = [] /\ mailboxes (chan_w s') = [] /\
    mb_sides (chan_w s') = [] /\ messages (chan_w s') = [] /\ chan_c s' = chan_w s'.
Proof.
  intros HS Hlog Hconns Hold.
  destruct (sweep_char s HS Hlog) as (s' & E & H). cbv zeta in H.
  destruct H as (Hmb & Hnp & Hnps & Hmbs & Hmsg & _ & Hc & _).
  assert (Hsubs : subs s = []).
  { apply nil_of_none. intros [[a m] c] Hin.
    destruct (si_subs s HS _ Hin) as [_ (cs & side & Hl & _)].
    rewrite Hconns in Hl. discriminate. }
  assert (Hm : mailboxes (chan_w s') = []).
  { apply nil_of_none. intros r Hr. apply Hmb in Hr.
    destruct Hr as [(Hr & _ & Ho)|(r0 & _ & [c HL] & _)].
    - specialize (Hold r Hr). lia.
    - rewrite Hsubs in HL. exact HL. }
  assert (Hna : forall m, ~ mb_alive (chan_w s') m).
  { intros m (r & Hr & _). rewrite Hm in Hr. exact Hr. }
  assert (Hn : nameplates (chan_w s') = []).
  { apply nil_of_none. intros n Hn. apply Hnp in Hn. destruct Hn as [_ Ha]. exact (Hna _ Ha). }
  exists s'. split; [exact E|]. split; [exact Hn|].
  split; [|split; [exact Hm|split; [|split; [|exact Hc]]]].
  - apply nil_of_none. intros x Hx. apply Hnps in Hx. destruct Hx as [_ (n & Hn' & _)].
    rewrite Hn in Hn'. exact Hn'.
  - apply nil_of_none. intros x Hx. apply Hmbs in Hx. destruct Hx as [_ Ha]. exact (Hna _ Ha).
  - apply nil_of_none. intros x Hx. apply Hmsg in Hx. destruct Hx as [_ Ha]. exact (Hna _ Ha).
Qed.

Lemma next_grid_bounds start t :
  0 < period cfg -> t < next_grid cfg start t <= t + period cfg.
Proof.
  intros Hp. unfold next_grid.
  pose proof (Z.div_mod (t - start) (period cfg)) as H1.
  pose proof (Z.mod_pos_bound (t - start) (period cfg) Hp) as H2.
  lia.
Qed.

(** the timer: whenever the clock reaches the due time a sweep runs, faulty
    or not, and the next due time is again at most one period ahead *)
Theorem timer_alive s dt fault :
  SInv s -> log s = [] -> 0 < period cfg -> 0 <= dt ->
  let '(s', valid, x) := step_b cfg s (EAdvance dt fault) in
  valid = true /\ now s' = now s + dt /\ timer_start s' = timer_start s /\
  (next_due s <= now s + dt ->
     (exists s1, run_m (expire cfg fault) (set_now s (now s + dt)) = (s1, x) /\
                 s' = set_next_due s1 (next_grid cfg (timer_start s1) (now s1))) /\
     now s' < next_due s' <= now s' + period cfg) /\
  (now s + dt < next_due s -> s' = set_now s (now s + dt) /\ x = None).
Proof.
  intros HS Hlog Hp Hdt. unfold step_b.
  destruct (dt <? 0) eqn:Ed; [apply Z.ltb_lt in Ed; lia|]. cbv zeta.
  set (s1 := set_now s (now s + dt)).
  destruct (expire_run fault s1 (SInv_set_now s (now s + dt) HS) Hlog)
    as (s2 & E2 & (_ & _ & Dn & _ & Dt & _)).
  assert (En : now s1 = now s + dt) by reflexivity.
  assert (Et : timer_start s1 = timer_start s) by reflexivity.
  assert (Ed1 : next_due s1 = next_due s) by reflexivity.
  destruct (next_due s1 <=? now s1) eqn:Edue.
  - apply Z.leb_le in Edue. unfold run_m. rewrite E2. cbv beta iota.
    cbn [now timer_start next_due set_next_due].
    pose proof (next_grid_bounds (timer_start s2) (now s2) Hp) as Hb.
    split; [reflexivity|]. split; [congruence|]. split; [congruence|]. split.
    + intros _. split; [|exact Hb]. exists s2. split; reflexivity.
    + intros Hlt. lia.
  - apply Z.leb_gt in Edue.
    split; [reflexivity|]. split; [exact En|]. split; [exact Et|]. split.
    + intros Hle. lia.
    + intros _. split; reflexivity.
Qed.

End WithConfig.
