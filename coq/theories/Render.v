(** Render.v -- text interface of the executable model: parse one event per
    line, render one JSON observation per event.  The same Gallina code is
    evaluated by the extracted OCaml runner and by [Eval vm_compute] inside Coq
    (cases.v), so neither path has translation glue of its own. *)
From MW Require Import Base Store Monad Usage Server Websocket Service Findings.

Open Scope string_scope.

(** * Parsing *)

Definition p_ostr (w : string) : option (option string) :=
  match w with
  | String "_" EmptyString => Some None
  | String "s" h => match string_of_hex h with Some s => Some (Some s) | None => None end
  | _ => None
  end.

Definition p_oZ (w : string) : option (option Z) :=
  match w with
  | String "_" EmptyString => Some None
  | _ => match parse_Z w with Some z => Some (Some z) | None => None end
  end.

Definition p_bool (w : string) : option bool :=
  if seqb w "1" then Some true else if seqb w "0" then Some false else None.

Definition p_type (w : string) : option (option mtype) :=
  if seqb w "_" then Some None
  else if seqb w "ping" then Some (Some TPing)
  else if seqb w "bind" then Some (Some TBind)
  else if seqb w "list" then Some (Some TList)
  else if seqb w "allocate" then Some (Some TAllocate)
  else if seqb w "claim" then Some (Some TClaim)
  else if seqb w "release" then Some (Some TRelease)
  else if seqb w "open" then Some (Some TOpen)
  else if seqb w "add" then Some (Some TAdd)
  else if seqb w "close" then Some (Some TClose)
  else if seqb w "unknown" then Some (Some TUnknown)
  else None.

Fixpoint p_Zs (ws : list string) : option (list Z) :=
  match ws with
  | [] => Some []
  | w :: rest =>
      match parse_Z w, p_Zs rest with
      | Some z, Some l => Some (z :: l)
      | _, _ => None
      end
  end.

Definition p_bevent (ws : list string) : option bevent :=
  match ws with
  | ["CONNECT"; c] => option_map EConnect (parse_nat c)
  | ["DISCONNECT"; c] => option_map EDisconnect (parse_nat c)
  | ["SWEEP"; f] => option_map ESweep (p_bool f)
  | ["ADVANCE"; dt; f] =>
      match parse_Z dt, p_bool f with
      | Some z, Some b => Some (EAdvance z b)
      | _, _ => None
      end
  | "CMD" :: c :: ty :: id :: appid :: side :: np :: mb :: phase :: body :: mood :: ping
          :: cvf :: cv0 :: cv1 :: draw :: choice :: draws =>
      match parse_nat c, p_type ty, p_ostr id, p_ostr appid, p_ostr side, p_ostr np with
      | Some c, Some ty, Some id, Some appid, Some side, Some np =>
          match p_ostr mb, p_ostr phase, p_ostr body, p_ostr mood, p_oZ ping, p_bool cvf with
          | Some mb, Some phase, Some body, Some mood, Some ping, Some cvf =>
              match p_ostr cv0, p_ostr cv1, p_ostr draw, p_ostr choice, p_Zs draws with
              | Some cv0, Some cv1, Some draw, Some choice, Some draws =>
                  Some (ECmd c
                          (mkCmd ty id appid side np mb phase body mood ping
                                 (if cvf then Some (cv0, cv1) else None))
                          (mkOracle draw (mkAO choice draws)))
              | _, _, _, _, _ => None
              end
          | _, _, _, _, _, _ => None
          end
      | _, _, _, _, _, _ => None
      end
  | _ => None
  end.

Definition p_event (ws : list string) : option event :=
  match ws with
  | ["RESTART"] => Some ERestart
  | "CRASH" :: k :: rest =>
      match parse_nat k, p_bevent rest with
      | Some k, Some b => Some (ECrash k b)
      | _, _ => None
      end
  | _ => option_map EB (p_bevent ws)
  end.

(* CFG allow usage blur exp period t0 motd version error *)
Definition p_cfg (ws : list string) : option (config * Z) :=
  match ws with
  | ["CFG"; al; us; bl; ex; pe; t0; mo; ve; er] =>
      match p_bool al, p_bool us, p_oZ bl, parse_Z ex, parse_Z pe, parse_Z t0 with
      | Some al, Some us, Some bl, Some ex, Some pe, Some t0 =>
          match p_ostr mo, p_ostr ve, p_ostr er with
          | Some mo, Some ve, Some er =>
              Some (mkCfg al us bl ex pe (mkWelcome mo ve er), t0)
          | _, _, _ => None
          end
      | _, _, _, _, _, _ => None
      end
  | _ => None
  end.

(** * Rendering (JSON; every string hex-encoded) *)

Definition r_s (s : string) : string := """" ++ hex_of_string s ++ """".
Definition r_os (o : option string) : string :=
  match o with Some s => r_s s | None => "null" end.
Definition r_Z (z : Z) : string := show_Z z.
Definition r_oZ (o : option Z) : string :=
  match o with Some z => r_Z z | None => "null" end.
Definition r_b (b : bool) : string := if b then "true" else "false".
Definition r_nat (n : nat) : string := show_Z (Z.of_nat n).
Definition r_list {A} (f : A -> string) (l : list A) : string :=
  "[" ++ sconcat "," (map f l) ++ "]".
Definition r_tuple (l : list string) : string := "[" ++ sconcat "," l ++ "]".

Definition r_np (r : np_row) := r_tuple [r_Z (np_id r); r_s (np_app r); r_s (np_name r); r_s (np_mbox r)].
Definition r_nps (r : nps_row) := r_tuple [r_Z (nps_npid r); r_b (nps_claimed r); r_s (nps_side r); r_Z (nps_added r)].
Definition r_mb (r : mb_row) := r_tuple [r_s (mb_app r); r_s (mb_id r); r_Z (mb_updated r); r_b (mb_fornp r)].
Definition r_mbs (r : mbs_row) := r_tuple [r_s (mbs_mbox r); r_b (mbs_opened r); r_s (mbs_side r); r_Z (mbs_added r); r_os (mbs_mood r)].
Definition r_msg (r : msg_row) := r_tuple [r_s (msg_app r); r_s (msg_mbox r); r_s (msg_side r); r_s (msg_phase r); r_s (msg_body r); r_Z (msg_rx r); r_os (msg_id r)].

Definition r_chan (d : chan_db) : string :=
  "{""np"":" ++ r_list r_np (nameplates d) ++
  ",""nps"":" ++ r_list r_nps (np_sides d) ++
  ",""mb"":" ++ r_list r_mb (mailboxes d) ++
  ",""mbs"":" ++ r_list r_mbs (mb_sides d) ++
  ",""msg"":" ++ r_list r_msg (messages d) ++
  ",""seq"":" ++ r_Z (np_seq d) ++ "}".

Definition r_unp (r : u_np_row) := r_tuple [r_s (unp_app r); r_Z (unp_started r); r_oZ (unp_waiting r); r_Z (unp_total r); r_s (unp_result r)].
Definition r_umb (r : u_mb_row) := r_tuple [r_s (umb_app r); r_b (umb_fornp r); r_Z (umb_started r); r_Z (umb_total r); r_oZ (umb_waiting r); r_s (umb_result r)].
Definition r_ucv (r : u_cv_row) := r_tuple [r_s (ucv_app r); r_s (ucv_side r); r_Z (ucv_time r); r_os (ucv_impl r); r_os (ucv_version r)].
Definition r_ucur (r : u_cur_row) := r_tuple [r_Z (ucur_rebooted r); r_Z (ucur_updated r); r_oZ (ucur_blur r); r_Z (ucur_conns r)].

Definition r_usage (u : usage_db) : string :=
  "{""np"":" ++ r_list r_unp (u_nameplates u) ++
  ",""mb"":" ++ r_list r_umb (u_mailboxes u) ++
  ",""cv"":" ++ r_list r_ucv (u_versions u) ++
  ",""cur"":" ++ r_list r_ucur (u_current u) ++ "}".

Definition r_errk (k : err_kind) : string :=
  match k with
  | ErrCrowded => """crowded"""
  | ErrReclaimed => """reclaimed"""
  | ErrOther => """other"""
  end.

Definition r_type (t : option mtype) : string :=
  match t with
  | None => "null"
  | Some TPing => """ping"""
  | Some TBind => """bind"""
  | Some TList => """list"""
  | Some TAllocate => """allocate"""
  | Some TClaim => """claim"""
  | Some TRelease => """release"""
  | Some TOpen => """open"""
  | Some TAdd => """add"""
  | Some TClose => """close"""
  | Some TUnknown => """unknown"""
  end.

(* a command as the JSON array of its 11 fields, in record order *)
Definition r_cmd (m : command) : string :=
  r_tuple [r_type (m_type m); r_os (m_id m); r_os (m_appid m); r_os (m_side m);
           r_os (m_nameplate m); r_os (m_mailbox m); r_os (m_phase m); r_os (m_body m);
           r_os (m_mood m); r_oZ (m_ping m);
           match m_client_version m with
           | None => "null"
           | Some (a, b) => r_tuple [r_os a; r_os b]
           end].

Definition r_frame (f : frame) : list string :=
  match f with
  | FWelcome w => ["""welcome"""; r_os (w_motd w); r_os (w_version w); r_os (w_error w)]
  | FAck id => ["""ack"""; r_os id]
  | FPong v => ["""pong"""; r_Z v]
  | FError k orig => ["""error"""; r_errk k; r_cmd orig]
  | FNameplates l => ["""nameplates"""; r_list r_s l]
  | FAllocated n => ["""allocated"""; r_s n]
  | FClaimed m => ["""claimed"""; r_s m]
  | FReleased => ["""released"""]
  | FClosed => ["""closed"""]
  | FMessage side phase body rx id =>
      ["""message"""; r_s side; r_s phase; r_s body; r_Z rx; r_os id]
  end.

(** a commit entry carries the snapshot that was committed (what an independent reader of the file sees
    from then on -- and what a crash right there leaves), abbreviated to "=" when it is textually the
    snapshot shown last for that database ([prev]: channel, usage) *)
Definition r_log_entry (prev : string * string) (l : log_entry) : string * (string * string) :=
  match l with
  | LCommitChan d => let c := r_chan d in
      ("[""C""," ++ (if seqb (fst prev) c then """=""" else c) ++ "]", (c, snd prev))
  | LCommitUsage u => let x := r_usage u in
      ("[""U""," ++ (if seqb (snd prev) x then """=""" else x) ++ "]", (fst prev, x))
  | LFrame c f clean tx => (r_tuple ("""F""" :: r_nat c :: r_b clean :: r_frame f ++ [r_Z tx]), prev)
  end.

Fixpoint r_log (prev : string * string) (l : list log_entry) : list string * (string * string) :=
  match l with
  | [] => ([], prev)
  | e :: l' => let '(x, p1) := r_log_entry prev e in
               let '(xs, p2) := r_log p1 l' in (x :: xs, p2)
  end.

Definition r_exn (e : exn) : string :=
  match e with
  | XIntegrity => """IntegrityError"""
  | XIndex => """IndexError"""
  | XValue => """ValueError"""
  | XOracle => """OracleMismatch"""
  | XCrowded => """CrowdedError"""
  | XReclaimed => """ReclaimedError"""
  | XErr _ => """Error"""
  end.

Definition r_conn (p : nat * conn_state) : string :=
  let cs := snd p in
  r_tuple [r_nat (fst p);
           match c_bound cs with Some (a, _) => r_s a | None => "null" end;
           match c_bound cs with Some (_, sd) => r_s sd | None => "null" end;
           r_b (c_did_allocate cs); r_b (c_listening cs); r_b (c_did_claim cs);
           r_os (c_nameplate_id cs); r_b (c_did_release cs); r_os (c_mailbox cs);
           r_os (c_mailbox_id cs); r_b (c_did_close cs)].

Definition r_sub (p : string * string * nat) : string :=
  r_tuple [r_s (fst (fst p)); r_s (snd (fst p)); r_nat (snd p)].

(** what is remembered between events to abbreviate unchanged databases *)
Record rstate := mkR
  { r_state : state; r_prev_chan : string; r_prev_chan_c : string;
    r_prev_usage : string; r_prev_usage_c : string }.

Definition abbreviate (prev cur : string) : string :=
  if seqb prev cur then """=""" else cur.

Definition r_obs (s' : state) (o : obs) (kf : list nat) (r : rstate) : string * rstate :=
  let ch := r_chan (chan_w s') in
  let chc := r_chan (chan_c s') in
  let us := r_usage (usage_w s') in
  let usc := r_usage (usage_c s') in
  let '(lg, p1) := r_log (r_prev_chan_c r, r_prev_usage_c r) (o_log o) in
  let '(bl, _) := r_log p1 (o_boot_log o) in
  ("{""valid"":" ++ r_b (o_valid o) ++
   ",""exc"":" ++ match o_exc o with Some e => r_exn e | None => "null" end ++
   ",""kf"":" ++ r_list r_nat kf ++
   ",""log"":" ++ r_tuple lg ++
   ",""boot"":" ++ r_tuple bl ++
   ",""chan"":" ++ abbreviate (r_prev_chan r) ch ++
   ",""chan_c"":" ++ abbreviate (r_prev_chan_c r) chc ++
   ",""usage"":" ++ abbreviate (r_prev_usage r) us ++
   ",""usage_c"":" ++ abbreviate (r_prev_usage_c r) usc ++
   ",""subs"":" ++ r_list r_sub (subs s') ++
   ",""conns"":" ++ r_list r_conn (conns s') ++
   ",""now"":" ++ r_Z (now s') ++
   ",""next_due"":" ++ r_Z (next_due s') ++
   ",""boot_time"":" ++ r_Z (boot s') ++ "}",
   mkR s' ch chc us usc).

(** * The line processor *)

Inductive pstate :=
| PStart
| PRun (cfg : config) (r : rstate)
| PError.

(** consume one input line; produce output lines *)
Definition process_line (p : pstate) (line : string) : pstate * list string :=
  let ws := words line in
  match p with
  | PError => (PError, [])
  | PStart =>
      match p_cfg ws with
      | None => (PError, ["{""parse_error"":" ++ r_s line ++ "}"])
      | Some (cfg, t0) =>
          let '(s0, bl, x) := boot_on cfg empty_chan empty_usage t0 in
          let '(out, r) := r_obs s0 (mkObs true [] x bl) [] (mkR s0 "" "" "" "") in
          (PRun cfg r, [out])
      end
  | PRun cfg r =>
      match p_event ws with
      | None => (PError, ["{""parse_error"":" ++ r_s line ++ "}"])
      | Some e =>
          let kf := kf_triggers (r_state r) e in
          let '(s', o) := step cfg (r_state r) e in
          let '(out, r') := r_obs s' o kf r in
          (PRun cfg r', [out])
      end
  end.

Fixpoint process_lines (p : pstate) (lines : list string) : list string :=
  match lines with
  | [] => []
  | l :: rest =>
      let '(p', out) := process_line p l in
      out ++ process_lines p' rest
  end.

Definition process (lines : list string) : list string := process_lines PStart lines.
