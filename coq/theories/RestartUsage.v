(** RestartUsage.v -- C15 at a restart.

    UsageCount.v / UsageCount2.v give the exact effect on the usage database
    of every plain event.  A clean restart ([ERestart]) also runs a sweep --
    the timer's immediate first firing, [expire false], on the committed
    files, with empty registries and a fresh `rebooted` stamp -- which retires
    every expired nameplate and mailbox and rewrites the status row.  Here:
    the exact effect of [step cfg s ERestart] on the usage database.
    - [restart_is_boot_sweep]: the state after a restart is the sweep run on
      the booted state;
    - [restart_retires]: which rows it deletes (nobody is subscribed after a
      restart: exactly the mailboxes not updated after the cut-off, and the
      nameplates pointing to them);
    - [restart_usage]: one nameplate record per deleted nameplate, one mailbox
      record per deleted mailbox (`pruned`, computed from the side rows before
      the restart), the status row (rebooted = updated = now, blur, 0
      connections), nothing else; work copy = committed copy;
    - [restart_usage_off]: without a usage database nothing is written. *)
From MW Require Import Base Store Monad Usage Server Websocket Service Findings
     Inv StoreFacts Hoare DbFactsA DbFactsB OpFacts ProtoFacts Obs StepFacts SweepFacts
     NpFactsA MbFactsA MbFactsB CrowdFacts LifeFacts UsageCount.
From Coq Require Import Sorting.Permutation.
Local Open Scope list_scope.

Section WithConfig.
Variable cfg : config.
Hypothesis Hexp : 0 < exp cfg.

(** the state a process starts in, on the files [s] left, at time [now s] *)
Definition booted (s : state) : state :=
  mkState (chan_w s) (chan_w s) (usage_w s) (usage_w s) [] [] (now s) (now s) (now s)
          (now s + period cfg) [].

Lemma booted_inv s : SInv s -> SInv (booted s) /\ log (booted s) = [].
Proof. intros HS. split; [apply SInv_boot, (si_db s HS)|reflexivity]. Qed.

(** a restart is the start-up sweep on the booted state *)
Theorem restart_is_boot_sweep s :
  SInv s ->
  exists s1, expire cfg false (booted s) = Ok tt s1 /\
             fst (step cfg s ERestart) = set_log s1 [].
Proof.
  intros HS. destruct (booted_inv s HS) as [HB LB].
  destruct (sweep_char cfg Hexp (booted s) HB LB) as (s1 & E & _).
  exists s1. split; [exact E|].
  destruct (si_clean s HS) as [Ec Eu].
  unfold step. cbn [chan_c usage_c now set_log]. rewrite boot_on_eq, <- Ec, <- Eu.
  change (mkState (chan_w s) (chan_w s) (usage_w s) (usage_w s) [] [] (now s) (now s) (now s)
                  (now s + period cfg) []) with (booted s).
  rewrite E. reflexivity.
Qed.

(** * what a restart deletes *)
Theorem restart_retires s :
  SInv s -> log s = [] ->
  let d := chan_w s in
  let d' := chan_w (fst (step cfg s ERestart)) in
  let old := now s - exp cfg in
  (forall r, In r (gone mb_same (mailboxes d) (mailboxes d')) <->
             In r (mailboxes d) /\ mb_updated r <= old) /\
  (forall n, In n (gone np_same (nameplates d) (nameplates d')) <->
             In n (nameplates d) /\
             exists r, In r (mailboxes d) /\ mb_id r = np_mbox n /\ mb_updated r <= old) /\
  (forall r, In r (mailboxes d') <-> In r (mailboxes d) /\ old < mb_updated r) /\
  (forall n, In n (nameplates d') <->
             In n (nameplates d) /\
             exists r, In r (mailboxes d) /\ mb_id r = np_mbox n /\ old < mb_updated r).
Proof.
  intros HS Hlog. cbv zeta.
  destruct (booted_inv s HS) as [HB LB].
  destruct (restart_is_boot_sweep s HS) as (s1 & E & ->).
  destruct (sweep_char cfg Hexp (booted s) HB LB) as (s1' & E' & K).
  rewrite E in E'. inversion E'; subst s1'. clear E'. cbv zeta in K.
  cbn [chan_w booted set_log now subs] in *.
  destruct K as (Hm & Hn & _).
  pose proof (si_db s HS) as Hdb.
  (* surviving mailboxes: nobody listens after a restart *)
  assert (Hm' : forall r, In r (mailboxes (chan_w s1)) <->
                          In r (mailboxes (chan_w s)) /\ now s - exp cfg < mb_updated r).
  { intros r. rewrite (Hm r). split.
    - intros [(A & _ & B)|(r0 & _ & (c & []) & _)]. auto.
    - intros [A B]. left. split; [exact A|]. split; [intros (c & [])|exact B]. }
  assert (Huniq : forall r r', In r (mailboxes (chan_w s)) -> In r' (mailboxes (chan_w s)) ->
                               mb_id r = mb_id r' -> r = r').
  { intros r r' A B C. exact (NoDup_map_inj mb_id _ r r' (inv_mb_id _ Hdb) A B C). }
  assert (Halive : forall m, SweepFacts.mb_alive (chan_w s1) m <->
            exists r, In r (mailboxes (chan_w s)) /\ mb_id r = m /\ now s - exp cfg < mb_updated r).
  { intros m. split.
    - intros (r & Hr & Ei). apply Hm' in Hr. exists r. tauto.
    - intros (r & Hr & Ei & Ho). exists r. split; [apply Hm'; auto|exact Ei]. }
  assert (Hn' : forall n, In n (nameplates (chan_w s1)) <->
            In n (nameplates (chan_w s)) /\
            exists r, In r (mailboxes (chan_w s)) /\ mb_id r = np_mbox n /\
                      now s - exp cfg < mb_updated r).
  { intros n. rewrite (Hn n), Halive. reflexivity. }
  split; [|split; [|split; [exact Hm'|exact Hn']]].
  - intros r. unfold gone. rewrite filter_In, negb_true_iff. split.
    + intros [Hr Hex]. split; [exact Hr|].
      destruct (Z.le_gt_cases (mb_updated r) (now s - exp cfg)) as [K|K]; [exact K|exfalso].
      assert (Hin : In r (mailboxes (chan_w s1))) by (apply Hm'; split; [exact Hr|lia]).
      assert (Ht : existsb (mb_same r) (mailboxes (chan_w s1)) = true).
      { apply existsb_exists. exists r. split; [exact Hin|apply seqb_refl]. }
      congruence.
    + intros [Hr Ho]. split; [exact Hr|].
      destruct (existsb (mb_same r) (mailboxes (chan_w s1))) eqn:Ex; [exfalso|reflexivity].
      apply existsb_exists in Ex. destruct Ex as (r' & Hr' & Es).
      unfold mb_same in Es. apply seqb_eq in Es. apply Hm' in Hr'. destruct Hr' as [Hr' Ho'].
      rewrite <- (Huniq r r' Hr Hr' Es) in Ho'. lia.
  - intros n. unfold gone. rewrite filter_In, negb_true_iff.
    assert (Hnu : forall n', In n (nameplates (chan_w s)) -> In n' (nameplates (chan_w s)) ->
                             np_id n = np_id n' -> n = n').
    { intros n' A B C. exact (NoDup_map_inj np_id _ n n' (inv_np_id _ Hdb) A B C). }
    split.
    + intros [Hin Hex]. split; [exact Hin|].
      destruct (inv_fk_np _ Hdb n Hin) as (r & Hr & _ & Ei).
      exists r. split; [exact Hr|]. split; [exact Ei|].
      destruct (Z.le_gt_cases (mb_updated r) (now s - exp cfg)) as [K|K]; [exact K|exfalso].
      assert (Hin1 : In n (nameplates (chan_w s1))).
      { apply Hn'. split; [exact Hin|]. exists r. split; [exact Hr|]. split; [exact Ei|lia]. }
      assert (Ht : existsb (np_same n) (nameplates (chan_w s1)) = true).
      { apply existsb_exists. exists n. split; [exact Hin1|apply Z.eqb_refl]. }
      congruence.
    + intros (Hin & r & Hr & Ei & Ho). split; [exact Hin|].
      destruct (existsb (np_same n) (nameplates (chan_w s1))) eqn:Ex; [exfalso|reflexivity].
      apply existsb_exists in Ex. destruct Ex as (n' & Hn1 & Es).
      unfold np_same in Es. apply Z.eqb_eq in Es. apply Hn' in Hn1.
      destruct Hn1 as (Hn1 & r' & Hr' & Ei' & Ho').
      rewrite <- (Hnu n' Hin Hn1 Es) in Ei'.
      rewrite <- (Huniq r r' Hr Hr' (eq_trans Ei (eq_sym Ei'))) in Ho'. lia.
Qed.

(** * with a usage database *)
Section UsageOn.
Hypothesis Husage : usage_on cfg = true.

(** C15 at a restart: one record (`pruned`, from the side rows before the
    restart) per nameplate and per mailbox the start-up sweep deletes, the
    status row of the new process, and nothing else; all of it committed *)
Theorem restart_usage s :
  SInv s -> log s = [] ->
  let s' := fst (step cfg s ERestart) in
  let d := chan_w s in
  let d' := chan_w s' in
  usage_c s' = usage_w s' /\
  u_versions (usage_w s') = u_versions (usage_w s) /\
  u_current (usage_w s') = [mkUCur (now s) (now s) (blur cfg) 0] /\
  exists unps umbs,
    u_nameplates (usage_w s') = u_nameplates (usage_w s) ++ unps /\
    u_mailboxes (usage_w s') = u_mailboxes (usage_w s) ++ umbs /\
    Permutation (map Some unps)
                (map (np_record cfg d (now s) true) (gone np_same (nameplates d) (nameplates d'))) /\
    Permutation umbs
                (map (mb_record cfg d (now s) true) (gone mb_same (mailboxes d) (mailboxes d'))).
Proof.
  intros HS Hlog. cbv zeta.
  destruct (booted_inv s HS) as [HB LB].
  destruct (restart_is_boot_sweep s HS) as (s1 & E & ->).
  destruct (sweep_usage cfg Hexp Husage (booted s) false HB LB) as (s1' & E' & K).
  rewrite E in E'. inversion E'; subst s1'. clear E'. cbv zeta in K.
  cbn [chan_w usage_w usage_c booted set_log now subs boot zlen List.length] in *.
  exact K.
Qed.

(** the same, record by record: every expired mailbox / nameplate (see
    [restart_retires]) gets its record, and every new record is one of those *)
Corollary restart_usage_records s :
  SInv s -> log s = [] ->
  let s' := fst (step cfg s ERestart) in
  let d := chan_w s in
  let old := now s - exp cfg in
  exists unps umbs,
    u_nameplates (usage_w s') = u_nameplates (usage_w s) ++ unps /\
    u_mailboxes (usage_w s') = u_mailboxes (usage_w s) ++ umbs /\
    (forall u, In u umbs <->
       exists r, In r (mailboxes d) /\ mb_updated r <= old /\
                 u = mb_record cfg d (now s) true r) /\
    (forall u, In u unps <->
       exists n, In n (nameplates d) /\
                 (exists r, In r (mailboxes d) /\ mb_id r = np_mbox n /\ mb_updated r <= old) /\
                 np_record cfg d (now s) true n = Some u) /\
    List.length umbs =
      List.length (filter (fun r => mb_updated r <=? old) (mailboxes d)).
Proof.
  intros HS Hlog. cbv zeta.
  destruct (restart_usage s HS Hlog) as (_ & _ & _ & unps & umbs & En & Em & Pn & Pm).
  destruct (restart_retires s HS Hlog) as (Gm & Gn & _ & _). cbv zeta in *.
  exists unps, umbs. split; [exact En|]. split; [exact Em|]. split; [|split].
  - intros u. split.
    + intros Hu. apply (Permutation_in _ Pm) in Hu. apply in_map_iff in Hu.
      destruct Hu as (r & Er & Hr). apply Gm in Hr. exists r. split; [apply Hr|].
      split; [apply Hr|symmetry; exact Er].
    + intros (r & Hr & Ho & ->). apply (Permutation_in _ (Permutation_sym Pm)).
      apply in_map. apply Gm. auto.
  - intros u. split.
    + intros Hu. assert (Hs : In (Some u) (map Some unps)) by (apply in_map; exact Hu).
      apply (Permutation_in _ Pn) in Hs. apply in_map_iff in Hs.
      destruct Hs as (n & En' & Hn). apply Gn in Hn. exists n. split; [apply Hn|].
      split; [apply Hn|exact En'].
    + intros (n & Hn & Hr & Eu).
      assert (Hs : In (Some u) (map Some unps)).
      { apply (Permutation_in _ (Permutation_sym Pn)). rewrite <- Eu. apply in_map.
        apply Gn. auto. }
      apply in_map_iff in Hs. destruct Hs as (u' & Eu' & Hu'). inversion Eu'; subst. exact Hu'.
  - rewrite (Permutation_length Pm), map_length.
    (* the expired mailboxes, as a filter *)
    assert (Hf : forall l, (forall r, In r (gone mb_same (mailboxes (chan_w s)) l) <->
                              In r (mailboxes (chan_w s)) /\ mb_updated r <= now s - exp cfg) ->
                 gone mb_same (mailboxes (chan_w s)) l =
                 filter (fun r => mb_updated r <=? now s - exp cfg) (mailboxes (chan_w s))).
    { intros l H. unfold gone in *. apply filter_ext_in. intros r Hr.
      destruct (mb_updated r <=? now s - exp cfg) eqn:Eo.
      - apply Z.leb_le in Eo. pose proof (proj2 (H r) (conj Hr Eo)) as K.
        apply filter_In in K. apply K.
      - apply Z.leb_gt in Eo.
        destruct (negb (existsb (mb_same r) l)) eqn:Ex; [|reflexivity]. exfalso.
        assert (K : In r (filter (fun x => negb (existsb (mb_same x) l)) (mailboxes (chan_w s))))
          by (apply filter_In; auto).
        apply H in K. lia. }
    rewrite (Hf _ Gm). reflexivity.
Qed.

End UsageOn.

(** * without a usage database a restart writes nothing *)

Lemma upres_prune_app_off a w o : usage_on cfg = false -> upres (prune_app cfg a w o).
Proof.
  intros Hoff. unfold prune_app. rewrite Hoff.
  apply upres_bind; [apply upres_get|intros s0].
  apply upres_bind; [apply upres_tx|intros _].
  apply upres_bind; [apply upres_commit_chan|intros _].
  apply upres_bind; [apply upres_tx|intros [[md unps] umbs]].
  apply upres_bind; [apply upres_ret|intros _].
  destruct md; [|apply upres_ret].
  apply upres_bind; [apply upres_commit_chan|intros _]. apply upres_ret.
Qed.

Lemma upres_prune_apps_off w o apps : usage_on cfg = false -> upres (prune_apps cfg apps w o).
Proof.
  intros Hoff. induction apps as [|a rest IH]; cbn [prune_apps]; [apply upres_ret|].
  apply upres_bind; [apply upres_prune_app_off; exact Hoff|intros _; exact IH].
Qed.

Lemma upres_expire_off fault : usage_on cfg = false -> upres (expire cfg fault).
Proof.
  intros Hoff. unfold expire, dump_stats, prune_all_apps. rewrite Hoff.
  apply upres_bind; [apply upres_get|intros s0].
  apply upres_bind; [|intros _; apply upres_ret].
  destruct fault; [apply upres_ret|].
  apply upres_try_catch; [|intros e; apply upres_ret].
  apply upres_bind; [apply upres_q|intros apps]. apply upres_prune_apps_off. exact Hoff.
Qed.

Theorem restart_usage_off s :
  usage_on cfg = false -> SInv s ->
  let s' := fst (step cfg s ERestart) in
  usage_w s' = usage_w s /\ usage_c s' = usage_c s.
Proof.
  intros Hoff HS. cbv zeta.
  destruct (restart_is_boot_sweep s HS) as (s1 & E & ->).
  pose proof (upres_expire_off false Hoff (booted s)) as H. rewrite E in H.
  destruct H as [Hw Hc]. cbn [usage_w usage_c set_log booted] in *.
  destruct (si_clean s HS) as [_ Eu]. split; [exact Hw|]. rewrite Hc. exact Eu.
Qed.

(** ... nor does a sweep *)
Theorem sweep_usage_off s fault :
  usage_on cfg = false ->
  usage_w (out (expire cfg fault s)) = usage_w s /\ usage_c (out (expire cfg fault s)) = usage_c s.
Proof.
  intros Hoff. pose proof (upres_expire_off fault Hoff s) as H.
  destruct (expire cfg fault s); exact H.
Qed.

End WithConfig.

(** * non-vacuity (computed): a nameplate and its mailbox expire while the
    server is down; the restart writes their two records and the status row *)
Definition ru_cfg : config := mkCfg true true (Some 10) 100 50 (mkWelcome None None None).
Lemma ru_exp : 0 < exp ru_cfg.
Proof. reflexivity. Qed.
Definition ru_o1 : oracle := mkOracle (Some "AAAAAAAA") (mkAO None []).
Definition ru_o0 : oracle := mkOracle None (mkAO None []).
Definition ru_bind : command :=
  mkCmd (Some TBind) None (Some "a") (Some "s") None None None None None None None.
Definition ru_claim : command :=
  mkCmd (Some TClaim) None None None (Some "7") None None None None None None.
Definition ru_open (m : string) : command :=
  mkCmd (Some TOpen) None None None None (Some m) None None None None None.

(** side "s" claims nameplate "7" (mailbox created) and opens a second
    mailbox "mm"; 60 ticks later it opens a third one, "young"; the timer's
    firings fail (database fault), so nothing is pruned before the restart at 105 *)
Definition ru_hist : list event :=
  [EB (EConnect 1); EB (ECmd 1 ru_bind ru_o0); EB (ECmd 1 ru_claim ru_o1);
   EB (EConnect 2); EB (ECmd 2 ru_bind ru_o0); EB (ECmd 2 (ru_open "mm") ru_o0);
   EB (EDisconnect 1); EB (EDisconnect 2);
   EB (EAdvance 60 true);
   EB (EConnect 3); EB (ECmd 3 ru_bind ru_o0); EB (ECmd 3 (ru_open "young") ru_o0);
   EB (EDisconnect 3);
   EB (EAdvance 45 true)].
Definition ru_s : state := fst (run ru_cfg (init ru_cfg 0) ru_hist).

Example restart_usage_nonvacuous :
  SInv ru_s /\ log ru_s = [] /\ now ru_s = 105 /\
  List.length (nameplates (chan_w ru_s)) = 1%nat /\
  List.length (mailboxes (chan_w ru_s)) = 3%nat /\
  u_nameplates (usage_w ru_s) = [] /\ u_mailboxes (usage_w ru_s) = [] /\
  let s' := fst (step ru_cfg ru_s ERestart) in
  map mb_id (mailboxes (chan_w s')) = ["young"] /\ nameplates (chan_w s') = [] /\
  u_nameplates (usage_w s') = [mkUNp "a" 0 None 105 "pruney"] /\
  u_mailboxes (usage_w s') =
    [mkUMb "a" true 0 105 None "pruney"; mkUMb "a" false 0 105 None "pruney"] /\
  u_current (usage_w ru_s) = [mkUCur 0 105 (Some 10) 0] /\
  u_current (usage_w s') = [mkUCur 105 105 (Some 10) 0] /\
  usage_c s' = usage_w s'.
Proof.
  split; [apply (run_spec ru_cfg ru_exp), (init_spec ru_cfg ru_exp)|].
  vm_compute. repeat split; reflexivity.
Qed.

Print Assumptions restart_is_boot_sweep.
Print Assumptions restart_retires.
Print Assumptions restart_usage.
Print Assumptions restart_usage_records.
Print Assumptions restart_usage_off.
Print Assumptions sweep_usage_off.
