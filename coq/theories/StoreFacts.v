(** StoreFacts.v -- membership characterisations of every SQL statement
    function of Store.v.  Later proofs use these instead of unfolding. *)
From MW Require Import Base Store.

Lemma seqb_eq a b : seqb a b = true <-> a = b.
Proof. apply String.eqb_eq. Qed.
Lemma seqb_neq a b : seqb a b = false <-> a <> b.
Proof. apply String.eqb_neq. Qed.
Lemma seqb_refl a : seqb a a = true.
Proof. apply String.eqb_refl. Qed.

Lemma smem_In x l : smem x l = true <-> In x l.
Proof.
  induction l as [|y l IH]; cbn; [split; [discriminate|tauto]|].
  rewrite orb_true_iff, IH, seqb_eq. split; intros [H|H]; auto.
Qed.

Lemma find_some_iff {A} (f : A -> bool) l x :
  find f l = Some x -> In x l /\ f x = true.
Proof. apply find_some. Qed.

Lemma find_none_iff {A} (f : A -> bool) l :
  find f l = None <-> forall x, In x l -> f x = false.
Proof.
  split; [apply find_none|].
  induction l as [|y l IH]; intros H; [reflexivity|]. cbn.
  rewrite (H y (or_introl eq_refl)). apply IH. intros x Hx. apply H. now right.
Qed.

Lemma existsb_false_iff {A} (f : A -> bool) l :
  existsb f l = false <-> forall x, In x l -> f x = false.
Proof.
  split.
  - intros H x Hx. destruct (f x) eqn:E; [|reflexivity].
    assert (existsb f l = true) by (apply existsb_exists; eauto). congruence.
  - intros H. destruct (existsb f l) eqn:E; [|reflexivity].
    apply existsb_exists in E. destruct E as [x [Hx Hf]]. rewrite (H x Hx) in Hf. discriminate.
Qed.

(** * Selects *)

Lemma sel_np_some d a n r :
  sel_np d a n = Some r -> In r (nameplates d) /\ np_app r = a /\ np_name r = n.
Proof.
  unfold sel_np. intros H. apply find_some in H. destruct H as [Hin Hf].
  apply andb_true_iff in Hf. rewrite !seqb_eq in Hf. tauto.
Qed.
Lemma sel_np_none d a n :
  sel_np d a n = None <-> forall r, In r (nameplates d) -> ~ (np_app r = a /\ np_name r = n).
Proof.
  unfold sel_np. rewrite find_none_iff. split; intros H r Hr.
  - specialize (H r Hr). apply andb_false_iff in H. rewrite !seqb_neq in H. tauto.
  - apply andb_false_iff. rewrite !seqb_neq.
    destruct (string_dec (np_app r) a); [|tauto]. destruct (string_dec (np_name r) n); [|tauto].
    exfalso. apply (H r Hr). tauto.
Qed.

Lemma sel_nps_some d npid side r :
  sel_nps d npid side = Some r -> In r (np_sides d) /\ nps_npid r = npid /\ nps_side r = side.
Proof.
  unfold sel_nps. intros H. apply find_some in H. destruct H as [Hin Hf].
  apply andb_true_iff in Hf. rewrite Z.eqb_eq, seqb_eq in Hf. tauto.
Qed.
Lemma sel_nps_none d npid side :
  sel_nps d npid side = None <->
  forall r, In r (np_sides d) -> ~ (nps_npid r = npid /\ nps_side r = side).
Proof.
  unfold sel_nps. rewrite find_none_iff. split; intros H r Hr.
  - specialize (H r Hr). apply andb_false_iff in H. rewrite Z.eqb_neq, seqb_neq in H. tauto.
  - apply andb_false_iff. rewrite Z.eqb_neq, seqb_neq.
    destruct (Z.eq_dec (nps_npid r) npid); [|tauto]. destruct (string_dec (nps_side r) side); [|tauto].
    exfalso. apply (H r Hr). tauto.
Qed.

Lemma sel_nps_all_In d npid r :
  In r (sel_nps_all d npid) <-> In r (np_sides d) /\ nps_npid r = npid.
Proof. unfold sel_nps_all. rewrite filter_In, Z.eqb_eq. tauto. Qed.

Lemma sel_mb_some d a m r :
  sel_mb d a m = Some r -> In r (mailboxes d) /\ mb_app r = a /\ mb_id r = m.
Proof.
  unfold sel_mb. intros H. apply find_some in H. destruct H as [Hin Hf].
  apply andb_true_iff in Hf. rewrite !seqb_eq in Hf. tauto.
Qed.
Lemma sel_mb_none d a m :
  sel_mb d a m = None <-> forall r, In r (mailboxes d) -> ~ (mb_app r = a /\ mb_id r = m).
Proof.
  unfold sel_mb. rewrite find_none_iff. split; intros H r Hr.
  - specialize (H r Hr). apply andb_false_iff in H. rewrite !seqb_neq in H. tauto.
  - apply andb_false_iff. rewrite !seqb_neq.
    destruct (string_dec (mb_app r) a); [|tauto]. destruct (string_dec (mb_id r) m); [|tauto].
    exfalso. apply (H r Hr). tauto.
Qed.

Lemma sel_mbs_some d m side r :
  sel_mbs d m side = Some r -> In r (mb_sides d) /\ mbs_mbox r = m /\ mbs_side r = side.
Proof.
  unfold sel_mbs. intros H. apply find_some in H. destruct H as [Hin Hf].
  apply andb_true_iff in Hf. rewrite !seqb_eq in Hf. tauto.
Qed.
Lemma sel_mbs_none d m side :
  sel_mbs d m side = None <->
  forall r, In r (mb_sides d) -> ~ (mbs_mbox r = m /\ mbs_side r = side).
Proof.
  unfold sel_mbs. rewrite find_none_iff. split; intros H r Hr.
  - specialize (H r Hr). apply andb_false_iff in H. rewrite !seqb_neq in H. tauto.
  - apply andb_false_iff. rewrite !seqb_neq.
    destruct (string_dec (mbs_mbox r) m); [|tauto]. destruct (string_dec (mbs_side r) side); [|tauto].
    exfalso. apply (H r Hr). tauto.
Qed.

Lemma sel_mbs_all_In d m r :
  In r (sel_mbs_all d m) <-> In r (mb_sides d) /\ mbs_mbox r = m.
Proof. unfold sel_mbs_all. rewrite filter_In, seqb_eq. tauto. Qed.

Lemma sel_msgs_In d a m r :
  In r (sel_msgs d a m) <-> In r (messages d) /\ msg_app r = a /\ msg_mbox r = m.
Proof. unfold sel_msgs. rewrite filter_In, andb_true_iff, !seqb_eq. tauto. Qed.

Lemma sel_nps_of_app_In d a r :
  In r (sel_nps_of_app d a) <-> In r (nameplates d) /\ np_app r = a.
Proof. unfold sel_nps_of_app. rewrite filter_In, seqb_eq. tauto. Qed.
Lemma sel_mbs_of_app_In d a r :
  In r (sel_mbs_of_app d a) <-> In r (mailboxes d) /\ mb_app r = a.
Proof. unfold sel_mbs_of_app. rewrite filter_In, seqb_eq. tauto. Qed.
Lemma sel_np_by_mbox_In d m r :
  In r (sel_np_by_mbox d m) <-> In r (nameplates d) /\ np_mbox r = m.
Proof. unfold sel_np_by_mbox. rewrite filter_In, seqb_eq. tauto. Qed.

Lemma mb_exists_iff d m : mb_exists d m = true <-> exists r, In r (mailboxes d) /\ mb_id r = m.
Proof.
  unfold mb_exists. rewrite existsb_exists. split; intros [r [H1 H2]]; exists r;
    (split; [exact H1|]); apply seqb_eq; exact H2.
Qed.
Lemma mb_exists_false d m : mb_exists d m = false <-> forall r, In r (mailboxes d) -> mb_id r <> m.
Proof.
  unfold mb_exists. rewrite existsb_false_iff. split; intros H r Hr; specialize (H r Hr);
    apply seqb_neq; exact H.
Qed.
Lemma np_exists_iff d i : np_exists d i = true <-> exists r, In r (nameplates d) /\ np_id r = i.
Proof.
  unfold np_exists. rewrite existsb_exists. split; intros [r [H1 H2]]; exists r;
    (split; [exact H1|]); apply Z.eqb_eq; exact H2.
Qed.

(** * Effects of the statements, table by table *)

Lemma ins_mb_spec d r d' :
  ins_mb d r = Some d' ->
  mb_exists d (mb_id r) = false /\
  d' = set_mailboxes d (mailboxes d ++ [r]).
Proof. unfold ins_mb. destruct (mb_exists d (mb_id r)); [discriminate|]. intros H; inversion H. auto. Qed.

Lemma ins_np_spec d a n m d' i :
  ins_np d a n m = Some (d', i) ->
  mb_exists d m = true /\ i = np_seq d + 1 /\
  d' = mkChan (nameplates d ++ [mkNp i a n m]) (np_sides d) (mailboxes d) (mb_sides d) (messages d) i.
Proof. unfold ins_np. destruct (mb_exists d m); [|discriminate]. intros H; inversion H. auto. Qed.

Lemma ins_nps_spec d r d' :
  ins_nps d r = Some d' ->
  np_exists d (nps_npid r) = true /\ d' = set_np_sides d (np_sides d ++ [r]).
Proof. unfold ins_nps. destruct (np_exists d (nps_npid r)); [|discriminate]. intros H; inversion H. auto. Qed.

Lemma ins_mbs_spec d r d' :
  ins_mbs d r = Some d' ->
  mb_exists d (mbs_mbox r) = true /\ d' = set_mb_sides d (mb_sides d ++ [r]).
Proof. unfold ins_mbs. destruct (mb_exists d (mbs_mbox r)); [|discriminate]. intros H; inversion H. auto. Qed.

Lemma del_np_spec d i d' :
  del_np d i = Some d' ->
  d' = set_nameplates d (filter (fun r => negb (np_id r =? i)) (nameplates d)).
Proof.
  unfold del_np. destruct (_ && _); [discriminate|]. intros H; inversion H. reflexivity.
Qed.

Lemma del_mb_spec d m d' :
  del_mb d m = Some d' ->
  d' = set_mailboxes d (filter (fun r => negb (seqb (mb_id r) m)) (mailboxes d)).
Proof.
  unfold del_mb. destruct (_ && _); [discriminate|]. intros H; inversion H. reflexivity.
Qed.

(** deleting a nameplate whose side rows are gone cannot fail *)
Lemma del_np_after_sides d i : exists d', del_np (del_nps_of d i) i = Some d'.
Proof.
  unfold del_np.
  assert (E : existsb (fun r => nps_npid r =? i) (np_sides (del_nps_of d i)) = false).
  { apply existsb_false_iff. intros r Hr. unfold del_nps_of in Hr. cbn in Hr.
    apply filter_In in Hr. destruct Hr as [_ Hr]. now apply negb_true_iff in Hr. }
  rewrite E, andb_false_r. eauto.
Qed.

Lemma In_upd_touch_mb d m when r :
  In r (mailboxes (upd_touch d m when)) <->
  exists r0, In r0 (mailboxes d) /\
             r = (if seqb (mb_id r0) m then mkMb (mb_app r0) (mb_id r0) when (mb_fornp r0) else r0).
Proof.
  unfold upd_touch. cbn. rewrite in_map_iff. split; intros [r0 [H1 H2]]; exists r0; auto.
Qed.

Lemma upd_touch_ids d m when :
  map mb_id (mailboxes (upd_touch d m when)) = map mb_id (mailboxes d).
Proof.
  unfold upd_touch. cbn. rewrite map_map. apply map_ext. intros r. now destruct (seqb (mb_id r) m).
Qed.

Lemma upd_touch_keys d m when :
  map (fun r => (mb_app r, mb_id r)) (mailboxes (upd_touch d m when)) =
  map (fun r => (mb_app r, mb_id r)) (mailboxes d).
Proof.
  unfold upd_touch. cbn. rewrite map_map. apply map_ext. intros r. now destruct (seqb (mb_id r) m).
Qed.
