(** AllocDraws.v -- C04, the random 4-6 digit path of the allocator, for EVERY
    outcome of the random draws.

    AllocFacts.v [find_available_accepts] covers every outcome of
    random.choice among the free 1-, 2- and 3-digit names.  When all of
    "1" .. "999" are in use, _find_available_nameplate_id makes up to 1000
    draws randrange(1000, 1000000); the first one whose decimal rendering is
    not in use wins; if all 1000 are in use it raises ValueError.  Here: for
    every set of names in use that contains "1" .. "999" and every list of
    draws in [1000, 999999], what [find_available] answers -- as a function of
    the draws ([find_available_draws_char]), the two honest outcomes are
    accepted ([draws_first_free_wins], [draws_all_taken_value_error]), the
    winner is well-formed and free, and ValueError iff the first 1000 draws
    exist and are all in use ([draws_value_error_iff]). *)
From MW Require Import Base Store Monad Usage Server StoreFacts AllocFacts.
From Coq Require Import Lia.
Local Open Scope list_scope.

(** every 1-, 2- and 3-digit name is in use *)
Definition short_taken (claimed : list string) : Prop :=
  forall v, 1 <= v <= 999 -> smem (show_Z v) claimed = true.

(** a possible result of randrange(1000, 1000000) *)
Definition in_range (v : Z) : Prop := 1000 <= v < 1000000.

(** the decimal rendering of the draw is in use / free *)
Definition taken (claimed : list string) (v : Z) : Prop := smem (show_Z v) claimed = true.
Definition free_b (claimed : list string) (v : Z) : bool := negb (smem (show_Z v) claimed).

(** * when "1" .. "999" are in use the allocator goes straight to the draws *)
Lemma find_available_draws claimed o :
  short_taken claimed -> find_available claimed o = try_draws claimed 1000 (ao_draws o).
Proof.
  intros Hs.
  destruct (find_available_cases claimed o) as [(d & Hd & Hne & _ & _)|[_ E]]; [|exact E].
  exfalso. apply Hne.
  destruct (free_names claimed (size_range d)) as [|n l] eqn:E; [reflexivity|].
  assert (Hin : In n (free_names claimed (size_range d))) by (rewrite E; left; reflexivity).
  apply free_names_In in Hin. destruct Hin as (v & Hv & -> & Hf).
  assert (Hr : 1 <= v <= 999).
  { apply size_range_In in Hv. destruct d as [|[|[|d]]]; lia. }
  rewrite (Hs v Hr) in Hf. discriminate.
Qed.

(** * the draws: a closed form *)

Lemma in_range_b v : in_range v -> (1000 <=? v) && (v <? 1000000) = true.
Proof.
  intros [H1 H2]. apply andb_true_iff. split; [apply Z.leb_le|apply Z.ltb_lt]; assumption.
Qed.

(** the first [fuel] draws are looked at in order: the first free one wins;
    if there is none the answer is ValueError when all [fuel] draws were made,
    and the record is rejected (it stops short of what the implementation
    would have drawn) otherwise *)
Lemma try_draws_char claimed fuel : forall draws,
  Forall in_range (firstn fuel draws) ->
  try_draws claimed fuel draws =
    match find (free_b claimed) (firstn fuel draws) with
    | Some v => AllocOk (show_Z v)
    | None => if (fuel <=? List.length draws)%nat then AllocValueError else AllocOracleError
    end.
Proof.
  induction fuel as [|fuel IH]; intros draws Hr; [reflexivity|].
  destruct draws as [|v rest]; [reflexivity|].
  cbn [firstn] in Hr. inversion Hr as [|x l Hv Hrest]; subst.
  cbn [try_draws firstn find List.length]. rewrite (in_range_b v Hv). unfold free_b at 1.
  destruct (smem (show_Z v) claimed); cbn [negb]; [|reflexivity].
  rewrite (IH rest Hrest). reflexivity.
Qed.

Theorem find_available_draws_char claimed ch draws :
  short_taken claimed -> Forall in_range (firstn 1000 draws) ->
  find_available claimed (mkAO ch draws) =
    match find (free_b claimed) (firstn 1000 draws) with
    | Some v => AllocOk (show_Z v)
    | None => if (1000 <=? List.length draws)%nat then AllocValueError else AllocOracleError
    end.
Proof.
  intros Hs Hr. rewrite (find_available_draws claimed _ Hs). cbn [ao_draws].
  apply try_draws_char. exact Hr.
Qed.

(** * the first free draw *)

Lemma find_first_free claimed pre v rest :
  Forall (taken claimed) pre -> smem (show_Z v) claimed = false ->
  find (free_b claimed) (pre ++ v :: rest) = Some v.
Proof.
  intros Hp Hv. induction Hp as [|x pre Hx Hp IH]; cbn [app find].
  - unfold free_b. rewrite Hv. reflexivity.
  - unfold free_b at 1. unfold taken in Hx. rewrite Hx. exact IH.
Qed.

Lemma find_free_split claimed l v :
  find (free_b claimed) l = Some v ->
  exists pre rest, l = pre ++ v :: rest /\ Forall (taken claimed) pre /\
                   smem (show_Z v) claimed = false.
Proof.
  induction l as [|x l IH]; cbn [find]; [discriminate|].
  destruct (free_b claimed x) eqn:Ex.
  - intros H. inversion H; subst x. exists [], l. split; [reflexivity|]. split; [constructor|].
    unfold free_b in Ex. apply negb_true_iff in Ex. exact Ex.
  - intros H. destruct (IH H) as (pre & rest & -> & Hp & Hv).
    exists (x :: pre), rest. split; [reflexivity|]. split; [|exact Hv].
    constructor; [|exact Hp]. unfold free_b in Ex. apply negb_false_iff in Ex. exact Ex.
Qed.

Lemma find_free_none claimed l :
  find (free_b claimed) l = None <-> Forall (taken claimed) l.
Proof.
  induction l as [|x l IH]; cbn [find]; [split; [constructor|reflexivity]|].
  unfold free_b at 1. unfold taken at 1. destruct (smem (show_Z x) claimed) eqn:Ex; cbn [negb].
  - rewrite IH. split; [intros H; constructor; assumption|intros H; inversion H; assumption].
  - split; [discriminate|]. intros H. inversion H; subst. unfold taken in *. congruence.
Qed.

Lemma firstn_app_short {A} n (l1 l2 : list A) :
  (List.length l1 < n)%nat ->
  firstn n (l1 ++ l2) = l1 ++ firstn (n - List.length l1) l2.
Proof. intros H. rewrite firstn_app, firstn_all2 by lia. reflexivity. Qed.

(** a draw renders as a 4- to 6-digit decimal without leading zero *)
Lemma draw_rendering v :
  in_range v ->
  (4 <= String.length (show_Z v) <= 6)%nat /\ all_digits (show_Z v) = true /\
  (exists c rest, show_Z v = String c rest /\ c <> "0"%char) /\
  parse_Z (show_Z v) = Some v.
Proof.
  intros [H1 H2]. split; [|split; [|split]].
  - rewrite show_Z_length by lia.
    repeat match goal with |- context [Z.ltb ?a ?b] => destruct (Z.ltb_spec a b) end; lia.
  - apply show_Z_canonical. lia.
  - apply show_Z_canonical. lia.
  - apply show_Z_roundtrip. lia.
Qed.

Lemma Forall_firstn_t {A} (P : A -> Prop) (l : list A) : Forall P l -> forall n, Forall P (firstn n l).
Proof.
  induction 1 as [|x l Hx Hl IH]; intros n; destruct n; cbn [firstn]; constructor; auto.
Qed.

(** ** exact characterisations of the three answers (no assumption on the draws) *)

Lemma try_draws_prefix claimed pre : forall fuel v rest,
  Forall in_range pre -> Forall (taken claimed) pre -> (List.length pre < fuel)%nat ->
  in_range v -> smem (show_Z v) claimed = false ->
  try_draws claimed fuel (pre ++ v :: rest) = AllocOk (show_Z v).
Proof.
  induction pre as [|x pre IH]; intros fuel v rest Hr Ht Hl Hv Hf.
  - destruct fuel as [|fuel]; [cbn in Hl; lia|]. cbn [app try_draws].
    rewrite (in_range_b v Hv), Hf. reflexivity.
  - destruct fuel as [|fuel]; [cbn in Hl; lia|]. cbn [app try_draws].
    inversion Hr; subst. inversion Ht; subst.
    rewrite (in_range_b x H1). unfold taken in H3. rewrite H3.
    apply IH; auto. cbn [List.length] in Hl. lia.
Qed.

Lemma try_draws_all_taken claimed : forall fuel draws,
  (fuel <= List.length draws)%nat ->
  Forall in_range (firstn fuel draws) -> Forall (taken claimed) (firstn fuel draws) ->
  try_draws claimed fuel draws = AllocValueError.
Proof.
  induction fuel as [|fuel IH]; intros draws Hl Hr Ht; [reflexivity|].
  destruct draws as [|x draws]; [cbn in Hl; lia|].
  cbn [firstn] in Hr, Ht. inversion Hr; subst. inversion Ht; subst.
  cbn [try_draws]. rewrite (in_range_b x H1). unfold taken in H3. rewrite H3.
  apply IH; auto. cbn [List.length] in Hl. lia.
Qed.

Lemma try_draws_ok_inv claimed : forall fuel draws n,
  try_draws claimed fuel draws = AllocOk n ->
  exists pre v rest, draws = pre ++ v :: rest /\ (List.length pre < fuel)%nat /\
    Forall in_range pre /\ Forall (taken claimed) pre /\ in_range v /\
    smem (show_Z v) claimed = false /\ n = show_Z v.
Proof.
  induction fuel as [|fuel IH]; intros draws n H; cbn [try_draws] in H; [discriminate|].
  destruct draws as [|x rest]; [discriminate|].
  destruct ((1000 <=? x) && (x <? 1000000)) eqn:Er; [|discriminate].
  apply andb_true_iff in Er. destruct Er as [E1 E2]. apply Z.leb_le in E1. apply Z.ltb_lt in E2.
  destruct (smem (show_Z x) claimed) eqn:Es.
  - destruct (IH rest n H) as (pre & v & rest' & -> & Hl & Hr & Ht & Hv & Hf & Hn).
    exists (x :: pre), v, rest'. split; [reflexivity|]. split; [cbn [List.length]; lia|].
    split; [constructor; [split; assumption|exact Hr]|].
    split; [constructor; [exact Es|exact Ht]|]. auto.
  - inversion H; subst n. exists [], x, rest. split; [reflexivity|]. split; [cbn; lia|].
    split; [constructor|]. split; [constructor|]. split; [split; assumption|]. auto.
Qed.

Lemma try_draws_ve_inv claimed : forall fuel draws,
  try_draws claimed fuel draws = AllocValueError ->
  (fuel <= List.length draws)%nat /\
  Forall in_range (firstn fuel draws) /\ Forall (taken claimed) (firstn fuel draws).
Proof.
  induction fuel as [|fuel IH]; intros draws H.
  - split; [lia|]. split; constructor.
  - cbn [try_draws] in H. destruct draws as [|x rest]; [discriminate|].
    destruct ((1000 <=? x) && (x <? 1000000)) eqn:Er; [|discriminate].
    apply andb_true_iff in Er. destruct Er as [E1 E2]. apply Z.leb_le in E1. apply Z.ltb_lt in E2.
    destruct (smem (show_Z x) claimed) eqn:Es; [|discriminate].
    destruct (IH rest H) as (Hl & Hr & Ht). cbn [List.length firstn].
    split; [lia|]. split; constructor; auto. split; assumption.
Qed.

(** C04, every outcome of the draws, success: whatever was drawn before (all
    in use, fewer than 1000 of them), the first draw whose rendering is free
    is accepted by the oracle validation and is the answer; it has 4 to 6
    digits, no leading zero, and nobody holds it.  (The recorded choice of
    random.choice and any later entries of the record are irrelevant.) *)
Theorem draws_first_free_wins claimed ch pre v rest :
  short_taken claimed ->
  Forall in_range pre -> Forall (taken claimed) pre -> (List.length pre < 1000)%nat ->
  in_range v -> smem (show_Z v) claimed = false ->
  find_available claimed (mkAO ch (pre ++ v :: rest)) = AllocOk (show_Z v) /\
  (4 <= String.length (show_Z v) <= 6)%nat /\ all_digits (show_Z v) = true /\
  (exists c r, show_Z v = String c r /\ c <> "0"%char) /\
  smem (show_Z v) claimed = false.
Proof.
  intros Hs Hpr Hpt Hlen Hv Hf.
  destruct (draw_rendering v Hv) as (A & B & C & _).
  split; [|auto].
  rewrite (find_available_draws claimed _ Hs). cbn [ao_draws].
  apply try_draws_prefix; assumption.
Qed.

(** C04, every outcome of the draws, failure: 1000 draws, all in use:
    ValueError (KF3), accepted by the oracle validation *)
Theorem draws_all_taken_value_error claimed ch draws :
  short_taken claimed -> (1000 <= List.length draws)%nat ->
  Forall in_range (firstn 1000 draws) -> Forall (taken claimed) (firstn 1000 draws) ->
  find_available claimed (mkAO ch draws) = AllocValueError.
Proof.
  intros Hs Hl Hr Ht. rewrite (find_available_draws claimed _ Hs). cbn [ao_draws].
  apply try_draws_all_taken; assumption.
Qed.

(** the answer is a name iff the record is: fewer than 1000 draws in use,
    then a free one -- and then the answer is that one *)
Theorem draws_ok_iff claimed ch draws n :
  short_taken claimed ->
  (find_available claimed (mkAO ch draws) = AllocOk n <->
   exists pre v rest, draws = pre ++ v :: rest /\ (List.length pre < 1000)%nat /\
     Forall in_range pre /\ Forall (taken claimed) pre /\ in_range v /\
     smem (show_Z v) claimed = false /\ n = show_Z v).
Proof.
  intros Hs. rewrite (find_available_draws claimed _ Hs). cbn [ao_draws]. split.
  - apply try_draws_ok_inv.
  - intros (pre & v & rest & -> & Hl & Hr & Ht & Hv & Hf & ->).
    apply try_draws_prefix; assumption.
Qed.

(** ValueError iff all (1000) draws are in use *)
Theorem draws_value_error_iff claimed ch draws :
  short_taken claimed ->
  (find_available claimed (mkAO ch draws) = AllocValueError <->
   (1000 <= List.length draws)%nat /\
   Forall in_range (firstn 1000 draws) /\ Forall (taken claimed) (firstn 1000 draws)).
Proof.
  intros Hs. rewrite (find_available_draws claimed _ Hs). cbn [ao_draws]. split.
  - apply try_draws_ve_inv.
  - intros (Hl & Hr & Ht). apply try_draws_all_taken; assumption.
Qed.

(** for draws in [1000, 999999]: ValueError iff there are 1000 of them and all are in use *)
Corollary draws_value_error_iff_in_range claimed ch draws :
  short_taken claimed -> Forall in_range draws ->
  (find_available claimed (mkAO ch draws) = AllocValueError <->
   (1000 <= List.length draws)%nat /\ Forall (taken claimed) (firstn 1000 draws)).
Proof.
  intros Hs Hr. rewrite (draws_value_error_iff claimed ch draws Hs).
  pose proof (Forall_firstn_t in_range draws Hr 1000) as Hr'.
  tauto.
Qed.

(** for draws in [1000, 999999] the record is rejected only when it stops
    short: fewer than 1000 draws, all in use (the implementation would have
    drawn again) *)
Corollary draws_rejected_iff_in_range claimed ch draws :
  short_taken claimed -> Forall in_range draws ->
  (find_available claimed (mkAO ch draws) = AllocOracleError <->
   (List.length draws < 1000)%nat /\ Forall (taken claimed) draws).
Proof.
  intros Hs Hr.
  pose proof (Forall_firstn_t in_range draws Hr 1000) as Hr'.
  rewrite (find_available_draws_char claimed ch draws Hs Hr').
  destruct (find (free_b claimed) (firstn 1000 draws)) as [v|] eqn:Ef.
  - split; [discriminate|]. intros [Hl Ht]. exfalso.
    rewrite firstn_all2 in Ef by lia.
    apply find_free_none in Ht. congruence.
  - apply find_free_none in Ef. destruct (1000 <=? List.length draws)%nat eqn:El.
    + apply Nat.leb_le in El. split; [discriminate|]. intros [Hl _]. lia.
    + apply Nat.leb_gt in El. split; [|reflexivity]. intros _. split; [exact El|].
      rewrite firstn_all2 in Ef by lia. exact Ef.
Qed.

(** * server.py: allocate_nameplate on the draws path *)

(** all 1000 draws in use: ValueError escapes, nothing has happened *)
Theorem allocate_all_taken_raises a side w ch draws draw s :
  short_taken (sel_names (chan_w s) a) -> (1000 <= List.length draws)%nat ->
  Forall in_range (firstn 1000 draws) ->
  Forall (taken (sel_names (chan_w s) a)) (firstn 1000 draws) ->
  allocate_nameplate a side w (mkAO ch draws) draw s = Exn XValue s.
Proof.
  intros Hs Hl Hr Ht. unfold allocate_nameplate, bind, q.
  rewrite (draws_all_taken_value_error _ ch draws Hs Hl Hr Ht). reflexivity.
Qed.

(** the first free draw is the name that is claimed and returned *)
Theorem allocate_first_free_claimed a side w ch pre v rest draw s :
  let claimed := sel_names (chan_w s) a in
  short_taken claimed ->
  Forall in_range pre -> Forall (taken claimed) pre -> (List.length pre < 1000)%nat ->
  in_range v -> smem (show_Z v) claimed = false ->
  allocate_nameplate a side w (mkAO ch (pre ++ v :: rest)) draw s =
    bind (claim_nameplate a (show_Z v) side w draw) (fun _ => ret (show_Z v)) s.
Proof.
  intros claimed Hs Hpr Hpt Hlen Hv Hf. unfold allocate_nameplate, bind at 1, q.
  fold claimed.
  rewrite (proj1 (draws_first_free_wins claimed ch pre v rest Hs Hpr Hpt Hlen Hv Hf)).
  reflexivity.
Qed.

(** * non-vacuity (computed) *)

Definition all_short : list string := map show_Z (range_from 1 999).

Lemma all_short_taken_ok extra : short_taken (all_short ++ extra).
Proof.
  intros v Hv. apply smem_In. apply in_or_app. left. unfold all_short.
  apply in_map. apply range_from_In. cbn. lia.
Qed.

(** "1000" and "4242" are in use besides "1" .. "999": of the draws 4242, 1000,
    5000, 1000 the third one wins *)
Example draws_example_ok :
  find_available (all_short ++ ["1000"; "4242"]) (mkAO None [4242; 1000; 5000; 1000]) =
    AllocOk "5000".
Proof. vm_compute. reflexivity. Qed.

Example draws_example_ok_by_theorem :
  find_available (all_short ++ ["1000"; "4242"]) (mkAO (Some "7") ([4242; 1000] ++ 5000 :: [1000])) =
    AllocOk (show_Z 5000).
Proof.
  apply (draws_first_free_wins (all_short ++ ["1000"; "4242"]) (Some "7") [4242; 1000] 5000 [1000]).
  - apply all_short_taken_ok.
  - repeat constructor; unfold in_range; lia.
  - repeat constructor; vm_compute; reflexivity.
  - cbn. lia.
  - unfold in_range; lia.
  - vm_compute. reflexivity.
Qed.

(** 1000 draws, all of them "1000" or "4242": ValueError; 999 of them: rejected *)
Example draws_example_value_error :
  find_available (all_short ++ ["1000"; "4242"]) (mkAO None (repeat 1000 500 ++ repeat 4242 500)) =
    AllocValueError /\
  find_available (all_short ++ ["1000"; "4242"]) (mkAO None (repeat 1000 500 ++ repeat 4242 499)) =
    AllocOracleError.
Proof. split; vm_compute; reflexivity. Qed.

Print Assumptions find_available_draws.
Print Assumptions find_available_draws_char.
Print Assumptions draws_first_free_wins.
Print Assumptions draws_all_taken_value_error.
Print Assumptions draws_ok_iff.
Print Assumptions draws_value_error_iff.
Print Assumptions draws_value_error_iff_in_range.
Print Assumptions draws_rejected_iff_in_range.
Print Assumptions allocate_all_taken_raises.
Print Assumptions allocate_first_free_claimed.
