(** Usage.v -- blur rounding and the usage summaries
    (server.py: log_client_version, _summarize_nameplate_usage,
    _summarize_mailbox, dump_stats). Times are in ticks. *)
From MW Require Import Base Store Monad.

(* `if self._blur_usage: t = blur * (t // blur)`; 0 is falsy in Python *)
Definition blur_round (b : option Z) (t : Z) : Z :=
  match b with
  | Some B => if B =? 0 then t else B * (t / B)
  | None => t
  end.

(** ** _summarize_nameplate_usage: None = IndexError (no side row) *)
Definition summarize_nameplate (b : option Z) (app : string) (side_rows : list nps_row)
           (delete_time : Z) (pruned : bool) : option u_np_row :=
  let times := zsort (map nps_added side_rows) in
  match times with
  | [] => None
  | t0 :: rest =>
      let started := blur_round b t0 in
      let waiting := match rest with t1 :: _ => Some (t1 - t0) | [] => None end in
      let total := delete_time - t0 in
      let n := List.length times in
      let result :=
          if (2 <? n)%nat then "crowded"
          else if pruned then "pruney"
          else if (n =? 2)%nat then "happy"
          else "lonely" in
      Some (mkUNp app started waiting total result)
  end.

(** ** _summarize_mailbox (with the repaired empty-list case) *)
Definition truthy_mood (m : option string) : option string :=
  match m with
  | Some s => if seqb s "" then None else Some s
  | None => None
  end.

Fixpoint moods_of (side_rows : list mbs_row) : list string :=
  match side_rows with
  | [] => []
  | r :: l => match truthy_mood (mbs_mood r) with
              | Some s => s :: moods_of l
              | None => moods_of l
              end
  end.

Definition summarize_mailbox (b : option Z) (app : string) (for_np : bool)
           (side_rows : list mbs_row) (delete_time : Z) (pruned : bool) : u_mb_row :=
  let times := zsort (map mbs_added side_rows) in
  let first := match times with t0 :: _ => t0 | [] => delete_time end in
  let started := blur_round b first in
  let waiting := match times with t0 :: t1 :: _ => Some (t1 - t0) | _ => None end in
  let total := delete_time - first in
  let n := List.length times in
  let moods := moods_of side_rows in
  let result :=
      if (2 <? n)%nat then "crowded"
      else if pruned then "pruney"
      else if smem "scary" moods then "scary"
      else if smem "errory" moods then "errory"
      else if smem "lonely" moods then "lonely"
      else if (n =? 0)%nat then "quiet"
      else if (n =? 1)%nat then "lonely"
      else "happy" in
  mkUMb app for_np started total waiting result.
