(** ResumeFacts.v -- C10, last sentence: a client whose claim / release /
    open / close was interrupted by a crash of the server at ANY commit boundary
    inside that command, and who reconnects (same side) and re-sends it, gets
    the same answer and reaches the same stored channel state as if no crash
    had happened. *)
From MW Require Import Base Store Monad Usage Server Websocket Service Findings
     Inv StoreFacts Hoare DbFactsA DbFactsB OpFacts ProtoFacts Obs StepFacts SweepFacts
     NpFactsA MbFactsA MbFactsB DupFacts.
From MW Require TimeInv.
Local Open Scope list_scope.

(** nothing is old enough to be expired by the sweep that runs when the
    server starts again (otherwise the restart itself -- not the crash -- changes
    the stored state, which is expiry at work, not a loss) *)
Definition nothing_expirable (cfg : config) (s : state) : Prop :=
  forall r, In r (mailboxes (chan_w s)) -> now s - exp cfg < mb_updated r.

(** * Auxiliary: logs, snapshots, replay *)

(** every mailbox row of [d] was updated after the cut-off [t - e] *)
Definition young (e t : Z) (d : chan_db) : Prop :=
  forall r, In r (mailboxes d) -> t - e < mb_updated r.

(** the channel database restored from a log prefix is the starting one or one
    of the snapshots of the log *)
Lemma replay_in l : forall k c u,
  fst (replay_commits (log_prefix k l) c u) = c \/
  In (LCommitChan (fst (replay_commits (log_prefix k l) c u))) l.
Proof.
  induction l as [|x l IH]; intros k c u.
  - destruct k; cbn; auto.
  - destruct k as [|k]; [cbn; auto|]. cbn [log_prefix].
    destruct x as [d|u'|c0 f b]; cbn [is_commit replay_commits].
    + destruct (IH k d u) as [H|H]; [|right; right; exact H].
      right. left. rewrite H. reflexivity.
    + destruct (IH k c u') as [H|H]; [left; exact H|right; right; exact H].
    + destruct (IH (S k) c u) as [H|H]; [left; exact H|right; right; exact H].
Qed.

Lemma rs_filter_nil {A} (p : A -> bool) l : (forall x, In x l -> p x = false) -> filter p l = [].
Proof.
  induction l as [|x l IH]; intros H; cbn [filter]; [reflexivity|].
  rewrite (H x (or_introl eq_refl)). apply IH. intros y Hy. apply H. right. exact Hy.
Qed.

Section WithConfig.
Variable cfg : config.
Hypothesis Hexp : 0 < exp cfg.

(** * The start-up sweep deletes nothing when no mailbox is old and nobody listens *)

Lemma old_mailboxes_young d a t :
  young (exp cfg) t d -> old_mailboxes d a (t - exp cfg) = [].
Proof.
  intros Hy. unfold old_mailboxes. apply rs_filter_nil. intros r Hr.
  apply sel_mbs_of_app_In in Hr. destruct Hr as [Hr _].
  apply negb_false_iff. apply Z.ltb_lt. apply Hy. exact Hr.
Qed.

Lemma prune_body_idle d a when old :
  old_mailboxes d a old = [] -> prune_body cfg d a when old = TxOk (false, [], []) d.
Proof.
  intros H. unfold prune_body, old_nameplates. cbv zeta. rewrite H. cbn [map].
  rewrite (rs_filter_nil (fun r => smem (np_mbox r) [])) by reflexivity.
  reflexivity.
Qed.

Definition idle_post (s : state) : state -> Prop :=
  fun s' => chan_w s' = chan_w s /\ subs s' = subs s /\ now s' = now s.

Lemma prune_app_idle a when old s :
  subs s = [] -> old_mailboxes (chan_w s) a old = [] ->
  wp (prune_app cfg a when old) (fun _ s' => idle_post s s') (fun _ _ => False) s.
Proof.
  intros Hs Ho. unfold prune_app. wp_step. wp_step. wp_step. wp_step.
  rewrite Hs. cbn [listened_mailboxes filter map sdedup touch_all].
  wp_step. wp_step. wp_step. wp_step. cbn [chan_w set_chan_w].
  rewrite (prune_body_idle _ a when old Ho). cbv beta iota.
  unfold idle_post.
  destruct (usage_on cfg).
  - unfold write_usage. wp_step. wp_step. wp_step. cbn. auto.
  - wp_step. wp_step. wp_step. cbn. auto.
Qed.

Lemma prune_apps_idle apps when old : forall s,
  subs s = [] -> (forall a, old_mailboxes (chan_w s) a old = []) ->
  wp (prune_apps cfg apps when old) (fun _ s' => idle_post s s') (fun _ _ => False) s.
Proof.
  induction apps as [|a rest IH]; intros s Hs Ho; cbn [prune_apps].
  - wp_step. unfold idle_post. auto.
  - wp_step. eapply wp_conseq; [exact (prune_app_idle a when old s Hs (Ho a))| |].
    + intros [] s1 (E1 & E2 & E3). cbv beta.
      eapply wp_conseq; [apply (IH s1)| |].
      * rewrite E2. exact Hs.
      * intros a'. rewrite E1. apply Ho.
      * intros [] s2 (F1 & F2 & F3). unfold idle_post. repeat split; congruence.
      * intros e s' [].
    + intros e s' [].
Qed.

Lemma expire_idle s :
  subs s = [] -> young (exp cfg) (now s) (chan_w s) ->
  wp (expire cfg false) (fun _ s' => idle_post s s') (fun _ _ => False) s.
Proof.
  intros Hs Hy. unfold expire. wp_step. wp_step. wp_step. wp_step.
  unfold prune_all_apps. wp_step. wp_step.
  eapply wp_conseq; [apply (prune_apps_idle _ (now s) (now s - exp cfg) s Hs)| |].
  - intros a. apply old_mailboxes_young. exact Hy.
  - intros [] s1 (E1 & E2 & E3). cbv beta. unfold dump_stats.
    destruct (usage_on cfg).
    + wp_step. wp_step. wp_step. wp_step. wp_step. unfold idle_post. cbn. auto.
    + wp_step. unfold idle_post. auto.
  - intros e s' [].
Qed.

Lemma boot_on_idle c u t :
  DbInv c -> young (exp cfg) t c ->
  let s1 := fst (fst (boot_on cfg c u t)) in
  SInv s1 /\ log s1 = [] /\ conns s1 = [] /\ subs s1 = [] /\ chan_w s1 = c /\ now s1 = t.
Proof.
  intros Hdb Hy. pose proof (boot_on_spec cfg Hexp c u t Hdb) as B.
  rewrite boot_on_eq in *.
  set (s0 := mkState c c u u [] [] t t t (t + period cfg) []) in *.
  pose proof (expire_idle s0 eq_refl Hy) as W. unfold wp in W.
  destruct (expire cfg false s0) as [[] s'|e s']; [|destruct W].
  cbn [fst]. destruct B as (B1 & B2 & B3 & B4 & _). destruct W as (W1 & _ & W3).
  split; [exact B1|]. split; [exact B2|]. split; [exact B3|]. split; [exact B4|].
  split; [exact W1|exact W3].
Qed.

(** * The state after a crash inside a command *)

Lemma step_b_cmd_facts s c cs msg o :
  lookup_conn c (conns s) = Some cs ->
  exists s1 x, step_b cfg s (ECmd c msg o) = (s1, true, x) /\ now s1 = now s.
Proof.
  intros Hl. unfold step_b, has_conn. rewrite Hl.
  pose proof (TimeInv.pres_elim false (now s) _ (on_message cfg c msg o) s
                (TimeInv.pres_on_message cfg false (now s) c msg o) (TimeInv.TI_false s)) as H.
  destruct (on_message cfg c msg o s) as [u s'|e s'].
  - exists s', None. split; [reflexivity|exact (proj2 H)].
  - exists (drop_conn c s'), (Some e). split; [reflexivity|].
    exact (proj2 (TimeInv.drop_conn_INV false (now s) c s' H)).
Qed.

Lemma crash_state s c cs msg o k :
  SInv s -> log s = [] -> lookup_conn c (conns s) = Some cs ->
  young (exp cfg) (now s) (chan_w s) ->
  young (exp cfg) (now s) (chan_w (fst (step cfg s (EB (ECmd c msg o))))) ->
  (forall d, In (LCommitChan d) (o_log (snd (step cfg s (EB (ECmd c msg o))))) ->
             young (exp cfg) (now s) d) ->
  let s1 := fst (step cfg s (EB (ECmd c msg o))) in
  let ob := snd (step cfg s (EB (ECmd c msg o))) in
  let sk := fst (step cfg s (ECrash k (ECmd c msg o))) in
  SInv sk /\ log sk = [] /\ conns sk = [] /\ subs sk = [] /\ now sk = now s /\
  (chan_w sk = chan_w s \/ chan_w sk = chan_w s1 \/ In (LCommitChan (chan_w sk)) (o_log ob)).
Proof.
  intros Hs Hlog Hl Hy0 Hy1 Hyl.
  pose proof (step_spec cfg Hexp s (EB (ECmd c msg o)) Hs) as Spec.
  revert Hy1 Hyl Spec. unfold step. rewrite (set_log_nil s Hlog).
  destruct (step_b_cmd_facts s c cs msg o Hl) as (s1' & x & Eb & Hnow). rewrite Eb.
  cbn [fst snd o_log chan_w set_log]. intros Hy1 Hyl (S1 & _ & Lok & _).
  cbn [o_log] in Lok.
  assert (Hcl : chan_c s1' = chan_w s1').
  { destruct (si_clean _ S1) as [K _]. cbn [chan_w chan_c set_log] in K. symmetry. exact K. }
  cbn [negb orb]. rewrite orb_false_r.
  destruct (count_commits (rev (log s1')) <? k)%nat.
  - pose proof (boot_on_idle (chan_c s1') (usage_c s1') (now s1')) as B.
    rewrite Hcl, Hnow in B. specialize (B (si_db _ S1) Hy1).
    rewrite Hcl, Hnow.
    destruct (boot_on cfg (chan_w s1') (usage_c s1') (now s)) as [[s2 bl] x2].
    cbn [fst] in *. destruct B as (B1 & B2 & B3 & B4 & B5 & B6).
    repeat (split; [assumption|]). right. left. exact B5.
  - pose proof (replay_in (rev (log s1')) k (chan_c s) (usage_c s)) as R.
    destruct (replay_commits (log_prefix k (rev (log s1'))) (chan_c s) (usage_c s)) as [c0 u0].
    cbn [fst] in R.
    assert (Hc0 : chan_c s = chan_w s) by (destruct (si_clean _ Hs) as [K _]; symmetry; exact K).
    rewrite Hc0 in R.
    assert (Hd : DbInv c0 /\ young (exp cfg) (now s) c0).
    { destruct R as [->|R]; [split; [exact (si_db _ Hs)|exact Hy0]|].
      split; [|apply Hyl; exact R].
      exact (proj1 (Forall_forall _ _) Lok _ R). }
    pose proof (boot_on_idle c0 u0 (now s1')) as B. rewrite Hnow in B.
    specialize (B (proj1 Hd) (proj2 Hd)). rewrite Hnow.
    destruct (boot_on cfg c0 u0 (now s)) as [[s2 bl] x2].
    cbn [fst] in *. destruct B as (B1 & B2 & B3 & B4 & B5 & B6).
    repeat (split; [assumption|]). rewrite B5.
    destruct R as [R|R]; [left; exact R|right; right; exact R].
Qed.

(** * The re-sent command on a fresh connection, reduced to its own step *)

Lemma resend_run sk c' a side cmd o D F :
  has_conn c' sk = false ->
  (forall s2, chan_w s2 = chan_w sk -> chan_c s2 = chan_c sk -> subs s2 = subs sk ->
     conns s2 = conns sk ++ [(c', set_bound new_conn (Some (a, side)))] ->
     clk s2 = clk sk -> log s2 = [] ->
     exists s3 o3 cs3,
       step cfg s2 (EB (ECmd c' cmd o)) = (s3, o3) /\
       conns s3 = update_conn c' cs3 (conns s2) /\ chan_w s3 = D /\ chan_c s3 = D /\
       frames_of (o_log o3) = F /\ o_exc o3 = None) ->
  let '(s4, obs) := run cfg sk (dup_events c' a side cmd o) in
  chan_w s4 = D /\ chan_c s4 = D /\
  exists o1 o2 o3 o4, obs = [o1; o2; o3; o4] /\ frames_of (o_log o3) = F /\ o_exc o3 = None.
Proof.
  intros Hno Hstep.
  destruct (dup_run cfg sk c' a side cmd o Hno)
    as (Hl & s2 & o1 & o2 & Hw & Hc & Hs & Hcn & Hk & Hlg & Hrun).
  destruct (Hstep s2 Hw Hc Hs Hcn Hk Hlg) as (s3 & o3 & cs3 & E3 & Hcn3 & Hw3 & Hc3 & Hfr & Hex).
  rewrite Hcn, (dup_update_snoc _ _ _ _ Hl) in Hcn3.
  destruct (step_disconnect cfg s3 c' (conns sk) cs3 Hcn3 Hl)
    as (s4 & o4 & E4 & Hw4 & Hc4 & _).
  rewrite (Hrun s3 o3 s4 o4 E3 E4).
  split; [congruence|]. split; [congruence|]. exists o1, o2, o3, o4. auto.
Qed.

(** * Which rows a command writes: all carry the current time *)

Lemma young_same e t d d' : mailboxes d' = mailboxes d -> young e t d -> young e t d'.
Proof. unfold young. intros ->. auto. Qed.

Lemma young_incl e t d d' :
  (forall r, In r (mailboxes d') -> In r (mailboxes d)) -> young e t d -> young e t d'.
Proof. unfold young. auto. Qed.

Lemma add_mailbox_young e t d a m f d1 :
  0 < e -> young e t d -> add_mailbox d a m f t = Some d1 -> young e t d1.
Proof.
  intros He Hy. unfold add_mailbox.
  destruct (sel_mb d a m); [intros K; inversion K; subst; exact Hy|].
  intros K. apply ins_mb_spec in K. destruct K as [_ ->].
  intros r Hr. cbn [mailboxes set_mailboxes] in Hr. apply in_app_iff in Hr.
  destruct Hr as [Hr|[<-|[]]]; [apply Hy; exact Hr|cbn; lia].
Qed.

Lemma claim_side_body_mbs d npid mbox side t x d1 :
  claim_side_body d npid mbox side t = TxOk x d1 -> mailboxes d1 = mailboxes d.
Proof.
  unfold claim_side_body. destruct (sel_nps d npid side) as [r|].
  - destruct (nps_claimed r); intros K; inversion K; reflexivity.
  - destruct (ins_nps d (mkNps npid true side t)) as [d'|] eqn:E; [|discriminate].
    apply ins_nps_spec in E. destruct E as [_ ->]. intros K; inversion K. reflexivity.
Qed.

Lemma claim_body_young e t d a n side draw x d1 :
  0 < e -> young e t d -> claim_body d a n side t draw = TxOk x d1 -> young e t d1.
Proof.
  intros He Hy. unfold claim_body. destruct (sel_np d a n) as [np|].
  - intros K. apply claim_side_body_mbs in K. exact (young_same _ _ _ _ K Hy).
  - destruct draw as [bytes|]; [|discriminate]. cbv zeta.
    destruct (add_mailbox d a (genid bytes) true t) as [d0|] eqn:E0; [|discriminate].
    pose proof (add_mailbox_young e t d a _ _ d0 He Hy E0) as Hy0.
    destruct (ins_np d0 a n (genid bytes)) as [[d2 npid]|] eqn:E2; [|discriminate].
    apply ins_np_spec in E2. intros K. apply claim_side_body_mbs in K.
    apply (young_same _ _ _ _ K). destruct E2 as (_ & _ & ->). exact Hy0.
Qed.

Lemma open_db_young e t d a m side :
  0 < e -> young e t d -> young e t (open_db d a m side t).
Proof.
  intros He Hy r Hr. unfold open_db in Hr. cbn [mailboxes] in Hr.
  apply in_map_iff in Hr. destruct Hr as (r0 & <- & Hr0). unfold touch_row.
  destruct (seqb (mb_id r0) m); [cbn; lia|].
  destruct (sel_mb d a m); [apply Hy; exact Hr0|].
  apply in_app_iff in Hr0. destruct Hr0 as [Hr0|[<-|[]]]; [apply Hy; exact Hr0|cbn; lia].
Qed.

(** * claim *)

Lemma claim_step_gen s c cs a side n cmd o npid mbox d1 d2 :
  lookup_conn c (conns s) = Some cs -> c_bound cs = Some (a, side) -> c_did_claim cs = false ->
  m_type cmd = Some TClaim -> m_nameplate cmd = Some n ->
  claim_body (chan_w s) a n side (now s) (o_draw o) = TxOk (npid, mbox) d1 ->
  open_body d1 a mbox side (now s) = TxOk tt d2 ->
  (List.length (sel_mbs_all d2 mbox) <= 2)%nat -> (List.length (sel_nps_all d2 npid) <= 2)%nat ->
  exists s3 o3 cs3,
    step cfg s (EB (ECmd c cmd o)) = (s3, o3) /\
    conns s3 = update_conn c cs3 (conns s) /\ chan_w s3 = d2 /\ chan_c s3 = d2 /\
    frames_of (o_log o3) = [(c, FAck (m_id cmd)); (c, FClaimed mbox)] /\ o_exc o3 = None /\
    (forall d, In (LCommitChan d) (o_log o3) -> d = d1 \/ d = d2).
Proof.
  intros Hl Hb Hdc Ht Hn Ecb Eob L1 L2.
  rewrite (step_cmd cfg s c cmd o TClaim cs Hl Ht).
  set (s0 := set_log s [LFrame c (FAck (m_id cmd)) (is_clean s) (now s)]).
  rewrite (dispatch_bound cfg c TClaim cmd o s0 a side)
    by (try discriminate; unfold conn_of, s0; cbn [conns set_log]; rewrite Hl; exact Hb).
  rewrite (handle_claim_eval c a side cmd o n s0 cs npid mbox d1 d2 Hl Hn Hdc Ecb Eob).
  rewrite (le2_ltb _ L1), (le2_ltb _ L2). cbn [orb].
  eexists. eexists. eexists. split; [reflexivity|].
  cbn [chan_w chan_c subs conns now timer_start next_due log set_log claimed_state claim_conn
       set_conns o_log o_exc s0 rev app frames_of].
  split; [reflexivity|]. split; [reflexivity|]. split; [reflexivity|].
  split; [reflexivity|]. split; [reflexivity|].
  intros d Hd. cbn [In] in Hd.
  destruct Hd as [Hd|[Hd|[Hd|[Hd|[Hd|[]]]]]]; inversion Hd; auto.
Qed.

(** what the answered original claim did *)
Lemma claim_orig s c cs a side msg o n mbox :
  SInv s -> log s = [] ->
  lookup_conn c (conns s) = Some cs -> c_bound cs = Some (a, side) ->
  m_type msg = Some TClaim -> erroneous cs msg = false -> m_nameplate msg = Some n ->
  In (c, FClaimed mbox) (frames_of (o_log (snd (step cfg s (EB (ECmd c msg o)))))) ->
  exists np d1,
    c_did_claim cs = false /\
    claim_body (chan_w s) a n side (now s) (o_draw o) = TxOk (np_id np, np_mbox np) d1 /\
    np_mbox np = mbox /\ DbInv d1 /\ sel_np d1 a n = Some np /\ holder d1 a n side /\
    open_body d1 a mbox side (now s) = TxOk tt (open_db d1 a mbox side (now s)) /\
    (List.length (sel_mbs_all (open_db d1 a mbox side (now s)) mbox) <= 2)%nat /\
    (List.length (sel_nps_all (open_db d1 a mbox side (now s)) (np_id np)) <= 2)%nat.
Proof.
  intros HS Hlog Hlk Hb Ht Herr Hn.
  destruct HS as [Hdb [Hcw Hcu] _ _ _ _].
  unfold erroneous in Herr. rewrite Ht, Hb, Hn in Herr.
  rewrite (step_cmd cfg s c msg o TClaim cs Hlk Ht).
  set (s1 := set_log s [LFrame c (FAck (m_id msg)) (is_clean s) (now s)]).
  assert (Hco : conn_of s1 c = cs) by (unfold conn_of; cbn; rewrite Hlk; reflexivity).
  rewrite (dispatch_bound cfg c TClaim msg o s1 a side); try discriminate;
    [|rewrite Hco; exact Hb].
  pose proof (claim_body_ok (chan_w s) a n side (now s) (o_draw o) Hdb) as Hok.
  pose proof (claim_body_extras (chan_w s) a n side (now s) (o_draw o) Hdb) as Hex.
  destruct (claim_body (chan_w s) a n side (now s) (o_draw o)) as [[npid mbox'] d1|e d1] eqn:Ecb.
  - destruct Hok as (Hdb1 & _ & Hmb1 & np & Hnp & Hid & Hmx).
    destruct Hex as (_ & _ & np' & Hnp' & _ & _ & Hh).
    subst npid mbox'.
    pose proof (open_body_has d1 a (np_mbox np) side (now s) Hmb1) as Eob.
    rewrite (handle_claim_eval c a side msg o n s1 cs (np_id np) (np_mbox np) d1 _ Hlk Hn Herr Ecb Eob).
    set (d2 := open_db d1 a (np_mbox np) side (now s)).
    destruct (2 <? List.length (sel_mbs_all d2 (np_mbox np)))%nat eqn:E1; cbn [orb].
    { cbv beta iota. cbn [snd o_log log claimed_state claim_conn set_conns set_log s1 rev app frames_of In].
      intros [H|[H|[]]]; discriminate. }
    destruct (2 <? List.length (sel_nps_all d2 (np_id np)))%nat eqn:E2.
    { cbv beta iota. cbn [snd o_log log claimed_state claim_conn set_conns set_log s1 rev app frames_of In].
      intros [H|[H|[]]]; discriminate. }
    cbv beta iota. cbn [snd o_log log claimed_state claim_conn set_conns set_log s1 rev app frames_of In chan_w].
    intros [H|[H|[]]]; [discriminate|]. inversion H. subst mbox.
    apply Nat.ltb_ge in E1. apply Nat.ltb_ge in E2.
    exists np, d1. auto 12.
  - destruct Hok as (-> & _).
    pose proof (handle_claim_fail_wp c a side msg o n s1 cs e Hlk Hn Herr Ecb) as W.
    apply wp_elim in W. destruct W as [(x & s' & _ & [])|(e' & s' & E & -> & ->)].
    rewrite E.
    destruct e; cbv beta iota;
      try rewrite (proj2 (proj2 (NpFactsA.drop_conn_frame c (claim_conn s1 c cs n))));
      cbn [snd o_log log claim_conn set_conns set_log s1 rev app frames_of In];
      intros Hin; exfalso;
      repeat (destruct Hin as [Hin|Hin]; [discriminate|]); exact Hin.
Qed.

Lemma holder_sel d a n side np :
  DbInv d -> sel_np d a n = Some np -> holder d a n side ->
  exists r, sel_nps d (np_id np) side = Some r /\ nps_claimed r = true.
Proof.
  intros Hdb Hnp (np' & r & Hnp' & Hr & Hid & Hsd & Hcl).
  assert (np' = np) by congruence. subst np'.
  exists r. split; [|exact Hcl].
  destruct (sel_nps d (np_id np) side) as [r1|] eqn:E.
  - destruct (sel_nps_some _ _ _ _ E) as (H1 & H2 & H3). f_equal.
    apply (nps_unique d); auto; congruence.
  - exfalso. apply (proj1 (sel_nps_none _ _ _) E r Hr). auto.
Qed.

Lemma open_db_fix d a m side t :
  open_body (open_db d a m side t) a m side t = TxOk tt (open_db d a m side t).
Proof.
  set (d2 := open_db d a m side t).
  pose proof (open_db_has_mb d a m side t) as Hmb. fold d2 in Hmb.
  rewrite (open_body_has _ _ _ _ _ Hmb). f_equal.
  rewrite (open_db_touch _ _ _ _ _ Hmb (open_db_side d a m side t)).
  apply upd_touch_same. intros r Hr E. exact (open_db_stamp d a m side t r Hr E).
Qed.

(** for every k: the server dies right after the k-th commit of the command
    (k = 0: before any; k beyond the last: after completing it) *)
Theorem claim_resume s c cs a side msg o n mbox k c' :
  SInv s -> log s = [] -> nothing_expirable cfg s ->
  lookup_conn c (conns s) = Some cs -> c_bound cs = Some (a, side) ->
  m_type msg = Some TClaim -> erroneous cs msg = false -> m_nameplate msg = Some n ->
  In (c, FClaimed mbox) (frames_of (o_log (snd (step cfg s (EB (ECmd c msg o)))))) ->
  let s1 := fst (step cfg s (EB (ECmd c msg o))) in
  let sk := fst (step cfg s (ECrash k (ECmd c msg o))) in
  let '(s2, obs) := run cfg sk (dup_events c' a side msg o) in
  chan_w s2 = chan_w s1 /\ chan_c s2 = chan_c s1 /\
  exists o1 o2 o3 o4, obs = [o1; o2; o3; o4] /\
    frames_of (o_log o3) = [(c', FAck (m_id msg)); (c', FClaimed mbox)] /\ o_exc o3 = None.
Proof.
  intros HS Hlog Hne Hl Hb Ht Herr Hn Hfr s1 sk.
  destruct (claim_orig s c cs a side msg o n mbox HS Hlog Hl Hb Ht Herr Hn Hfr)
    as (np & d1 & Hdc & Ecb & Hmx & Hdb1 & Hnp1 & Hh1 & Eob & L1 & L2).
  subst mbox. set (t := now s) in *. set (d2 := open_db d1 a (np_mbox np) side t) in *.
  destruct (claim_step_gen s c cs a side n msg o (np_id np) (np_mbox np) d1 d2
              Hl Hb Hdc Ht Hn Ecb Eob L1 L2)
    as (s3 & o3 & cs3 & E3 & _ & Hw3 & Hc3 & _ & _ & Hsn).
  assert (Hy0 : young (exp cfg) t (chan_w s)) by exact Hne.
  assert (Hy1 : young (exp cfg) t d1) by exact (claim_body_young _ _ _ _ _ _ _ _ _ Hexp Hy0 Ecb).
  assert (Hy2 : young (exp cfg) t d2) by exact (open_db_young _ _ _ _ _ _ Hexp Hy1).
  pose proof (crash_state s c cs msg o k HS Hlog Hl Hy0) as K.
  rewrite E3 in K. cbn [fst snd] in K. cbv zeta in K. fold sk in K. fold t in K.
  rewrite Hw3 in K. specialize (K Hy2).
  assert (Hyl : forall d, In (LCommitChan d) (o_log o3) -> young (exp cfg) t d).
  { intros d Hd. destruct (Hsn d Hd) as [->| ->]; assumption. }
  destruct (K Hyl) as (Sk & Lk & Ck & Subk & Nk & Hd). clear K.
  assert (Es1 : s1 = s3) by (unfold s1; rewrite E3; reflexivity).
  assert (Hno : has_conn c' sk = false) by (unfold has_conn; rewrite Ck; reflexivity).
  destruct (holder_sel d1 a n side np Hdb1 Hnp1 Hh1) as (r1 & Hr1 & Hcl1).
  assert (A1 : claim_body d1 a n side t (o_draw o) = TxOk (np_id np, np_mbox np) d1)
    by exact (claim_body_done d1 a n side t (o_draw o) np r1 Hnp1 Hr1 Hcl1).
  assert (A2 : claim_body d2 a n side t (o_draw o) = TxOk (np_id np, np_mbox np) d2)
    by exact (claim_body_done d2 a n side t (o_draw o) np r1 Hnp1 Hr1 Hcl1).
  assert (B2 : open_body d2 a (np_mbox np) side t = TxOk tt d2) by apply open_db_fix.
  assert (Hk : exists d1', claim_body (chan_w sk) a n side t (o_draw o) =
                             TxOk (np_id np, np_mbox np) d1' /\
                           open_body d1' a (np_mbox np) side t = TxOk tt d2).
  { destruct Hd as [->|[->|Hd]].
    - exists d1. auto.
    - exists d2. auto.
    - destruct (Hsn _ Hd) as [->| ->]; [exists d1|exists d2]; auto. }
  destruct Hk as (d1' & Ecb' & Eob').
  pose proof (resend_run sk c' a side msg o d2
                [(c', FAck (m_id msg)); (c', FClaimed (np_mbox np))] Hno) as R.
  assert (Hstep : forall s2, chan_w s2 = chan_w sk -> chan_c s2 = chan_c sk -> subs s2 = subs sk ->
     conns s2 = conns sk ++ [(c', set_bound new_conn (Some (a, side)))] ->
     clk s2 = clk sk -> log s2 = [] ->
     exists s3 o3 cs3,
       step cfg s2 (EB (ECmd c' msg o)) = (s3, o3) /\
       conns s3 = update_conn c' cs3 (conns s2) /\ chan_w s3 = d2 /\ chan_c s3 = d2 /\
       frames_of (o_log o3) = [(c', FAck (m_id msg)); (c', FClaimed (np_mbox np))] /\
       o_exc o3 = None).
  { intros s2 Hw Hc Hs Hcn Hclk Hlg.
    destruct (clk_inv _ _ Hclk) as (Hn2 & _).
    assert (Hl2 : lookup_conn c' (conns s2) = Some (set_bound new_conn (Some (a, side)))).
    { rewrite Hcn, Ck. cbn. rewrite Nat.eqb_refl. reflexivity. }
    rewrite <- Hw, <- Nk, <- Hn2 in Ecb'. rewrite <- Nk, <- Hn2 in Eob'.
    destruct (claim_step_gen s2 c' _ a side n msg o (np_id np) (np_mbox np) d1' d2
                Hl2 eq_refl eq_refl Ht Hn Ecb' Eob' L1 L2)
      as (s4 & o4 & cs4 & E4 & Q1 & Q2 & Q3 & Q4 & Q5 & _).
    exists s4, o4, cs4. auto 10. }
  specialize (R Hstep).
  destruct (run cfg sk (dup_events c' a side msg o)) as [s4 obs].
  rewrite Es1, Hw3, Hc3. exact R.
Qed.

(** * open *)

Lemma open_step_gen s c cs a side m cmd o d' :
  lookup_conn c (conns s) = Some cs -> c_bound cs = Some (a, side) -> c_mailbox cs = None ->
  m_type cmd = Some TOpen -> m_mailbox cmd = Some m ->
  open_body (chan_w s) a m side (now s) = TxOk tt d' ->
  (List.length (sel_mbs_all d' m) <= 2)%nat ->
  existsb (sub_is a m c) (subs s) = false ->
  exists s3 o3 cs3,
    step cfg s (EB (ECmd c cmd o)) = (s3, o3) /\
    conns s3 = update_conn c cs3 (conns s) /\ chan_w s3 = d' /\ chan_c s3 = d' /\
    frames_of (o_log o3) =
      (c, FAck (m_id cmd)) :: map (fun r => (c, msg_frame r)) (msg_sort (sel_msgs d' a m)) /\
    o_exc o3 = None /\
    (forall d, In (LCommitChan d) (o_log o3) -> d = d').
Proof.
  intros Hl Hb Hmb Ht Hm Eob Hle Hns.
  apply le2_ltb in Hle.
  rewrite (step_cmd cfg s c cmd o TOpen cs Hl Ht).
  set (s0 := set_log s [LFrame c (FAck (m_id cmd)) (is_clean s) (now s)]).
  rewrite (dispatch_bound cfg c TOpen cmd o s0 a side)
    by (try discriminate; unfold conn_of, s0; cbn [conns set_log]; rewrite Hl; exact Hb).
  unfold handle_open. rewrite bind_get_conn. unfold conn_of.
  change (conns s0) with (conns s). rewrite Hl, Hmb, Hm.
  set (cs1 := set_mailbox_id cs (Some m)).
  set (s1 := set_conns s0 (update_conn c cs1 (conns s0))).
  rewrite (bind_ok _ _ s0 tt s1) by reflexivity.
  rewrite bind_get.
  set (s2 := mkState d' d' (usage_w s1) (usage_c s1) (subs s1) (conns s1) (now s1) (boot s1)
                     (timer_start s1) (next_due s1) (LCommitChan d' :: LCommitChan d' :: log s1)).
  assert (E2 : catch_crowded (open_mailbox a m side (now s1)) s1 = Ok tt s2).
  { unfold catch_crowded, try_catch. rewrite open_mailbox_eval.
    change (chan_w s1) with (chan_w s). change (now s1) with (now s). rewrite Eob.
    cbv zeta. rewrite Hle. reflexivity. }
  rewrite (bind_ok _ _ s1 tt s2 E2).
  assert (Hl1 : lookup_conn c (conns s1) = Some cs1).
  { unfold s1. cbn [conns set_conns]. eapply lookup_upd_same. exact Hl. }
  rewrite bind_get_conn. unfold conn_of. change (conns s2) with (conns s1). rewrite Hl1.
  set (cs2 := set_listening (set_mailbox cs1 (Some m)) true).
  set (s3 := set_conns s2 (update_conn c cs2 (conns s2))).
  rewrite (bind_ok _ _ s2 tt s3) by reflexivity.
  set (s4 := set_subs s3 (subs s3 ++ [(a, m, c)])).
  assert (Hsub : add_sub a m c s3 = Ok tt s4).
  { unfold add_sub. change (subs s3) with (subs s). rewrite Hns. reflexivity. }
  rewrite (bind_ok _ _ s3 tt s4 Hsub).
  rewrite (bind_ok _ _ s4 (msg_sort (sel_msgs d' a m)) s4) by reflexivity.
  rewrite send_each_eval.
  eexists. eexists. exists cs2.
  split; [reflexivity|]. st_simpl. cbn [o_log o_exc].
  split. { unfold s4, s3, s2, s1, s0. st_simpl. rewrite dup_update_update. reflexivity. }
  split; [reflexivity|]. split; [reflexivity|].
  split.
  { rewrite rev_app_distr, rev_involutive.
    unfold s4, s3, s2, s1, s0. st_simpl. cbn [rev app]. cbn [frames_of app].
    rewrite frames_of_map_rows. reflexivity. }
  split; [reflexivity|].
  intros d Hd. apply in_rev in Hd. apply in_app_or in Hd. destruct Hd as [Hd|Hd].
  - apply in_rev in Hd. apply in_map_iff in Hd. destruct Hd as (x & Hx & _). discriminate.
  - unfold s4, s3, s2, s1, s0 in Hd. st_simpl_in Hd. cbn [In] in Hd.
    destruct Hd as [Hd|[Hd|[Hd|[]]]]; inversion Hd; reflexivity.
Qed.

(** the open that failed or was refused does not leave the connection holding the mailbox *)
Lemma open_not_held s c cs a side m msg o :
  lookup_conn c (conns s) = Some cs -> c_bound cs = Some (a, side) -> c_mailbox cs = None ->
  m_type msg = Some TOpen -> m_mailbox msg = Some m ->
  match open_body (chan_w s) a m side (now s) with
  | TxFail _ _ => True
  | TxOk _ d' => (2 <? List.length (sel_mbs_all d' m))%nat = true
  end ->
  forall a' m', ~ holds (fst (step cfg s (EB (ECmd c msg o)))) c a' m'.
Proof.
  intros Hl Hb Hmb Ht Hm Hcase a' m'.
  rewrite (step_cmd cfg s c msg o TOpen cs Hl Ht).
  set (s0 := set_log s [LFrame c (FAck (m_id msg)) (is_clean s) (now s)]).
  rewrite (dispatch_bound cfg c TOpen msg o s0 a side)
    by (try discriminate; unfold conn_of, s0; cbn [conns set_log]; rewrite Hl; exact Hb).
  unfold handle_open. rewrite bind_get_conn. unfold conn_of.
  change (conns s0) with (conns s). rewrite Hl, Hmb, Hm.
  set (cs1 := set_mailbox_id cs (Some m)).
  set (s1 := set_conns s0 (update_conn c cs1 (conns s0))).
  rewrite (bind_ok _ _ s0 tt s1) by reflexivity.
  rewrite bind_get.
  assert (Hl1 : lookup_conn c (conns s1) = Some cs1).
  { unfold s1. cbn [conns set_conns]. eapply lookup_upd_same. exact Hl. }
  destruct (open_body (chan_w s) a m side (now s)) as [[] d'|e d1] eqn:Eob.
  - set (s2 := mkState d' d' (usage_w s1) (usage_c s1) (subs s1) (conns s1) (now s1) (boot s1)
                     (timer_start s1) (next_due s1) (LCommitChan d' :: LCommitChan d' :: log s1)).
    assert (E2 : catch_crowded (open_mailbox a m side (now s1)) s1 = Exn (XErr ErrCrowded) s2).
    { unfold catch_crowded, try_catch. rewrite open_mailbox_eval.
      change (chan_w s1) with (chan_w s). change (now s1) with (now s). rewrite Eob.
      cbv zeta. rewrite Hcase. reflexivity. }
    rewrite (bind_exn _ _ s1 _ s2 E2). cbn [fst].
    intros (cs' & sd & Hl' & _ & Hm'). cbn [conns set_log s2] in Hl'.
    rewrite Hl1 in Hl'. inversion Hl'. subst cs'. cbn in Hm'. congruence.
  - assert (E2 : exists e', catch_crowded (open_mailbox a m side (now s1)) s1 =
                            Exn e' (set_chan_w s1 d1) /\
                            e' = match e with XCrowded => XErr ErrCrowded | _ => e end).
    { unfold catch_crowded, try_catch. rewrite open_mailbox_eval.
      change (chan_w s1) with (chan_w s). change (now s1) with (now s). rewrite Eob.
      destruct e; eexists; split; reflexivity. }
    destruct E2 as (e' & E2 & He').
    rewrite (bind_exn _ _ s1 _ _ E2).
    destruct e'.
    all: try (cbn [fst]; intros (cs' & sd & Hl' & _); cbn [conns set_log] in Hl';
              rewrite dup_lookup_drop in Hl'; discriminate).
    cbn [fst]. intros (cs' & sd & Hl' & _ & Hm'). cbn [conns set_log set_chan_w] in Hl'.
    rewrite Hl1 in Hl'. inversion Hl'. subst cs'. cbn in Hm'. congruence.
Qed.

Theorem open_resume s c cs a side msg o m k c' :
  SInv s -> log s = [] -> nothing_expirable cfg s ->
  lookup_conn c (conns s) = Some cs -> c_bound cs = Some (a, side) ->
  m_type msg = Some TOpen -> erroneous cs msg = false -> m_mailbox msg = Some m ->
  holds (fst (step cfg s (EB (ECmd c msg o)))) c a m ->
  let s1 := fst (step cfg s (EB (ECmd c msg o))) in
  let sk := fst (step cfg s (ECrash k (ECmd c msg o))) in
  let '(s2, obs) := run cfg sk (dup_events c' a side msg o) in
  chan_w s2 = chan_w s1 /\ chan_c s2 = chan_c s1 /\
  exists o1 o2 o3 o4, obs = [o1; o2; o3; o4] /\
    frames_of (o_log o3) =
      (c', FAck (m_id msg)) ::
      map (fun r => (c', msg_frame r)) (msg_sort (sel_msgs (chan_w s) a m)) /\
    o_exc o3 = None.
Proof.
  intros HS Hlog Hne Hl Hb Ht Herr Hm Hh s1 sk.
  assert (Hmb : c_mailbox cs = None).
  { unfold erroneous in Herr. rewrite Ht, Hb in Herr.
    destruct (c_mailbox cs); [discriminate|reflexivity]. }
  set (t := now s) in *. set (d' := open_db (chan_w s) a m side t).
  assert (Eok : open_body (chan_w s) a m side t = TxOk tt d' /\
                (List.length (sel_mbs_all d' m) <= 2)%nat).
  { pose proof (open_not_held s c cs a side m msg o Hl Hb Hmb Ht Hm) as Hnot. fold t in Hnot.
    destruct (open_body_eval (chan_w s) a m side t) as [[Ef _]|Eok].
    - exfalso. rewrite Ef in Hnot. exact (Hnot I a m Hh).
    - split; [exact Eok|]. rewrite Eok in Hnot. fold d' in Hnot.
      destruct (2 <? List.length (sel_mbs_all d' m))%nat eqn:Ecr.
      + exfalso. exact (Hnot eq_refl a m Hh).
      + apply Nat.ltb_ge. exact Ecr. }
  destruct Eok as [Eok Hle].
  assert (Emsg : sel_msgs d' a m = sel_msgs (chan_w s) a m).
  { unfold sel_msgs, d'. rewrite open_db_messages. reflexivity. }
  destruct (open_step_gen s c cs a side m msg o d' Hl Hb Hmb Ht Hm Eok Hle
              (no_sub_idle s c cs a m HS Hl Hmb))
    as (s3 & o3 & cs3 & E3 & _ & Hw3 & Hc3 & _ & _ & Hsn).
  assert (Hy0 : young (exp cfg) t (chan_w s)) by exact Hne.
  assert (Hy1 : young (exp cfg) t d') by exact (open_db_young _ _ _ _ _ _ Hexp Hy0).
  pose proof (crash_state s c cs msg o k HS Hlog Hl Hy0) as K.
  rewrite E3 in K. cbn [fst snd] in K. cbv zeta in K. fold sk in K. fold t in K.
  rewrite Hw3 in K. specialize (K Hy1).
  assert (Hyl : forall d, In (LCommitChan d) (o_log o3) -> young (exp cfg) t d).
  { intros d Hd. rewrite (Hsn d Hd). exact Hy1. }
  destruct (K Hyl) as (Sk & Lk & Ck & Subk & Nk & Hd). clear K.
  assert (Es1 : s1 = s3) by (unfold s1; rewrite E3; reflexivity).
  assert (Hno : has_conn c' sk = false) by (unfold has_conn; rewrite Ck; reflexivity).
  assert (Hk : open_body (chan_w sk) a m side t = TxOk tt d').
  { destruct Hd as [->|[->|Hd]]; [exact Eok|apply open_db_fix|].
    rewrite (Hsn _ Hd). apply open_db_fix. }
  pose proof (resend_run sk c' a side msg o d'
                ((c', FAck (m_id msg)) ::
                 map (fun r => (c', msg_frame r)) (msg_sort (sel_msgs (chan_w s) a m))) Hno) as R.
  assert (Hstep : forall s2, chan_w s2 = chan_w sk -> chan_c s2 = chan_c sk -> subs s2 = subs sk ->
     conns s2 = conns sk ++ [(c', set_bound new_conn (Some (a, side)))] ->
     clk s2 = clk sk -> log s2 = [] ->
     exists s3 o3 cs3,
       step cfg s2 (EB (ECmd c' msg o)) = (s3, o3) /\
       conns s3 = update_conn c' cs3 (conns s2) /\ chan_w s3 = d' /\ chan_c s3 = d' /\
       frames_of (o_log o3) =
         (c', FAck (m_id msg)) ::
         map (fun r => (c', msg_frame r)) (msg_sort (sel_msgs (chan_w s) a m)) /\
       o_exc o3 = None).
  { intros s2 Hw Hc Hs Hcn Hclk Hlg.
    destruct (clk_inv _ _ Hclk) as (Hn2 & _).
    assert (Hl2 : lookup_conn c' (conns s2) = Some (set_bound new_conn (Some (a, side)))).
    { rewrite Hcn, Ck. cbn. rewrite Nat.eqb_refl. reflexivity. }
    rewrite <- Hw, <- Nk, <- Hn2 in Hk.
    assert (Hns : existsb (sub_is a m c') (subs s2) = false) by (rewrite Hs, Subk; reflexivity).
    destruct (open_step_gen s2 c' _ a side m msg o d' Hl2 eq_refl eq_refl Ht Hm Hk Hle Hns)
      as (s4 & o4 & cs4 & E4 & Q1 & Q2 & Q3 & Q4 & Q5 & _).
    rewrite Emsg in Q4. exists s4, o4, cs4. auto 10. }
  specialize (R Hstep).
  destruct (run cfg sk (dup_events c' a side msg o)) as [s4 obs].
  rewrite Es1, Hw3, Hc3. exact R.
Qed.

(** * release *)

Lemma release_nameplate_full a n side when s :
  DbInv (chan_w s) -> chan_c s = chan_w s ->
  wp (release_nameplate cfg a n side when)
     (fun _ s' => conns s' = conns s /\ chan_c s' = chan_w s' /\ nofr s s' /\
                  release_db a n side (chan_w s) (chan_w s') /\
                  (forall d, In (LCommitChan d) (log s') ->
                     In (LCommitChan d) (log s) \/ d = chan_w s' \/
                     exists npid, release_mark_body (chan_w s) a n side = Some (npid, d)))
     (fun _ _ => False) s.
Proof.
  intros Hdb Hc. unfold release_nameplate. wp_step. wp_step.
  destruct (release_mark_body (chan_w s) a n side) as [[npid d1]|] eqn:Erm.
  - destruct (release_mark_body_ok _ _ _ _ _ _ Hdb Erm) as (Hdb1 & _ & Hex1).
    cbv beta iota. wp_step. wp_step. wp_step. wp_step. cbn [chan_w set_chan_w].
    destruct (release_delete_body_ok cfg d1 a npid when Hdb1 Hex1) as (r & d' & E & _).
    rewrite E. apply release_delete_body_res in E.
    assert (Hrd : release_db a n side (chan_w s) d').
    { eapply release_db_some; [exact Erm|]. destruct E as [(E1 & _ & E2)|(E1 & _ & E2)]; auto. }
    destruct r as [unps|]; cbv beta iota.
    + wp_step. destruct (usage_on cfg).
      * unfold write_usage. wp_step. wp_step. wp_step. wp_step. st_simpl.
        split; [reflexivity|]. split; [reflexivity|].
        split; [eexists [_; _; _]; split; reflexivity|]. split; [exact Hrd|].
        intros d Hd. cbn [In] in Hd.
        destruct Hd as [Hd|[Hd|[Hd|Hd]]]; [injection Hd as <-; auto|discriminate| |auto].
        injection Hd as <-. right. right. exists npid. reflexivity.
      * wp_step. wp_step. st_simpl.
        split; [reflexivity|]. split; [reflexivity|].
        split; [eexists [_; _]; split; reflexivity|]. split; [exact Hrd|].
        intros d Hd. cbn [In] in Hd.
        destruct Hd as [Hd|[Hd|Hd]]; [injection Hd as <-; auto| |auto].
        injection Hd as <-. right. right. exists npid. reflexivity.
    + destruct E as [(_ & _ & ->)|(_ & Hne & _)]; [|congruence].
      wp_step. st_simpl.
      split; [reflexivity|]. split; [reflexivity|].
      split; [eexists [_]; split; reflexivity|]. split; [exact Hrd|].
      intros d Hd. cbn [In] in Hd.
      destruct Hd as [Hd|Hd]; [injection Hd as <-; auto|auto].
  - cbv beta iota. wp_step. rewrite set_chan_w_same.
    split; [reflexivity|]. split; [exact Hc|]. split; [apply nofr_refl|].
    split; [apply release_db_none; exact Erm|]. auto.
Qed.

Lemma release_step_gen s c cs a side n cmd o :
  DbInv (chan_w s) -> chan_c s = chan_w s ->
  lookup_conn c (conns s) = Some cs -> c_bound cs = Some (a, side) ->
  c_did_release cs = false -> name_mismatch (m_nameplate cmd) (c_nameplate_id cs) = false ->
  m_type cmd = Some TRelease -> m_nameplate cmd = Some n ->
  exists s3 o3 cs3,
    step cfg s (EB (ECmd c cmd o)) = (s3, o3) /\
    conns s3 = update_conn c cs3 (conns s) /\
    release_db a n side (chan_w s) (chan_w s3) /\ chan_c s3 = chan_w s3 /\
    frames_of (o_log o3) = [(c, FAck (m_id cmd)); (c, FReleased)] /\ o_exc o3 = None /\
    (forall d, In (LCommitChan d) (o_log o3) ->
       d = chan_w s3 \/ exists npid, release_mark_body (chan_w s) a n side = Some (npid, d)).
Proof.
  intros Hdb Hc Hl Hb Hdr Hnm Ht Hn.
  rewrite (step_cmd cfg s c cmd o TRelease cs Hl Ht).
  set (s0 := set_log s [LFrame c (FAck (m_id cmd)) (is_clean s) (now s)]).
  rewrite (dispatch_bound cfg c TRelease cmd o s0 a side)
    by (try discriminate; unfold conn_of, s0; cbn [conns set_log]; rewrite Hl; exact Hb).
  unfold handle_release. rewrite bind_get_conn. unfold conn_of.
  change (conns s0) with (conns s). rewrite Hl, Hdr, Hn.
  assert (Hname : match c_nameplate_id cs with
                  | Some n' => if seqb n n' then ret n else err
                  | None => ret n
                  end = (ret n : M string)).
  { unfold name_mismatch in Hnm. rewrite Hn in Hnm. destruct (c_nameplate_id cs) as [n'|]; [|reflexivity].
    apply negb_false_iff in Hnm. rewrite Hnm. reflexivity. }
  rewrite Hname. rewrite bind_ret.
  set (s1 := set_conns s0 (update_conn c (set_did_release cs true) (conns s0))).
  rewrite (bind_ok _ _ s0 tt s1) by reflexivity.
  rewrite bind_get.
  pose proof (release_nameplate_full a n side (now s1) s1 Hdb Hc) as W.
  apply wp_elim in W. destruct W as [([] & s2 & E2 & Hcn2 & Hc2 & (l & Hlg & Hfr) & Hrd & Hsn)|(e & s2 & _ & [])].
  rewrite (bind_ok _ _ s1 tt s2 E2). unfold send.
  eexists. eexists. exists (set_did_release cs true).
  split; [reflexivity|]. st_simpl. cbn [o_log o_exc].
  split; [exact Hcn2|]. split; [exact Hrd|]. split; [exact Hc2|].
  split.
  { rewrite Hlg. unfold s1, s0. st_simpl. cbn [rev]. rewrite rev_app_distr. cbn [rev app].
    cbn [frames_of]. rewrite NpFactsA.frames_of_app, Hfr. reflexivity. }
  split; [reflexivity|].
  intros d Hd. apply in_rev in Hd. cbn [In] in Hd. destruct Hd as [Hd|Hd]; [discriminate|].
  destruct (Hsn d Hd) as [H|[H|H]]; auto.
  unfold s1, s0 in H. st_simpl_in H. cbn [In] in H. destruct H as [H|[]]. discriminate.
Qed.

Lemma chan_ext d1 d2 :
  nameplates d1 = nameplates d2 -> np_sides d1 = np_sides d2 -> mailboxes d1 = mailboxes d2 ->
  mb_sides d1 = mb_sides d2 -> messages d1 = messages d2 -> np_seq d1 = np_seq d2 -> d1 = d2.
Proof. destruct d1, d2; cbn; intros; subst; reflexivity. Qed.

Lemma release_db_fun a n side d d1 d2 :
  release_db a n side d d1 -> release_db a n side d d2 -> d1 = d2.
Proof.
  intros (A1 & A2 & A3 & A4 & A5) (B1 & B2 & B3 & B4 & B5).
  destruct (sel_np d a n) as [np|]; [|congruence].
  destruct (sel_nps d (np_id np) side) as [r|]; [|congruence].
  destruct (existsb _ _); [congruence|].
  destruct A5 as [A5 A6]. destruct B5 as [B5 B6]. apply chan_ext; congruence.
Qed.

Lemma release_mark_body_inv d a n side npid dm :
  release_mark_body d a n side = Some (npid, dm) ->
  exists np r, sel_np d a n = Some np /\ sel_nps d (np_id np) side = Some r /\
               npid = np_id np /\ dm = upd_nps_release d (np_id np) side.
Proof.
  unfold release_mark_body. destruct (sel_np d a n) as [np|] eqn:E1; [|discriminate].
  destruct (sel_nps d (np_id np) side) as [r|] eqn:E2; [|discriminate].
  intros K. inversion K. exists np, r. auto 10.
Qed.

Lemma existsb_filter_map_same {A} (P q : A -> bool) (f : A -> A) l :
  (forall x, q (f x) = q x /\ P (f x) = P x) ->
  existsb P (filter q (map f l)) = existsb P (filter q l).
Proof.
  intros H. induction l as [|x l IH]; cbn [map filter]; [reflexivity|].
  destruct (H x) as [Hq HP]. rewrite Hq. destruct (q x); cbn [existsb]; rewrite ?HP, IH; reflexivity.
Qed.

(** after the first commit of a release the rest of the release is still to be
    done, and doing all of it again from there ends in the same database *)
Lemma release_db_after_mark d a n side npid dm d' :
  release_mark_body d a n side = Some (npid, dm) ->
  release_db a n side d d' -> release_db a n side dm d'.
Proof.
  intros Em (A1 & A2 & A3 & A4 & A5).
  destruct (release_mark_body_inv _ _ _ _ _ _ Em) as (np & r & Hnp & Hr & -> & ->).
  rewrite Hnp, Hr in A5.
  set (f := fun r0 : nps_row => if (nps_npid r0 =? np_id np) && seqb (nps_side r0) side
                   then mkNps (nps_npid r0) false (nps_side r0) (nps_added r0) else r0).
  set (dm := upd_nps_release d (np_id np) side).
  assert (Hnp' : sel_np dm a n = Some np) by exact Hnp.
  assert (Hr' : sel_nps dm (np_id np) side = Some (f r)).
  { unfold sel_nps, dm, upd_nps_release. cbn [np_sides set_np_sides].
    apply find_map_same; [|exact Hr]. intros x. unfold f. cbv beta.
    destruct ((nps_npid x =? np_id np) && seqb (nps_side x) side) eqn:E;
      cbn [nps_npid nps_side]; rewrite ?E; reflexivity. }
  assert (Hex : existsb (fun r0 => nps_claimed r0 && negb (seqb (nps_side r0) side))
                        (sel_nps_all dm (np_id np)) =
                existsb (fun r0 => nps_claimed r0 && negb (seqb (nps_side r0) side))
                        (sel_nps_all d (np_id np))).
  { unfold sel_nps_all, dm, upd_nps_release. cbn [np_sides set_np_sides].
    apply existsb_filter_map_same. intros x.
    destruct ((nps_npid x =? np_id np) && seqb (nps_side x) side) eqn:E; [|auto].
    cbn [nps_npid nps_side nps_claimed]. split; [reflexivity|].
    apply andb_true_iff in E. destruct E as [_ E]. rewrite E. cbn. rewrite andb_false_r. reflexivity. }
  unfold release_db. split; [exact A1|]. split; [exact A2|]. split; [exact A3|]. split; [exact A4|].
  rewrite Hnp', Hr', Hex.
  destruct (existsb _ (sel_nps_all d (np_id np))).
  - rewrite A5. symmetry. apply upd_nps_release_same. intros x Hx E1 E2.
    unfold dm, upd_nps_release in Hx. cbn [np_sides set_np_sides] in Hx.
    apply in_map_iff in Hx. destruct Hx as (x0 & <- & _).
    destruct ((nps_npid x0 =? np_id np) && seqb (nps_side x0) side) eqn:E; [reflexivity|].
    exfalso. apply andb_false_iff in E.
    destruct E as [E|E]; [apply Z.eqb_neq in E|apply seqb_neq in E]; contradiction.
  - destruct A5 as [A5 A6]. split; [exact A5|]. rewrite A6.
    unfold dm, upd_nps_release. cbn [np_sides set_np_sides]. symmetry.
    apply others_after_release.
Qed.

Theorem release_resume s c cs a side msg o n k c' :
  SInv s -> log s = [] -> nothing_expirable cfg s ->
  lookup_conn c (conns s) = Some cs -> c_bound cs = Some (a, side) ->
  m_type msg = Some TRelease -> erroneous cs msg = false -> m_nameplate msg = Some n ->
  let s1 := fst (step cfg s (EB (ECmd c msg o))) in
  let sk := fst (step cfg s (ECrash k (ECmd c msg o))) in
  let '(s2, obs) := run cfg sk (dup_events c' a side msg o) in
  chan_w s2 = chan_w s1 /\ chan_c s2 = chan_c s1 /\
  exists o1 o2 o3 o4, obs = [o1; o2; o3; o4] /\
    frames_of (o_log o3) = [(c', FAck (m_id msg)); (c', FReleased)] /\ o_exc o3 = None.
Proof.
  intros HS Hlog Hne Hl Hb Ht Herr Hn s1 sk.
  assert (Hfl : c_did_release cs = false /\
                name_mismatch (m_nameplate msg) (c_nameplate_id cs) = false).
  { unfold erroneous in Herr. rewrite Ht, Hb in Herr. apply orb_false_iff in Herr. exact Herr. }
  destruct Hfl as [Hdr Hnm].
  assert (Hcc : chan_c s = chan_w s) by (destruct (si_clean s HS) as [K _]; symmetry; exact K).
  set (t := now s) in *.
  destruct (release_step_gen s c cs a side n msg o (si_db s HS) Hcc Hl Hb Hdr Hnm Ht Hn)
    as (s3 & o3 & cs3 & E3 & _ & Hrd & Hc3 & _ & _ & Hsn).
  assert (Hy0 : young (exp cfg) t (chan_w s)) by exact Hne.
  assert (Hy1 : young (exp cfg) t (chan_w s3)).
  { apply (young_same _ _ (chan_w s)); [exact (proj1 Hrd)|exact Hy0]. }
  assert (Hyl : forall d, In (LCommitChan d) (o_log o3) -> young (exp cfg) t d).
  { intros d Hd. destruct (Hsn d Hd) as [->|(npid & Em)]; [exact Hy1|].
    destruct (release_mark_body_inv _ _ _ _ _ _ Em) as (np & r & _ & _ & _ & ->).
    apply (young_same _ _ (chan_w s)); [reflexivity|exact Hy0]. }
  pose proof (crash_state s c cs msg o k HS Hlog Hl Hy0) as K.
  rewrite E3 in K. cbn [fst snd] in K. cbv zeta in K. fold sk in K. fold t in K.
  destruct (K Hy1 Hyl) as (Sk & Lk & Ck & Subk & Nk & Hd). clear K.
  assert (Es1 : s1 = s3) by (unfold s1; rewrite E3; reflexivity).
  assert (Hno : has_conn c' sk = false) by (unfold has_conn; rewrite Ck; reflexivity).
  assert (Hcck : chan_c sk = chan_w sk) by (destruct (si_clean sk Sk) as [K _]; symmetry; exact K).
  assert (Hcase : chan_w sk = chan_w s3 \/ release_db a n side (chan_w sk) (chan_w s3)).
  { destruct Hd as [->|[->|Hd]]; [right; exact Hrd|left; reflexivity|].
    destruct (Hsn _ Hd) as [->|(npid & Em)]; [left; reflexivity|right].
    exact (release_db_after_mark _ _ _ _ _ _ _ Em Hrd). }
  destruct Hcase as [Hfin|Hrk].
  - (* the crash came after the last commit: the duplicate changes nothing *)
    assert (Hdone : release_done (chan_w sk) a n side).
    { rewrite Hfin.
      exact (release_done_after (chan_w s) (chan_w s3) a n side (si_db s HS)
               (proj2 (proj2 (proj2 (proj2 Hrd))))). }
    pose proof (release_dup cfg sk c' a side n msg o Sk Lk Hno Ht Hn Hdone) as R.
    destruct (run cfg sk (dup_events c' a side msg o)) as [s4 obs].
    destruct R as ((Q1 & Q2 & _) & R). rewrite Es1.
    split; [congruence|]. split; [congruence|]. exact R.
  - pose proof (resend_run sk c' a side msg o (chan_w s3)
                  [(c', FAck (m_id msg)); (c', FReleased)] Hno) as R.
    assert (Hstep : forall s2, chan_w s2 = chan_w sk -> chan_c s2 = chan_c sk -> subs s2 = subs sk ->
       conns s2 = conns sk ++ [(c', set_bound new_conn (Some (a, side)))] ->
       clk s2 = clk sk -> log s2 = [] ->
       exists s3' o3 cs3,
         step cfg s2 (EB (ECmd c' msg o)) = (s3', o3) /\
         conns s3' = update_conn c' cs3 (conns s2) /\ chan_w s3' = chan_w s3 /\
         chan_c s3' = chan_w s3 /\
         frames_of (o_log o3) = [(c', FAck (m_id msg)); (c', FReleased)] /\
         o_exc o3 = None).
    { intros s2 Hw Hc Hs Hcn Hclk Hlg.
      assert (Hl2 : lookup_conn c' (conns s2) = Some (set_bound new_conn (Some (a, side)))).
      { rewrite Hcn, Ck. cbn. rewrite Nat.eqb_refl. reflexivity. }
      assert (Hdb2 : DbInv (chan_w s2)) by (rewrite Hw; exact (si_db sk Sk)).
      assert (Hcc2 : chan_c s2 = chan_w s2) by congruence.
      assert (Hnm2 : name_mismatch (m_nameplate msg)
                       (c_nameplate_id (set_bound new_conn (Some (a, side)))) = false).
      { rewrite Hn. reflexivity. }
      destruct (release_step_gen s2 c' _ a side n msg o Hdb2 Hcc2 Hl2 eq_refl eq_refl Hnm2 Ht Hn)
        as (s4 & o4 & cs4 & E4 & Q1 & Q2 & Q3 & Q4 & Q5 & _).
      rewrite Hw in Q2.
      pose proof (release_db_fun _ _ _ _ _ _ Q2 Hrk) as Q6.
      exists s4, o4, cs4. split; [exact E4|]. split; [exact Q1|]. split; [exact Q6|].
      split; [congruence|]. auto. }
    specialize (R Hstep).
    destruct (run cfg sk (dup_events c' a side msg o)) as [s4 obs].
    rewrite Es1, Hc3. exact R.
Qed.

(** * close *)

Lemma close_mark_body_inv d a h side mood f d1 :
  close_mark_body d a h side mood = Some (f, d1) -> d1 = upd_mbs_close d h side mood.
Proof.
  unfold close_mark_body. destruct (sel_mb d a h); [|discriminate].
  destruct (sel_mbs d h side); [|discriminate]. intros K. inversion K. reflexivity.
Qed.

Lemma mailbox_close_snaps a h side mood when s :
  wp (mailbox_close cfg a h side mood when)
     (fun _ s' => forall d, In (LCommitChan d) (log s') ->
        In (LCommitChan d) (log s) \/ d = chan_w s' \/ d = upd_mbs_close (chan_w s) h side mood)
     (fun _ _ => True) s.
Proof.
  unfold mailbox_close. wp_step. wp_step.
  destruct (close_mark_body (chan_w s) a h side mood) as [[f d1]|] eqn:Em; cbv beta iota.
  2:{ wp_step. st_simpl. auto. }
  apply close_mark_body_inv in Em. subst d1.
  set (dm := upd_mbs_close (chan_w s) h side mood).
  wp_step. wp_step. wp_step. wp_step. st_simpl.
  destruct (close_delete_body cfg dm a h f when) as [[[u1 u2]|] d2|e d2]; cbv beta iota;
    [| |exact I].
  - wp_step. destruct (usage_on cfg).
    + unfold write_usage. wp_step. wp_step. wp_step. wp_step. wp_step.
      apply wp_stop_listeners. st_simpl. intros d Hd. cbn [In] in Hd.
      destruct Hd as [Hd|[Hd|[Hd|Hd]]]; [injection Hd as <-; auto|discriminate| |auto].
      injection Hd as <-. auto.
    + wp_step. wp_step. wp_step. apply wp_stop_listeners. st_simpl. intros d Hd. cbn [In] in Hd.
      destruct Hd as [Hd|[Hd|Hd]]; [injection Hd as <-; auto| |auto].
      injection Hd as <-. auto.
  - wp_step. st_simpl. intros d Hd. cbn [In] in Hd.
    destruct Hd as [Hd|Hd]; [injection Hd as <-; auto|auto].
Qed.

Lemma close_rest_snaps c a side mood held when s :
  wp (close_rest cfg c a side mood held when)
     (fun _ s' => forall d, In (LCommitChan d) (log s') ->
        In (LCommitChan d) (log s) \/ d = chan_w s' \/ d = upd_mbs_close (chan_w s) held side mood)
     (fun _ _ => True) s.
Proof.
  unfold close_rest. wp_step. wp_step. wp_step. wp_step. wp_step.
  eapply wp_conseq; [apply mailbox_close_snaps| |auto].
  intros [] s1 H1. cbv beta. wp_step. wp_step. wp_step. wp_step. wp_step.
  st_simpl. intros d Hd. cbn [In] in Hd. destruct Hd as [Hd|Hd]; [discriminate|].
  exact (H1 d Hd).
Qed.

(** the original close on the connection that holds the mailbox *)
Lemma close_orig s c cs a side msg o h :
  SInv s -> log s = [] ->
  lookup_conn c (conns s) = Some cs -> c_bound cs = Some (a, side) -> c_mailbox cs = Some h ->
  m_type msg = Some TClose -> erroneous cs msg = false ->
  exists s3 o3,
    step cfg s (EB (ECmd c msg o)) = (s3, o3) /\ has_mb (chan_w s) a h /\
    chan_w s3 = close_db (chan_w s) a h side (m_mood msg) /\ chan_c s3 = chan_w s3 /\
    (forall d, In (LCommitChan d) (o_log o3) ->
       d = chan_w s3 \/ d = upd_mbs_close (chan_w s) h side (m_mood msg)).
Proof.
  intros Hinv Hlog Hl Hb Hmb Ht Herr.
  pose proof (si_conns s Hinv c cs Hl) as Hok. unfold conn_ok in Hok. rewrite Hmb in Hok.
  destruct Hok as (a0 & sd0 & Hb0 & Hlis & Hin). rewrite Hb in Hb0. inversion Hb0; subst a0 sd0.
  destruct (si_clean s Hinv) as [Hcl _].
  pose proof (si_subs s Hinv _ Hin) as Hsub. cbn in Hsub. destruct Hsub as [Hhas _].
  assert (Hdc : c_did_close cs = false /\ name_mismatch (m_mailbox msg) (c_mailbox_id cs) = false).
  { unfold erroneous in Herr. rewrite Ht, Hb in Herr. apply orb_false_iff in Herr. exact Herr. }
  destruct Hdc as [Hdc Hnm].
  rewrite (step_cmd cfg s c msg o TClose cs Hl Ht).
  set (s0 := set_log s [LFrame c (FAck (m_id msg)) (is_clean s) (now s)]).
  rewrite (dispatch_bound cfg c TClose msg o s0 a side)
    by (try discriminate; unfold conn_of, s0; cbn [conns set_log]; rewrite Hl; exact Hb).
  rewrite (handle_close_held cfg c a side msg s0 cs h Hl Hdc Hnm Hmb Hlis).
  set (s1 := set_conns (set_subs s0 (filter (fun p => negb (sub_is a h c p)) (subs s0)))
                       (update_conn c (set_listening cs false) (conns s0))).
  destruct (close_rest_run cfg c a side (m_mood msg) h (now s0) s1 (set_listening cs false))
    as [s' [E [Hw [Hc _]]]].
  { exact (si_db s Hinv). }
  { symmetry. exact Hcl. }
  { unfold s1. cbn [conns set_conns]. apply (cl_lookup_update_same c _ _ cs Hl). }
  pose proof (close_rest_snaps c a side (m_mood msg) h (now s0) s1) as W.
  unfold wp in W. rewrite E in W. rewrite E.
  eexists. eexists. split; [reflexivity|]. split; [exact Hhas|].
  cbn [chan_w chan_c set_log o_log]. split; [exact Hw|]. split; [exact Hc|].
  intros d Hd. apply in_rev in Hd. destruct (W d Hd) as [H|[H|H]]; auto.
  unfold s1, s0 in H. st_simpl_in H. cbn [In] in H. destruct H as [H|[]]. discriminate.
Qed.

Lemma find_map_comm {A} (p : A -> bool) (f : A -> A) l :
  (forall x, p (f x) = p x) -> find p (map f l) = option_map f (find p l).
Proof.
  intros H. induction l as [|x l IH]; cbn [map find]; [reflexivity|].
  rewrite H. destruct (p x); [reflexivity|exact IH].
Qed.

Lemma filter_map_comm {A} (p : A -> bool) (f : A -> A) l :
  (forall x, p (f x) = p x) -> filter p (map f l) = map f (filter p l).
Proof.
  intros H. induction l as [|x l IH]; cbn [map filter]; [reflexivity|].
  rewrite H. destruct (p x); cbn [map]; rewrite IH; reflexivity.
Qed.

Lemma close_del_db_touch d h t :
  close_del_db (upd_touch d h t) h = upd_touch (close_del_db d h) h t.
Proof.
  unfold close_del_db.
  change (sel_mbs_all (upd_touch d h t) h) with (sel_mbs_all d h).
  destruct (existsb mbs_opened (sel_mbs_all d h)); [reflexivity|].
  unfold upd_touch, set_mailboxes.
  cbn [nameplates np_sides mailboxes mb_sides messages np_seq]. f_equal.
  apply filter_map_comm. intros x. cbv beta.
  destruct (seqb (mb_id x) h) eqn:E; cbn [mb_id]; rewrite ?E; reflexivity.
Qed.

Lemma close_db_touch d a h side mood t :
  close_db (upd_touch d h t) a h side mood = upd_touch (close_db d a h side mood) h t.
Proof.
  rewrite !close_db_unfold.
  change (sel_mbs (upd_touch d h t) h side) with (sel_mbs d h side).
  assert (E : sel_mb (upd_touch d h t) a h =
              option_map (fun r => if seqb (mb_id r) h
                                   then mkMb (mb_app r) (mb_id r) t (mb_fornp r) else r)
                         (sel_mb d a h)).
  { unfold sel_mb, upd_touch. cbn [mailboxes set_mailboxes]. apply find_map_comm.
    intros x. cbv beta.
    destruct (seqb (mb_id x) h) eqn:E; cbn [mb_id mb_app]; rewrite ?E; reflexivity. }
  rewrite E. destruct (sel_mb d a h) as [x|]; cbn [option_map]; [|reflexivity].
  destruct (sel_mbs d h side) as [r|]; [|reflexivity].
  change (upd_mbs_close (upd_touch d h t) h side mood)
    with (upd_touch (upd_mbs_close d h side mood) h t).
  apply close_del_db_touch.
Qed.

(** what the re-sent close (through open_mailbox) needs of the restored database *)
Definition reclose_ok (d_k F : chan_db) (a h side : string) (mood : option string) (t : Z) : Prop :=
  open_body d_k a h side t = TxOk tt (open_db d_k a h side t) /\
  (List.length (sel_mbs_all (open_db d_k a h side t) h) <= 2)%nat /\
  close_db (open_db d_k a h side t) a h side mood = upd_touch F h t.

Lemma reclose_start d a h side mood t :
  has_mb d a h -> sel_mbs d h side <> None -> not_crowded d h ->
  reclose_ok d (close_db d a h side mood) a h side mood t.
Proof.
  intros Hmb Hsel Hnc.
  assert (Hr : exists r, sel_mbs d h side = Some r).
  { destruct (sel_mbs d h side) as [r|]; [exists r; reflexivity|congruence]. }
  unfold reclose_ok. rewrite (open_db_touch d a h side t Hmb Hr).
  split; [rewrite (open_body_has _ _ _ _ _ Hmb), (open_db_touch d a h side t Hmb Hr); reflexivity|].
  split; [exact Hnc|]. apply close_db_touch.
Qed.

Lemma reclose_marked d a h side mood t :
  DbInv d -> has_mb d a h -> sel_mbs d h side <> None -> not_crowded d h ->
  reclose_ok (upd_mbs_close d h side mood) (close_db d a h side mood) a h side mood t.
Proof.
  intros Hdb Hmb Hsel Hnc.
  set (dm := upd_mbs_close d h side mood).
  set (f := fun r : mbs_row => if seqb (mbs_mbox r) h && seqb (mbs_side r) side
                   then mkMbs (mbs_mbox r) false (mbs_side r) (mbs_added r) mood else r).
  assert (Hkey : forall y, (seqb (mbs_mbox (f y)) h && seqb (mbs_side (f y)) side) =
                           (seqb (mbs_mbox y) h && seqb (mbs_side y) side)).
  { intros y. unfold f. destruct (seqb (mbs_mbox y) h && seqb (mbs_side y) side) eqn:E;
      cbn [mbs_mbox mbs_side]; rewrite ?E; reflexivity. }
  assert (Hkey1 : forall y, seqb (mbs_mbox (f y)) h = seqb (mbs_mbox y) h).
  { intros y. unfold f. destruct (seqb (mbs_mbox y) h && seqb (mbs_side y) side); reflexivity. }
  assert (Hmb' : has_mb dm a h) by exact Hmb.
  destruct (sel_mbs d h side) as [r|] eqn:Er; [|congruence].
  assert (Hr' : sel_mbs dm h side = Some (f r)).
  { unfold sel_mbs, dm, upd_mbs_close. cbn [mb_sides set_mb_sides].
    rewrite (find_map_comm _ f); [|exact Hkey]. unfold sel_mbs in Er. rewrite Er. reflexivity. }
  assert (Hnc' : not_crowded dm h).
  { unfold not_crowded, sel_mbs_all, dm, upd_mbs_close in *. cbn [mb_sides set_mb_sides].
    rewrite (filter_map_length _ f); [exact Hnc|exact Hkey1]. }
  assert (Hidem : upd_mbs_close dm h side mood = dm).
  { apply upd_mbs_close_same. intros y Hy E1 E2.
    unfold dm, upd_mbs_close in Hy. cbn [mb_sides set_mb_sides] in Hy.
    apply in_map_iff in Hy. destruct Hy as (y0 & <- & _).
    destruct (seqb (mbs_mbox y0) h && seqb (mbs_side y0) side) eqn:E; [split; reflexivity|].
    exfalso. apply andb_false_iff in E.
    destruct E as [E|E]; apply seqb_neq in E; contradiction. }
  assert (Esame : close_db dm a h side mood = close_db d a h side mood).
  { rewrite !close_db_unfold, Hr', Er, Hidem.
    change (sel_mb dm a h) with (sel_mb d a h).
    destruct (proj1 (has_mb_sel d a h) Hmb) as [x Hx]. rewrite Hx. reflexivity. }
  pose proof (reclose_start dm a h side mood t Hmb') as R. rewrite Hr' in R.
  specialize (R ltac:(discriminate) Hnc'). rewrite Esame in R. exact R.
Qed.

Lemma reclose_final d a h side mood t :
  DbInv d -> DbInv (close_db d a h side mood) ->
  has_mb d a h -> sel_mbs d h side <> None -> not_crowded d h ->
  reclose_ok (close_db d a h side mood) (close_db d a h side mood) a h side mood t.
Proof.
  intros Hdb HdbF Hmb Hsel Hnc.
  pose proof (close_done_after d a h side mood Hmb Hsel Hnc) as Hdone.
  destruct (close_done_db _ a h side mood t HdbF Hdone) as (H1 & H2 & H3 & _).
  unfold reclose_ok. auto.
Qed.

Lemma close_db_mbs_incl d a h side mood r :
  In r (mailboxes (close_db d a h side mood)) -> In r (mailboxes d).
Proof.
  rewrite close_db_unfold. destruct (sel_mb d a h); [|auto]. destruct (sel_mbs d h side); [|auto].
  unfold close_del_db. destruct (existsb _ _); cbn [mailboxes upd_mbs_close set_mb_sides]; [auto|].
  intros H. apply filter_In in H. exact (proj1 H).
Qed.

(** close: same answer; same stored state except that the re-sent close, which
    goes through open_mailbox on the fresh connection, stamps the mailbox's
    [updated] when the mailbox survives (known finding KF4); when the close was
    the last one the states are identical *)
Theorem close_resume s c cs a side msg o h k c' :
  SInv s -> log s = [] -> nothing_expirable cfg s ->
  lookup_conn c (conns s) = Some cs -> c_bound cs = Some (a, side) -> c_mailbox cs = Some h ->
  m_type msg = Some TClose -> erroneous cs msg = false -> m_mailbox msg = Some h ->
  sel_mbs (chan_w s) h side <> None -> not_crowded (chan_w s) h ->
  let s1 := fst (step cfg s (EB (ECmd c msg o))) in
  let sk := fst (step cfg s (ECrash k (ECmd c msg o))) in
  let '(s2, obs) := run cfg sk (dup_events c' a side msg o) in
  chan_w s2 = upd_touch (chan_w s1) h (now s) /\ chan_c s2 = chan_w s2 /\
  (close_deletes (chan_w s) a h side (m_mood msg) = true -> chan_w s2 = chan_w s1) /\
  exists o1 o2 o3 o4, obs = [o1; o2; o3; o4] /\
    frames_of (o_log o3) = [(c', FAck (m_id msg)); (c', FClosed)] /\ o_exc o3 = None.
Proof.
  intros HS Hlog Hne Hl Hb Hmb Ht Herr Hm Hsel Hnc s1 sk.
  destruct (close_orig s c cs a side msg o h HS Hlog Hl Hb Hmb Ht Herr)
    as (s3 & o3 & E3 & Hhas & Hw3 & Hc3 & Hsn).
  set (t := now s) in *. set (mood := m_mood msg) in *.
  set (F := close_db (chan_w s) a h side mood) in *.
  set (dm := upd_mbs_close (chan_w s) h side mood) in *.
  assert (Hy0 : young (exp cfg) t (chan_w s)) by exact Hne.
  assert (Hy1 : young (exp cfg) t (chan_w s3)).
  { rewrite Hw3. apply (young_incl _ _ (chan_w s)); [|exact Hy0].
    intros r. apply close_db_mbs_incl. }
  assert (Hyl : forall d, In (LCommitChan d) (o_log o3) -> young (exp cfg) t d).
  { intros d Hd. destruct (Hsn d Hd) as [->| ->]; [exact Hy1|].
    apply (young_same _ _ (chan_w s)); [reflexivity|exact Hy0]. }
  pose proof (crash_state s c cs msg o k HS Hlog Hl Hy0) as K.
  rewrite E3 in K. cbn [fst snd] in K. cbv zeta in K. fold sk in K. fold t in K.
  destruct (K Hy1 Hyl) as (Sk & Lk & Ck & Subk & Nk & Hd). clear K.
  assert (Es1 : s1 = s3) by (unfold s1; rewrite E3; reflexivity).
  assert (Hno : has_conn c' sk = false) by (unfold has_conn; rewrite Ck; reflexivity).
  assert (HdbF : DbInv F).
  { pose proof (step_spec cfg Hexp s (EB (ECmd c msg o)) HS) as Sp. rewrite E3 in Sp.
    destruct Sp as (S3 & _). rewrite <- Hw3. exact (si_db s3 S3). }
  assert (Hrk : reclose_ok (chan_w sk) F a h side mood t).
  { assert (RF : reclose_ok F F a h side mood t)
      by exact (reclose_final _ _ _ _ _ _ (si_db s HS) HdbF Hhas Hsel Hnc).
    destruct Hd as [->|[->|Hd]].
    - exact (reclose_start _ _ _ _ _ _ Hhas Hsel Hnc).
    - rewrite Hw3. exact RF.
    - destruct (Hsn _ Hd) as [->| ->]; [rewrite Hw3; exact RF|].
      exact (reclose_marked _ _ _ _ _ _ (si_db s HS) Hhas Hsel Hnc). }
  destruct Hrk as (Hob & Hle & Hcd).
  pose proof (resend_run sk c' a side msg o (upd_touch F h t)
                [(c', FAck (m_id msg)); (c', FClosed)] Hno) as R.
  assert (Hstep : forall s2, chan_w s2 = chan_w sk -> chan_c s2 = chan_c sk -> subs s2 = subs sk ->
     conns s2 = conns sk ++ [(c', set_bound new_conn (Some (a, side)))] ->
     clk s2 = clk sk -> log s2 = [] ->
     exists s3' o3 cs3,
       step cfg s2 (EB (ECmd c' msg o)) = (s3', o3) /\
       conns s3' = update_conn c' cs3 (conns s2) /\ chan_w s3' = upd_touch F h t /\
       chan_c s3' = upd_touch F h t /\
       frames_of (o_log o3) = [(c', FAck (m_id msg)); (c', FClosed)] /\
       o_exc o3 = None).
  { intros s2 Hw Hc Hs Hcn Hclk Hlg.
    destruct (clk_inv _ _ Hclk) as (Hn2 & _).
    assert (Hl2 : lookup_conn c' (conns s2) = Some (set_bound new_conn (Some (a, side)))).
    { rewrite Hcn, Ck. cbn. rewrite Nat.eqb_refl. reflexivity. }
    assert (Hdb2 : DbInv (chan_w s2)) by (rewrite Hw; exact (si_db sk Sk)).
    assert (Et : now s2 = t) by (rewrite Hn2; exact Nk).
    rewrite <- Hw, <- Et in Hob, Hle.
    assert (Hq : close_deletes (open_db (chan_w s2) a h side (now s2)) a h side (m_mood msg) = true ->
                 forall c0, ~ In (a, h, c0) (subs s2)).
    { intros _ c0. rewrite Hs, Subk. intros []. }
    destruct (close_step_fresh cfg s2 c' _ a side h msg o Hdb2 Hl2 eq_refl eq_refl eq_refl eq_refl
                eq_refl Ht Hm Hob Hle Hq)
      as (s4 & o4 & cs4 & E4 & Q1 & Q2 & Q3 & Q4 & Q5 & Q6 & Q7 & Q8).
    fold mood in Q1. rewrite Hw, Et, Hcd in Q1.
    exists s4, o4, cs4. split; [exact E4|]. split; [exact Q4|]. split; [exact Q1|].
    split; [congruence|]. auto. }
  specialize (R Hstep).
  destruct (run cfg sk (dup_events c' a side msg o)) as [s4 obs].
  rewrite Es1, Hw3. destruct R as (R1 & R2 & R3).
  split; [exact R1|]. split; [congruence|]. split; [|exact R3].
  intros Hdel. rewrite R1. apply upd_touch_absent.
  exact (proj1 (proj2 (proj2 (proj2 (proj2 (close_db_others (chan_w s) a h side mood (si_db s HS)))))
                 Hdel)).
Qed.

End WithConfig.
