(** HoldInv.v -- a connection that holds a mailbox remembers exactly that
    mailbox id (so a `close` naming the opened mailbox is accepted and acts on it,
    and one naming anything else is refused: C17), and its side has a side row on
    it (so its close is recorded: C08/C14). *)
From MW Require Import Base Store Monad Usage Server Websocket Service Findings
     Inv StoreFacts Hoare DbFactsA DbFactsB OpFacts ProtoFacts Obs StepFacts SweepFacts
     NpFactsA MbFactsA MbFactsB Corollaries.
From MW Require Import CrowdFacts.
From MW Require LifeFacts.
Local Open Scope list_scope.

Definition hold_ok (s : state) : Prop :=
  forall c cs h, lookup_conn c (conns s) = Some cs -> c_mailbox cs = Some h ->
    c_mailbox_id cs = Some h /\
    exists a side, c_bound cs = Some (a, side) /\ exists r, sel_mbs (chan_w s) h side = Some r.

(** * Auxiliary: lists, side rows *)

Lemma hi_sub_dec (p q : string * string * nat) : {p = q} + {p <> q}.
Proof. decide equality; [apply Nat.eq_dec|decide equality; apply string_dec]. Qed.

Lemma hi_firstn_In {A} n (l : list A) x : In x (firstn n l) -> In x l.
Proof. intros H. rewrite <- (firstn_skipn n l). apply in_or_app. left. exact H. Qed.

(** a side has a row on a mailbox iff it is in the mailbox's side list *)
Lemma sel_mbs_side_list d h side :
  (exists r, sel_mbs d h side = Some r) <-> In side (mb_side_list d h).
Proof.
  unfold mb_side_list. split.
  - intros [r Hr]. apply sel_mbs_some in Hr. destruct Hr as (Hin & Hm & Hs).
    apply in_map_iff. exists r. split; [exact Hs|]. apply sel_mbs_all_In. auto.
  - intros H. apply in_map_iff in H. destruct H as (r & Hs & Hin).
    apply sel_mbs_all_In in Hin. destruct Hin as [Hin Hm].
    destruct (sel_mbs d h side) as [r'|] eqn:E; [eauto|].
    exfalso. exact (proj1 (sel_mbs_none d h side) E r Hin (conj Hm Hs)).
Qed.

(** * The remembered mailbox id of every connection: a traversal

    [c_mailbox_id] is written by one statement only, the first [set_conn] of
    [handle_open]; every other computation of the model leaves the remembered
    id of every connection alone.  [x] says whether the acting connection [c]
    is exempt (used for `open`), [i] is the acting connection's id, threaded
    through the computation like the binding in CrowdFacts.v. *)

Definition idof (s : state) (c : nat) : option string := c_mailbox_id (conn_of s c).

Section Keep.
Variable x : bool.
Variable c : nat.
Variable i : option string.

Definition ksame (s s' : state) : Prop :=
  forall c1, (x = true /\ c1 = c) \/ idof s' c1 = idof s c1.

Definition kpre (s : state) : Prop := x = true \/ idof s c = i.

Definition KP {A} (m : M A) : Prop := forall s, kpre s -> ksame s (out (m s)).

Lemma ksame_refl s : ksame s s.
Proof. intros c1. right. reflexivity. Qed.

Lemma ksame_trans s1 s2 s3 : ksame s1 s2 -> ksame s2 s3 -> ksame s1 s3.
Proof.
  intros A B c1. destruct (B c1) as [K|K]; [left; exact K|].
  destruct (A c1) as [K'|K']; [left; exact K'|]. right. congruence.
Qed.

Lemma ksame_conns s s' : conns s' = conns s -> ksame s s'.
Proof. intros E c1. right. unfold idof, conn_of. rewrite E. reflexivity. Qed.

Lemma ksame_pre s s' : ksame s s' -> kpre s -> kpre s'.
Proof.
  intros A [K|K]; [left; exact K|]. destruct (A c) as [[K' _]|K']; [left; exact K'|].
  right. congruence.
Qed.

Lemma KP_conns {A} (m : M A) : (forall s, conns (out (m s)) = conns s) -> KP m.
Proof. intros H s _. apply ksame_conns. apply H. Qed.

Lemma KP_bind {A B} (m : M A) (k : A -> M B) :
  KP m -> (forall a, KP (k a)) -> KP (bind m k).
Proof.
  intros Hm Hk s Hpre. unfold bind. specialize (Hm s Hpre).
  destruct (m s) as [a s1|e s1]; cbn [out] in *; [|exact Hm].
  eapply ksame_trans; [exact Hm|]. apply Hk. eapply ksame_pre; eassumption.
Qed.

Lemma KP_try_catch {A} (m : M A) (h : exn -> M A) :
  KP m -> (forall e, KP (h e)) -> KP (try_catch m h).
Proof.
  intros Hm Hh s Hpre. unfold try_catch. specialize (Hm s Hpre).
  destruct (m s) as [a s1|e s1]; cbn [out] in *; [exact Hm|].
  eapply ksame_trans; [exact Hm|]. apply Hh. eapply ksame_pre; eassumption.
Qed.

Lemma KP_ret {A} (a : A) : KP (ret a).
Proof. apply KP_conns. reflexivity. Qed.

Lemma KP_raise {A} e : KP (@raise A e).
Proof. apply KP_conns. reflexivity. Qed.

Lemma KP_err {A} : KP (@err A).
Proof. apply KP_raise. Qed.

Lemma KP_get : KP get.
Proof. apply KP_conns. reflexivity. Qed.

Lemma KP_q {A} (f : chan_db -> A) : KP (q f).
Proof. apply KP_conns. reflexivity. Qed.

Lemma KP_utx f : KP (utx f).
Proof. apply KP_conns. reflexivity. Qed.

Lemma KP_commit_chan : KP commit_chan.
Proof. apply KP_conns. reflexivity. Qed.

Lemma KP_commit_usage : KP commit_usage.
Proof. apply KP_conns. reflexivity. Qed.

Lemma KP_send c' f : KP (send c' f).
Proof. apply KP_conns. reflexivity. Qed.

Lemma KP_tx {A} (f : chan_db -> txres A) : KP (tx f).
Proof. apply KP_conns. intros s. unfold tx. destruct (f (chan_w s)); reflexivity. Qed.

Lemma KP_remove_sub a m c' : KP (remove_sub a m c').
Proof. apply KP_conns. reflexivity. Qed.

Lemma KP_add_sub a m c' : KP (add_sub a m c').
Proof. apply KP_conns. intros s. unfold add_sub. destruct (existsb _ _); reflexivity. Qed.

Lemma KP_get_conn_bind {B} (k : conn_state -> M B) :
  (forall cs, x = true \/ c_mailbox_id cs = i -> KP (k cs)) -> KP (bind (get_conn c) k).
Proof.
  intros H s Hpre. change (bind (get_conn c) k s) with (k (conn_of s c) s).
  apply H; exact Hpre.
Qed.

Lemma KP_set_conn X : x = true \/ c_mailbox_id X = i -> KP (set_conn c X).
Proof.
  intros HX s Hpre c1. cbn [set_conn out].
  destruct (Nat.eq_dec c1 c) as [->|Hne].
  - destruct HX as [Hx|HX]; [left; split; [exact Hx|reflexivity]|].
    destruct Hpre as [Hx|Hpre]; [left; split; [exact Hx|reflexivity]|].
    right. unfold idof, conn_of in *. cbn [conns set_conns].
    destruct (lookup_conn c (conns s)) as [cs0|] eqn:El.
    + rewrite (lookup_update_same c X _ cs0 El). congruence.
    + rewrite (update_absent c X _ El), El. reflexivity.
  - right. unfold idof, conn_of. cbn [conns set_conns].
    rewrite (lookup_update_other c c1 X _ Hne). reflexivity.
Qed.

Lemma KP_stop_listeners a m : KP (stop_listeners a m).
Proof.
  intros s _ c1. right. cbn [stop_listeners out]. unfold idof, conn_of.
  cbn [conns set_conns set_subs].
  rewrite (lookup_map_if (fun y => existsb (Nat.eqb y) (subs_of a m (subs s))) stop_listener).
  destruct (lookup_conn c1 (conns s)) as [cs|]; [|reflexivity].
  destruct (existsb _ _); reflexivity.
Qed.

End Keep.

Ltac kp_ops := fail.
Ltac kp_side := solve [assumption | cbn; assumption | left; reflexivity].
Ltac kp_step :=
  first
    [ kp_ops
    | lazymatch goal with
      | |- KP _ _ _ (bind (get_conn _) _) => apply KP_get_conn_bind; intros ? ?
      | |- KP _ _ _ (bind _ _) => apply KP_bind; [|intros ?]
      | |- KP _ _ _ (try_catch _ _) => apply KP_try_catch; [|intros ?]
      | |- KP _ _ _ (ret _) => apply KP_ret
      | |- KP _ _ _ (raise _) => apply KP_raise
      | |- KP _ _ _ (@err _) => apply KP_err
      | |- KP _ _ _ get => apply KP_get
      | |- KP _ _ _ (q _) => apply KP_q
      | |- KP _ _ _ (utx _) => apply KP_utx
      | |- KP _ _ _ (tx _) => apply KP_tx
      | |- KP _ _ _ commit_chan => apply KP_commit_chan
      | |- KP _ _ _ commit_usage => apply KP_commit_usage
      | |- KP _ _ _ (send _ _) => apply KP_send
      | |- KP _ _ _ (remove_sub _ _ _) => apply KP_remove_sub
      | |- KP _ _ _ (add_sub _ _ _) => apply KP_add_sub
      | |- KP _ _ _ (stop_listeners _ _) => apply KP_stop_listeners
      | |- KP _ _ _ (set_conn _ _) => apply KP_set_conn; kp_side
      | |- KP _ _ _ (match ?y with _ => _ end) => destruct y
      end ].
Ltac kp := repeat kp_step.

(** ** the operations of server.py *)

Lemma KP_open_mailbox x c i a m side w : KP x c i (open_mailbox a m side w).
Proof. unfold open_mailbox. kp. Qed.

Ltac kp_ops ::=
  match goal with
  | |- KP _ _ _ (open_mailbox _ _ _ _) => apply KP_open_mailbox
  end.

Lemma KP_claim_nameplate x c i a n side w draw : KP x c i (claim_nameplate a n side w draw).
Proof. unfold claim_nameplate. kp. Qed.

Ltac kp_ops ::=
  match goal with
  | |- KP _ _ _ (open_mailbox _ _ _ _) => apply KP_open_mailbox
  | |- KP _ _ _ (claim_nameplate _ _ _ _ _) => apply KP_claim_nameplate
  end.

Lemma KP_allocate_nameplate x c i a side w o draw :
  KP x c i (allocate_nameplate a side w o draw).
Proof. unfold allocate_nameplate. kp. Qed.

Lemma KP_send_all x c i cs f : KP x c i (send_all cs f).
Proof.
  induction cs as [|c1 rest IH]; cbn [send_all]; [apply KP_ret|].
  apply KP_bind; [apply KP_send|intros _; exact IH].
Qed.

Lemma KP_send_each x c i c' l : KP x c i (send_each c' l).
Proof.
  induction l as [|r rest IH]; cbn [send_each]; [apply KP_ret|].
  apply KP_bind; [apply KP_send|intros _; exact IH].
Qed.

Lemma KP_add_message x c i a m r : KP x c i (add_message a m r).
Proof. unfold add_message. kp. apply KP_send_all. Qed.

Ltac kp_ops ::=
  match goal with
  | |- KP _ _ _ (open_mailbox _ _ _ _) => apply KP_open_mailbox
  | |- KP _ _ _ (claim_nameplate _ _ _ _ _) => apply KP_claim_nameplate
  | |- KP _ _ _ (allocate_nameplate _ _ _ _ _) => apply KP_allocate_nameplate
  | |- KP _ _ _ (send_all _ _) => apply KP_send_all
  | |- KP _ _ _ (send_each _ _) => apply KP_send_each
  | |- KP _ _ _ (add_message _ _ _) => apply KP_add_message
  end.

Section Ops.
Variable cfg : config.

Lemma KP_release_nameplate x c i a n side w : KP x c i (release_nameplate cfg a n side w).
Proof. unfold release_nameplate, write_usage. kp. Qed.

Lemma KP_mailbox_close x c i a m side mood w : KP x c i (mailbox_close cfg a m side mood w).
Proof. unfold mailbox_close, write_usage. kp. Qed.

Lemma KP_log_client_version x c i a side w cv : KP x c i (log_client_version cfg a side w cv).
Proof. unfold log_client_version. kp. Qed.

Lemma KP_dump_stats x c i w r : KP x c i (dump_stats cfg w r).
Proof. unfold dump_stats. kp. Qed.

Lemma KP_prune_app x c i a w o : KP x c i (prune_app cfg a w o).
Proof. unfold prune_app, write_usage. kp. Qed.

Lemma KP_prune_apps x c i w o : forall apps, KP x c i (prune_apps cfg apps w o).
Proof.
  induction apps as [|a rest IH]; cbn [prune_apps]; [apply KP_ret|].
  apply KP_bind; [apply KP_prune_app|intros _; exact IH].
Qed.

Lemma KP_expire x c i fault : KP x c i (expire cfg fault).
Proof.
  unfold expire, prune_all_apps.
  apply KP_bind; [apply KP_get|]. intros s0.
  apply KP_bind; [|intros _; apply KP_dump_stats].
  destruct fault; [apply KP_ret|].
  apply KP_try_catch; [|intros _; apply KP_ret].
  apply KP_bind; [apply KP_q|]. intros apps. apply KP_prune_apps.
Qed.

End Ops.

Ltac kp_ops ::=
  match goal with
  | |- KP _ _ _ (open_mailbox _ _ _ _) => apply KP_open_mailbox
  | |- KP _ _ _ (claim_nameplate _ _ _ _ _) => apply KP_claim_nameplate
  | |- KP _ _ _ (allocate_nameplate _ _ _ _ _) => apply KP_allocate_nameplate
  | |- KP _ _ _ (send_all _ _) => apply KP_send_all
  | |- KP _ _ _ (send_each _ _) => apply KP_send_each
  | |- KP _ _ _ (add_message _ _ _) => apply KP_add_message
  | |- KP _ _ _ (release_nameplate _ _ _ _ _) => apply KP_release_nameplate
  | |- KP _ _ _ (mailbox_close _ _ _ _ _ _) => apply KP_mailbox_close
  | |- KP _ _ _ (log_client_version _ _ _ _ _) => apply KP_log_client_version
  end.

(** ** the handlers of server_websocket.py *)

Section Handlers.
Variable cfg : config.

Lemma KP_handle_ping x c i msg : KP x c i (handle_ping c msg).
Proof. unfold handle_ping. kp. Qed.

Lemma KP_handle_bind x c i msg : KP x c i (handle_bind cfg c msg).
Proof. unfold handle_bind. kp. Qed.

Lemma KP_handle_list x c i a : KP x c i (handle_list cfg c a).
Proof. unfold handle_list. kp. Qed.

Lemma KP_handle_allocate x c i a side o : KP x c i (handle_allocate c a side o).
Proof. unfold handle_allocate. kp. Qed.

Lemma KP_handle_claim x c i a side msg o : KP x c i (handle_claim c a side msg o).
Proof. unfold handle_claim, catch_crowded_reclaimed. kp. Qed.

Lemma KP_handle_release x c i a side msg : KP x c i (handle_release cfg c a side msg).
Proof. unfold handle_release. kp. Qed.

Lemma KP_handle_add x c i a side msg : KP x c i (handle_add c a side msg).
Proof. unfold handle_add. kp. Qed.

Lemma KP_handle_close x c i a side msg : KP x c i (handle_close cfg c a side msg).
Proof. unfold handle_close, catch_crowded. kp. Qed.

(** `open` is the one handler that rewrites the remembered id -- of the acting
    connection only *)
Lemma KP_handle_open c i a side msg : KP true c i (handle_open c a side msg).
Proof. unfold handle_open, catch_crowded, get_messages. kp. Qed.

End Handlers.

(** * A command as a whole: a remembered id changes only while nothing is held *)

Definition kd (s s' : state) : Prop :=
  forall c1, c_mailbox (conn_of s c1) = None \/ idof s' c1 = idof s c1.

Lemma kd_refl s : kd s s.
Proof. intros c1. right. reflexivity. Qed.

Lemma ksame_kd c s s' : ksame false c s s' -> kd s s'.
Proof. intros H c1. destruct (H c1) as [[K _]|K]; [discriminate|right; exact K]. Qed.

Definition kevt (s s' : state) : Prop :=
  forall c1 cs', lookup_conn c1 (conns s') = Some cs' ->
    c_mailbox (conn_of s c1) = None \/ c_mailbox_id cs' = idof s c1.

Lemma kd_kevt s s' : kd s s' -> kevt s s'.
Proof.
  intros H c1 cs' Hl. destruct (H c1) as [K|K]; [left; exact K|right].
  rewrite <- K. unfold idof, conn_of. rewrite Hl. reflexivity.
Qed.

Lemma kd_kevt_drop c s s' : kd s s' -> kevt s (drop_conn c s').
Proof.
  intros H c1 cs' Hl. destruct (drop_conn_parts c s') as (_ & E2 & _). rewrite E2 in Hl.
  destruct (Nat.eq_dec c1 c) as [->|Hne].
  - rewrite lookup_remove_same in Hl. discriminate.
  - rewrite (lookup_remove_other c c1 _ Hne) in Hl. exact (kd_kevt s s' H c1 cs' Hl).
Qed.

Section Events.
Variable cfg : config.

Lemma dispatch_kd c t msg o s : kd s (out (dispatch cfg c t msg o s)).
Proof.
  assert (HF : forall m : M unit, KP false c (idof s c) m -> kd s (out (m s))).
  { intros m H. apply (ksame_kd c). apply H. right. reflexivity. }
  destruct t; unfold dispatch; cbv iota;
    try (apply HF; apply KP_handle_ping);
    try (apply HF; apply KP_handle_bind);
    rewrite bind_get_conn;
    (destruct (c_bound (conn_of s c)) as [[a side]|] eqn:Eb; [|apply kd_refl]).
  - apply HF. apply KP_handle_list.
  - apply HF. apply KP_handle_allocate.
  - apply HF. apply KP_handle_claim.
  - apply HF. apply KP_handle_release.
  - destruct (c_mailbox (conn_of s c)) as [h0|] eqn:Em.
    + rewrite err_open by (rewrite Em; reflexivity). apply kd_refl.
    + intros c1.
      destruct (KP_handle_open c (idof s c) a side msg s (or_introl eq_refl) c1) as [[_ ->]|K];
        [left; exact Em|right; exact K].
  - apply HF. apply KP_handle_add.
  - apply HF. apply KP_handle_close.
  - apply kd_refl.
Qed.

Lemma on_message_kd c msg o s : kd s (out (on_message cfg c msg o s)).
Proof.
  unfold on_message, try_catch. destruct (m_type msg) as [t|].
  - set (s0 := set_log s (LFrame c (FAck (m_id msg)) (is_clean s) (now s) :: log s)).
    rewrite (bind_ok _ _ s tt s0) by reflexivity.
    pose proof (dispatch_kd c t msg o s0) as H.
    destruct (dispatch cfg c t msg o s0) as [u s1|e s1]; cbn [out] in H; [exact H|].
    destruct e; exact H.
  - intros c1. right. reflexivity.
Qed.

Lemma expire_kd fault s : kd s (out (expire cfg fault s)).
Proof.
  apply (ksame_kd 0%nat). apply (KP_expire cfg false 0%nat (idof s 0%nat)). right. reflexivity.
Qed.

Lemma step_b_kevt s b : kevt s (fst (fst (step_b cfg s b))).
Proof.
  destruct b as [c|c m o|c|fault|dt fault]; unfold step_b.
  - destruct (has_conn c s); [apply kd_kevt, kd_refl|].
    unfold run_m, on_open, send. cbn [fst]. intros c1 cs' H. cbn [conns set_log set_conns] in H.
    unfold idof, conn_of. destruct (lookup_conn c1 (conns s)) as [cs|] eqn:El; [|left; reflexivity].
    rewrite (lookup_app_l c1 _ _ cs El) in H. right. congruence.
  - destruct (has_conn c s); [|apply kd_kevt, kd_refl].
    pose proof (on_message_kd c m o s) as H.
    destruct (on_message cfg c m o s) as [u s'|e s']; cbn [out fst] in *.
    + apply kd_kevt. exact H.
    + apply kd_kevt_drop. exact H.
  - destruct (has_conn c s); [|apply kd_kevt, kd_refl]. cbn [fst].
    apply kd_kevt_drop. apply kd_refl.
  - unfold run_m. pose proof (expire_kd fault s) as H.
    destruct (expire cfg fault s); apply kd_kevt; exact H.
  - destruct (dt <? 0); [apply kd_kevt, kd_refl|]. cbv zeta.
    set (s1 := set_now s (now s + dt)).
    destruct (next_due s1 <=? now s1); [|exact (kd_kevt s s (kd_refl s))].
    unfold run_m. pose proof (expire_kd fault s1) as H.
    destruct (expire cfg fault s1); apply kd_kevt; exact H.
Qed.

Lemma step_kevt s b : kevt s (fst (step cfg s (EB b))).
Proof.
  unfold step. pose proof (step_b_kevt (set_log s []) b) as H.
  destruct (step_b cfg (set_log s []) b) as [[s1 valid] x]. exact H.
Qed.

(** ** a successful `open` leaves the opened id in the record *)

Lemma handle_open_id c a side msg h s cs :
  lookup_conn c (conns s) = Some cs -> c_mailbox cs = None -> m_mailbox msg = Some h ->
  idof (out (handle_open c a side msg s)) c = Some h.
Proof.
  intros Hl Hm Hmm. unfold handle_open. rewrite bind_get_conn.
  assert (Hc : conn_of s c = cs) by (unfold conn_of; rewrite Hl; reflexivity).
  rewrite Hc, Hm, Hmm.
  set (s1 := set_conns s (update_conn c (set_mailbox_id cs (Some h)) (conns s))).
  rewrite (bind_ok _ _ s tt s1) by reflexivity.
  assert (Hpre : idof s1 c = Some h).
  { unfold idof, conn_of, s1. cbn [conns set_conns].
    rewrite (lookup_update_same c _ _ cs Hl). reflexivity. }
  match goal with |- idof (out (?m s1)) c = _ => assert (K : KP false c (Some h) m) end.
  { unfold catch_crowded, get_messages. kp. }
  destruct (K s1 (or_intror Hpre) c) as [[D _]|E]; [discriminate|]. rewrite E. exact Hpre.
Qed.

Lemma open_sets_id s c cs a side msg o h :
  lookup_conn c (conns s) = Some cs -> c_bound cs = Some (a, side) -> c_mailbox cs = None ->
  m_type msg = Some TOpen -> m_mailbox msg = Some h ->
  forall cs', lookup_conn c (conns (fst (step cfg s (EB (ECmd c msg o))))) = Some cs' ->
              c_mailbox_id cs' = Some h.
Proof.
  intros Hl Hb Hm Ht Hmm cs'. rewrite (step_cmd cfg s c msg o TOpen cs Hl Ht).
  set (s0 := set_log s [LFrame c (FAck (m_id msg)) (is_clean s) (now s)]).
  assert (Hc0 : conn_of s0 c = cs) by (unfold conn_of, s0; cbn [conns set_log]; rewrite Hl; reflexivity).
  rewrite (dispatch_bound cfg c TOpen msg o s0 a side) by (try discriminate; rewrite Hc0; exact Hb).
  assert (Hl0 : lookup_conn c (conns s0) = Some cs) by exact Hl.
  pose proof (handle_open_id c a side msg h s0 cs Hl0 Hm Hmm) as H.
  destruct (handle_open c a side msg s0) as [u s1|e s1]; cbn [out] in H.
  - cbn [fst conns set_log]. intros Hl'. unfold idof, conn_of in H. rewrite Hl' in H. exact H.
  - destruct e; cbn [fst conns set_log]; intros Hl';
      first [ destruct (drop_conn_parts c s1) as (_ & E2 & _);
              rewrite E2, lookup_remove_same in Hl'; discriminate
            | unfold idof, conn_of in H; rewrite Hl' in H; exact H ].
Qed.

Lemma step_err_subs s c cs msg o :
  log s = [] -> lookup_conn c (conns s) = Some cs -> erroneous cs msg = true ->
  subs (fst (step cfg s (EB (ECmd c msg o)))) = subs s.
Proof.
  intros Hlog Hl Herr. unfold step. rewrite (set_log_nil s Hlog). unfold step_b, has_conn.
  rewrite Hl. rewrite erroneous_harmless by (unfold conn_of; rewrite Hl; exact Herr).
  reflexivity.
Qed.

End Events.

Section WithConfig.
Variable cfg : config.
Hypothesis Hexp : 0 < exp cfg.

(** a subscription that appears belongs to a connection that has just stored
    the mailbox's id *)
Lemma new_sub_id s b a h c cs' :
  SInv s -> log s = [] ->
  In (a, h, c) (subs (fst (step cfg s (EB b)))) -> ~ In (a, h, c) (subs s) ->
  lookup_conn c (conns (fst (step cfg s (EB b)))) = Some cs' -> c_mailbox_id cs' = Some h.
Proof using Hexp.
  intros HS Hlog Hin Hnot Hl'.
  destruct (LifeFacts.event_evo cfg Hexp s (EB b) HS Hlog Logic.I) as (_ & Hbeg & _).
  destruct (Hbeg a h c Hin Hnot) as (msg & o & E & Ht & Hmm & side & cs & Hl & Hb).
  inversion E; subst b.
  destruct (erroneous cs msg) eqn:Herr.
  - exfalso. apply Hnot. rewrite <- (step_err_subs cfg s c cs msg o Hlog Hl Herr). exact Hin.
  - assert (Hm : c_mailbox cs = None).
    { unfold erroneous in Herr. rewrite Ht, Hb in Herr.
      destruct (c_mailbox cs); [discriminate|reflexivity]. }
    exact (open_sets_id cfg s c cs a side msg o h Hl Hb Hm Ht Hmm cs' Hl').
Qed.

Theorem step_hold_ok s e :
  SInv s -> log s = [] -> hold_ok s -> hold_ok (fst (step cfg s e)).
Proof.
  intros HS Hlog Hh.
  pose proof (step_boot_subs cfg s e) as Hboot.
  pose proof (step_spec cfg Hexp s e HS) as Hspec.
  destruct e as [b|k b|].
  2,3: destruct (step cfg s _) as [s' ob]; cbn [fst] in *; destruct Hspec as (HS' & _);
       intros c cs' h Hl' Hm'; exfalso;
       pose proof (si_conns s' HS' c cs' Hl') as Hok; unfold conn_ok in Hok; rewrite Hm' in Hok;
       destruct Hok as (a & side & _ & _ & Hin'); rewrite Hboot in Hin'; destruct Hin'.
  clear Hboot.
  pose proof (step_rel cfg s b HS) as (RS & RB & RN).
  pose proof (step_kevt cfg s b) as RK.
  pose proof (fun a h c cs' => new_sub_id s b a h c cs' HS Hlog) as RI.
  destruct (step cfg s (EB b)) as [s' ob]. cbn [fst] in *. destruct Hspec as (HS' & _).
  intros c cs' h Hl' Hm'.
  pose proof (si_conns s' HS' c cs' Hl') as Hok. unfold conn_ok in Hok. rewrite Hm' in Hok.
  destruct Hok as (a & side & Hb' & _ & Hin').
  destruct (si_subs s' HS' _ Hin') as [Hmb' _].
  assert (Ha' : Obs.mb_alive (chan_w s') h).
  { destruct Hmb' as (r & Hr & _ & Ei). exists r. auto. }
  destruct (in_dec hi_sub_dec (a, h, c) (subs s)) as [Hold|Hnew].
  - (* the connection already held the mailbox *)
    destruct (si_subs s HS _ Hold) as [_ (cs & side1 & Hl & Hb & Hm)].
    destruct (Hh c cs h Hl Hm) as (Hid & a2 & side2 & Hb2 & r & Hr).
    assert (Es : side = side1).
    { destruct (RB c cs' Hl') as [K|K]; unfold conn_of in K; rewrite Hl in K; congruence. }
    assert (E2 : side2 = side1) by congruence.
    subst side1 side2. split.
    + destruct (RK c cs' Hl') as [K|K]; unfold idof, conn_of in K; rewrite Hl in K; congruence.
    + exists a, side. split; [exact Hb'|]. apply sel_mbs_side_list.
      destruct (Step_mb _ _ h RS Ha') as [l E]. rewrite E. apply in_or_app. left.
      apply sel_mbs_side_list. eauto.
  - (* it has just opened it *)
    destruct (RN _ Hin') as [Hold|(a0 & m0 & c0 & side0 & E & Hb0 & Hs0)]; [contradiction|].
    inversion E; subst a0 m0 c0.
    assert (Es : side0 = side) by (specialize (Hb0 cs' Hl'); congruence). subst side0.
    split; [exact (RI a h c cs' Hin' Hnew Hl')|].
    exists a, side. split; [exact Hb'|]. apply sel_mbs_side_list.
    exact (hi_firstn_In _ _ _ Hs0).
Qed.

Theorem reachable_hold_ok s : reachable cfg s -> hold_ok s.
Proof.
  intros (t0 & h & ->). destruct (init_spec cfg Hexp t0) as [Hi Hl].
  assert (H0 : hold_ok (init cfg t0)).
  { unfold init. pose proof (boot_on_spec cfg Hexp empty_chan empty_usage t0 DbInv_empty) as B.
    destruct (boot_on cfg empty_chan empty_usage t0) as [[s1 bl] x].
    destruct B as (_ & _ & Ec & _). cbn [fst]. intros c cs h0 Hl0. rewrite Ec in Hl0. discriminate. }
  revert Hi Hl H0. generalize (init cfg t0).
  induction h as [|e h IH]; intros s HS Hl H2; cbn [run fst]; [exact H2|].
  pose proof (step_spec cfg Hexp s e HS) as Hspec.
  pose proof (step_hold_ok s e HS Hl H2) as H2'.
  destruct (step cfg s e) as [s1 o1]. cbn [fst] in H2'. destruct Hspec as (HS1 & Hl1 & _).
  specialize (IH s1 HS1 Hl1 H2'). destruct (run cfg s1 h). exact IH.
Qed.

(** in a reachable state a well-formed close on a connection that holds a
    mailbox names (if it names anything) exactly the held mailbox, and the
    closing side has a side row there *)
Theorem close_names_held s c cs a side msg h :
  reachable cfg s -> lookup_conn c (conns s) = Some cs -> c_bound cs = Some (a, side) ->
  c_mailbox cs = Some h -> m_type msg = Some TClose -> erroneous cs msg = false ->
  cmd_mbox cs msg = Some h /\ sel_mbs (chan_w s) h side <> None.
Proof.
  intros Hr Hl Hb Hm Ht Herr.
  destruct (reachable_hold_ok s Hr c cs h Hl Hm) as (Hid & a2 & side2 & Hb2 & r & Hrow).
  assert (E2 : side2 = side) by congruence. subst side2.
  unfold erroneous in Herr. rewrite Ht, Hb, Hid in Herr.
  apply orb_false_iff in Herr. destruct Herr as [_ Hnm].
  split; [|rewrite Hrow; discriminate].
  unfold cmd_mbox. rewrite Hid. unfold name_mismatch in Hnm.
  destruct (m_mailbox msg) as [n|]; [|reflexivity].
  apply negb_false_iff in Hnm. apply seqb_eq in Hnm. subst n. reflexivity.
Qed.

(** ... and a close naming another mailbox is refused (one error frame, nothing changes) *)
Theorem close_other_refused s c cs a side msg h m :
  reachable cfg s -> lookup_conn c (conns s) = Some cs -> c_bound cs = Some (a, side) ->
  c_mailbox cs = Some h -> m_type msg = Some TClose -> m_mailbox msg = Some m -> m <> h ->
  erroneous cs msg = true.
Proof.
  intros Hr Hl Hb Hm Ht Hmm Hne.
  destruct (reachable_hold_ok s Hr c cs h Hl Hm) as (Hid & _).
  unfold erroneous. rewrite Ht, Hb, Hid, Hmm. unfold name_mismatch.
  apply orb_true_iff. right. apply negb_true_iff. apply seqb_neq. exact Hne.
Qed.

End WithConfig.
