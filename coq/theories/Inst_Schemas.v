(** Inst_Schemas.v -- instance obligation of C19: the schema scripts
    regenerated from /repo/src/wormhole_mailbox_server/db-schemas satisfy the
    side condition under which the creation theorems of DbFilesFacts.v hold
    (only CREATE statements, pairwise distinct object names, a `version`
    table).  Re-proved by computation on every run; an edit of a schema script
    that falsifies it breaks this file. *)
From Coq Require Import ZArith String List.
From MW Require Import Sql DbFiles.
From MWGen Require Import GenParams GenSchemas.

Lemma gen_channel_fresh : fresh_ok gen_channel_schema = true.
Proof. vm_compute. reflexivity. Qed.

Lemma gen_usage_fresh : fresh_ok gen_usage_schema = true.
Proof. vm_compute. reflexivity. Qed.

(** the (schema script, target version) pairs database.py creates databases from *)
Definition gen_schemas : list (script * Z) :=
  ((gen_channel_schema, gen_channel_target) :: (gen_usage_schema, gen_usage_target) :: nil).

Lemma gen_schemas_fresh schema target : In (schema, target) gen_schemas -> fresh_ok schema = true.
Proof.
  intros [H|[H|[]]]; inversion H; subst; [exact gen_channel_fresh | exact gen_usage_fresh].
Qed.
