(** NonInterferenceX.v -- C06 at history level, for histories with crashes
    inside ANY command, connect or disconnect.

    NonInterferenceR.v covers restarts and crashes [ECrash k (ECmd c msg o)]
    inside commands that are NOT another app's.  Here the process may also die
    inside a command of another app (and inside a connect or a disconnect).
    A crash inside another app's command cannot simply be removed from the
    history: the process does restart.  So the filtered history keeps a bare
    [ERestart] in its place ([filterX]).

    What is needed is a fact about EVERY COMMIT SNAPSHOT of a command of
    another app A, not only about its final state: each channel database it
    commits has the same B-rows as the one the command started on, and each
    usage database it commits the same B-records.  IsoFacts.v proves this for
    the final state with a running invariant [INV]; part 1 extends that
    invariant to the log ([XINV]) and runs it over the handlers once more.

    One point of the statement differs from NonInterferenceR.v.  [framesB_run]
    classifies the frames of an event by the connection table of the state
    AFTER the event.  After a crash that table is empty, so every frame the
    dying process had sent counts as "seen by B's side" -- also the ack of
    another app's command.  That is harmless as long as only kept commands
    crash (all their frames go to B's side anyway) but wrong for a crash inside
    another app's command ([framesB_run_dropped_crash_refuted]).  Here the
    frames of a crash event are classified by the connection table the
    completed base event would have left ([framesX_run]); for the histories of
    NonInterferenceR.v both definitions agree ([framesX_run_rc]).

    Parts 5 and 6 add crashes inside a sweep or a timer-driven clock advance.
    The full run's sweep commits once per step and app, the other run only for
    B, so the commit index differs: for every k there is a k' such that dying
    after commit k of the full sweep and after commit k' of the smaller sweep
    leaves files that agree on B's part ([kept_sweep_crash]).  The history
    without the other apps is then given by a relation ([FX]) instead of a
    function, and the theorem is existential ([noninterference_xs]). *)
From MW Require Import Base Store Monad Usage Server Websocket Service Findings
     Inv StoreFacts Hoare DbFactsA DbFactsB OpFacts ProtoFacts Obs StepFacts SweepFacts
     NpFactsA MbFactsA MbFactsB IsoFacts Corollaries LifeFacts NonInterference Inst_Params
     NonInterferenceR.
From MW Require Import UsageFacts.
From MW Require ViewFacts.
Local Open Scope list_scope.

(** * Part 1: every snapshot committed by a command of app A leaves B's rows alone *)

Section Snap.
Variable cfg : config.
Variables A B : string.
Hypothesis HAB : B <> A.
Variable s0 : state.
Variable c : nat.
Variables (cs0 : conn_state) (side0 : string).
Hypothesis Hc0 : lookup_conn c (conns s0) = Some cs0.
Hypothesis Hb0 : c_bound cs0 = Some (A, side0).

(** the snapshots in the log: well-formed, and B's part is that of the start *)
Definition LC (s : state) : Prop :=
  (forall d, In (LCommitChan d) (log s) -> DbInv d /\ app_view d B = app_view (chan_w s0) B) /\
  (forall u, In (LCommitUsage u) (log s) -> app_usage u B = app_usage (usage_w s0) B).

Definition XINV (s : state) : Prop := INV A B s0 s /\ LC s.

Lemma LC_same s s' : log s' = log s -> LC s -> LC s'.
Proof. unfold LC. intros ->. auto. Qed.

Lemma XINV_chan s d' : XINV s -> DbInv d' -> iso B (chan_w s) d' -> XINV (set_chan_w s d').
Proof. intros [HI HL] Hd Hiso. split; [apply INV_chan; assumption|exact HL]. Qed.

Lemma XINV_usage s u' :
  XINV s -> app_usage u' B = app_usage (usage_w s) B -> XINV (set_usage_w s u').
Proof. intros [HI HL] Hu. split; [apply INV_usage; assumption|exact HL]. Qed.

Lemma XINV_commit_chan s :
  XINV s -> XINV (mkState (chan_w s) (chan_w s) (usage_w s) (usage_c s) (subs s) (conns s)
                          (now s) (boot s) (timer_start s) (next_due s)
                          (LCommitChan (chan_w s) :: log s)).
Proof.
  intros [HI [HL1 HL2]]. split; [apply INV_commit_chan; exact HI|]. split; cbn [log].
  - intros d [K|K]; [|auto]. inversion K; subst d. split; [exact (iv_db _ _ _ _ HI)|exact (iv_cw _ _ _ _ HI)].
  - intros u [K|K]; [discriminate|auto].
Qed.

Lemma XINV_commit_usage s :
  XINV s -> XINV (mkState (chan_w s) (chan_c s) (usage_w s) (usage_w s) (subs s) (conns s)
                          (now s) (boot s) (timer_start s) (next_due s)
                          (LCommitUsage (usage_w s) :: log s)).
Proof.
  intros [HI [HL1 HL2]]. split; [apply INV_commit_usage; exact HI|]. split; cbn [log].
  - intros d [K|K]; [discriminate|auto].
  - intros u [K|K]; [|auto]. inversion K; subst u. exact (iv_uw _ _ _ _ HI).
Qed.

Lemma XINV_send s c' f :
  XINV s -> (exists sd, bound_to s0 c' A sd) ->
  XINV (set_log s (LFrame c' f (is_clean s) (now s) :: log s)).
Proof.
  intros [HI [HL1 HL2]] Hbd. split; [apply INV_send; assumption|]. split; cbn [log set_log].
  - intros d [K|K]; [discriminate|auto].
  - intros u [K|K]; [discriminate|auto].
Qed.

Lemma XINV_set_conn s cs : XINV s -> XINV (set_conns s (update_conn c cs (conns s))).
Proof. intros [HI HL]. split; [exact (INV_set_conn A B HAB s0 c cs0 side0 Hc0 Hb0 s cs HI)|exact HL]. Qed.

Lemma XINV_add_sub s m :
  XINV s -> XINV (if existsb (sub_is A m c) (subs s) then s else set_subs s (subs s ++ [(A, m, c)])).
Proof.
  intros [HI HL]. split; [exact (INV_add_sub A B HAB s0 c cs0 side0 Hc0 Hb0 s m HI)|].
  destruct (existsb (sub_is A m c) (subs s)); exact HL.
Qed.

Lemma XINV_remove_sub s a m :
  XINV s -> XINV (set_subs s (filter (fun p => negb (sub_is a m c p)) (subs s))).
Proof. intros [HI HL]. split; [exact (INV_remove_sub A B HAB s0 c cs0 side0 Hc0 Hb0 s a m HI)|exact HL]. Qed.

Lemma XINV_stop s m :
  XINV s ->
  XINV (set_subs
         (set_conns s
            (map (fun p => if existsb (Nat.eqb (fst p)) (subs_of A m (subs s))
                           then (fst p, stop_listener (snd p)) else p) (conns s)))
         (filter (fun p => negb (seqb (fst (fst p)) A && seqb (snd (fst p)) m)) (subs s))).
Proof. intros [HI HL]. split; [exact (INV_stop A B HAB s0 s m HI)|exact HL]. Qed.

(** ** preservation by monadic computations *)

Definition xpres {X} (P : X -> Prop) (m : M X) : Prop :=
  forall s, XINV s -> wp m (fun a s' => P a /\ XINV s') (fun _ s' => XINV s') s.

Lemma xpres_bind {X Y} (P : X -> Prop) (Q : Y -> Prop) (m : M X) (k : X -> M Y) :
  xpres P m -> (forall a, P a -> xpres Q (k a)) -> xpres Q (bind m k).
Proof.
  intros Hm Hk s Hs. apply wp_bind. eapply wp_conseq; [apply (Hm s Hs)| |].
  - intros a s' [Ha Hs']. apply (Hk a Ha s' Hs').
  - auto.
Qed.

Lemma xpres_try_catch {X} (P : X -> Prop) (m : M X) (h : exn -> M X) :
  xpres P m -> (forall e, xpres P (h e)) -> xpres P (try_catch m h).
Proof.
  intros Hm Hh s Hs. apply wp_try_catch. eapply wp_conseq; [apply (Hm s Hs)| |].
  - auto.
  - intros e s' Hs'. apply (Hh e s' Hs').
Qed.

Lemma xpres_ret {X} (P : X -> Prop) (a : X) : P a -> xpres P (ret a).
Proof. intros Ha s Hs. apply wp_ret. split; assumption. Qed.

Lemma xpres_raise {X} (P : X -> Prop) e : xpres P (raise e).
Proof. intros s Hs. apply wp_raise. exact Hs. Qed.

Lemma xpres_get (P : state -> Prop) : (forall s, XINV s -> P s) -> xpres P get.
Proof. intros HP s Hs. apply wp_get. split; [apply HP; exact Hs|exact Hs]. Qed.

Lemma xpres_q {X} (P : X -> Prop) (f : chan_db -> X) : (forall d, P (f d)) -> xpres P (q f).
Proof. intros HP s Hs. apply wp_q. split; [apply HP|exact Hs]. Qed.

Lemma xpres_tx {X} (P : X -> Prop) (f : chan_db -> txres X) :
  (forall d, DbInv d ->
     match f d with
     | TxOk a d' => P a /\ DbInv d' /\ iso B d d'
     | TxFail _ d' => DbInv d' /\ iso B d d'
     end) -> xpres P (tx f).
Proof.
  intros Hf s Hs. apply wp_tx. specialize (Hf (chan_w s) (iv_db _ _ _ _ (proj1 Hs))).
  destruct (f (chan_w s)) as [a d'|e d'].
  - destruct Hf as (Ha & Hd & Hi). split; [exact Ha|]. apply XINV_chan; assumption.
  - destruct Hf as (Hd & Hi). apply XINV_chan; assumption.
Qed.

Lemma xpres_commit_chan : xpres (fun _ => True) commit_chan.
Proof. intros s Hs. apply wp_commit_chan. split; [exact I|]. apply XINV_commit_chan. exact Hs. Qed.

Lemma xpres_commit_usage : xpres (fun _ => True) commit_usage.
Proof. intros s Hs. apply wp_commit_usage. split; [exact I|]. apply XINV_commit_usage. exact Hs. Qed.

Lemma xpres_send f : xpres (fun _ => True) (send c f).
Proof.
  intros s Hs. apply wp_send. split; [exact I|].
  apply XINV_send; [exact Hs|exact (bd_c A s0 c cs0 side0 Hc0 Hb0)].
Qed.

Lemma xpres_get_conn : xpres (fun _ => True) (get_conn c).
Proof. intros s Hs. apply wp_get_conn. split; [exact I|exact Hs]. Qed.

Lemma xpres_set_conn cs : xpres (fun _ => True) (set_conn c cs).
Proof. intros s Hs. apply wp_set_conn. split; [exact I|]. apply XINV_set_conn. exact Hs. Qed.

Lemma xpres_add_sub m : xpres (fun _ => True) (add_sub A m c).
Proof. intros s Hs. apply wp_add_sub. split; [exact I|]. apply XINV_add_sub. exact Hs. Qed.

Lemma xpres_remove_sub a m : xpres (fun _ => True) (remove_sub a m c).
Proof. intros s Hs. apply wp_remove_sub. split; [exact I|]. apply XINV_remove_sub. exact Hs. Qed.

Lemma xpres_stop_listeners m : xpres (fun _ => True) (stop_listeners A m).
Proof. intros s Hs. apply wp_stop_listeners. split; [exact I|]. apply XINV_stop. exact Hs. Qed.

Lemma xpres_write_usage unps umbs :
  Pnp A unps -> Pmb A umbs -> xpres (fun _ => True) (write_usage unps umbs).
Proof.
  intros Hn Hm s Hs. unfold write_usage. apply wp_utx. split; [exact I|].
  apply XINV_usage; [exact Hs|].
  rewrite (fold_mb_usage A B HAB); [|exact Hm]. apply (fold_np_usage A B HAB). exact Hn.
Qed.

Lemma xpres_send_all f cs :
  (forall c', In c' cs -> exists sd, bound_to s0 c' A sd) -> xpres (fun _ => True) (send_all cs f).
Proof.
  induction cs as [|c1 rest IH]; intros Hcs; cbn [send_all].
  - apply xpres_ret. exact I.
  - apply (xpres_bind (fun _ => True)).
    + intros s Hs. apply wp_send. split; [exact I|]. apply XINV_send; [exact Hs|].
      apply Hcs. left. reflexivity.
    + intros _ _. apply IH. intros c' Hc'. apply Hcs. right. exact Hc'.
Qed.

Create HintDb xisopres.

Ltac xpres_step :=
  cbv beta;
  lazymatch goal with
  | |- xpres _ (tx (fun d => open_body d _ _ _ _)) =>
      apply xpres_tx; intros ? ?; apply (tx_open_body A B HAB); assumption
  | |- xpres _ (tx (fun d => claim_body d _ _ _ _ _)) =>
      apply xpres_tx; intros ? ?; apply (tx_claim_body A B HAB); assumption
  | |- xpres _ (bind _ _) => apply (xpres_bind (fun _ => True)); [|intros ? _]
  | |- xpres _ (ret _) => apply xpres_ret; exact I
  | |- xpres _ (raise _) => apply xpres_raise
  | |- xpres _ err => apply xpres_raise
  | |- xpres _ (try_catch _ _) => apply xpres_try_catch; [|intros ?]
  | |- xpres _ (catch_crowded _) => apply xpres_try_catch; [|intros ?]
  | |- xpres _ (catch_crowded_reclaimed _) => apply xpres_try_catch; [|intros ?]
  | |- xpres _ get => apply xpres_get; intros; exact I
  | |- xpres _ (q _) => apply xpres_q; intros; exact I
  | |- xpres _ commit_chan => apply xpres_commit_chan
  | |- xpres _ commit_usage => apply xpres_commit_usage
  | |- xpres _ (send _ _) => apply xpres_send
  | |- xpres _ (get_conn _) => apply xpres_get_conn
  | |- xpres _ (set_conn _ _) => apply xpres_set_conn
  | |- xpres _ (add_sub _ _ _) => apply xpres_add_sub
  | |- xpres _ (remove_sub _ _ _) => apply xpres_remove_sub
  | |- xpres _ (stop_listeners _ _) => apply xpres_stop_listeners
  | |- xpres _ (write_usage _ _) =>
      apply xpres_write_usage; unfold Prel, Pclose, Pnp, Pmb in *; first [assumption|constructor|tauto]
  | |- xpres _ (match ?x with _ => _ end) => destruct x
  | |- xpres _ _ => solve [eauto with xisopres]
  end.

(** ** Server.v *)

Lemma xpres_open_mailbox m side w : xpres (fun _ => True) (open_mailbox A m side w).
Proof. unfold open_mailbox. repeat xpres_step. Qed.
Local Hint Resolve xpres_open_mailbox : xisopres.

Lemma xpres_claim_nameplate name side w draw :
  xpres (fun _ => True) (claim_nameplate A name side w draw).
Proof. unfold claim_nameplate. repeat xpres_step. Qed.
Local Hint Resolve xpres_claim_nameplate : xisopres.

Lemma xpres_allocate_nameplate side w o draw :
  xpres (fun _ => True) (allocate_nameplate A side w o draw).
Proof. unfold allocate_nameplate. repeat xpres_step. Qed.
Local Hint Resolve xpres_allocate_nameplate : xisopres.

Lemma xpres_release_tail r :
  Prel A r ->
  xpres (fun _ => True)
       (match r with
        | None => ret tt
        | Some unps =>
            (if usage_on cfg then write_usage unps [] ;;; commit_usage else ret tt) ;;;
            commit_chan
        end).
Proof. intros Hr. destruct r as [unps|]; repeat xpres_step. Qed.

Lemma xpres_release_nameplate name side w :
  xpres (fun _ => True) (release_nameplate cfg A name side w).
Proof.
  intros s HX. pose proof (proj1 HX) as HI. unfold release_nameplate. apply wp_bind. apply wp_tx.
  destruct (release_mark_body (chan_w s) A name side) as [[npid d1]|] eqn:Erm.
  - destruct (release_mark_body_ok _ _ _ _ _ _ (iv_db _ _ _ _ HI) Erm) as (Hdb1 & _ & _).
    destruct (iso_release_mark A B HAB _ _ _ _ _ (iv_db _ _ _ _ HI) Erm) as [Hiso1 Hf1].
    cbv beta iota.
    assert (HI1 : XINV (set_chan_w s d1)) by (apply XINV_chan; assumption).
    apply wp_bind. apply wp_commit_chan.
    apply XINV_commit_chan in HI1.
    match goal with |- wp _ _ _ ?st => set (s2 := st) in * end.
    apply wp_bind. apply wp_tx. change (chan_w s2) with d1.
    pose proof (tx_release_delete A B cfg d1 npid w Hdb1 Hf1) as Htx.
    destruct (release_delete_body cfg d1 A npid w) as [r d2|e d2].
    + destruct Htx as (Hr & Hdb2 & Hiso2).
      assert (HI3 : XINV (set_chan_w s2 d2)) by (apply XINV_chan; assumption).
      exact (xpres_release_tail r Hr _ HI3).
    + destruct Htx as (Hdb2 & Hiso2). apply XINV_chan; assumption.
  - cbv beta iota. rewrite set_chan_w_same. apply wp_ret. split; [exact I|exact HX].
Qed.
Local Hint Resolve xpres_release_nameplate : xisopres.

Lemma xpres_close_tail m r :
  Pclose A r ->
  xpres (fun _ => True)
       (match r with
        | None => ret tt
        | Some (unps, umbs) =>
            (if usage_on cfg then write_usage unps umbs ;;; commit_usage else ret tt) ;;;
            commit_chan ;;;
            stop_listeners A m
        end).
Proof. intros Hr. destruct r as [[unps umbs]|]; repeat xpres_step. Qed.

Lemma xpres_mailbox_close m side mood w :
  xpres (fun _ => True) (mailbox_close cfg A m side mood w).
Proof.
  intros s HX. pose proof (proj1 HX) as HI. unfold mailbox_close. apply wp_bind. apply wp_tx.
  destruct (close_mark_body (chan_w s) A m side mood) as [[fornp d1]|] eqn:Ecm.
  - destruct (close_mark_body_ok _ _ _ _ _ _ _ (iv_db _ _ _ _ HI) Ecm) as (Hdb1 & Hmono1 & Hmb).
    pose proof (iso_close_mark A B HAB _ _ _ _ _ _ (iv_db _ _ _ _ HI) Ecm) as Hiso1.
    apply Hmono1 in Hmb.
    cbv beta iota.
    assert (HI1 : XINV (set_chan_w s d1)) by (apply XINV_chan; assumption).
    apply wp_bind. apply wp_commit_chan.
    apply XINV_commit_chan in HI1.
    match goal with |- wp _ _ _ ?st => set (s2 := st) in * end.
    apply wp_bind. apply wp_tx. change (chan_w s2) with d1.
    pose proof (tx_close_delete A B HAB cfg d1 m fornp w Hdb1 Hmb) as Htx.
    destruct (close_delete_body cfg d1 A m fornp w) as [r d2|e d2].
    + destruct Htx as (Hr & Hdb2 & Hiso2).
      assert (HI3 : XINV (set_chan_w s2 d2)) by (apply XINV_chan; assumption).
      exact (xpres_close_tail m r Hr _ HI3).
    + destruct Htx as (Hdb2 & Hiso2). apply XINV_chan; assumption.
  - cbv beta iota. rewrite set_chan_w_same. apply wp_ret. split; [exact I|exact HX].
Qed.
Local Hint Resolve xpres_mailbox_close : xisopres.

Lemma xpres_add_tail m r :
  xpres (fun _ => True)
       (commit_chan ;;; s <- get ;; send_all (subs_of A m (subs s)) (msg_frame r)).
Proof.
  xpres_step; [xpres_step|].
  apply (xpres_bind XINV); [apply xpres_get; auto|].
  intros s1 HI1. apply xpres_send_all. intros c' Hc'.
  apply MbFactsA.In_subs_of in Hc'. exact (iv_gs _ _ _ _ (proj1 HI1) _ _ _ Hc').
Qed.

Lemma xwp_add_message m r s :
  XINV s -> has_mb (chan_w s) A m -> msg_app r = A -> msg_mbox r = m ->
  wp (add_message A m r) (fun _ s' => True /\ XINV s') (fun _ s' => XINV s') s.
Proof.
  intros HX Hmb Ha Hm. unfold add_message. apply wp_bind. apply wp_tx. cbv beta iota.
  destruct (tx_add_msg A B HAB (chan_w s) m r (iv_db _ _ _ _ (proj1 HX)) Hmb Ha Hm) as [Hdb Hiso].
  assert (HI1 : XINV (set_chan_w s (upd_touch (ins_msg (chan_w s) r) m (msg_rx r))))
    by (apply XINV_chan; assumption).
  exact (xpres_add_tail m r _ HI1).
Qed.

Lemma xpres_get_messages m : xpres (fun _ => True) (get_messages A m).
Proof. unfold get_messages. repeat xpres_step. Qed.
Local Hint Resolve xpres_get_messages : xisopres.

(** ** Websocket.v *)

Lemma xpres_handle_ping msg : xpres (fun _ => True) (handle_ping c msg).
Proof. unfold handle_ping. repeat xpres_step. Qed.

Lemma xpres_handle_list : xpres (fun _ => True) (handle_list cfg c A).
Proof. unfold handle_list. repeat xpres_step. Qed.

Lemma xpres_handle_allocate side o : xpres (fun _ => True) (handle_allocate c A side o).
Proof. unfold handle_allocate. repeat xpres_step. Qed.

Lemma xpres_handle_claim side msg o : xpres (fun _ => True) (handle_claim c A side msg o).
Proof. unfold handle_claim. repeat xpres_step. Qed.

Lemma xpres_handle_release side msg : xpres (fun _ => True) (handle_release cfg c A side msg).
Proof. unfold handle_release. repeat xpres_step. Qed.

Lemma xpres_send_each l : xpres (fun _ => True) (send_each c l).
Proof. induction l as [|r rest IH]; cbn [send_each]; repeat xpres_step. Qed.
Local Hint Resolve xpres_send_each : xisopres.

Lemma xpres_handle_open side msg : xpres (fun _ => True) (handle_open c A side msg).
Proof. unfold handle_open. repeat xpres_step. Qed.

Lemma xpres_handle_close side msg : xpres (fun _ => True) (handle_close cfg c A side msg).
Proof. unfold handle_close. repeat xpres_step. Qed.

Lemma xwp_handle_add side msg s :
  XINV s -> Pre A c s ->
  wp (handle_add c A side msg) (fun _ s' => True /\ XINV s') (fun _ s' => XINV s') s.
Proof.
  intros HI (cs & sd & Hl & Hb & Hm). unfold handle_add. apply wp_bind. apply wp_get_conn.
  rewrite Hl. destruct (c_mailbox cs) as [m|] eqn:Em; [|apply wp_raise; exact HI].
  destruct (m_phase msg) as [phase|]; [|apply wp_raise; exact HI].
  destruct (m_body msg) as [body|]; [|apply wp_raise; exact HI].
  apply wp_bind. apply wp_get. apply xwp_add_message; auto.
Qed.

Lemma xwp_dispatch t msg o s :
  XINV s -> Pre A c s ->
  wp (dispatch cfg c t msg o) (fun _ s' => True /\ XINV s') (fun _ s' => XINV s') s.
Proof.
  intros HI HP. pose proof HP as (cs & sd & Hl & Hb & Hm).
  assert (Hent : forall (k : conn_state -> M unit) Q E,
            wp (k cs) Q E s -> wp (cs1 <- get_conn c ;; k cs1) Q E s).
  { intros k Q E H. apply wp_bind. apply wp_get_conn. rewrite Hl. exact H. }
  destruct t; unfold dispatch; try (apply Hent; rewrite Hb; cbv beta iota).
  - apply xpres_handle_ping. exact HI.
  - apply wp_raise. exact HI.
  - apply xpres_handle_list. exact HI.
  - apply xpres_handle_allocate. exact HI.
  - apply xpres_handle_claim. exact HI.
  - apply xpres_handle_release. exact HI.
  - apply xpres_handle_open. exact HI.
  - apply xwp_handle_add; assumption.
  - apply xpres_handle_close. exact HI.
  - apply wp_raise. exact HI.
Qed.

Lemma on_message_XINV msg o s :
  XINV s -> Pre A c s ->
  match on_message cfg c msg o s with Ok _ s' => XINV s' | Exn _ s' => XINV s' end.
Proof.
  intros HI HP. pose proof (bd_c A s0 c cs0 side0 Hc0 Hb0) as Hbd.
  assert (H : wp (on_message cfg c msg o) (fun _ s' => XINV s') (fun _ s' => XINV s') s).
  { unfold on_message. apply wp_try_catch. destruct (m_type msg) as [t|].
    - apply wp_bind. apply wp_send.
      eapply wp_conseq; [apply xwp_dispatch; [apply XINV_send; [exact HI|exact Hbd]|exact HP]| |].
      + intros [] s' [_ H']. exact H'.
      + intros e s' H'. destruct e; try (apply wp_raise; exact H').
        apply wp_send. apply XINV_send; [exact H'|exact Hbd].
    - apply wp_raise. apply wp_send. apply XINV_send; [exact HI|exact Hbd]. }
  unfold wp in H. destruct (on_message cfg c msg o s); exact H.
Qed.

End Snap.

(** * Part 2: log prefixes and what a crash leaves *)

Lemma log_prefix_In k : forall l x, In x (log_prefix k l) -> In x l.
Proof.
  induction k as [|k IH]; intros l x; [destruct l; cbn [log_prefix In]; intros []|].
  induction l as [|y l IHl]; cbn [log_prefix In]; [intros []|].
  destruct (is_commit y); intros [K|K]; [left; exact K|right; exact (IH l x K)|left; exact K|right; exact (IHl K)].
Qed.

Lemma frames_of_In_iff c' f l : In (c', f) (frames_of l) <-> exists b tx, In (LFrame c' f b tx) l.
Proof.
  split; [apply frames_of_In|]. intros (b & tx & H).
  induction l as [|e l IH]; [destruct H|]. destruct H as [->|H]; [left; reflexivity|].
  destruct e; cbn [frames_of]; [apply IH; exact H|apply IH; exact H|right; apply IH; exact H].
Qed.

Lemma frames_of_incl l l' :
  (forall x, In x l -> In x l') -> forall p, In p (frames_of l) -> In p (frames_of l').
Proof.
  intros H [c' f] Hin. apply frames_of_In_iff in Hin. destruct Hin as (b & tx & Hin).
  apply frames_of_In_iff. exists b, tx. apply H. exact Hin.
Qed.

Lemma filter_nil_inv {X} (p : X -> bool) l : filter p l = [] -> forall x, In x l -> p x = false.
Proof.
  induction l as [|y l IH]; cbn [filter]; [intros _ x []|].
  destruct (p y) eqn:E; [discriminate|]. intros H x [<-|K]; [exact E|exact (IH H x K)].
Qed.

Lemma framesB_nil_incl B s l l' :
  (forall x, In x l -> In x l') -> framesB B s l' = [] -> framesB B s l = [].
Proof.
  intros H E. unfold framesB in *. apply filter_nil. intros p Hp.
  exact (filter_nil_inv _ _ E p (frames_of_incl l l' H p Hp)).
Qed.

Lemma framesB_all_incl B s l l' :
  (forall x, In x l -> In x l') -> framesB B s l' = frames_of l' -> framesB B s l = frames_of l.
Proof.
  intros H E. unfold framesB in *. apply filter_all_true. intros p Hp.
  pose proof (frames_of_incl l l' H p Hp) as Hp'.
  rewrite <- E in Hp'. apply filter_In in Hp'. apply Hp'.
Qed.

(** the files a replayed log prefix leaves are the starting ones or one of the snapshots *)
Lemma replay_inv (P : chan_db -> Prop) (U : usage_db -> Prop) l : forall c u,
  P c -> U u -> (forall d, In (LCommitChan d) l -> P d) -> (forall u', In (LCommitUsage u') l -> U u') ->
  P (fst (replay_commits l c u)) /\ U (snd (replay_commits l c u)).
Proof.
  induction l as [|x l IH]; intros c u Hc Hu H1 H2; cbn [replay_commits]; [cbn; auto|].
  destruct x as [d|u'|c' f b tx]; apply IH; auto;
    first [apply H1; left; reflexivity | apply H2; left; reflexivity
          | intros d0 K; apply H1; right; exact K | intros u0 K; apply H2; right; exact K].
Qed.

Section Crash.
Variable cfg : config.
Hypothesis Hexp : 0 < exp cfg.
Variable B : string.

(** the log a crash event shows is part of the log of the completed base event *)
Lemma crash_log_incl s k b :
  log s = [] ->
  forall x, In x (o_log (snd (step cfg s (ECrash k b)))) -> In x (o_log (snd (step cfg s (EB b)))).
Proof.
  intros L x. unfold step. cbv zeta. rewrite (MbFactsA.set_log_nil s L).
  destruct (step_b cfg s b) as [[s1 valid] ex].
  destruct ((count_commits (rev (log s1)) <? k)%nat || negb valid).
  - destruct (boot_on cfg (chan_c s1) (usage_c s1) (now s1)) as [[s2 bl] x2]. cbn [snd o_log]. auto.
  - destruct (replay_commits (log_prefix k (rev (log s1))) (chan_c s) (usage_c s)) as [c' u'].
    destruct (boot_on cfg c' u' (now s1)) as [[s2 bl] x2]. cbn [snd o_log]. apply log_prefix_In.
Qed.

(** a base event that commits nothing and leaves the committed files alone:
    dying inside it is a restart before or after it *)
Lemma step_crash_nocommit s k b :
  log s = [] ->
  let '(sc, oc) := step cfg s (EB b) in
  count_commits (o_log oc) = 0%nat -> chan_c sc = chan_c s -> usage_c sc = usage_c s ->
  step cfg s (ECrash k b) =
  (fst (fst (boot_on cfg (chan_c sc) (usage_c sc) (now sc))),
   mkObs (o_valid oc)
         (if (0 <? k)%nat || negb (o_valid oc) then o_log oc else [])
         (if (0 <? k)%nat || negb (o_valid oc) then o_exc oc else None)
         (snd (fst (boot_on cfg (chan_c sc) (usage_c sc) (now sc))))).
Proof.
  intros L. unfold step. cbv zeta. rewrite (MbFactsA.set_log_nil s L).
  destruct (step_b cfg s b) as [[s1 valid] ex]. cbn [o_log o_valid o_exc chan_c usage_c now set_log].
  intros Hc Ec Eu. rewrite Hc.
  destruct ((0 <? k)%nat || negb valid) eqn:Ek.
  - destruct (boot_on cfg (chan_c s1) (usage_c s1) (now s1)) as [[s2 bl] x2]. reflexivity.
  - apply orb_false_iff in Ek. destruct Ek as [Ek _]. apply Nat.ltb_ge in Ek.
    assert (k = 0)%nat by lia. subst k.
    assert (E0 : log_prefix 0 (rev (log s1)) = []) by (destruct (rev (log s1)); reflexivity).
    rewrite E0. cbn [replay_commits].
    rewrite Ec, Eu. destruct (boot_on cfg (chan_c s) (usage_c s) (now s1)) as [[s2 bl] x2]. reflexivity.
Qed.

(** ** the snapshots of a command of another app *)

Lemma cmd_snapshots s c cs A side msg o t :
  SInv s -> log s = [] -> lookup_conn c (conns s) = Some cs -> c_bound cs = Some (A, side) ->
  B <> A -> on_message cfg c msg o s = Ok tt t -> LC B s t.
Proof.
  intros HS Hlog Hlk Hb HAB E.
  destruct (si_clean s HS) as [Hcc Hcu].
  assert (HI0 : INV A B s s).
  { constructor; try reflexivity.
    - exact (si_db s HS).
    - rewrite <- Hcc. reflexivity.
    - rewrite <- Hcu. reflexivity.
    - intros a m c' Hin. destruct (si_subs s HS _ Hin) as [_ (cs1 & sd & K1 & K2 & _)].
      exists sd, cs1. split; assumption.
    - intros c' cs' K _. exact K.
    - rewrite Hlog. intros c' f b tx []. }
  assert (HL0 : LC B s s) by (unfold LC; rewrite Hlog; split; intros ? []).
  assert (HP : Pre A c s).
  { exists cs, side. split; [exact Hlk|]. split; [exact Hb|]. intros m Hm.
    pose proof (si_conns s HS c cs Hlk) as Hok. unfold conn_ok in Hok. rewrite Hm in Hok.
    destruct Hok as (a & sd & Hb' & _ & Hin).
    destruct (si_subs s HS _ Hin) as [Hmb _]. rewrite Hb in Hb'. inversion Hb'; subst a. exact Hmb. }
  pose proof (on_message_XINV cfg A B HAB s c cs side Hlk Hb msg o s (conj HI0 HL0) HP) as H.
  rewrite E in H. exact (proj2 H).
Qed.

(** a bind to another app commits at most one usage snapshot: the client-version record of that app *)
Lemma bind_snapshots s c msg o cs a sd t :
  log s = [] -> lookup_conn c (conns s) = Some cs -> c_bound cs = None ->
  m_type msg = Some TBind -> m_appid msg = Some a -> m_side msg = Some sd -> a <> B ->
  on_message cfg c msg o s = Ok tt t -> LC B s t.
Proof.
  intros L Hl Hb Ht Ha Hs Hne. unfold on_message. rewrite Ht.
  unfold try_catch, bind, send. cbn [dispatch]. unfold handle_bind. rewrite bind_get_conn.
  unfold conn_of. cbn [conns set_log]. rewrite Hl, Hb, Ha, Hs.
  unfold bind, set_conn, get, log_client_version. cbn [conns set_conns set_log now].
  destruct (usage_on cfg).
  - unfold bind, utx, commit_usage. cbn. intros E. inversion E; subst t. clear E.
    unfold LC. cbn [log]. rewrite L. split.
    + intros d [K|[K|[]]]; discriminate.
    + intros u [K|[K|[]]]; [|discriminate]. inversion K; subst u.
      unfold app_usage, uins_cv. cbn [u_nameplates u_mailboxes u_versions ucv_app].
      rewrite filter_snoc_out; [reflexivity|]. cbn [ucv_app]. apply seqb_neq. exact Hne.
  - unfold ret. intros E. inversion E; subst t. clear E.
    unfold LC. cbn [log set_log set_conns]. rewrite L. split.
    + intros d [K|[]]; discriminate.
    + intros u [K|[]]; discriminate.
Qed.

(** the process dies right after the k-th commit of a command of ANOTHER app
    (or after the command, if it commits less often).  In the run without the
    other apps that command is absent: there the process restarts on the files
    as they are.  The first k commits of the command have changed rows and
    usage records of that other app only, so the files the two processes start
    on agree on B's part, and so do the states after the start-up sweeps.  None
    of the frames the dying process had sent went to B's side (classified by
    the connection table of the completed command: the ack of a bind to another
    app is not B's). *)
Theorem dropped_cmd_crash s1 s2 k c msg o :
  SInv s1 -> SInv s2 -> log s1 = [] -> log s2 = [] -> relB B s1 s2 -> fresh_unbound s1 ->
  dropB B s1 (EB (ECmd c msg o)) = true -> no_failure cfg s1 (EB (ECmd c msg o)) ->
  let '(s1', o1) := step cfg s1 (ECrash k (ECmd c msg o)) in
  let '(s2', o2) := step cfg s2 ERestart in
  relB B s1' s2' /\
  framesB B (fst (step cfg s1 (EB (ECmd c msg o)))) (o_log o1) = frames_of (o_log o2) /\
  o_exc o2 = None /\
  framesB B s1' (o_boot_log o1) = frames_of (o_boot_log o2) /\
  o_exc o1 = None /\ o_valid o1 = true /\
  conns s1' = [] /\ conns s2' = [] /\ subs s1' = [] /\ subs s2' = [] /\ fresh_unbound s1'.
Proof.
  intros H1 H2 L1 L2 Hr Hf Hd Hnf.
  pose proof (crash_log_incl s1 k (ECmd c msg o) L1) as Hincl.
  pose proof (dropped_event_invisible cfg Hexp B s1 s2 (EB (ECmd c msg o)) H1 L1 Hf Hr I Hd Hnf) as D.
  pose proof (step_spec cfg Hexp s1 (EB (ECmd c msg o)) H1) as S1.
  cbn [dropB] in Hd. destruct (lookup_conn c (conns s1)) as [cs|] eqn:Hl; [|discriminate].
  unfold no_failure in Hnf. revert Hnf D S1 Hincl. rewrite (step_cmd_eq cfg s1 c msg o cs L1 Hl).
  destruct (on_message cfg c msg o s1) as [[] t|e t] eqn:E; [|cbn [snd o_exc]; discriminate].
  cbn [fst snd o_exc o_log]. intros _ [Hr' Hfr] (I1 & _ & _) Hincl.
  (* every snapshot of the command has B's part of the start *)
  assert (HL : LC B s1 t).
  { destruct (other_app B cs) eqn:Eo.
    - unfold other_app in Eo. destruct (c_bound cs) as [[A side]|] eqn:Eb; [|discriminate].
      apply negb_true_iff, seqb_neq in Eo.
      apply (cmd_snapshots s1 c cs A side msg o t H1 L1 Hl Eb); [congruence|exact E].
    - cbn [orb] in Hd. destruct (c_bound cs) eqn:Eb; [discriminate|].
      destruct (m_type msg) as [ty|] eqn:Et; [|discriminate]. destruct ty; try discriminate.
      destruct (m_appid msg) as [a|] eqn:Ea; [|discriminate].
      destruct (m_side msg) as [sd|] eqn:Es; [|discriminate].
      apply negb_true_iff, seqb_neq in Hd.
      exact (bind_snapshots s1 c msg o cs a sd t L1 Hl Eb Et Ea Es Hd E). }
  assert (Hfr' : forall o1, (forall x, In x (o_log o1) -> In x (rev (log t))) ->
                            framesB B (set_log t []) (o_log o1) = []).
  { intros o1 Hi. exact (framesB_nil_incl B _ _ _ Hi Hfr). }
  pose proof (rb_now _ _ _ Hr') as En. cbn [now set_log] in En.
  revert Hincl. rewrite (step_crash_cmd cfg s1 k c msg o cs t L1 Hl E), (step_restart_eq cfg s2 L2).
  destruct (count_commits (rev (log t)) <? k)%nat.
  - (* the command completed *)
    intros Hincl. cbn [snd o_log] in Hincl.
    pose proof (DR_committed B _ s2 I1 H2 Hr') as HD. cbn [chan_c set_log] in HD.
    pose proof (rb_uc _ _ _ Hr') as Hu. cbn [usage_c set_log] in Hu.
    rewrite En.
    destruct (boot_rel cfg Hexp B _ _ _ _ (now t) HD Hu) as (W1 & W2 & W3 & W4 & W5 & W6 & W7 & W8).
    cbn [o_log o_exc o_boot_log o_valid frames_of].
    split; [exact W1|]. split; [exact (Hfr' (mkObs true (rev (log t)) None []) (fun x K => K))|].
    split; [exact W4|]. split; [exact W2|]. split; [reflexivity|]. split; [reflexivity|].
    split; [exact W5|]. split; [exact W6|]. split; [exact W7|]. split; [exact W8|].
    intros c' cs'. rewrite W5. discriminate.
  - (* the process died after the k-th commit *)
    cbv zeta. intros Hincl. cbn [snd o_log] in Hincl.
    destruct (si_clean s1 H1) as [Ec1 Eu1].
    pose proof (DR_committed B s1 s2 H1 H2 Hr) as HD0.
    destruct HL as [HLc HLu].
    destruct (replay_inv (fun d => DbInv d /\ app_view d B = app_view (chan_c s1) B)
                         (fun u => app_usage u B = app_usage (usage_c s1) B)
                         (log_prefix k (rev (log t))) (chan_c s1) (usage_c s1)) as [[Pd Pv] Pu].
    + split; [rewrite <- Ec1; exact (si_db s1 H1)|reflexivity].
    + reflexivity.
    + intros d K. apply log_prefix_In, in_rev in K. rewrite <- Ec1. exact (HLc d K).
    + intros u K. apply log_prefix_In, in_rev in K. rewrite <- Eu1. exact (HLu u K).
    + pose proof (DR_left B _ _ _ HD0 Pd Pv) as HD.
      assert (Hu : app_usage (usage_c s2) B =
                   app_usage (snd (replay_commits (log_prefix k (rev (log t))) (chan_c s1) (usage_c s1))) B)
        by (rewrite Pu; exact (rb_uc _ _ _ Hr)).
      rewrite En.
      destruct (boot_rel cfg Hexp B _ _ _ _ (now t) HD Hu) as (W1 & W2 & W3 & W4 & W5 & W6 & W7 & W8).
      cbn [o_log o_exc o_boot_log o_valid frames_of].
      split; [exact W1|].
      split; [exact (Hfr' (mkObs true (log_prefix k (rev (log t))) None []) Hincl)|].
      split; [exact W4|]. split; [exact W2|]. split; [reflexivity|]. split; [reflexivity|].
      split; [exact W5|]. split; [exact W6|]. split; [exact W7|]. split; [exact W8|].
      intros c' cs'. rewrite W5. discriminate.
Qed.

End Crash.

(** * Part 3: crashes inside kept commands, connects and disconnects *)

Lemma drop_conn_log c s : log (drop_conn c s) = log s.
Proof.
  unfold drop_conn, on_close, bind, get_conn, remove_sub, ret.
  generalize (match lookup_conn c (conns s) with Some cs => cs | None => new_conn end).
  intros cs. destruct (c_mailbox cs) as [m|]; [|reflexivity].
  destruct (c_bound cs) as [[a sd]|]; [|reflexivity].
  destruct (c_listening cs); reflexivity.
Qed.

Definition conn_bevent (b : bevent) : Prop :=
  match b with EConnect _ | EDisconnect _ => True | _ => False end.

Section Crash2.
Variable cfg : config.
Hypothesis Hexp : 0 < exp cfg.
Variable B : string.

(** connects and disconnects commit nothing and do not fail; whether they are
    well-formed depends on the connection ids only *)
Lemma conn_event_facts s b :
  conn_bevent b -> log s = [] ->
  let '(sc, oc) := step cfg s (EB b) in
  count_commits (o_log oc) = 0%nat /\ o_exc oc = None /\
  o_valid oc = match b with
               | EConnect c0 => negb (has_conn c0 s)
               | EDisconnect c0 => has_conn c0 s
               | _ => true
               end.
Proof.
  intros Hb L. destruct b as [c0|c msg o|c0|fault|dt fault]; try contradiction.
  - unfold step. rewrite (MbFactsA.set_log_nil s L). destruct (has_conn c0 s) eqn:E.
    + unfold step_b. rewrite E. cbn [o_log o_exc o_valid]. rewrite L. repeat split; reflexivity.
    + rewrite (welcome_first cfg c0 s E). cbn [o_log o_exc o_valid log set_log]. rewrite L.
      repeat split; reflexivity.
  - unfold step, step_b. rewrite (MbFactsA.set_log_nil s L). destruct (has_conn c0 s) eqn:E.
    + cbn [o_log o_exc o_valid]. rewrite drop_conn_log, L. repeat split; reflexivity.
    + cbn [o_log o_exc o_valid]. rewrite L. repeat split; reflexivity.
Qed.

(** the process dies inside a connect or a disconnect (k = 0: before it, k >= 1:
    after it; neither commits anything).  Both runs keep the event: both see
    the same (welcome) frame or none, and restart on files that agree on B's part *)
Theorem kept_conn_crash s1 s2 k b :
  conn_bevent b ->
  SInv s1 -> SInv s2 -> log s1 = [] -> log s2 = [] -> relB B s1 s2 ->
  let '(s1', o1) := step cfg s1 (ECrash k b) in
  let '(s2', o2) := step cfg s2 (ECrash k b) in
  relB B s1' s2' /\
  framesB B (fst (step cfg s1 (EB b))) (o_log o1) = frames_of (o_log o2) /\
  o_exc o2 = None /\
  framesB B s1' (o_boot_log o1) = frames_of (o_boot_log o2) /\
  o_exc o1 = None /\ o_valid o2 = o_valid o1 /\
  conns s1' = [] /\ conns s2' = [] /\ subs s1' = [] /\ subs s2' = [] /\ fresh_unbound s1'.
Proof.
  intros Hb H1 H2 L1 L2 Hr.
  assert (K : let '(s1c, o1c) := step cfg s1 (EB b) in
              let '(s2c, o2c) := step cfg s2 (EB b) in
              relB B s1c s2c /\ framesB B s1c (o_log o1c) = frames_of (o_log o2c) /\ o_exc o2c = None).
  { destruct b as [c0|c msg o|c0|fault|dt fault]; try contradiction.
    - exact (kept_connect cfg B s1 s2 c0 L1 L2 Hr).
    - exact (kept_disconnect cfg B s1 s2 c0 L1 L2 Hr). }
  assert (Hv : match b with
               | EConnect c0 => negb (has_conn c0 s2)
               | EDisconnect c0 => has_conn c0 s2
               | _ => true
               end =
               match b with
               | EConnect c0 => negb (has_conn c0 s1)
               | EDisconnect c0 => has_conn c0 s1
               | _ => true
               end).
  { destruct b as [c0|c msg o|c0|fault|dt fault]; try reflexivity;
      rewrite (has_conn_rel B s1 s2 c0 Hr); reflexivity. }
  assert (Hiso : forall s, SInv s -> log s = [] ->
                 chan_c (fst (step cfg s (EB b))) = chan_c s /\ usage_c (fst (step cfg s (EB b))) = usage_c s).
  { intros s HS L. destruct (unbound_isolation cfg s (EB b) HS L) as (_ & E1 & _ & E2).
    - destruct b; try contradiction; exact I.
    - split; assumption. }
  pose proof (conn_event_facts s1 b Hb L1) as F1. pose proof (conn_event_facts s2 b Hb L2) as F2.
  pose proof (step_spec cfg Hexp s1 (EB b) H1) as S1. pose proof (step_spec cfg Hexp s2 (EB b) H2) as S2.
  pose proof (step_crash_nocommit cfg s1 k b L1) as N1. pose proof (step_crash_nocommit cfg s2 k b L2) as N2.
  destruct (Hiso s1 H1 L1) as [Ec1 Eu1]. destruct (Hiso s2 H2 L2) as [Ec2 Eu2].
  destruct (step cfg s1 (EB b)) as [s1c o1c]. destruct (step cfg s2 (EB b)) as [s2c o2c].
  cbn [fst] in *.
  destruct F1 as (C1 & X1 & V1). destruct F2 as (C2 & X2 & V2).
  destruct S1 as (I1 & _). destruct S2 as (I2 & _). destruct K as (Hrc & Hfr & _).
  rewrite (N1 C1 Ec1 Eu1), (N2 C2 Ec2 Eu2).
  assert (Ev : o_valid o2c = o_valid o1c) by (rewrite V1, V2; exact Hv).
  rewrite Ev, (rb_now _ _ _ Hrc).
  destruct (boot_rel cfg Hexp B _ _ _ _ (now s1c) (DR_committed B s1c s2c I1 I2 Hrc) (rb_uc _ _ _ Hrc))
    as (W1 & W2 & W3 & W4 & W5 & W6 & W7 & W8).
  cbn [o_log o_exc o_boot_log o_valid].
  split; [exact W1|]. split.
  { destruct ((0 <? k)%nat || negb (o_valid o1c)); [exact Hfr|reflexivity]. }
  split; [destruct ((0 <? k)%nat || negb (o_valid o1c)); [exact X2|reflexivity]|].
  split; [exact W2|].
  split; [destruct ((0 <? k)%nat || negb (o_valid o1c)); [exact X1|reflexivity]|].
  split; [reflexivity|].
  split; [exact W5|]. split; [exact W6|]. split; [exact W7|]. split; [exact W8|].
  intros c' cs'. rewrite W5. discriminate.
Qed.

(** every frame of a kept command goes to B's side (as the table after the command has it) *)
Lemma kept_cmd_allvis s1 s2 c msg o :
  SInv s1 -> SInv s2 -> log s1 = [] -> log s2 = [] -> relB B s1 s2 ->
  dropB B s1 (EB (ECmd c msg o)) = false -> no_failure cfg s1 (EB (ECmd c msg o)) ->
  let '(s1c, o1c) := step cfg s1 (EB (ECmd c msg o)) in
  framesB B s1c (o_log o1c) = frames_of (o_log o1c).
Proof.
  intros H1 H2 L1 L2 Hr Hd Hnf. cbn [dropB] in Hd.
  destruct (lookup_conn c (conns s1)) as [cs|] eqn:Hl.
  - apply orb_false_iff in Hd. destruct Hd as [Ho Hbnd].
    assert (Hv : visc B (conns s1) c) by (unfold visc; rewrite Hl; exact Ho).
    pose proof (sim_of_relB_logged B c s1 s2 H1 H2 L1 L2 Hr Hv) as Hs.
    assert (Ec : conn_of s1 c = cs) by (unfold conn_of; rewrite Hl; reflexivity).
    assert (HP : Logged.Pre0 B c msg s1 s2).
    { split.
      - unfold Logged.Held. rewrite Ec. exact (held_ok B s1 c cs H1 Hl Ho).
      - intros Et. unfold Logged.BindOK. rewrite Ec. intros Eb a sd Ea Es.
        rewrite Eb, Et, Ea, Es in Hbnd. apply negb_false_iff, seqb_eq in Hbnd. exact Hbnd. }
    unfold no_failure in Hnf. revert Hnf. rewrite (step_cmd_eq cfg s1 c msg o cs L1 Hl).
    pose proof (Logged.R_on_message cfg B c msg o s1 s2 Hs HP) as W.
    destruct (on_message cfg c msg o s1) as [[] t1|e t1] eqn:E1; [|cbn [snd o_exc]; discriminate].
    destruct W as ([] & t2 & E2 & Ht & _). cbn [o_log]. intros _.
    apply framesB_vis. intros c' f Hin. rewrite ViewFacts.frames_of_rev in Hin. apply in_rev in Hin.
    cbn [conns set_log]. exact (Logged.sm_vis _ _ _ _ Ht c' f Hin).
  - unfold step, step_b. rewrite (MbFactsA.set_log_nil s1 L1). unfold has_conn. rewrite Hl.
    cbn [o_log]. rewrite L1. reflexivity.
Qed.

(** [kept_cmd_crash], with the frames classified by the table after the completed command *)
Theorem kept_cmd_crash_x s1 s2 k c msg o :
  SInv s1 -> SInv s2 -> log s1 = [] -> log s2 = [] -> relB B s1 s2 ->
  dropB B s1 (EB (ECmd c msg o)) = false -> no_failure cfg s1 (EB (ECmd c msg o)) ->
  let '(s1', o1) := step cfg s1 (ECrash k (ECmd c msg o)) in
  let '(s2', o2) := step cfg s2 (ECrash k (ECmd c msg o)) in
  relB B s1' s2' /\
  framesB B (fst (step cfg s1 (EB (ECmd c msg o)))) (o_log o1) = frames_of (o_log o2) /\
  o_exc o2 = None /\
  framesB B s1' (o_boot_log o1) = frames_of (o_boot_log o2) /\
  o_exc o1 = None /\ o_valid o2 = o_valid o1 /\
  conns s1' = [] /\ conns s2' = [] /\ subs s1' = [] /\ subs s2' = [] /\ fresh_unbound s1' /\
  framesB B s1' (o_log o1) = framesB B (fst (step cfg s1 (EB (ECmd c msg o)))) (o_log o1).
Proof.
  intros H1 H2 L1 L2 Hr Hd Hnf.
  pose proof (kept_cmd_crash cfg Hexp B s1 s2 k c msg o H1 H2 L1 L2 Hr Hd Hnf) as K.
  pose proof (kept_cmd_allvis s1 s2 c msg o H1 H2 L1 L2 Hr Hd Hnf) as V.
  pose proof (crash_log_incl cfg s1 k (ECmd c msg o) L1) as Hincl.
  destruct (step cfg s1 (ECrash k (ECmd c msg o))) as [s1' o1].
  destruct (step cfg s2 (ECrash k (ECmd c msg o))) as [s2' o2].
  destruct (step cfg s1 (EB (ECmd c msg o))) as [s1c o1c]. cbn [fst snd] in *.
  destruct K as (K1 & K2 & K3 & K4 & K5 & K6 & K7 & K8 & K9 & K10).
  pose proof (framesB_all_incl B s1c _ _ Hincl V) as V'.
  rewrite (framesB_noconns B s1' _ K7) in K2.
  split; [exact K1|]. split; [rewrite V'; exact K2|]. split; [exact K3|]. split; [exact K4|].
  split; [exact K5|]. split; [exact K6|]. split; [exact K7|]. split; [exact K8|].
  split; [exact K9|]. split; [exact K10|].
  split; [intros c' cs'; rewrite K7; discriminate|].
  rewrite (framesB_noconns B s1' _ K7), V'. reflexivity.
Qed.

End Crash2.

(** * Part 4: histories with crashes inside any command, connect or disconnect *)

(** the events of the histories covered here: plain events, restarts, and
    crashes inside a command (of any app), a connect or a disconnect *)
Definition crash_event_x (e : event) : Prop :=
  match e with
  | EB _ | ERestart => True
  | ECrash _ (ECmd _ _ _) | ECrash _ (EConnect _) | ECrash _ (EDisconnect _) => True
  | ECrash _ _ => False
  end.

(** an event of another app; for a crash event: the event the process dies in *)
Definition dropX (B : string) (s : state) (e : event) : bool :=
  match e with
  | ECrash _ b => dropB B s (EB b)
  | _ => dropB B s e
  end.

Section WithConfig.
Variable cfg : config.
Hypothesis Hexp : 0 < exp cfg.

(** the history without the other apps: their commands are removed; where the
    process died inside one of them, a bare restart stays *)
Fixpoint filterX (B : string) (s : state) (h : list event) : list event :=
  match h with
  | [] => []
  | e :: h' =>
      let s' := fst (step cfg s e) in
      match e with
      | ECrash _ b =>
          if dropB B s (EB b) then ERestart :: filterX B s' h' else e :: filterX B s' h'
      | _ => if dropB B s e then filterX B s' h' else e :: filterX B s' h'
      end
  end.

Fixpoint no_failure_run_x (s : state) (h : list event) : Prop :=
  match h with
  | [] => True
  | e :: h' => crash_event_x e /\ no_failure_c cfg s e /\ no_failure_run_x (fst (step cfg s e)) h'
  end.

(** the connection table by which the frames of an event are classified: the
    one after the event; for a crash event, the one the completed base event
    would have left (after the crash there are no connections any more) *)
Definition cstate (s : state) (e : event) : state :=
  match e with
  | ECrash _ b => fst (step cfg s (EB b))
  | _ => fst (step cfg s e)
  end.

(** frames seen by B's side over a whole run *)
Fixpoint framesX_run (B : string) (s : state) (h : list event) : list (nat * frame) :=
  match h with
  | [] => []
  | e :: h' =>
      let '(s', o) := step cfg s e in
      framesB B (cstate s e) (o_log o) ++ framesX_run B s' h'
  end.

(** the histories of NonInterferenceR.v are among those covered here ... *)
Lemma no_failure_run_x_of_rc B h : forall s, no_failure_run_rc cfg B s h -> no_failure_run_x s h.
Proof.
  induction h as [|e h IH]; intros s; cbn [no_failure_run_rc no_failure_run_x]; [auto|].
  intros (Hp & Hnf & Hn). split; [|split; [exact Hnf|auto]].
  destruct e as [b|k b|]; [exact I| |exact I]. destruct b; try contradiction; exact I.
Qed.

(** ... and on them the filter is the one of NonInterference.v *)
Lemma filterX_rc B h : forall s, no_failure_run_rc cfg B s h -> filterX B s h = filterB cfg B s h.
Proof.
  induction h as [|e h IH]; intros s; cbn [no_failure_run_rc filterX filterB]; [auto|].
  intros (Hp & Hnf & Hn). rewrite (IH _ Hn). destruct e as [b|k b|]; try reflexivity.
  destruct b as [c0|c msg o|c0|fault|dt fault]; try contradiction.
  cbn [crash_event] in Hp. rewrite Hp. reflexivity.
Qed.

(** every kept event has the same effect on B's world in both runs *)
Theorem kept_event_congruent_x B s1 s2 e :
  SInv s1 -> SInv s2 -> log s1 = [] -> log s2 = [] -> relB B s1 s2 -> fresh_unbound s1 ->
  crash_event_x e -> dropX B s1 e = false -> no_failure_c cfg s1 e ->
  let '(s1', o1) := step cfg s1 e in
  let '(s2', o2) := step cfg s2 e in
  relB B s1' s2' /\ framesB B (cstate s1 e) (o_log o1) = frames_of (o_log o2) /\ o_exc o2 = None /\
  fresh_unbound s1'.
Proof.
  intros H1 H2 L1 L2 Hr Hf Hp Hd Hnf. destruct e as [b|k b|].
  - pose proof (kept_event_congruent_rc cfg Hexp B s1 s2 (EB b) H1 H2 L1 L2 Hr Hf I Hd Hnf) as K.
    unfold cstate. destruct (step cfg s1 (EB b)) as [s1' o1]. exact K.
  - cbn [dropX] in Hd. cbn [no_failure_c] in Hnf. unfold cstate.
    destruct b as [c0|c msg o|c0|fault|dt fault]; try contradiction.
    + pose proof (kept_conn_crash cfg Hexp B s1 s2 k (EConnect c0) I H1 H2 L1 L2 Hr) as K.
      destruct (step cfg s1 (ECrash k (EConnect c0))) as [s1' o1].
      destruct (step cfg s2 (ECrash k (EConnect c0))) as [s2' o2].
      destruct K as (K1 & K2 & K3 & _ & _ & _ & _ & _ & _ & _ & K4). auto.
    + pose proof (kept_cmd_crash_x cfg Hexp B s1 s2 k c msg o H1 H2 L1 L2 Hr Hd Hnf) as K.
      destruct (step cfg s1 (ECrash k (ECmd c msg o))) as [s1' o1].
      destruct (step cfg s2 (ECrash k (ECmd c msg o))) as [s2' o2].
      destruct K as (K1 & K2 & K3 & _ & _ & _ & _ & _ & _ & _ & K4 & _). auto.
    + pose proof (kept_conn_crash cfg Hexp B s1 s2 k (EDisconnect c0) I H1 H2 L1 L2 Hr) as K.
      destruct (step cfg s1 (ECrash k (EDisconnect c0))) as [s1' o1].
      destruct (step cfg s2 (ECrash k (EDisconnect c0))) as [s2' o2].
      destruct K as (K1 & K2 & K3 & _ & _ & _ & _ & _ & _ & _ & K4). auto.
  - pose proof (kept_event_congruent_rc cfg Hexp B s1 s2 ERestart H1 H2 L1 L2 Hr Hf I Hd Hnf) as K.
    unfold cstate. destruct (step cfg s1 ERestart) as [s1' o1]. exact K.
Qed.

Lemma ni_gen_x B h : forall s1 s2,
  SInv s1 -> SInv s2 -> log s1 = [] -> log s2 = [] -> relB B s1 s2 -> fresh_unbound s1 ->
  no_failure_run_x s1 h ->
  relB B (fst (run cfg s1 h)) (fst (run cfg s2 (filterX B s1 h))) /\
  framesX_run B s1 h =
  flat_map (fun o => frames_of (o_log o)) (snd (run cfg s2 (filterX B s1 h))) /\
  Forall (fun o => o_exc o = None) (snd (run cfg s2 (filterX B s1 h))).
Proof.
  induction h as [|e h IH]; intros s1 s2 H1 H2 L1 L2 Hr Hf Hn.
  - cbn. auto.
  - cbn [no_failure_run_x] in Hn. destruct Hn as (Hp & Hnf & Hn').
    pose proof (step_spec cfg Hexp s1 e H1) as S1.
    destruct (dropX B s1 e) eqn:Ed.
    + destruct e as [b|k b|]; [| |discriminate]; cbn [dropX] in Ed.
      * (* a command of another app: invisible *)
        cbn [filterX framesX_run run]. rewrite Ed.
        pose proof (step_fresh cfg Hexp B s1 (EB b) H1 L1 Hf I Hnf) as F1.
        pose proof (dropped_event_invisible cfg Hexp B s1 s2 (EB b) H1 L1 Hf Hr I Ed Hnf) as D.
        unfold cstate. destruct (step cfg s1 (EB b)) as [s1' o1]. cbn [fst] in *.
        destruct S1 as (I1 & M1 & _). destruct D as [Hr' Hfr].
        specialize (IH s1' s2 I1 H2 M1 L2 Hr' F1 Hn').
        destruct (run cfg s1' h) as [u1 os1]. cbn [fst] in *. destruct IH as (A1 & A2 & A3).
        split; [exact A1|]. split; [|exact A3]. rewrite Hfr. exact A2.
      * (* the process dies inside a command of another app: a restart in run 2 *)
        destruct b as [c0|c msg o|c0|fault|dt fault]; try discriminate.
        cbn [no_failure_c] in Hnf.
        cbn [filterX framesX_run run]. rewrite Ed. cbn [run].
        pose proof (dropped_cmd_crash cfg Hexp B s1 s2 k c msg o H1 H2 L1 L2 Hr Hf Ed Hnf) as K.
        pose proof (step_spec cfg Hexp s2 ERestart H2) as S2.
        unfold cstate. destruct (step cfg s1 (ECrash k (ECmd c msg o))) as [s1' o1]. cbn [fst] in *.
        destruct (step cfg s2 ERestart) as [s2' o2].
        destruct S1 as (I1 & M1 & _). destruct S2 as (I2 & M2 & _).
        destruct K as (Hr' & Hfr & Hx & _ & _ & _ & _ & _ & _ & _ & F1).
        specialize (IH s1' s2' I1 I2 M1 M2 Hr' F1 Hn').
        destruct (run cfg s1' h) as [u1 os1]. destruct (run cfg s2' (filterX B s1' h)) as [u2 os2].
        cbn [fst snd flat_map] in *. destruct IH as (A1 & A2 & A3).
        split; [exact A1|]. split; [rewrite Hfr, A2; reflexivity|]. constructor; assumption.
    + pose proof (kept_event_congruent_x B s1 s2 e H1 H2 L1 L2 Hr Hf Hp Ed Hnf) as K.
      pose proof (step_spec cfg Hexp s2 e H2) as S2.
      assert (Ef : filterX B s1 (e :: h) = e :: filterX B (fst (step cfg s1 e)) h).
      { cbn [filterX]. destruct e as [b|k b|]; cbn [dropX] in Ed; rewrite Ed; reflexivity. }
      rewrite Ef. cbn [framesX_run run].
      destruct (step cfg s1 e) as [s1' o1]. cbn [fst] in *.
      destruct (step cfg s2 e) as [s2' o2].
      destruct S1 as (I1 & M1 & _). destruct S2 as (I2 & M2 & _). destruct K as (Hr' & Hfr & Hx & F1).
      specialize (IH s1' s2' I1 I2 M1 M2 Hr' F1 Hn').
      destruct (run cfg s1' h) as [u1 os1]. destruct (run cfg s2' (filterX B s1' h)) as [u2 os2].
      cbn [fst snd flat_map] in *. destruct IH as (A1 & A2 & A3).
      split; [exact A1|]. split; [rewrite Hfr, A2; reflexivity|]. constructor; assumption.
Qed.

(** C06 for histories with restarts and with crashes inside any command,
    connect or disconnect: what is stored for B at the end of H, and what B's
    side has seen during H, is what it is in H without the other apps' commands
    (a crash inside one of them staying as a bare restart) *)
Theorem noninterference_x B t0 h :
  no_failure_run_x (init cfg t0) h ->
  let s1 := fst (run cfg (init cfg t0) h) in
  let h2 := filterX B (init cfg t0) h in
  let s2 := fst (run cfg (init cfg t0) h2) in
  relB B s1 s2 /\
  framesX_run B (init cfg t0) h =
  flat_map (fun o => frames_of (o_log o)) (snd (run cfg (init cfg t0) h2)).
Proof.
  intros Hn. cbv zeta. destruct (init_spec cfg Hexp t0) as [HS HL].
  destruct (relB_init cfg Hexp B t0) as [Hr Hf].
  destruct (ni_gen_x B h _ _ HS HS HL HL Hr Hf Hn) as (A1 & A2 & _). auto.
Qed.

(** ... and the run without the other apps has no internal failure either *)
Theorem noninterference_x_no_failure B t0 h :
  no_failure_run_x (init cfg t0) h ->
  Forall (fun o => o_exc o = None) (snd (run cfg (init cfg t0) (filterX B (init cfg t0) h))).
Proof.
  intros Hn. destruct (init_spec cfg Hexp t0) as [HS HL].
  destruct (relB_init cfg Hexp B t0) as [Hr Hf].
  destruct (ni_gen_x B h _ _ HS HS HL HL Hr Hf Hn) as (_ & _ & A3). exact A3.
Qed.

End WithConfig.

(** * The histories of NonInterferenceR.v: both ways of classifying frames agree *)

Section Agree.
Variable cfg : config.
Hypothesis Hexp : 0 < exp cfg.

Lemma framesX_run_rc_gen B h : forall s1 s2,
  SInv s1 -> SInv s2 -> log s1 = [] -> log s2 = [] -> relB B s1 s2 -> fresh_unbound s1 ->
  no_failure_run_rc cfg B s1 h ->
  framesX_run cfg B s1 h = framesB_run cfg B s1 h.
Proof.
  induction h as [|e h IH]; intros s1 s2 H1 H2 L1 L2 Hr Hf Hn; [reflexivity|].
  cbn [no_failure_run_rc] in Hn. destruct Hn as (Hp & Hnf & Hn').
  pose proof (step_spec cfg Hexp s1 e H1) as S1.
  cbn [framesX_run framesB_run].
  destruct (dropB B s1 e) eqn:Ed.
  - assert (Hpl : plain_event e) by (destruct e as [b|k b|]; [exact I|discriminate|discriminate]).
    assert (Hnf0 : no_failure cfg s1 e) by (destruct e as [b|k b|]; [exact Hnf|contradiction|exact Hnf]).
    pose proof (step_fresh cfg Hexp B s1 e H1 L1 Hf Hpl Hnf0) as F1.
    pose proof (dropped_event_invisible cfg Hexp B s1 s2 e H1 L1 Hf Hr Hpl Ed Hnf0) as D.
    assert (Ec : cstate cfg s1 e = fst (step cfg s1 e)) by (destruct e; try contradiction; reflexivity).
    rewrite Ec. destruct (step cfg s1 e) as [s1' o1]. cbn [fst] in *.
    destruct S1 as (I1 & M1 & _). destruct D as [Hr' _].
    rewrite (IH s1' s2 I1 H2 M1 L2 Hr' F1 Hn'). reflexivity.
  - pose proof (kept_event_congruent_rc cfg Hexp B s1 s2 e H1 H2 L1 L2 Hr Hf Hp Ed Hnf) as K.
    pose proof (step_spec cfg Hexp s2 e H2) as S2.
    assert (Eh : framesB B (cstate cfg s1 e) (o_log (snd (step cfg s1 e))) =
                 framesB B (fst (step cfg s1 e)) (o_log (snd (step cfg s1 e)))).
    { destruct e as [b|k b|]; try reflexivity.
      destruct b as [c0|c msg o|c0|fault|dt fault]; try contradiction.
      cbn [crash_event] in Hp. cbn [no_failure_c] in Hnf.
      pose proof (kept_cmd_crash_x cfg Hexp B s1 s2 k c msg o H1 H2 L1 L2 Hr Hp Hnf) as K'.
      unfold cstate. destruct (step cfg s1 (ECrash k (ECmd c msg o))) as [s1' o1].
      destruct (step cfg s2 (ECrash k (ECmd c msg o))) as [s2' o2]. cbn [fst snd].
      symmetry. apply K'. }
    destruct (step cfg s1 e) as [s1' o1]. destruct (step cfg s2 e) as [s2' o2]. cbn [fst snd] in *.
    destruct S1 as (I1 & M1 & _). destruct S2 as (I2 & M2 & _). destruct K as (Hr' & _ & _ & F1).
    rewrite Eh, (IH s1' s2' I1 I2 M1 M2 Hr' F1 Hn'). reflexivity.
Qed.

Theorem framesX_run_rc B t0 h :
  no_failure_run_rc cfg B (init cfg t0) h ->
  framesX_run cfg B (init cfg t0) h = framesB_run cfg B (init cfg t0) h.
Proof.
  intros Hn. destruct (init_spec cfg Hexp t0) as [HS HL].
  destruct (relB_init cfg Hexp B t0) as [Hr Hf].
  exact (framesX_run_rc_gen B h _ _ HS HS HL HL Hr Hf Hn).
Qed.

(** so [noninterference_rc] is the special case of [noninterference_x] without
    crashes inside other apps' commands *)
Corollary noninterference_rc_from_x B t0 h :
  no_failure_run_rc cfg B (init cfg t0) h ->
  let s1 := fst (run cfg (init cfg t0) h) in
  let h2 := filterB cfg B (init cfg t0) h in
  let s2 := fst (run cfg (init cfg t0) h2) in
  relB B s1 s2 /\
  framesB_run cfg B (init cfg t0) h =
  flat_map (fun o => frames_of (o_log o)) (snd (run cfg (init cfg t0) h2)).
Proof.
  intros Hn. cbv zeta.
  rewrite <- (framesX_run_rc B t0 h Hn), <- (filterX_rc cfg B h _ Hn).
  exact (noninterference_x cfg Hexp B t0 h (no_failure_run_x_of_rc cfg B h _ Hn)).
Qed.

End Agree.

(** * Part 5: crashes inside a sweep or a timer-driven advance

    The full run's sweep prunes app by app (sorted), committing after every
    step; the run without the other apps prunes B only.  So the k-th commit of
    the full run corresponds to SOME commit k' of the other run (or to its
    start): the commits of another app's pruning leave B's rows alone, the
    commits of B's pruning correspond one to one.  A sweep sends no frames. *)

(** the files after a log (newest first): the newest snapshot of each kind *)
Fixpoint chanof (l : list log_entry) (c0 : chan_db) : chan_db :=
  match l with
  | [] => c0
  | LCommitChan d :: _ => d
  | _ :: l' => chanof l' c0
  end.
Fixpoint usageof (l : list log_entry) (u0 : usage_db) : usage_db :=
  match l with
  | [] => u0
  | LCommitUsage u :: _ => u
  | _ :: l' => usageof l' u0
  end.

Lemma replay_app l : forall l' c u,
  replay_commits (l ++ l') c u =
  replay_commits l' (fst (replay_commits l c u)) (snd (replay_commits l c u)).
Proof.
  induction l as [|x l IH]; intros l' c u; cbn [app replay_commits fst snd]; [reflexivity|].
  destruct x; apply IH.
Qed.

Lemma replay_rev l c0 u0 : replay_commits (rev l) c0 u0 = (chanof l c0, usageof l u0).
Proof.
  induction l as [|x l IH]; cbn [rev chanof usageof]; [reflexivity|].
  rewrite replay_app, IH. cbn [fst snd]. destruct x; reflexivity.
Qed.

Definition AllC (l : list log_entry) : Prop := Forall (fun x => is_commit x = true) l.

Lemma AllC_frames l : AllC l -> frames_of l = [].
Proof.
  induction 1 as [|x l Hx Hl IH]; [reflexivity|]. destruct x; cbn [frames_of]; try exact IH. discriminate.
Qed.

Lemma AllC_count l : AllC l -> count_commits l = List.length l.
Proof.
  unfold count_commits. induction 1 as [|x l Hx Hl IH]; [reflexivity|].
  cbn [filter]. rewrite Hx. cbn [List.length]. rewrite IH. reflexivity.
Qed.

Lemma count_app l l' : count_commits (l ++ l') = (count_commits l + count_commits l')%nat.
Proof. unfold count_commits. rewrite filter_app, app_length. reflexivity. Qed.

Lemma log_prefix_app_allc l l' : AllC l -> log_prefix (List.length l) (l ++ l') = l.
Proof.
  induction 1 as [|x l Hx Hl IH]; cbn [List.length app].
  - destruct l'; reflexivity.
  - cbn [log_prefix]. rewrite Hx, IH. reflexivity.
Qed.

Lemma log_prefix_split k : forall l, exists r, l = log_prefix k l ++ r.
Proof.
  induction k as [|k IH]; intros l.
  - exists l. destruct l; reflexivity.
  - induction l as [|x l IHl]; [exists []; reflexivity|]. cbn [log_prefix].
    destruct (is_commit x).
    + destruct (IH l) as [r Hr]. exists r. cbn [app]. rewrite <- Hr. reflexivity.
    + destruct IHl as [r Hr]. exists r. cbn [app]. rewrite <- Hr. reflexivity.
Qed.

Definition suffix (S l : list log_entry) : Prop := exists P, l = P ++ S.

Lemma suffix_refl l : suffix l l.
Proof. exists []. reflexivity. Qed.

Lemma suffix_cons x S l : suffix S l -> suffix S (x :: l).
Proof. intros [P ->]. exists (x :: P). reflexivity. Qed.

Lemma suffix_inv x S l : suffix S (x :: l) -> S = x :: l \/ suffix S l.
Proof.
  intros [P E]. destruct P as [|y P]; cbn [app] in E.
  - left. symmetry. exact E.
  - right. inversion E. exists P. reflexivity.
Qed.

Lemma AllC_suffix S l : suffix S l -> AllC l -> AllC S.
Proof. intros [P ->] H. apply Forall_app in H. apply H. Qed.

Section Stutter.
Variable B : string.
Variables (c10 c20 : chan_db) (u10 u20 : usage_db).

(** the files after the two logs agree on B's part *)
Definition FR (l1 l2 : list log_entry) : Prop :=
  DR B (chanof l1 c10) (chanof l2 c20) /\
  app_usage (usageof l2 u20) B = app_usage (usageof l1 u10) B.

(** the logs of the two runs (commits only, newest first): a commit of both
    runs, or a commit of the full run only that leaves B's part alone *)
Inductive SL : list log_entry -> list log_entry -> Prop :=
| SL_nil : SL [] []
| SL_both x y l1 l2 :
    SL l1 l2 -> is_commit x = true -> is_commit y = true -> FR (x :: l1) (y :: l2) ->
    SL (x :: l1) (y :: l2)
| SL_left x l1 l2 :
    SL l1 l2 -> is_commit x = true -> FR (x :: l1) l2 -> SL (x :: l1) l2.

Lemma SL_allc l1 l2 : SL l1 l2 -> AllC l1 /\ AllC l2.
Proof.
  induction 1 as [|x y l1 l2 H [IH1 IH2] Hx Hy _|x l1 l2 H [IH1 IH2] Hx _].
  - split; constructor.
  - split; constructor; assumption.
  - split; [constructor; assumption|exact IH2].
Qed.

(** every crash point of the full run has a crash point of the other run with files that agree *)
Lemma SL_suffix l1 l2 :
  SL l1 l2 -> FR [] [] -> forall S1, suffix S1 l1 -> exists S2, suffix S2 l2 /\ FR S1 S2.
Proof.
  intros H H0. induction H as [|x y l1 l2 H IH Hx Hy Hf|x l1 l2 H IH Hx Hf]; intros S1 Hs.
  - destruct Hs as [P E]. destruct P; [|discriminate]. cbn [app] in E. subst S1.
    exists []. split; [apply suffix_refl|exact H0].
  - apply suffix_inv in Hs. destruct Hs as [->|Hs].
    + exists (y :: l2). split; [apply suffix_refl|exact Hf].
    + destruct (IH S1 Hs) as (S2 & A1 & A2). exists S2. split; [apply suffix_cons; exact A1|exact A2].
  - apply suffix_inv in Hs. destruct Hs as [->|Hs].
    + exists l2. split; [apply suffix_refl|exact Hf].
    + exact (IH S1 Hs).
Qed.

(** in terms of commit counts and replayed prefixes (oldest first) *)
Lemma SL_prefix l1 l2 k :
  SL l1 l2 -> FR [] [] ->
  exists k', (k' <= count_commits (rev l2))%nat /\
    let cu1 := replay_commits (log_prefix k (rev l1)) c10 u10 in
    let cu2 := replay_commits (log_prefix k' (rev l2)) c20 u20 in
    DR B (fst cu1) (fst cu2) /\ app_usage (snd cu2) B = app_usage (snd cu1) B.
Proof.
  intros H H0. destruct (SL_allc l1 l2 H) as [A1 A2].
  destruct (log_prefix_split k (rev l1)) as [r Hr].
  set (S1 := rev (log_prefix k (rev l1))).
  assert (Hs1 : suffix S1 l1).
  { exists (rev r). unfold S1. rewrite <- rev_app_distr, <- Hr, rev_involutive. reflexivity. }
  destruct (SL_suffix l1 l2 H H0 S1 Hs1) as (S2 & [P2 E2] & [F1 F2]).
  assert (AS2 : AllC S2) by (apply (AllC_suffix S2 l2); [exists P2; exact E2|exact A2]).
  assert (AS2r : AllC (rev S2)) by (apply Forall_rev; exact AS2).
  exists (List.length S2). split.
  - rewrite E2, rev_app_distr, count_app, (AllC_count _ AS2r), rev_length. lia.
  - cbv zeta.
    assert (E1 : log_prefix k (rev l1) = rev S1) by (unfold S1; rewrite rev_involutive; reflexivity).
    assert (E3 : log_prefix (List.length S2) (rev l2) = rev S2).
    { rewrite E2, rev_app_distr, <- (rev_length S2). apply log_prefix_app_allc. exact AS2r. }
    rewrite E1, E3, !replay_rev. cbn [fst snd]. split; assumption.
Qed.

End Stutter.

(** ** the two sweeps, side by side, with their logs *)

Section SweepSim.
Variable cfg : config.
Hypothesis Hexp : 0 < exp cfg.
Variable B : string.
Variables (c10 c20 : chan_db) (u10 u20 : usage_db).

Local Notation FR := (FR B c10 c20 u10 u20).
Local Notation SL := (SL B c10 c20 u10 u20).

Record XI (s1 s2 : state) : Prop := mkXI
  { xi_db : DR B (chan_w s1) (chan_w s2);
    xi_u : app_usage (usage_w s2) B = app_usage (usage_w s1) B;
    xi_subs : subs s2 = filter (isB B) (subs s1);
    xi_now : now s2 = now s1;
    xi_sl : SL (log s1) (log s2);
    xi_fr : FR (log s1) (log s2);
    xi_c2 : chan_c s2 = chanof (log s2) c20;
    xi_u2 : usage_c s2 = usageof (log s2) u20 }.

(** both computations complete; [m2] may be [ret tt] (a step of the full run only) *)
Definition RS {A1 A2} (I : state -> state -> Prop) (Q : A1 -> A2 -> state -> state -> Prop)
           (m1 : M A1) (m2 : M A2) : Prop :=
  forall s1 s2, XI s1 s2 -> I s1 s2 ->
  match m1 s1 with
  | Ok a1 t1 => exists a2 t2, m2 s2 = Ok a2 t2 /\ XI t1 t2 /\ Q a1 a2 t1 t2
  | Exn _ _ => False
  end.

Lemma RS_conseq {A1 A2} (I I' : state -> state -> Prop) (Q Q' : A1 -> A2 -> state -> state -> Prop) m1 m2 :
  RS I Q m1 m2 -> (forall s1 s2, XI s1 s2 -> I' s1 s2 -> I s1 s2) ->
  (forall a1 a2 t1 t2, XI t1 t2 -> Q a1 a2 t1 t2 -> Q' a1 a2 t1 t2) -> RS I' Q' m1 m2.
Proof.
  intros H HI HQ s1 s2 HX Hi. specialize (H s1 s2 HX (HI _ _ HX Hi)).
  destruct (m1 s1) as [a1 t1|e t1]; [|exact H].
  destruct H as (a2 & t2 & E & HX' & Hq). exists a2, t2. auto.
Qed.

Lemma RS_bind {A1 A2 C1 C2} (I : state -> state -> Prop) (Q : A1 -> A2 -> state -> state -> Prop)
      (W : C1 -> C2 -> state -> state -> Prop) m1 m2 k1 k2 :
  RS I Q m1 m2 -> (forall a1 a2, RS (Q a1 a2) W (k1 a1) (k2 a2)) -> RS I W (bind m1 k1) (bind m2 k2).
Proof.
  intros Hm Hk s1 s2 HX Hi. unfold bind. specialize (Hm s1 s2 HX Hi).
  destruct (m1 s1) as [a1 t1|e t1]; [|exact Hm].
  destruct Hm as (a2 & t2 & -> & HX' & Hq). exact (Hk a1 a2 t1 t2 HX' Hq).
Qed.

Lemma RS_bind_left {A1 C1 C2} (I : state -> state -> Prop) (Q : A1 -> unit -> state -> state -> Prop)
      (W : C1 -> C2 -> state -> state -> Prop) (m1 : M A1) (k1 : A1 -> M C1) (m2 : M C2) :
  RS I Q m1 (ret tt) -> (forall a1, RS (Q a1 tt) W (k1 a1) m2) -> RS I W (bind m1 k1) m2.
Proof.
  intros Hm Hk s1 s2 HX Hi. unfold bind. specialize (Hm s1 s2 HX Hi).
  destruct (m1 s1) as [a1 t1|e t1]; [|exact Hm].
  destruct Hm as (a2 & t2 & E & HX' & Hq). unfold ret in E. inversion E; subst a2 t2.
  exact (Hk a1 t1 s2 HX' Hq).
Qed.

Lemma RS_ret {A1 A2} (I : state -> state -> Prop) (Q : A1 -> A2 -> state -> state -> Prop) a1 a2 :
  (forall s1 s2, XI s1 s2 -> I s1 s2 -> Q a1 a2 s1 s2) -> RS I Q (ret a1) (ret a2).
Proof. intros H s1 s2 HX Hi. cbn. exists a2, s2. auto. Qed.

Lemma RS_pure {A1 A2} (P : Prop) I (Q : A1 -> A2 -> state -> state -> Prop) m1 m2 :
  (P -> RS I Q m1 m2) -> RS (fun s1 s2 => P /\ I s1 s2) Q m1 m2.
Proof. intros H s1 s2 HX [HP Hi]. exact (H HP s1 s2 HX Hi). Qed.

Lemma RS_assume {A1 A2} (P : Prop) (Q : A1 -> A2 -> state -> state -> Prop) m1 m2 :
  (P -> RS (fun _ _ => True) Q m1 m2) -> RS (fun _ _ => P) Q m1 m2.
Proof. intros H s1 s2 HX HP. exact (H HP s1 s2 HX I). Qed.

Lemma RS_bind_get {C1 C2} (I : state -> state -> Prop) (W : C1 -> C2 -> state -> state -> Prop) k1 k2 :
  (forall x y, XI x y -> RS I W (k1 x) (k2 y)) -> RS I W (bind get k1) (bind get k2).
Proof. intros Hk s1 s2 HX Hi. unfold bind, get. exact (Hk s1 s2 HX s1 s2 HX Hi). Qed.

Lemma RS_bind_get_left {C1 C2} (I : state -> state -> Prop) (W : C1 -> C2 -> state -> state -> Prop) k1 (m2 : M C2) :
  (forall x, RS (fun s1 s2 => I s1 s2 /\ s1 = x) W (k1 x) m2) -> RS I W (bind get k1) m2.
Proof. intros Hk s1 s2 HX Hi. unfold bind, get. exact (Hk s1 s1 s2 HX (conj Hi eq_refl)). Qed.

Lemma RS_try_catch {A} (I : state -> state -> Prop) (Q : A -> A -> state -> state -> Prop) m1 m2 h1 h2 :
  RS I Q m1 m2 -> RS I Q (try_catch m1 h1) (try_catch m2 h2).
Proof.
  intros Hm s1 s2 HX Hi. unfold try_catch. specialize (Hm s1 s2 HX Hi).
  destruct (m1 s1) as [a1 t1|e t1]; [|destruct Hm].
  destruct Hm as (a2 & t2 & -> & HX' & Hq). exists a2, t2. auto.
Qed.

Lemma RS_q {A1 A2} (I : state -> state -> Prop) (V : A1 -> A2 -> Prop) (f1 : chan_db -> A1) (f2 : chan_db -> A2) :
  (forall s1 s2, XI s1 s2 -> I s1 s2 -> V (f1 (chan_w s1)) (f2 (chan_w s2))) ->
  RS I (fun a1 a2 s1 s2 => V a1 a2 /\ I s1 s2) (q f1) (q f2).
Proof.
  intros H s1 s2 HX Hi. unfold q. exists (f2 (chan_w s2)), s2. split; [reflexivity|].
  split; [exact HX|]. split; [exact (H s1 s2 HX Hi)|exact Hi].
Qed.

(** a fact about the full run's result, proved on its own *)
Lemma RS_and_wp {A1 A2} (I : state -> state -> Prop) (Q : A1 -> A2 -> state -> state -> Prop) (P : state -> Prop) (m1 : M A1) (m2 : M A2) :
  RS I Q m1 m2 ->
  (forall s1 s2, XI s1 s2 -> I s1 s2 -> wp m1 (fun _ t1 => P t1) (fun _ _ => True) s1) ->
  RS I (fun a1 a2 t1 t2 => Q a1 a2 t1 t2 /\ P t1) m1 m2.
Proof.
  intros H HP s1 s2 HX Hi. specialize (H s1 s2 HX Hi). specialize (HP s1 s2 HX Hi).
  unfold wp in HP. destruct (m1 s1) as [a1 t1|e t1]; [|exact H].
  destruct H as (a2 & t2 & E & HX' & Hq). exists a2, t2. auto.
Qed.

(** ... and about the other run's *)
Lemma RS_and_wp2 {A1 A2} (I : state -> state -> Prop) (Q : A1 -> A2 -> state -> state -> Prop) (P : state -> Prop) (m1 : M A1) (m2 : M A2) :
  RS I Q m1 m2 ->
  (forall s1 s2, XI s1 s2 -> I s1 s2 -> wp m2 (fun _ t2 => P t2) (fun _ _ => True) s2) ->
  RS I (fun a1 a2 t1 t2 => Q a1 a2 t1 t2 /\ P t2) m1 m2.
Proof.
  intros H HP s1 s2 HX Hi. specialize (H s1 s2 HX Hi). specialize (HP s1 s2 HX Hi).
  unfold wp in HP. destruct (m1 s1) as [a1 t1|e t1]; [|exact H].
  destruct H as (a2 & t2 & E & HX' & Hq). rewrite E in HP. exists a2, t2. auto.
Qed.

(** ** primitives, both runs *)

Ltac xi_tac HX :=
  destruct HX as [Xdb Xu Xsubs Xnow Xsl Xfr Xc2 Xu2]; constructor;
  cbn [chan_w chan_c usage_w usage_c subs now log set_chan_w set_usage_w chanof usageof]; auto.

Lemma RS_tx {A1 A2} (I : state -> state -> Prop) (Q : A1 -> A2 -> state -> state -> Prop) (f1 : chan_db -> txres A1) (f2 : chan_db -> txres A2) :
  (forall s1 s2, XI s1 s2 -> I s1 s2 ->
     match f1 (chan_w s1) with
     | TxOk a1 d1 => exists a2 d2, f2 (chan_w s2) = TxOk a2 d2 /\ DR B d1 d2 /\
                                   (XI (set_chan_w s1 d1) (set_chan_w s2 d2) ->
                                    Q a1 a2 (set_chan_w s1 d1) (set_chan_w s2 d2))
     | TxFail _ _ => False
     end) -> RS I Q (tx f1) (tx f2).
Proof.
  intros H s1 s2 HX Hi. unfold tx. specialize (H s1 s2 HX Hi).
  destruct (f1 (chan_w s1)) as [a1 d1|e d1]; [|exact H].
  destruct H as (a2 & d2 & -> & HD & Hq). exists a2. eexists. split; [reflexivity|].
  assert (HX' : XI (set_chan_w s1 d1) (set_chan_w s2 d2)) by (xi_tac HX).
  split; [exact HX'|exact (Hq HX')].
Qed.

Lemma RS_commit_chan : RS (fun _ _ => True) (fun _ _ _ _ => True) commit_chan commit_chan.
Proof.
  intros s1 s2 HX _. unfold commit_chan. exists tt. eexists. split; [reflexivity|].
  split; [|exact I]. pose proof (xi_fr _ _ HX) as [F1 F2]. pose proof (xi_db _ _ HX) as HD.
  assert (HF : FR (LCommitChan (chan_w s1) :: log s1) (LCommitChan (chan_w s2) :: log s2))
    by (split; cbn [chanof usageof]; assumption).
  xi_tac HX. apply SL_both; auto.
Qed.

Lemma RS_commit_usage : RS (fun _ _ => True) (fun _ _ _ _ => True) commit_usage commit_usage.
Proof.
  intros s1 s2 HX _. unfold commit_usage. exists tt. eexists. split; [reflexivity|].
  split; [|exact I]. pose proof (xi_fr _ _ HX) as [F1 F2]. pose proof (xi_u _ _ HX) as HU.
  assert (HF : FR (LCommitUsage (usage_w s1) :: log s1) (LCommitUsage (usage_w s2) :: log s2))
    by (split; cbn [chanof usageof]; assumption).
  xi_tac HX. apply SL_both; auto.
Qed.

Lemma RS_utx f1 f2 :
  (forall u1 u2, app_usage u2 B = app_usage u1 B -> app_usage (f2 u2) B = app_usage (f1 u1) B) ->
  RS (fun _ _ => True) (fun _ _ _ _ => True) (utx f1) (utx f2).
Proof.
  intros H s1 s2 HX _. unfold utx. exists tt. eexists. split; [reflexivity|].
  split; [|exact I]. xi_tac HX.
Qed.

(** ** primitives, the full run only; the other run rests between two commits *)

Section Left.
Variable K : state -> Prop.
Hypothesis K_clean : forall s, K s -> clean s.

Definition KI : state -> state -> Prop := fun _ s2 => K s2.
Definition KQ {A} : A -> unit -> state -> state -> Prop := fun _ _ _ t2 => K t2.

Lemma RS_tx_left {A1} (I : state -> state -> Prop) (Q : A1 -> unit -> state -> state -> Prop) (f1 : chan_db -> txres A1) :
  (forall s1 s2, XI s1 s2 -> I s1 s2 ->
     match f1 (chan_w s1) with
     | TxOk a1 d1 => DR B d1 (chan_w s2) /\ Q a1 tt (set_chan_w s1 d1) s2
     | TxFail _ _ => False
     end) -> RS I Q (tx f1) (ret tt).
Proof.
  intros H s1 s2 HX Hi. unfold tx. specialize (H s1 s2 HX Hi).
  destruct (f1 (chan_w s1)) as [a1 d1|e d1]; [|exact H].
  destruct H as (HD & Hq). exists tt, s2. split; [reflexivity|]. split; [|exact Hq]. xi_tac HX.
Qed.

Lemma RS_commit_chan_left : RS KI KQ commit_chan (ret tt).
Proof.
  intros s1 s2 HX Hk. unfold commit_chan. exists tt, s2. split; [reflexivity|]. split; [|exact Hk].
  destruct (K_clean s2 Hk) as [Ec Eu].
  pose proof (xi_fr _ _ HX) as [F1 F2]. pose proof (xi_db _ _ HX) as HD.
  assert (HF : FR (LCommitChan (chan_w s1) :: log s1) (log s2)).
  { split; cbn [chanof usageof]; [|exact F2]. rewrite <- (xi_c2 _ _ HX), <- Ec. exact HD. }
  xi_tac HX. apply SL_left; auto.
Qed.

Lemma RS_commit_usage_left : RS KI KQ commit_usage (ret tt).
Proof.
  intros s1 s2 HX Hk. unfold commit_usage. exists tt, s2. split; [reflexivity|]. split; [|exact Hk].
  destruct (K_clean s2 Hk) as [Ec Eu].
  pose proof (xi_fr _ _ HX) as [F1 F2]. pose proof (xi_u _ _ HX) as HU.
  assert (HF : FR (LCommitUsage (usage_w s1) :: log s1) (log s2)).
  { split; cbn [chanof usageof]; [exact F1|]. rewrite <- (xi_u2 _ _ HX), <- Eu. exact HU. }
  xi_tac HX. apply SL_left; auto.
Qed.

Lemma RS_utx_left f1 :
  (forall u, app_usage (f1 u) B = app_usage u B) -> RS KI KQ (utx f1) (ret tt).
Proof.
  intros H s1 s2 HX Hk. unfold utx. exists tt, s2. split; [reflexivity|]. split; [|exact Hk].
  xi_tac HX. rewrite H. exact Xu.
Qed.

Lemma RS_ret_left : RS KI KQ (ret tt) (ret tt).
Proof. apply RS_ret. intros s1 s2 _ Hk. exact Hk. Qed.

(** pruning another app *)
Lemma RS_prune_app_left A w old :
  B <> A ->
  RS (fun s1 s2 => subs_live s1 /\ K s2) KQ (prune_app cfg A w old) (ret tt).
Proof.
  intros HAB. unfold prune_app. apply RS_bind_get_left. intros x.
  eapply RS_bind_left with (Q := KQ).
  { apply RS_tx_left. intros s1 s2 HX [[HL Hk] Ex]. subst x. split; [|exact Hk].
    pose proof (xi_db _ _ HX) as HD. pose proof HD as (I1 & _).
    apply (DR_left B (chan_w s1)); [exact HD|apply touch_all_ok; exact I1|].
    apply iso_touch_all. intros m Hm. apply SweepFacts.listened_mailboxes_In in Hm.
    apply (mfree_of A B HAB (chan_w s1) m I1). apply HL. exact Hm. }
  intros ?. eapply RS_bind_left; [apply RS_commit_chan_left|]. intros ?.
  eapply RS_bind_left with
    (Q := fun r _ s1 s2 => (Pnp A (snd (fst r)) /\ Pmb A (snd r)) /\ KI s1 s2).
  { apply RS_tx_left. intros s1 s2 HX Hk.
    pose proof (xi_db _ _ HX) as HD. pose proof HD as (I1 & _).
    destruct (ViewFacts.prune_char cfg (chan_w s1) A w old I1) as (unps & umbs & Ep & Ip).
    pose proof (prune_body_app cfg (chan_w s1) A w old) as Happ. rewrite Ep in *.
    split; [|split; [exact Happ|exact Hk]].
    apply (DR_left B (chan_w s1)); [exact HD|exact Ip|]. apply iso_prune_db; assumption. }
  intros [[mo unps] umbs]. cbn [fst snd]. apply RS_pure. intros [Hnp Hmb].
  eapply RS_bind_left with (Q := KQ).
  { destruct (usage_on cfg); [|apply RS_ret_left]. unfold write_usage. apply RS_utx_left.
    intros u. rewrite (fold_mb_usage A B HAB) by exact Hmb. apply (fold_np_usage A B HAB). exact Hnp. }
  intros ?. destruct mo; [|apply RS_ret_left].
  eapply RS_bind_left; [apply RS_commit_chan_left|]. intros ?.
  destruct (usage_on cfg); [apply RS_commit_usage_left|apply RS_ret_left].
Qed.

End Left.

(** pruning B, both runs *)
Lemma RS_prune_app_B w old :
  RS (fun _ _ => True) (fun _ _ _ _ => True) (prune_app cfg B w old) (prune_app cfg B w old).
Proof.
  unfold prune_app. apply RS_bind_get. intros x y Hxy.
  rewrite (xi_subs _ _ Hxy), listened_isB.
  eapply RS_bind with (Q := fun _ _ _ _ => True).
  { apply RS_tx. intros s1 s2 HX _. eexists. eexists. split; [reflexivity|].
    split; [apply DR_touch_all; exact (xi_db _ _ HX)|auto]. }
  intros ? ?. eapply RS_bind; [apply RS_commit_chan|]. intros ? ?.
  eapply RS_bind with (Q := fun r1 r2 _ _ => r1 = r2).
  { apply RS_tx. intros s1 s2 HX _.
    destruct (prune_body_2 B cfg (chan_w s1) (chan_w s2) w old (xi_db _ _ HX)) as (r & d1' & d2' & -> & E2 & HD').
    exists r, d2'. split; [exact E2|]. split; [exact HD'|auto]. }
  intros [[mo unps] umbs] r2.
  cbv beta. apply RS_assume. intros <-.
  eapply RS_bind with (Q := fun _ _ _ _ => True).
  { destruct (usage_on cfg); [|apply RS_ret; auto]. unfold write_usage. apply RS_utx.
    intros u1 u2 H. apply app_usage_fold_mb, app_usage_fold_np, H. }
  intros ? ?. destruct mo; [|apply RS_ret; auto].
  eapply RS_bind; [apply RS_commit_chan|]. intros ? ?.
  destruct (usage_on cfg); [apply RS_commit_usage|apply RS_ret; auto].
Qed.

Definition KS (s : state) : Prop := RInv s /\ clean s /\ SweepFacts.subs_live s.
Definition SIb (s1 s2 : state) : Prop := KS s1 /\ KS s2.

Lemma KS_clean s : KS s -> clean s.
Proof. intros (_ & H & _). exact H. Qed.

Lemma prune_app_KS a w old s :
  old < w -> KS s -> wp (prune_app cfg a w old) (fun _ t => KS t) (fun _ _ => True) s.
Proof.
  intros Hlt (HR & HC & HL).
  eapply wp_conseq; [exact (prune_app_char cfg Hexp a w old s HR HC Hlt HL)| |].
  - intros [] t (G & L' & _). split; [apply G|split; [apply G|exact L']].
  - intros e t [].
Qed.

Lemma RS_prune_apps w old :
  old < w -> forall apps,
  RS SIb (fun _ _ => SIb) (prune_apps cfg apps w old) (prune_apps cfg (filter (seqb B) apps) w old).
Proof.
  intros Hlt. induction apps as [|a apps IH]; cbn [prune_apps filter].
  - apply RS_ret. auto.
  - destruct (seqb B a) eqn:E.
    + apply seqb_eq in E. destruct E. cbn [prune_apps].
      eapply RS_bind; [|intros ? ?; exact IH].
      apply (RS_conseq SIb SIb (fun _ _ t1 t2 => (True /\ KS t1) /\ KS t2) (fun _ _ => SIb)).
      * apply (RS_and_wp2 SIb (fun _ _ t1 _ => True /\ KS t1) KS).
        -- apply (RS_and_wp SIb (fun _ _ _ _ => True) KS).
           ++ apply (RS_conseq (fun _ _ => True) SIb (fun _ _ _ _ => True) (fun _ _ _ _ => True));
                [apply RS_prune_app_B|auto|auto].
           ++ intros s1 s2 _ [H1 _]. exact (prune_app_KS B w old s1 Hlt H1).
        -- intros s1 s2 _ [_ H2]. exact (prune_app_KS B w old s2 Hlt H2).
      * auto.
      * intros a1 a2 t1 t2 _ [[_ H1] H2]. split; assumption.
    + apply seqb_neq in E.
      eapply RS_bind_left with (Q := fun _ _ => SIb); [|intros ?; exact IH].
      apply (RS_conseq SIb SIb (fun _ _ t1 t2 => KS t2 /\ KS t1) (fun _ _ => SIb)).
      * apply (RS_and_wp SIb (KQ KS) KS).
        -- apply (RS_conseq (fun s1 s2 => SweepFacts.subs_live s1 /\ KS s2) SIb (KQ KS) (KQ KS));
             [exact (RS_prune_app_left KS KS_clean a w old E)| |auto].
           intros s1 s2 _ [(_ & _ & HL) H2]. split; [exact HL|exact H2].
        -- intros s1 s2 _ [H1 _]. exact (prune_app_KS a w old s1 Hlt H1).
      * auto.
      * intros a1 a2 t1 t2 _ [H2 H1]. split; [exact H1|exact H2].
Qed.

Lemma RS_dump_stats w b1 b2 :
  RS (fun _ _ => True) (fun _ _ _ _ => True) (dump_stats cfg w b1) (dump_stats cfg w b2).
Proof.
  unfold dump_stats. destruct (usage_on cfg); [|apply RS_ret; auto].
  apply RS_bind_get. intros x y Hxy.
  eapply RS_bind; [apply RS_utx; intros u1 u2 H; exact H|]. intros ? ?. apply RS_commit_usage.
Qed.

Lemma RS_expire fault : RS SIb (fun _ _ _ _ => True) (expire cfg fault) (expire cfg fault).
Proof.
  unfold expire. apply RS_bind_get. intros x y Hxy. rewrite (xi_now _ _ Hxy).
  eapply RS_bind with (Q := fun _ _ _ _ => True).
  - destruct fault; [apply RS_ret; auto|].
    apply RS_try_catch. unfold prune_all_apps. eapply RS_bind.
    { apply RS_q with (V := fun l1 l2 : list string => l2 = filter (seqb B) l1).
      intros s1 s2 HX _. apply apps_2. exact (xi_db _ _ HX). }
    intros l1 l2. cbv beta. apply RS_pure. intros ->.
    eapply RS_conseq; [apply RS_prune_apps; lia|auto|auto].
  - intros ? ?. cbv beta. apply RS_dump_stats.
Qed.

End SweepSim.

Definition sweep_bevent (b : bevent) : Prop :=
  match b with ESweep _ | EAdvance _ _ => True | _ => False end.

Section SweepCrash.
Variable cfg : config.
Hypothesis Hexp : 0 < exp cfg.
Variable B : string.

(** a crash event in terms of the completed base event *)
Lemma step_crash_cases s k b :
  log s = [] ->
  step cfg s (ECrash k b) =
  let sc := fst (step cfg s (EB b)) in
  let oc := snd (step cfg s (EB b)) in
  if (count_commits (o_log oc) <? k)%nat || negb (o_valid oc) then
    (fst (fst (boot_on cfg (chan_c sc) (usage_c sc) (now sc))),
     mkObs (o_valid oc) (o_log oc) (o_exc oc) (snd (fst (boot_on cfg (chan_c sc) (usage_c sc) (now sc)))))
  else
    let cu := replay_commits (log_prefix k (o_log oc)) (chan_c s) (usage_c s) in
    (fst (fst (boot_on cfg (fst cu) (snd cu) (now sc))),
     mkObs (o_valid oc) (log_prefix k (o_log oc)) None (snd (fst (boot_on cfg (fst cu) (snd cu) (now sc))))).
Proof.
  intros L. unfold step. cbv zeta. rewrite (MbFactsA.set_log_nil s L).
  destruct (step_b cfg s b) as [[s1 valid] ex]. cbn [fst snd o_log o_valid o_exc chan_c usage_c now set_log].
  destruct ((count_commits (rev (log s1)) <? k)%nat || negb valid).
  - destruct (boot_on cfg (chan_c s1) (usage_c s1) (now s1)) as [[s2 bl] x2]. reflexivity.
  - destruct (replay_commits (log_prefix k (rev (log s1))) (chan_c s) (usage_c s)) as [c' u'].
    cbn [fst snd]. destruct (boot_on cfg c' u' (now s1)) as [[s2 bl] x2]. reflexivity.
Qed.

Lemma relB_set_now s1 s2 t : relB B s1 s2 -> relB B (set_now s1 t) (set_now s2 t).
Proof. intros []. constructor; cbn [chan_w chan_c usage_w usage_c subs conns now next_due timer_start set_now]; auto. Qed.

(** the logs of the two sweeps *)
Lemma expire_SL fault s1 s2 :
  SInv s1 -> SInv s2 -> log s1 = [] -> log s2 = [] -> relB B s1 s2 ->
  exists t1 t2, expire cfg fault s1 = Ok tt t1 /\ expire cfg fault s2 = Ok tt t2 /\
    SL B (chan_c s1) (chan_c s2) (usage_c s1) (usage_c s2) (log t1) (log t2).
Proof.
  intros H1 H2 L1 L2 Hr.
  assert (HX : XI B (chan_c s1) (chan_c s2) (usage_c s1) (usage_c s2) s1 s2).
  { constructor.
    - split; [exact (si_db s1 H1)|]. split; [exact (si_db s2 H2)|].
      split; [apply absB_VR; exact (rb_w _ _ _ Hr)|exact (rb_only _ _ _ Hr)].
    - exact (rb_uw _ _ _ Hr).
    - exact (rb_subs _ _ _ Hr).
    - exact (rb_now _ _ _ Hr).
    - rewrite L1, L2. constructor.
    - rewrite L1, L2. split; cbn [chanof usageof]; [exact (DR_committed B s1 s2 H1 H2 Hr)|exact (rb_uc _ _ _ Hr)].
    - rewrite L2. reflexivity.
    - rewrite L2. reflexivity. }
  assert (HS : SIb s1 s2).
  { split; (split; [split; [apply si_db; assumption|]|split; [apply si_clean; assumption|apply SInv_subs_live; assumption]]).
    - rewrite L1. constructor.
    - rewrite L2. constructor. }
  pose proof (RS_expire cfg Hexp B _ _ _ _ fault s1 s2 HX HS) as W.
  destruct (expire cfg fault s1) as [[] t1|e t1]; [|destruct W].
  destruct W as ([] & t2 & E2 & HX' & _). exists t1, t2. split; [reflexivity|]. split; [exact E2|].
  exact (xi_sl _ _ _ _ _ _ _ HX').
Qed.

(** the completed sweeps (or clock advances): what they show and how their logs correspond *)
Lemma sweep_logs s1 s2 b :
  sweep_bevent b ->
  SInv s1 -> SInv s2 -> log s1 = [] -> log s2 = [] -> relB B s1 s2 ->
  let o1 := snd (step cfg s1 (EB b)) in
  let o2 := snd (step cfg s2 (EB b)) in
  o_valid o2 = o_valid o1 /\ o_exc o1 = None /\
  exists l1 l2, o_log o1 = rev l1 /\ o_log o2 = rev l2 /\
                SL B (chan_c s1) (chan_c s2) (usage_c s1) (usage_c s2) l1 l2.
Proof.
  intros Hb H1 H2 L1 L2 Hr. cbv zeta.
  destruct b as [c0|c msg o|c0|fault|dt fault]; try contradiction.
  - destruct (expire_SL fault s1 s2 H1 H2 L1 L2 Hr) as (t1 & t2 & E1 & E2 & HSL).
    unfold step, step_b, run_m. rewrite (MbFactsA.set_log_nil s1 L1), (MbFactsA.set_log_nil s2 L2), E1, E2.
    cbn [snd o_valid o_exc o_log]. split; [reflexivity|]. split; [reflexivity|].
    exists (log t1), (log t2). auto.
  - unfold step, step_b. rewrite (MbFactsA.set_log_nil s1 L1), (MbFactsA.set_log_nil s2 L2).
    destruct (dt <? 0).
    { cbn [snd o_valid o_exc o_log]. split; [reflexivity|]. split; [reflexivity|].
      exists [], []. rewrite L1, L2. repeat split; constructor. }
    cbv zeta. rewrite (rb_now _ _ _ Hr).
    change (next_due (set_now s2 (now s1 + dt))) with (next_due s2).
    change (next_due (set_now s1 (now s1 + dt))) with (next_due s1).
    change (now (set_now s2 (now s1 + dt))) with (now s1 + dt).
    change (now (set_now s1 (now s1 + dt))) with (now s1 + dt).
    rewrite (rb_due _ _ _ Hr).
    destruct (next_due s1 <=? now s1 + dt).
    + destruct (expire_SL fault (set_now s1 (now s1 + dt)) (set_now s2 (now s1 + dt))
                  (SInv_set_now s1 _ H1) (SInv_set_now s2 _ H2) L1 L2 (relB_set_now s1 s2 _ Hr))
        as (t1 & t2 & E1 & E2 & HSL).
      unfold run_m. rewrite E1, E2. cbn [snd o_valid o_exc o_log log set_next_due].
      split; [reflexivity|]. split; [reflexivity|]. exists (log t1), (log t2). auto.
    + cbn [snd o_valid o_exc o_log log set_now]. split; [reflexivity|]. split; [reflexivity|].
      exists [], []. rewrite L1, L2. repeat split; constructor.
Qed.

(** the process dies right after the k-th commit of a sweep (or of the sweep a
    clock advance sets off).  The run without the other apps has fewer commits;
    for every k there is a k' such that the two processes restart on files
    that agree on B's part.  Sweeps send nothing. *)
Theorem kept_sweep_crash s1 s2 k b :
  sweep_bevent b ->
  SInv s1 -> SInv s2 -> log s1 = [] -> log s2 = [] -> relB B s1 s2 ->
  exists k',
  let '(s1', o1) := step cfg s1 (ECrash k b) in
  let '(s2', o2) := step cfg s2 (ECrash k' b) in
  relB B s1' s2' /\
  framesB B (fst (step cfg s1 (EB b))) (o_log o1) = frames_of (o_log o2) /\
  o_exc o2 = None /\
  framesB B s1' (o_boot_log o1) = frames_of (o_boot_log o2) /\
  o_exc o1 = None /\ o_valid o2 = o_valid o1 /\
  conns s1' = [] /\ conns s2' = [] /\ subs s1' = [] /\ subs s2' = [] /\ fresh_unbound s1'.
Proof.
  intros Hb H1 H2 L1 L2 Hr.
  assert (K : let '(s1c, o1c) := step cfg s1 (EB b) in
              let '(s2c, o2c) := step cfg s2 (EB b) in
              relB B s1c s2c /\ framesB B s1c (o_log o1c) = frames_of (o_log o2c) /\ o_exc o2c = None).
  { destruct b as [c0|c msg o|c0|fault|dt fault]; try contradiction.
    - exact (kept_sweep cfg Hexp B s1 s2 fault H1 H2 L1 L2 Hr).
    - exact (kept_advance cfg Hexp B s1 s2 dt fault H1 H2 L1 L2 Hr). }
  pose proof (sweep_logs s1 s2 b Hb H1 H2 L1 L2 Hr) as G. cbv zeta in G.
  pose proof (step_spec cfg Hexp s1 (EB b) H1) as S1. pose proof (step_spec cfg Hexp s2 (EB b) H2) as S2.
  pose proof (fun k => step_crash_cases s1 k b L1) as N1. pose proof (fun k => step_crash_cases s2 k b L2) as N2.
  cbv zeta in N1, N2.
  destruct (step cfg s1 (EB b)) as [s1c o1c]. destruct (step cfg s2 (EB b)) as [s2c o2c].
  cbn [fst snd] in *.
  destruct G as (Ev & X1 & l1 & l2 & E1 & E2 & HSL).
  destruct S1 as (I1 & _). destruct S2 as (I2 & _). destruct K as (Hrc & Hfr & X2).
  destruct (SL_allc _ _ _ _ _ _ _ HSL) as [A1 A2].
  assert (F0 : FR B (chan_c s1) (chan_c s2) (usage_c s1) (usage_c s2) [] []).
  { split; cbn [chanof usageof]; [exact (DR_committed B s1 s2 H1 H2 Hr)|exact (rb_uc _ _ _ Hr)]. }
  assert (Fr1 : forall j, frames_of (log_prefix j (o_log o1c)) = []).
  { intros j. apply AllC_frames. apply Forall_forall. intros x Hx. apply log_prefix_In in Hx.
    rewrite E1 in Hx. apply in_rev in Hx. exact (proj1 (Forall_forall _ _) A1 x Hx). }
  assert (Fr2 : forall j, frames_of (log_prefix j (o_log o2c)) = []).
  { intros j. apply AllC_frames. apply Forall_forall. intros x Hx. apply log_prefix_In in Hx.
    rewrite E2 in Hx. apply in_rev in Hx. exact (proj1 (Forall_forall _ _) A2 x Hx). }
  destruct ((count_commits (o_log o1c) <? k)%nat || negb (o_valid o1c)) eqn:Ek.
  - (* the sweep completed *)
    exists (S (count_commits (o_log o2c))).
    rewrite (N1 k), (N2 (S (count_commits (o_log o2c)))), Ek.
    assert (Ek2 : (count_commits (o_log o2c) <? S (count_commits (o_log o2c)))%nat || negb (o_valid o2c) = true).
    { apply orb_true_iff. left. apply Nat.ltb_lt. lia. }
    rewrite Ek2, (rb_now _ _ _ Hrc).
    destruct (boot_rel cfg Hexp B _ _ _ _ (now s1c) (DR_committed B s1c s2c I1 I2 Hrc) (rb_uc _ _ _ Hrc))
      as (W1 & W2 & W3 & W4 & W5 & W6 & W7 & W8).
    cbn [o_log o_exc o_boot_log o_valid].
    split; [exact W1|]. split; [exact Hfr|]. split; [exact X2|]. split; [exact W2|].
    split; [exact X1|]. split; [exact Ev|].
    split; [exact W5|]. split; [exact W6|]. split; [exact W7|]. split; [exact W8|].
    intros c' cs'. rewrite W5. discriminate.
  - (* the process died after the k-th commit *)
    apply orb_false_iff in Ek. destruct Ek as [Ek Ev1]. apply negb_false_iff in Ev1.
    destruct (SL_prefix B _ _ _ _ l1 l2 k HSL F0) as (k' & Hk' & HD & HU). cbv zeta in HD, HU.
    exists k'. rewrite (N1 k), (N2 k'), Ek, Ev, Ev1. cbn [negb orb].
    assert (Ek2 : (count_commits (o_log o2c) <? k')%nat = false).
    { apply Nat.ltb_ge. rewrite E2. exact Hk'. }
    rewrite Ek2. cbn [orb]. rewrite (rb_now _ _ _ Hrc).
    rewrite <- E1, <- E2 in HD, HU.
    destruct (boot_rel cfg Hexp B _ _ _ _ (now s1c) HD HU) as (W1 & W2 & W3 & W4 & W5 & W6 & W7 & W8).
    cbn [o_log o_exc o_boot_log o_valid].
    split; [exact W1|]. split; [unfold framesB; rewrite Fr1, Fr2; reflexivity|].
    split; [reflexivity|]. split; [exact W2|]. split; [reflexivity|]. split; [reflexivity|].
    split; [exact W5|]. split; [exact W6|]. split; [exact W7|]. split; [exact W8|].
    intros c' cs'. rewrite W5. discriminate.
Qed.

End SweepCrash.

(** * Part 6: histories with crashes inside ANY event

    The commit index of a crash inside a sweep differs between the two runs,
    and it is not determined by the full run's history alone in a simple way;
    so the history without the other apps is given by a relation [FX]: it is
    [filterX], except that a crash inside a sweep (or clock advance) may change
    its commit index. *)

(** the image of one event under [filterX] *)
Definition filterX1 (B : string) (s : state) (e : event) : list event :=
  match e with
  | ECrash _ b => if dropB B s (EB b) then [ERestart] else [e]
  | _ => if dropB B s e then [] else [e]
  end.

Definition FXe (B : string) (s : state) (e : event) (es : list event) : Prop :=
  match e with
  | ECrash _ (ESweep f) => exists k', es = [ECrash k' (ESweep f)]
  | ECrash _ (EAdvance dt f) => exists k', es = [ECrash k' (EAdvance dt f)]
  | _ => es = filterX1 B s e
  end.

Section WithConfigS.
Variable cfg : config.
Hypothesis Hexp : 0 < exp cfg.

Inductive FX (B : string) : state -> list event -> list event -> Prop :=
| FX_nil s : FX B s [] []
| FX_cons s e h es h2 :
    FXe B s e es -> FX B (fst (step cfg s e)) h h2 -> FX B s (e :: h) (es ++ h2).

(** no internal failure; crashes inside every kind of event are allowed *)
Fixpoint no_failure_run_xs (s : state) (h : list event) : Prop :=
  match h with
  | [] => True
  | e :: h' => no_failure_c cfg s e /\ no_failure_run_xs (fst (step cfg s e)) h'
  end.

Lemma no_failure_run_xs_of_x h : forall s, no_failure_run_x cfg s h -> no_failure_run_xs s h.
Proof.
  induction h as [|e h IH]; intros s; cbn [no_failure_run_x no_failure_run_xs]; [auto|].
  intros (_ & Hnf & Hn). auto.
Qed.

(** without crashes inside sweeps, [FX] is [filterX] *)
Lemma FX_filterX B h : forall s, Forall crash_event_x h -> FX B s h (filterX cfg B s h).
Proof.
  induction h as [|e h IH]; intros s Hh; [constructor|].
  inversion Hh as [|? ? He Hh']; subst.
  assert (E : filterX cfg B s (e :: h) = filterX1 B s e ++ filterX cfg B (fst (step cfg s e)) h).
  { cbn [filterX]. unfold filterX1. destruct e as [b|k b|].
    - destruct (dropB B s (EB b)); reflexivity.
    - destruct (dropB B s (EB b)); reflexivity.
    - destruct (dropB B s ERestart); reflexivity. }
  rewrite E. constructor; [|exact (IH _ Hh')].
  destruct e as [b|k b|]; try reflexivity. destruct b; try contradiction; reflexivity.
Qed.

Lemma run_app l : forall s l',
  run cfg s (l ++ l') =
  (fst (run cfg (fst (run cfg s l)) l'), snd (run cfg s l) ++ snd (run cfg (fst (run cfg s l)) l')).
Proof.
  induction l as [|e l IH]; intros s l'; cbn [app run fst snd].
  - destruct (run cfg s l'); reflexivity.
  - destruct (step cfg s e) as [s1 o]. rewrite IH.
    destruct (run cfg s1 l) as [s2 os]. cbn [fst snd].
    destruct (run cfg s2 l') as [s3 os']. reflexivity.
Qed.

Lemma FX_app B h : forall s h2 h' h2',
  FX B s h h2 -> FX B (fst (run cfg s h)) h' h2' -> FX B s (h ++ h') (h2 ++ h2').
Proof.
  induction h as [|e h IH]; intros s h2 h' h2' H H'.
  - inversion H; subst. exact H'.
  - inversion H as [|? ? ? es h2x He Hh]; subst. cbn [app]. rewrite <- app_assoc.
    constructor; [exact He|]. apply IH; [exact Hh|].
    cbn [run] in H'. destruct (step cfg s e) as [s1 o]. cbn [fst] in *.
    destruct (run cfg s1 h) as [s2 os]. exact H'.
Qed.

(** one event of the full run against its image in the other run *)
Lemma ni_step_xs B s1 s2 e :
  SInv s1 -> SInv s2 -> log s1 = [] -> log s2 = [] -> relB B s1 s2 -> fresh_unbound s1 ->
  no_failure_c cfg s1 e ->
  exists es, FXe B s1 e es /\
    let s1' := fst (step cfg s1 e) in
    let o1 := snd (step cfg s1 e) in
    let s2' := fst (run cfg s2 es) in
    let os := snd (run cfg s2 es) in
    SInv s1' /\ SInv s2' /\ log s1' = [] /\ log s2' = [] /\ relB B s1' s2' /\ fresh_unbound s1' /\
    framesB B (cstate cfg s1 e) (o_log o1) = flat_map (fun o => frames_of (o_log o)) os /\
    Forall (fun o => o_exc o = None) os.
Proof.
  intros H1 H2 L1 L2 Hr Hf Hnf.
  pose proof (step_spec cfg Hexp s1 e H1) as S1.
  (* a kept event that is not a crash inside a sweep *)
  assert (Kept : crash_event_x e -> dropX B s1 e = false -> filterX1 B s1 e = [e] ->
            let s1' := fst (step cfg s1 e) in
            let o1 := snd (step cfg s1 e) in
            let s2' := fst (run cfg s2 [e]) in
            let os := snd (run cfg s2 [e]) in
            SInv s1' /\ SInv s2' /\ log s1' = [] /\ log s2' = [] /\ relB B s1' s2' /\ fresh_unbound s1' /\
            framesB B (cstate cfg s1 e) (o_log o1) = flat_map (fun o => frames_of (o_log o)) os /\
            Forall (fun o => o_exc o = None) os).
  { intros Hp Ed _. cbv zeta.
    pose proof (kept_event_congruent_x cfg Hexp B s1 s2 e H1 H2 L1 L2 Hr Hf Hp Ed Hnf) as K.
    pose proof (step_spec cfg Hexp s2 e H2) as S2. cbn [run].
    destruct (step cfg s1 e) as [s1' o1]. destruct (step cfg s2 e) as [s2' o2]. cbn [fst snd flat_map].
    destruct S1 as (I1 & M1 & _). destruct S2 as (I2 & M2 & _). destruct K as (Hr' & Hfr & Hx & F1).
    rewrite app_nil_r.
    refine (conj I1 (conj I2 (conj M1 (conj M2 (conj Hr' (conj F1 (conj Hfr _))))))).
    constructor; [exact Hx|constructor]. }
  destruct e as [b|k b|].
  - (* plain event *)
    destruct (dropB B s1 (EB b)) eqn:Ed.
    + exists []. split; [cbn [FXe]; unfold filterX1; rewrite Ed; reflexivity|]. cbv zeta. cbn [run fst snd flat_map].
      pose proof (step_fresh cfg Hexp B s1 (EB b) H1 L1 Hf I Hnf) as F1.
      pose proof (dropped_event_invisible cfg Hexp B s1 s2 (EB b) H1 L1 Hf Hr I Ed Hnf) as D.
      unfold cstate. destruct (step cfg s1 (EB b)) as [s1' o1]. cbn [fst snd] in *.
      destruct S1 as (I1 & M1 & _). destruct D as [Hr' Hfr].
      refine (conj I1 (conj H2 (conj M1 (conj L2 (conj Hr' (conj F1 (conj Hfr _))))))). constructor.
    + exists [EB b].
      assert (E1 : filterX1 B s1 (EB b) = [EB b]) by (unfold filterX1; rewrite Ed; reflexivity).
      split; [exact (eq_sym E1)|]. exact (Kept I Ed E1).
  - cbn [no_failure_c] in Hnf. destruct b as [c0|c msg o|c0|fault|dt fault].
    + exists [ECrash k (EConnect c0)]. split; [reflexivity|]. exact (Kept I eq_refl eq_refl).
    + destruct (dropB B s1 (EB (ECmd c msg o))) eqn:Ed.
      * (* the process dies inside a command of another app *)
        exists [ERestart]. split; [cbn [FXe]; unfold filterX1; rewrite Ed; reflexivity|]. cbv zeta. cbn [run].
        pose proof (dropped_cmd_crash cfg Hexp B s1 s2 k c msg o H1 H2 L1 L2 Hr Hf Ed Hnf) as K.
        pose proof (step_spec cfg Hexp s2 ERestart H2) as S2.
        unfold cstate. destruct (step cfg s1 (ECrash k (ECmd c msg o))) as [s1' o1].
        destruct (step cfg s2 ERestart) as [s2' o2]. cbn [fst snd flat_map].
        destruct S1 as (I1 & M1 & _). destruct S2 as (I2 & M2 & _).
        destruct K as (Hr' & Hfr & Hx & _ & _ & _ & _ & _ & _ & _ & F1).
        rewrite app_nil_r.
      refine (conj I1 (conj I2 (conj M1 (conj M2 (conj Hr' (conj F1 (conj Hfr _))))))).
      constructor; [exact Hx|constructor].
      * exists [ECrash k (ECmd c msg o)].
        assert (E1 : filterX1 B s1 (ECrash k (ECmd c msg o)) = [ECrash k (ECmd c msg o)])
          by (unfold filterX1; rewrite Ed; reflexivity).
        split; [exact (eq_sym E1)|]. exact (Kept I Ed E1).
    + exists [ECrash k (EDisconnect c0)]. split; [reflexivity|]. exact (Kept I eq_refl eq_refl).
    + (* inside a sweep *)
      destruct (kept_sweep_crash cfg Hexp B s1 s2 k (ESweep fault) I H1 H2 L1 L2 Hr) as [k' K].
      exists [ECrash k' (ESweep fault)]. split; [exists k'; reflexivity|]. cbv zeta. cbn [run].
      pose proof (step_spec cfg Hexp s2 (ECrash k' (ESweep fault)) H2) as S2.
      unfold cstate. destruct (step cfg s1 (ECrash k (ESweep fault))) as [s1' o1].
      destruct (step cfg s2 (ECrash k' (ESweep fault))) as [s2' o2]. cbn [fst snd flat_map].
      destruct S1 as (I1 & M1 & _). destruct S2 as (I2 & M2 & _).
      destruct K as (Hr' & Hfr & Hx & _ & _ & _ & _ & _ & _ & _ & F1).
      rewrite app_nil_r.
      refine (conj I1 (conj I2 (conj M1 (conj M2 (conj Hr' (conj F1 (conj Hfr _))))))).
      constructor; [exact Hx|constructor].
    + (* inside a clock advance *)
      destruct (kept_sweep_crash cfg Hexp B s1 s2 k (EAdvance dt fault) I H1 H2 L1 L2 Hr) as [k' K].
      exists [ECrash k' (EAdvance dt fault)]. split; [exists k'; reflexivity|]. cbv zeta. cbn [run].
      pose proof (step_spec cfg Hexp s2 (ECrash k' (EAdvance dt fault)) H2) as S2.
      unfold cstate. destruct (step cfg s1 (ECrash k (EAdvance dt fault))) as [s1' o1].
      destruct (step cfg s2 (ECrash k' (EAdvance dt fault))) as [s2' o2]. cbn [fst snd flat_map].
      destruct S1 as (I1 & M1 & _). destruct S2 as (I2 & M2 & _).
      destruct K as (Hr' & Hfr & Hx & _ & _ & _ & _ & _ & _ & _ & F1).
      rewrite app_nil_r.
      refine (conj I1 (conj I2 (conj M1 (conj M2 (conj Hr' (conj F1 (conj Hfr _))))))).
      constructor; [exact Hx|constructor].
  - exists [ERestart]. split; [reflexivity|]. exact (Kept I eq_refl eq_refl).
Qed.

Lemma ni_gen_xs B h : forall s1 s2,
  SInv s1 -> SInv s2 -> log s1 = [] -> log s2 = [] -> relB B s1 s2 -> fresh_unbound s1 ->
  no_failure_run_xs s1 h ->
  exists h2, FX B s1 h h2 /\
    relB B (fst (run cfg s1 h)) (fst (run cfg s2 h2)) /\
    framesX_run cfg B s1 h = flat_map (fun o => frames_of (o_log o)) (snd (run cfg s2 h2)) /\
    Forall (fun o => o_exc o = None) (snd (run cfg s2 h2)).
Proof.
  induction h as [|e h IH]; intros s1 s2 H1 H2 L1 L2 Hr Hf Hn.
  - exists []. split; [constructor|]. cbn. auto.
  - cbn [no_failure_run_xs] in Hn. destruct Hn as (Hnf & Hn').
    destruct (ni_step_xs B s1 s2 e H1 H2 L1 L2 Hr Hf Hnf) as (es & Hes & W). cbv zeta in W.
    destruct W as (I1 & I2 & M1 & M2 & Hr' & F1 & Hfr & Hx).
    destruct (IH _ _ I1 I2 M1 M2 Hr' F1 Hn') as (h2 & HF & A1 & A2 & A3).
    exists (es ++ h2). split; [constructor; assumption|].
    rewrite run_app. cbn [fst snd framesX_run run].
    destruct (step cfg s1 e) as [s1' o1]. cbn [fst snd] in *.
    destruct (run cfg s1' h) as [u1 os1]. cbn [fst snd] in *.
    split; [exact A1|]. split.
    + rewrite flat_map_app, Hfr, A2. reflexivity.
    + apply Forall_app. split; assumption.
Qed.

(** C06 for histories in which the process may die inside any event: what is
    stored for B at the end of H, and what B's side has seen during H, is what
    it is in some history H2 that is H without the other apps' commands (a
    crash inside one of them staying as a bare restart, a crash inside a sweep
    moving to a commit of the smaller sweep) *)
Theorem noninterference_xs B t0 h :
  no_failure_run_xs (init cfg t0) h ->
  exists h2, FX B (init cfg t0) h h2 /\
    relB B (fst (run cfg (init cfg t0) h)) (fst (run cfg (init cfg t0) h2)) /\
    framesX_run cfg B (init cfg t0) h =
    flat_map (fun o => frames_of (o_log o)) (snd (run cfg (init cfg t0) h2)) /\
    Forall (fun o => o_exc o = None) (snd (run cfg (init cfg t0) h2)).
Proof.
  intros Hn. destruct (init_spec cfg Hexp t0) as [HS HL].
  destruct (relB_init cfg Hexp B t0) as [Hr Hf].
  exact (ni_gen_xs B h _ _ HS HS HL HL Hr Hf Hn).
Qed.

End WithConfigS.


(** * Non-vacuity *)

(** two apps "a" and "b".  App b claims nameplate 4, opens its mailbox and
    adds a message.  Then a client of app a claims (its own) nameplate 4 and the
    process dies right after the FIRST of the three commits of that claim (the
    nameplate is claimed, the mailbox row written, the mailbox not yet opened).
    After the restart b's client comes back and gets its message.  Later the
    process dies after the usage commit of a bind to app a, inside a connect,
    inside a disconnect of an unknown connection, and after the second commit
    of an open of b.  The no-failure condition holds; the filtered history has
    [ERestart] where the process died inside a's claim (position 7) and a's
    bind (position 12); b's rows are there before and after the first crash;
    b's side sees 17 frames. *)
Example noninterference_x_nonvacuous :
  let cfg := gen_cfg true true None in
  let o0 := mkOracle None (mkAO None []) in
  let od s := mkOracle (Some s) (mkAO None []) in
  let bind a := mkCmd (Some TBind) None (Some a) (Some "s") None None None None None None None in
  let claim := mkCmd (Some TClaim) None None None (Some "4") None None None None None None in
  let open := mkCmd (Some TOpen) None None None None (Some "ijbeeqscijbee") None None None None None in
  let add := mkCmd (Some TAdd) None None None None None (Some "ph") (Some "body") None None None in
  let h := [EB (EConnect 2); EB (ECmd 2 (bind "b") o0); EB (ECmd 2 claim (od "BBBBBBBB"));
            EB (ECmd 2 open o0); EB (ECmd 2 add o0);
            EB (EConnect 1); EB (ECmd 1 (bind "a") o0); ECrash 1 (ECmd 1 claim (od "AAAAAAAA"));
            EB (EConnect 3); EB (ECmd 3 (bind "b") o0); EB (ECmd 3 open o0);
            EB (EConnect 5); ECrash 1 (ECmd 5 (bind "a") o0);
            ECrash 1 (EConnect 4); ECrash 0 (EDisconnect 4);
            EB (EConnect 6); EB (ECmd 6 (bind "b") o0); ECrash 2 (ECmd 6 open o0)] in
  let s7 := fst (run cfg (init cfg 0) (firstn 7 h)) in
  let s8 := fst (run cfg (init cfg 0) (firstn 8 h)) in
  no_failure_run_x cfg (init cfg 0) h /\
  dropX "b" s7 (nth 7 h ERestart) = true /\
  filterX cfg "b" (init cfg 0) h =
    [EB (EConnect 2); EB (ECmd 2 (bind "b") o0); EB (ECmd 2 claim (od "BBBBBBBB"));
     EB (ECmd 2 open o0); EB (ECmd 2 add o0);
     EB (EConnect 1); ERestart;
     EB (EConnect 3); EB (ECmd 3 (bind "b") o0); EB (ECmd 3 open o0);
     EB (EConnect 5); ERestart;
     ECrash 1 (EConnect 4); ECrash 0 (EDisconnect 4);
     EB (EConnect 6); EB (ECmd 6 (bind "b") o0); ECrash 2 (ECmd 6 open o0)] /\
  nth 6 (filterX cfg "b" (init cfg 0) h) (EB (EConnect 0)) = ERestart /\
  (* b holds a nameplate and a mailbox with a message when the process dies inside a's claim ... *)
  (List.length (app_nps (chan_c s7) "b"), List.length (app_mbs (chan_c s7) "b"),
   List.length (app_msgs (chan_c s7) "b")) = (1, 1, 1)%nat /\
  (* ... and afterwards; of a's claim the nameplate and the mailbox row are on file, no mailbox side *)
  absB "b" (chan_c s8) = absB "b" (chan_c s7) /\
  (List.length (app_nps (chan_c s8) "a"), List.length (app_mbs (chan_c s8) "a"),
   List.length (app_mb_sides (chan_c s8) "a")) = (1, 1, 0)%nat /\
  map (fun o => (o_valid o, count_commits (o_log o))) (snd (run cfg (init cfg 0) h)) =
    [(true, 0); (true, 1); (true, 3); (true, 2); (true, 1); (true, 0); (true, 1); (true, 1);
     (true, 0); (true, 1); (true, 2); (true, 0); (true, 1); (true, 0); (false, 0);
     (true, 0); (true, 1); (true, 2)]%nat /\
  List.length (framesX_run cfg "b" (init cfg 0) h) = 17%nat.
Proof. vm_compute. repeat split; reflexivity. Qed.

(** the theorem applied to this history *)
Example noninterference_x_instance :
  let cfg := gen_cfg true true None in
  let o0 := mkOracle None (mkAO None []) in
  let od s := mkOracle (Some s) (mkAO None []) in
  let bind a := mkCmd (Some TBind) None (Some a) (Some "s") None None None None None None None in
  let claim := mkCmd (Some TClaim) None None None (Some "4") None None None None None None in
  let open := mkCmd (Some TOpen) None None None None (Some "ijbeeqscijbee") None None None None None in
  let add := mkCmd (Some TAdd) None None None None None (Some "ph") (Some "body") None None None in
  let h := [EB (EConnect 2); EB (ECmd 2 (bind "b") o0); EB (ECmd 2 claim (od "BBBBBBBB"));
            EB (ECmd 2 open o0); EB (ECmd 2 add o0);
            EB (EConnect 1); EB (ECmd 1 (bind "a") o0); ECrash 1 (ECmd 1 claim (od "AAAAAAAA"));
            EB (EConnect 3); EB (ECmd 3 (bind "b") o0); EB (ECmd 3 open o0);
            EB (EConnect 5); ECrash 1 (ECmd 5 (bind "a") o0);
            ECrash 1 (EConnect 4); ECrash 0 (EDisconnect 4);
            EB (EConnect 6); EB (ECmd 6 (bind "b") o0); ECrash 2 (ECmd 6 open o0)] in
  let h2 := filterX cfg "b" (init cfg 0) h in
  relB "b" (fst (run cfg (init cfg 0) h)) (fst (run cfg (init cfg 0) h2)) /\
  framesX_run cfg "b" (init cfg 0) h =
  flat_map (fun o => frames_of (o_log o)) (snd (run cfg (init cfg 0) h2)).
Proof.
  cbv zeta. apply (noninterference_x (gen_cfg true true None) (gen_cfg_exp true true None) "b" 0).
  vm_compute. repeat split; reflexivity.
Qed.

(** with [framesB_run] (frames classified by the connection table AFTER the
    event, empty after a crash) the statement is false: the ack the dying
    process had sent to the client of app a counts as seen by b's side *)
Example framesB_run_dropped_crash_refuted :
  let cfg := gen_cfg true true None in
  let o0 := mkOracle None (mkAO None []) in
  let od s := mkOracle (Some s) (mkAO None []) in
  let bind a := mkCmd (Some TBind) None (Some a) (Some "s") None None None None None None None in
  let claim := mkCmd (Some TClaim) None None None (Some "4") None None None None None None in
  let h := [EB (EConnect 1); EB (ECmd 1 (bind "a") o0); ECrash 1 (ECmd 1 claim (od "AAAAAAAA"))] in
  let h2 := filterX cfg "b" (init cfg 0) h in
  no_failure_run_x cfg (init cfg 0) h /\
  h2 = [EB (EConnect 1); ERestart] /\
  framesB_run cfg "b" (init cfg 0) h =
    (1%nat, FWelcome (mkWelcome None None None)) :: (1%nat, FAck None) :: nil /\
  flat_map (fun o => frames_of (o_log o)) (snd (run cfg (init cfg 0) h2)) =
    (1%nat, FWelcome (mkWelcome None None None)) :: nil /\
  framesX_run cfg "b" (init cfg 0) h =
    (1%nat, FWelcome (mkWelcome None None None)) :: nil.
Proof. vm_compute. repeat split; reflexivity. Qed.


(** a crash inside a timer-driven sweep.  Apps "a" and "b" each hold an old
    nameplate; the clock advances past the expiration time; the sweep prunes
    "a" (commits 1-3: touch, rows, usage) and then "b" (commits 4-6) and writes
    its statistics (commit 7); without app a it has commits 1-3 for "b" and 4.
    The process dies right after commit 5 -- b's rows are deleted, the usage
    records about them not yet committed.  That is commit 2 of the smaller
    sweep (and not commit 3: the usage records of "b" differ). *)
Definition xs_bind (a : string) : command :=
  mkCmd (Some TBind) None (Some a) (Some "s") None None None None None None None.
Definition xs_claim : command :=
  mkCmd (Some TClaim) None None None (Some "4") None None None None None None.
Definition xs_o0 : oracle := mkOracle None (mkAO None []).
Definition xs_od (s : string) : oracle := mkOracle (Some s) (mkAO None []).
Definition xs_h0 : list event :=
  [EB (EConnect 1); EB (ECmd 1 (xs_bind "a") xs_o0); EB (ECmd 1 xs_claim (xs_od "AAAAAAAA"));
   EB (EConnect 2); EB (ECmd 2 (xs_bind "b") xs_o0); EB (ECmd 2 xs_claim (xs_od "BBBBBBBB"));
   EB (EDisconnect 1); EB (EDisconnect 2)].
Definition xs_adv : bevent := EAdvance (exp (gen_cfg true true None) + 10) false.

Example noninterference_xs_nonvacuous :
  let cfg := gen_cfg true true None in
  let h := xs_h0 ++ [ECrash 5 xs_adv] in
  let h2 k' := filterX cfg "b" (init cfg 0) xs_h0 ++ [ECrash k' xs_adv] in
  let fin h := fst (run cfg (init cfg 0) h) in
  no_failure_run_xs cfg (init cfg 0) h /\
  FX cfg "b" (init cfg 0) h (h2 2%nat) /\
  count_commits (o_log (snd (step cfg (fin xs_h0) (EB xs_adv)))) = 7%nat /\
  count_commits (o_log (snd (step cfg (fin (filterX cfg "b" (init cfg 0) xs_h0)) (EB xs_adv)))) = 4%nat /\
  absB "b" (chan_c (fin (h2 2%nat))) = absB "b" (chan_c (fin h)) /\
  app_usage (usage_c (fin (h2 2%nat))) "b" = app_usage (usage_c (fin h)) "b" /\
  app_usage (usage_c (fin (h2 3%nat))) "b" <> app_usage (usage_c (fin h)) "b".
Proof.
  cbv zeta. split; [vm_compute; repeat split; reflexivity|]. split.
  { apply FX_app.
    - apply FX_filterX. unfold xs_h0. repeat constructor.
    - change [ECrash 2 xs_adv] with ([ECrash 2 xs_adv] ++ []). constructor; [|constructor].
      exists 2%nat. reflexivity. }
  vm_compute. repeat split; try reflexivity. intros H. discriminate H.
Qed.

(** * Statements and assumptions *)
Check dropped_cmd_crash.
Check kept_conn_crash.
Check kept_cmd_crash_x.
Check noninterference_x.
Check kept_sweep_crash.
Check noninterference_xs.
Print Assumptions cmd_snapshots.
Print Assumptions dropped_cmd_crash.
Print Assumptions kept_conn_crash.
Print Assumptions kept_cmd_crash_x.
Print Assumptions kept_event_congruent_x.
Print Assumptions noninterference_x.
Print Assumptions noninterference_x_no_failure.
Print Assumptions framesX_run_rc.
Print Assumptions noninterference_rc_from_x.
Print Assumptions noninterference_x_nonvacuous.
Print Assumptions noninterference_x_instance.
Print Assumptions framesB_run_dropped_crash_refuted.
Print Assumptions kept_sweep_crash.
Print Assumptions noninterference_xs.
Print Assumptions FX_filterX.
Print Assumptions noninterference_xs_nonvacuous.
