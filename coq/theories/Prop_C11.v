(** Prop_C11.v -- C11: restarting the server is invisible to reconnecting
    clients.  Statements quoted by type from ViewFacts.v (printed by [Check]). *)
From MW Require Import Base Store Monad Usage Server Websocket Service Findings Inv Obs
     StepFacts ViewFacts Inst_Params RestartFacts.
Local Open Scope list_scope.

(** a restart (in any well-formed state, i.e. at any point of any history) leaves
    exactly the channel-relevant state that dropping every connection and running
    one sweep leaves on a server that keeps running: the server has no other
    behaviour-relevant memory *)
Theorem C11_restart_as_drop_and_sweep : ltac:(let t := type of restart_as_drop_and_sweep in exact t).
Proof. exact restart_as_drop_and_sweep. Qed.
Check C11_restart_as_drop_and_sweep.
Print Assumptions C11_restart_as_drop_and_sweep.
(** hence every continuation -- any commands of any reconnecting clients, sweeps
    before, between and after -- in which the sweeps fire at the same instants
    sees the same answers, the same internal failures, and reaches the same
    stored state in both runs *)
Theorem C11_restart_invisible : ltac:(let t := type of restart_invisible in exact t).
Proof. exact restart_invisible. Qed.
Check C11_restart_invisible.
Print Assumptions C11_restart_invisible.
(** the underlying fact: behaviour is a function of the channel-relevant part of
    the state (not of boot time, timer phase, usage database) *)
Theorem C11_step_congruence : ltac:(let t := type of step_view_congruence in exact t).
Proof. exact step_view_congruence. Qed.
Check C11_step_congruence.
Print Assumptions C11_step_congruence.

(** ** the precise relation between a restart and a server that merely lost its connections (RestartFacts.v)

    [restart_vs_kept_exact]: the restarted server's channel-relevant view equals that of the kept server after
    one sweep at the same instant; it equals the kept server's view OUTRIGHT iff nothing is expirable at that
    instant ([nothing_expirable]); in general the two differ exactly by the mailboxes (with messages, side
    records, nameplates) that are old at the restart instant: the start-up sweep anticipates what the kept
    server's next periodic sweep would delete -- observably so only for a client that comes back to such a
    mailbox before that sweep ([expired_reopen_visible] is the witness; it is the expiry granularity, not a loss
    of state).  [restart_invisible_r]: the continuation may contain further restarts and [ECrash 0]; the
    same-firing hypothesis is needed only for the clock advances before the first of them (afterwards the two
    runs' timers coincide).  [restart_invisible_from_init]: closed form over every history before the restart,
    crashes included.  [restart_invisible_kept]: against the kept server with NO sweep inserted, when nothing is
    expirable. *)
Theorem C11_restart_vs_kept_exact : ltac:(let t := type of restart_vs_kept_exact in exact t).
Proof. exact restart_vs_kept_exact. Qed.
Check C11_restart_vs_kept_exact.
Print Assumptions C11_restart_vs_kept_exact.

Theorem C11_restart_invisible_r : ltac:(let t := type of restart_invisible_r in exact t).
Proof. exact restart_invisible_r. Qed.
Check C11_restart_invisible_r.
Print Assumptions C11_restart_invisible_r.

Theorem C11_restart_invisible_kept : ltac:(let t := type of restart_invisible_kept in exact t).
Proof. exact restart_invisible_kept. Qed.
Check C11_restart_invisible_kept.
Print Assumptions C11_restart_invisible_kept.

Theorem C11_restart_invisible_from_init : ltac:(let t := type of restart_invisible_from_init in exact t).
Proof. exact restart_invisible_from_init. Qed.
Check C11_restart_invisible_from_init.
Print Assumptions C11_restart_invisible_from_init.

Theorem C11_kept_next_sweep : ltac:(let t := type of kept_next_sweep in exact t).
Proof. exact kept_next_sweep. Qed.
Print Assumptions C11_kept_next_sweep.

Example C11_restart_nonvacuous : ltac:(let t := type of restart_nonvacuous in exact t).
Proof. exact restart_nonvacuous. Qed.

Example C11_restart_kept_nonvacuous : ltac:(let t := type of restart_kept_nonvacuous in exact t).
Proof. exact restart_kept_nonvacuous. Qed.

Example C11_expired_reopen_visible : ltac:(let t := type of expired_reopen_visible in exact t).
Proof. exact expired_reopen_visible. Qed.


Example C11_nonvacuous : 0 < exp (gen_cfg true true None).
Proof. exact (gen_cfg_exp _ _ _). Qed.
