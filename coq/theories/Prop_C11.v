(** Prop_C11.v -- C11: restarting the server is invisible to reconnecting
    clients.  Statements quoted by type from ViewFacts.v (printed by [Check]). *)
From MW Require Import Base Store Monad Usage Server Websocket Service Findings Inv Obs
     StepFacts ViewFacts Inst_Params.
Local Open Scope list_scope.

(** a restart (in any well-formed state, i.e. at any point of any history) leaves
    exactly the channel-relevant state that dropping every connection and running
    one sweep leaves on a server that keeps running: the server has no other
    behaviour-relevant memory *)
Theorem C11_restart_as_drop_and_sweep : ltac:(let t := type of restart_as_drop_and_sweep in exact t).
Proof. exact restart_as_drop_and_sweep. Qed.
Check C11_restart_as_drop_and_sweep.
Print Assumptions C11_restart_as_drop_and_sweep.
(** hence every continuation -- any commands of any reconnecting clients, sweeps
    before, between and after -- in which the sweeps fire at the same instants
    sees the same answers, the same internal failures, and reaches the same
    stored state in both runs *)
Theorem C11_restart_invisible : ltac:(let t := type of restart_invisible in exact t).
Proof. exact restart_invisible. Qed.
Check C11_restart_invisible.
Print Assumptions C11_restart_invisible.
(** the underlying fact: behaviour is a function of the channel-relevant part of
    the state (not of boot time, timer phase, usage database) *)
Theorem C11_step_congruence : ltac:(let t := type of step_view_congruence in exact t).
Proof. exact step_view_congruence. Qed.
Check C11_step_congruence.
Print Assumptions C11_step_congruence.

Example C11_nonvacuous : 0 < exp (gen_cfg true true None).
Proof. exact (gen_cfg_exp _ _ _). Qed.
