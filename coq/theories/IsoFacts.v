(** IsoFacts.v -- C06, step isolation: a command on a connection bound to app
    A reads and changes nothing that belongs to another app B, and sends
    nothing to B's connections. *)
From MW Require Import Base Store Monad Usage Server Websocket Service Findings
     Inv StoreFacts Hoare DbFactsA DbFactsB OpFacts ProtoFacts Obs StepFacts.
From MW Require MbFactsA MbFactsB.
Local Open Scope list_scope.

(** everything stored for app B: its nameplates and their side rows, its
    mailboxes and their side rows, its messages (each in rowid order) *)
Definition app_nps (d : chan_db) (B : string) : list np_row :=
  filter (fun n => seqb (np_app n) B) (nameplates d).
Definition app_np_sides (d : chan_db) (B : string) : list nps_row :=
  filter (fun x => existsb (fun n => (np_id n =? nps_npid x) && seqb (np_app n) B) (nameplates d))
         (np_sides d).
Definition app_mbs (d : chan_db) (B : string) : list mb_row :=
  filter (fun r => seqb (mb_app r) B) (mailboxes d).
Definition app_mb_sides (d : chan_db) (B : string) : list mbs_row :=
  filter (fun x => existsb (fun r => seqb (mb_id r) (mbs_mbox x) && seqb (mb_app r) B) (mailboxes d))
         (mb_sides d).
Definition app_msgs (d : chan_db) (B : string) : list msg_row :=
  filter (fun x => seqb (msg_app x) B) (messages d).

Definition app_view (d : chan_db) (B : string) :=
  (app_nps d B, app_np_sides d B, app_mbs d B, app_mb_sides d B, app_msgs d B).

(** usage records of app B *)
Definition app_usage (u : usage_db) (B : string) :=
  (filter (fun r => seqb (unp_app r) B) (u_nameplates u),
   filter (fun r => seqb (umb_app r) B) (u_mailboxes u),
   filter (fun r => seqb (ucv_app r) B) (u_versions u)).

(** * List helpers *)

Lemma filter_snoc_out {X} (p : X -> bool) l x : p x = false -> filter p (l ++ [x]) = filter p l.
Proof. intros H. rewrite filter_app. cbn [filter]. rewrite H. apply app_nil_r. Qed.

Lemma existsb_snoc_out {X} (g : X -> bool) l x : g x = false -> existsb g (l ++ [x]) = existsb g l.
Proof. intros H. rewrite existsb_app. cbn [existsb]. rewrite H, !orb_false_r. reflexivity. Qed.

Lemma filter_filter_keep {X} (p q : X -> bool) l :
  (forall x, In x l -> p x = true -> q x = true) -> filter p (filter q l) = filter p l.
Proof.
  induction l as [|y l IH]; intros H; cbn [filter]; [reflexivity|].
  assert (IH' : filter p (filter q l) = filter p l).
  { apply IH. intros x Hx. apply H. right. exact Hx. }
  destruct (q y) eqn:Eq.
  - cbn [filter]. rewrite IH'. reflexivity.
  - destruct (p y) eqn:Ep; [|exact IH'].
    rewrite (H y (or_introl eq_refl) Ep) in Eq. discriminate.
Qed.

Lemma existsb_filter_keep {X} (g q : X -> bool) l :
  (forall x, In x l -> g x = true -> q x = true) -> existsb g (filter q l) = existsb g l.
Proof.
  induction l as [|y l IH]; intros H; cbn [filter existsb]; [reflexivity|].
  assert (IH' : existsb g (filter q l) = existsb g l).
  { apply IH. intros x Hx. apply H. right. exact Hx. }
  destruct (q y) eqn:Eq.
  - cbn [existsb]. rewrite IH'. reflexivity.
  - destruct (g y) eqn:Eg; [|exact IH'].
    rewrite (H y (or_introl eq_refl) Eg) in Eq. discriminate.
Qed.

Lemma filter_map_keep {X} (p : X -> bool) (f : X -> X) l :
  (forall x, In x l -> p (f x) = p x) -> (forall x, In x l -> p x = true -> f x = x) ->
  filter p (map f l) = filter p l.
Proof.
  induction l as [|y l IH]; intros H1 H2; cbn [filter map]; [reflexivity|].
  rewrite (H1 y (or_introl eq_refl)).
  rewrite IH; [|intros x Hx; apply H1; right; exact Hx|intros x Hx; apply H2; right; exact Hx].
  destruct (p y) eqn:Ep; [|reflexivity].
  rewrite (H2 y (or_introl eq_refl) Ep). reflexivity.
Qed.

Lemma existsb_map_same {X} (g : X -> bool) (f : X -> X) l :
  (forall x, g (f x) = g x) -> existsb g (map f l) = existsb g l.
Proof.
  intros H. induction l as [|y l IH]; cbn [existsb map]; [reflexivity|].
  rewrite H, IH. reflexivity.
Qed.

(** * Channel database: what a transaction body of app A leaves of app B *)
Section Iso.
Variables A B : string.
Hypothesis HAB : B <> A.

Definition iso (d d' : chan_db) : Prop := app_view d' B = app_view d B.

Lemma iso_refl d : iso d d.
Proof. reflexivity. Qed.

Lemma iso_trans d1 d2 d3 : iso d1 d2 -> iso d2 d3 -> iso d1 d3.
Proof. unfold iso. intros H1 H2. rewrite H2. exact H1. Qed.

Local Notation npB nl := (fun x => existsb (fun n => (np_id n =? nps_npid x) && seqb (np_app n) B) nl).
Local Notation mbB ml := (fun x => existsb (fun r => seqb (mb_id r) (mbs_mbox x) && seqb (mb_app r) B) ml).

Lemma iso_intro d d' :
  filter (fun n => seqb (np_app n) B) (nameplates d') =
    filter (fun n => seqb (np_app n) B) (nameplates d) ->
  (forall x, npB (nameplates d') x = npB (nameplates d) x) ->
  filter (npB (nameplates d)) (np_sides d') = filter (npB (nameplates d)) (np_sides d) ->
  filter (fun r => seqb (mb_app r) B) (mailboxes d') =
    filter (fun r => seqb (mb_app r) B) (mailboxes d) ->
  (forall x, mbB (mailboxes d') x = mbB (mailboxes d) x) ->
  filter (mbB (mailboxes d)) (mb_sides d') = filter (mbB (mailboxes d)) (mb_sides d) ->
  filter (fun x => seqb (msg_app x) B) (messages d') =
    filter (fun x => seqb (msg_app x) B) (messages d) ->
  iso d d'.
Proof.
  intros H1 H2 H3 H4 H5 H6 H7.
  unfold iso, app_view, app_nps, app_np_sides, app_mbs, app_mb_sides, app_msgs.
  rewrite H1, H4, H7.
  rewrite (filter_ext _ _ H2), H3. rewrite (filter_ext _ _ H5), H6. reflexivity.
Qed.

(** no mailbox of B carries id [m] / no nameplate of B carries id [i] *)
Definition mfree (d : chan_db) (m : string) : Prop :=
  forall r, In r (mailboxes d) -> mb_app r = B -> mb_id r <> m.
Definition nfree (d : chan_db) (i : Z) : Prop :=
  forall n, In n (nameplates d) -> np_app n = B -> np_id n <> i.

Lemma mfree_of d m : DbInv d -> has_mb d A m -> mfree d m.
Proof.
  intros Hinv Hmb r Hr Ha Hm. apply HAB.
  apply (has_mb_app_unique d A B m Hinv Hmb). exists r. auto.
Qed.

Lemma nfree_of d n :
  NoDup (map np_id (nameplates d)) -> In n (nameplates d) -> np_app n = A -> nfree d (np_id n).
Proof.
  intros Hnd Hn Ha n' Hn' Hb Hid. apply HAB.
  assert (n' = n) by (apply (NoDup_map_inj np_id (nameplates d)); assumption).
  subst n'. congruence.
Qed.

Lemma mbB_true d x :
  mbB (mailboxes d) x = true -> exists r, In r (mailboxes d) /\ mb_id r = mbs_mbox x /\ mb_app r = B.
Proof.
  intros H. apply existsb_exists in H. destruct H as [r [Hr H]].
  apply andb_true_iff in H. destruct H as [H1 H2]. apply seqb_eq in H1. apply seqb_eq in H2. eauto.
Qed.

Lemma npB_true d x :
  npB (nameplates d) x = true -> exists n, In n (nameplates d) /\ np_id n = nps_npid x /\ np_app n = B.
Proof.
  intros H. apply existsb_exists in H. destruct H as [n [Hn H]].
  apply andb_true_iff in H. destruct H as [H1 H2]. apply Z.eqb_eq in H1. apply seqb_eq in H2. eauto.
Qed.

Lemma mbB_ne d m x : mfree d m -> mbB (mailboxes d) x = true -> mbs_mbox x <> m.
Proof.
  intros Hf H. apply mbB_true in H. destruct H as [r [Hr [Hi Ha]]].
  rewrite <- Hi. apply Hf; assumption.
Qed.

Lemma npB_ne d i x : nfree d i -> npB (nameplates d) x = true -> nps_npid x <> i.
Proof.
  intros Hf H. apply npB_true in H. destruct H as [n [Hn [Hi Ha]]].
  rewrite <- Hi. apply Hf; assumption.
Qed.

Lemma mbB_false d m x : mfree d m -> mbs_mbox x = m -> mbB (mailboxes d) x = false.
Proof.
  intros Hf Hx. destruct (mbB (mailboxes d) x) eqn:E; [|reflexivity].
  exfalso. exact (mbB_ne d m x Hf E Hx).
Qed.

Lemma npB_false d i x : nfree d i -> nps_npid x = i -> npB (nameplates d) x = false.
Proof.
  intros Hf Hx. destruct (npB (nameplates d) x) eqn:E; [|reflexivity].
  exfalso. exact (npB_ne d i x Hf E Hx).
Qed.

Lemma seqb_AB : seqb A B = false.
Proof. apply seqb_neq. intros H. apply HAB. symmetry. exact H. Qed.

(** ** inserts *)

Lemma iso_ins_mb d r d' : ins_mb d r = Some d' -> mb_app r = A -> iso d d'.
Proof.
  unfold ins_mb. destruct (mb_exists d (mb_id r)); [discriminate|].
  intros H Ha. inversion H; subst d'; clear H.
  apply iso_intro; cbn [set_mailboxes nameplates np_sides mailboxes mb_sides messages];
    try reflexivity.
  - apply filter_snoc_out. rewrite Ha. exact seqb_AB.
  - intros x. apply existsb_snoc_out. rewrite Ha, seqb_AB. apply andb_false_r.
Qed.

Lemma iso_add_mailbox d m f w d' : add_mailbox d A m f w = Some d' -> iso d d'.
Proof.
  unfold add_mailbox. destruct (sel_mb d A m).
  - intros H; inversion H. apply iso_refl.
  - intros H. apply (iso_ins_mb _ _ _ H). reflexivity.
Qed.

Lemma iso_upd_touch d m w : mfree d m -> iso d (upd_touch d m w).
Proof.
  intros Hf. unfold upd_touch.
  apply iso_intro; cbn [set_mailboxes nameplates np_sides mailboxes mb_sides messages];
    try reflexivity.
  - apply filter_map_keep.
    + intros x _. destruct (seqb (mb_id x) m); reflexivity.
    + intros x Hx Hb. destruct (seqb (mb_id x) m) eqn:E; [|reflexivity].
      exfalso. apply seqb_eq in E. apply seqb_eq in Hb. exact (Hf x Hx Hb E).
  - intros x. apply existsb_map_same. intros r. destruct (seqb (mb_id r) m); reflexivity.
Qed.

Lemma iso_ins_mbs d r d' : ins_mbs d r = Some d' -> mfree d (mbs_mbox r) -> iso d d'.
Proof.
  unfold ins_mbs. destruct (mb_exists d (mbs_mbox r)); [|discriminate].
  intros H Hf. inversion H; subst d'; clear H.
  apply iso_intro; cbn [set_mb_sides nameplates np_sides mailboxes mb_sides messages];
    try reflexivity.
  apply filter_snoc_out. apply (mbB_false d (mbs_mbox r)); [exact Hf|reflexivity].
Qed.

Lemma iso_mailbox_open_body d m side w d' :
  mailbox_open_body d m side w = Some d' -> mfree d m -> iso d d'.
Proof.
  unfold mailbox_open_body. intros H Hf. destruct (sel_mbs d m side).
  - inversion H. apply iso_upd_touch. exact Hf.
  - destruct (ins_mbs d (mkMbs m true side w None)) as [d1|] eqn:E; [|discriminate].
    inversion H; subst d'; clear H.
    apply (iso_trans d d1).
    + apply (iso_ins_mbs _ _ _ E). exact Hf.
    + apply iso_upd_touch. unfold ins_mbs in E.
      destruct (mb_exists d _); [|discriminate]. inversion E. exact Hf.
Qed.

Lemma tx_open_body d m side w :
  DbInv d ->
  match open_body d A m side w with
  | TxOk _ d' => True /\ DbInv d' /\ iso d d'
  | TxFail _ d' => DbInv d' /\ iso d d'
  end.
Proof.
  intros Hinv. pose proof (open_body_ok d A m side w Hinv) as Hok.
  unfold open_body in *.
  pose proof (add_mailbox_ok d A m false w Hinv) as Hadd.
  destruct (add_mailbox d A m false w) as [d1|] eqn:E1.
  - destruct Hadd as [Hinv1 [Hmb1 _]].
    destruct (mailbox_open_body d1 m side w) as [d2|] eqn:E2.
    + split; [exact I|]. split; [apply Hok|].
      apply (iso_trans d d1); [exact (iso_add_mailbox _ _ _ _ _ E1)|].
      apply (iso_mailbox_open_body _ _ _ _ _ E2). apply mfree_of; assumption.
    + split; [exact Hinv1|exact (iso_add_mailbox _ _ _ _ _ E1)].
  - split; [exact Hinv|apply iso_refl].
Qed.

Lemma iso_ins_np d n m d' i : ins_np d A n m = Some (d', i) -> iso d d'.
Proof.
  unfold ins_np. destruct (mb_exists d m); [|discriminate].
  intros H. inversion H; subst d' i; clear H.
  apply iso_intro; cbn [nameplates np_sides mailboxes mb_sides messages]; try reflexivity.
  - apply filter_snoc_out. cbn [np_app]. exact seqb_AB.
  - intros x. apply existsb_snoc_out. cbn [np_app]. rewrite seqb_AB. apply andb_false_r.
Qed.

Lemma iso_ins_nps d r d' : ins_nps d r = Some d' -> nfree d (nps_npid r) -> iso d d'.
Proof.
  unfold ins_nps. destruct (np_exists d (nps_npid r)); [|discriminate].
  intros H Hf. inversion H; subst d'; clear H.
  apply iso_intro; cbn [set_np_sides nameplates np_sides mailboxes mb_sides messages];
    try reflexivity.
  apply filter_snoc_out. apply (npB_false d (nps_npid r)); [exact Hf|reflexivity].
Qed.

Lemma iso_claim_side d i mbox side w :
  nfree d i ->
  match claim_side_body d i mbox side w with
  | TxOk _ d' => iso d d'
  | TxFail _ d' => iso d d'
  end.
Proof.
  intros Hf. unfold claim_side_body. destruct (sel_nps d i side) as [r|].
  - destruct (nps_claimed r); apply iso_refl.
  - destruct (ins_nps d (mkNps i true side w)) as [d1|] eqn:E; [|apply iso_refl].
    apply (iso_ins_nps _ _ _ E). exact Hf.
Qed.

Lemma tx_claim_body d name side w draw :
  DbInv d ->
  match claim_body d A name side w draw with
  | TxOk _ d' => True /\ DbInv d' /\ iso d d'
  | TxFail _ d' => DbInv d' /\ iso d d'
  end.
Proof.
  intros Hinv. pose proof (claim_body_ok d A name side w draw Hinv) as Hok.
  assert (Hiso : match claim_body d A name side w draw with
                 | TxOk _ d' => iso d d' | TxFail _ d' => iso d d' end).
  { unfold claim_body. destruct (sel_np d A name) as [row|] eqn:Enp.
    - apply sel_np_some in Enp. destruct Enp as [Hin [Ha _]].
      apply iso_claim_side. apply nfree_of; [apply (inv_np_id d Hinv)|exact Hin|exact Ha].
    - destruct draw as [bytes|]; [|apply iso_refl]. cbv zeta.
      pose proof (add_mailbox_ok d A (genid bytes) true w Hinv) as Hadd.
      destruct (add_mailbox d A (genid bytes) true w) as [d1|] eqn:E1; [|apply iso_refl].
      destruct Hadd as [Hinv1 _]. pose proof (iso_add_mailbox _ _ _ _ _ E1) as I1.
      destruct (ins_np d1 A name (genid bytes)) as [[d2 i]|] eqn:E2; [|exact I1].
      pose proof (iso_ins_np _ _ _ _ _ E2) as I2.
      assert (Hf : nfree d2 i).
      { unfold ins_np in E2. destruct (mb_exists d1 (genid bytes)); [|discriminate].
        inversion E2; subst d2 i; clear E2. intros n Hn Hb. cbn [nameplates] in Hn.
        apply in_app_or in Hn. destruct Hn as [Hn|[<-|[]]].
        - pose proof (inv_np_seq d1 Hinv1 n Hn). lia.
        - cbn [np_app] in Hb. exfalso. apply HAB. symmetry. exact Hb. }
      pose proof (iso_claim_side d2 i (genid bytes) side w Hf) as I3.
      destruct (claim_side_body d2 i (genid bytes) side w);
        (apply (iso_trans d d1); [exact I1|]; apply (iso_trans d1 d2); [exact I2|exact I3]). }
  destruct (claim_body d A name side w draw) as [[npid mbox] d'|e d'].
  - split; [exact I|]. split; [apply Hok|exact Hiso].
  - destruct Hok as [-> _]. split; [exact Hinv|apply iso_refl].
Qed.

(** ** updates *)

Lemma iso_upd_mbs_close d m side mood : mfree d m -> iso d (upd_mbs_close d m side mood).
Proof.
  intros Hf. unfold upd_mbs_close.
  apply iso_intro; cbn [set_mb_sides nameplates np_sides mailboxes mb_sides messages];
    try reflexivity.
  apply filter_map_keep.
  - intros x _. destruct (seqb (mbs_mbox x) m && seqb (mbs_side x) side); reflexivity.
  - intros x _ Hb. destruct (seqb (mbs_mbox x) m) eqn:E; [|reflexivity].
    exfalso. apply seqb_eq in E. exact (mbB_ne d m x Hf Hb E).
Qed.

Lemma iso_close_mark d m side mood f d' :
  DbInv d -> close_mark_body d A m side mood = Some (f, d') -> iso d d'.
Proof.
  intros Hinv. unfold close_mark_body.
  destruct (sel_mb d A m) as [row|] eqn:E1; [|discriminate].
  destruct (sel_mbs d m side); [|discriminate].
  intros H; inversion H; subst. apply iso_upd_mbs_close. apply mfree_of; [exact Hinv|].
  apply has_mb_sel. eauto.
Qed.

Lemma iso_upd_nps_release d i side : nfree d i -> iso d (upd_nps_release d i side).
Proof.
  intros Hf. unfold upd_nps_release.
  apply iso_intro; cbn [set_np_sides nameplates np_sides mailboxes mb_sides messages];
    try reflexivity.
  apply filter_map_keep.
  - intros x _. destruct ((nps_npid x =? i) && seqb (nps_side x) side); reflexivity.
  - intros x _ Hb. destruct (nps_npid x =? i) eqn:E; [|reflexivity].
    exfalso. apply Z.eqb_eq in E. exact (npB_ne d i x Hf Hb E).
Qed.

Lemma iso_release_mark d name side i d' :
  DbInv d -> release_mark_body d A name side = Some (i, d') -> iso d d' /\ nfree d' i.
Proof.
  intros Hinv. unfold release_mark_body.
  destruct (sel_np d A name) as [np|] eqn:E1; [|discriminate].
  destruct (sel_nps d (np_id np) side); [|discriminate].
  intros H; inversion H; subst; clear H.
  apply sel_np_some in E1. destruct E1 as [Hin [Ha _]].
  assert (Hf : nfree d (np_id np)) by (apply nfree_of; [apply (inv_np_id d Hinv)|exact Hin|exact Ha]).
  split; [apply iso_upd_nps_release; exact Hf|exact Hf].
Qed.

(** ** deletes *)

Lemma iso_rm_np d i : nfree d i -> iso d (rm_np d i).
Proof.
  intros Hf. unfold rm_np.
  apply iso_intro; cbn [nameplates np_sides mailboxes mb_sides messages]; try reflexivity.
  - apply filter_filter_keep. intros n Hn Hb. apply seqb_eq in Hb.
    apply negb_true_iff, Z.eqb_neq. exact (Hf n Hn Hb).
  - intros x. apply existsb_filter_keep. intros n Hn Hb.
    apply andb_true_iff in Hb. destruct Hb as [_ Hb]. apply seqb_eq in Hb.
    apply negb_true_iff, Z.eqb_neq. exact (Hf n Hn Hb).
  - apply filter_filter_keep. intros x _ Hb.
    apply negb_true_iff, Z.eqb_neq. exact (npB_ne d i x Hf Hb).
Qed.

(** no nameplate of B points at a mailbox of A *)
Lemma np_of_B_elsewhere d h n :
  DbInv d -> has_mb d A h -> In n (nameplates d) -> np_app n = B -> np_mbox n <> h.
Proof.
  intros Hinv Hmb Hn Hb Hm. apply HAB.
  apply (has_mb_app_unique d A B h Hinv Hmb). rewrite <- Hb, <- Hm.
  apply (inv_fk_np d Hinv). exact Hn.
Qed.

Lemma iso_close_del_db d h : DbInv d -> has_mb d A h -> iso d (MbFactsB.close_del_db d h).
Proof.
  intros Hinv Hmb. unfold MbFactsB.close_del_db.
  destruct (existsb mbs_opened (sel_mbs_all d h)); [apply iso_refl|].
  pose proof (mfree_of d h Hinv Hmb) as Hf.
  apply iso_intro; cbn [nameplates np_sides mailboxes mb_sides messages].
  - apply filter_filter_keep. intros n Hn Hb. apply seqb_eq in Hb.
    apply negb_true_iff, seqb_neq. exact (np_of_B_elsewhere d h n Hinv Hmb Hn Hb).
  - intros x. apply existsb_filter_keep. intros n Hn Hb.
    apply andb_true_iff in Hb. destruct Hb as [_ Hb]. apply seqb_eq in Hb.
    apply negb_true_iff, seqb_neq. exact (np_of_B_elsewhere d h n Hinv Hmb Hn Hb).
  - apply filter_filter_keep. intros x _ Hb. apply negb_true_iff.
    apply existsb_false_iff. intros n Hn.
    destruct (np_id n =? nps_npid x) eqn:Ei; [|reflexivity]. cbn [andb].
    apply Z.eqb_eq in Ei. apply seqb_neq.
    apply npB_true in Hb. destruct Hb as [n' [Hn' [Hi' Hb']]].
    assert (n' = n).
    { apply (NoDup_map_inj np_id (nameplates d)); [apply (inv_np_id d Hinv)|exact Hn'|exact Hn|congruence]. }
    subst n'. exact (np_of_B_elsewhere d h n Hinv Hmb Hn Hb').
  - apply filter_filter_keep. intros r Hr Hb. apply seqb_eq in Hb.
    apply negb_true_iff, seqb_neq. exact (Hf r Hr Hb).
  - intros x. apply existsb_filter_keep. intros r Hr Hb.
    apply andb_true_iff in Hb. destruct Hb as [_ Hb]. apply seqb_eq in Hb.
    apply negb_true_iff, seqb_neq. exact (Hf r Hr Hb).
  - apply filter_filter_keep. intros x _ Hb.
    apply negb_true_iff, seqb_neq. exact (mbB_ne d h x Hf Hb).
  - apply filter_filter_keep. intros x Hx Hb. apply seqb_eq in Hb.
    apply negb_true_iff, seqb_neq. intros Hm. apply HAB.
    apply (has_mb_app_unique d A B h Hinv Hmb). rewrite <- Hb, <- Hm.
    apply (inv_msg d Hinv). exact Hx.
Qed.

Lemma tx_add_msg d m r :
  DbInv d -> has_mb d A m -> msg_app r = A -> msg_mbox r = m ->
  DbInv (upd_touch (ins_msg d r) m (msg_rx r)) /\ iso d (upd_touch (ins_msg d r) m (msg_rx r)).
Proof.
  intros Hinv Hmb Ha Hm. subst m. split.
  - apply add_msg_ok; [exact Hinv|]. rewrite Ha. exact Hmb.
  - apply (iso_trans d (ins_msg d r)).
    + unfold ins_msg. apply iso_intro;
        cbn [set_messages nameplates np_sides mailboxes mb_sides messages]; try reflexivity.
      apply filter_snoc_out. rewrite Ha. exact seqb_AB.
    + apply iso_upd_touch. exact (mfree_of d (msg_mbox r) Hinv Hmb).
Qed.

(** * Usage rows written by app A *)
Section Usage.
Variable cfg : config.

Definition Pnp := Forall (fun r => unp_app r = A).
Definition Pmb := Forall (fun r => umb_app r = A).

Lemma summ_np_app b rows dt pr u : summarize_nameplate b A rows dt pr = Some u -> unp_app u = A.
Proof.
  unfold summarize_nameplate. cbv zeta.
  destruct (zsort (map nps_added rows)) as [|t0 rest]; [discriminate|].
  intros H. inversion H. reflexivity.
Qed.

Lemma del_nameplates_app w pruned ids : forall d acc, Pnp acc ->
  match del_nameplates_body cfg d A ids w pruned acc with
  | TxOk r _ => Pnp r
  | TxFail _ _ => True
  end.
Proof.
  induction ids as [|npid rest IH]; intros d acc Hacc; cbn [del_nameplates_body]; cbv zeta.
  - exact Hacc.
  - destruct (del_np (del_nps_of d npid) npid) as [d2|]; [|exact I].
    destruct (usage_on cfg).
    + destruct (summarize_nameplate (blur cfg) A (sel_nps_all d npid) w pruned) as [u|] eqn:E;
        [|exact I].
      apply IH. apply Forall_app. split; [exact Hacc|].
      constructor; [|constructor]. eapply summ_np_app; exact E.
    + apply IH; exact Hacc.
Qed.

Definition Prel (r : option (list u_np_row)) : Prop :=
  match r with None => True | Some unps => Pnp unps end.

Definition Pclose (r : option (list u_np_row * list u_mb_row)) : Prop :=
  match r with None => True | Some (unps, umbs) => Pnp unps /\ Pmb umbs end.

Lemma tx_release_delete d i w :
  DbInv d -> nfree d i ->
  match release_delete_body cfg d A i w with
  | TxOk r d' => Prel r /\ DbInv d' /\ iso d d'
  | TxFail _ d' => DbInv d' /\ iso d d'
  end.
Proof.
  intros Hinv Hf. unfold release_delete_body. cbv zeta.
  destruct (existsb nps_claimed (sel_nps_all d i)).
  - split; [exact I|]. split; [exact Hinv|apply iso_refl].
  - rewrite del_np_rm.
    pose proof (rm_np_inv d i Hinv) as Hinv'. pose proof (iso_rm_np d i Hf) as Hiso.
    destruct (usage_on cfg).
    + destruct (summarize_nameplate (blur cfg) A (sel_nps_all d i) w false) as [u|] eqn:E.
      * split; [|split; assumption]. cbn [Prel]. constructor; [|constructor].
        eapply summ_np_app; exact E.
      * split; assumption.
    + split; [|split; assumption]. cbn [Prel]. constructor.
Qed.

Lemma close_delete_app d h fornp w :
  match close_delete_body cfg d A h fornp w with
  | TxOk r _ => Pclose r
  | TxFail _ _ => True
  end.
Proof.
  unfold close_delete_body. cbv zeta.
  destruct (existsb mbs_opened (sel_mbs_all d h)); [exact I|].
  pose proof (del_nameplates_app w false (map np_id (sel_np_by_mbox d h)) d []
                (Forall_nil _)) as H1.
  destruct (del_nameplates_body cfg d A (map np_id (sel_np_by_mbox d h)) w false [])
    as [unps d1|]; [|exact I].
  unfold del_mailbox_body. cbv zeta.
  destruct (del_mb (del_mbs_of (del_msgs_of d1 h) h) h); [|exact I].
  cbn [Pclose]. split; [exact H1|].
  destruct (usage_on cfg); [|constructor]. constructor; [reflexivity|constructor].
Qed.

Lemma tx_close_delete d h fornp w :
  DbInv d -> has_mb d A h ->
  match close_delete_body cfg d A h fornp w with
  | TxOk r d' => Pclose r /\ DbInv d' /\ iso d d'
  | TxFail _ d' => DbInv d' /\ iso d d'
  end.
Proof.
  intros Hinv Hmb.
  destruct (MbFactsB.close_delete_body_exact cfg d A h fornp w Hinv) as [r [E _]].
  destruct (close_delete_body_ok cfg d A h fornp w Hinv) as [r' [d' [E' [Hinv' _]]]].
  pose proof (close_delete_app d h fornp w) as Happ.
  rewrite E in *. inversion E'; subst r' d'.
  split; [exact Happ|]. split; [exact Hinv'|]. apply iso_close_del_db; assumption.
Qed.

Lemma fold_np_usage unps : forall u,
  Pnp unps -> app_usage (fold_left uins_np unps u) B = app_usage u B.
Proof.
  induction unps as [|r l IH]; intros u Hf; cbn [fold_left]; [reflexivity|].
  inversion Hf as [|r' l' Hr Hl]; subst. rewrite (IH _ Hl).
  unfold app_usage, uins_np. cbn [u_nameplates u_mailboxes u_versions].
  rewrite filter_snoc_out; [reflexivity|]. rewrite Hr. exact seqb_AB.
Qed.

Lemma fold_mb_usage umbs : forall u,
  Pmb umbs -> app_usage (fold_left uins_mb umbs u) B = app_usage u B.
Proof.
  induction umbs as [|r l IH]; intros u Hf; cbn [fold_left]; [reflexivity|].
  inversion Hf as [|r' l' Hr Hl]; subst. rewrite (IH _ Hl).
  unfold app_usage, uins_mb. cbn [u_nameplates u_mailboxes u_versions].
  rewrite filter_snoc_out; [reflexivity|]. rewrite Hr. exact seqb_AB.
Qed.

End Usage.

End Iso.

(** * The running invariant of a command of connection [c], bound to app A,
    relative to the state [s0] the command started in *)
Section Step.
Variable cfg : config.
Variables A B : string.
Hypothesis HAB : B <> A.
Variable s0 : state.
Variable c : nat.
Variables (cs0 : conn_state) (side0 : string).
Hypothesis Hc0 : lookup_conn c (conns s0) = Some cs0.
Hypothesis Hb0 : c_bound cs0 = Some (A, side0).

Local Notation isB := (fun p : string * string * nat => seqb (fst (fst p)) B).

Record INV (s : state) : Prop := mkINV
  { iv_db : DbInv (chan_w s);
    iv_cw : app_view (chan_w s) B = app_view (chan_w s0) B;
    iv_cc : app_view (chan_c s) B = app_view (chan_w s0) B;
    iv_uw : app_usage (usage_w s) B = app_usage (usage_w s0) B;
    iv_uc : app_usage (usage_c s) B = app_usage (usage_w s0) B;
    iv_subs : filter isB (subs s) = filter isB (subs s0);
    iv_gs : forall a m c', In (a, m, c') (subs s) -> exists sd, bound_to s0 c' a sd;
    iv_conns : forall c' cs', lookup_conn c' (conns s0) = Some cs' ->
               (exists sd, c_bound cs' = Some (B, sd)) -> lookup_conn c' (conns s) = Some cs';
    iv_log : forall c' f b tx, In (LFrame c' f b tx) (log s) -> exists sd, bound_to s0 c' A sd }.

Lemma bd_c : exists sd, bound_to s0 c A sd.
Proof. exists side0, cs0. split; assumption. Qed.

Lemma bound_fun c' a a' sd sd' : bound_to s0 c' a sd -> bound_to s0 c' a' sd' -> a = a'.
Proof. intros (cs & H1 & H2) (cs' & H1' & H2'). congruence. Qed.

Lemma not_c c' cs' :
  lookup_conn c' (conns s0) = Some cs' -> (exists sd, c_bound cs' = Some (B, sd)) -> c' <> c.
Proof. intros Hl [sd Hb] ->. apply HAB. congruence. Qed.

Ltac inv_tac :=
  intros [H1 H2 H3 H4 H5 H6 H7 H8 H9]; constructor;
  cbn [chan_w chan_c usage_w usage_c subs conns log set_chan_w set_usage_w set_subs set_conns set_log];
  try assumption.

Lemma INV_chan s d' : INV s -> DbInv d' -> iso B (chan_w s) d' -> INV (set_chan_w s d').
Proof. intros HI Hd Hiso. revert HI. inv_tac. unfold iso in Hiso. rewrite Hiso. exact H2. Qed.

Lemma INV_usage s u' :
  INV s -> app_usage u' B = app_usage (usage_w s) B -> INV (set_usage_w s u').
Proof. intros HI Hu. revert HI. inv_tac. rewrite Hu. exact H4. Qed.

Lemma INV_commit_chan s :
  INV s -> INV (mkState (chan_w s) (chan_w s) (usage_w s) (usage_c s) (subs s) (conns s)
                        (now s) (boot s) (timer_start s) (next_due s)
                        (LCommitChan (chan_w s) :: log s)).
Proof. inv_tac. intros c' f b tx [K|K]; [discriminate|eauto]. Qed.

Lemma INV_commit_usage s :
  INV s -> INV (mkState (chan_w s) (chan_c s) (usage_w s) (usage_w s) (subs s) (conns s)
                        (now s) (boot s) (timer_start s) (next_due s)
                        (LCommitUsage (usage_w s) :: log s)).
Proof. inv_tac. intros c' f b tx [K|K]; [discriminate|eauto]. Qed.

Lemma INV_send s c' f :
  INV s -> (exists sd, bound_to s0 c' A sd) -> INV (set_log s (LFrame c' f (is_clean s) (now s) :: log s)).
Proof. intros HI Hbd. revert HI. inv_tac. intros c1 f1 b1 t1 [K|K]; [inversion K as [[Kc Kf Kb Kt]]; rewrite <- Kc; exact Hbd|eauto]. Qed.

Lemma INV_set_conn s cs : INV s -> INV (set_conns s (update_conn c cs (conns s))).
Proof.
  inv_tac. intros c' cs' Hl Hb.
  rewrite lookup_update_other; [auto|exact (not_c c' cs' Hl Hb)].
Qed.

Lemma INV_add_sub s m :
  INV s -> INV (if existsb (sub_is A m c) (subs s) then s else set_subs s (subs s ++ [(A, m, c)])).
Proof.
  intros HI. destruct (existsb (sub_is A m c) (subs s)); [exact HI|]. revert HI. inv_tac.
  - rewrite filter_snoc_out; [exact H6|]. cbn [fst]. apply seqb_AB. exact HAB.
  - intros a m1 c1 Hin. apply in_app_or in Hin. destruct Hin as [Hin|[K|[]]]; [eauto|].
    inversion K as [[Ka Km Kc]]. rewrite <- Ka, <- Kc. exact bd_c.
Qed.

Lemma INV_remove_sub s a m :
  INV s -> INV (set_subs s (filter (fun p => negb (sub_is a m c p)) (subs s))).
Proof.
  inv_tac.
  - rewrite filter_filter_keep; [exact H6|]. intros [[a1 m1] c1] Hin Hb. cbn [fst] in Hb.
    apply seqb_eq in Hb. subst a1.
    destruct (sub_is a m c (B, m1, c1)) eqn:E; [|reflexivity]. exfalso.
    apply sub_is_true in E. inversion E as [[Ea Em Ec]]. rewrite Ec in Hin.
    destruct (H7 _ _ _ Hin) as [sd Hbd]. destruct bd_c as [sd' Hbd'].
    apply HAB. exact (bound_fun _ _ _ _ _ Hbd Hbd').
  - intros a1 m1 c1 Hin. apply filter_In in Hin. destruct Hin as [Hin _]. eauto.
Qed.

Lemma INV_stop s m :
  INV s ->
  INV (set_subs
         (set_conns s
            (map (fun p => if existsb (Nat.eqb (fst p)) (subs_of A m (subs s))
                           then (fst p, stop_listener (snd p)) else p) (conns s)))
         (filter (fun p => negb (seqb (fst (fst p)) A && seqb (snd (fst p)) m)) (subs s))).
Proof.
  inv_tac.
  - rewrite filter_filter_keep; [exact H6|]. intros [[a1 m1] c1] _ Hb. cbn [fst snd] in *.
    apply seqb_eq in Hb. subst a1.
    assert (E : seqb B A = false) by (apply seqb_neq; exact HAB). rewrite E. reflexivity.
  - intros a1 m1 c1 Hin. apply filter_In in Hin. destruct Hin as [Hin _]. eauto.
  - intros c' cs' Hl Hb. rewrite (lookup_map_if (fun n => existsb (Nat.eqb n) (subs_of A m (subs s))) stop_listener).
    rewrite (H8 c' cs' Hl Hb).
    destruct (existsb (Nat.eqb c') (subs_of A m (subs s))) eqn:E; [|reflexivity]. exfalso.
    apply victims_iff in E. destruct (H7 _ _ _ E) as [sd (cs1 & K1 & K2)].
    destruct Hb as [sd' Hb]. apply HAB. congruence.
Qed.

Lemma INV_remove_conn s : INV s -> INV (set_conns s (remove_conn c (conns s))).
Proof.
  inv_tac. intros c' cs' Hl Hb.
  rewrite lookup_remove_other; [auto|exact (not_c c' cs' Hl Hb)].
Qed.

(** * Preservation by monadic computations *)

Definition pres {X} (P : X -> Prop) (m : M X) : Prop :=
  forall s, INV s -> wp m (fun a s' => P a /\ INV s') (fun _ s' => INV s') s.

Lemma pres_elim {X} (P : X -> Prop) (m : M X) s :
  pres P m -> INV s -> match m s with Ok _ s' => INV s' | Exn _ s' => INV s' end.
Proof.
  intros Hm Hs. specialize (Hm s Hs). unfold wp in Hm.
  destruct (m s); [apply Hm|exact Hm].
Qed.

Lemma pres_bind {X Y} (P : X -> Prop) (Q : Y -> Prop) (m : M X) (k : X -> M Y) :
  pres P m -> (forall a, P a -> pres Q (k a)) -> pres Q (bind m k).
Proof.
  intros Hm Hk s Hs. apply wp_bind. eapply wp_conseq; [apply (Hm s Hs)| |].
  - intros a s' [Ha Hs']. apply (Hk a Ha s' Hs').
  - auto.
Qed.

Lemma pres_try_catch {X} (P : X -> Prop) (m : M X) (h : exn -> M X) :
  pres P m -> (forall e, pres P (h e)) -> pres P (try_catch m h).
Proof.
  intros Hm Hh s Hs. apply wp_try_catch. eapply wp_conseq; [apply (Hm s Hs)| |].
  - auto.
  - intros e s' Hs'. apply (Hh e s' Hs').
Qed.

Lemma pres_ret {X} (P : X -> Prop) (a : X) : P a -> pres P (ret a).
Proof. intros Ha s Hs. apply wp_ret. split; assumption. Qed.

Lemma pres_raise {X} (P : X -> Prop) e : pres P (raise e).
Proof. intros s Hs. apply wp_raise. exact Hs. Qed.

Lemma pres_get (P : state -> Prop) : (forall s, INV s -> P s) -> pres P get.
Proof. intros HP s Hs. apply wp_get. split; [apply HP; exact Hs|exact Hs]. Qed.

Lemma pres_q {X} (P : X -> Prop) (f : chan_db -> X) : (forall d, P (f d)) -> pres P (q f).
Proof. intros HP s Hs. apply wp_q. split; [apply HP|exact Hs]. Qed.

Lemma pres_tx {X} (P : X -> Prop) (f : chan_db -> txres X) :
  (forall d, DbInv d ->
     match f d with
     | TxOk a d' => P a /\ DbInv d' /\ iso B d d'
     | TxFail _ d' => DbInv d' /\ iso B d d'
     end) -> pres P (tx f).
Proof.
  intros Hf s Hs. apply wp_tx. specialize (Hf (chan_w s) (iv_db s Hs)).
  destruct (f (chan_w s)) as [a d'|e d'].
  - destruct Hf as (Ha & Hd & Hi). split; [exact Ha|]. apply INV_chan; assumption.
  - destruct Hf as (Hd & Hi). apply INV_chan; assumption.
Qed.

Lemma pres_commit_chan : pres (fun _ => True) commit_chan.
Proof. intros s Hs. apply wp_commit_chan. split; [exact I|]. apply INV_commit_chan. exact Hs. Qed.

Lemma pres_commit_usage : pres (fun _ => True) commit_usage.
Proof. intros s Hs. apply wp_commit_usage. split; [exact I|]. apply INV_commit_usage. exact Hs. Qed.

Lemma pres_send f : pres (fun _ => True) (send c f).
Proof. intros s Hs. apply wp_send. split; [exact I|]. apply INV_send; [exact Hs|exact bd_c]. Qed.

Lemma pres_get_conn : pres (fun _ => True) (get_conn c).
Proof. intros s Hs. apply wp_get_conn. split; [exact I|exact Hs]. Qed.

Lemma pres_set_conn cs : pres (fun _ => True) (set_conn c cs).
Proof. intros s Hs. apply wp_set_conn. split; [exact I|]. apply INV_set_conn. exact Hs. Qed.

Lemma pres_add_sub m : pres (fun _ => True) (add_sub A m c).
Proof. intros s Hs. apply wp_add_sub. split; [exact I|]. apply INV_add_sub. exact Hs. Qed.

Lemma pres_remove_sub a m : pres (fun _ => True) (remove_sub a m c).
Proof. intros s Hs. apply wp_remove_sub. split; [exact I|]. apply INV_remove_sub. exact Hs. Qed.

Lemma pres_stop_listeners m : pres (fun _ => True) (stop_listeners A m).
Proof. intros s Hs. apply wp_stop_listeners. split; [exact I|]. apply INV_stop. exact Hs. Qed.

Lemma pres_write_usage unps umbs :
  Pnp A unps -> Pmb A umbs -> pres (fun _ => True) (write_usage unps umbs).
Proof.
  intros Hn Hm s Hs. unfold write_usage. apply wp_utx. split; [exact I|].
  apply INV_usage; [exact Hs|].
  rewrite (fold_mb_usage A B HAB); [|exact Hm]. apply (fold_np_usage A B HAB). exact Hn.
Qed.

Lemma pres_send_all f cs :
  (forall c', In c' cs -> exists sd, bound_to s0 c' A sd) -> pres (fun _ => True) (send_all cs f).
Proof.
  induction cs as [|c1 rest IH]; intros Hcs; cbn [send_all].
  - apply pres_ret. exact I.
  - apply (pres_bind (fun _ => True)).
    + intros s Hs. apply wp_send. split; [exact I|]. apply INV_send; [exact Hs|].
      apply Hcs. left. reflexivity.
    + intros _ _. apply IH. intros c' Hc'. apply Hcs. right. exact Hc'.
Qed.

Create HintDb isopres.

Ltac pres_step :=
  cbv beta;
  lazymatch goal with
  | |- pres _ (tx (fun d => open_body d _ _ _ _)) =>
      apply pres_tx; intros ? ?; apply (tx_open_body A B HAB); assumption
  | |- pres _ (tx (fun d => claim_body d _ _ _ _ _)) =>
      apply pres_tx; intros ? ?; apply (tx_claim_body A B HAB); assumption
  | |- pres _ (bind _ _) => apply (pres_bind (fun _ => True)); [|intros ? _]
  | |- pres _ (ret _) => apply pres_ret; exact I
  | |- pres _ (raise _) => apply pres_raise
  | |- pres _ err => apply pres_raise
  | |- pres _ (try_catch _ _) => apply pres_try_catch; [|intros ?]
  | |- pres _ (catch_crowded _) => apply pres_try_catch; [|intros ?]
  | |- pres _ (catch_crowded_reclaimed _) => apply pres_try_catch; [|intros ?]
  | |- pres _ get => apply pres_get; intros; exact I
  | |- pres _ (q _) => apply pres_q; intros; exact I
  | |- pres _ commit_chan => apply pres_commit_chan
  | |- pres _ commit_usage => apply pres_commit_usage
  | |- pres _ (send _ _) => apply pres_send
  | |- pres _ (get_conn _) => apply pres_get_conn
  | |- pres _ (set_conn _ _) => apply pres_set_conn
  | |- pres _ (add_sub _ _ _) => apply pres_add_sub
  | |- pres _ (remove_sub _ _ _) => apply pres_remove_sub
  | |- pres _ (stop_listeners _ _) => apply pres_stop_listeners
  | |- pres _ (write_usage _ _) =>
      apply pres_write_usage; unfold Prel, Pclose, Pnp, Pmb in *; first [assumption|constructor|tauto]
  | |- pres _ (match ?x with _ => _ end) => destruct x
  | |- pres _ _ => solve [eauto with isopres]
  end.

(** ** Server.v *)

Lemma pres_open_mailbox m side w : pres (fun _ => True) (open_mailbox A m side w).
Proof. unfold open_mailbox. repeat pres_step. Qed.
Local Hint Resolve pres_open_mailbox : isopres.

Lemma pres_claim_nameplate name side w draw :
  pres (fun _ => True) (claim_nameplate A name side w draw).
Proof. unfold claim_nameplate. repeat pres_step. Qed.
Local Hint Resolve pres_claim_nameplate : isopres.

Lemma pres_allocate_nameplate side w o draw :
  pres (fun _ => True) (allocate_nameplate A side w o draw).
Proof. unfold allocate_nameplate. repeat pres_step. Qed.
Local Hint Resolve pres_allocate_nameplate : isopres.

Lemma pres_release_tail r :
  Prel A r ->
  pres (fun _ => True)
       (match r with
        | None => ret tt
        | Some unps =>
            (if usage_on cfg then write_usage unps [] ;;; commit_usage else ret tt) ;;;
            commit_chan
        end).
Proof. intros Hr. destruct r as [unps|]; repeat pres_step. Qed.

Lemma pres_release_nameplate name side w :
  pres (fun _ => True) (release_nameplate cfg A name side w).
Proof.
  intros s HI. unfold release_nameplate. apply wp_bind. apply wp_tx.
  destruct (release_mark_body (chan_w s) A name side) as [[npid d1]|] eqn:Erm.
  - destruct (release_mark_body_ok _ _ _ _ _ _ (iv_db s HI) Erm) as (Hdb1 & _ & _).
    destruct (iso_release_mark A B HAB _ _ _ _ _ (iv_db s HI) Erm) as [Hiso1 Hf1].
    cbv beta iota.
    assert (HI1 : INV (set_chan_w s d1)) by (apply INV_chan; assumption).
    apply wp_bind. apply wp_commit_chan.
    apply INV_commit_chan in HI1.
    match goal with |- wp _ _ _ ?st => set (s2 := st) in * end.
    apply wp_bind. apply wp_tx. change (chan_w s2) with d1.
    pose proof (tx_release_delete A B cfg d1 npid w Hdb1 Hf1) as Htx.
    destruct (release_delete_body cfg d1 A npid w) as [r d2|e d2].
    + destruct Htx as (Hr & Hdb2 & Hiso2).
      assert (HI3 : INV (set_chan_w s2 d2)) by (apply INV_chan; assumption).
      exact (pres_release_tail r Hr _ HI3).
    + destruct Htx as (Hdb2 & Hiso2). apply INV_chan; assumption.
  - cbv beta iota. rewrite set_chan_w_same. apply wp_ret. split; [exact I|exact HI].
Qed.
Local Hint Resolve pres_release_nameplate : isopres.

Lemma pres_close_tail m r :
  Pclose A r ->
  pres (fun _ => True)
       (match r with
        | None => ret tt
        | Some (unps, umbs) =>
            (if usage_on cfg then write_usage unps umbs ;;; commit_usage else ret tt) ;;;
            commit_chan ;;;
            stop_listeners A m
        end).
Proof. intros Hr. destruct r as [[unps umbs]|]; repeat pres_step. Qed.

Lemma pres_mailbox_close m side mood w :
  pres (fun _ => True) (mailbox_close cfg A m side mood w).
Proof.
  intros s HI. unfold mailbox_close. apply wp_bind. apply wp_tx.
  destruct (close_mark_body (chan_w s) A m side mood) as [[fornp d1]|] eqn:Ecm.
  - destruct (close_mark_body_ok _ _ _ _ _ _ _ (iv_db s HI) Ecm) as (Hdb1 & Hmono1 & Hmb).
    pose proof (iso_close_mark A B HAB _ _ _ _ _ _ (iv_db s HI) Ecm) as Hiso1.
    apply Hmono1 in Hmb.
    cbv beta iota.
    assert (HI1 : INV (set_chan_w s d1)) by (apply INV_chan; assumption).
    apply wp_bind. apply wp_commit_chan.
    apply INV_commit_chan in HI1.
    match goal with |- wp _ _ _ ?st => set (s2 := st) in * end.
    apply wp_bind. apply wp_tx. change (chan_w s2) with d1.
    pose proof (tx_close_delete A B HAB cfg d1 m fornp w Hdb1 Hmb) as Htx.
    destruct (close_delete_body cfg d1 A m fornp w) as [r d2|e d2].
    + destruct Htx as (Hr & Hdb2 & Hiso2).
      assert (HI3 : INV (set_chan_w s2 d2)) by (apply INV_chan; assumption).
      exact (pres_close_tail m r Hr _ HI3).
    + destruct Htx as (Hdb2 & Hiso2). apply INV_chan; assumption.
  - cbv beta iota. rewrite set_chan_w_same. apply wp_ret. split; [exact I|exact HI].
Qed.
Local Hint Resolve pres_mailbox_close : isopres.

Lemma pres_add_tail m r :
  pres (fun _ => True)
       (commit_chan ;;; s <- get ;; send_all (subs_of A m (subs s)) (msg_frame r)).
Proof.
  pres_step; [pres_step|].
  apply (pres_bind INV); [apply pres_get; auto|].
  intros s1 HI1. apply pres_send_all. intros c' Hc'.
  apply MbFactsA.In_subs_of in Hc'. exact (iv_gs s1 HI1 _ _ _ Hc').
Qed.

Lemma wp_add_message m r s :
  INV s -> has_mb (chan_w s) A m -> msg_app r = A -> msg_mbox r = m ->
  wp (add_message A m r) (fun _ s' => True /\ INV s') (fun _ s' => INV s') s.
Proof.
  intros HI Hmb Ha Hm. unfold add_message. apply wp_bind. apply wp_tx. cbv beta iota.
  destruct (tx_add_msg A B HAB (chan_w s) m r (iv_db s HI) Hmb Ha Hm) as [Hdb Hiso].
  assert (HI1 : INV (set_chan_w s (upd_touch (ins_msg (chan_w s) r) m (msg_rx r))))
    by (apply INV_chan; assumption).
  exact (pres_add_tail m r _ HI1).
Qed.

Lemma pres_get_messages m : pres (fun _ => True) (get_messages A m).
Proof. unfold get_messages. repeat pres_step. Qed.
Local Hint Resolve pres_get_messages : isopres.

(** ** Websocket.v *)

Lemma pres_handle_ping msg : pres (fun _ => True) (handle_ping c msg).
Proof. unfold handle_ping. repeat pres_step. Qed.

Lemma pres_handle_list : pres (fun _ => True) (handle_list cfg c A).
Proof. unfold handle_list. repeat pres_step. Qed.

Lemma pres_handle_allocate side o : pres (fun _ => True) (handle_allocate c A side o).
Proof. unfold handle_allocate. repeat pres_step. Qed.

Lemma pres_handle_claim side msg o : pres (fun _ => True) (handle_claim c A side msg o).
Proof. unfold handle_claim. repeat pres_step. Qed.

Lemma pres_handle_release side msg : pres (fun _ => True) (handle_release cfg c A side msg).
Proof. unfold handle_release. repeat pres_step. Qed.

Lemma pres_send_each l : pres (fun _ => True) (send_each c l).
Proof. induction l as [|r rest IH]; cbn [send_each]; repeat pres_step. Qed.
Local Hint Resolve pres_send_each : isopres.

Lemma pres_handle_open side msg : pres (fun _ => True) (handle_open c A side msg).
Proof. unfold handle_open. repeat pres_step. Qed.

Lemma pres_handle_close side msg : pres (fun _ => True) (handle_close cfg c A side msg).
Proof. unfold handle_close. repeat pres_step. Qed.

Lemma pres_on_close : pres (fun _ => True) (on_close c).
Proof. unfold on_close. repeat pres_step. Qed.

(** the commanding connection is bound to A and, if it holds a mailbox, that
    mailbox exists under A *)
Definition Pre (s : state) : Prop :=
  exists cs side, lookup_conn c (conns s) = Some cs /\ c_bound cs = Some (A, side) /\
                  (forall m, c_mailbox cs = Some m -> has_mb (chan_w s) A m).

Lemma wp_handle_add side msg s :
  INV s -> Pre s ->
  wp (handle_add c A side msg) (fun _ s' => True /\ INV s') (fun _ s' => INV s') s.
Proof.
  intros HI (cs & sd & Hl & Hb & Hm). unfold handle_add. apply wp_bind. apply wp_get_conn.
  rewrite Hl. destruct (c_mailbox cs) as [m|] eqn:Em; [|apply wp_raise; exact HI].
  destruct (m_phase msg) as [phase|]; [|apply wp_raise; exact HI].
  destruct (m_body msg) as [body|]; [|apply wp_raise; exact HI].
  apply wp_bind. apply wp_get. apply wp_add_message; auto.
Qed.

Lemma wp_dispatch t msg o s :
  INV s -> Pre s ->
  wp (dispatch cfg c t msg o) (fun _ s' => True /\ INV s') (fun _ s' => INV s') s.
Proof.
  intros HI HP. pose proof HP as (cs & sd & Hl & Hb & Hm).
  assert (Hent : forall (k : conn_state -> M unit) Q E,
            wp (k cs) Q E s -> wp (cs1 <- get_conn c ;; k cs1) Q E s).
  { intros k Q E H. apply wp_bind. apply wp_get_conn. rewrite Hl. exact H. }
  destruct t; unfold dispatch; try (apply Hent; rewrite Hb; cbv beta iota).
  - apply pres_handle_ping. exact HI.
  - apply wp_raise. exact HI.
  - apply pres_handle_list. exact HI.
  - apply pres_handle_allocate. exact HI.
  - apply pres_handle_claim. exact HI.
  - apply pres_handle_release. exact HI.
  - apply pres_handle_open. exact HI.
  - apply wp_handle_add; assumption.
  - apply pres_handle_close. exact HI.
  - apply wp_raise. exact HI.
Qed.

Lemma on_message_INV msg o s :
  INV s -> Pre s ->
  match on_message cfg c msg o s with Ok _ s' => INV s' | Exn _ s' => INV s' end.
Proof.
  intros HI HP.
  assert (H : wp (on_message cfg c msg o) (fun _ s' => INV s') (fun _ s' => INV s') s).
  { unfold on_message. apply wp_try_catch. destruct (m_type msg) as [t|].
    - apply wp_bind. apply wp_send.
      eapply wp_conseq; [apply wp_dispatch; [apply INV_send; [exact HI|exact bd_c]|exact HP]| |].
      + intros [] s' [_ H']. exact H'.
      + intros e s' H'. destruct e; try (apply wp_raise; exact H').
        apply wp_send. apply INV_send; [exact H'|exact bd_c].
    - apply wp_raise. apply wp_send. apply INV_send; [exact HI|exact bd_c]. }
  unfold wp in H. destruct (on_message cfg c msg o s); exact H.
Qed.

Lemma drop_conn_INV s : INV s -> INV (drop_conn c s).
Proof.
  intros HI. pose proof (pres_elim _ _ s pres_on_close HI) as H. unfold drop_conn.
  destruct (on_close c s); apply INV_remove_conn; exact H.
Qed.

End Step.

Lemma frames_of_In c' f l : In (c', f) (frames_of l) -> exists b tx, In (LFrame c' f b tx) l.
Proof.
  induction l as [|e l IH]; cbn [frames_of]; [intros []|].
  destruct e as [d|u|c1 f1 b1 t1].
  - intros H. destruct (IH H) as [b [tx Hb]]. exists b, tx. right. exact Hb.
  - intros H. destruct (IH H) as [b [tx Hb]]. exists b, tx. right. exact Hb.
  - intros [H|H].
    + inversion H; subst. exists b1, t1. left. reflexivity.
    + destruct (IH H) as [b [tx Hb]]. exists b, tx. right. exact Hb.
Qed.

(** nothing stored changes *)
Definition same_dbs (s s' : state) : Prop :=
  chan_w s' = chan_w s /\ chan_c s' = chan_c s /\ usage_w s' = usage_w s /\ usage_c s' = usage_c s.

Lemma drop_conn_same c s : same_dbs s (drop_conn c s).
Proof.
  unfold same_dbs, drop_conn, on_close, bind, get_conn, remove_sub, ret.
  generalize (match lookup_conn c (conns s) with Some cs => cs | None => new_conn end).
  intros cs. destruct (c_mailbox cs) as [m|].
  - destruct (c_bound cs) as [[a sd]|].
    + destruct (c_listening cs); cbn; repeat split; reflexivity.
    + cbn; repeat split; reflexivity.
  - cbn; repeat split; reflexivity.
Qed.

Section WithConfig.
Variable cfg : config.
Hypothesis Hexp : 0 < exp cfg.

Lemma step_cmd_eq s c msg o cs :
  log s = [] -> lookup_conn c (conns s) = Some cs ->
  step cfg s (EB (ECmd c msg o)) =
  match on_message cfg c msg o s with
  | Ok _ s' => (set_log s' [], mkObs true (rev (log s')) None [])
  | Exn e s' => (set_log (drop_conn c s') [], mkObs true (rev (log (drop_conn c s'))) (Some e) [])
  end.
Proof.
  intros Hlog Hlk. unfold step. rewrite (MbFactsA.set_log_nil s Hlog). cbn [step_b].
  unfold has_conn. rewrite Hlk. destruct (on_message cfg c msg o s) as [[] s'|e s']; reflexivity.
Qed.

(** a command of app A (whatever it is, whatever its outcome: answer, error,
    internal failure) leaves every other app's stored rows and usage records
    exactly as they were, in both copies of the databases, keeps every other
    app's subscriptions, and sends frames only to connections bound to A *)
Theorem step_isolation s c cs A side msg o B :
  SInv s -> log s = [] ->
  lookup_conn c (conns s) = Some cs -> c_bound cs = Some (A, side) -> B <> A ->
  let '(s', ob) := step cfg s (EB (ECmd c msg o)) in
  app_view (chan_w s') B = app_view (chan_w s) B /\
  app_view (chan_c s') B = app_view (chan_c s) B /\
  app_usage (usage_w s') B = app_usage (usage_w s) B /\
  app_usage (usage_c s') B = app_usage (usage_c s) B /\
  filter (fun p => seqb (fst (fst p)) B) (subs s') = filter (fun p => seqb (fst (fst p)) B) (subs s) /\
  (forall c' cs', lookup_conn c' (conns s) = Some cs' ->
                  (exists sd, c_bound cs' = Some (B, sd)) -> lookup_conn c' (conns s') = Some cs') /\
  (forall c' f, In (c', f) (frames_of (o_log ob)) -> exists sd, bound_to s c' A sd).
Proof.
  intros HS Hlog Hlk Hb HAB.
  rewrite (step_cmd_eq s c msg o cs Hlog Hlk).
  destruct (si_clean s HS) as [Hcc Hcu].
  assert (HI0 : INV A B s s).
  { constructor; try reflexivity.
    - exact (si_db s HS).
    - rewrite <- Hcc. reflexivity.
    - rewrite <- Hcu. reflexivity.
    - intros a m c' Hin. destruct (si_subs s HS _ Hin) as [_ (cs1 & sd & K1 & K2 & _)].
      exists sd, cs1. split; assumption.
    - intros c' cs' K _. exact K.
    - rewrite Hlog. intros c' f b tx []. }
  assert (HP : Pre A c s).
  { exists cs, side. split; [exact Hlk|]. split; [exact Hb|]. intros m Hm.
    pose proof (si_conns s HS c cs Hlk) as Hok. unfold conn_ok in Hok. rewrite Hm in Hok.
    destruct Hok as (a & sd & Hb' & _ & Hin).
    destruct (si_subs s HS _ Hin) as [Hmb _]. rewrite Hb in Hb'. inversion Hb'; subst a. exact Hmb. }
  assert (Hfin : forall s1 x, INV A B s s1 ->
    let '(s', ob) := (set_log s1 [], mkObs true (rev (log s1)) x []) in
    app_view (chan_w s') B = app_view (chan_w s) B /\
    app_view (chan_c s') B = app_view (chan_c s) B /\
    app_usage (usage_w s') B = app_usage (usage_w s) B /\
    app_usage (usage_c s') B = app_usage (usage_c s) B /\
    filter (fun p => seqb (fst (fst p)) B) (subs s') = filter (fun p => seqb (fst (fst p)) B) (subs s) /\
    (forall c' cs', lookup_conn c' (conns s) = Some cs' ->
                    (exists sd, c_bound cs' = Some (B, sd)) -> lookup_conn c' (conns s') = Some cs') /\
    (forall c' f, In (c', f) (frames_of (o_log ob)) -> exists sd, bound_to s c' A sd)).
  { intros s1 x [H1 H2 H3 H4 H5 H6 H7 H8 H9].
    cbn [set_log chan_w chan_c usage_w usage_c subs conns o_log].
    split; [exact H2|]. split; [rewrite <- Hcc; exact H3|]. split; [exact H4|].
    split; [rewrite <- Hcu; exact H5|]. split; [exact H6|]. split; [exact H8|].
    intros c' f Hin. apply frames_of_In in Hin. destruct Hin as [b [tx Hin]].
    apply in_rev in Hin. exact (H9 c' f b tx Hin). }
  pose proof (on_message_INV cfg A B HAB s c cs side Hlk Hb msg o s HI0 HP) as H.
  destruct (on_message cfg c msg o s) as [[] s1|e s1].
  - apply Hfin. exact H.
  - apply Hfin. apply (drop_conn_INV A B HAB s c cs side Hlk Hb). exact H.
Qed.

Lemma on_message_unbound c msg o s cs :
  lookup_conn c (conns s) = Some cs -> c_bound cs = None -> m_type msg <> Some TBind ->
  exists s', on_message cfg c msg o s = Ok tt s' /\ same_dbs s s'.
Proof.
  intros Hl Hb Ht. unfold on_message, try_catch, bind, send, err, raise.
  destruct (m_type msg) as [t|].
  - destruct t; try congruence;
      unfold dispatch, handle_ping, bind, get_conn, send, err, raise; cbn [conns set_log];
      try rewrite Hl; try rewrite Hb;
      try (eexists; split; [reflexivity|unfold same_dbs; cbn; repeat split; reflexivity]).
    destruct (m_ping msg);
      (eexists; split; [reflexivity|unfold same_dbs; cbn; repeat split; reflexivity]).
  - eexists; split; [reflexivity|unfold same_dbs; cbn; repeat split; reflexivity].
Qed.

(** commands of an unbound connection, connects and disconnects touch no stored row at all *)
Theorem unbound_isolation s e :
  SInv s -> log s = [] ->
  (match e with
   | EB (EConnect _) | EB (EDisconnect _) => True
   | EB (ECmd c msg o) => exists cs, lookup_conn c (conns s) = Some cs /\ c_bound cs = None /\
                                     m_type msg <> Some TBind
   | _ => False
   end) ->
  let s' := fst (step cfg s e) in
  chan_w s' = chan_w s /\ chan_c s' = chan_c s /\ usage_w s' = usage_w s /\ usage_c s' = usage_c s.
Proof.
  intros HS Hlog He. cbv zeta.
  destruct e as [b|k b|]; try contradiction.
  destruct b as [c|c msg o|c|fault|dt fault]; try contradiction.
  - unfold step, step_b. destruct (has_conn c (set_log s [])); cbn; repeat split; reflexivity.
  - destruct He as (cs & Hl & Hb & Ht).
    rewrite (step_cmd_eq s c msg o cs Hlog Hl).
    destruct (on_message_unbound c msg o s cs Hl Hb Ht) as (s1 & E & Hs). rewrite E. exact Hs.
  - unfold step, step_b. destruct (has_conn c (set_log s [])); cbn [fst set_log chan_w chan_c usage_w usage_c].
    + exact (drop_conn_same c (set_log s [])).
    + repeat split; reflexivity.
Qed.

End WithConfig.
