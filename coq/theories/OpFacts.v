(** OpFacts.v -- every operation of server.py (Server.v) preserves the running
    invariant, emits frames only when nothing is pending, and fails only in the
    listed ways. *)
From MW Require Import Base Store Monad Usage Server Inv StoreFacts Hoare.
Local Open Scope list_scope.
From MW Require Import DbFactsA DbFactsB.

(** the running invariant inside a handler *)
Definition RInv (s : state) : Prop := DbInv (chan_w s) /\ log_ok (log s).

(** [s'] differs from [s] only in the databases and in the log, which grew *)
Definition db_step (s s' : state) : Prop :=
  subs s' = subs s /\ conns s' = conns s /\ now s' = now s /\ boot s' = boot s /\
  timer_start s' = timer_start s /\ next_due s' = next_due s /\
  exists l, log s' = (l ++ log s)%list.

Lemma db_step_refl s : db_step s s.
Proof. unfold db_step. repeat split; auto. exists []. reflexivity. Qed.

Lemma db_step_trans s1 s2 s3 : db_step s1 s2 -> db_step s2 s3 -> db_step s1 s3.
Proof.
  unfold db_step. intros (A1 & A2 & A3 & A4 & A5 & A6 & l1 & A7) (B1 & B2 & B3 & B4 & B5 & B6 & l2 & B7).
  repeat split; try congruence. exists (l2 ++ l1)%list. rewrite B7, A7, app_assoc. reflexivity.
Qed.

Lemma set_chan_w_same s : set_chan_w s (chan_w s) = s.
Proof. destruct s; reflexivity. Qed.

Lemma log_ok_cons e l : entry_ok e -> log_ok l -> log_ok (e :: l).
Proof. intros; constructor; auto. Qed.

(** what every successful database operation guarantees *)
Definition good (s s' : state) : Prop :=
  RInv s' /\ clean s' /\ db_step s s'.

(** * Auxiliary facts *)

Lemma good_refl s : RInv s -> clean s -> good s s.
Proof. intros HR HC. split; [exact HR|]. split; [exact HC|apply db_step_refl]. Qed.

Lemma good_trans s0 s1 s2 : good s0 s1 -> good s1 s2 -> good s0 s2.
Proof.
  intros (_ & _ & D1) (R2 & C2 & D2). split; [exact R2|]. split; [exact C2|].
  eapply db_step_trans; eauto.
Qed.

Lemma log_ext_nil (l0 : list log_entry) : exists k, l0 = k ++ l0.
Proof. exists []. reflexivity. Qed.

Lemma log_ext_cons (e : log_entry) l l0 :
  (exists k, l = k ++ l0) -> exists k, e :: l = k ++ l0.
Proof. intros [k ->]. exists (e :: k). reflexivity. Qed.

Ltac log_ext := repeat apply log_ext_cons; apply log_ext_nil.

(** [good s s'] for an explicitly given [s'] *)
Ltac solve_good :=
  split;
  [ split; cbn; [auto|repeat apply log_ok_cons; cbn; auto]
  | split;
    [ split; cbn; auto
    | unfold db_step; cbn; repeat split; auto; log_ext ] ].

Lemma wp_and {A} (m : M A) (Q1 Q2 : A -> state -> Prop) (E1 E2 : exn -> state -> Prop) s :
  wp m Q1 E1 s -> wp m Q2 E2 s ->
  wp m (fun a s' => Q1 a s' /\ Q2 a s') (fun e s' => E1 e s' /\ E2 e s') s.
Proof. unfold wp. destruct (m s); auto. Qed.

Lemma wp_stop_listeners a m (Q : unit -> state -> Prop) (E : exn -> state -> Prop) s :
  Q tt (set_subs
          (set_conns s
             (map (fun p => if existsb (Nat.eqb (fst p)) (subs_of a m (subs s))
                            then (fst p, stop_listener (snd p)) else p) (conns s)))
          (filter (fun p => negb (seqb (fst (fst p)) a && seqb (snd (fst p)) m)) (subs s))) ->
  wp (stop_listeners a m) Q E s.
Proof. exact (fun H => H). Qed.

(** ** what [open_mailbox] leaves alone *)

Lemma mailbox_open_body_frame d m side when d' :
  mailbox_open_body d m side when = Some d' -> nameplates d' = nameplates d.
Proof.
  unfold mailbox_open_body. destruct (sel_mbs d m side) as [r|].
  - intros H; inversion H. reflexivity.
  - unfold ins_mbs. destruct (mb_exists d _); [|discriminate]. intros H; inversion H. reflexivity.
Qed.

Lemma open_body_frame d a m side when :
  match open_body d a m side when with
  | TxOk _ d' => nameplates d' = nameplates d
  | TxFail _ d' => nameplates d' = nameplates d
  end.
Proof.
  unfold open_body. destruct (add_mailbox d a m false when) as [d1|] eqn:E1; [|reflexivity].
  apply add_mailbox_frame in E1.
  destruct (mailbox_open_body d1 m side when) as [d2|] eqn:E2; [|exact E1].
  apply mailbox_open_body_frame in E2. congruence.
Qed.

Lemma open_mailbox_frame a m side when s :
  wp (open_mailbox a m side when)
     (fun _ s' => nameplates (chan_w s') = nameplates (chan_w s))
     (fun _ s' => nameplates (chan_w s') = nameplates (chan_w s)) s.
Proof.
  unfold open_mailbox. wp_step. wp_step.
  pose proof (open_body_frame (chan_w s) a m side when) as H.
  destruct (open_body (chan_w s) a m side when) as [[] d'|e d'].
  - wp_step. wp_step. wp_step. wp_step. wp_step. wp_step. cbn.
    match goal with |- context [if ?b then _ else _] => destruct b end; wp_step; exact H.
  - cbn. exact H.
Qed.

(** ** membership in [sdedup] and [listened_mailboxes] *)

Lemma sdedup_In x l : In x (sdedup l) <-> In x l.
Proof.
  induction l as [|y l IH]; cbn [sdedup]; [tauto|].
  destruct (smem y l) eqn:E.
  - rewrite IH. split; [intros H; right; exact H|].
    intros [<-|H]; [apply smem_In; exact E|exact H].
  - cbn [In]. rewrite IH. tauto.
Qed.

Lemma listened_In a m (c : nat) l : In (a, m, c) l -> In m (listened_mailboxes a l).
Proof.
  intros H. unfold listened_mailboxes. apply sdedup_In. apply in_map_iff.
  exists (a, m, c). split; [reflexivity|]. apply filter_In. split; [exact H|].
  cbn. apply seqb_refl.
Qed.

Section WithConfig.
Variable cfg : config.

(** * open_mailbox *)
Lemma open_mailbox_spec a m side when s :
  RInv s -> clean s ->
  wp (open_mailbox a m side when)
     (fun _ s' => good s s' /\ has_mb (chan_w s') a m /\ mb_mono (chan_w s) (chan_w s'))
     (fun e s' => (e = XCrowded /\ good s s' /\ has_mb (chan_w s') a m /\ mb_mono (chan_w s) (chan_w s')) \/
                  (e = XIntegrity /\ s' = s /\ mb_exists (chan_w s) m = true /\ ~ has_mb (chan_w s) a m))
     s.
Proof.
  intros [Hdb Hlog] [Hc Hu]. unfold open_mailbox.
  wp_step. wp_step.
  pose proof (open_body_ok (chan_w s) a m side when Hdb) as Hob.
  destruct (open_body (chan_w s) a m side when) as [[] d'|e d'].
  - destruct Hob as (Hdb' & Hmb & Hmono).
    wp_step. wp_step. wp_step. wp_step. wp_step. wp_step. cbn.
    assert (G : good s (mkState d' d' (usage_w s) (usage_c s) (subs s) (conns s) (now s) (boot s)
                                (timer_start s) (next_due s)
                                (LCommitChan d' :: LCommitChan d' :: log s))).
    { split; [|split].
      - split; cbn; auto. repeat apply log_ok_cons; auto.
      - split; cbn; auto.
      - unfold db_step; cbn. repeat split; auto.
        exists [LCommitChan d'; LCommitChan d']. reflexivity. }
    match goal with |- context [if ?b then _ else _] => destruct b end.
    + wp_step. left. auto.
    + wp_step. auto.
  - destruct Hob as (-> & -> & Hex & Hno). right. rewrite set_chan_w_same. auto.
Qed.


(** the global PRIMARY KEY on mailboxes.id refuses an id that exists under another app *)
Definition pk_clash (d : chan_db) (a m : string) : Prop :=
  mb_exists d m = true /\ ~ has_mb d a m.

(** * claim_nameplate *)
Lemma claim_nameplate_spec a name side when draw s :
  RInv s -> clean s ->
  wp (claim_nameplate a name side when draw)
     (fun mbox s' => good s s' /\ mb_mono (chan_w s) (chan_w s') /\ has_mb (chan_w s') a mbox /\
                     exists np, sel_np (chan_w s') a name = Some np /\ np_mbox np = mbox)
     (fun e s' => (e = XCrowded /\ good s s' /\ mb_mono (chan_w s) (chan_w s')) \/
                  (s' = s /\
                   (e = XReclaimed \/ (e = XOracle /\ draw = None) \/
                    (e = XIntegrity /\ sel_np (chan_w s) a name = None /\
                     exists bytes, draw = Some bytes /\ pk_clash (chan_w s) a (genid bytes)))))
     s.
Proof.
  intros [Hdb Hlog] [Hc Hu]. unfold claim_nameplate.
  wp_step. wp_step.
  pose proof (claim_body_ok (chan_w s) a name side when draw Hdb) as Hcb.
  destruct (claim_body (chan_w s) a name side when draw) as [[npid mbox] d'|e d'].
  - destruct Hcb as (Hdb' & Hmono & Hmb & np & Hnp & Hid & Hmbx).
    cbv beta iota. wp_step. wp_step. wp_step.
    match goal with |- wp _ _ _ ?st => set (s1 := st) end.
    assert (G1 : good s s1) by (subst s1; solve_good).
    assert (Ew : chan_w s1 = d') by reflexivity.
    pose proof (wp_and _ _ _ _ _ _
                  (open_mailbox_spec a mbox side when s1 (proj1 G1) (proj1 (proj2 G1)))
                  (open_mailbox_frame a mbox side when s1)) as Ho.
    eapply wp_conseq; [exact Ho| |].
    + intros [] s2 [(G2 & Hmb2 & Hmono2) Hnp2]. rewrite Ew in *.
      assert (Hm : mb_mono (chan_w s) (chan_w s2)) by (eapply mb_mono_trans; eauto).
      assert (G : good s s2) by (eapply good_trans; eauto).
      wp_step. wp_step.
      match goal with |- context [if ?b then _ else _] => destruct b end.
      * wp_step. left. auto.
      * wp_step. split; [exact G|]. split; [exact Hm|]. split; [exact Hmb2|].
        exists np. split; [|exact Hmbx]. unfold sel_np. rewrite Hnp2. exact Hnp.
    + intros e s2 [[(-> & G2 & Hmb2 & Hmono2)|(-> & -> & Hex & Hno)] Hnp2].
      * left. rewrite Ew in *. split; [reflexivity|]. split; [eapply good_trans; eauto|].
        eapply mb_mono_trans; eauto.
      * exfalso. apply Hno. rewrite Ew. exact Hmb.
  - destruct Hcb as (-> & Hcases). rewrite set_chan_w_same. right. split; [reflexivity|].
    destruct Hcases as [->|[(-> & -> & _)|(-> & Hsel & bytes & -> & Hex & Hno)]].
    + left. reflexivity.
    + right. left. auto.
    + right. right. split; [reflexivity|]. split; [exact Hsel|]. exists bytes.
      split; [reflexivity|]. split; assumption.
Qed.

(** * allocate_nameplate *)
Lemma allocate_nameplate_spec a side when o draw s :
  RInv s -> clean s ->
  wp (allocate_nameplate a side when o draw)
     (fun n s' => good s s' /\ mb_mono (chan_w s) (chan_w s') /\
                  find_available (sel_names (chan_w s) a) o = AllocOk n /\
                  exists np, sel_np (chan_w s') a n = Some np)
     (fun e s' => (e = XCrowded /\ good s s' /\ mb_mono (chan_w s) (chan_w s')) \/
                  (s' = s /\
                   (e = XReclaimed \/ e = XOracle \/
                    (e = XValue /\ find_available (sel_names (chan_w s) a) o = AllocValueError) \/
                    (e = XIntegrity /\ exists bytes, draw = Some bytes /\
                                                   pk_clash (chan_w s) a (genid bytes)))))
     s.
Proof.
  intros HR HC. unfold allocate_nameplate. wp_step. wp_step.
  destruct (find_available (sel_names (chan_w s) a) o) as [n| |] eqn:Ef.
  - wp_step.
    eapply wp_conseq; [exact (claim_nameplate_spec a n side when draw s HR HC)| |].
    + intros mbox s' (G & Hm & Hmb & np & Hnp & _). wp_step.
      split; [exact G|]. split; [exact Hm|]. split; [reflexivity|]. exists np. exact Hnp.
    + intros e s' [(-> & G & Hm)|(-> & Hcases)].
      * left. auto.
      * right. split; [reflexivity|].
        destruct Hcases as [->|[(-> & _)|(-> & _ & bytes & -> & Hpk)]]; auto.
        right. right. right. split; [reflexivity|]. exists bytes. auto.
  - wp_step. right. split; [reflexivity|]. right. right. left. auto.
  - wp_step. right. split; [reflexivity|]. right. left. reflexivity.
Qed.

(** * release_nameplate: never fails *)
Lemma release_nameplate_spec a name side when s :
  RInv s -> clean s ->
  wp (release_nameplate cfg a name side when)
     (fun _ s' => good s s' /\ mb_mono (chan_w s) (chan_w s'))
     (fun _ _ => False) s.
Proof.
  intros [Hdb Hlog] [Hc Hu]. unfold release_nameplate. wp_step. wp_step.
  destruct (release_mark_body (chan_w s) a name side) as [[npid d1]|] eqn:Erm.
  - destruct (release_mark_body_ok _ _ _ _ _ _ Hdb Erm) as (Hdb1 & Hmono1 & Hex1).
    cbv beta iota. wp_step. wp_step. wp_step. wp_step. cbn [chan_w set_chan_w].
    destruct (release_delete_body_ok cfg d1 a npid when Hdb1 Hex1)
      as (r & d' & E & Hdb' & Hmono' & Hnone).
    rewrite E. destruct r as [unps|]; cbv beta iota.
    + assert (Hm : mb_mono (chan_w s) d').
      { intros a' m' H. apply Hmono'. apply Hmono1. exact H. }
      wp_step. destruct (usage_on cfg).
      * unfold write_usage. wp_step. wp_step. wp_step. wp_step.
        split; [solve_good|exact Hm].
      * wp_step. wp_step. split; [solve_good|exact Hm].
    + rewrite (Hnone eq_refl). wp_step. split; [solve_good|exact Hmono1].
  - cbv beta iota. wp_step. rewrite set_chan_w_same.
    split; [apply good_refl; split; auto|apply mb_mono_refl].
Qed.

(** * frames are sent with nothing pending *)
Lemma send_all_spec cs f s :
  RInv s -> clean s ->
  wp (send_all cs f) (fun _ s' => good s s' /\ chan_w s' = chan_w s) (fun _ _ => False) s.
Proof.
  revert s. induction cs as [|c rest IH]; intros s HR HC; cbn [send_all].
  - wp_step. split; [apply good_refl; assumption|reflexivity].
  - wp_step. wp_step.
    match goal with |- wp _ _ _ ?st => set (s1 := st) end.
    assert (G1 : good s s1).
    { subst s1. destruct HR as [Hdb Hlog]. split; [split|split].
      - exact Hdb.
      - cbn. apply log_ok_cons; [|exact Hlog]. cbn. apply is_clean_true. exact HC.
      - exact HC.
      - unfold db_step; cbn. repeat split; auto. log_ext. }
    eapply wp_conseq; [exact (IH s1 (proj1 G1) (proj1 (proj2 G1)))| |].
    + intros [] s' [G E]. split; [eapply good_trans; eauto|]. rewrite E. reflexivity.
    + intros e s' [].
Qed.

(** * add_message: never fails on an existing mailbox *)
Lemma add_message_spec a m r s :
  RInv s -> clean s -> msg_app r = a -> msg_mbox r = m -> has_mb (chan_w s) a m ->
  wp (add_message a m r)
     (fun _ s' => good s s' /\ mb_mono (chan_w s) (chan_w s'))
     (fun _ _ => False) s.
Proof.
  intros [Hdb Hlog] [Hc Hu] Ha Hm Hmb. subst a m. unfold add_message.
  destruct (add_msg_ok (chan_w s) r Hdb Hmb) as [Hdb' Hmono].
  wp_step. wp_step. cbv beta iota. wp_step. wp_step. wp_step. wp_step.
  match goal with |- wp _ _ _ ?st => set (s1 := st) end.
  assert (G1 : good s s1) by (subst s1; solve_good).
  eapply wp_conseq; [apply send_all_spec; apply G1| |].
  - intros [] s' [G E]. split; [eapply good_trans; eauto|]. rewrite E. exact Hmono.
  - intros e s' [].
Qed.

(** * mailbox_close: never fails; either somebody still has the mailbox open
    (or the side had no row), or the mailbox is gone together with its
    subscriptions, whose connections forget their handle *)
Definition close_deleted (a m : string) (s s' : state) : Prop :=
  RInv s' /\ clean s' /\
  (forall a', ~ has_mb (chan_w s') a' m) /\
  (forall a' m', m' <> m -> has_mb (chan_w s) a' m' -> has_mb (chan_w s') a' m') /\
  subs s' = filter (fun p => negb (seqb (fst (fst p)) a && seqb (snd (fst p)) m)) (subs s) /\
  conns s' = map (fun p => if existsb (Nat.eqb (fst p)) (subs_of a m (subs s))
                           then (fst p, stop_listener (snd p)) else p) (conns s) /\
  now s' = now s /\ boot s' = boot s /\ timer_start s' = timer_start s /\
  next_due s' = next_due s /\ exists l, log s' = (l ++ log s)%list.

Lemma mailbox_close_spec a m side mood when s :
  RInv s -> clean s ->
  wp (mailbox_close cfg a m side mood when)
     (fun _ s' => (good s s' /\ mb_mono (chan_w s) (chan_w s')) \/ close_deleted a m s s')
     (fun _ _ => False) s.
Proof.
  intros [Hdb Hlog] [Hc Hu]. unfold mailbox_close. wp_step. wp_step.
  destruct (close_mark_body (chan_w s) a m side mood) as [[fornp d1]|] eqn:Ecm.
  - destruct (close_mark_body_ok _ _ _ _ _ _ _ Hdb Ecm) as (Hdb1 & Hmono1 & Hmb).
    cbv beta iota. wp_step. wp_step. wp_step. wp_step. cbn [chan_w set_chan_w].
    destruct (close_delete_body_ok cfg d1 a m fornp when Hdb1)
      as (r & d' & E & Hdb' & Hkeep & Hnone & Hgone).
    rewrite E. destruct r as [[unps umbs]|]; cbv beta iota.
    + assert (Hg : forall a', ~ has_mb d' a' m) by (apply Hgone; discriminate).
      assert (Hk : forall a' m', m' <> m -> has_mb (chan_w s) a' m' -> has_mb d' a' m').
      { intros a' m' Hne H. apply Hkeep; [exact Hne|]. apply Hmono1. exact H. }
      wp_step. destruct (usage_on cfg).
      * unfold write_usage. wp_step. wp_step. wp_step. wp_step. wp_step.
        apply wp_stop_listeners. right. unfold close_deleted.
        cbn [chan_w chan_c usage_w usage_c subs conns now boot timer_start next_due log
             set_subs set_conns set_chan_w set_usage_w].
        split; [split; [exact Hdb'|repeat apply log_ok_cons; cbn; auto]|].
        split; [split; reflexivity|]. split; [exact Hg|]. split; [exact Hk|].
        repeat split; auto. log_ext.
      * wp_step. wp_step. wp_step.
        apply wp_stop_listeners. right. unfold close_deleted.
        cbn [chan_w chan_c usage_w usage_c subs conns now boot timer_start next_due log
             set_subs set_conns set_chan_w set_usage_w].
        split; [split; [exact Hdb'|repeat apply log_ok_cons; cbn; auto]|].
        split; [split; [reflexivity|exact Hu]|]. split; [exact Hg|]. split; [exact Hk|].
        repeat split; auto. log_ext.
    + rewrite (Hnone eq_refl). wp_step. left. split; [solve_good|exact Hmono1].
  - cbv beta iota. wp_step. rewrite set_chan_w_same. left.
    split; [apply good_refl; split; auto|apply mb_mono_refl].
Qed.

(** * expiry: never fails; a mailbox with a subscriber survives *)
Definition prune_keeps (s s' : state) : Prop :=
  forall a m c, In (a, m, c) (subs s) -> has_mb (chan_w s) a m -> has_mb (chan_w s') a m.

Lemma prune_app_spec a when old s :
  RInv s -> clean s -> old < when ->
  wp (prune_app cfg a when old) (fun _ s' => good s s' /\ prune_keeps s s') (fun _ _ => False) s.
Proof.
  intros [Hdb Hlog] [Hc Hu] Hlt. unfold prune_app.
  destruct (touch_all_ok (chan_w s) (listened_mailboxes a (subs s)) when Hdb)
    as (Hdb1 & Hmono1 & Htouched & _).
  wp_step. wp_step. wp_step. wp_step. cbv beta iota.
  wp_step. wp_step. wp_step. wp_step. cbn [chan_w set_chan_w].
  set (d1 := touch_all (chan_w s) (listened_mailboxes a (subs s)) when) in *.
  destruct (prune_body_ok cfg d1 a when old Hdb1)
    as (modified & unps & umbs & d2 & E & Hdb2 & Hkeep & Hunmod).
  rewrite E. cbv beta iota.
  assert (PK : forall a' m c, In (a', m, c) (subs s) -> has_mb (chan_w s) a' m -> has_mb d2 a' m).
  { intros a' m c Hin Hmb. apply Hmono1 in Hmb. destruct Hmb as (r & Hr & Ha & Hm).
    exists r. split; [|split; assumption]. apply Hkeep; [exact Hr|].
    destruct (string_dec a' a) as [Heq|Hne].
    - right. rewrite Heq in Hin. rewrite (Htouched r Hr); [exact Hlt|].
      rewrite Hm. apply listened_In with c. exact Hin.
    - left. congruence. }
  wp_step. destruct modified.
  - destruct (usage_on cfg).
    + unfold write_usage. wp_step. wp_step. wp_step. wp_step.
      split; [solve_good|exact PK].
    + wp_step. wp_step. wp_step. wp_step. split; [solve_good|exact PK].
  - destruct (Hunmod eq_refl) as (-> & -> & ->). destruct (usage_on cfg).
    + unfold write_usage. wp_step. wp_step. split; [solve_good|exact PK].
    + wp_step. wp_step. split; [solve_good|exact PK].
Qed.

Lemma prune_apps_spec apps when old :
  old < when -> forall s, RInv s -> clean s ->
  wp (prune_apps cfg apps when old) (fun _ s' => good s s' /\ prune_keeps s s') (fun _ _ => False) s.
Proof.
  intros Hlt. induction apps as [|a rest IH]; intros s HR HC; cbn [prune_apps].
  - wp_step. split; [apply good_refl; assumption|]. intros a m c _ H. exact H.
  - wp_step. eapply wp_conseq; [exact (prune_app_spec a when old s HR HC Hlt)| |].
    + intros [] s1 [G1 K1].
      eapply wp_conseq; [exact (IH s1 (proj1 G1) (proj1 (proj2 G1)))| |].
      * intros [] s2 [G2 K2]. split; [eapply good_trans; eauto|].
        intros a' m c Hin Hmb. apply (K2 a' m c); [|apply (K1 a' m c); assumption].
        destruct G1 as (_ & _ & (Es & _)). rewrite Es. exact Hin.
      * intros e s' [].
    + intros e s' [].
Qed.

Lemma prune_all_apps_spec when old s :
  RInv s -> clean s -> old < when ->
  wp (prune_all_apps cfg when old) (fun _ s' => good s s' /\ prune_keeps s s') (fun _ _ => False) s.
Proof.
  intros HR HC Hlt. unfold prune_all_apps. wp_step. wp_step.
  apply prune_apps_spec; assumption.
Qed.

Lemma dump_stats_spec when rebooted s :
  RInv s -> clean s ->
  wp (dump_stats cfg when rebooted) (fun _ s' => good s s' /\ chan_w s' = chan_w s) (fun _ _ => False) s.
Proof.
  intros [Hdb Hlog] [Hc Hu]. unfold dump_stats. destruct (usage_on cfg).
  - wp_step. wp_step. wp_step. wp_step. wp_step. split; [solve_good|reflexivity].
  - wp_step. split; [apply good_refl; split; auto|reflexivity].
Qed.

Lemma log_client_version_spec a side when cv s :
  RInv s -> clean s ->
  wp (log_client_version cfg a side when cv)
     (fun _ s' => good s s' /\ chan_w s' = chan_w s) (fun _ _ => False) s.
Proof.
  intros [Hdb Hlog] [Hc Hu]. unfold log_client_version. destruct (usage_on cfg).
  - wp_step. wp_step. wp_step. split; [solve_good|reflexivity].
  - wp_step. split; [apply good_refl; split; auto|reflexivity].
Qed.

End WithConfig.
