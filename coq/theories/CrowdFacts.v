(** CrowdFacts.v -- C05: at most two sides ever share a nameplate or a mailbox. *)
From MW Require Import Base Store Monad Usage Server Websocket Service Findings
     Inv StoreFacts Hoare DbFactsA DbFactsB OpFacts ProtoFacts Obs StepFacts SweepFacts
     NpFactsA MbFactsA MbFactsB.
From Coq Require Import RelationClasses.
Local Open Scope list_scope.

Definition not_crash (e : event) : Prop := match e with ECrash _ _ => False | _ => True end.

(** the sides recorded for a mailbox / a nameplate, in arrival (rowid) order *)
Definition mb_side_list (d : chan_db) (m : string) : list string := map mbs_side (sel_mbs_all d m).
Definition np_side_list (d : chan_db) (i : Z) : list string := map nps_side (sel_nps_all d i).

(** every subscriber's side is one of the first two sides recorded for the mailbox *)
Definition subs_first_two (s : state) : Prop :=
  forall a m c, In (a, m, c) (subs s) ->
    exists side, bound_to s c a side /\ In side (firstn 2 (mb_side_list (chan_w s) m)).

(** * Auxiliary: lists *)

Lemma filter_filter_imp {A} (p q : A -> bool) l :
  (forall x, In x l -> p x = true -> q x = true) -> filter p (filter q l) = filter p l.
Proof.
  induction l as [|x l IH]; intros H; cbn [filter]; [reflexivity|].
  assert (IH' : filter p (filter q l) = filter p l).
  { apply IH. intros y Hy. apply H. right. exact Hy. }
  destruct (q x) eqn:Eq; cbn [filter].
  - rewrite IH'. reflexivity.
  - destruct (p x) eqn:Ep; [|exact IH'].
    rewrite (H x (or_introl eq_refl) Ep) in Eq. discriminate.
Qed.

Lemma filter_map_pres {A} (p : A -> bool) (g : A -> A) l :
  (forall x, p (g x) = p x) -> filter p (map g l) = map g (filter p l).
Proof.
  intros H. induction l as [|x l IH]; cbn [map filter]; [reflexivity|].
  rewrite H. destruct (p x); cbn [map]; rewrite IH; reflexivity.
Qed.

Lemma firstn_app_In {A} n (l l' : list A) x : In x (firstn n l) -> In x (firstn n (l ++ l')).
Proof. intros H. rewrite firstn_app. apply in_or_app. left. exact H. Qed.

Lemma In_firstn_short {A} n (l : list A) x : In x l -> (List.length l <= n)%nat -> In x (firstn n l).
Proof. intros H L. rewrite firstn_all2 by exact L. exact H. Qed.

Lemma not_firstn_long {A} n (l : list A) x : In x l -> ~ In x (firstn n l) -> (n < List.length l)%nat.
Proof.
  intros H Hn. destruct (Nat.lt_ge_cases n (List.length l)) as [L|L]; [exact L|].
  exfalso. apply Hn. apply In_firstn_short; assumption.
Qed.

Lemma firstn_snoc_long {A} n (l : list A) x : (n <= List.length l)%nat -> firstn n (l ++ [x]) = firstn n l.
Proof.
  intros L. rewrite firstn_app. replace (n - List.length l)%nat with 0%nat by lia.
  cbn [firstn]. apply app_nil_r.
Qed.

(** * The two ways a transaction changes the side tables *)

(** rows are appended (or re-marked in place): every side list is extended *)
Definition Grow (d d' : chan_db) : Prop :=
  (forall m, exists l, mb_side_list d' m = mb_side_list d m ++ l) /\
  (forall i, exists l, np_side_list d' i = np_side_list d i ++ l).

(** whole mailboxes / nameplates are deleted: what survives keeps its rows *)
Definition Shrink (d d' : chan_db) : Prop :=
  (forall m, Obs.mb_alive d' m -> Obs.mb_alive d m) /\
  (forall m, Obs.mb_alive d' m -> sel_mbs_all d' m = sel_mbs_all d m) /\
  (forall np, In np (nameplates d') -> In np (nameplates d)) /\
  (forall np, In np (nameplates d') -> sel_nps_all d' (np_id np) = sel_nps_all d (np_id np)).

(** what one event does: first growth, then deletion *)
Definition Step (d d' : chan_db) : Prop := exists d1, Grow d d1 /\ Shrink d1 d'.

Global Instance Grow_refl : Reflexive Grow.
Proof. intros d. split; intros x; exists []; rewrite app_nil_r; reflexivity. Qed.

Global Instance Grow_trans : Transitive Grow.
Proof.
  intros d1 d2 d3 [A1 A2] [B1 B2]. split.
  - intros m. destruct (A1 m) as [l1 E1]. destruct (B1 m) as [l2 E2].
    exists (l1 ++ l2). rewrite E2, E1, app_assoc. reflexivity.
  - intros i. destruct (A2 i) as [l1 E1]. destruct (B2 i) as [l2 E2].
    exists (l1 ++ l2). rewrite E2, E1, app_assoc. reflexivity.
Qed.

Global Instance Shrink_refl : Reflexive Shrink.
Proof. intros d. repeat split; auto. Qed.

Global Instance Shrink_trans : Transitive Shrink.
Proof.
  intros d1 d2 d3 (A1 & A2 & A3 & A4) (B1 & B2 & B3 & B4). split; [|split; [|split]].
  - auto.
  - intros m H. rewrite (B2 m H). apply A2. apply B1. exact H.
  - auto.
  - intros np H. rewrite (B4 np H). apply A4. apply B3. exact H.
Qed.

Global Instance Step_refl : Reflexive Step.
Proof. intros d. exists d. split; reflexivity. Qed.

Global Instance eq_db_refl : Reflexive (fun _ _ : chan_db => True).
Proof. intros d. exact I. Qed.
Global Instance eq_db_trans : Transitive (fun _ _ : chan_db => True).
Proof. intros d1 d2 d3 _ _. exact I. Qed.

Lemma Grow_Step d d' : Grow d d' -> Step d d'.
Proof. intros H. exists d'. split; [exact H|reflexivity]. Qed.

Lemma Shrink_Step d d' : Shrink d d' -> Step d d'.
Proof. intros H. exists d. split; [reflexivity|exact H]. Qed.

Lemma Grow_then_Step d1 d2 d3 : Grow d1 d2 -> Step d2 d3 -> Step d1 d3.
Proof. intros G (x & G2 & S). exists x. split; [etransitivity; eassumption|exact S]. Qed.

Lemma Step_then_Shrink d1 d2 d3 : Step d1 d2 -> Shrink d2 d3 -> Step d1 d3.
Proof. intros (x & G & S) S2. exists x. split; [exact G|etransitivity; eassumption]. Qed.

Lemma Grow_app d d' l1 l2 :
  mb_sides d' = mb_sides d ++ l1 -> np_sides d' = np_sides d ++ l2 -> Grow d d'.
Proof.
  intros E1 E2. split.
  - intros m. unfold mb_side_list, sel_mbs_all. rewrite E1, filter_app, map_app. eauto.
  - intros i. unfold np_side_list, sel_nps_all. rewrite E2, filter_app, map_app. eauto.
Qed.

Lemma Grow_same d d' : mb_sides d' = mb_sides d -> np_sides d' = np_sides d -> Grow d d'.
Proof. intros E1 E2. apply (Grow_app d d' [] []); rewrite app_nil_r; assumption. Qed.

Lemma Grow_map_mbs d d' g :
  (forall r, mbs_mbox (g r) = mbs_mbox r /\ mbs_side (g r) = mbs_side r) ->
  mb_sides d' = map g (mb_sides d) -> np_sides d' = np_sides d -> Grow d d'.
Proof.
  intros Hg E1 E2. split.
  - intros m. exists []. rewrite app_nil_r. unfold mb_side_list, sel_mbs_all. rewrite E1.
    rewrite filter_map_pres by (intros r; rewrite (proj1 (Hg r)); reflexivity).
    rewrite map_map. apply map_ext. intros r. apply Hg.
  - intros i. exists []. rewrite app_nil_r. unfold np_side_list, sel_nps_all. rewrite E2. reflexivity.
Qed.

Lemma Grow_map_nps d d' g :
  (forall r, nps_npid (g r) = nps_npid r /\ nps_side (g r) = nps_side r) ->
  np_sides d' = map g (np_sides d) -> mb_sides d' = mb_sides d -> Grow d d'.
Proof.
  intros Hg E1 E2. split.
  - intros m. exists []. rewrite app_nil_r. unfold mb_side_list, sel_mbs_all. rewrite E2. reflexivity.
  - intros i. exists []. rewrite app_nil_r. unfold np_side_list, sel_nps_all. rewrite E1.
    rewrite filter_map_pres by (intros r; rewrite (proj1 (Hg r)); reflexivity).
    rewrite map_map. apply map_ext. intros r. apply Hg.
Qed.

Lemma alive_ids d m : Obs.mb_alive d m <-> In m (map mb_id (mailboxes d)).
Proof.
  unfold Obs.mb_alive. rewrite in_map_iff. split; intros (r & H1 & H2); exists r; auto.
Qed.

Lemma Shrink_same d d' :
  mb_sides d' = mb_sides d -> np_sides d' = np_sides d -> nameplates d' = nameplates d ->
  map mb_id (mailboxes d') = map mb_id (mailboxes d) -> Shrink d d'.
Proof.
  intros E1 E2 E3 E4. split; [|split; [|split]].
  - intros m. rewrite !alive_ids, E4. auto.
  - intros m _. unfold sel_mbs_all. rewrite E1. reflexivity.
  - intros np. rewrite E3. auto.
  - intros np _. unfold sel_nps_all. rewrite E2. reflexivity.
Qed.

Lemma Shrink_rm_np d i : Shrink d (rm_np d i).
Proof.
  split; [|split; [|split]].
  - intros m H. exact H.
  - intros m _. reflexivity.
  - intros np H. unfold rm_np in H. cbn [nameplates] in H. apply filter_In in H. apply H.
  - intros np H. unfold rm_np in H. cbn [nameplates] in H. apply filter_In in H.
    destruct H as [_ H]. apply negb_true_iff, Z.eqb_neq in H.
    unfold sel_nps_all, rm_np. cbn [np_sides]. apply filter_filter_imp.
    intros x _ Hx. apply Z.eqb_eq in Hx. apply negb_true_iff, Z.eqb_neq. congruence.
Qed.

Lemma Shrink_rm_mb d m : Shrink d (rm_mb d m).
Proof.
  assert (K : forall m', Obs.mb_alive (rm_mb d m) m' -> Obs.mb_alive d m' /\ m' <> m).
  { intros m' (r & Hr & Ei). unfold rm_mb in Hr. cbn [mailboxes] in Hr. apply filter_In in Hr.
    destruct Hr as [Hr Hne]. apply negb_true_iff, seqb_neq in Hne.
    split; [exists r; auto|congruence]. }
  split; [|split; [|split]].
  - intros m' H. apply K. exact H.
  - intros m' H. destruct (K m' H) as [_ Hne].
    unfold sel_mbs_all, rm_mb. cbn [mb_sides]. apply filter_filter_imp.
    intros x _ Hx. apply seqb_eq in Hx. apply negb_true_iff, seqb_neq. congruence.
  - intros np H. exact H.
  - intros np _. reflexivity.
Qed.

Lemma Shrink_fold_rm_np ids : forall d, Shrink d (fold_left rm_np ids d).
Proof.
  induction ids as [|i rest IH]; intros d; cbn [fold_left]; [reflexivity|].
  etransitivity; [apply Shrink_rm_np|apply IH].
Qed.

Lemma Shrink_fold_rm_mb ms : forall d, Shrink d (fold_left rm_mb ms d).
Proof.
  induction ms as [|m rest IH]; intros d; cbn [fold_left]; [reflexivity|].
  etransitivity; [apply Shrink_rm_mb|apply IH].
Qed.

(** * Transaction bodies *)

(** [f] keeps the invariant [I] and relates the database it finds to the one it leaves by [R],
    whether it succeeds or fails *)
Definition txp {A} (I : chan_db -> Prop) (R : chan_db -> chan_db -> Prop)
           (f : chan_db -> txres A) : Prop :=
  forall d, I d -> match f d with
                   | TxOk _ d' => I d' /\ R d d'
                   | TxFail _ d' => I d' /\ R d d'
                   end.

Lemma upd_touch_tables d m w :
  mb_sides (upd_touch d m w) = mb_sides d /\ np_sides (upd_touch d m w) = np_sides d /\
  nameplates (upd_touch d m w) = nameplates d /\
  map mb_id (mailboxes (upd_touch d m w)) = map mb_id (mailboxes d).
Proof.
  repeat split. unfold upd_touch. cbn [set_mailboxes mailboxes]. rewrite map_map.
  apply map_ext. intros r. destruct (seqb (mb_id r) m); reflexivity.
Qed.

Lemma open_body_Grow d a m side w :
  match open_body d a m side w with
  | TxOk _ d' => Grow d d'
  | TxFail _ d' => Grow d d'
  end.
Proof.
  unfold open_body. destruct (add_mailbox d a m false w) as [d1|] eqn:E1; [|reflexivity].
  apply add_mailbox_tables in E1. destruct E1 as (A1 & A2 & _).
  assert (G1 : Grow d d1) by (apply Grow_same; assumption).
  destruct (mailbox_open_body d1 m side w) as [d2|] eqn:E2; [|exact G1].
  apply mailbox_open_body_tables in E2. destruct E2 as [B1 B2].
  etransitivity; [exact G1|]. destruct B2 as [B2|[r B2]].
  - apply Grow_same; assumption.
  - apply (Grow_app d1 d2 [r] []); [exact B2|rewrite app_nil_r; exact B1].
Qed.

Lemma open_body_txp a m side w : txp DbInv Grow (fun d => open_body d a m side w).
Proof.
  intros d Hinv. pose proof (open_body_ok d a m side w Hinv) as H.
  pose proof (open_body_Grow d a m side w) as G.
  destruct (open_body d a m side w) as [u d'|e d'].
  - split; [apply H|exact G].
  - destruct H as (_ & -> & _). split; [exact Hinv|exact G].
Qed.

Lemma claim_side_body_Grow d npid mbox side w :
  match claim_side_body d npid mbox side w with
  | TxOk _ d' => Grow d d'
  | TxFail _ d' => Grow d d'
  end.
Proof.
  unfold claim_side_body. destruct (sel_nps d npid side) as [r|].
  - destruct (nps_claimed r); reflexivity.
  - destruct (ins_nps d _) as [d1|] eqn:E; [|reflexivity].
    apply ins_nps_spec in E. destruct E as [_ ->].
    eapply (Grow_app _ _ [] [_]); cbn; [rewrite app_nil_r|]; reflexivity.
Qed.

Lemma claim_body_Grow d a n side w draw :
  match claim_body d a n side w draw with
  | TxOk _ d' => Grow d d'
  | TxFail _ d' => Grow d d'
  end.
Proof.
  unfold claim_body. destruct (sel_np d a n) as [row|].
  - apply claim_side_body_Grow.
  - destruct draw as [bytes|]; [|reflexivity]. cbv zeta.
    destruct (add_mailbox d a (genid bytes) true w) as [d1|] eqn:E1; [|reflexivity].
    apply add_mailbox_tables in E1. destruct E1 as (A1 & A2 & _).
    assert (G1 : Grow d d1) by (apply Grow_same; assumption).
    unfold ins_np. destruct (mb_exists d1 (genid bytes)); [|exact G1].
    match goal with |- match claim_side_body ?d2 ?i ?m ?s ?t with _ => _ end =>
      pose proof (claim_side_body_Grow d2 i m s t) as G2;
      assert (G12 : Grow d1 d2) by (apply Grow_same; reflexivity);
      destruct (claim_side_body d2 i m s t)
    end; (etransitivity; [exact G1|etransitivity; [exact G12|exact G2]]).
Qed.

Lemma claim_body_txp a n side w draw : txp DbInv Grow (fun d => claim_body d a n side w draw).
Proof.
  intros d Hinv. pose proof (claim_body_ok d a n side w draw Hinv) as H.
  pose proof (claim_body_Grow d a n side w draw) as G.
  destruct (claim_body d a n side w draw) as [[npid mbox] d'|e d'].
  - split; [apply H|exact G].
  - destruct H as (-> & _). split; [exact Hinv|exact G].
Qed.

Lemma release_mark_txp a n side :
  txp DbInv Grow (fun d => match release_mark_body d a n side with
                           | None => TxOk None d
                           | Some (npid, d1) => TxOk (Some npid) d1
                           end).
Proof.
  intros d Hinv. destruct (release_mark_body d a n side) as [[npid d1]|] eqn:E.
  - split; [apply (release_mark_body_ok _ _ _ _ _ _ Hinv E)|].
    unfold release_mark_body in E. destruct (sel_np d a n) as [np|]; [|discriminate].
    destruct (sel_nps d (np_id np) side); [|discriminate]. inversion E; subst.
    eapply Grow_map_nps; [|reflexivity|reflexivity].
    intros r. cbv beta. destruct (_ && _); split; reflexivity.
  - split; [exact Hinv|reflexivity].
Qed.

Lemma close_mark_txp a m side mood :
  txp DbInv Grow (fun d => match close_mark_body d a m side mood with
                           | None => TxOk None d
                           | Some (fornp, d1) => TxOk (Some fornp) d1
                           end).
Proof.
  intros d Hinv. destruct (close_mark_body d a m side mood) as [[f d1]|] eqn:E.
  - split; [apply (close_mark_body_ok _ _ _ _ _ _ _ Hinv E)|].
    unfold close_mark_body in E. destruct (sel_mb d a m) as [row|]; [|discriminate].
    destruct (sel_mbs d m side); [|discriminate]. inversion E; subst.
    eapply Grow_map_mbs; [|reflexivity|reflexivity].
    intros r. cbv beta. destruct (_ && _); split; reflexivity.
  - split; [exact Hinv|reflexivity].
Qed.

Section Deleting.
Variable cfg : config.

Lemma del_nps_form a when pruned : forall ids d acc us d',
  del_nameplates_body cfg d a ids when pruned acc = TxOk us d' -> d' = fold_left rm_np ids d.
Proof.
  induction ids as [|i rest IH]; intros d acc us d' H; cbn [del_nameplates_body fold_left] in *.
  - inversion H. reflexivity.
  - rewrite del_np_rm in H. destruct (usage_on cfg).
    + destruct (summarize_nameplate _ _ _ _ _); [|discriminate]. exact (IH _ _ _ _ H).
    + exact (IH _ _ _ _ H).
Qed.

Lemma del_mailbox_form d a m fornp rows when pruned us d' :
  del_mailbox_body cfg d a m fornp rows when pruned = TxOk us d' -> d' = rm_mb d m.
Proof.
  unfold del_mailbox_body, del_mb. cbv zeta.
  destruct (_ && _); [discriminate|]. intros H. inversion H. reflexivity.
Qed.

Lemma del_mbs_form a when : forall rows d acc us d',
  del_mailboxes_body cfg d a rows when acc = TxOk us d' ->
  d' = fold_left rm_mb (map mb_id rows) d.
Proof.
  induction rows as [|r rest IH]; intros d acc us d' H; cbn [del_mailboxes_body map fold_left] in *.
  - inversion H. reflexivity.
  - destruct (del_mailbox_body cfg d a (mb_id r) (mb_fornp r) (sel_mbs_all d (mb_id r)) when true)
      as [us1 d1|] eqn:E; [|discriminate].
    apply del_mailbox_form in E. subst d1. exact (IH _ _ _ _ H).
Qed.

Lemma close_delete_txp a m fornp when :
  txp DbInv Shrink (fun d => close_delete_body cfg d a m fornp when).
Proof.
  intros d Hinv. destruct (close_delete_body_ok cfg d a m fornp when Hinv) as (r & d' & E & Hinv' & _).
  rewrite E. split; [exact Hinv'|].
  unfold close_delete_body in E. cbv zeta in E.
  destruct (existsb mbs_opened (sel_mbs_all d m)); [inversion E; reflexivity|].
  destruct (del_nameplates_body cfg d a _ when false []) as [unps d1|] eqn:E1; [|discriminate].
  apply del_nps_form in E1.
  destruct (del_mailbox_body cfg d1 a m fornp _ when false) as [umbs d2|] eqn:E2; [|discriminate].
  apply del_mailbox_form in E2. inversion E; subst.
  etransitivity; [apply Shrink_fold_rm_np|apply Shrink_rm_mb].
Qed.

Lemma release_delete_txp a npid when :
  txp DbInv Shrink (fun d => release_delete_body cfg d a npid when).
Proof.
  intros d Hinv. unfold release_delete_body. cbv zeta.
  destruct (existsb nps_claimed (sel_nps_all d npid)); [split; [exact Hinv|reflexivity]|].
  rewrite del_np_rm.
  assert (K : DbInv (rm_np d npid) /\ Shrink d (rm_np d npid))
    by (split; [apply rm_np_inv; exact Hinv|apply Shrink_rm_np]).
  destruct (usage_on cfg); [|exact K].
  destruct (summarize_nameplate _ _ _ _ _); exact K.
Qed.

Lemma prune_body_txp a when old : txp DbInv Shrink (fun d => prune_body cfg d a when old).
Proof.
  intros d Hinv.
  destruct (prune_body_ok cfg d a when old Hinv) as (mo & u1 & u2 & d' & E & Hinv' & _).
  rewrite E. split; [exact Hinv'|].
  unfold prune_body in E. cbv zeta in E.
  destruct (del_nameplates_body cfg d a _ when true []) as [unps d1|] eqn:E1; [|discriminate].
  apply del_nps_form in E1.
  destruct (del_mailboxes_body cfg d1 a _ when []) as [umbs d2|] eqn:E2; [|discriminate].
  apply del_mbs_form in E2. inversion E; subst.
  etransitivity; [apply Shrink_fold_rm_np|apply Shrink_fold_rm_mb].
Qed.

End Deleting.

Lemma touch_all_tables ms w : forall d,
  mb_sides (touch_all d ms w) = mb_sides d /\ np_sides (touch_all d ms w) = np_sides d /\
  nameplates (touch_all d ms w) = nameplates d /\
  map mb_id (mailboxes (touch_all d ms w)) = map mb_id (mailboxes d).
Proof.
  induction ms as [|m rest IH]; intros d; cbn [touch_all]; [auto|].
  destruct (IH (upd_touch d m w)) as (A1 & A2 & A3 & A4).
  destruct (upd_touch_tables d m w) as (B1 & B2 & B3 & B4).
  rewrite A1, A2, A3, A4. auto.
Qed.

Lemma touch_all_txp ms w : txp DbInv Shrink (fun d => TxOk tt (touch_all d ms w)).
Proof.
  intros d Hinv. split; [apply (touch_all_ok d ms w Hinv)|].
  destruct (touch_all_tables ms w d) as (A1 & A2 & A3 & A4). apply Shrink_same; assumption.
Qed.

(** * Computations: invariant, side tables, bindings, subscriptions *)

Definition out {A} (r : res A) : state := match r with Ok _ s => s | Exn _ s => s end.

(** no connection's binding changes *)
Definition bsame (s s' : state) : Prop :=
  forall c, c_bound (conn_of s' c) = c_bound (conn_of s c).

(** no subscription is added, except (when [x]) for connection [c] *)
Definition subq (x : bool) (c : nat) (l l' : list (string * string * nat)) : Prop :=
  forall p, In p l' -> In p l \/ (x = true /\ snd p = c).

Lemma bsame_refl s : bsame s s.
Proof. intros c. reflexivity. Qed.

Lemma bsame_trans s1 s2 s3 : bsame s1 s2 -> bsame s2 s3 -> bsame s1 s3.
Proof. intros A B c. rewrite (B c). apply A. Qed.

Lemma bsame_conns s s' : conns s' = conns s -> bsame s s'.
Proof. intros E c. unfold conn_of. rewrite E. reflexivity. Qed.

Lemma subq_refl x c l : subq x c l l.
Proof. intros p H. left. exact H. Qed.

Lemma subq_trans x c l1 l2 l3 : subq x c l1 l2 -> subq x c l2 l3 -> subq x c l1 l3.
Proof. intros A B p H. destruct (B p H) as [H2|H2]; [apply A; exact H2|right; exact H2]. Qed.

Lemma subq_filter x c f l : subq x c l (filter f l).
Proof. intros p H. left. apply filter_In in H. apply H. Qed.

Lemma bsame_update s c X :
  c_bound X = c_bound (conn_of s c) -> bsame s (set_conns s (update_conn c X (conns s))).
Proof.
  intros E c1. unfold conn_of in *. cbn [conns set_conns].
  destruct (Nat.eq_dec c1 c) as [->|Hne].
  - destruct (lookup_conn c (conns s)) as [cs0|] eqn:El.
    + rewrite (lookup_update_same c X _ cs0 El). exact E.
    + rewrite (update_absent c X _ El), El. reflexivity.
  - rewrite (lookup_update_other c c1 X _ Hne). reflexivity.
Qed.

Section Generic.
Variable I : chan_db -> Prop.
Variable nw : bool.
Variable c : nat.
Variable b : option (string * string).

Definition post (R : chan_db -> chan_db -> Prop) (s s' : state) : Prop :=
  I (chan_w s') /\ R (chan_w s) (chan_w s') /\ bsame s s' /\ subq nw c (subs s) (subs s').

Definition HP {A} (R : chan_db -> chan_db -> Prop) (m : M A) : Prop :=
  forall s, I (chan_w s) -> c_bound (conn_of s c) = b -> post R s (out (m s)).

Lemma post_same R `{Reflexive _ R} s s' :
  chan_w s' = chan_w s -> conns s' = conns s -> subs s' = subs s -> I (chan_w s) -> post R s s'.
Proof.
  intros E1 E2 E3 HI. unfold post. rewrite E1, E3.
  split; [exact HI|]. split; [reflexivity|]. split; [apply bsame_conns; exact E2|apply subq_refl].
Qed.

Lemma post_comp (R1 R2 R3 : chan_db -> chan_db -> Prop) s1 s2 s3 :
  (forall x y z, R1 x y -> R2 y z -> R3 x z) -> post R1 s1 s2 -> post R2 s2 s3 -> post R3 s1 s3.
Proof.
  intros Hc (A1 & A2 & A3 & A4) (B1 & B2 & B3 & B4).
  split; [exact B1|]. split; [eapply Hc; eassumption|].
  split; [eapply bsame_trans; eassumption|eapply subq_trans; eassumption].
Qed.

Lemma post_weaken (R R' : chan_db -> chan_db -> Prop) s s' :
  (forall x y, R x y -> R' x y) -> post R s s' -> post R' s s'.
Proof. intros Hw (A1 & A2 & A3 & A4). split; [exact A1|]. split; [apply Hw; exact A2|auto]. Qed.

Lemma post_bound R s s' : post R s s' -> c_bound (conn_of s c) = b -> c_bound (conn_of s' c) = b.
Proof. intros (_ & _ & B & _) E. rewrite (B c). exact E. Qed.

Lemma HP_weaken {A} (R R' : chan_db -> chan_db -> Prop) (m : M A) :
  (forall x y, R x y -> R' x y) -> HP R m -> HP R' m.
Proof. intros Hw H s HI Hb. eapply post_weaken; [exact Hw|apply H; assumption]. Qed.

Lemma HP_bind_gen {A B} (R1 R2 R3 : chan_db -> chan_db -> Prop) (m : M A) (k : A -> M B) :
  (forall x y, R1 x y -> R3 x y) -> (forall x y z, R1 x y -> R2 y z -> R3 x z) ->
  HP R1 m -> (forall a, HP R2 (k a)) -> HP R3 (bind m k).
Proof.
  intros Hw Hc Hm Hk s HI Hb. unfold bind. specialize (Hm s HI Hb).
  destruct (m s) as [a s1|e s1]; cbn [out] in *.
  - eapply post_comp; [exact Hc|exact Hm|]. apply Hk; [apply Hm|].
    eapply post_bound; eassumption.
  - eapply post_weaken; [exact Hw|exact Hm].
Qed.

Lemma HP_bind {A B} R `{Transitive _ R} (m : M A) (k : A -> M B) :
  HP R m -> (forall a, HP R (k a)) -> HP R (bind m k).
Proof. apply HP_bind_gen; [auto|]. intros x y z. apply transitivity. Qed.

Lemma HP_try_catch {A} R `{Transitive _ R} (m : M A) (h : exn -> M A) :
  HP R m -> (forall e, HP R (h e)) -> HP R (try_catch m h).
Proof.
  intros Hm Hh s HI Hb. unfold try_catch. specialize (Hm s HI Hb).
  destruct (m s) as [a s1|e s1]; cbn [out] in *; [exact Hm|].
  eapply post_comp; [intros x y z; apply transitivity|exact Hm|]. apply Hh; [apply Hm|].
  eapply post_bound; eassumption.
Qed.

Lemma HP_ret {A} R `{Reflexive _ R} (a : A) : HP R (ret a).
Proof. intros s HI _. apply post_same; auto. Qed.

Lemma HP_raise {A} R `{Reflexive _ R} e : HP R (@raise A e).
Proof. intros s HI _. apply post_same; auto. Qed.

Lemma HP_err {A} R `{Reflexive _ R} : HP R (@err A).
Proof. apply HP_raise. assumption. Qed.

Lemma HP_get R `{Reflexive _ R} : HP R get.
Proof. intros s HI _. apply post_same; auto. Qed.

Lemma HP_q {A} R `{Reflexive _ R} (f : chan_db -> A) : HP R (q f).
Proof. intros s HI _. apply post_same; auto. Qed.

Lemma HP_utx R `{Reflexive _ R} f : HP R (utx f).
Proof. intros s HI _. apply post_same; auto. Qed.

Lemma HP_commit_chan R `{Reflexive _ R} : HP R commit_chan.
Proof. intros s HI _. apply post_same; auto. Qed.

Lemma HP_commit_usage R `{Reflexive _ R} : HP R commit_usage.
Proof. intros s HI _. apply post_same; auto. Qed.

Lemma HP_send R `{Reflexive _ R} c' f : HP R (send c' f).
Proof. intros s HI _. apply post_same; auto. Qed.

Lemma HP_tx {A} R (f : chan_db -> txres A) : txp I R f -> HP R (tx f).
Proof.
  intros Hf s HI _. unfold tx. specialize (Hf (chan_w s) HI).
  destruct (f (chan_w s)) as [a d|e d]; cbn [out]; destruct Hf as [H1 H2];
    (split; [exact H1|]; split; [exact H2|]; split; [apply bsame_conns; reflexivity|apply subq_refl]).
Qed.

Lemma HP_get_conn_bind {B} R (k : conn_state -> M B) :
  (forall cs, c_bound cs = b -> HP R (k cs)) -> HP R (bind (get_conn c) k).
Proof. intros H s HI Hb. change (bind (get_conn c) k s) with (k (conn_of s c) s). apply H; assumption. Qed.

Lemma HP_set_conn R `{Reflexive _ R} X : c_bound X = b -> HP R (set_conn c X).
Proof.
  intros E s HI Hb. cbn [set_conn out]. split; [exact HI|]. split; [reflexivity|].
  split; [apply bsame_update; congruence|apply subq_refl].
Qed.

Lemma HP_remove_sub R `{Reflexive _ R} a m c' : HP R (remove_sub a m c').
Proof.
  intros s HI _. cbn [remove_sub out]. split; [exact HI|]. split; [reflexivity|].
  split; [apply bsame_conns; reflexivity|apply subq_filter].
Qed.

Lemma HP_add_sub R `{Reflexive _ R} a m : nw = true -> HP R (add_sub a m c).
Proof.
  intros Hx s HI _. unfold add_sub. destruct (existsb _ _); cbn [out]; [apply post_same; auto|].
  split; [exact HI|]. split; [reflexivity|]. split; [apply bsame_conns; reflexivity|].
  intros p Hp. cbn [subs set_subs] in Hp. apply in_app_or in Hp.
  destruct Hp as [Hp|[<-|[]]]; [left; exact Hp|right; split; [exact Hx|reflexivity]].
Qed.

Lemma HP_stop_listeners R `{Reflexive _ R} a m : HP R (stop_listeners a m).
Proof.
  intros s HI _. cbn [stop_listeners out]. split; [exact HI|]. split; [reflexivity|]. split.
  - intros c1. unfold conn_of. cbn [conns set_conns set_subs].
    rewrite (lookup_map_if (fun x => existsb (Nat.eqb x) (subs_of a m (subs s))) stop_listener).
    destruct (lookup_conn c1 (conns s)) as [cs|]; [|reflexivity].
    destruct (existsb _ _); reflexivity.
  - cbn [subs set_subs]. apply subq_filter.
Qed.

End Generic.

Ltac hp_ops := fail.
Ltac tc := typeclasses eauto.
Ltac hp_side := solve [assumption | cbn; assumption].
Ltac hp_step :=
  first
    [ hp_ops
    | apply HP_ret; [tc] | apply HP_raise; [tc] | apply HP_err; [tc] | apply HP_get; [tc]
    | apply HP_q; [tc] | apply HP_utx; [tc]
    | apply HP_commit_chan; [tc] | apply HP_commit_usage; [tc] | apply HP_send; [tc]
    | apply HP_remove_sub; [tc] | apply HP_add_sub; [tc|reflexivity] | apply HP_stop_listeners; [tc]
    | apply HP_set_conn; [tc|hp_side]
    | apply HP_get_conn_bind; intros ? ?
    | apply HP_bind; [tc| |intros ?]
    | match goal with
      | |- HP _ _ _ _ _ (match ?y with _ => _ end) => destruct y
      end ].
Ltac hp := repeat hp_step.

Lemma HP_open_mailbox nw c b a m side w : HP DbInv nw c b Grow (open_mailbox a m side w).
Proof.
  unfold open_mailbox. hp_step; [apply HP_tx, open_body_txp|]. hp.
Qed.

Ltac hp_tx :=
  apply HP_tx;
  first [ apply open_body_txp | apply claim_body_txp | apply release_mark_txp
        | apply close_mark_txp | apply close_delete_txp | apply release_delete_txp
        | apply prune_body_txp | apply touch_all_txp ].

Ltac hp_step ::=
  first
    [ hp_ops
    | apply HP_ret; [tc] | apply HP_raise; [tc] | apply HP_err; [tc] | apply HP_get; [tc]
    | apply HP_q; [tc] | apply HP_utx; [tc]
    | apply HP_commit_chan; [tc] | apply HP_commit_usage; [tc] | apply HP_send; [tc]
    | apply HP_remove_sub; [tc] | apply HP_add_sub; [tc|reflexivity] | apply HP_stop_listeners; [tc]
    | apply HP_set_conn; [tc|hp_side]
    | hp_tx
    | apply HP_get_conn_bind; intros ? ?
    | apply HP_bind; [tc| |intros ?]
    | apply HP_try_catch; [tc| |intros ?]
    | match goal with
      | |- HP _ _ _ _ _ (match ?y with _ => _ end) => destruct y
      end ].

Lemma HP_bind_GS I nw c b {A B} (m : M A) (k : A -> M B) :
  HP I nw c b Grow m -> (forall a, HP I nw c b Step (k a)) -> HP I nw c b Step (bind m k).
Proof. apply HP_bind_gen; [exact Grow_Step|exact Grow_then_Step]. Qed.

Lemma HP_bind_SS I nw c b {A B} (m : M A) (k : A -> M B) :
  HP I nw c b Step m -> (forall a, HP I nw c b Shrink (k a)) -> HP I nw c b Step (bind m k).
Proof. apply HP_bind_gen; [auto|exact Step_then_Shrink]. Qed.

Lemma HP_Grow_Step I nw c b {A} (m : M A) : HP I nw c b Grow m -> HP I nw c b Step m.
Proof. apply HP_weaken. exact Grow_Step. Qed.

Lemma HP_Shrink_Step I nw c b {A} (m : M A) : HP I nw c b Shrink m -> HP I nw c b Step m.
Proof. apply HP_weaken. exact Shrink_Step. Qed.

(** ** the operations of server.py *)

Ltac hp_ops ::= first [ apply HP_open_mailbox ].

Lemma HP_claim_nameplate nw c b a n side w draw : HP DbInv nw c b Grow (claim_nameplate a n side w draw).
Proof. unfold claim_nameplate. hp. Qed.

Ltac hp_ops ::= first [ apply HP_open_mailbox | apply HP_claim_nameplate ].

Lemma HP_allocate_nameplate nw c b a side w o draw :
  HP DbInv nw c b Grow (allocate_nameplate a side w o draw).
Proof. unfold allocate_nameplate. hp. Qed.

Section Ops.
Variable cfg : config.

Lemma HP_release_nameplate nw c b a n side w : HP DbInv nw c b Step (release_nameplate cfg a n side w).
Proof.
  unfold release_nameplate. apply HP_bind_GS; [hp_tx|]. intros [npid|]; [|hp].
  apply HP_Shrink_Step. unfold write_usage. hp.
Qed.

Lemma HP_mailbox_close nw c b a m side mood w : HP DbInv nw c b Step (mailbox_close cfg a m side mood w).
Proof.
  unfold mailbox_close. apply HP_bind_GS; [hp_tx|]. intros [fornp|]; [|hp].
  apply HP_Shrink_Step. unfold write_usage. hp.
Qed.

Lemma HP_log_client_version I nw c b R `{Reflexive _ R} `{Transitive _ R} a side w cv :
  HP I nw c b R (log_client_version cfg a side w cv).
Proof. unfold log_client_version. hp. Qed.

End Ops.

(** ** the sweep, for any invariant and relation the two sweep transactions respect *)
Section SweepGen.
Variable cfg : config.
Variable I : chan_db -> Prop.
Variable R : chan_db -> chan_db -> Prop.
Context `{HR : Reflexive _ R} `{HT : Transitive _ R}.
Hypothesis Htouch : forall ms w, txp I R (fun d => TxOk tt (touch_all d ms w)).
Hypothesis Hprune : forall a w o, txp I R (fun d => prune_body cfg d a w o).
Variable nw : bool.
Variable c : nat.
Variable b : option (string * string).

Lemma HP_prune_app a w o : HP I nw c b R (prune_app cfg a w o).
Proof.
  unfold prune_app, write_usage. hp_step; [hp|]. hp_step; [apply HP_tx, Htouch|].
  hp_step; [hp|]. hp_step; [apply HP_tx, Hprune|]. hp.
Qed.

Lemma HP_prune_apps w o : forall apps, HP I nw c b R (prune_apps cfg apps w o).
Proof.
  induction apps as [|a rest IH]; cbn [prune_apps]; [hp|].
  hp_step; [apply HP_prune_app|exact IH].
Qed.

Lemma HP_expire fault : HP I nw c b R (expire cfg fault).
Proof.
  unfold expire, prune_all_apps, dump_stats. hp_step; [hp|]. hp_step.
  - destruct fault; [hp|]. hp_step; [|hp]. hp_step; [hp|]. apply HP_prune_apps.
  - hp.
Qed.

End SweepGen.

Lemma txp_triv {A} (f : chan_db -> txres A) : txp (fun _ => True) (fun _ _ => True) f.
Proof. intros d _. destruct (f d); auto. Qed.

Lemma HP_expire_db cfg nw c b fault : HP DbInv nw c b Shrink (expire cfg fault).
Proof. apply HP_expire; [tc|tc|intros; apply touch_all_txp|intros; apply prune_body_txp]. Qed.

Lemma HP_expire_triv cfg nw c b fault :
  HP (fun _ => True) nw c b (fun _ _ => True) (expire cfg fault).
Proof. apply HP_expire; [tc|tc|intros; apply txp_triv|intros; apply txp_triv]. Qed.

(** ** the handlers of server_websocket.py *)

Lemma HP_send_each I nw c b R `{Reflexive _ R} `{Transitive _ R} c' l : HP I nw c b R (send_each c' l).
Proof. induction l as [|r rest IH]; cbn [send_each]; [hp|]. hp_step; [hp|exact IH]. Qed.

Ltac hp_ops ::=
  first [ apply HP_open_mailbox | apply HP_claim_nameplate | apply HP_allocate_nameplate
        | apply HP_send_each; [tc|tc] | apply HP_log_client_version; [tc|tc] ].

Section Handlers.
Variable cfg : config.

Lemma HP_handle_ping I nw c b R `{Reflexive _ R} msg : HP I nw c b R (handle_ping c msg).
Proof. unfold handle_ping. hp. Qed.

Lemma HP_handle_list I nw c b R `{Reflexive _ R} `{Transitive _ R} a :
  HP I nw c b R (handle_list cfg c a).
Proof. unfold handle_list. hp. Qed.

Lemma HP_handle_allocate nw c b a side o : HP DbInv nw c b Grow (handle_allocate c a side o).
Proof. unfold handle_allocate. hp. Qed.

Lemma HP_handle_claim nw c b a side msg o : HP DbInv nw c b Grow (handle_claim c a side msg o).
Proof. unfold handle_claim, catch_crowded_reclaimed. hp. Qed.

Lemma HP_handle_open c b a side msg : HP DbInv true c b Grow (handle_open c a side msg).
Proof. unfold handle_open, catch_crowded, get_messages. hp. Qed.

Lemma HP_handle_release nw c b a side msg : HP DbInv nw c b Step (handle_release cfg c a side msg).
Proof.
  unfold handle_release. apply HP_get_conn_bind. intros cs Hcs.
  destruct (c_did_release cs); [hp|].
  apply HP_bind_GS; [hp|]. intros n.
  apply HP_bind_GS; [hp|]. intros _.
  apply HP_bind_GS; [hp|]. intros s.
  apply HP_bind_SS; [apply HP_release_nameplate|]. intros _. hp.
Qed.

Lemma HP_handle_close nw c b a side msg : HP DbInv nw c b Step (handle_close cfg c a side msg).
Proof.
  unfold handle_close, catch_crowded. apply HP_get_conn_bind. intros cs Hcs.
  destruct (c_did_close cs); [hp|].
  apply HP_bind_GS; [hp|]. intros m.
  apply HP_bind_GS; [hp|]. intros s.
  apply HP_bind_GS; [hp|]. intros held.
  apply HP_get_conn_bind. intros cs2 Hcs2.
  apply HP_bind_GS; [hp|]. intros _.
  apply HP_get_conn_bind. intros cs3 Hcs3.
  apply HP_bind_GS; [hp|]. intros _.
  apply HP_bind_SS; [apply HP_mailbox_close|]. intros _. hp.
Qed.

End Handlers.

(** * A command as a whole *)

(** a binding, once made, stays *)
Definition bmono (s s' : state) : Prop :=
  forall c1, c_bound (conn_of s c1) = None \/ c_bound (conn_of s' c1) = c_bound (conn_of s c1).

Definition post2 (nw : bool) (c : nat) (s s' : state) : Prop :=
  DbInv (chan_w s') /\ Step (chan_w s) (chan_w s') /\ bmono s s' /\ subq nw c (subs s) (subs s').

Lemma post_post2 nw c (R : chan_db -> chan_db -> Prop) (s s' : state) :
  (forall x y, R x y -> Step x y) -> post DbInv nw c R s s' -> post2 nw c s s'.
Proof.
  intros Hw (A1 & A2 & A3 & A4). split; [exact A1|]. split; [apply Hw; exact A2|].
  split; [|exact A4]. intros c1. right. apply A3.
Qed.

Lemma post2_refl nw c s : DbInv (chan_w s) -> post2 nw c s s.
Proof.
  intros H. split; [exact H|]. split; [reflexivity|]. split; [|apply subq_refl].
  intros c1. right. reflexivity.
Qed.

Lemma subq_weaken nw c l l' : subq false c l l' -> subq nw c l l'.
Proof. intros H p Hp. destruct (H p Hp) as [K|[K _]]; [left; exact K|discriminate]. Qed.

Lemma open_body_side d a m side w d' :
  open_body d a m side w = TxOk tt d' -> In side (mb_side_list d' m).
Proof.
  unfold open_body. destruct (add_mailbox d a m false w) as [d1|]; [|discriminate].
  destruct (mailbox_open_body d1 m side w) as [d2|] eqn:E2; [|discriminate].
  intros H; inversion H; subst d2. unfold mailbox_open_body in E2.
  unfold mb_side_list. apply in_map_iff.
  destruct (sel_mbs d1 m side) as [r|] eqn:Es.
  - inversion E2. apply sel_mbs_some in Es. destruct Es as (Hin & Hm & Hs).
    exists r. split; [exact Hs|]. apply sel_mbs_all_In. split; [exact Hin|exact Hm].
  - destruct (ins_mbs d1 _) as [d3|] eqn:E3; [|discriminate].
    apply ins_mbs_spec in E3. destruct E3 as [_ ->]. inversion E2.
    exists (mkMbs m true side w None). split; [reflexivity|]. apply sel_mbs_all_In.
    split; [|reflexivity]. cbn. apply in_or_app. right. left. reflexivity.
Qed.

(** the two ways `open` can end, as far as subscriptions are concerned *)
Lemma handle_open_cases c a side msg s (P : state -> Prop) :
  (forall s', subs s' = subs s -> P s') ->
  (forall m d' s', open_body (chan_w s) a m side (now s) = TxOk tt d' ->
                   (List.length (sel_mbs_all d' m) <= 2)%nat -> chan_w s' = d' ->
                   (subs s' = subs s \/ subs s' = subs s ++ [(a, m, c)]) -> P s') ->
  P (out (handle_open c a side msg s)).
Proof.
  intros Hsame Hnew. unfold handle_open. rewrite bind_get_conn.
  destruct (c_mailbox (conn_of s c)); [apply Hsame; reflexivity|].
  destruct (m_mailbox msg) as [m|]; [|apply Hsame; reflexivity].
  set (s1 := set_conns s (update_conn c (set_mailbox_id (conn_of s c) (Some m)) (conns s))).
  rewrite (bind_ok _ _ s tt s1) by reflexivity.
  rewrite (bind_ok get _ s1 s1 s1) by reflexivity.
  unfold bind at 1. unfold catch_crowded, try_catch. rewrite open_mailbox_eval.
  change (chan_w s1) with (chan_w s). change (now s1) with (now s).
  destruct (open_body (chan_w s) a m side (now s)) as [[] d'|e d1] eqn:Eob.
  - cbv zeta. destruct (2 <? List.length (sel_mbs_all d' m))%nat eqn:E23.
    + apply Hsame. reflexivity.
    + match goal with |- P (out (_ ?st)) => set (s2 := st) end.
      rewrite bind_get_conn.
      match goal with |- context [set_conn c ?X] =>
        set (s3 := set_conns s2 (update_conn c X (conns s2))) end.
      rewrite (bind_ok _ _ s2 tt s3) by reflexivity.
      set (s4 := if existsb (sub_is a m c) (subs s3) then s3
                 else set_subs s3 (subs s3 ++ [(a, m, c)])).
      rewrite (bind_ok _ _ s3 tt s4) by reflexivity.
      unfold get_messages. rewrite (bind_ok _ _ s4 (msg_sort (sel_msgs (chan_w s4) a m)) s4) by reflexivity.
      rewrite send_each_eval. cbn [out].
      apply (Hnew m d'); [exact Eob|apply Nat.ltb_ge; exact E23| |];
        cbn [chan_w subs set_log]; unfold s4; destruct (existsb _ _); auto.
  - apply Hsame. destruct e; reflexivity.
Qed.

(** a subscription added by `open` belongs to one of the first two sides *)
Lemma handle_open_new c a side msg s :
  let s' := out (handle_open c a side msg s) in
  forall p, In p (subs s') -> In p (subs s) \/
    exists m, p = (a, m, c) /\ In side (firstn 2 (mb_side_list (chan_w s') m)).
Proof.
  apply handle_open_cases.
  - intros s' E. cbv zeta. intros p Hp. left. rewrite <- E. exact Hp.
  - intros m d' s' Eob L Ew Hs. cbv zeta. intros p Hp.
    destruct Hs as [Es|Es]; rewrite Es in Hp; [left; exact Hp|].
    apply in_app_or in Hp. destruct Hp as [Hp|[<-|[]]]; [left; exact Hp|right].
    exists m. split; [reflexivity|]. rewrite Ew.
    apply In_firstn_short; [exact (open_body_side _ _ _ _ _ _ Eob)|].
    unfold mb_side_list. rewrite map_length. exact L.
Qed.

Section Dispatch.
Variable cfg : config.

Lemma handle_add_post nw c a side msg s :
  DbInv (chan_w s) ->
  (forall m, c_mailbox (conn_of s c) = Some m -> has_mb (chan_w s) a m) ->
  post DbInv nw c Grow s (out (handle_add c a side msg s)).
Proof.
  intros Hinv Hheld. unfold handle_add. rewrite bind_get_conn.
  assert (Hid : post DbInv nw c Grow s s) by (apply post_same; [tc|auto..]).
  destruct (c_mailbox (conn_of s c)) as [m|] eqn:Em; [|exact Hid].
  destruct (m_phase msg) as [phase|]; [|exact Hid].
  destruct (m_body msg) as [body|]; [|exact Hid].
  rewrite (bind_ok get _ s s s) by reflexivity. unfold add_message.
  set (r := mkMsg a m side phase body (now s) (m_id msg)).
  set (d1 := upd_touch (ins_msg (chan_w s) r) m (msg_rx r)).
  rewrite (bind_ok _ _ s tt (set_chan_w s d1)) by reflexivity.
  match goal with |- context [bind commit_chan ?k ?st] =>
    let s2 := eval cbn in (out (commit_chan st)) in
    rewrite (bind_ok commit_chan k st tt s2) by reflexivity end.
  match goal with |- context [bind get ?k ?st] =>
    rewrite (bind_ok get k st st st) by reflexivity end.
  rewrite send_all_eval. cbn [out chan_w set_log subs conns].
  destruct (add_msg_ok (chan_w s) r Hinv (Hheld m eq_refl)) as [Hinv' _].
  split; [exact Hinv'|]. split; [apply Grow_same; reflexivity|].
  split; [apply bsame_conns; reflexivity|apply subq_refl].
Qed.

Lemma handle_bind_post2 c msg s :
  DbInv (chan_w s) -> post2 false c s (out (handle_bind cfg c msg s)).
Proof.
  intros Hinv. unfold handle_bind. rewrite bind_get_conn.
  pose proof (post2_refl false c s Hinv) as Hid.
  destruct (c_bound (conn_of s c)) eqn:Eb; [exact Hid|].
  destruct (m_appid msg) as [a|]; [|exact Hid].
  destruct (m_side msg) as [side|]; [|exact Hid].
  set (s1 := set_conns s (update_conn c (set_bound (conn_of s c) (Some (a, side))) (conns s))).
  rewrite (bind_ok _ _ s tt s1) by reflexivity.
  match goal with |- post2 _ _ _ (out (?m s1)) =>
    assert (H1 : HP DbInv false c (c_bound (conn_of s1 c)) Grow m) by hp;
    specialize (H1 s1 Hinv eq_refl); destruct H1 as (A1 & A2 & A3 & A4)
  end.
  split; [exact A1|]. split; [apply Grow_Step; exact A2|]. split; [|exact A4].
  intros c1. rewrite (A3 c1). destruct (Nat.eq_dec c1 c) as [->|Hne]; [left; exact Eb|right].
  unfold conn_of, s1. cbn [conns set_conns]. rewrite (lookup_update_other c c1 _ _ Hne). reflexivity.
Qed.

Definition is_open (t : mtype) : bool := match t with TOpen => true | _ => false end.

Lemma dispatch_post2 c t msg o s :
  DbInv (chan_w s) ->
  (forall a side m, c_bound (conn_of s c) = Some (a, side) ->
                    c_mailbox (conn_of s c) = Some m -> has_mb (chan_w s) a m) ->
  post2 (is_open t) c s (out (dispatch cfg c t msg o s)).
Proof.
  intros Hinv Hheld.
  assert (HG : forall nw m, HP DbInv nw c (c_bound (conn_of s c)) Grow m ->
                            post2 nw c s (out (m s : res unit))).
  { intros nw m H. apply (post_post2 nw c Grow); [exact Grow_Step|]. apply H; auto. }
  assert (HS : forall nw m, HP DbInv nw c (c_bound (conn_of s c)) Step m ->
                            post2 nw c s (out (m s : res unit))).
  { intros nw m H. apply (post_post2 nw c Step); [auto|]. apply H; auto. }
  destruct t; unfold dispatch; cbv iota;
    try (apply HG; apply HP_handle_ping; tc);
    try (apply handle_bind_post2; exact Hinv);
    rewrite bind_get_conn;
    (destruct (c_bound (conn_of s c)) as [[a side]|] eqn:Eb; [|apply post2_refl; exact Hinv]).
  - apply HG. apply HP_handle_list; tc.
  - apply HG. apply HP_handle_allocate.
  - apply HG. apply HP_handle_claim.
  - apply HS. apply HP_handle_release.
  - apply HG. apply HP_handle_open.
  - apply (post_post2 _ c Grow); [exact Grow_Step|].
    apply handle_add_post; [exact Hinv|]. intros m Hm. exact (Hheld a side m eq_refl Hm).
  - apply HS. apply HP_handle_close.
  - apply post2_refl. exact Hinv.
Qed.

End Dispatch.

(** * Events *)

(** what one (non-crashing) event does to the side tables, the bindings and the subscriptions *)
Definition evt_rel (s s' : state) : Prop :=
  Step (chan_w s) (chan_w s') /\
  (forall c1 cs', lookup_conn c1 (conns s') = Some cs' ->
                  c_bound (conn_of s c1) = None \/ c_bound cs' = c_bound (conn_of s c1)) /\
  (forall p, In p (subs s') -> In p (subs s) \/
     exists a m c side, p = (a, m, c) /\
       (forall cs', lookup_conn c (conns s') = Some cs' -> c_bound cs' = Some (a, side)) /\
       In side (firstn 2 (mb_side_list (chan_w s') m))).

Definition post3 (c : nat) (s s' : state) : Prop :=
  DbInv (chan_w s') /\ Step (chan_w s) (chan_w s') /\ bmono s s' /\
  (forall p, In p (subs s') -> In p (subs s) \/
     exists a m side, p = (a, m, c) /\ c_bound (conn_of s' c) = Some (a, side) /\
                      In side (firstn 2 (mb_side_list (chan_w s') m))).

Lemma post3_refl c s : DbInv (chan_w s) -> post3 c s s.
Proof.
  intros H. split; [exact H|]. split; [reflexivity|]. split; [intros c1; right; reflexivity|].
  intros p Hp. left. exact Hp.
Qed.

Lemma evt_rel_refl s : evt_rel s s.
Proof.
  split; [reflexivity|]. split.
  - intros c1 cs' H. right. unfold conn_of. rewrite H. reflexivity.
  - intros p Hp. left. exact Hp.
Qed.

Lemma evt_rel_post3 c s s' : post3 c s s' -> evt_rel s s'.
Proof.
  intros (_ & A & B & C). split; [exact A|]. split.
  - intros c1 cs' H. destruct (B c1) as [K|K]; [left; exact K|right].
    rewrite <- K. unfold conn_of. rewrite H. reflexivity.
  - intros p Hp. destruct (C p Hp) as [K|(a & m & side & E & Hb & Hs)]; [left; exact K|right].
    exists a, m, c, side. split; [exact E|]. split; [|exact Hs].
    intros cs' H. rewrite <- Hb. unfold conn_of. rewrite H. reflexivity.
Qed.

Lemma drop_conn_parts c s :
  chan_w (drop_conn c s) = chan_w s /\ conns (drop_conn c s) = remove_conn c (conns s) /\
  incl (subs (drop_conn c s)) (subs s).
Proof.
  unfold drop_conn, on_close. rewrite bind_get_conn.
  destruct (c_mailbox (conn_of s c)); [|cbn; auto using incl_refl].
  destruct (c_bound (conn_of s c)) as [[a side]|]; [|cbn; auto using incl_refl].
  destruct (c_listening (conn_of s c)); cbn; [|auto using incl_refl].
  split; [reflexivity|]. split; [reflexivity|]. intros p Hp. apply filter_In in Hp. apply Hp.
Qed.

Lemma evt_rel_drop c s s' : post3 c s s' -> evt_rel s (drop_conn c s').
Proof.
  intros (_ & A & B & C). destruct (drop_conn_parts c s') as (E1 & E2 & E3).
  unfold evt_rel. rewrite E1. split; [exact A|]. rewrite E2. split.
  - intros c1 cs' H. destruct (Nat.eq_dec c1 c) as [->|Hne].
    + rewrite lookup_remove_same in H. discriminate.
    + rewrite (lookup_remove_other c c1 _ Hne) in H.
      destruct (B c1) as [K|K]; [left; exact K|right].
      rewrite <- K. unfold conn_of. rewrite H. reflexivity.
  - intros p Hp. apply E3 in Hp.
    destruct (C p Hp) as [K|(a & m & side & E & Hb & Hs)]; [left; exact K|right].
    exists a, m, c, side. split; [exact E|]. split; [|exact Hs].
    intros cs' H. rewrite lookup_remove_same in H. discriminate.
Qed.

Lemma held_has_mb s c :
  SInv s ->
  forall a side m, c_bound (conn_of s c) = Some (a, side) ->
                   c_mailbox (conn_of s c) = Some m -> has_mb (chan_w s) a m.
Proof.
  intros HS a side m Hb Hm. unfold conn_of in *.
  destruct (lookup_conn c (conns s)) as [cs|] eqn:El; [|discriminate].
  pose proof (si_conns s HS c cs El) as Hok. unfold conn_ok in Hok. rewrite Hm in Hok.
  destruct Hok as (a' & side' & Hb' & _ & Hin).
  destruct (si_subs s HS _ Hin) as [Hmb _]. congruence.
Qed.

Section Events.
Variable cfg : config.

Lemma dispatch_post3 c t msg o s :
  DbInv (chan_w s) ->
  (forall a side m, c_bound (conn_of s c) = Some (a, side) ->
                    c_mailbox (conn_of s c) = Some m -> has_mb (chan_w s) a m) ->
  post3 c s (out (dispatch cfg c t msg o s)).
Proof.
  intros Hinv Hheld. destruct (dispatch_post2 cfg c t msg o s Hinv Hheld) as (A & B & C & D).
  split; [exact A|]. split; [exact B|]. split; [exact C|].
  destruct t; try (intros p Hp; destruct (D p Hp) as [K|[K _]]; [left; exact K|discriminate]).
  clear D. revert A B C. unfold dispatch. rewrite bind_get_conn.
  destruct (c_bound (conn_of s c)) as [[a side]|] eqn:Eb; [|intros _ _ _ p Hp; left; exact Hp].
  intros A B C p Hp. destruct (handle_open_new c a side msg s p Hp) as [K|(m & E & Hs)];
    [left; exact K|right].
  exists a, m, side. split; [exact E|]. split; [|exact Hs].
  destruct (C c) as [K|K]; [congruence|]. rewrite K. exact Eb.
Qed.

Lemma on_message_post3 c msg o s :
  DbInv (chan_w s) ->
  (forall a side m, c_bound (conn_of s c) = Some (a, side) ->
                    c_mailbox (conn_of s c) = Some m -> has_mb (chan_w s) a m) ->
  post3 c s (out (on_message cfg c msg o s)).
Proof.
  intros Hinv Hheld. unfold on_message, try_catch. destruct (m_type msg) as [t|].
  - set (s0 := set_log s (LFrame c (FAck (m_id msg)) (is_clean s) (now s) :: log s)).
    rewrite (bind_ok _ _ s tt s0) by reflexivity.
    pose proof (dispatch_post3 c t msg o s0 Hinv Hheld) as H.
    destruct (dispatch cfg c t msg o s0) as [u s1|e s1]; cbn [out] in H; [exact H|].
    destruct e; exact H.
  - exact (post3_refl c s Hinv).
Qed.

Lemma expire_rel fault s :
  DbInv (chan_w s) ->
  let s' := out (expire cfg fault s) in
  Shrink (chan_w s) (chan_w s') /\ bsame s s' /\ incl (subs s') (subs s).
Proof.
  intros Hinv. destruct (HP_expire_db cfg false 0%nat _ fault s Hinv eq_refl) as (_ & A & B & C).
  split; [exact A|]. split; [exact B|]. intros p Hp.
  destruct (C p Hp) as [K|[K _]]; [exact K|discriminate].
Qed.

Lemma evt_rel_expire fault s : DbInv (chan_w s) -> evt_rel s (out (expire cfg fault s)).
Proof.
  intros Hinv. destruct (expire_rel fault s Hinv) as (A & B & C).
  split; [apply Shrink_Step; exact A|]. split.
  - intros c1 cs' H. right. rewrite <- (B c1). unfold conn_of. rewrite H. reflexivity.
  - intros p Hp. left. apply C. exact Hp.
Qed.

Lemma step_b_rel s b : SInv s -> evt_rel s (fst (fst (step_b cfg s b))).
Proof.
  intros HS. pose proof (si_db s HS) as Hinv.
  destruct b as [c|c m o|c|fault|dt fault]; unfold step_b.
  - destruct (has_conn c s); [apply evt_rel_refl|].
    unfold run_m, on_open, send. cbn [fst]. split; [reflexivity|]. split.
    + intros c1 cs' H. cbn [conns set_log set_conns] in H. unfold conn_of.
      destruct (lookup_conn c1 (conns s)) as [cs|] eqn:El; [|left; reflexivity].
      rewrite (lookup_app_l c1 _ _ cs El) in H. right. congruence.
    + intros p Hp. left. exact Hp.
  - destruct (has_conn c s); [|apply evt_rel_refl].
    pose proof (on_message_post3 c m o s Hinv (held_has_mb s c HS)) as H.
    destruct (on_message cfg c m o s) as [u s'|e s']; cbn [out fst] in *.
    + exact (evt_rel_post3 c s s' H).
    + exact (evt_rel_drop c s s' H).
  - destruct (has_conn c s); [|apply evt_rel_refl]. cbn [fst].
    apply (evt_rel_drop c s s). apply post3_refl. exact Hinv.
  - unfold run_m. pose proof (evt_rel_expire fault s Hinv) as H.
    destruct (expire cfg fault s); exact H.
  - destruct (dt <? 0); [apply evt_rel_refl|]. cbv zeta.
    set (s1 := set_now s (now s + dt)).
    destruct (next_due s1 <=? now s1); [|exact (evt_rel_refl s)].
    unfold run_m. pose proof (evt_rel_expire fault s1 Hinv) as H.
    destruct (expire cfg fault s1); exact H.
Qed.

Lemma step_rel s b : SInv s -> evt_rel s (fst (step cfg s (EB b))).
Proof.
  intros HS. unfold step.
  assert (HS0 : SInv (set_log s [])) by (apply (SInv_same s); auto).
  pose proof (step_b_rel (set_log s []) b HS0) as H.
  destruct (step_b cfg (set_log s []) b) as [[s1 valid] x]. exact H.
Qed.

Lemma boot_state c u t :
  fst (fst (boot_on cfg c u t)) =
  set_log (out (expire cfg false (mkState c c u u [] [] t t t (t + period cfg) []))) [].
Proof. rewrite boot_on_eq. destruct (expire cfg false _); reflexivity. Qed.

Lemma boot_subs c u t : subs (fst (fst (boot_on cfg c u t))) = [].
Proof.
  rewrite boot_state. cbn [subs set_log].
  set (s0 := mkState c c u u [] [] t t t (t + period cfg) []).
  destruct (HP_expire_triv cfg false 0%nat _ false s0 Logic.I eq_refl) as (_ & _ & _ & C).
  destruct (subs (out (expire cfg false s0))) as [|p l]; [reflexivity|].
  destruct (C p (or_introl eq_refl)) as [[]|[K _]]. discriminate.
Qed.

Lemma boot_Shrink c u t : DbInv c -> Shrink c (chan_w (fst (fst (boot_on cfg c u t)))).
Proof.
  intros Hinv. rewrite boot_state. cbn [chan_w set_log].
  set (s0 := mkState c c u u [] [] t t t (t + period cfg) []).
  exact (proj1 (expire_rel false s0 Hinv)).
Qed.

Lemma step_Step s e : SInv s -> not_crash e -> Step (chan_w s) (chan_w (fst (step cfg s e))).
Proof.
  intros HS Hnc. destruct e as [b|k b|]; [apply (step_rel s b HS)|contradiction|].
  unfold step. cbn [chan_c usage_c now set_log].
  pose proof (boot_Shrink (chan_c s) (usage_c s) (now s)) as H.
  destruct (boot_on cfg (chan_c s) (usage_c s) (now s)) as [[s1 bl] x]. cbn [fst] in *.
  destruct (si_clean s HS) as [Ec _]. rewrite <- Ec in H.
  apply Shrink_Step. rewrite Ec at 1. rewrite <- Ec. apply H. apply (si_db s HS).
Qed.

Lemma step_boot_subs s e :
  match e with EB _ => True | _ => subs (fst (step cfg s e)) = [] end.
Proof.
  destruct e as [b|k b|]; [exact Logic.I| |]; unfold step.
  - destruct (step_b cfg (set_log s []) b) as [[s1 valid] x].
    destruct (_ || _).
    + pose proof (boot_subs (chan_c s1) (usage_c s1) (now s1)) as H.
      destruct (boot_on cfg (chan_c s1) (usage_c s1) (now s1)) as [[s2 bl] x2]. exact H.
    + destruct (replay_commits _ _ _) as [c u].
      pose proof (boot_subs c u (now s1)) as H.
      destruct (boot_on cfg c u (now s1)) as [[s2 bl] x2]. exact H.
  - pose proof (boot_subs (chan_c (set_log s [])) (usage_c (set_log s [])) (now (set_log s []))) as H.
    destruct (boot_on cfg _ _ _) as [[s2 bl] x2]. exact H.
Qed.

End Events.

Lemma Step_mb d d' m :
  Step d d' -> Obs.mb_alive d' m -> exists l, mb_side_list d' m = mb_side_list d m ++ l.
Proof.
  intros (d1 & [G _] & (_ & S & _)) Ha. destruct (G m) as [l E]. exists l.
  unfold mb_side_list at 1. rewrite (S m Ha). exact E.
Qed.

Lemma Step_np d d' np :
  Step d d' -> In np (nameplates d') ->
  exists l, np_side_list d' (np_id np) = np_side_list d (np_id np) ++ l.
Proof.
  intros (d1 & [_ G] & (_ & _ & _ & S)) Hn. destruct (G (np_id np)) as [l E]. exists l.
  unfold np_side_list at 1. rewrite (S np Hn). exact E.
Qed.


(** * `claim`: who is told the mailbox id *)

Lemma claim_side_body_row d npid mbox side w p d1 :
  claim_side_body d npid mbox side w = TxOk p d1 ->
  p = (npid, mbox) /\ In side (np_side_list d1 npid).
Proof.
  unfold claim_side_body, np_side_list. destruct (sel_nps d npid side) as [r|] eqn:Es.
  - destruct (nps_claimed r); [|discriminate]. intros H; inversion H; subst.
    split; [reflexivity|]. apply sel_nps_some in Es. destruct Es as (Hin & Hi & Hs).
    apply in_map_iff. exists r. split; [exact Hs|]. apply sel_nps_all_In. auto.
  - destruct (ins_nps d _) as [d2|] eqn:E; [|discriminate].
    apply ins_nps_spec in E. destruct E as [_ ->]. intros H; inversion H; subst.
    split; [reflexivity|]. apply in_map_iff. exists (mkNps npid true side w).
    split; [reflexivity|]. apply sel_nps_all_In. split; [|reflexivity].
    cbn. apply in_or_app. right. left. reflexivity.
Qed.

Lemma claim_body_row d a n side w draw npid mbox d1 :
  claim_body d a n side w draw = TxOk (npid, mbox) d1 -> In side (np_side_list d1 npid).
Proof.
  unfold claim_body. destruct (sel_np d a n) as [row|].
  - intros H. apply claim_side_body_row in H. destruct H as [E H]. inversion E; subst. exact H.
  - destruct draw as [bytes|]; [|discriminate]. cbv zeta.
    destruct (add_mailbox d a (genid bytes) true w) as [d2|]; [|discriminate].
    destruct (ins_np d2 a n (genid bytes)) as [[d3 i]|]; [|discriminate].
    intros H. apply claim_side_body_row in H. destruct H as [E H]. inversion E; subst. exact H.
Qed.

Lemma nofr_commit_chan s l d :
  (exists k, l = k ++ log s /\ frames_of (rev k) = []) ->
  exists k, LCommitChan d :: l = k ++ log s /\ frames_of (rev k) = [].
Proof.
  intros (k & -> & F). exists (LCommitChan d :: k). split; [reflexivity|].
  cbn [rev]. rewrite NpFactsA.frames_of_app, F. reflexivity.
Qed.

Ltac nofr_solve :=
  unfold nofr; cbn [log set_chan_w]; repeat apply nofr_commit_chan; exists []; split; reflexivity.

(** the side that `claim` answers is among the first two of the nameplate and of its mailbox *)
Definition claim_good (a n side mbox : string) (d : chan_db) : Prop :=
  exists np, sel_np d a n = Some np /\ np_mbox np = mbox /\
             In side (firstn 2 (np_side_list d (np_id np))) /\
             In side (firstn 2 (mb_side_list d mbox)).

Lemma claim_nameplate_wp2 a n side w draw s :
  DbInv (chan_w s) ->
  wp (claim_nameplate a n side w draw)
     (fun mbox s' => nofr s s' /\ claim_good a n side mbox (chan_w s'))
     (fun _ s' => nofr s s') s.
Proof.
  intros Hinv. unfold claim_nameplate. wp_step. wp_step.
  pose proof (claim_body_ok (chan_w s) a n side w draw Hinv) as Hok.
  destruct (claim_body (chan_w s) a n side w draw) as [[npid mbox] d1|e d1] eqn:Ecb;
    [|nofr_solve].
  destruct Hok as (_ & _ & _ & np & Hnp & Hid & Hmbx).
  pose proof (claim_body_row _ _ _ _ _ _ _ _ _ Ecb) as Hrow.
  cbv beta iota. wp_step. wp_step. wp_step. unfold open_mailbox. wp_step. wp_step.
  cbn [chan_w set_chan_w].
  pose proof (open_body_frame d1 a mbox side w) as Hfr.
  pose proof (open_body_tables d1 a mbox side w) as Htb.
  destruct (open_body d1 a mbox side w) as [[] d2|e2 d2] eqn:Eob; [|nofr_solve].
  destruct Htb as [Hnps _].
  wp_step. wp_step. wp_step. wp_step. wp_step. wp_step. cbn [chan_w set_chan_w].
  destruct (2 <? List.length (sel_mbs_all d2 mbox))%nat eqn:E1; [wp_step; nofr_solve|].
  wp_step. wp_step. wp_step. cbn [chan_w set_chan_w].
  destruct (2 <? List.length (sel_nps_all d2 npid))%nat eqn:E2; [wp_step; nofr_solve|].
  wp_step. split; [nofr_solve|]. cbn [chan_w].
  apply Nat.ltb_ge in E1. apply Nat.ltb_ge in E2.
  exists np. split; [unfold sel_np; rewrite Hfr; exact Hnp|]. split; [exact Hmbx|]. split.
  - rewrite Hid. apply In_firstn_short.
    + unfold np_side_list, sel_nps_all in *. rewrite Hnps. exact Hrow.
    + unfold np_side_list. rewrite map_length. exact E2.
  - apply In_firstn_short; [exact (open_body_side _ _ _ _ _ _ Eob)|].
    unfold mb_side_list. rewrite map_length. exact E1.
Qed.

Lemma handle_claim_wp2 c a side msg o n s cs :
  DbInv (chan_w s) -> lookup_conn c (conns s) = Some cs -> m_nameplate msg = Some n ->
  c_did_claim cs = false ->
  wp (handle_claim c a side msg o)
     (fun _ s' => exists s2 mbox b tx, nofr s s2 /\ claim_good a n side mbox (chan_w s2) /\
                                       s' = set_log s2 (LFrame c (FClaimed mbox) b tx :: log s2))
     (fun _ s' => nofr s s') s.
Proof.
  intros Hinv Hlk Hn Hdc. unfold handle_claim. rewrite Hn.
  wp_step. wp_step. rewrite Hlk, Hdc. wp_step. wp_step. wp_step. wp_step. wp_step.
  unfold catch_crowded_reclaimed. wp_step.
  match goal with |- wp _ _ _ ?st => set (s1 := st) end.
  eapply wp_conseq; [exact (claim_nameplate_wp2 a n side (now s1) (o_draw o) s1 Hinv)| |].
  - intros mbox s2 [N G]. wp_step. exists s2, mbox, (is_clean s2), (now s2). auto.
  - intros e s2 N. destruct e; wp_step; exact N.
Qed.

Section WithConfig.
Variable cfg : config.
Hypothesis Hexp : 0 < exp cfg.

(** while a mailbox lives, sides are only ever appended to its list: the
    first two stay the first two, and a third stays a third however often it
    retries and whatever the first two do (close, release, disconnect) *)
Theorem mb_sides_only_grow s e m :
  SInv s -> log s = [] -> not_crash e ->
  let s' := fst (step cfg s e) in
  mb_alive (chan_w s') m ->
  exists l, mb_side_list (chan_w s') m = mb_side_list (chan_w s) m ++ l.
Proof using Hexp.
  intros HS _ Hnc s' Ha. exact (Step_mb _ _ m (step_Step cfg s e HS Hnc) Ha).
Qed.

Theorem np_sides_only_grow s e np :
  SInv s -> log s = [] -> not_crash e ->
  let s' := fst (step cfg s e) in
  In np (nameplates (chan_w s)) -> In np (nameplates (chan_w s')) ->
  exists l, np_side_list (chan_w s') (np_id np) = np_side_list (chan_w s) (np_id np) ++ l.
Proof using Hexp.
  intros HS _ Hnc s' _ Hn. exact (Step_np _ _ np (step_Step cfg s e HS Hnc) Hn).
Qed.

(** the invariant: in every reachable state every subscriber is one of the first two sides *)
Theorem step_subs_first_two s e :
  SInv s -> log s = [] -> subs_first_two s -> subs_first_two (fst (step cfg s e)).
Proof.
  intros HS _ H2.
  pose proof (step_boot_subs cfg s e) as Hboot.
  pose proof (step_spec cfg Hexp s e HS) as Hspec.
  destruct e as [b|k b|];
    [|intros a m c Hin; rewrite Hboot in Hin; destruct Hin
     |intros a m c Hin; rewrite Hboot in Hin; destruct Hin].
  clear Hboot. pose proof (step_rel cfg s b HS) as (RS & RB & RN).
  destruct (step cfg s (EB b)) as [s' ob]. cbn [fst] in *. destruct Hspec as (HS' & _).
  intros a m c Hin.
  destruct (si_subs s' HS' _ Hin) as (Hmb & cs' & side' & Hl' & Hb' & _).
  destruct (RN _ Hin) as [Hold|(a0 & m0 & c0 & side & E & Hb & Hs)].
  - destruct (H2 a m c Hold) as (side & (cs & Hl & Hb) & Hs).
    exists side. split.
    + exists cs'. split; [exact Hl'|].
      destruct (RB c cs' Hl') as [K|K]; unfold conn_of in K; rewrite Hl in K; congruence.
    + assert (Ha : Obs.mb_alive (chan_w s') m).
      { destruct Hmb as (r & Hr & _ & Ei). exists r. auto. }
      destruct (Step_mb _ _ m RS Ha) as [l E]. rewrite E. apply firstn_app_In. exact Hs.
  - inversion E; subst a0 m0 c0. exists side. split; [|exact Hs].
    exists cs'. split; [exact Hl'|exact (Hb cs' Hl')].
Qed.

Theorem reachable_subs_first_two s : reachable cfg s -> subs_first_two s.
Proof.
  intros (t0 & h & ->). destruct (init_spec cfg Hexp t0) as [Hi Hl].
  assert (H0 : subs_first_two (init cfg t0)).
  { intros a m c Hin. unfold init in Hin. rewrite boot_subs in Hin. destruct Hin. }
  revert Hi Hl H0. generalize (init cfg t0).
  induction h as [|e h IH]; intros s HS Hl H2; cbn [run fst]; [exact H2|].
  pose proof (step_spec cfg Hexp s e HS) as Hspec.
  pose proof (step_subs_first_two s e HS Hl H2) as H2'.
  destruct (step cfg s e) as [s1 o1]. cbn [fst] in H2'. destruct Hspec as (HS1 & Hl1 & _).
  specialize (IH s1 HS1 Hl1 H2'). destruct (run cfg s1 h). exact IH.
Qed.


(** a side that is told the mailbox id of a nameplate is one of the first two
    sides recorded for that nameplate and for its mailbox *)
Theorem claimed_first_two s c cs a side msg o n mbox :
  SInv s -> log s = [] ->
  lookup_conn c (conns s) = Some cs -> c_bound cs = Some (a, side) ->
  m_type msg = Some TClaim -> erroneous cs msg = false -> m_nameplate msg = Some n ->
  let '(s', ob) := step cfg s (EB (ECmd c msg o)) in
  In (c, FClaimed mbox) (frames_of (o_log ob)) ->
  exists np, sel_np (chan_w s') a n = Some np /\ np_mbox np = mbox /\
             In side (firstn 2 (np_side_list (chan_w s') (np_id np))) /\
             In side (firstn 2 (mb_side_list (chan_w s') mbox)).
Proof using Hexp.
  intros HS Hlog Hlk Hb Ht Herr Hn.
  pose proof (si_db s HS) as Hdb.
  unfold erroneous in Herr. rewrite Ht, Hb, Hn in Herr.
  rewrite (step_cmd cfg s c msg o TClaim cs Hlk Ht).
  set (s1 := set_log s [LFrame c (FAck (m_id msg)) (is_clean s) (now s)]).
  assert (Hco : conn_of s1 c = cs) by (unfold conn_of; cbn; rewrite Hlk; reflexivity).
  rewrite (dispatch_bound cfg c TClaim msg o s1 a side); try discriminate;
    [|rewrite Hco; exact Hb].
  pose proof (handle_claim_wp2 c a side msg o n s1 cs Hdb Hlk Hn Herr) as W.
  apply wp_elim in W.
  destruct W as [([] & s' & E & s2 & mbox' & b & tx & (l & El & Fl) & G & ->)|(e & s' & E & (l & El & Fl))];
    rewrite E.
  - cbn [o_log log set_log chan_w]. rewrite El. cbn [s1 log set_log rev].
    rewrite rev_app_distr. cbn [rev app].
    cbn [frames_of]. rewrite NpFactsA.frames_of_app, Fl. cbn [frames_of app].
    intros [K|[K|[]]]; [discriminate|]. inversion K; subst mbox'. exact G.
  - assert (Hno : ~ In (c, FClaimed mbox) (frames_of (rev (log s')))).
    { rewrite El. cbn [s1 log set_log]. rewrite rev_app_distr. cbn [rev app frames_of].
      rewrite Fl. intros [K|[]]. discriminate. }
    destruct e; cbn [o_log];
      try (destruct (NpFactsA.drop_conn_frame c s') as (_ & _ & ->); intros K; destruct (Hno K)).
    cbn [rev]. rewrite NpFactsA.frames_of_app. cbn [frames_of]. intros K.
    apply in_app_or in K. destruct K as [K|[K|[]]]; [destruct (Hno K)|discriminate].
Qed.

(** a third side is answered `crowded` and sent nothing else, by open ... *)
Theorem third_side_open_refused s c cs a side msg o m :
  SInv s -> log s = [] ->
  lookup_conn c (conns s) = Some cs -> c_bound cs = Some (a, side) ->
  m_type msg = Some TOpen -> erroneous cs msg = false -> m_mailbox msg = Some m ->
  has_mb (chan_w s) a m ->
  (2 <= List.length (mb_side_list (chan_w s) m))%nat ->
  ~ In side (firstn 2 (mb_side_list (chan_w s) m)) ->
  let '(s', ob) := step cfg s (EB (ECmd c msg o)) in
  frames_of (o_log ob) = [(c, FAck (m_id msg)); (c, FError ErrCrowded msg)] /\
  subs s' = subs s /\ messages (chan_w s') = messages (chan_w s) /\
  firstn 2 (mb_side_list (chan_w s') m) = firstn 2 (mb_side_list (chan_w s) m).
Proof using Hexp.
  intros HS Hlog Hlk Hb Ht Herr Hm Hmb Hlen Hnot.
  pose proof (open_outcome cfg s c cs a side msg o m HS Hlog Hlk Hb Ht Herr Hm) as H.
  destruct (step cfg s (EB (ECmd c msg o))) as [s' ob]. cbv zeta in H.
  destruct H as (_ & [(_ & _ & _ & (_ & Hno))|(_ & Ed & H)]); [destruct (Hno Hmb)|].
  set (d := chan_w s) in *.
  assert (Hsel : sel_mbs_all (chan_w s') m = sel_mbs_all d m \/
                 sel_mbs_all (chan_w s') m = sel_mbs_all d m ++ [mkMbs m true side (now s) None]).
  { rewrite Ed. unfold open_db, sel_mbs_all. cbn [mb_sides].
    destruct (sel_mbs d m side); [left; reflexivity|right].
    rewrite filter_app. cbn [filter mbs_mbox]. rewrite seqb_refl. reflexivity. }
  assert (Hlong : (2 < List.length (sel_mbs_all (chan_w s') m))%nat /\
                  firstn 2 (mb_side_list (chan_w s') m) = firstn 2 (mb_side_list d m)).
  { unfold mb_side_list in *. rewrite map_length in Hlen. destruct Hsel as [E|E]; rewrite E.
    - split; [|reflexivity]. rewrite Ed in E. unfold open_db, sel_mbs_all in E. cbn [mb_sides] in E.
      destruct (sel_mbs d m side) as [r|] eqn:Es.
      + apply sel_mbs_some in Es. destruct Es as (Hin & Hbx & Hsd).
        assert (Hs : In side (map mbs_side (sel_mbs_all d m))).
        { apply in_map_iff. exists r. split; [exact Hsd|]. apply sel_mbs_all_In. auto. }
        pose proof (not_firstn_long 2 _ side Hs Hnot) as L. rewrite map_length in L. exact L.
      + exfalso. rewrite filter_app in E. cbn [filter mbs_mbox] in E. rewrite seqb_refl in E.
        apply (f_equal (@List.length _)) in E. rewrite app_length in E. cbn in E. lia.
    - split; [rewrite app_length; cbn; lia|]. rewrite map_app. cbn [map].
      apply firstn_snoc_long. rewrite map_length. exact Hlen. }
  destruct Hlong as [L F].
  destruct H as [(_ & Hfr & Hsubs & _)|(L2 & _)]; [|lia].
  split; [exact Hfr|]. split; [exact Hsubs|]. split; [rewrite Ed; reflexivity|exact F].
Qed.

End WithConfig.

(** * KF2: a concrete history *)

Definition kf2_cfg : config := mkCfg true false None 5280 2400 (mkWelcome None None None).
Definition kf2_oracle : oracle := mkOracle None (mkAO None []).
Definition kf2_bind (side : string) : command :=
  mkCmd (Some TBind) None (Some "a") (Some side) None None None None None None None.
Definition kf2_open : command :=
  mkCmd (Some TOpen) None None None None (Some "m") None None None None None.

(** sides A, B and C open mailbox "m" of app "a" (C is refused); then side A
    comes back on a fresh connection *)
Definition kf2_history : list event :=
  [ EB (EConnect 1); EB (ECmd 1 (kf2_bind "A") kf2_oracle); EB (ECmd 1 kf2_open kf2_oracle);
    EB (EConnect 2); EB (ECmd 2 (kf2_bind "B") kf2_oracle); EB (ECmd 2 kf2_open kf2_oracle);
    EB (EConnect 3); EB (ECmd 3 (kf2_bind "C") kf2_oracle); EB (ECmd 3 kf2_open kf2_oracle);
    EB (EConnect 4); EB (ECmd 4 (kf2_bind "A") kf2_oracle) ].

Definition kf2_state : state := fst (run kf2_cfg (init kf2_cfg 0) kf2_history).

Lemma kf2_exp : 0 < exp kf2_cfg.
Proof. reflexivity. Qed.

(** KF2 (open known finding): once a third side has been refused, one of the
    FIRST two sides re-opening on a fresh connection is refused as well *)
Example first_side_locked_out_refuted :
  exists (cfg : config) (s : state) (c : nat) (msg : command) (o : oracle) (a side m : string),
    0 < exp cfg /\ SInv s /\ log s = [] /\ bound_to s c a side /\
    m_type msg = Some TOpen /\ m_mailbox msg = Some m /\
    In side (firstn 2 (mb_side_list (chan_w s) m)) /\
    In (c, FError ErrCrowded msg) (frames_of (o_log (snd (step cfg s (EB (ECmd c msg o)))))).
Proof.
  exists kf2_cfg, kf2_state, 4%nat, kf2_open, kf2_oracle, "a", "A", "m".
  split; [exact kf2_exp|].
  split; [apply (run_spec kf2_cfg kf2_exp), (init_spec kf2_cfg kf2_exp)|].
  split; [vm_compute; reflexivity|].
  split.
  { exists (mkConn (Some ("a", "A")) false false false None false None None false).
    split; vm_compute; reflexivity. }
  split; [reflexivity|]. split; [reflexivity|].
  split; [vm_compute; left; reflexivity|].
  vm_compute. right. left. reflexivity.
Qed.
