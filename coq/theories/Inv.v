(** Inv.v -- the invariants (definitions only; proofs in DbFacts.v, OpFacts.v,
    StepFacts.v).

    [DbInv] is the well-formedness of a channel database.  None of its
    clauses except the uniqueness of [mailboxes.id] and the three foreign keys
    is enforced by the schema: they hold because of the select-then-insert
    discipline of server.py, which is what the preservation proofs establish.
    It is preserved by every transaction body, so it holds at every commit of
    every command and sweep -- i.e. in every state a crash can leave. *)
From MW Require Import Base Store Monad.

Definition np_key (r : np_row) : string * string := (np_app r, np_name r).
Definition nps_key (r : nps_row) : Z * string := (nps_npid r, nps_side r).
Definition mbs_key (r : mbs_row) : string * string := (mbs_mbox r, mbs_side r).

(** the mailbox (a, m) has a row *)
Definition has_mb (d : chan_db) (a m : string) : Prop :=
  exists r, In r (mailboxes d) /\ mb_app r = a /\ mb_id r = m.

Record DbInv (d : chan_db) : Prop := mkDbInv
  { inv_np_key : NoDup (map np_key (nameplates d));           (* one row per (app, name) *)
    inv_np_id : NoDup (map np_id (nameplates d));
    inv_np_seq : forall r, In r (nameplates d) -> np_id r <= np_seq d;
    inv_nps_key : NoDup (map nps_key (np_sides d));            (* one row per (nameplate, side) *)
    inv_mb_id : NoDup (map mb_id (mailboxes d));               (* PRIMARY KEY *)
    inv_mbs_key : NoDup (map mbs_key (mb_sides d));            (* one row per (mailbox, side) *)
    inv_fk_nps : forall r, In r (np_sides d) ->
                 exists n, In n (nameplates d) /\ np_id n = nps_npid r;
    inv_fk_np : forall n, In n (nameplates d) -> has_mb d (np_app n) (np_mbox n);
    inv_fk_mbs : forall r, In r (mb_sides d) ->
                 exists m, In m (mailboxes d) /\ mb_id m = mbs_mbox r;
    inv_np_sided : forall n, In n (nameplates d) ->
                   exists r, In r (np_sides d) /\ nps_npid r = np_id n;
    inv_msg : forall r, In r (messages d) -> has_mb d (msg_app r) (msg_mbox r) }.

(** * Log discipline: every committed snapshot is well-formed, every frame
    was emitted with nothing pending *)
Definition entry_ok (e : log_entry) : Prop :=
  match e with
  | LCommitChan d => DbInv d
  | LCommitUsage _ => True
  | LFrame _ _ clean _ => clean = true
  end.

Definition log_ok (l : list log_entry) : Prop := Forall entry_ok l.

Definition clean (s : state) : Prop :=
  chan_w s = chan_c s /\ usage_w s = usage_c s.

(** * Handle discipline: what connections hold and who is subscribed *)
Definition conn_ok (s : state) (c : nat) (cs : conn_state) : Prop :=
  match c_mailbox cs with
  | Some m => exists a side, c_bound cs = Some (a, side) /\ c_listening cs = true /\
                             In (a, m, c) (subs s)
  | None => c_listening cs = false
  end.

Definition sub_ok (s : state) (p : string * string * nat) : Prop :=
  let '(a, m, c) := p in
  has_mb (chan_w s) a m /\
  exists cs side, lookup_conn c (conns s) = Some cs /\ c_bound cs = Some (a, side) /\
                  c_mailbox cs = Some m.

(** * The state invariant at event boundaries *)
Record SInv (s : state) : Prop := mkSInv
  { si_db : DbInv (chan_w s);
    si_clean : clean s;
    si_conns : forall c cs, lookup_conn c (conns s) = Some cs -> conn_ok s c cs;
    si_subs : forall p, In p (subs s) -> sub_ok s p;
    si_subs_nodup : NoDup (subs s);
    si_conn_ids : NoDup (map fst (conns s)) }.
