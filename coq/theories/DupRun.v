(** DupRun.v -- C14, the continuation: after the duplicate of an acknowledged
    claim / release / open / close, EVERY later history is answered exactly as
    it is without the duplicate, and leaves the same stored channel state.

    DupFacts.v proves that the four events of the duplicate ([dup_events]:
    connect a fresh connection, bind it to the same app and side, re-send the
    command, disconnect) leave the channel-relevant part of the state as it was
    ([same_channel]: both copies of the channel database, subscriptions, every
    connection record, clock, timer).  Here that is pushed through an arbitrary
    continuation [h]: the run of [dup_events ++ h] against the run of [h], from
    the same state, under the same configuration.

    The two runs differ in their usage databases (the duplicate's bind wrote a
    `client_versions' row) and in nothing else that the server reads.  With the
    same configuration both runs then execute the same code on the same data:
    Part 1 is a two-run relational calculus over the handlers for the relation
    [simU] (everything but the usage databases equal; the logs equal up to the
    CONTENT of the usage snapshots and the `clean' flag of the frame entries,
    [sk]).  Unlike ViewFacts.v / ViewFactsX.v (two DIFFERENT configurations) it
    needs no invariant and no translation of crash indices: the commits of an
    event sit at the same places in both logs.
    Part 2: [same_channel] is preserved by EVERY event -- plain, [ERestart],
    [ECrash k b] for every k -- and the observations agree up to [sk].
    Part 3: the duplicate ([dup_invisible_run]), the four commands
    ([claim_dup_run], [release_dup_run], [open_dup_run], [close_dup_run]: the
    hypotheses of the *_dup theorems of DupFacts.v) and the end-to-end form
    ([*_resend_invisible]: the original command answered successfully, then its
    duplicate, then any history).
    Part 4: the limit of the property -- a NAMELESS release / close (no
    `nameplate' / `mailbox' key) re-sent on a fresh connection is answered with
    a protocol error, as in /repo (server_websocket.py handle_release /
    handle_close); the *_dup theorems re-send the command in explicit-name form.
    Part 5: non-vacuity and refutations (vm_compute). *)
From MW Require Import Base Store Monad Usage Server Websocket Service Findings Inv Obs
     StoreFacts StepFacts ProtoFacts WireFacts NpFactsA MbFactsA MbFactsB DupFacts
     ViewFacts RestartFacts Inst_Params.
Local Open Scope list_scope.

(** * Part 0: runs of concatenated histories *)

Lemma run_app_pair cfg h1 h2 s :
  run cfg s (h1 ++ h2) =
  (fst (run cfg (fst (run cfg s h1)) h2),
   snd (run cfg s h1) ++ snd (run cfg (fst (run cfg s h1)) h2)).
Proof.
  rewrite <- (run_app_fst cfg h1 h2 s), <- (run_app_snd cfg h1 h2 s).
  destruct (run cfg s (h1 ++ h2)); reflexivity.
Qed.

(** * Part 1: two runs under the SAME configuration that differ in their usage databases *)

(** a log entry without what depends on the usage database: the content of a
    usage snapshot, and the `clean' flag of a frame entry (it compares the
    working and the committed usage database) *)
Definition sk (x : log_entry) : log_entry :=
  match x with
  | LCommitChan d => LCommitChan d
  | LCommitUsage _ => LCommitUsage empty_usage
  | LFrame c f _ tx => LFrame c f true tx
  end.
Definition skel (l : list log_entry) : list log_entry := map sk l.

Lemma skel_rev l : skel (rev l) = rev (skel l).
Proof. unfold skel. apply map_rev. Qed.

Lemma is_commit_sk x : is_commit (sk x) = is_commit x.
Proof. destruct x; reflexivity. Qed.

Lemma count_commits_skel l : count_commits (skel l) = count_commits l.
Proof.
  unfold count_commits. induction l as [|x l IH]; [reflexivity|].
  cbn [skel map filter]. rewrite is_commit_sk. destruct (is_commit x); cbn [List.length]; fold (skel l);
    rewrite IH; reflexivity.
Qed.

Lemma frames_of_skel l : frames_of (skel l) = frames_of l.
Proof.
  induction l as [|x l IH]; [reflexivity|]. destruct x as [d|u|c f b tx]; cbn [skel map sk frames_of];
    fold (skel l); rewrite IH; reflexivity.
Qed.

Lemma stamps_of_skel l : stamps_of (skel l) = stamps_of l.
Proof.
  induction l as [|x l IH]; [reflexivity|]. destruct x as [d|u|c f b tx]; cbn [skel map sk stamps_of];
    fold (skel l); rewrite IH; reflexivity.
Qed.

Lemma log_prefix_skel l : forall k, skel (log_prefix k l) = log_prefix k (skel l).
Proof.
  induction l as [|x l IH]; intros k; destruct k as [|k]; try reflexivity.
  cbn [skel map log_prefix]. rewrite is_commit_sk. fold (skel l).
  destruct (is_commit x); cbn [skel map]; fold (skel (log_prefix k l)); fold (skel (log_prefix (S k) l));
    rewrite IH; reflexivity.
Qed.

(** the channel file after replaying a log prefix is a function of the skeleton *)
Lemma replay_commits_skel l1 : forall l2 c u1 u2,
  skel l1 = skel l2 -> fst (replay_commits l1 c u1) = fst (replay_commits l2 c u2).
Proof.
  induction l1 as [|x l1 IH]; intros l2 c u1 u2 E; destruct l2 as [|y l2]; try discriminate; [reflexivity|].
  cbn [skel map] in E. inversion E as [[Ex El]].
  destruct x as [d|u|c1 f1 b1 t1], y as [d'|u'|c2 f2 b2 t2]; try discriminate; cbn [replay_commits].
  - cbn [sk] in Ex. inversion Ex. subst d'. apply IH. exact El.
  - apply IH. exact El.
  - apply IH. exact El.
Qed.

(** the two-run relation: everything but the usage databases, the logs up to [sk] *)
Record simU (s1 s2 : state) : Prop := mkSimU
  { su_w : chan_w s1 = chan_w s2;
    su_c : chan_c s1 = chan_c s2;
    su_subs : subs s1 = subs s2;
    su_conns : conns s1 = conns s2;
    su_now : now s1 = now s2;
    su_ts : timer_start s1 = timer_start s2;
    su_nd : next_due s1 = next_due s2;
    su_log : skel (log s1) = skel (log s2) }.

Definition UR {A} (V : A -> A -> Prop) (m1 m2 : M A) : Prop :=
  forall s1 s2, simU s1 s2 ->
  match m1 s1, m2 s2 with
  | Ok a1 t1, Ok a2 t2 => V a1 a2 /\ simU t1 t2
  | Exn e1 t1, Exn e2 t2 => e1 = e2 /\ simU t1 t2
  | _, _ => False
  end.

Lemma UR_ret {A} (a : A) : UR eq (ret a) (ret a).
Proof. intros s1 s2 Hs. cbn. auto. Qed.

Lemma UR_raise {A} (V : A -> A -> Prop) e : UR V (raise e) (raise e).
Proof. intros s1 s2 Hs. cbn. auto. Qed.

Lemma UR_bind {A B} (V : A -> A -> Prop) (W : B -> B -> Prop) m1 m2 k1 k2 :
  UR V m1 m2 -> (forall a1 a2, V a1 a2 -> UR W (k1 a1) (k2 a2)) ->
  UR W (bind m1 k1) (bind m2 k2).
Proof.
  intros Hm Hk s1 s2 Hs. unfold bind. specialize (Hm s1 s2 Hs).
  destruct (m1 s1) as [a1 t1|e1 t1], (m2 s2) as [a2 t2|e2 t2]; try (exfalso; exact Hm); try exact Hm.
  destruct Hm as (Hv & Ht). exact (Hk a1 a2 Hv t1 t2 Ht).
Qed.

Lemma URp_bind {A B} (W : B -> B -> Prop) (m1 m2 : M A) k1 k2 :
  UR eq m1 m2 -> (forall a, UR W (k1 a) (k2 a)) -> UR W (bind m1 k1) (bind m2 k2).
Proof. intros Hm Hk. eapply UR_bind; [exact Hm|]. intros a1 a2 <-. apply Hk. Qed.

Lemma UR_bind_get {B} (W : B -> B -> Prop) k1 k2 :
  (forall x y, simU x y -> UR W (k1 x) (k2 y)) -> UR W (bind get k1) (bind get k2).
Proof. intros Hk s1 s2 Hs. unfold bind, get. exact (Hk s1 s2 Hs s1 s2 Hs). Qed.

Lemma UR_try_catch {A} (V : A -> A -> Prop) m1 m2 h1 h2 :
  UR V m1 m2 -> (forall e, UR V (h1 e) (h2 e)) -> UR V (try_catch m1 h1) (try_catch m2 h2).
Proof.
  intros Hm Hh s1 s2 Hs. unfold try_catch. specialize (Hm s1 s2 Hs).
  destruct (m1 s1) as [a1 t1|e1 t1], (m2 s2) as [a2 t2|e2 t2]; try (exfalso; exact Hm); try exact Hm.
  destruct Hm as [<- Ht]. exact (Hh e1 t1 t2 Ht).
Qed.

Lemma UR_tx {A} (f : chan_db -> txres A) : UR eq (tx f) (tx f).
Proof.
  intros s1 s2 Hs. unfold tx. rewrite <- (su_w _ _ Hs). destruct Hs.
  destruct (f (chan_w s1)) as [a d|e d]; (split; [reflexivity|]); constructor; cbn; auto.
Qed.

Lemma UR_q {A} (f : chan_db -> A) : UR eq (q f) (q f).
Proof. intros s1 s2 Hs. unfold q. rewrite <- (su_w _ _ Hs). auto. Qed.

Lemma UR_utx f1 f2 : UR eq (utx f1) (utx f2).
Proof. intros s1 s2 Hs. unfold utx. split; [reflexivity|]. destruct Hs. constructor; cbn; auto. Qed.

Lemma UR_commit_chan : UR eq commit_chan commit_chan.
Proof.
  intros s1 s2 Hs. unfold commit_chan. split; [reflexivity|]. destruct Hs.
  constructor; cbn [chan_w chan_c subs conns now log timer_start next_due skel map sk]; auto.
  f_equal; [f_equal; assumption|assumption].
Qed.

Lemma UR_commit_usage : UR eq commit_usage commit_usage.
Proof.
  intros s1 s2 Hs. unfold commit_usage. split; [reflexivity|]. destruct Hs.
  constructor; cbn [chan_w chan_c subs conns now log timer_start next_due skel map sk]; auto.
  f_equal. assumption.
Qed.

Lemma UR_send c f : UR eq (send c f) (send c f).
Proof.
  intros s1 s2 Hs. unfold send. split; [reflexivity|]. destruct Hs.
  constructor; cbn [chan_w chan_c subs conns now log set_log timer_start next_due skel map sk]; auto.
  f_equal; [f_equal; assumption|assumption].
Qed.

Lemma UR_get_conn c : UR eq (get_conn c) (get_conn c).
Proof. intros s1 s2 Hs. unfold get_conn. rewrite <- (su_conns _ _ Hs). auto. Qed.

Lemma UR_set_conn c cs : UR eq (set_conn c cs) (set_conn c cs).
Proof.
  intros s1 s2 Hs. unfold set_conn. split; [reflexivity|]. destruct Hs. constructor; cbn; auto; congruence.
Qed.

Lemma UR_add_sub a m c : UR eq (add_sub a m c) (add_sub a m c).
Proof.
  intros s1 s2 Hs. unfold add_sub. rewrite <- (su_subs _ _ Hs). split; [reflexivity|].
  destruct (existsb (sub_is a m c) (subs s1)); [exact Hs|].
  destruct Hs. constructor; cbn; auto; congruence.
Qed.

Lemma UR_remove_sub a m c : UR eq (remove_sub a m c) (remove_sub a m c).
Proof.
  intros s1 s2 Hs. unfold remove_sub. split; [reflexivity|]. destruct Hs. constructor; cbn; auto; congruence.
Qed.

Lemma UR_stop_listeners a m : UR eq (stop_listeners a m) (stop_listeners a m).
Proof.
  intros s1 s2 Hs. unfold stop_listeners. cbv zeta. split; [reflexivity|].
  rewrite <- (su_subs _ _ Hs), <- (su_conns _ _ Hs). destruct Hs. constructor; cbn; auto.
Qed.

Ltac urlem := fail.

Ltac urp1 :=
  lazymatch goal with
  | |- UR _ (bind get _) (bind get _) =>
      apply UR_bind_get;
      let x := fresh "x" in let y := fresh "y" in let H := fresh "Hxy" in
      intros x y H; cbv beta;
      try rewrite <- (su_now _ _ H); try rewrite <- (su_subs _ _ H)
  | |- UR _ (bind _ _) (bind _ _) => eapply URp_bind; [|intros ?]
  | |- UR _ (ret _) (ret _) => apply UR_ret
  | |- UR _ (raise _) (raise _) => apply UR_raise
  | |- UR _ err err => apply UR_raise
  | |- UR _ commit_chan commit_chan => apply UR_commit_chan
  | |- UR _ commit_usage commit_usage => apply UR_commit_usage
  | |- UR _ (utx _) (utx _) => apply UR_utx
  | |- UR _ (write_usage _ _) (write_usage _ _) => apply UR_utx
  | |- UR _ (tx _) (tx _) => apply UR_tx
  | |- UR _ (send _ _) (send _ _) => apply UR_send
  | |- UR _ (q _) (q _) => apply UR_q
  | |- UR _ (get_messages _ _) (get_messages _ _) => apply UR_q
  | |- UR _ (get_conn _) (get_conn _) => apply UR_get_conn
  | |- UR _ (set_conn _ _) (set_conn _ _) => apply UR_set_conn
  | |- UR _ (add_sub _ _ _) (add_sub _ _ _) => apply UR_add_sub
  | |- UR _ (remove_sub _ _ _) (remove_sub _ _ _) => apply UR_remove_sub
  | |- UR _ (stop_listeners _ _) (stop_listeners _ _) => apply UR_stop_listeners
  | |- UR _ (catch_crowded _) (catch_crowded _) =>
      unfold catch_crowded; apply UR_try_catch;
      [|let e := fresh "e" in intros e; destruct e; apply UR_raise]
  | |- UR _ (catch_crowded_reclaimed _) (catch_crowded_reclaimed _) =>
      unfold catch_crowded_reclaimed; apply UR_try_catch;
      [|let e := fresh "e" in intros e; destruct e; apply UR_raise]
  | |- UR _ (if ?b then _ else _) (if ?b then _ else _) => destruct b
  | |- UR _ (match ?x with _ => _ end) (match ?x with _ => _ end) => destruct x
  end.

Ltac urp := repeat first [urp1 | urlem].

Section Ops.
Variable cfg : config.

Lemma UR_send_all cs f : UR eq (send_all cs f) (send_all cs f).
Proof. induction cs as [|c cs IH]; cbn [send_all]; urp. exact IH. Qed.

Lemma UR_send_each c l : UR eq (send_each c l) (send_each c l).
Proof. induction l as [|r l IH]; cbn [send_each]; urp. exact IH. Qed.

Ltac urlem ::= first [apply UR_send_all | apply UR_send_each].

Lemma UR_open_mailbox a m side when : UR eq (open_mailbox a m side when) (open_mailbox a m side when).
Proof. unfold open_mailbox. urp. Qed.

Ltac urlem ::= first [apply UR_send_all | apply UR_send_each | apply UR_open_mailbox].

Lemma UR_claim_nameplate a name side when draw :
  UR eq (claim_nameplate a name side when draw) (claim_nameplate a name side when draw).
Proof. unfold claim_nameplate. urp. Qed.

Ltac urlem ::= first [apply UR_send_all | apply UR_send_each | apply UR_open_mailbox
                    | apply UR_claim_nameplate].

Lemma UR_allocate_nameplate a side when o draw :
  UR eq (allocate_nameplate a side when o draw) (allocate_nameplate a side when o draw).
Proof. unfold allocate_nameplate. urp. Qed.

Lemma UR_add_message a m r : UR eq (add_message a m r) (add_message a m r).
Proof. unfold add_message. urp. Qed.

Lemma UR_release_nameplate a name side when :
  UR eq (release_nameplate cfg a name side when) (release_nameplate cfg a name side when).
Proof. unfold release_nameplate. urp. Qed.

Lemma UR_mailbox_close a m side mood when :
  UR eq (mailbox_close cfg a m side mood when) (mailbox_close cfg a m side mood when).
Proof. unfold mailbox_close. urp. Qed.

Lemma UR_prune_app a when old : UR eq (prune_app cfg a when old) (prune_app cfg a when old).
Proof. unfold prune_app. urp. Qed.

Lemma UR_prune_apps apps when old : UR eq (prune_apps cfg apps when old) (prune_apps cfg apps when old).
Proof.
  induction apps as [|a apps IH]; cbn [prune_apps]; [apply UR_ret|].
  eapply URp_bind; [apply UR_prune_app|]. intros _. exact IH.
Qed.

Lemma UR_prune_all_apps when old : UR eq (prune_all_apps cfg when old) (prune_all_apps cfg when old).
Proof. unfold prune_all_apps. eapply URp_bind; [apply UR_q|]. intros apps. apply UR_prune_apps. Qed.

(** the boot instants of the two processes need not agree *)
Lemma UR_dump_stats when b1 b2 : UR eq (dump_stats cfg when b1) (dump_stats cfg when b2).
Proof. unfold dump_stats. urp. Qed.

Lemma UR_log_client_version a side when cv :
  UR eq (log_client_version cfg a side when cv) (log_client_version cfg a side when cv).
Proof. unfold log_client_version. urp. Qed.

Lemma UR_expire fault : UR eq (expire cfg fault) (expire cfg fault).
Proof.
  unfold expire. apply UR_bind_get. intros x y Hxy. cbv beta. rewrite <- (su_now _ _ Hxy).
  eapply URp_bind.
  - destruct fault; [apply UR_ret|]. apply UR_try_catch; [apply UR_prune_all_apps|].
    intros e. apply UR_ret.
  - intros _. apply UR_dump_stats.
Qed.

Ltac urlem ::= first [apply UR_send_all | apply UR_send_each | apply UR_open_mailbox
                    | apply UR_claim_nameplate | apply UR_allocate_nameplate
                    | apply UR_release_nameplate | apply UR_mailbox_close
                    | apply UR_add_message | apply UR_log_client_version].

Lemma UR_handle_ping c msg : UR eq (handle_ping c msg) (handle_ping c msg).
Proof. unfold handle_ping. urp. Qed.

Lemma UR_handle_bind c msg : UR eq (handle_bind cfg c msg) (handle_bind cfg c msg).
Proof. unfold handle_bind. urp. Qed.

Lemma UR_handle_list c a : UR eq (handle_list cfg c a) (handle_list cfg c a).
Proof. unfold handle_list. urp. Qed.

Lemma UR_handle_allocate c a side o : UR eq (handle_allocate c a side o) (handle_allocate c a side o).
Proof. unfold handle_allocate. urp. Qed.

Lemma UR_handle_claim c a side msg o : UR eq (handle_claim c a side msg o) (handle_claim c a side msg o).
Proof. unfold handle_claim. urp. Qed.

Lemma UR_handle_release c a side msg :
  UR eq (handle_release cfg c a side msg) (handle_release cfg c a side msg).
Proof. unfold handle_release. urp. Qed.

Lemma UR_handle_open c a side msg : UR eq (handle_open c a side msg) (handle_open c a side msg).
Proof. unfold handle_open. urp. Qed.

Lemma UR_handle_add c a side msg : UR eq (handle_add c a side msg) (handle_add c a side msg).
Proof. unfold handle_add. urp. Qed.

Lemma UR_handle_close c a side msg :
  UR eq (handle_close cfg c a side msg) (handle_close cfg c a side msg).
Proof. unfold handle_close. urp. Qed.

Lemma UR_dispatch c t msg o : UR eq (dispatch cfg c t msg o) (dispatch cfg c t msg o).
Proof.
  unfold dispatch.
  destruct t;
    try first [apply UR_handle_ping | apply UR_handle_bind];
    (eapply URp_bind; [apply UR_get_conn|]); intros cs;
    (destruct (c_bound cs) as [[a side]|]; [|apply UR_raise]).
  - apply UR_handle_list.
  - apply UR_handle_allocate.
  - apply UR_handle_claim.
  - apply UR_handle_release.
  - apply UR_handle_open.
  - apply UR_handle_add.
  - apply UR_handle_close.
  - apply UR_raise.
Qed.

Lemma UR_on_message c msg o : UR eq (on_message cfg c msg o) (on_message cfg c msg o).
Proof.
  unfold on_message. apply UR_try_catch.
  - destruct (m_type msg) as [t|]; [|apply UR_raise].
    eapply URp_bind; [apply UR_send|]. intros _. apply UR_dispatch.
  - intros e. destruct e; try apply UR_raise. apply UR_send.
Qed.

Lemma UR_on_close c : UR eq (on_close c) (on_close c).
Proof. unfold on_close. urp. Qed.

End Ops.
Print Assumptions run_app_pair.
Print Assumptions skel_rev.
Print Assumptions is_commit_sk.
Print Assumptions count_commits_skel.
Print Assumptions frames_of_skel.
Print Assumptions stamps_of_skel.
Print Assumptions log_prefix_skel.
Print Assumptions replay_commits_skel.
Print Assumptions UR_ret.
Print Assumptions UR_raise.
Print Assumptions UR_bind.
Print Assumptions URp_bind.
Print Assumptions UR_bind_get.
Print Assumptions UR_try_catch.
Print Assumptions UR_tx.
Print Assumptions UR_q.
Print Assumptions UR_utx.
Print Assumptions UR_commit_chan.
Print Assumptions UR_commit_usage.
Print Assumptions UR_send.
Print Assumptions UR_get_conn.
Print Assumptions UR_set_conn.
Print Assumptions UR_add_sub.
Print Assumptions UR_remove_sub.
Print Assumptions UR_stop_listeners.
Print Assumptions UR_send_all.
Print Assumptions UR_send_each.
Print Assumptions UR_open_mailbox.
Print Assumptions UR_claim_nameplate.
Print Assumptions UR_allocate_nameplate.
Print Assumptions UR_add_message.
Print Assumptions UR_release_nameplate.
Print Assumptions UR_mailbox_close.
Print Assumptions UR_prune_app.
Print Assumptions UR_prune_apps.
Print Assumptions UR_prune_all_apps.
Print Assumptions UR_dump_stats.
Print Assumptions UR_log_client_version.
Print Assumptions UR_expire.
Print Assumptions UR_handle_ping.
Print Assumptions UR_handle_bind.
Print Assumptions UR_handle_list.
Print Assumptions UR_handle_allocate.
Print Assumptions UR_handle_claim.
Print Assumptions UR_handle_release.
Print Assumptions UR_handle_open.
Print Assumptions UR_handle_add.
Print Assumptions UR_handle_close.
Print Assumptions UR_dispatch.
Print Assumptions UR_on_message.
Print Assumptions UR_on_close.


(** * Part 2: events and histories

    Between events the relation is DupFacts.[same_channel] itself (both copies of
    the channel database, subscriptions, connection records, clock, timer; the
    usage databases, the boot instant and the stale log are free).  It is
    preserved by EVERY event -- plain, restart, crash after any commit -- and
    the two observations are equal up to [sk].  No invariant is needed: with the
    same configuration both runs execute the same code on the same data. *)

(** what two observations have in common: validity, escaped exception, and the
    two logs up to [sk] -- the same frames with the same stamps, the same commits
    of the same kind at the same places, the same channel snapshots *)
Definition obs_same (o1 o2 : obs) : Prop :=
  o_valid o1 = o_valid o2 /\ o_exc o1 = o_exc o2 /\
  skel (o_log o1) = skel (o_log o2) /\ skel (o_boot_log o1) = skel (o_boot_log o2).

Lemma skel_frames l1 l2 : skel l1 = skel l2 -> frames_of l1 = frames_of l2.
Proof. intros E. rewrite <- (frames_of_skel l1), E. apply frames_of_skel. Qed.

Lemma skel_stamps l1 l2 : skel l1 = skel l2 -> stamps_of l1 = stamps_of l2.
Proof. intros E. rewrite <- (stamps_of_skel l1), E. apply stamps_of_skel. Qed.

Lemma skel_count l1 l2 : skel l1 = skel l2 -> count_commits l1 = count_commits l2.
Proof. intros E. rewrite <- (count_commits_skel l1), E. apply count_commits_skel. Qed.

Lemma obs_same_facts o1 o2 :
  obs_same o1 o2 ->
  frames_of (o_log o1) = frames_of (o_log o2) /\
  stamps_of (o_log o1) = stamps_of (o_log o2) /\
  count_commits (o_log o1) = count_commits (o_log o2) /\
  frames_of (o_boot_log o1) = frames_of (o_boot_log o2) /\
  count_commits (o_boot_log o1) = count_commits (o_boot_log o2) /\
  (forall c u1 u2, fst (replay_commits (o_log o1) c u1) = fst (replay_commits (o_log o2) c u2)).
Proof.
  intros (_ & _ & El & Eb).
  split; [exact (skel_frames _ _ El)|]. split; [exact (skel_stamps _ _ El)|].
  split; [exact (skel_count _ _ El)|]. split; [exact (skel_frames _ _ Eb)|].
  split; [exact (skel_count _ _ Eb)|]. intros c u1 u2. apply replay_commits_skel. exact El.
Qed.

Section Steps.
Variable cfg : config.

Lemma su_set_conns s1 s2 x : simU s1 s2 -> simU (set_conns s1 x) (set_conns s2 x).
Proof. intros Hs. destruct Hs. constructor; cbn; auto. Qed.

Lemma su_drop_conn c s1 s2 : simU s1 s2 -> simU (drop_conn c s1) (drop_conn c s2).
Proof.
  intros Hs. unfold drop_conn. pose proof (UR_on_close c s1 s2 Hs) as H.
  destruct (on_close c s1) as [a1 t1|e1 t1], (on_close c s2) as [a2 t2|e2 t2];
    try (exfalso; exact H).
  - destruct H as (_ & Ht). rewrite <- (su_conns _ _ Ht). apply su_set_conns. exact Ht.
  - destruct H as (_ & Ht). rewrite <- (su_conns _ _ Ht). apply su_set_conns. exact Ht.
Qed.

Lemma has_conn_simU c s1 s2 : simU s1 s2 -> has_conn c s1 = has_conn c s2.
Proof. intros Hs. unfold has_conn. rewrite (su_conns _ _ Hs). reflexivity. Qed.

Lemma run_m_simU (m1 m2 : M unit) s1 s2 :
  UR eq m1 m2 -> simU s1 s2 ->
  simU (fst (run_m m1 s1)) (fst (run_m m2 s2)) /\ snd (run_m m1 s1) = snd (run_m m2 s2).
Proof.
  intros H Hs. unfold run_m. specialize (H s1 s2 Hs).
  destruct (m1 s1) as [a1 t1|e1 t1], (m2 s2) as [a2 t2|e2 t2]; try (exfalso; exact H); cbn [fst snd].
  - destruct H as (_ & Ht). auto.
  - destruct H as (<- & Ht). auto.
Qed.

(** one base event: the two logs have the same skeleton *)
Lemma step_b_simU s1 s2 b :
  simU s1 s2 ->
  let '(t1, v1, x1) := step_b cfg s1 b in
  let '(t2, v2, x2) := step_b cfg s2 b in
  simU t1 t2 /\ v1 = v2 /\ x1 = x2.
Proof.
  intros Hs. destruct b as [c|c m o|c|fault|dt fault]; unfold step_b.
  - rewrite <- (has_conn_simU c _ _ Hs). destruct (has_conn c s1); [auto|].
    rewrite <- (su_conns _ _ Hs).
    assert (Hs1 : simU (set_conns s1 (conns s1 ++ [(c, new_conn)]))
                       (set_conns s2 (conns s1 ++ [(c, new_conn)]))) by (apply su_set_conns; exact Hs).
    assert (Ro : UR eq (on_open cfg c) (on_open cfg c)) by (unfold on_open; apply UR_send).
    destruct (run_m_simU (on_open cfg c) (on_open cfg c) _ _ Ro Hs1) as [A B].
    destruct (run_m (on_open cfg c) (set_conns s1 (conns s1 ++ [(c, new_conn)]))) as [u1 x1].
    destruct (run_m (on_open cfg c) (set_conns s2 (conns s1 ++ [(c, new_conn)]))) as [u2 x2].
    cbn [fst snd] in A, B. auto.
  - rewrite <- (has_conn_simU c _ _ Hs). destruct (has_conn c s1); [|auto].
    pose proof (UR_on_message cfg c m o s1 s2 Hs) as H.
    destruct (on_message cfg c m o s1) as [a1 t1|e1 t1],
             (on_message cfg c m o s2) as [a2 t2|e2 t2]; try (exfalso; exact H).
    + destruct H as (_ & Ht). auto.
    + destruct H as (<- & Ht). split; [apply su_drop_conn; exact Ht|auto].
  - rewrite <- (has_conn_simU c _ _ Hs). destruct (has_conn c s1); [|auto].
    split; [apply su_drop_conn; exact Hs|auto].
  - destruct (run_m_simU _ _ _ _ (UR_expire cfg fault) Hs) as [A B].
    destruct (run_m (expire cfg fault) s1) as [u1 x1].
    destruct (run_m (expire cfg fault) s2) as [u2 x2].
    cbn [fst snd] in A, B. auto.
  - destruct (dt <? 0); [auto|]. cbv zeta.
    assert (Hs1 : simU (set_now s1 (now s1 + dt)) (set_now s2 (now s2 + dt))).
    { destruct Hs. constructor; cbn; auto. congruence. }
    change (next_due (set_now s1 (now s1 + dt)) <=? now (set_now s1 (now s1 + dt)))
      with (next_due s1 <=? now s1 + dt).
    change (next_due (set_now s2 (now s2 + dt)) <=? now (set_now s2 (now s2 + dt)))
      with (next_due s2 <=? now s2 + dt).
    assert (Eb : (next_due s2 <=? now s2 + dt) = (next_due s1 <=? now s1 + dt))
      by (rewrite (su_nd _ _ Hs), (su_now _ _ Hs); reflexivity).
    rewrite Eb. destruct (next_due s1 <=? now s1 + dt); [|auto].
    destruct (run_m_simU _ _ _ _ (UR_expire cfg fault) Hs1) as [A B].
    destruct (run_m (expire cfg fault) (set_now s1 (now s1 + dt))) as [u1 x1].
    destruct (run_m (expire cfg fault) (set_now s2 (now s2 + dt))) as [u2 x2].
    cbn [fst snd] in A, B. split; [|auto].
    destruct A. constructor; cbn; auto.
    unfold next_grid. congruence.
Qed.

Lemma same_channel_simU s1 s2 : same_channel s1 s2 -> simU (set_log s1 []) (set_log s2 []).
Proof. intros (A & B & C & D & E & F & G). constructor; cbn; auto. Qed.

Lemma simU_same_channel s1 s2 : simU s1 s2 -> same_channel (set_log s1 []) (set_log s2 []).
Proof. intros H. destruct H. unfold same_channel. cbn. auto 10. Qed.

(** process start on the same channel file at the same instant, any usage files *)
Lemma boot_simU c u1 u2 t :
  let '(s1, bl1, x1) := boot_on cfg c u1 t in
  let '(s2, bl2, x2) := boot_on cfg c u2 t in
  same_channel s1 s2 /\ x1 = x2 /\ skel bl1 = skel bl2.
Proof.
  rewrite !boot_on_eq.
  set (s01 := mkState c c u1 u1 [] [] t t t (t + period cfg) []).
  set (s02 := mkState c c u2 u2 [] [] t t t (t + period cfg) []).
  assert (Hs : simU s01 s02) by (constructor; reflexivity).
  pose proof (UR_expire cfg false s01 s02 Hs) as K.
  destruct (expire cfg false s01) as [a1 t1|e1 t1], (expire cfg false s02) as [a2 t2|e2 t2];
    try (exfalso; exact K).
  - destruct K as (_ & Kt). split; [exact (simU_same_channel _ _ Kt)|]. split; [reflexivity|].
    rewrite !skel_rev. f_equal. exact (su_log _ _ Kt).
  - destruct K as (<- & Kt). split; [exact (simU_same_channel _ _ Kt)|]. split; [reflexivity|].
    rewrite !skel_rev. f_equal. exact (su_log _ _ Kt).
Qed.

(** ** one event: plain, restart, or crash after the k-th commit -- the SAME k in both runs *)
Theorem step_same_channel s1 s2 e :
  same_channel s1 s2 ->
  let '(s1', o1) := step cfg s1 e in
  let '(s2', o2) := step cfg s2 e in
  same_channel s1' s2' /\ obs_same o1 o2.
Proof.
  intros Hs. pose proof (same_channel_simU _ _ Hs) as Hs0. unfold step. cbv zeta.
  set (a1 := set_log s1 []) in *. set (a2 := set_log s2 []) in *.
  destruct e as [b|k b|].
  - (* plain *)
    pose proof (step_b_simU a1 a2 b Hs0) as K.
    destruct (step_b cfg a1 b) as [[t1 v1] x1]. destruct (step_b cfg a2 b) as [[t2 v2] x2].
    destruct K as (Ht & <- & <-). split; [exact (simU_same_channel _ _ Ht)|].
    unfold obs_same. cbn [o_valid o_exc o_log o_boot_log].
    split; [reflexivity|]. split; [reflexivity|]. split; [|reflexivity].
    rewrite !skel_rev. f_equal. exact (su_log _ _ Ht).
  - (* crash *)
    pose proof (step_b_simU a1 a2 b Hs0) as K.
    destruct (step_b cfg a1 b) as [[t1 v1] x1]. destruct (step_b cfg a2 b) as [[t2 v2] x2].
    destruct K as (Ht & <- & <-).
    assert (Efull : skel (rev (log t1)) = skel (rev (log t2))).
    { rewrite !skel_rev. f_equal. exact (su_log _ _ Ht). }
    rewrite <- (skel_count _ _ Efull).
    destruct ((count_commits (rev (log t1)) <? k)%nat || negb v1).
    + (* both events complete *)
      rewrite <- (su_c _ _ Ht), <- (su_now _ _ Ht).
      pose proof (boot_simU (chan_c t1) (usage_c t1) (usage_c t2) (now t1)) as B.
      destruct (boot_on cfg (chan_c t1) (usage_c t1) (now t1)) as [[r1 bl1] y1].
      destruct (boot_on cfg (chan_c t1) (usage_c t2) (now t1)) as [[r2 bl2] y2].
      destruct B as (Br & _ & Bm). split; [exact Br|].
      unfold obs_same. cbn [o_valid o_exc o_log o_boot_log]. auto.
    + (* both processes die after their k-th commit *)
      assert (Epre : skel (log_prefix k (rev (log t1))) = skel (log_prefix k (rev (log t2)))).
      { rewrite !log_prefix_skel. f_equal. exact Efull. }
      pose proof (replay_commits_skel _ _ (chan_c a1) (usage_c a1) (usage_c a2) Epre) as Ef.
      rewrite <- (su_c _ _ Hs0).
      destruct (replay_commits (log_prefix k (rev (log t1))) (chan_c a1) (usage_c a1)) as [c1 u1].
      destruct (replay_commits (log_prefix k (rev (log t2))) (chan_c a1) (usage_c a2)) as [c2 u2].
      cbn [fst] in Ef. subst c2. rewrite <- (su_now _ _ Ht).
      pose proof (boot_simU c1 u1 u2 (now t1)) as B.
      destruct (boot_on cfg c1 u1 (now t1)) as [[r1 bl1] y1].
      destruct (boot_on cfg c1 u2 (now t1)) as [[r2 bl2] y2].
      destruct B as (Br & _ & Bm). split; [exact Br|].
      unfold obs_same. cbn [o_valid o_exc o_log o_boot_log]. auto.
  - (* restart *)
    rewrite <- (su_c _ _ Hs0), <- (su_now _ _ Hs0).
    pose proof (boot_simU (chan_c a1) (usage_c a1) (usage_c a2) (now a1)) as B.
    destruct (boot_on cfg (chan_c a1) (usage_c a1) (now a1)) as [[r1 bl1] y1].
    destruct (boot_on cfg (chan_c a1) (usage_c a2) (now a1)) as [[r2 bl2] y2].
    destruct B as (Br & Bx & Bm). split; [exact Br|].
    unfold obs_same. cbn [o_valid o_exc o_log o_boot_log]. auto.
Qed.

(** ** every history: plain events, restarts, crashes at any commit index *)
Theorem run_same_channel h : forall s1 s2,
  same_channel s1 s2 ->
  let '(s1', os1) := run cfg s1 h in
  let '(s2', os2) := run cfg s2 h in
  same_channel s1' s2' /\ Forall2 obs_same os1 os2.
Proof.
  induction h as [|e h IH]; intros s1 s2 Hs; cbn [run].
  - split; [exact Hs|constructor].
  - pose proof (step_same_channel s1 s2 e Hs) as K.
    destruct (step cfg s1 e) as [t1 o1]. destruct (step cfg s2 e) as [t2 o2].
    destruct K as [Ht Ho]. specialize (IH t1 t2 Ht).
    destruct (run cfg t1 h) as [u1 os1]. destruct (run cfg t2 h) as [u2 os2].
    destruct IH as [A B]. split; [exact A|constructor; assumption].
Qed.

End Steps.
Print Assumptions skel_frames.
Print Assumptions skel_stamps.
Print Assumptions skel_count.
Print Assumptions obs_same_facts.
Print Assumptions su_set_conns.
Print Assumptions su_drop_conn.
Print Assumptions has_conn_simU.
Print Assumptions run_m_simU.
Print Assumptions step_b_simU.
Print Assumptions same_channel_simU.
Print Assumptions simU_same_channel.
Print Assumptions boot_simU.
Print Assumptions step_same_channel.
Print Assumptions run_same_channel.


(** * Part 3: the duplicate and its continuation *)

Lemma Forall2_map_eq {A B} (R : A -> A -> Prop) (f : A -> B) l1 l2 :
  (forall x y, R x y -> f x = f y) -> Forall2 R l1 l2 -> map f l1 = map f l2.
Proof.
  intros Hf H. induction H as [|x y l1 l2 Hxy _ IH]; [reflexivity|].
  cbn [map]. rewrite (Hf x y Hxy), IH. reflexivity.
Qed.

(** what pointwise [obs_same] gives for the lists the property speaks about *)
Lemma obs_same_lists os1 os2 :
  Forall2 obs_same os1 os2 ->
  map (fun o => frames_of (o_log o)) os1 = map (fun o => frames_of (o_log o)) os2 /\
  map (fun o => stamps_of (o_log o)) os1 = map (fun o => stamps_of (o_log o)) os2 /\
  map o_exc os1 = map o_exc os2 /\
  map o_valid os1 = map o_valid os2 /\
  map (fun o => count_commits (o_log o)) os1 = map (fun o => count_commits (o_log o)) os2 /\
  map (fun o => frames_of (o_boot_log o)) os1 = map (fun o => frames_of (o_boot_log o)) os2.
Proof.
  intros H.
  split; [apply (Forall2_map_eq obs_same _ _ _) with (2 := H); intros x y K;
          exact (proj1 (obs_same_facts x y K))|].
  split; [apply (Forall2_map_eq obs_same _ _ _) with (2 := H); intros x y K;
          exact (proj1 (proj2 (obs_same_facts x y K)))|].
  split; [apply (Forall2_map_eq obs_same _ _ _) with (2 := H); intros x y (_ & K & _); exact K|].
  split; [apply (Forall2_map_eq obs_same _ _ _) with (2 := H); intros x y (K & _); exact K|].
  split; [apply (Forall2_map_eq obs_same _ _ _) with (2 := H); intros x y K;
          exact (proj1 (proj2 (proj2 (obs_same_facts x y K))))|].
  apply (Forall2_map_eq obs_same _ _ _) with (2 := H); intros x y K.
  exact (proj1 (proj2 (proj2 (proj2 (obs_same_facts x y K))))).
Qed.

Lemma same_channel_view s1 s2 : same_channel s1 s2 -> view_of s1 = view_of s2.
Proof. intros (A & B & C & D & E & _). unfold view_of. congruence. Qed.

(** the run with a segment of [n] events in front against the run without: the
    states after the continuation, and the observations of the continuation *)
Definition cont_agree (n : nat) (r1 r2 : state * list obs) : Prop :=
  same_channel (fst r1) (fst r2) /\ Forall2 obs_same (snd r1) (skipn n (snd r2)).

Section WithConfig.
Variable cfg : config.

(** any segment [d] of events that leaves the channel-relevant state as it was
    is invisible to every continuation [h]: no hypothesis on [s] (no invariant),
    none on [h] (plain events, restarts, crashes after any commit) *)
Theorem invisible_segment_run s d h :
  same_channel s (fst (run cfg s d)) ->
  cont_agree (List.length d) (run cfg s h) (run cfg s (d ++ h)).
Proof.
  intros Hsame.
  pose proof (run_same_channel cfg h s (fst (run cfg s d)) Hsame) as K.
  rewrite (run_app_pair cfg d h s).
  destruct (run cfg s h) as [u1 os1]. destruct (run cfg (fst (run cfg s d)) h) as [u2 os2].
  destruct K as [A B]. unfold cont_agree. cbn [fst snd].
  rewrite (skipn_app_exact _ _ _ (eq_sym (run_snd_length cfg d s))).
  split; assumption.
Qed.

(** the conclusion as a predicate, for the duplicate of C14 *)
Definition dup_invisible (s : state) (c' : nat) (a side : string) (cmd : command) (o : oracle)
           (h : list event) : Prop :=
  cont_agree 4 (run cfg s h) (run cfg s (dup_events c' a side cmd o ++ h)).

Lemma dup_invisible_intro s c' a side cmd o h :
  same_channel s (fst (run cfg s (dup_events c' a side cmd o))) ->
  dup_invisible s c' a side cmd o h.
Proof. intros Hsame. exact (invisible_segment_run s (dup_events c' a side cmd o) h Hsame). Qed.

(** ... spelled out: for EVERY continuation [h] the two runs end in the same
    channel view and timer state, and the events of [h] are answered with the
    same frames, bearing the same stamps, raise the same exceptions, and make
    the same commits at the same places of their logs (so a crash after the
    k-th commit is the same instant in both runs) *)
Theorem dup_invisible_run s c' a side cmd o h :
  same_channel s (fst (run cfg s (dup_events c' a side cmd o))) ->
  let '(s1, os1) := run cfg s h in
  let '(s2, os2) := run cfg s (dup_events c' a side cmd o ++ h) in
  view_of s1 = view_of s2 /\
  timer_start s1 = timer_start s2 /\ next_due s1 = next_due s2 /\
  same_channel s1 s2 /\
  Forall2 obs_same os1 (skipn 4 os2) /\
  map (fun o => frames_of (o_log o)) os1 = skipn 4 (map (fun o => frames_of (o_log o)) os2) /\
  map (fun o => stamps_of (o_log o)) os1 = skipn 4 (map (fun o => stamps_of (o_log o)) os2) /\
  map o_exc os1 = skipn 4 (map o_exc os2) /\
  map o_valid os1 = skipn 4 (map o_valid os2) /\
  map (fun o => count_commits (o_log o)) os1 = skipn 4 (map (fun o => count_commits (o_log o)) os2) /\
  map (fun o => frames_of (o_boot_log o)) os1 = skipn 4 (map (fun o => frames_of (o_boot_log o)) os2).
Proof.
  intros Hsame. pose proof (dup_invisible_intro s c' a side cmd o h Hsame) as K.
  unfold dup_invisible, cont_agree in K.
  destruct (run cfg s h) as [s1 os1].
  destruct (run cfg s (dup_events c' a side cmd o ++ h)) as [s2 os2].
  cbn [fst snd] in K. destruct K as [A B].
  pose proof (obs_same_lists _ _ B) as (B1 & B2 & B3 & B4 & B5 & B6).
  rewrite !skipn_map.
  split; [exact (same_channel_view _ _ A)|].
  pose proof A as (_ & _ & _ & _ & _ & T1 & T2).
  split; [congruence|]. split; [congruence|]. split; [exact A|]. split; [exact B|].
  repeat (split; [assumption|]). assumption.
Qed.

Lemma dup_invisible_frames s c' a side cmd o h :
  dup_invisible s c' a side cmd o h ->
  map (fun o => frames_of (o_log o)) (snd (run cfg s h)) =
  skipn 4 (map (fun o => frames_of (o_log o))
               (snd (run cfg s (dup_events c' a side cmd o ++ h)))).
Proof.
  intros [_ B]. rewrite skipn_map. exact (proj1 (obs_same_lists _ _ B)).
Qed.

(** ** the four commands *)

(** claim: hypotheses of [claim_dup] (established by [claim_establishes]) *)
Corollary claim_dup_run s c' a side n cmd o h :
  SInv s -> log s = [] -> has_conn c' s = false ->
  m_type cmd = Some TClaim -> m_nameplate cmd = Some n ->
  claim_done (chan_w s) a n side (now s) ->
  dup_invisible s c' a side cmd o h.
Proof.
  intros HS L Hno Ht Hn Hdone. apply dup_invisible_intro.
  pose proof (claim_dup cfg s c' a side n cmd o HS L Hno Ht Hn Hdone) as K.
  destruct (run cfg s (dup_events c' a side cmd o)) as [s2 os]. cbn [fst].
  exact (proj1 K).
Qed.

(** release: hypotheses of [release_dup] (established by [release_establishes]) *)
Corollary release_dup_run s c' a side n cmd o h :
  SInv s -> log s = [] -> has_conn c' s = false ->
  m_type cmd = Some TRelease -> m_nameplate cmd = Some n ->
  release_done (chan_w s) a n side ->
  dup_invisible s c' a side cmd o h.
Proof.
  intros HS L Hno Ht Hn Hdone. apply dup_invisible_intro.
  pose proof (release_dup cfg s c' a side n cmd o HS L Hno Ht Hn Hdone) as K.
  destruct (run cfg s (dup_events c' a side cmd o)) as [s2 os]. cbn [fst].
  exact (proj1 K).
Qed.

(** open: hypotheses of [open_dup] (established by [open_establishes]) *)
Corollary open_dup_run s c' a side m cmd o h :
  SInv s -> log s = [] -> has_conn c' s = false ->
  m_type cmd = Some TOpen -> m_mailbox cmd = Some m ->
  open_done (chan_w s) a m side (now s) ->
  dup_invisible s c' a side cmd o h.
Proof.
  intros HS L Hno Ht Hm Hdone. apply dup_invisible_intro.
  pose proof (open_dup cfg s c' a side m cmd o HS L Hno Ht Hm Hdone) as K.
  destruct (run cfg s (dup_events c' a side cmd o)) as [s2 os]. cbn [fst].
  exact (proj1 K).
Qed.

(** close: [close_dup] does not state what the duplicate does to the timer; it
    does nothing to it *)
Lemma close_dup_timer s c' a side m cmd o :
  SInv s -> log s = [] -> has_conn c' s = false ->
  m_type cmd = Some TClose -> m_mailbox cmd = Some m ->
  close_done (chan_w s) a m side (m_mood cmd) ->
  let s2 := fst (run cfg s (dup_events c' a side cmd o)) in
  timer_start s2 = timer_start s /\ next_due s2 = next_due s.
Proof.
  intros Hinv Hlog Hno Ht Hm Hdone.
  destruct (dup_run cfg s c' a side cmd o Hno) as (Hl & s2 & o1 & o2 & Hw & Hc & Hs & Hcn & Hk & Hlg & Hrun).
  assert (Hl2 : lookup_conn c' (conns s2) = Some (set_bound new_conn (Some (a, side)))).
  { rewrite Hcn. apply dup_lookup_snoc. exact Hl. }
  assert (Hdb2 : DbInv (chan_w s2)) by (rewrite Hw; exact (si_db s Hinv)).
  destruct (clk_inv _ _ Hk) as (Hnow2 & _).
  destruct (close_done_db (chan_w s) a m side (m_mood cmd) (now s) (si_db s Hinv) Hdone)
    as (Hob & Hle & Hcd & Hdel).
  rewrite <- Hw, <- Hnow2 in Hob, Hle, Hcd, Hdel.
  assert (Hq : close_deletes (open_db (chan_w s2) a m side (now s2)) a m side (m_mood cmd) = true ->
               forall c0, ~ In (a, m, c0) (subs s2)).
  { intros Hd c0. rewrite Hs. apply dead_not_sub; [exact Hinv|]. rewrite <- Hw. exact (Hdel Hd). }
  destruct (close_step_fresh cfg s2 c' _ a side m cmd o Hdb2 Hl2 eq_refl eq_refl eq_refl eq_refl eq_refl
              Ht Hm Hob Hle Hq)
    as (s3 & o3 & cs3 & E3 & Hw3 & Hc3 & Hs3 & Hcn3 & Hmb3 & Hk3 & Hfr & Hex).
  rewrite Hcn, (dup_update_snoc _ _ _ _ Hl) in Hcn3.
  destruct (step_disconnect cfg s3 c' (conns s) cs3 Hcn3 Hl) as (s4 & o4 & E4 & Hw4 & Hc4 & Hcn4 & Hk4 & Hs4).
  cbv zeta. rewrite (Hrun s3 o3 s4 o4 E3 E4). cbn [fst].
  rewrite Hk3, Hk in Hk4. apply clk_inv in Hk4. destruct Hk4 as (_ & K2 & K3).
  split; assumption.
Qed.

(** close: hypotheses of [close_dup] (established by [close_establishes] /
    [close_fresh_establishes]), when the close deleted the mailbox or the
    mailbox's stamp is the current instant.  Otherwise the re-sent close
    re-stamps the surviving mailbox (known finding KF4) and a later history CAN
    tell the difference: [close_dup_run_restamp_refuted] *)
Corollary close_dup_run s c' a side m cmd o h :
  SInv s -> log s = [] -> has_conn c' s = false ->
  m_type cmd = Some TClose -> m_mailbox cmd = Some m ->
  close_done (chan_w s) a m side (m_mood cmd) ->
  (~ mb_alive (chan_w s) m \/
   (forall r, In r (mailboxes (chan_w s)) -> mb_id r = m -> mb_updated r = now s)) ->
  dup_invisible s c' a side cmd o h.
Proof.
  intros HS L Hno Ht Hm Hdone Hcase. apply dup_invisible_intro.
  pose proof (close_dup cfg s c' a side m cmd o HS L Hno Ht Hm Hdone) as K.
  pose proof (close_dup_timer s c' a side m cmd o HS L Hno Ht Hm Hdone) as Kt. cbv zeta in Kt.
  destruct (run cfg s (dup_events c' a side cmd o)) as [s2 os]. cbn [fst] in *.
  destruct K as (_ & Kc & Ks & Kn & Know & Kgone & Kst & _). destruct Kt as [T1 T2].
  assert (Kw : chan_w s2 = chan_w s) by (destruct Hcase as [Hg|Hst]; auto).
  destruct (si_clean s HS) as [Hcl _].
  unfold same_channel. repeat split; try assumption. congruence.
Qed.

(** ** end to end: the original command, then its duplicate, then any history

    [*_establishes] (the original, answered successfully, leaves the
    precondition of its duplicate) composed with [*_dup_run]: [s'] is the state
    right after the original command; [cmd] is the re-sent command -- the
    original [msg] itself qualifies whenever it names its nameplate / mailbox *)
Section EndToEnd.
Hypothesis Hexp : 0 < exp cfg.

Lemma cmd_step_facts s c msg o :
  SInv s ->
  let s' := fst (step cfg s (EB (ECmd c msg o))) in
  SInv s' /\ log s' = [] /\ now s' = now s.
Proof.
  intros HS. cbv zeta.
  pose proof (step_spec cfg Hexp s (EB (ECmd c msg o)) HS) as K.
  pose proof (event_clock_now cfg s (EB (ECmd c msg o))) as Kn.
  destruct (step cfg s (EB (ECmd c msg o))) as [s' ob]. cbn [fst] in *.
  destruct K as (A & B & _). split; [exact A|]. split; [exact B|exact Kn].
Qed.

Theorem claim_resend_invisible s c cs a side msg o n mbox c' cmd o' h :
  SInv s -> log s = [] ->
  lookup_conn c (conns s) = Some cs -> c_bound cs = Some (a, side) ->
  m_type msg = Some TClaim -> erroneous cs msg = false -> m_nameplate msg = Some n ->
  let '(s', ob) := step cfg s (EB (ECmd c msg o)) in
  In (c, FClaimed mbox) (frames_of (o_log ob)) ->
  has_conn c' s' = false -> m_type cmd = Some TClaim -> m_nameplate cmd = Some n ->
  dup_invisible s' c' a side cmd o' h.
Proof.
  intros HS L Hlk Hb Ht Herr Hn.
  pose proof (claim_establishes cfg s c cs a side msg o n mbox HS L Hlk Hb Ht Herr Hn) as K.
  pose proof (cmd_step_facts s c msg o HS) as F. cbv zeta in F.
  destruct (step cfg s (EB (ECmd c msg o))) as [s' ob]. cbn [fst] in F.
  destruct F as (HS' & L' & En). intros Hin Hno Ht' Hn'.
  destruct (K Hin) as [Hdone _]. rewrite <- En in Hdone.
  exact (claim_dup_run s' c' a side n cmd o' h HS' L' Hno Ht' Hn' Hdone).
Qed.

Theorem release_resend_invisible s c cs a side msg o n c' cmd o' h :
  SInv s -> log s = [] ->
  lookup_conn c (conns s) = Some cs -> c_bound cs = Some (a, side) ->
  m_type msg = Some TRelease -> erroneous cs msg = false -> cmd_nameplate cs msg = Some n ->
  let '(s', ob) := step cfg s (EB (ECmd c msg o)) in
  has_conn c' s' = false -> m_type cmd = Some TRelease -> m_nameplate cmd = Some n ->
  dup_invisible s' c' a side cmd o' h.
Proof.
  intros HS L Hlk Hb Ht Herr Hn.
  pose proof (release_establishes cfg s c cs a side msg o n HS L Hlk Hb Ht Herr Hn) as K.
  pose proof (cmd_step_facts s c msg o HS) as F. cbv zeta in F.
  destruct (step cfg s (EB (ECmd c msg o))) as [s' ob]. cbn [fst] in F.
  destruct F as (HS' & L' & En). intros Hno Ht' Hn'.
  exact (release_dup_run s' c' a side n cmd o' h HS' L' Hno Ht' Hn' K).
Qed.

Theorem open_resend_invisible s c cs a side msg o m c' cmd o' h :
  SInv s -> log s = [] ->
  lookup_conn c (conns s) = Some cs -> c_bound cs = Some (a, side) ->
  m_type msg = Some TOpen -> erroneous cs msg = false -> m_mailbox msg = Some m ->
  let '(s', ob) := step cfg s (EB (ECmd c msg o)) in
  holds s' c a m ->
  has_conn c' s' = false -> m_type cmd = Some TOpen -> m_mailbox cmd = Some m ->
  dup_invisible s' c' a side cmd o' h.
Proof.
  intros HS L Hlk Hb Ht Herr Hm.
  pose proof (open_establishes cfg s c cs a side msg o m HS L Hlk Hb Ht Herr Hm) as K.
  pose proof (cmd_step_facts s c msg o HS) as F. cbv zeta in F.
  destruct (step cfg s (EB (ECmd c msg o))) as [s' ob]. cbn [fst] in F.
  destruct F as (HS' & L' & En). intros Hh Hno Ht' Hm'.
  pose proof (K Hh) as Hdone. rewrite <- En in Hdone.
  exact (open_dup_run s' c' a side m cmd o' h HS' L' Hno Ht' Hm' Hdone).
Qed.

(** close of the held mailbox [hm]: when the close deleted the mailbox, or at an
    instant at which the mailbox's stamp is the current time (otherwise KF4) *)
Theorem close_resend_invisible s c cs a side msg o hm c' cmd o' h :
  SInv s -> log s = [] ->
  lookup_conn c (conns s) = Some cs -> c_bound cs = Some (a, side) -> c_mailbox cs = Some hm ->
  m_type msg = Some TClose -> erroneous cs msg = false ->
  sel_mbs (chan_w s) hm side <> None -> not_crowded (chan_w s) hm ->
  let '(s', ob) := step cfg s (EB (ECmd c msg o)) in
  (~ mb_alive (chan_w s') hm \/
   (forall r, In r (mailboxes (chan_w s')) -> mb_id r = hm -> mb_updated r = now s')) ->
  has_conn c' s' = false -> m_type cmd = Some TClose -> m_mailbox cmd = Some hm ->
  m_mood cmd = m_mood msg ->
  dup_invisible s' c' a side cmd o' h.
Proof.
  intros HS L Hlk Hb Hmb Ht Herr Hsel Hnc.
  pose proof (close_establishes cfg s c cs a side msg o hm HS L Hlk Hb Hmb Ht Herr Hsel Hnc) as K.
  pose proof (cmd_step_facts s c msg o HS) as F. cbv zeta in F.
  destruct (step cfg s (EB (ECmd c msg o))) as [s' ob]. cbn [fst] in F.
  destruct F as (HS' & L' & En). intros Hcase Hno Ht' Hm' Hmood.
  rewrite <- Hmood in K.
  exact (close_dup_run s' c' a side hm cmd o' h HS' L' Hno Ht' Hm' K Hcase).
Qed.

End EndToEnd.

(** * Part 4: the limit -- a NAMELESS release / close re-sent on a fresh connection

    server_websocket.py handle_release: "release without nameplate must follow
    claim"; handle_close: "close without mailbox must follow open".  The fresh
    connection of the duplicate has neither claimed nor opened, so the verbatim
    re-send of a release / close that named nothing is a protocol error. *)

(** on a bound connection that remembers no nameplate, a nameless release is
    answered [ack; error] and changes nothing at all *)
Theorem nameless_release_error s c cs a side msg o :
  log s = [] -> lookup_conn c (conns s) = Some cs -> c_bound cs = Some (a, side) ->
  c_nameplate_id cs = None ->
  m_type msg = Some TRelease -> m_nameplate msg = None ->
  let '(s', ob) := step cfg s (EB (ECmd c msg o)) in
  s' = s /\ o_valid ob = true /\ o_exc ob = None /\
  frames_of (o_log ob) = [(c, FAck (m_id msg)); (c, FError ErrOther msg)] /\
  count_commits (o_log ob) = 0%nat.
Proof.
  intros L Hl Hb Hnp Ht Hn.
  assert (Hc : has_conn c s = true) by (unfold has_conn; rewrite Hl; reflexivity).
  assert (He : erroneous (conn_of s c) msg = true).
  { unfold conn_of. rewrite Hl. unfold erroneous. rewrite Ht, Hb, Hn, Hnp.
    cbn [name_mismatch]. apply orb_true_r. }
  pose proof (erroneous_answer_exact cfg s c msg o L Hc He) as K.
  destruct (step cfg s (EB (ECmd c msg o))) as [s' ob].
  destruct K as (K1 & K2 & K3 & _ & _ & K6 & _ & K8). rewrite Ht in K6.
  split; [exact K1|]. split; [exact K2|]. split; [exact K3|]. split; [exact K6|exact K8].
Qed.

(** ... and a nameless close on a bound connection that remembers no mailbox *)
Theorem nameless_close_error s c cs a side msg o :
  log s = [] -> lookup_conn c (conns s) = Some cs -> c_bound cs = Some (a, side) ->
  c_mailbox_id cs = None ->
  m_type msg = Some TClose -> m_mailbox msg = None ->
  let '(s', ob) := step cfg s (EB (ECmd c msg o)) in
  s' = s /\ o_valid ob = true /\ o_exc ob = None /\
  frames_of (o_log ob) = [(c, FAck (m_id msg)); (c, FError ErrOther msg)] /\
  count_commits (o_log ob) = 0%nat.
Proof.
  intros L Hl Hb Hmb Ht Hn.
  assert (Hc : has_conn c s = true) by (unfold has_conn; rewrite Hl; reflexivity).
  assert (He : erroneous (conn_of s c) msg = true).
  { unfold conn_of. rewrite Hl. unfold erroneous. rewrite Ht, Hb, Hn, Hmb.
    cbn [name_mismatch]. apply orb_true_r. }
  pose proof (erroneous_answer_exact cfg s c msg o L Hc He) as K.
  destruct (step cfg s (EB (ECmd c msg o))) as [s' ob].
  destruct K as (K1 & K2 & K3 & _ & _ & K6 & _ & K8). rewrite Ht in K6.
  split; [exact K1|]. split; [exact K2|]. split; [exact K3|]. split; [exact K6|exact K8].
Qed.

(** the duplicate of a nameless release / close, whatever the state: the
    re-sent command is answered `error' (not `released' / `closed'); it is
    harmless all the same (nothing of the channel state changes) *)
Lemma nameless_dup_error s c' a side cmd o :
  log s = [] -> has_conn c' s = false ->
  (m_type cmd = Some TRelease /\ m_nameplate cmd = None) \/
  (m_type cmd = Some TClose /\ m_mailbox cmd = None) ->
  let '(s2, obs) := run cfg s (dup_events c' a side cmd o) in
  same_channel s s2 /\
  exists o1 o2 o3 o4, obs = [o1; o2; o3; o4] /\
    frames_of (o_log o3) = [(c', FAck (m_id cmd)); (c', FError ErrOther cmd)] /\
    o_exc o3 = None /\ count_commits (o_log o3) = 0%nat.
Proof.
  intros Hlog Hno Hcmd.
  destruct (dup_run cfg s c' a side cmd o Hno) as (Hl & s2 & o1 & o2 & Hw & Hc & Hs & Hcn & Hk & Hlg & Hrun).
  assert (Hl2 : lookup_conn c' (conns s2) = Some (set_bound new_conn (Some (a, side)))).
  { rewrite Hcn. apply dup_lookup_snoc. exact Hl. }
  assert (K : let '(s', ob) := step cfg s2 (EB (ECmd c' cmd o)) in
              s' = s2 /\ o_valid ob = true /\ o_exc ob = None /\
              frames_of (o_log ob) = [(c', FAck (m_id cmd)); (c', FError ErrOther cmd)] /\
              count_commits (o_log ob) = 0%nat).
  { destruct Hcmd as [[Ht Hn]|[Ht Hn]].
    - exact (nameless_release_error s2 c' _ a side cmd o Hlg Hl2 eq_refl eq_refl Ht Hn).
    - exact (nameless_close_error s2 c' _ a side cmd o Hlg Hl2 eq_refl eq_refl Ht Hn). }
  destruct (step cfg s2 (EB (ECmd c' cmd o))) as [s3 o3] eqn:E3.
  destruct K as (-> & _ & Kx & Kf & Kc).
  destruct (step_disconnect cfg s2 c' (conns s) _ Hcn Hl) as (s4 & o4 & E4 & Hw4 & Hc4 & Hcn4 & Hk4 & Hs4).
  rewrite (Hrun s2 o3 s4 o4 eq_refl E4).
  cbn [c_mailbox set_bound new_conn] in Hs4.
  split.
  - unfold same_channel. rewrite Hk in Hk4. apply clk_inv in Hk4.
    destruct Hk4 as (K1 & K2 & K3). repeat split; congruence.
  - exists o1, o2, o3, o4. auto.
Qed.

Theorem release_dup_implicit_error s c' a side cmd o :
  log s = [] -> has_conn c' s = false ->
  m_type cmd = Some TRelease -> m_nameplate cmd = None ->
  let '(s2, obs) := run cfg s (dup_events c' a side cmd o) in
  same_channel s s2 /\
  exists o1 o2 o3 o4, obs = [o1; o2; o3; o4] /\
    frames_of (o_log o3) = [(c', FAck (m_id cmd)); (c', FError ErrOther cmd)] /\
    o_exc o3 = None /\ count_commits (o_log o3) = 0%nat.
Proof. intros L Hno Ht Hn. apply nameless_dup_error; auto. Qed.

Theorem close_dup_implicit_error s c' a side cmd o :
  log s = [] -> has_conn c' s = false ->
  m_type cmd = Some TClose -> m_mailbox cmd = None ->
  let '(s2, obs) := run cfg s (dup_events c' a side cmd o) in
  same_channel s s2 /\
  exists o1 o2 o3 o4, obs = [o1; o2; o3; o4] /\
    frames_of (o_log o3) = [(c', FAck (m_id cmd)); (c', FError ErrOther cmd)] /\
    o_exc o3 = None /\ count_commits (o_log o3) = 0%nat.
Proof. intros L Hno Ht Hn. apply nameless_dup_error; auto. Qed.

End WithConfig.
Print Assumptions Forall2_map_eq.
Print Assumptions obs_same_lists.
Print Assumptions same_channel_view.
Print Assumptions invisible_segment_run.
Print Assumptions dup_invisible_intro.
Print Assumptions dup_invisible_run.
Print Assumptions dup_invisible_frames.
Print Assumptions claim_dup_run.
Print Assumptions release_dup_run.
Print Assumptions open_dup_run.
Print Assumptions close_dup_timer.
Print Assumptions close_dup_run.
Print Assumptions cmd_step_facts.
Print Assumptions claim_resend_invisible.
Print Assumptions release_resend_invisible.
Print Assumptions open_resend_invisible.
Print Assumptions close_resend_invisible.
Print Assumptions nameless_release_error.
Print Assumptions nameless_close_error.
Print Assumptions nameless_dup_error.
Print Assumptions release_dup_implicit_error.
Print Assumptions close_dup_implicit_error.


(** * Part 5: non-vacuity and refutations *)

Definition x_cfg : config := gen_cfg true true (Some 56).
Definition xo : oracle := mkOracle None (mkAO None []).
Definition xod : oracle := mkOracle (Some "AAAAAAAA") (mkAO None []).
Definition xbind (s : string) : command :=
  mkCmd (Some TBind) None (Some "a") (Some s) None None None None None None None.
Definition xclaim (n : string) : command :=
  mkCmd (Some TClaim) None None None (Some n) None None None None None None.
Definition xrelease (n : option string) : command :=
  mkCmd (Some TRelease) None None None n None None None None None None.
Definition xopen (m : string) : command :=
  mkCmd (Some TOpen) None None None None (Some m) None None None None None.
Definition xclose (m : option string) : command :=
  mkCmd (Some TClose) None None None None m None None (Some "happy") None None.
Definition xadd (ph b : string) : command :=
  mkCmd (Some TAdd) None None None None None (Some ph) (Some b) None None None.
(** the mailbox id the server derives from the recorded draw "AAAAAAAA" *)
Definition x_mb : string := "ifaucqkbifauc".
Definition xlist : command :=
  mkCmd (Some TList) None None None None None None None None None None.

Lemma let_pair {A B} (p : A * B) (P : A -> B -> Prop) :
  (let '(a, b) := p in P a b) -> P (fst p) (snd p).
Proof. destruct p. auto. Qed.
Print Assumptions let_pair.

(** ** claim: A claims nameplate 7; the claim is re-sent on connection 9; then a
    long continuation: B connects, the process DIES AFTER THE SECOND OF THE THREE
    COMMITS of B's claim, B comes back, claims, opens, adds; a clean restart; a
    crash before a command; A comes back, opens (gets B's message), releases; the
    sweep timer fires; `list'.  The hypotheses of [claim_dup_run] hold
    ([claim_done] by [claim_establishes]), so its conclusion does; the two runs
    do differ -- in their usage databases *)
Definition x_pre : list event := [EB (EConnect 1); EB (ECmd 1 (xbind "A") xo)].
Definition x_h : list event :=
  [EB (EConnect 2); EB (ECmd 2 (xbind "B") xo); ECrash 2 (ECmd 2 (xclaim "7") xod);
   EB (EConnect 3); EB (ECmd 3 (xbind "B") xo); EB (ECmd 3 (xclaim "7") xod);
   EB (ECmd 3 (xopen x_mb) xo); EB (ECmd 3 (xadd "p" "b") xo);
   ERestart;
   EB (EConnect 4); EB (ECmd 4 (xbind "A") xo); ECrash 0 (ECmd 4 xlist xo);
   EB (EConnect 5); EB (ECmd 5 (xbind "A") xo); EB (ECmd 5 (xopen x_mb) xo);
   EB (ECmd 5 (xrelease (Some "7")) xo); EB (EAdvance 2400 false); EB (ECmd 5 xlist xo)].

Example claim_dup_run_nonvacuous :
  let s := fst (run x_cfg (init x_cfg 0) (x_pre ++ [EB (ECmd 1 (xclaim "7") xod)])) in
  let d := dup_events 9 "a" "A" (xclaim "7") xod in
  let r1 := run x_cfg s x_h in
  let r2 := run x_cfg s (d ++ x_h) in
  (* the hypotheses of [claim_dup_run] *)
  SInv s /\ log s = [] /\ has_conn 9 s = false /\ claim_done (chan_w s) "a" "7" "A" (now s) /\
  (* its conclusion *)
  dup_invisible x_cfg s 9 "a" "A" (xclaim "7") xod x_h /\
  (* the duplicate is answered `claimed' with the same mailbox id *)
  nth 2 (map (fun o => frames_of (o_log o)) (snd r2)) [] =
    [(9%nat, FAck None); (9%nat, FClaimed x_mb)] /\
  (* the continuation is not trivial: B's first claim dies after 2 of its 3 commits in both runs;
     A's later open replays B's message; the sweep fires *)
  map (fun o => count_commits (o_log o)) (snd r1) =
    [0; 1; 2; 0; 1; 3; 2; 1; 0; 0; 1; 0; 0; 1; 2; 1; 2; 0]%nat /\
  nth 2 (map (fun o => frames_of (o_log o)) (snd r1)) [] = [(2%nat, FAck None)] /\
  nth 14 (map (fun o => frames_of (o_log o)) (snd r1)) [] =
    [(5%nat, FAck None); (5%nat, FMessage "B" "p" "b" 0 None)] /\
  (* and the two runs are different: one more `client_versions' row *)
  List.length (u_versions (usage_c (fst r1))) = 5%nat /\
  List.length (u_versions (usage_c (fst r2))) = 6%nat.
Proof.
  cbv zeta.
  set (s0 := fst (run x_cfg (init x_cfg 0) x_pre)).
  set (s := fst (run x_cfg (init x_cfg 0) (x_pre ++ [EB (ECmd 1 (xclaim "7") xod)]))).
  destruct (init_run_inv x_cfg (gen_cfg_exp _ _ _) 0 x_pre) as [HS0 L0]. fold s0 in HS0, L0.
  destruct (init_run_inv x_cfg (gen_cfg_exp _ _ _) 0 (x_pre ++ [EB (ECmd 1 (xclaim "7") xod)])) as [HS L].
  fold s in HS, L.
  assert (Hno : has_conn 9 s = false) by (vm_compute; reflexivity).
  assert (Hdone : claim_done (chan_w s) "a" "7" "A" (now s)).
  { assert (Hlk : lookup_conn 1 (conns s0) = Some (set_bound new_conn (Some ("a", "A"))))
      by (vm_compute; reflexivity).
    pose proof (claim_establishes x_cfg s0 1 _ "a" "A" (xclaim "7") xod "7" x_mb
                  HS0 L0 Hlk eq_refl eq_refl eq_refl eq_refl) as K.
    apply let_pair in K.
    assert (E : fst (step x_cfg s0 (EB (ECmd 1 (xclaim "7") xod))) = s) by (vm_compute; reflexivity).
    assert (En : now s0 = now s) by (vm_compute; reflexivity).
    rewrite E, En in K. destruct K as [K _]; [vm_compute; auto|exact K]. }
  split; [exact HS|]. split; [exact L|]. split; [exact Hno|]. split; [exact Hdone|].
  split; [exact (claim_dup_run x_cfg s 9 "a" "A" "7" (xclaim "7") xod x_h HS L Hno eq_refl eq_refl Hdone)|].
  vm_compute. repeat split; reflexivity.
Qed.
Print Assumptions claim_dup_run_nonvacuous.

(** ** release: A and B have claimed nameplate 7; A's NAMELESS release is answered
    `released' and establishes [release_done] ([release_establishes]); its
    explicit-name duplicate is invisible to the continuation, in which the
    process dies after the first commit of B's release *)
Definition r_pre : list event :=
  [EB (EConnect 1); EB (ECmd 1 (xbind "A") xo); EB (ECmd 1 (xclaim "7") xod);
   EB (EConnect 2); EB (ECmd 2 (xbind "B") xo); EB (ECmd 2 (xclaim "7") xod)].
Definition r_h : list event :=
  [ECrash 1 (ECmd 2 (xrelease None) xo);
   EB (EConnect 3); EB (ECmd 3 (xbind "B") xo); EB (ECmd 3 xlist xo);
   EB (ECmd 3 (xrelease (Some "7")) xo); EB (ECmd 3 xlist xo)].

Example release_dup_run_nonvacuous :
  let s := fst (run x_cfg (init x_cfg 0) (r_pre ++ [EB (ECmd 1 (xrelease None) xo)])) in
  let cmd := xrelease (Some "7") in
  let r1 := run x_cfg s r_h in
  let r2 := run x_cfg s (dup_events 9 "a" "A" cmd xo ++ r_h) in
  SInv s /\ log s = [] /\ has_conn 9 s = false /\ release_done (chan_w s) "a" "7" "A" /\
  dup_invisible x_cfg s 9 "a" "A" cmd xo r_h /\
  nth 2 (map (fun o => frames_of (o_log o)) (snd r2)) [] = [(9%nat, FAck None); (9%nat, FReleased)] /\
  map (fun o => count_commits (o_log o)) (snd r1) = [1; 0; 1; 0; 3; 0]%nat /\
  nth 3 (map (fun o => frames_of (o_log o)) (snd r1)) [] = [(3%nat, FAck None); (3%nat, FNameplates ["7"])] /\
  nth 5 (map (fun o => frames_of (o_log o)) (snd r1)) [] = [(3%nat, FAck None); (3%nat, FNameplates [])] /\
  usage_c (fst r1) <> usage_c (fst r2).
Proof.
  cbv zeta.
  set (s0 := fst (run x_cfg (init x_cfg 0) r_pre)).
  set (s := fst (run x_cfg (init x_cfg 0) (r_pre ++ [EB (ECmd 1 (xrelease None) xo)]))).
  destruct (init_run_inv x_cfg (gen_cfg_exp _ _ _) 0 r_pre) as [HS0 L0]. fold s0 in HS0, L0.
  destruct (init_run_inv x_cfg (gen_cfg_exp _ _ _) 0 (r_pre ++ [EB (ECmd 1 (xrelease None) xo)])) as [HS L].
  fold s in HS, L.
  assert (Hno : has_conn 9 s = false) by (vm_compute; reflexivity).
  assert (Hdone : release_done (chan_w s) "a" "7" "A").
  { assert (Hlk : exists cs, lookup_conn 1 (conns s0) = Some cs /\ c_bound cs = Some ("a", "A") /\
                             erroneous cs (xrelease None) = false /\
                             cmd_nameplate cs (xrelease None) = Some "7").
    { eexists. split; [vm_compute; reflexivity|]. repeat split; vm_compute; reflexivity. }
    destruct Hlk as (cs & Hlk & Hb & He & Hn).
    pose proof (release_establishes x_cfg s0 1 cs "a" "A" (xrelease None) xo "7"
                  HS0 L0 Hlk Hb eq_refl He Hn) as K.
    apply (let_pair _ (fun s' _ => release_done (chan_w s') "a" "7" "A")) in K.
    assert (E : fst (step x_cfg s0 (EB (ECmd 1 (xrelease None) xo))) = s) by (vm_compute; reflexivity).
    rewrite E in K. exact K. }
  split; [exact HS|]. split; [exact L|]. split; [exact Hno|]. split; [exact Hdone|].
  split; [exact (release_dup_run x_cfg s 9 "a" "A" "7" (xrelease (Some "7")) xo r_h HS L Hno
                   eq_refl eq_refl Hdone)|].
  vm_compute. repeat split; try reflexivity. intros K. discriminate K.
Qed.
Print Assumptions release_dup_run_nonvacuous.

(** ** open: A opens `m' ([open_establishes]); the duplicate; then B opens, adds,
    the process dies after the commit of A's add (so the message is stored but
    not broadcast), both come back and are replayed both messages *)
Definition o_pre : list event := [EB (EConnect 1); EB (ECmd 1 (xbind "A") xo)].
Definition o_h : list event :=
  [EB (EConnect 2); EB (ECmd 2 (xbind "B") xo); EB (ECmd 2 (xopen "m") xo);
   EB (ECmd 2 (xadd "p" "b") xo); ECrash 1 (ECmd 1 (xadd "q" "c") xo);
   EB (EConnect 3); EB (ECmd 3 (xbind "A") xo); EB (ECmd 3 (xopen "m") xo)].

Example open_dup_run_nonvacuous :
  let s := fst (run x_cfg (init x_cfg 0) (o_pre ++ [EB (ECmd 1 (xopen "m") xo)])) in
  let cmd := xopen "m" in
  let r1 := run x_cfg s o_h in
  let r2 := run x_cfg s (dup_events 9 "a" "A" cmd xo ++ o_h) in
  SInv s /\ log s = [] /\ has_conn 9 s = false /\ open_done (chan_w s) "a" "m" "A" (now s) /\
  dup_invisible x_cfg s 9 "a" "A" cmd xo o_h /\
  nth 2 (map (fun o => frames_of (o_log o)) (snd r2)) [] = [(9%nat, FAck None)] /\
  map (fun o => count_commits (o_log o)) (snd r1) = [0; 1; 2; 1; 1; 0; 1; 2]%nat /\
  nth 3 (map (fun o => frames_of (o_log o)) (snd r1)) [] =
    [(2%nat, FAck None); (1%nat, FMessage "B" "p" "b" 0 None); (2%nat, FMessage "B" "p" "b" 0 None)] /\
  nth 4 (map (fun o => frames_of (o_log o)) (snd r1)) [] = [(1%nat, FAck None)] /\
  nth 7 (map (fun o => frames_of (o_log o)) (snd r1)) [] =
    [(3%nat, FAck None); (3%nat, FMessage "A" "q" "c" 0 None); (3%nat, FMessage "B" "p" "b" 0 None)] /\
  usage_c (fst r1) <> usage_c (fst r2).
Proof.
  cbv zeta.
  set (s0 := fst (run x_cfg (init x_cfg 0) o_pre)).
  set (s := fst (run x_cfg (init x_cfg 0) (o_pre ++ [EB (ECmd 1 (xopen "m") xo)]))).
  destruct (init_run_inv x_cfg (gen_cfg_exp _ _ _) 0 o_pre) as [HS0 L0]. fold s0 in HS0, L0.
  destruct (init_run_inv x_cfg (gen_cfg_exp _ _ _) 0 (o_pre ++ [EB (ECmd 1 (xopen "m") xo)])) as [HS L].
  fold s in HS, L.
  assert (Hno : has_conn 9 s = false) by (vm_compute; reflexivity).
  assert (Hdone : open_done (chan_w s) "a" "m" "A" (now s)).
  { assert (Hlk : lookup_conn 1 (conns s0) = Some (set_bound new_conn (Some ("a", "A"))))
      by (vm_compute; reflexivity).
    pose proof (open_establishes x_cfg s0 1 _ "a" "A" (xopen "m") xo "m"
                  HS0 L0 Hlk eq_refl eq_refl eq_refl eq_refl) as K.
    apply (let_pair _ (fun s' _ => holds s' 1 "a" "m" -> open_done (chan_w s') "a" "m" "A" (now s0))) in K.
    assert (E : fst (step x_cfg s0 (EB (ECmd 1 (xopen "m") xo))) = s) by (vm_compute; reflexivity).
    assert (En : now s0 = now s) by (vm_compute; reflexivity).
    rewrite E, En in K. apply K.
    unfold holds. eexists. eexists. split; [vm_compute; reflexivity|]. split; vm_compute; reflexivity. }
  split; [exact HS|]. split; [exact L|]. split; [exact Hno|]. split; [exact Hdone|].
  split; [exact (open_dup_run x_cfg s 9 "a" "A" "m" (xopen "m") xo o_h HS L Hno eq_refl eq_refl Hdone)|].
  vm_compute. repeat split; try reflexivity. intros K. discriminate K.
Qed.
Print Assumptions open_dup_run_nonvacuous.

(** ** close, the mailbox deleted by the close: the hypotheses of [close_dup_run]
    hold ([close_done] by its first disjunct), so does the conclusion *)
Definition c_h0 : list event :=
  [EB (EConnect 1); EB (ECmd 1 (xbind "A") xo); EB (ECmd 1 (xopen "m") xo);
   EB (ECmd 1 (xadd "p" "b") xo); EB (EAdvance 8 false); EB (ECmd 1 (xclose (Some "m")) xo)].
Definition c_h : list event :=
  [EB (EConnect 2); EB (ECmd 2 (xbind "B") xo); ECrash 1 (ECmd 2 (xopen "m") xo);
   EB (EConnect 3); EB (ECmd 3 (xbind "B") xo); EB (ECmd 3 (xopen "m") xo);
   EB (ECmd 3 (xadd "q" "c") xo); EB (ECmd 3 (xclose None) xo)].

Example close_dup_run_nonvacuous :
  let s := fst (run x_cfg (init x_cfg 0) c_h0) in
  let cmd := xclose (Some "m") in
  let r1 := run x_cfg s c_h in
  let r2 := run x_cfg s (dup_events 9 "a" "A" cmd xo ++ c_h) in
  SInv s /\ log s = [] /\ has_conn 9 s = false /\
  close_done (chan_w s) "a" "m" "A" (m_mood cmd) /\ ~ mb_alive (chan_w s) "m" /\
  dup_invisible x_cfg s 9 "a" "A" cmd xo c_h /\
  nth 2 (map (fun o => frames_of (o_log o)) (snd r2)) [] = [(9%nat, FAck None); (9%nat, FClosed)] /\
  map (fun o => count_commits (o_log o)) (snd r1) = [0; 1; 1; 0; 1; 2; 1; 3]%nat /\
  mailboxes (chan_c (fst r1)) = [] /\ mailboxes (chan_c (fst r2)) = [] /\
  usage_c (fst r1) <> usage_c (fst r2).
Proof.
  cbv zeta.
  set (s := fst (run x_cfg (init x_cfg 0) c_h0)).
  destruct (init_run_inv x_cfg (gen_cfg_exp _ _ _) 0 c_h0) as [HS L]. fold s in HS, L.
  assert (Hno : has_conn 9 s = false) by (vm_compute; reflexivity).
  assert (Hgone : ~ mb_alive (chan_w s) "m").
  { intros (r & Hin & _). vm_compute in Hin. exact Hin. }
  assert (Hdone : close_done (chan_w s) "a" "m" "A" (m_mood (xclose (Some "m")))) by (left; exact Hgone).
  split; [exact HS|]. split; [exact L|]. split; [exact Hno|]. split; [exact Hdone|].
  split; [exact Hgone|].
  split; [exact (close_dup_run x_cfg s 9 "a" "A" "m" (xclose (Some "m")) xo c_h HS L Hno eq_refl eq_refl
                  Hdone (or_introl Hgone))|].
  vm_compute. repeat split; try reflexivity. intros K. discriminate K.
Qed.
Print Assumptions close_dup_run_nonvacuous.

(** ** close, the mailbox survives with an older stamp (KF4): the statement of
    [close_dup_run] WITHOUT its stamp hypothesis is false.  A and B open `m', A
    adds a message, at time 8 A closes (B keeps it open); B's connection is
    lost; the sweep at 5284 finds `updated' = 0 < 5284 - 5280 in the original
    run and deletes the mailbox with its message, but `updated' = 8 in the run
    with the duplicate, which keeps it: a later open is answered differently *)
Definition k_h0 : list event :=
  [EB (EConnect 1); EB (ECmd 1 (xbind "A") xo); EB (ECmd 1 (xopen "m") xo);
   EB (EConnect 2); EB (ECmd 2 (xbind "B") xo); EB (ECmd 2 (xopen "m") xo);
   EB (ECmd 1 (xadd "p" "b") xo); EB (EAdvance 8 false); EB (ECmd 1 (xclose (Some "m")) xo)].
Definition k_h : list event :=
  [EB (EDisconnect 2); EB (EAdvance 5276 false);
   EB (EConnect 5); EB (ECmd 5 (xbind "B") xo); EB (ECmd 5 (xopen "m") xo)].

Example close_dup_run_restamp_refuted :
  let s := fst (run x_cfg (init x_cfg 0) k_h0) in
  let cmd := xclose (Some "m") in
  let r1 := run x_cfg s k_h in
  let r2 := run x_cfg s (dup_events 3 "a" "A" cmd xo ++ k_h) in
  (* the duplicate is answered `closed' and only re-stamps the mailbox ... *)
  nth 2 (map (fun o => frames_of (o_log o)) (snd r2)) [] = [(3%nat, FAck None); (3%nat, FClosed)] /\
  map mb_updated (mailboxes (chan_w s)) = [0] /\
  map mb_updated (mailboxes (chan_w (fst (run x_cfg s (dup_events 3 "a" "A" cmd xo))))) = [8] /\
  (* ... but the last event of the continuation is answered differently *)
  nth 4 (map (fun o => frames_of (o_log o)) (snd r1)) [] = [(5%nat, FAck None)] /\
  nth 8 (map (fun o => frames_of (o_log o)) (snd r2)) [] =
    [(5%nat, FAck None); (5%nat, FMessage "A" "p" "b" 0 None)] /\
  ~ dup_invisible x_cfg s 3 "a" "A" cmd xo k_h.
Proof.
  cbv zeta. split; [vm_compute; reflexivity|]. split; [vm_compute; reflexivity|].
  split; [vm_compute; reflexivity|]. split; [vm_compute; reflexivity|].
  split; [vm_compute; reflexivity|].
  intros K. pose proof (dup_invisible_frames x_cfg _ _ _ _ _ _ _ K) as F.
  vm_compute in F. discriminate F.
Qed.
Print Assumptions close_dup_run_restamp_refuted.

(** ** the nameless release / close: the original is answered `released' /
    `closed' (the connection remembers what it claimed / opened), the VERBATIM
    duplicate on a fresh connection is answered `error', the explicit-name
    duplicate `released' / `closed' again *)
Definition n_h0 : list event :=
  [EB (EConnect 1); EB (ECmd 1 (xbind "A") xo); EB (ECmd 1 (xclaim "7") xod);
   EB (ECmd 1 (xopen x_mb) xo);
   EB (EConnect 2); EB (ECmd 2 (xbind "B") xo); EB (ECmd 2 (xclaim "7") xod);
   EB (ECmd 2 (xopen x_mb) xo)].

Example release_dup_implicit_refuted :
  let s0 := fst (run x_cfg (init x_cfg 0) n_h0) in
  let fr := map (fun o => frames_of (o_log o))
              (snd (run x_cfg s0 ([EB (ECmd 1 (xrelease None) xo)] ++
                                  dup_events 3 "a" "A" (xrelease None) xo ++
                                  dup_events 4 "a" "A" (xrelease (Some "7")) xo))) in
  nth 0 fr [] = [(1%nat, FAck None); (1%nat, FReleased)] /\
  nth 3 fr [] = [(3%nat, FAck None); (3%nat, FError ErrOther (xrelease None))] /\
  nth 7 fr [] = [(4%nat, FAck None); (4%nat, FReleased)].
Proof. vm_compute. repeat split; reflexivity. Qed.
Print Assumptions release_dup_implicit_refuted.

Example close_dup_implicit_refuted :
  let s0 := fst (run x_cfg (init x_cfg 0) n_h0) in
  let fr := map (fun o => frames_of (o_log o))
              (snd (run x_cfg s0 ([EB (ECmd 1 (xclose None) xo)] ++
                                  dup_events 3 "a" "A" (xclose None) xo ++
                                  dup_events 4 "a" "A" (xclose (Some x_mb)) xo))) in
  nth 0 fr [] = [(1%nat, FAck None); (1%nat, FClosed)] /\
  nth 3 fr [] = [(3%nat, FAck None); (3%nat, FError ErrOther (xclose None))] /\
  nth 7 fr [] = [(4%nat, FAck None); (4%nat, FClosed)].
Proof. vm_compute. repeat split; reflexivity. Qed.
Print Assumptions close_dup_implicit_refuted.
