(** Prop_C04.v -- C04: allocate returns a free, shortest-available nameplate.
    Pure part (the allocator, for every set of names in use and every outcome
    of the random choices) and history part (the answer is what the allocator
    computed from the UNFILTERED set of names in use -- whatever the listing
    configuration --, it was free, and the allocating side holds a committed
    claim on it when the answer is sent). *)
From MW Require Import Base Store Monad Usage Server Websocket Service Inv Obs StoreFacts AllocFacts ProtoFacts NpFactsA NpFactsB AllocDraws NameFacts.

Theorem C04_allocator :
  forall claimed o n,
  find_available claimed o = AllocOk n ->
  (exists v, 1 <= v < 1000000 /\ n = show_Z v) /\
  smem n claimed = false /\
  (forall d v, (1 <= d <= 3)%nat -> In v (size_range d) -> smem (show_Z v) claimed = false ->
               (String.length n <= d)%nat) /\
  ((3 < String.length n)%nat ->
   forall v, 1 <= v <= 999 -> smem (show_Z v) claimed = true) /\
  (String.length n <= 6)%nat.
Proof. exact find_available_ok. Qed.
Print Assumptions C04_allocator.

(** "positive decimal without leading zeros": the rendering of a positive
    number is a non-empty digit string whose first digit is not 0, and
    different numbers render differently *)
Theorem C04_decimal_canonical :
  forall v, 1 <= v ->
    all_digits (show_Z v) = true /\
    exists c rest, show_Z v = String c rest /\ c <> "0"%char.
Proof. exact show_Z_canonical. Qed.
Print Assumptions C04_decimal_canonical.

Theorem C04_decimal_injective :
  forall v w, 0 <= v -> 0 <= w -> show_Z v = show_Z w -> v = w.
Proof. exact show_Z_inj. Qed.
Print Assumptions C04_decimal_injective.

Theorem C04_decimal_length :
  forall v, 1 <= v < 1000000 ->
  String.length (show_Z v) =
  if (v <? 10)%Z then 1%nat else if (v <? 100)%Z then 2%nat else if (v <? 1000)%Z then 3%nat
  else if (v <? 10000)%Z then 4%nat else if (v <? 100000)%Z then 5%nat else 6%nat.
Proof. exact show_Z_length. Qed.
Print Assumptions C04_decimal_length.

(** the size classes are 1-9, 10-99, 100-999 *)
Theorem C04_size_classes :
  forall d v, In v (size_range d) <->
  match d with
  | 1%nat => 1 <= v <= 9
  | 2%nat => 10 <= v <= 99
  | _ => 100 <= v <= 999
  end.
Proof. exact size_range_In. Qed.
Print Assumptions C04_size_classes.

(** the allocator gives up (ValueError, known finding KF3) only when 1..999 are all taken *)
Theorem C04_value_error_only_when_full :
  forall claimed o, find_available claimed o = AllocValueError ->
  forall v, 1 <= v <= 999 -> smem (show_Z v) claimed = true.
Proof. exact find_available_value_error. Qed.
Print Assumptions C04_value_error_only_when_full.

(** every honest outcome of random.choice is accepted by the model *)
Theorem C04_every_choice_accepted :
  forall claimed n draws d,
  (1 <= d <= 3)%nat ->
  In n (free_names claimed (size_range d)) ->
  (forall d', (1 <= d' < d)%nat -> free_names claimed (size_range d') = []) ->
  find_available claimed (mkAO (Some n) draws) = AllocOk n.
Proof. exact find_available_accepts. Qed.
Print Assumptions C04_every_choice_accepted.

(** in every well-formed state, for every configuration: `allocated n` is sent
    only with n = what [find_available] returns on [sel_names d a] (the unfiltered
    names of the app: C04_allocator says what that can be), no row (a, n) existed,
    and afterwards -- committed, [chan_c s' = chan_w s'] -- the allocating side is
    a holder of (a, n); nothing else is removed or altered *)
Theorem C04_allocate_outcome : ltac:(let t := type of allocate_outcome in exact t).
Proof. exact allocate_outcome. Qed.
Check C04_allocate_outcome.
Print Assumptions C04_allocate_outcome.

(** the names in use: exactly the names with a row in the app, listing allowed or not *)
Theorem C04_names_in_use_exact : ltac:(let t := type of sel_names_spec in exact t).
Proof. exact sel_names_spec. Qed.
Check C04_names_in_use_exact.
Print Assumptions C04_names_in_use_exact.

(** free = no row: so no other allocate can return it while the row lives *)
Theorem C04_free_means_no_row : ltac:(let t := type of sel_np_names in exact t).
Proof. exact sel_np_names. Qed.
Check C04_free_means_no_row.
Print Assumptions C04_free_means_no_row.

(** a hole: 1..8 and the decoy "x" are held, 9 is free: the answer is "9" *)
(** ** the random 4-6 digit path (AllocDraws.v): "every outcome of the random choice" when all of 1..999 are
    taken: the answer is the decimal rendering of the FIRST of the (up to 1000) draws from [1000, 10^6) that is
    not in use -- 4 to 6 digits, no leading zero, free; ValueError (known finding KF3) iff all 1000 draws are
    in use; the model accepts every such oracle *)
Theorem C04_draws_char : ltac:(let t := type of find_available_draws_char in exact t).
Proof. exact find_available_draws_char. Qed.
Check C04_draws_char.
Print Assumptions C04_draws_char.

Theorem C04_draws_first_free_wins : ltac:(let t := type of draws_first_free_wins in exact t).
Proof. exact draws_first_free_wins. Qed.
Check C04_draws_first_free_wins.
Print Assumptions C04_draws_first_free_wins.

Theorem C04_draws_ok_iff : ltac:(let t := type of draws_ok_iff in exact t).
Proof. exact draws_ok_iff. Qed.
Check C04_draws_ok_iff.
Print Assumptions C04_draws_ok_iff.

Theorem C04_draws_value_error_iff : ltac:(let t := type of draws_value_error_iff in exact t).
Proof. exact draws_value_error_iff. Qed.
Check C04_draws_value_error_iff.
Print Assumptions C04_draws_value_error_iff.


Example C04_nonvacuous :
  find_available ["1";"2";"3";"4";"5";"6";"7";"8";"x";"10";"01"]%string (mkAO (Some "9"%string) [])
  = AllocOk "9"%string.
Proof. vm_compute. reflexivity. Qed.

(** * history level (quoted by type from NameFacts.v) *)

(** two allocates answered with the same nameplate of one app: it was retired strictly in between (crashed allocates included: a cut-short allocate never sends `allocated`) *)
Theorem C04_alloc_pair_retired_between : ltac:(let t := type of alloc_pair_retired_between in exact t).
Proof. exact alloc_pair_retired_between. Qed.
Check C04_alloc_pair_retired_between.
Print Assumptions C04_alloc_pair_retired_between.

(** ... by the holder's release, the deletion of its mailbox, or expiry *)
Theorem C04_alloc_pair_ender_between : ltac:(let t := type of alloc_pair_ender_between in exact t).
Proof. exact alloc_pair_ender_between. Qed.
Check C04_alloc_pair_ender_between.
Print Assumptions C04_alloc_pair_ender_between.

(** a live nameplate is never handed out *)
Theorem C04_no_alloc_while_live : ltac:(let t := type of no_alloc_while_live in exact t).
Proof. exact no_alloc_while_live. Qed.
Check C04_no_alloc_while_live.
Print Assumptions C04_no_alloc_while_live.

(** non-vacuity *)
Theorem C04_alloc_pair_applied : ltac:(let t := type of NameFactsExamples.alloc_pair_applied in exact t).
Proof. exact NameFactsExamples.alloc_pair_applied. Qed.
Check C04_alloc_pair_applied.
Print Assumptions C04_alloc_pair_applied.

