(** ViewFactsX.v -- C18 with crashes after a commit: crash-index translation.

    ViewFactsR.v proves configuration erasure for every history whose crashes
    are of the form [ECrash 0 b].  [ECrash (S k) b] was excluded: the index
    counts the commits of BOTH databases, so under a configuration with a usage
    database and one without, the same number denotes different instants.

    Here the index is TRANSLATED.  The two runs of the same event from related
    states write logs that are equal once the usage commits are erased and the
    configuration-dependent fields of the frame entries dropped ([cview]; up to
    the content of `nameplates` answers when allow_list differs): same channel
    commits, same snapshots, same frames, same interleaving.  A crash of run 1
    at its k-th commit has seen j = [chan_commits_before full1 k] channel
    commits; run 2 is crashed right after ITS j-th channel commit, which is
    commit number [chan_pos full2 j] of its own log ([translate_k]).  Then

    - both processes start again on the same channel files at the same instant,
      so the states after the event are related again ([sim _ _ True]);
    - the frames run 2 sent before dying are those sent up to the j-th channel
      commit; run 1 sent the same ones and possibly more (those between its
      j-th channel commit and its k-th commit): PREFIX, not equality
      ([obs_agree_crash]).  Equality is false: [crash_frames_equal_refuted].
    - any other index of run 2 that has seen j channel commits does as well for
      the state ([crash_translate_step_any]); [chan_pos] is the least one
      ([chan_pos_least], [translate_k_least]).  In the direction "no usage
      database -> usage database" these are the several k' of the task; when
      run 2 makes no usage commit, j itself is the only one.
    - not covered by [crash_match]: run 1 dies after its LAST commit, run 2
      completes the event and dies afterwards (same files as well; see the
      `bind` of [crash_frames_equal_refuted]).  The translation never needs it.

    History level: [translate] rewrites the crash indices of a history along the
    two runs; [config_erasure_with_crashes] is C18 for every history: plain
    events, restarts, crashes at any index.

    The theorems are stated for an arbitrary ordered pair (cfg1, cfg2), so both
    directions are instances.  The relational calculus of ViewFacts.v Part 3-4
    is repeated here over the finer relation [simX] (ViewFacts.v is not
    modified; its relation [sim] forgets where the channel commits sit among
    the frames, which is exactly what a crash index needs). *)
From MW Require Import Base Store Monad Usage Server Websocket Service Findings
     Inv StoreFacts UsageFacts Hoare DbFactsA DbFactsB OpFacts ProtoFacts Obs StepFacts
     ViewFacts ViewFactsR Inst_Params.
Local Open Scope list_scope.

(** * Part 0: logs with the usage commits erased *)

(** what a log entry shows of the channel side: a committed snapshot or a frame
    (without the [clean] flag, which reads the usage database) *)
Definition item : Type := chan_db + nat * frame.

Fixpoint cview (l : list log_entry) : list item :=
  match l with
  | [] => []
  | LCommitChan d :: l' => inl d :: cview l'
  | LCommitUsage _ :: l' => cview l'
  | LFrame c f _ _ :: l' => inr (c, f) :: cview l'
  end.

Definition mask_item (i : item) : item :=
  match i with inl d => inl d | inr p => inr (mask_frame p) end.

Fixpoint rights (v : list item) : list (nat * frame) :=
  match v with
  | [] => []
  | inl _ :: v' => rights v'
  | inr p :: v' => p :: rights v'
  end.

Lemma cview_app l1 l2 : cview (l1 ++ l2) = cview l1 ++ cview l2.
Proof.
  induction l1 as [|x l1 IH]; [reflexivity|].
  destruct x; cbn [app cview]; rewrite IH; reflexivity.
Qed.

Lemma cview_rev l : cview (rev l) = rev (cview l).
Proof.
  induction l as [|x l IH]; [reflexivity|].
  cbn [rev]. rewrite cview_app, IH.
  destruct x; cbn [cview rev]; rewrite ?app_nil_r; reflexivity.
Qed.

Lemma rights_cview l : rights (cview l) = frames_of l.
Proof.
  induction l as [|x l IH]; [reflexivity|].
  destruct x; cbn [cview rights frames_of]; rewrite IH; reflexivity.
Qed.

Lemma rights_mask v : rights (map mask_item v) = map mask_frame (rights v).
Proof.
  induction v as [|i v IH]; [reflexivity|].
  destruct i; cbn [map mask_item rights]; rewrite IH; reflexivity.
Qed.

Lemma rights_app v1 v2 : rights (v1 ++ v2) = rights v1 ++ rights v2.
Proof.
  induction v1 as [|i v1 IH]; [reflexivity|].
  destruct i; cbn [app rights]; rewrite IH; reflexivity.
Qed.

(** ** counting and cutting at channel commits *)

Definition is_chan (x : log_entry) : bool :=
  match x with LCommitChan _ => true | _ => false end.

(** number of channel commits of a log *)
Definition nchan (l : list log_entry) : nat := List.length (filter is_chan l).

(** number of [LCommitChan] entries among the first k commit entries of l *)
Definition chan_commits_before (l : list log_entry) (k : nat) : nat :=
  nchan (log_prefix k l).

(** prefix of an (oldest-first) log ending at its j-th CHANNEL commit; the whole
    log if it has fewer *)
Fixpoint chan_prefix (j : nat) (l : list log_entry) : list log_entry :=
  match j with
  | O => []
  | S j' =>
      match l with
      | [] => []
      | x :: l' => if is_chan x then x :: chan_prefix j' l' else x :: chan_prefix j l'
      end
  end.

(** the index, among all commits, of the j-th channel commit (0 for j = 0) *)
Definition chan_pos (l : list log_entry) (j : nat) : nat :=
  count_commits (chan_prefix j l).

(** the same cut on erased logs *)
Fixpoint cut (j : nat) (v : list item) : list item :=
  match j with
  | O => []
  | S j' =>
      match v with
      | [] => []
      | inl d :: v' => inl d :: cut j' v'
      | inr p :: v' => inr p :: cut j v'
      end
  end.

(** the last committed snapshot of an erased log *)
Fixpoint last_chan (v : list item) (c : chan_db) : chan_db :=
  match v with
  | [] => c
  | inl d :: v' => last_chan v' d
  | inr _ :: v' => last_chan v' c
  end.

Lemma chan_prefix_0 l : chan_prefix 0 l = [].
Proof. destruct l; reflexivity. Qed.

Lemma cut_0 v : cut 0 v = [].
Proof. destruct v; reflexivity. Qed.

Lemma nchan_cons x l : nchan (x :: l) = ((if is_chan x then 1 else 0) + nchan l)%nat.
Proof. unfold nchan. cbn [filter]. destruct (is_chan x); reflexivity. Qed.

Lemma nchan_app l1 l2 : nchan (l1 ++ l2) = (nchan l1 + nchan l2)%nat.
Proof. unfold nchan. rewrite filter_app, app_length. reflexivity. Qed.

Lemma count_commits_cons x l :
  count_commits (x :: l) = ((if is_commit x then 1 else 0) + count_commits l)%nat.
Proof. unfold count_commits. cbn [filter]. destruct (is_commit x); reflexivity. Qed.

Lemma is_chan_commit x : is_chan x = true -> is_commit x = true.
Proof. destruct x; cbn; auto. Qed.

(** erasure commutes with the cut *)
Lemma cview_chan_prefix l : forall j, cview (chan_prefix j l) = cut j (cview l).
Proof.
  induction l as [|x l IH]; intros j.
  - destruct j; reflexivity.
  - destruct j as [|j]; [rewrite cut_0; reflexivity|].
    destruct x as [d|u|c f b t]; cbn [chan_prefix is_chan cview cut].
    + rewrite IH. reflexivity.
    + apply IH.
    + rewrite IH. reflexivity.
Qed.

Lemma cut_mask v : forall j, cut j (map mask_item v) = map mask_item (cut j v).
Proof.
  induction v as [|i v IH]; intros j.
  - destruct j; reflexivity.
  - destruct j as [|j]; [reflexivity|].
    destruct i as [d|p]; cbn [map mask_item cut]; rewrite IH; reflexivity.
Qed.

Lemma last_chan_mask v : forall c, last_chan (map mask_item v) c = last_chan v c.
Proof.
  induction v as [|i v IH]; intros c; [reflexivity|].
  destruct i as [d|p]; cbn [map mask_item last_chan]; apply IH.
Qed.

(** a crash prefix is the log replayed: the channel files are the last channel
    snapshot of the prefix *)
Lemma replay_last_chan l : forall c u,
  fst (replay_commits l c u) = last_chan (cview l) c.
Proof.
  induction l as [|x l IH]; intros c u; [reflexivity|].
  destruct x as [d|u'|c0 f b t]; cbn [replay_commits cview last_chan]; apply IH.
Qed.

Lemma last_chan_app v1 v2 c : last_chan (v1 ++ v2) c = last_chan v2 (last_chan v1 c).
Proof.
  revert c. induction v1 as [|i v1 IH]; intros c; [reflexivity|].
  destruct i; cbn [app last_chan]; apply IH.
Qed.

(** entries without a channel commit: only frames survive the erasure *)
Definition only_frames (v : list item) : Prop := forall d, ~ In (inl d) v.

Lemma nchan_0_frames l : nchan l = 0%nat -> only_frames (cview l).
Proof.
  induction l as [|x l IH]; intros H d; [intros []|].
  rewrite nchan_cons in H. destruct x as [d'|u|c f b t]; cbn [is_chan cview] in *.
  - discriminate.
  - apply IH. exact H.
  - intros [K|K]; [discriminate|]. exact (IH H d K).
Qed.

Lemma only_frames_last v : only_frames v -> forall c, last_chan v c = c.
Proof.
  induction v as [|i v IH]; intros H c; [reflexivity|].
  destruct i as [d|p]; cbn [last_chan].
  - exfalso. apply (H d). now left.
  - apply IH. intros d K. apply (H d). now right.
Qed.

(** the prefix at the k-th commit = the prefix at the last channel commit it
    contains, plus entries without channel commit *)
Lemma log_prefix_split l : forall k,
  exists r, log_prefix k l = chan_prefix (chan_commits_before l k) l ++ r /\ nchan r = 0%nat.
Proof.
  unfold chan_commits_before.
  induction l as [|x l IH]; intros k.
  - exists []. destruct k; cbn [log_prefix]; rewrite chan_prefix_0; split; reflexivity.
  - destruct k as [|k].
    + exists []. cbn [log_prefix]. rewrite chan_prefix_0. split; reflexivity.
    + cbn [log_prefix]. destruct x as [d|u|c f b t]; cbn [is_commit].
      * destruct (IH k) as (r & E & N). exists r. rewrite nchan_cons. cbn [is_chan Nat.add chan_prefix].
        rewrite <- app_comm_cons, <- E. split; [reflexivity|exact N].
      * destruct (IH k) as (r & E & N). rewrite nchan_cons. cbn [is_chan Nat.add].
        destruct (nchan (log_prefix k l)) as [|j] eqn:Ej.
        -- exists (LCommitUsage u :: log_prefix k l). rewrite chan_prefix_0. split; [reflexivity|].
           rewrite nchan_cons. cbn [is_chan Nat.add]. exact Ej.
        -- exists r. cbn [chan_prefix is_chan]. rewrite <- app_comm_cons, <- E. split; [reflexivity|exact N].
      * destruct (IH (S k)) as (r & E & N). rewrite nchan_cons. cbn [is_chan Nat.add].
        destruct (nchan (log_prefix (S k) l)) as [|j] eqn:Ej.
        -- exists (LFrame c f b t :: log_prefix (S k) l). rewrite chan_prefix_0. split; [reflexivity|].
           rewrite nchan_cons. cbn [is_chan Nat.add]. exact Ej.
        -- exists r. cbn [chan_prefix is_chan]. rewrite <- app_comm_cons, <- E. split; [reflexivity|exact N].
Qed.

Lemma log_prefix_is_prefix l : forall k, exists r, l = log_prefix k l ++ r.
Proof.
  induction l as [|x l IH]; intros k.
  - exists []. destruct k; reflexivity.
  - destruct k as [|k]; [exists (x :: l); reflexivity|].
    cbn [log_prefix]. destruct (is_commit x).
    + destruct (IH k) as [r E]. exists r. rewrite <- app_comm_cons, <- E. reflexivity.
    + destruct (IH (S k)) as [r E]. exists r. rewrite <- app_comm_cons, <- E. reflexivity.
Qed.

Lemma chan_prefix_is_prefix l : forall j, exists r, l = chan_prefix j l ++ r.
Proof.
  induction l as [|x l IH]; intros j.
  - exists []. destruct j; reflexivity.
  - destruct j as [|j]; [exists (x :: l); reflexivity|].
    cbn [chan_prefix]. destruct (is_chan x).
    + destruct (IH j) as [r E]. exists r. rewrite <- app_comm_cons, <- E. reflexivity.
    + destruct (IH (S j)) as [r E]. exists r. rewrite <- app_comm_cons, <- E. reflexivity.
Qed.

Lemma chan_commits_before_le l k : (chan_commits_before l k <= nchan l)%nat.
Proof.
  unfold chan_commits_before. destruct (log_prefix_is_prefix l k) as [r E].
  rewrite E at 2. rewrite nchan_app. lia.
Qed.

Lemma count_commits_app l1 l2 : count_commits (l1 ++ l2) = (count_commits l1 + count_commits l2)%nat.
Proof. unfold count_commits. rewrite filter_app, app_length. reflexivity. Qed.

Lemma chan_pos_le l j : (chan_pos l j <= count_commits l)%nat.
Proof.
  unfold chan_pos. destruct (chan_prefix_is_prefix l j) as [r E].
  rewrite E at 2. rewrite count_commits_app. lia.
Qed.

Lemma nchan_chan_prefix l : forall j, (j <= nchan l)%nat -> nchan (chan_prefix j l) = j.
Proof.
  induction l as [|x l IH]; intros j Hj.
  - cbn in Hj. destruct j; [reflexivity|lia].
  - destruct j as [|j]; [reflexivity|].
    rewrite nchan_cons in Hj. cbn [chan_prefix]. destruct (is_chan x) eqn:Ex.
    + rewrite nchan_cons, Ex, IH; [reflexivity|lia].
    + rewrite nchan_cons, Ex, IH; [reflexivity|lia].
Qed.

Lemma nchan_le_commits l : (nchan l <= count_commits l)%nat.
Proof.
  induction l as [|x l IH]; [apply Nat.le_refl|].
  rewrite nchan_cons, count_commits_cons. destruct x; cbn [is_chan is_commit]; lia.
Qed.

(** cutting the log at the position of its j-th channel commit is cutting it at
    its j-th channel commit *)
Lemma log_prefix_chan_pos l : forall j,
  (j <= nchan l)%nat -> log_prefix (chan_pos l j) l = chan_prefix j l.
Proof.
  unfold chan_pos.
  induction l as [|x l IH]; intros j Hj.
  - destruct j; reflexivity.
  - destruct j as [|j]; [reflexivity|].
    rewrite nchan_cons in Hj.
    cbn [chan_prefix]. destruct (is_chan x) eqn:Ex.
    + rewrite count_commits_cons, (is_chan_commit x Ex). cbn [Nat.add log_prefix].
      rewrite (is_chan_commit x Ex), IH; [reflexivity|lia].
    + rewrite count_commits_cons. destruct (is_commit x) eqn:Ec; cbn [Nat.add].
      * cbn [log_prefix]. rewrite Ec, IH; [reflexivity|lia].
      * assert (Hj' : (S j <= nchan l)%nat) by lia.
        specialize (IH (S j) Hj').
        pose proof (nchan_chan_prefix l (S j) Hj') as N.
        pose proof (nchan_le_commits (chan_prefix (S j) l)) as C.
        destruct (count_commits (chan_prefix (S j) l)) as [|n] eqn:En; [lia|].
        cbn [log_prefix]. rewrite Ec. f_equal. exact IH.
Qed.

(** ... and that position has seen exactly j channel commits *)
Lemma chan_commits_before_pos l j :
  (j <= nchan l)%nat -> chan_commits_before l (chan_pos l j) = j.
Proof.
  intros Hj. unfold chan_commits_before. rewrite log_prefix_chan_pos by exact Hj.
  apply nchan_chan_prefix. exact Hj.
Qed.

(** ... and no earlier one has *)
Lemma chan_pos_least l : forall j k,
  (j <= nchan l)%nat -> (k < chan_pos l j)%nat -> (chan_commits_before l k < j)%nat.
Proof.
  unfold chan_pos, chan_commits_before.
  induction l as [|x l IH]; intros j k Hj Hk.
  - destruct j; cbn in Hk; lia.
  - destruct j as [|j]; [cbn in Hk; lia|].
    rewrite nchan_cons in Hj. cbn [chan_prefix] in Hk.
    destruct k as [|k]; [cbn; lia|].
    cbn [log_prefix]. destruct x as [d|u|c f b t]; cbn [is_chan is_commit] in *;
      rewrite count_commits_cons in Hk; cbn [is_commit] in Hk; rewrite nchan_cons; cbn [is_chan].
    + assert (K : (nchan (log_prefix k l) < j)%nat) by (apply IH; lia). lia.
    + assert (K : (nchan (log_prefix k l) < S j)%nat) by (apply IH; lia). lia.
    + assert (K : (nchan (log_prefix (S k) l) < S j)%nat) by (apply IH; lia). lia.
Qed.

(** the number of channel commits is read off the erased log *)
Fixpoint nlefts (v : list item) : nat :=
  match v with
  | [] => 0
  | inl _ :: v' => S (nlefts v')
  | inr _ :: v' => nlefts v'
  end.

Lemma nchan_cview l : nchan l = nlefts (cview l).
Proof.
  induction l as [|x l IH]; [reflexivity|].
  rewrite nchan_cons. destruct x; cbn [is_chan cview nlefts Nat.add]; rewrite IH; reflexivity.
Qed.

Lemma nlefts_mask v : nlefts (map mask_item v) = nlefts v.
Proof.
  induction v as [|i v IH]; [reflexivity|].
  destruct i; cbn [map mask_item nlefts]; rewrite IH; reflexivity.
Qed.

Lemma nchan_masked l1 l2 :
  map mask_item (cview l1) = map mask_item (cview l2) -> nchan l1 = nchan l2.
Proof.
  intros E. rewrite !nchan_cview, <- (nlefts_mask (cview l1)), E. apply nlefts_mask.
Qed.

Lemma only_frames_mask v : only_frames v -> only_frames (map mask_item v).
Proof.
  intros H d K. apply in_map_iff in K. destruct K as [i [E K]].
  destruct i as [d'|p]; cbn [mask_item] in E; [|discriminate].
  inversion E; subst d'. exact (H d K).
Qed.

(** ** the two crash prefixes *)

(** same erased logs, crash points that have seen the same number of channel
    commits: same channel files *)
Lemma crash_same_files L1 L2 k k' c u1 u2 :
  map mask_item (cview L1) = map mask_item (cview L2) ->
  chan_commits_before L1 k = chan_commits_before L2 k' ->
  fst (replay_commits (log_prefix k L1) c u1) = fst (replay_commits (log_prefix k' L2) c u2).
Proof.
  intros E Hj. rewrite !replay_last_chan.
  destruct (log_prefix_split L1 k) as (r1 & E1 & N1).
  destruct (log_prefix_split L2 k') as (r2 & E2 & N2).
  rewrite E1, E2, !cview_app, !last_chan_app, !cview_chan_prefix.
  rewrite (only_frames_last _ (nchan_0_frames _ N1)), (only_frames_last _ (nchan_0_frames _ N2)).
  rewrite <- Hj.
  rewrite <- (last_chan_mask (cut _ (cview L1))), <- (last_chan_mask (cut _ (cview L2))).
  rewrite <- !cut_mask, E. reflexivity.
Qed.

(** the least such crash point of the second log: its prefix is a prefix of the
    first one's, and what is missing are frames only *)
Lemma crash_cut L1 L2 k :
  map mask_item (cview L1) = map mask_item (cview L2) ->
  exists r, only_frames r /\
    map mask_item (cview (log_prefix k L1)) =
    map mask_item (cview (log_prefix (chan_pos L2 (chan_commits_before L1 k)) L2)) ++ map mask_item r /\
    (cview L1 = cview L2 ->
     cview (log_prefix k L1) =
     cview (log_prefix (chan_pos L2 (chan_commits_before L1 k)) L2) ++ r).
Proof.
  intros E.
  assert (Hj : (chan_commits_before L1 k <= nchan L2)%nat).
  { rewrite <- (nchan_masked L1 L2 E). apply chan_commits_before_le. }
  destruct (log_prefix_split L1 k) as (r1 & E1 & N1).
  exists (cview r1). split; [apply nchan_0_frames; exact N1|].
  rewrite (log_prefix_chan_pos L2 _ Hj), E1, cview_app, !cview_chan_prefix. split.
  - rewrite map_app. f_equal. rewrite <- !cut_mask, E. reflexivity.
  - intros E'. rewrite E'. reflexivity.
Qed.

(** * Part 1: the two-run relation with the erased log

    [ViewFacts.sim] relates the frames of the two logs only.  [simX] relates the
    logs with the usage commits erased: the channel commits, their snapshots and
    their position among the frames.  The calculus below is that of ViewFacts.v
    Part 3-4 over [simX]. *)

(** computations that only touch the usage database and add usage commits *)
Definition xinvis (m : M unit) : Prop :=
  forall s, exists s',
    m s = Ok tt s' /\ chan_w s' = chan_w s /\ chan_c s' = chan_c s /\ subs s' = subs s /\
    conns s' = conns s /\ now s' = now s /\ cview (log s') = cview (log s) /\
    timer_start s' = timer_start s /\ next_due s' = next_due s.

Lemma xinvis_ret : xinvis (ret tt).
Proof. intros s. exists s. repeat split; reflexivity. Qed.

Lemma xinvis_utx f : xinvis (utx f).
Proof. intros s. eexists. split; [reflexivity|]. repeat split; reflexivity. Qed.

Lemma xinvis_commit_usage : xinvis commit_usage.
Proof. intros s. eexists. split; [reflexivity|]. repeat split; reflexivity. Qed.

Lemma xinvis_seq m k : xinvis m -> xinvis k -> xinvis (m ;;; k).
Proof.
  intros Hm Hk s. destruct (Hm s) as (s1 & E1 & A1 & B1 & C1 & D1 & F1 & G1 & T1 & N1).
  destruct (Hk s1) as (s2 & E2 & A2 & B2 & C2 & D2 & F2 & G2 & T2 & N2).
  exists s2. unfold bind. rewrite E1, E2. split; [reflexivity|].
  repeat split; congruence.
Qed.

Lemma xinvis_if (b : bool) m k : xinvis m -> xinvis k -> xinvis (if b then m else k).
Proof. destruct b; auto. Qed.

Lemma xinvis_write_usage unps umbs : xinvis (write_usage unps umbs).
Proof. apply xinvis_utx. Qed.

Lemma xinvis_dump_stats cfg when rebooted : xinvis (dump_stats cfg when rebooted).
Proof.
  unfold dump_stats. destruct (usage_on cfg); [|apply xinvis_ret].
  intros s. eexists. split; [reflexivity|]. repeat split; reflexivity.
Qed.

Lemma xinvis_log_client_version cfg a side when cv : xinvis (log_client_version cfg a side when cv).
Proof.
  unfold log_client_version. apply xinvis_if; [|apply xinvis_ret].
  apply xinvis_seq; [apply xinvis_utx|apply xinvis_commit_usage].
Qed.

Section RelX.
Variables cfg1 cfg2 : config.
Hypothesis Hexp : exp cfg1 = exp cfg2.
Hypothesis Hper : period cfg1 = period cfg2.
(* the welcome frame carries the configured notices *)
Hypothesis Hwel : welcome cfg1 = welcome cfg2.

Record simX (s1 s2 : state) : Prop := mkSimX
  { sx_w : chan_w s1 = chan_w s2;
    sx_c : chan_c s1 = chan_c s2;
    sx_subs : subs s1 = subs s2;
    sx_conns : conns s1 = conns s2;
    sx_now : now s1 = now s2;
    sx_mask : map mask_item (cview (log s1)) = map mask_item (cview (log s2));
    sx_fl : allow_list cfg1 = allow_list cfg2 -> cview (log s1) = cview (log s2);
    sx_tm : timer_start s1 = timer_start s2 /\ next_due s1 = next_due s2 }.

Definition XR {A} (I : chan_db -> Prop) (V : A -> A -> Prop) (J : A -> chan_db -> Prop)
           (m1 m2 : M A) : Prop :=
  forall s1 s2, simX s1 s2 -> I (chan_w s1) ->
  match m1 s1, m2 s2 with
  | Ok a1 t1, Ok a2 t2 => V a1 a2 /\ simX t1 t2 /\ J a1 (chan_w t1)
  | Exn e1 t1, Exn e2 t2 => e1 = e2 /\ simX t1 t2
  | _, _ => False
  end.

Lemma XR_conseq {A} (I I' : chan_db -> Prop) (V V' : A -> A -> Prop) (J J' : A -> chan_db -> Prop) m1 m2 :
  XR I V J m1 m2 ->
  (forall d, I' d -> I d) -> (forall a b, V a b -> V' a b) -> (forall a d, J a d -> J' a d) ->
  XR I' V' J' m1 m2.
Proof.
  intros H HI HV HJ s1 s2 Hs Hd. specialize (H s1 s2 Hs (HI _ Hd)).
  destruct (m1 s1), (m2 s2); try exact H.
  destruct H as (H1 & H2 & H3). auto.
Qed.

Lemma XR_ret' {A} (I J : chan_db -> Prop) (a : A) :
  (forall d, I d -> J d) -> XR I eq (fun _ => J) (ret a) (ret a).
Proof. intros HJ s1 s2 Hs Hd. cbn. auto. Qed.

Lemma XR_ret {A} (I : chan_db -> Prop) (a : A) : XR I eq (fun _ => I) (ret a) (ret a).
Proof. apply XR_ret'. auto. Qed.

Lemma XR_raise {A} (I : chan_db -> Prop) (V : A -> A -> Prop) (J : A -> chan_db -> Prop) e : XR I V J (raise e) (raise e).
Proof. intros s1 s2 Hs Hd. cbn. auto. Qed.

Lemma XR_bind {A B} (I : chan_db -> Prop) (V : A -> A -> Prop) (J : A -> chan_db -> Prop) (W : B -> B -> Prop) (K : B -> chan_db -> Prop) m1 m2 k1 k2 :
  XR I V J m1 m2 ->
  (forall a1 a2, V a1 a2 -> XR (J a1) W K (k1 a1) (k2 a2)) ->
  XR I W K (bind m1 k1) (bind m2 k2).
Proof.
  intros Hm Hk s1 s2 Hs Hd. unfold bind. specialize (Hm s1 s2 Hs Hd).
  destruct (m1 s1) as [a1 t1|e1 t1], (m2 s2) as [a2 t2|e2 t2]; try (exfalso; exact Hm); try exact Hm.
  destruct Hm as (Hv & Ht & Hj). exact (Hk a1 a2 Hv t1 t2 Ht Hj).
Qed.

Lemma XRp_bind {A B} (I K : chan_db -> Prop) (W : B -> B -> Prop) (J : B -> chan_db -> Prop) (m1 m2 : M A) k1 k2 :
  XR I eq (fun _ => K) m1 m2 ->
  (forall a, XR K W J (k1 a) (k2 a)) ->
  XR I W J (bind m1 k1) (bind m2 k2).
Proof.
  intros Hm Hk. eapply XR_bind; [exact Hm|]. intros a1 a2 <-. apply Hk.
Qed.

Lemma XR_bind_get {B} (I : chan_db -> Prop) (W : B -> B -> Prop) (K : B -> chan_db -> Prop) k1 k2 :
  (forall x y, simX x y -> XR I W K (k1 x) (k2 y)) ->
  XR I W K (bind get k1) (bind get k2).
Proof. intros Hk s1 s2 Hs Hd. unfold bind, get. exact (Hk s1 s2 Hs s1 s2 Hs Hd). Qed.

Lemma XR_try_catch {A} (I : chan_db -> Prop) (V : A -> A -> Prop) (J : A -> chan_db -> Prop) m1 m2 h1 h2 :
  XR I V J m1 m2 -> (forall e, XR T V J (h1 e) (h2 e)) ->
  XR I V J (try_catch m1 h1) (try_catch m2 h2).
Proof.
  intros Hm Hh s1 s2 Hs Hd. unfold try_catch. specialize (Hm s1 s2 Hs Hd).
  destruct (m1 s1) as [a1 t1|e1 t1], (m2 s2) as [a2 t2|e2 t2]; try (exfalso; exact Hm); try exact Hm.
  destruct Hm as [<- Ht]. exact (Hh e1 t1 t2 Ht Logic.I).
Qed.

Lemma XR_tx {A} (I : chan_db -> Prop) (V : A -> A -> Prop) (J : A -> chan_db -> Prop) (f1 f2 : chan_db -> txres A) :
  (forall d, I d ->
     match f1 d, f2 d with
     | TxOk a1 d1, TxOk a2 d2 => V a1 a2 /\ d1 = d2 /\ J a1 d1
     | TxFail e1 d1, TxFail e2 d2 => e1 = e2 /\ d1 = d2
     | _, _ => False
     end) ->
  XR I V J (tx f1) (tx f2).
Proof.
  intros H s1 s2 Hs Hd. unfold tx. specialize (H _ Hd). rewrite <- (sx_w _ _ Hs).
  destruct Hs.
  destruct (f1 (chan_w s1)) as [a1 d1|e1 d1], (f2 (chan_w s1)) as [a2 d2|e2 d2]; try exact H.
  - destruct H as (Hv & <- & Hj). split; [exact Hv|]. split; [|exact Hj].
    constructor; cbn; auto.
  - destruct H as (<- & <-). split; [reflexivity|]. constructor; cbn; auto.
Qed.

Lemma XRp_tx {A} (I J : chan_db -> Prop) (f : chan_db -> txres A) :
  (forall d, I d -> match f d with TxOk _ d' => J d' | TxFail _ _ => True end) ->
  XR I eq (fun _ => J) (tx f) (tx f).
Proof.
  intros H. apply XR_tx. intros d Hd. cbv beta. specialize (H d Hd). destruct (f d); auto.
Qed.

Lemma XRp_q {A} (I : chan_db -> Prop) (f : chan_db -> A) : XR I eq (fun _ => I) (q f) (q f).
Proof. intros s1 s2 Hs Hd. unfold q. rewrite <- (sx_w _ _ Hs). auto. Qed.

Lemma XRp_commit (I : chan_db -> Prop) : XR I eq (fun _ => I) commit_chan commit_chan.
Proof.
  intros s1 s2 Hs Hd. unfold commit_chan. split; [reflexivity|]. split; [|exact Hd].
  destruct Hs. constructor; cbn [chan_w chan_c subs conns now log timer_start next_due cview map mask_item]; auto.
  - f_equal; [f_equal|]; assumption.
  - intros K. f_equal; [f_equal; assumption|auto].
Qed.

Lemma XRp_send (I : chan_db -> Prop) c f : XR I eq (fun _ => I) (send c f) (send c f).
Proof.
  intros s1 s2 Hs Hd. unfold send. split; [reflexivity|]. split; [|exact Hd].
  destruct Hs. constructor; cbn [chan_w chan_c subs conns now log set_log timer_start next_due cview map mask_item]; auto.
  - f_equal. assumption.
  - intros K. f_equal. auto.
Qed.

Lemma XRp_send_names (I : chan_db -> Prop) c l1 l2 :
  (allow_list cfg1 = allow_list cfg2 -> l1 = l2) ->
  XR I eq (fun _ => I) (send c (FNameplates l1)) (send c (FNameplates l2)).
Proof.
  intros Hl s1 s2 Hs Hd. unfold send. split; [reflexivity|]. split; [|exact Hd].
  destruct Hs. constructor; cbn [chan_w chan_c subs conns now log set_log timer_start next_due cview map mask_item]; auto.
  - f_equal. assumption.
  - intros K. rewrite (Hl K). f_equal. auto.
Qed.

Lemma XRp_get_conn (I : chan_db -> Prop) c : XR I eq (fun _ => I) (get_conn c) (get_conn c).
Proof. intros s1 s2 Hs Hd. unfold get_conn. rewrite <- (sx_conns _ _ Hs). auto. Qed.

Lemma XRp_set_conn (I : chan_db -> Prop) c cs : XR I eq (fun _ => I) (set_conn c cs) (set_conn c cs).
Proof.
  intros s1 s2 Hs Hd. unfold set_conn. split; [reflexivity|]. split; [|exact Hd].
  destruct Hs. constructor; cbn; auto; congruence.
Qed.

Lemma XRp_add_sub (I : chan_db -> Prop) a m c : XR I eq (fun _ => I) (add_sub a m c) (add_sub a m c).
Proof.
  intros s1 s2 Hs Hd. unfold add_sub. rewrite <- (sx_subs _ _ Hs). split; [reflexivity|].
  destruct (existsb (sub_is a m c) (subs s1)); (split; [|exact Hd]); [exact Hs|].
  destruct Hs. constructor; cbn; auto; congruence.
Qed.

Lemma XRp_remove_sub (I : chan_db -> Prop) a m c :
  XR I eq (fun _ => I) (remove_sub a m c) (remove_sub a m c).
Proof.
  intros s1 s2 Hs Hd. unfold remove_sub. split; [reflexivity|]. split; [|exact Hd].
  destruct Hs. constructor; cbn; auto; congruence.
Qed.

Lemma XRp_stop_listeners (I : chan_db -> Prop) a m :
  XR I eq (fun _ => I) (stop_listeners a m) (stop_listeners a m).
Proof.
  intros s1 s2 Hs Hd. unfold stop_listeners. cbv zeta. split; [reflexivity|]. split; [|exact Hd].
  rewrite <- (sx_subs _ _ Hs), <- (sx_conns _ _ Hs).
  destruct Hs. constructor; cbn; auto.
Qed.

Lemma XRp_invis (I : chan_db -> Prop) m1 m2 :
  xinvis m1 -> xinvis m2 -> XR I eq (fun _ => I) m1 m2.
Proof.
  intros H1 H2 s1 s2 Hs Hd.
  destruct (H1 s1) as (t1 & -> & A1 & B1 & C1 & D1 & F1 & G1 & T1 & N1).
  destruct (H2 s2) as (t2 & -> & A2 & B2 & C2 & D2 & F2 & G2 & T2 & N2).
  split; [reflexivity|]. split; [|rewrite A1; exact Hd].
  destruct Hs. constructor; try congruence.
  intros K. rewrite G1, G2. auto.
Qed.

Lemma XR_q {A} (I : chan_db -> Prop) (V : A -> A -> Prop) (f1 f2 : chan_db -> A) :
  (forall d, I d -> V (f1 d) (f2 d)) -> XR I V (fun _ => I) (q f1) (q f2).
Proof. intros H s1 s2 Hs Hd. unfold q. rewrite <- (sx_w _ _ Hs). auto. Qed.

Lemma XR_post_T {A} (I J : chan_db -> Prop) (m1 m2 : M A) :
  XR I eq (fun _ => J) m1 m2 -> XR I eq (fun _ => T) m1 m2.
Proof. intros H. eapply XR_conseq; [exact H| | |]; unfold T; auto. Qed.

Lemma XR_pre_T {A} (I J : chan_db -> Prop) (m1 m2 : M A) :
  XR T eq (fun _ => J) m1 m2 -> XR I eq (fun _ => J) m1 m2.
Proof. intros H. eapply XR_conseq; [exact H| | |]; unfold T; auto. Qed.

(** * Part 4: every operation, two runs *)

Ltac xrlem := fail.

Ltac xrp1 :=
  lazymatch goal with
  | |- XR _ _ _ (bind get _) (bind get _) =>
      apply XR_bind_get;
      let x := fresh "x" in let y := fresh "y" in let H := fresh "Hxy" in
      intros x y H; cbv beta;
      try rewrite <- (sx_now _ _ H); try rewrite <- (sx_subs _ _ H)
  | |- XR _ _ _ (bind _ _) (bind _ _) => eapply XRp_bind; [|intros ?]
  | |- XR _ _ _ (ret _) (ret _) => apply XR_ret
  | |- XR _ _ _ (raise _) (raise _) => apply XR_raise
  | |- XR _ _ _ err err => apply XR_raise
  | |- XR _ _ _ commit_chan commit_chan => apply XRp_commit
  | |- XR _ _ _ (send _ _) (send _ _) => apply XRp_send
  | |- XR _ _ _ (q _) (q _) => apply XRp_q
  | |- XR _ _ _ (get_messages _ _) (get_messages _ _) => apply XRp_q
  | |- XR _ _ _ (get_conn _) (get_conn _) => apply XRp_get_conn
  | |- XR _ _ _ (set_conn _ _) (set_conn _ _) => apply XRp_set_conn
  | |- XR _ _ _ (add_sub _ _ _) (add_sub _ _ _) => apply XRp_add_sub
  | |- XR _ _ _ (remove_sub _ _ _) (remove_sub _ _ _) => apply XRp_remove_sub
  | |- XR _ _ _ (stop_listeners _ _) (stop_listeners _ _) => apply XRp_stop_listeners
  | |- XR _ _ _ (catch_crowded _) (catch_crowded _) =>
      unfold catch_crowded; apply XR_try_catch;
      [|let e := fresh "e" in intros e; destruct e; apply XR_raise]
  | |- XR _ _ _ (catch_crowded_reclaimed _) (catch_crowded_reclaimed _) =>
      unfold catch_crowded_reclaimed; apply XR_try_catch;
      [|let e := fresh "e" in intros e; destruct e; apply XR_raise]
  | |- XR _ _ _ (if ?b then _ else _) (if ?b then _ else _) => destruct b
  | |- XR _ _ _ (match ?x with _ => _ end) (match ?x with _ => _ end) => destruct x
  end.

Ltac xrp := repeat first [xrp1 | xrlem].

Lemma XR_send_all (I : chan_db -> Prop) cs f : XR I eq (fun _ => I) (send_all cs f) (send_all cs f).
Proof. induction cs as [|c cs IH]; cbn [send_all]; xrp. exact IH. Qed.

Lemma XR_send_each (I : chan_db -> Prop) c l : XR I eq (fun _ => I) (send_each c l) (send_each c l).
Proof. induction l as [|r l IH]; cbn [send_each]; xrp. exact IH. Qed.

Lemma XR_open_mailbox a m side when :
  XR DbInv eq (fun _ => DbInv) (open_mailbox a m side when) (open_mailbox a m side when).
Proof.
  unfold open_mailbox. eapply XRp_bind with (K := DbInv).
  { apply XRp_tx. intros d Hd. cbv beta. pose proof (open_body_ok d a m side when Hd) as H.
    destruct (open_body d a m side when); [tauto|exact Logic.I]. }
  intros _. xrp.
Qed.

Ltac xrlem ::= first [apply XR_send_all | apply XR_send_each | apply XR_open_mailbox].

Lemma XR_claim_nameplate a name side when draw :
  XR DbInv eq (fun _ => DbInv) (claim_nameplate a name side when draw)
    (claim_nameplate a name side when draw).
Proof.
  unfold claim_nameplate. eapply XRp_bind with (K := DbInv).
  { apply XRp_tx. intros d Hd. cbv beta. pose proof (claim_body_ok d a name side when draw Hd) as H.
    destruct (claim_body d a name side when draw) as [[npid mbox] d'|]; [tauto|exact Logic.I]. }
  intros [npid mbox]. xrp.
Qed.

Ltac xrlem ::= first [apply XR_send_all | apply XR_send_each | apply XR_open_mailbox
                    | apply XR_claim_nameplate].

Lemma XR_allocate_nameplate a side when o draw :
  XR DbInv eq (fun _ => DbInv) (allocate_nameplate a side when o draw)
    (allocate_nameplate a side when o draw).
Proof. unfold allocate_nameplate. xrp. Qed.

Lemma XR_add_message a m r :
  XR DbInv eq (fun _ => T) (add_message a m r) (add_message a m r).
Proof.
  unfold add_message. eapply XRp_bind with (K := T).
  { apply XRp_tx. intros d Hd. cbv beta. exact Logic.I. }
  intros _. xrp.
Qed.

Lemma XR_release_nameplate a name side when :
  XR DbInv eq (fun _ => DbInv) (release_nameplate cfg1 a name side when)
    (release_nameplate cfg2 a name side when).
Proof.
  unfold release_nameplate.
  eapply XR_bind with (V := eq)
    (J := fun r d => DbInv d /\ match r with Some npid => np_exists d npid = true | None => True end).
  { apply XR_tx. intros d Hd. cbv beta. destruct (release_mark_body d a name side) as [[npid d1]|] eqn:E.
    - destruct (release_mark_body_ok d a name side npid d1 Hd E) as (H1 & _ & H2). auto.
    - auto. }
  intros r ? <-. destruct r as [npid|].
  - eapply XRp_bind; [apply XRp_commit|]. intros _.
    eapply XR_bind with (V := fun r1 r2 : option (list u_np_row) => r1 = None <-> r2 = None)
                       (J := fun _ => DbInv).
    { apply XR_tx. intros d [Hd He]. cbv beta.
      destruct (release_delete_char cfg1 d a npid when Hd He) as (r1 & E1 & N1 & D1).
      destruct (release_delete_char cfg2 d a npid when Hd He) as (r2 & E2 & N2 & D2).
      rewrite E1, E2. split; [tauto|]. split; [reflexivity|exact D1]. }
    intros r1 r2 Hr. destruct r1 as [u1|], r2 as [u2|].
    + eapply XRp_bind; [|intros _; apply XRp_commit].
      apply XRp_invis; (apply xinvis_if; [|apply xinvis_ret]);
        (apply xinvis_seq; [apply xinvis_write_usage|apply xinvis_commit_usage]).
    + exfalso. destruct Hr as [_ Hr]. specialize (Hr eq_refl). discriminate.
    + exfalso. destruct Hr as [Hr _]. specialize (Hr eq_refl). discriminate.
    + apply XR_ret.
  - apply XR_ret'. tauto.
Qed.

Lemma XR_mailbox_close a m side mood when :
  XR DbInv eq (fun _ => DbInv) (mailbox_close cfg1 a m side mood when)
    (mailbox_close cfg2 a m side mood when).
Proof.
  unfold mailbox_close. eapply XRp_bind with (K := DbInv).
  { apply XRp_tx. intros d Hd. cbv beta. destruct (close_mark_body d a m side mood) as [[f d1]|] eqn:E.
    - destruct (close_mark_body_ok d a m side mood f d1 Hd E) as (H1 & _). exact H1.
    - exact Hd. }
  intros r. destruct r as [fornp|]; [|apply XR_ret].
  eapply XRp_bind; [apply XRp_commit|]. intros _.
  eapply XR_bind with
    (V := fun r1 r2 : option (list u_np_row * list u_mb_row) => r1 = None <-> r2 = None)
    (J := fun _ => DbInv).
  { apply XR_tx. intros d Hd. cbv beta.
    destruct (close_delete_char cfg1 d a m fornp when Hd) as (r1 & E1 & N1 & D1).
    destruct (close_delete_char cfg2 d a m fornp when Hd) as (r2 & E2 & N2 & D2).
    rewrite E1, E2. split; [tauto|]. split; [reflexivity|exact D1]. }
  intros r1 r2 Hr. destruct r1 as [[u1 v1]|], r2 as [[u2 v2]|].
  - eapply XRp_bind; [|intros _; xrp].
    apply XRp_invis; (apply xinvis_if; [|apply xinvis_ret]);
      (apply xinvis_seq; [apply xinvis_write_usage|apply xinvis_commit_usage]).
  - exfalso. destruct Hr as [_ Hr]. specialize (Hr eq_refl). discriminate.
  - exfalso. destruct Hr as [Hr _]. specialize (Hr eq_refl). discriminate.
  - apply XR_ret.
Qed.

Lemma XR_prune_app a when old :
  XR DbInv eq (fun _ => DbInv) (prune_app cfg1 a when old) (prune_app cfg2 a when old).
Proof.
  unfold prune_app. apply XR_bind_get. intros x y Hxy. cbv beta. rewrite <- (sx_subs _ _ Hxy).
  eapply XRp_bind with (K := DbInv).
  { apply XRp_tx. intros d Hd. cbv beta. apply (touch_all_ok d _ when Hd). }
  intros _. eapply XRp_bind; [apply XRp_commit|]. intros _.
  eapply XR_bind with
    (V := fun r1 r2 : bool * list u_np_row * list u_mb_row => fst (fst r1) = fst (fst r2))
    (J := fun _ => DbInv).
  { apply XR_tx. intros d Hd. cbv beta.
    destruct (prune_char cfg1 d a when old Hd) as (u1 & v1 & E1 & D1).
    destruct (prune_char cfg2 d a when old Hd) as (u2 & v2 & E2 & D2).
    rewrite E1, E2. cbn [fst]. auto. }
  intros [[m1 u1] v1] [[m2 u2] v2] Hm. cbn [fst] in Hm. subst m2.
  eapply XRp_bind.
  { apply XRp_invis; (apply xinvis_if; [apply xinvis_write_usage|apply xinvis_ret]). }
  intros _. destruct m1; [|apply XR_ret].
  eapply XRp_bind; [apply XRp_commit|]. intros _.
  apply XRp_invis; (apply xinvis_if; [apply xinvis_commit_usage|apply xinvis_ret]).
Qed.

Lemma XR_prune_apps apps when old :
  XR DbInv eq (fun _ => DbInv) (prune_apps cfg1 apps when old) (prune_apps cfg2 apps when old).
Proof.
  induction apps as [|a apps IH]; cbn [prune_apps]; [apply XR_ret|].
  eapply XRp_bind; [apply XR_prune_app|]. intros _. exact IH.
Qed.

Lemma XR_prune_all_apps when old :
  XR DbInv eq (fun _ => DbInv) (prune_all_apps cfg1 when old) (prune_all_apps cfg2 when old).
Proof.
  unfold prune_all_apps. eapply XRp_bind; [apply XRp_q|]. intros apps. apply XR_prune_apps.
Qed.

Lemma XR_expire fault : XR DbInv eq (fun _ => T) (expire cfg1 fault) (expire cfg2 fault).
Proof.
  unfold expire. apply XR_bind_get. intros x y Hxy. cbv beta.
  rewrite <- (sx_now _ _ Hxy), <- Hexp.
  eapply XRp_bind with (K := T).
  - destruct fault.
    + apply XR_ret'. unfold T. auto.
    + apply XR_try_catch.
      * eapply XR_post_T. apply XR_prune_all_apps.
      * intros e. apply XR_ret.
  - intros _. apply XRp_invis; apply xinvis_dump_stats.
Qed.

Ltac xrlem ::= first [apply XR_send_all | apply XR_send_each | apply XR_open_mailbox
                    | apply XR_claim_nameplate | apply XR_allocate_nameplate
                    | apply XR_release_nameplate | apply XR_mailbox_close ].

(** ** handlers *)

Lemma XR_handle_ping c msg :
  XR DbInv eq (fun _ => DbInv) (handle_ping c msg) (handle_ping c msg).
Proof. unfold handle_ping. xrp. Qed.

Lemma XR_handle_bind c msg :
  XR DbInv eq (fun _ => DbInv) (handle_bind cfg1 c msg) (handle_bind cfg2 c msg).
Proof.
  unfold handle_bind. xrp.
  apply XRp_invis; apply xinvis_log_client_version.
Qed.

Lemma XR_handle_list c a :
  XR DbInv eq (fun _ => DbInv) (handle_list cfg1 c a) (handle_list cfg2 c a).
Proof.
  unfold handle_list.
  eapply XR_bind with (V := fun n1 n2 : list string => allow_list cfg1 = allow_list cfg2 -> n1 = n2)
                     (J := fun _ => DbInv).
  { apply XR_q. intros d _ E. rewrite E. reflexivity. }
  intros n1 n2 Hn. apply XRp_send_names. intros E. rewrite (Hn E). reflexivity.
Qed.

Lemma XR_handle_allocate c a side o :
  XR DbInv eq (fun _ => DbInv) (handle_allocate c a side o) (handle_allocate c a side o).
Proof. unfold handle_allocate. xrp. Qed.

Lemma XR_handle_claim c a side msg o :
  XR DbInv eq (fun _ => DbInv) (handle_claim c a side msg o) (handle_claim c a side msg o).
Proof. unfold handle_claim. xrp. Qed.

Lemma XR_handle_release c a side msg :
  XR DbInv eq (fun _ => DbInv) (handle_release cfg1 c a side msg) (handle_release cfg2 c a side msg).
Proof. unfold handle_release. xrp. Qed.

Lemma XR_handle_open c a side msg :
  XR DbInv eq (fun _ => DbInv) (handle_open c a side msg) (handle_open c a side msg).
Proof. unfold handle_open. xrp. Qed.

Lemma XR_handle_add c a side msg :
  XR DbInv eq (fun _ => T) (handle_add c a side msg) (handle_add c a side msg).
Proof. unfold handle_add. xrp. apply XR_add_message. Qed.

Lemma XR_handle_close c a side msg :
  XR DbInv eq (fun _ => DbInv) (handle_close cfg1 c a side msg) (handle_close cfg2 c a side msg).
Proof. unfold handle_close. xrp. Qed.

Lemma XR_dispatch c t msg o :
  XR DbInv eq (fun _ => T) (dispatch cfg1 c t msg o) (dispatch cfg2 c t msg o).
Proof.
  unfold dispatch.
  destruct t;
    try (eapply XR_post_T; first [apply XR_handle_ping | apply XR_handle_bind]);
    (eapply XRp_bind; [apply XRp_get_conn|]); intros cs;
    (destruct (c_bound cs) as [[a side]|]; [|apply XR_raise]).
  - eapply XR_post_T. apply XR_handle_list.
  - eapply XR_post_T. apply XR_handle_allocate.
  - eapply XR_post_T. apply XR_handle_claim.
  - eapply XR_post_T. apply XR_handle_release.
  - eapply XR_post_T. apply XR_handle_open.
  - apply XR_handle_add.
  - eapply XR_post_T. apply XR_handle_close.
  - apply XR_raise.
Qed.

Lemma XR_on_message c msg o :
  XR DbInv eq (fun _ => T) (on_message cfg1 c msg o) (on_message cfg2 c msg o).
Proof.
  unfold on_message. apply XR_try_catch.
  - destruct (m_type msg) as [t|]; [|apply XR_raise].
    eapply XRp_bind; [apply XRp_send|]. intros _. apply XR_dispatch.
  - intros e. destruct e; try apply XR_raise. apply XRp_send.
Qed.

Lemma XR_on_close c : XR T eq (fun _ => T) (on_close c) (on_close c).
Proof. unfold on_close. xrp. Qed.

Lemma sx_set_conns s1 s2 x : simX s1 s2 -> simX (set_conns s1 x) (set_conns s2 x).
Proof. intros Hs. destruct Hs. constructor; cbn; auto. Qed.

Lemma sx_drop_conn c s1 s2 : simX s1 s2 -> simX (drop_conn c s1) (drop_conn c s2).
Proof.
  intros Hs. unfold drop_conn. pose proof (XR_on_close c s1 s2 Hs Logic.I) as H.
  destruct (on_close c s1) as [a1 t1|e1 t1], (on_close c s2) as [a2 t2|e2 t2];
    try (exfalso; exact H).
  - destruct H as (_ & Ht & _). rewrite <- (sx_conns _ _ Ht). apply sx_set_conns. exact Ht.
  - destruct H as (_ & Ht). rewrite <- (sx_conns _ _ Ht). apply sx_set_conns. exact Ht.
Qed.

Lemma has_conn_simX c s1 s2 : simX s1 s2 -> has_conn c s1 = has_conn c s2.
Proof. intros Hs. unfold has_conn. rewrite (sx_conns _ _ Hs). reflexivity. Qed.

Lemma run_m_simX (m1 m2 : M unit) (I J : chan_db -> Prop) s1 s2 :
  XR I eq (fun _ => J) m1 m2 -> simX s1 s2 -> I (chan_w s1) ->
  simX (fst (run_m m1 s1)) (fst (run_m m2 s2)) /\ snd (run_m m1 s1) = snd (run_m m2 s2).
Proof.
  intros H Hs Hd. unfold run_m. specialize (H s1 s2 Hs Hd).
  destruct (m1 s1) as [a1 t1|e1 t1], (m2 s2) as [a2 t2|e2 t2]; try (exfalso; exact H); cbn [fst snd].
  - destruct H as (_ & Ht & _). auto.
  - destruct H as (<- & Ht). auto.
Qed.

Lemma step_b_simX s1 s2 b :
  simX s1 s2 -> DbInv (chan_w s1) -> same_firing s1 s2 (EB b) ->
  let '(t1, v1, x1) := step_b cfg1 s1 b in
  let '(t2, v2, x2) := step_b cfg2 s2 b in
  simX t1 t2 /\ v1 = v2 /\ x1 = x2.
Proof.
  intros Hs Hd Hf. destruct b as [c|c m o|c|fault|dt fault]; unfold step_b.
  - rewrite <- (has_conn_simX c _ _ Hs). destruct (has_conn c s1); [auto|].
    rewrite <- (sx_conns _ _ Hs).
    assert (Hs1 : simX (set_conns s1 (conns s1 ++ [(c, new_conn)]))
                      (set_conns s2 (conns s1 ++ [(c, new_conn)]))) by (apply sx_set_conns; exact Hs).
    assert (Ro : XR T eq (fun _ => T) (on_open cfg1 c) (on_open cfg2 c)).
    { unfold on_open. rewrite <- Hwel. apply XRp_send. }
    destruct (run_m_simX (on_open cfg1 c) (on_open cfg2 c) T T _ _ Ro Hs1 Logic.I) as [A B].
    destruct (run_m (on_open cfg1 c) (set_conns s1 (conns s1 ++ [(c, new_conn)]))) as [u1 x1].
    destruct (run_m (on_open cfg2 c) (set_conns s2 (conns s1 ++ [(c, new_conn)]))) as [u2 x2].
    cbn [fst snd] in A, B. auto.
  - rewrite <- (has_conn_simX c _ _ Hs). destruct (has_conn c s1); [|auto].
    pose proof (XR_on_message c m o s1 s2 Hs Hd) as H.
    destruct (on_message cfg1 c m o s1) as [a1 t1|e1 t1],
             (on_message cfg2 c m o s2) as [a2 t2|e2 t2]; try (exfalso; exact H).
    + destruct H as (_ & Ht & _). auto.
    + destruct H as (<- & Ht). split; [apply sx_drop_conn; exact Ht|auto].
  - rewrite <- (has_conn_simX c _ _ Hs). destruct (has_conn c s1); [|auto].
    split; [apply sx_drop_conn; exact Hs|auto].
  - destruct (run_m_simX _ _ _ _ _ _ (XR_expire fault) Hs Hd) as [A B].
    destruct (run_m (expire cfg1 fault) s1) as [u1 x1].
    destruct (run_m (expire cfg2 fault) s2) as [u2 x2].
    cbn [fst snd] in A, B. auto.
  - destruct (dt <? 0); [auto|]. cbv zeta.
    assert (Hs1 : simX (set_now s1 (now s1 + dt)) (set_now s2 (now s2 + dt))).
    { destruct Hs. constructor; cbn; auto. congruence. }
    cbn [same_firing] in Hf.
    change (next_due (set_now s1 (now s1 + dt)) <=? now (set_now s1 (now s1 + dt)))
      with (next_due s1 <=? now s1 + dt).
    change (next_due (set_now s2 (now s2 + dt)) <=? now (set_now s2 (now s2 + dt)))
      with (next_due s2 <=? now s2 + dt).
    rewrite <- Hf. destruct (next_due s1 <=? now s1 + dt); [|auto].
    destruct (run_m_simX _ _ _ _ _ _ (XR_expire fault) Hs1 Hd) as [A B].
    destruct (run_m (expire cfg1 fault) (set_now s1 (now s1 + dt))) as [u1 x1].
    destruct (run_m (expire cfg2 fault) (set_now s2 (now s2 + dt))) as [u2 x2].
    cbn [fst snd] in A, B. split; [|auto].
    destruct A. constructor; cbn; auto.
    destruct sx_tm0 as [K1 K2]. split; [exact K1|].
    unfold next_grid. rewrite Hper, K1, sx_now0. reflexivity.
Qed.
End RelX.

(** [simX] refines [sim] *)
Lemma simX_sim cfg1 cfg2 s1 s2 : simX cfg1 cfg2 s1 s2 -> sim cfg1 cfg2 True s1 s2.
Proof.
  intros H. destruct H as [Hw Hc Hsu Hco Hn Hm Hf Ht]. constructor; auto.
  - unfold fl. rewrite <- !rights_cview, <- !rights_mask. f_equal. exact Hm.
  - intros K. unfold fl. rewrite <- !rights_cview. f_equal. exact (Hf K).
Qed.

Lemma sim_simX cfg1 cfg2 s1 s2 :
  sim cfg1 cfg2 True s1 s2 -> log s1 = [] -> log s2 = [] -> simX cfg1 cfg2 s1 s2.
Proof.
  intros H L1 L2. destruct H as [Hw Hc Hsu Hco Hn Hm Hf Ht].
  constructor; auto; rewrite L1, L2; reflexivity.
Qed.

(** * Part 2: crash indices *)

(** the log an observer of [ECrash k b] sees *)
Definition crash_log (cfg : config) (s : state) (k : nat) (b : bevent) : list log_entry :=
  let '(t, v, _) := step_b cfg (set_log s []) b in
  let full := rev (log t) in
  if (count_commits full <? k)%nat || negb v then full else log_prefix k full.

Lemma step_crash_log cfg s k b : o_log (snd (step cfg s (ECrash k b))) = crash_log cfg s k b.
Proof.
  unfold step, crash_log. cbv zeta.
  destruct (step_b cfg (set_log s []) b) as [[t v] x].
  destruct ((count_commits (rev (log t)) <? k)%nat || negb v).
  - destruct (boot_on cfg (chan_c t) (usage_c t) (now t)) as [[s2 bl] x2]. reflexivity.
  - destruct (replay_commits _ _ _) as [c u].
    destruct (boot_on cfg c u (now t)) as [[s2 bl] x2]. reflexivity.
Qed.

(** the translated index: run 1 crashes at its k-th commit; run 2 right after
    the channel commit that is the last one run 1 has made by then (k' = 0 if
    there is none); if the event of run 1 completes, so does that of run 2 *)
Definition translate_k (cfg1 cfg2 : config) (s1 s2 : state) (k : nat) (b : bevent) : nat :=
  let '(t1, v1, _) := step_b cfg1 (set_log s1 []) b in
  let '(t2, _, _) := step_b cfg2 (set_log s2 []) b in
  let full1 := rev (log t1) in
  let full2 := rev (log t2) in
  if (count_commits full1 <? k)%nat || negb v1 then S (count_commits full2)
  else chan_pos full2 (chan_commits_before full1 k).

(** two crash indices that denote the same instant of the channel database:
    both events complete, or both processes die having made the same number of
    channel commits *)
Definition crash_match (cfg1 cfg2 : config) (s1 s2 : state) (b : bevent) (k k' : nat) : Prop :=
  let '(t1, v1, _) := step_b cfg1 (set_log s1 []) b in
  let '(t2, v2, _) := step_b cfg2 (set_log s2 []) b in
  let full1 := rev (log t1) in
  let full2 := rev (log t2) in
  ((count_commits full1 <? k)%nat || negb v1 = true /\
   (count_commits full2 <? k')%nat || negb v2 = true) \/
  ((count_commits full1 <? k)%nat || negb v1 = false /\
   (count_commits full2 <? k')%nat || negb v2 = false /\
   chan_commits_before full1 k = chan_commits_before full2 k').

(** what the observations of a crashed event have in common: the second run
    (crashed at the least matching index) sent a prefix of what the first sent *)
Definition is_prefix {A} (l2 l1 : list A) : Prop := exists r, l1 = l2 ++ r.

Definition obs_agree_crash (cfg1 cfg2 : config) (o1 o2 : obs) : Prop :=
  is_prefix (map mask_frame (frames_of (o_log o2))) (map mask_frame (frames_of (o_log o1))) /\
  (allow_list cfg1 = allow_list cfg2 -> is_prefix (frames_of (o_log o2)) (frames_of (o_log o1))) /\
  o_exc o1 = o_exc o2 /\ o_valid o1 = o_valid o2 /\
  map mask_frame (frames_of (o_boot_log o1)) = map mask_frame (frames_of (o_boot_log o2)).

Lemma is_prefix_refl {A} (l : list A) : is_prefix l l.
Proof. exists []. rewrite app_nil_r. reflexivity. Qed.

Lemma obs_agree_weaken cfg1 cfg2 o1 o2 : obs_agree cfg1 cfg2 o1 o2 -> obs_agree_crash cfg1 cfg2 o1 o2.
Proof.
  intros (A & B & C & D & E). split; [rewrite A; apply is_prefix_refl|].
  split; [intros K; rewrite (B K); apply is_prefix_refl|auto].
Qed.

Section Crash.
Variables cfg1 cfg2 : config.
Hypothesis Hexp : exp cfg1 = exp cfg2.
Hypothesis Hper : period cfg1 = period cfg2.
Hypothesis Hwel : welcome cfg1 = welcome cfg2.
Hypothesis Hpos : 0 < exp cfg1.

Notation simT := (sim cfg1 cfg2 True).

(** one base event, the two logs *)
Lemma step_b_logs s1 s2 b :
  simT s1 s2 -> SInv s1 ->
  let '(t1, v1, x1) := step_b cfg1 (set_log s1 []) b in
  let '(t2, v2, x2) := step_b cfg2 (set_log s2 []) b in
  simX cfg1 cfg2 t1 t2 /\ v1 = v2 /\ x1 = x2 /\ HInv t1.
Proof.
  intros Hs H1.
  pose proof (simT_set_log_nil cfg1 cfg2 _ _ Hs) as Hs0.
  set (a1 := set_log s1 []) in *. set (a2 := set_log s2 []) in *.
  assert (Hx0 : simX cfg1 cfg2 a1 a2) by (apply sim_simX; [exact Hs0|reflexivity|reflexivity]).
  assert (H0 : HInv a1) by (split; [apply (SInv_same s1); auto|constructor]).
  pose proof (step_b_simX cfg1 cfg2 Hexp Hper Hwel a1 a2 b Hx0 (si_db _ H1)
                          (simT_same_firing cfg1 cfg2 a1 a2 (EB b) Hs0)) as K.
  pose proof (step_b_spec cfg1 Hpos a1 b H0) as W.
  destruct (step_b cfg1 a1 b) as [[t1 v1] x1]. destruct (step_b cfg2 a2 b) as [[t2 v2] x2].
  destruct K as (A & B & C). destruct W as (W & _). auto.
Qed.

(** the erased logs of the two runs, oldest first *)
Lemma simX_full t1 t2 :
  simX cfg1 cfg2 t1 t2 ->
  map mask_item (cview (rev (log t1))) = map mask_item (cview (rev (log t2))) /\
  (allow_list cfg1 = allow_list cfg2 -> cview (rev (log t1)) = cview (rev (log t2))).
Proof.
  intros Ht. rewrite !cview_rev, !map_rev. split.
  - f_equal. exact (sx_mask _ _ _ _ Ht).
  - intros K. f_equal. exact (sx_fl _ _ _ _ Ht K).
Qed.

(** ** the step theorem, state part: any two matching indices *)
Theorem crash_translate_step_any s1 s2 b k k' :
  simT s1 s2 -> SInv s1 -> crash_match cfg1 cfg2 s1 s2 b k k' ->
  let '(s1', o1) := step cfg1 s1 (ECrash k b) in
  let '(s2', o2) := step cfg2 s2 (ECrash k' b) in
  simT s1' s2' /\ o_exc o1 = o_exc o2 /\ o_valid o1 = o_valid o2 /\
  map mask_frame (frames_of (o_boot_log o1)) = map mask_frame (frames_of (o_boot_log o2)).
Proof.
  intros Hs H1 Hm. unfold crash_match in Hm. unfold step. cbv zeta.
  pose proof (step_b_logs s1 s2 b Hs H1) as K.
  destruct (step_b cfg1 (set_log s1 []) b) as [[t1 v1] x1].
  destruct (step_b cfg2 (set_log s2 []) b) as [[t2 v2] x2].
  destruct K as (Ht & <- & <- & [St Lt]).
  cbv zeta in Hm. destruct Hm as [[C1 C2]|(C1 & C2 & Hj)]; rewrite C1, C2.
  - (* both events complete *)
    assert (Hc : DbInv (chan_c t1)).
    { destruct (si_clean _ St) as [E _]. rewrite <- E. exact (si_db _ St). }
    rewrite <- (sx_c _ _ _ _ Ht), <- (sx_now _ _ _ _ Ht).
    pose proof (boot_sim cfg1 cfg2 Hexp Hper (chan_c t1) (usage_c t1) (usage_c t2) (now t1) Hc) as B.
    destruct (boot_on cfg1 (chan_c t1) (usage_c t1) (now t1)) as [[r1 bl1] y1].
    destruct (boot_on cfg2 (chan_c t1) (usage_c t2) (now t1)) as [[r2 bl2] y2].
    destruct B as (Br & _ & Bm). cbn [o_exc o_valid o_boot_log]. auto.
  - (* both processes die *)
    destruct (simX_full t1 t2 Ht) as [Em _].
    assert (Hc0 : DbInv (chan_c s1)).
    { destruct (si_clean _ H1) as [E _]. rewrite <- E. exact (si_db _ H1). }
    pose proof (crash_same_files (rev (log t1)) (rev (log t2)) k k' (chan_c s1) (usage_c s1) (usage_c s2)
                                 Em Hj) as Ef.
    pose proof (replay_commits_DbInv _ (chan_c s1) (usage_c s1)
                  (log_prefix_ok _ (Forall_rev_ok _ Lt) k) Hc0) as Hc.
    cbn [chan_c usage_c set_log]. rewrite <- (sim_c _ _ _ _ _ Hs).
    destruct (replay_commits (log_prefix k (rev (log t1))) (chan_c s1) (usage_c s1)) as [c1 u1].
    destruct (replay_commits (log_prefix k' (rev (log t2))) (chan_c s1) (usage_c s2)) as [c2 u2].
    cbn [fst] in Ef, Hc. subst c2. rewrite <- (sx_now _ _ _ _ Ht).
    pose proof (boot_sim cfg1 cfg2 Hexp Hper c1 u1 u2 (now t1) Hc) as B.
    destruct (boot_on cfg1 c1 u1 (now t1)) as [[r1 bl1] y1].
    destruct (boot_on cfg2 c1 u2 (now t1)) as [[r2 bl2] y2].
    destruct B as (Br & _ & Bm). cbn [o_exc o_valid o_boot_log]. auto.
Qed.

(** the translated index matches *)
Lemma translate_k_match s1 s2 b k :
  simT s1 s2 -> SInv s1 -> crash_match cfg1 cfg2 s1 s2 b k (translate_k cfg1 cfg2 s1 s2 k b).
Proof.
  intros Hs H1. unfold crash_match, translate_k.
  pose proof (step_b_logs s1 s2 b Hs H1) as K.
  destruct (step_b cfg1 (set_log s1 []) b) as [[t1 v1] x1].
  destruct (step_b cfg2 (set_log s2 []) b) as [[t2 v2] x2].
  destruct K as (Ht & <- & <- & _). cbv zeta.
  destruct ((count_commits (rev (log t1)) <? k)%nat || negb v1) eqn:C1.
  - left. split; [reflexivity|].
    assert (E : (count_commits (rev (log t2)) <? S (count_commits (rev (log t2))))%nat = true)
      by (apply Nat.ltb_lt; lia).
    rewrite E. reflexivity.
  - right. split; [reflexivity|].
    destruct (simX_full t1 t2 Ht) as [Em _].
    assert (Hj : (chan_commits_before (rev (log t1)) k <= nchan (rev (log t2)))%nat).
    { rewrite <- (nchan_masked _ _ Em). apply chan_commits_before_le. }
    split.
    + apply orb_false_iff in C1. destruct C1 as [_ C1]. rewrite C1, orb_false_r.
      apply Nat.ltb_ge. apply chan_pos_le.
    + symmetry. apply chan_commits_before_pos. exact Hj.
Qed.

(** ... and, for a well-formed event, it is the least index that does *)
Lemma translate_k_least s1 s2 b k k' :
  simT s1 s2 -> SInv s1 ->
  snd (fst (step_b cfg1 (set_log s1 []) b)) = true ->
  crash_match cfg1 cfg2 s1 s2 b k k' ->
  (translate_k cfg1 cfg2 s1 s2 k b <= k')%nat.
Proof.
  intros Hs H1 Hv. unfold crash_match, translate_k.
  pose proof (step_b_logs s1 s2 b Hs H1) as K.
  destruct (step_b cfg1 (set_log s1 []) b) as [[t1 v1] x1].
  destruct (step_b cfg2 (set_log s2 []) b) as [[t2 v2] x2].
  destruct K as (Ht & <- & <- & _). cbn [fst snd] in Hv. subst v1. cbv zeta.
  rewrite !orb_false_r. intros [[C1 C2]|(C1 & C2 & Hj)]; rewrite C1.
  - apply Nat.ltb_lt in C2. lia.
  - destruct (simX_full t1 t2 Ht) as [Em _].
    assert (Hle : (chan_commits_before (rev (log t1)) k <= nchan (rev (log t2)))%nat).
    { rewrite <- (nchan_masked _ _ Em). apply chan_commits_before_le. }
    destruct (Nat.le_gt_cases (chan_pos (rev (log t2)) (chan_commits_before (rev (log t1)) k)) k')
      as [L|L]; [exact L|exfalso].
    pose proof (chan_pos_least _ _ _ Hle L) as K. lia.
Qed.

(** ** the step theorem *)
Theorem crash_translate_step s1 s2 b k :
  simT s1 s2 -> SInv s1 ->
  let k' := translate_k cfg1 cfg2 s1 s2 k b in
  let '(s1', o1) := step cfg1 s1 (ECrash k b) in
  let '(s2', o2) := step cfg2 s2 (ECrash k' b) in
  simT s1' s2' /\ obs_agree_crash cfg1 cfg2 o1 o2 /\
  (* the logs themselves: same channel commits at the same places; run 1 may
     have sent more frames, and nothing else, before it died *)
  (exists r, only_frames r /\
     map mask_item (cview (o_log o1)) = map mask_item (cview (o_log o2)) ++ map mask_item r /\
     (allow_list cfg1 = allow_list cfg2 -> cview (o_log o1) = cview (o_log o2) ++ r)).
Proof.
  intros Hs H1 k'.
  pose proof (crash_translate_step_any s1 s2 b k k' Hs H1 (translate_k_match s1 s2 b k Hs H1)) as K.
  pose proof (step_crash_log cfg1 s1 k b) as L1. pose proof (step_crash_log cfg2 s2 k' b) as L2.
  destruct (step cfg1 s1 (ECrash k b)) as [s1' o1]. destruct (step cfg2 s2 (ECrash k' b)) as [s2' o2].
  cbn [snd] in L1, L2. destruct K as (A & B & C & D). split; [exact A|].
  assert (Hlog : exists r, only_frames r /\
     map mask_item (cview (o_log o1)) = map mask_item (cview (o_log o2)) ++ map mask_item r /\
     (allow_list cfg1 = allow_list cfg2 -> cview (o_log o1) = cview (o_log o2) ++ r)).
  { rewrite L1, L2. unfold crash_log, k', translate_k.
    pose proof (step_b_logs s1 s2 b Hs H1) as K.
    destruct (step_b cfg1 (set_log s1 []) b) as [[t1 v1] x1].
    destruct (step_b cfg2 (set_log s2 []) b) as [[t2 v2] x2].
    destruct K as (Ht & <- & <- & _). cbv zeta.
    destruct (simX_full t1 t2 Ht) as [Em Ef].
    destruct ((count_commits (rev (log t1)) <? k)%nat || negb v1) eqn:C1.
    - assert (E : (count_commits (rev (log t2)) <? S (count_commits (rev (log t2))))%nat = true)
        by (apply Nat.ltb_lt; lia).
      rewrite E. cbn [orb]. exists []. split; [intros d []|].
      cbn [map]. rewrite !app_nil_r. auto.
    - apply orb_false_iff in C1. destruct C1 as [_ C1]. rewrite C1, orb_false_r.
      assert (E : (count_commits (rev (log t2)) <?
                   chan_pos (rev (log t2)) (chan_commits_before (rev (log t1)) k))%nat = false)
        by (apply Nat.ltb_ge; apply chan_pos_le).
      rewrite E.
      destruct (crash_cut (rev (log t1)) (rev (log t2)) k Em) as (r & R1 & R2 & R3).
      exists r. split; [exact R1|]. split; [exact R2|]. intros Ka. exact (R3 (Ef Ka)). }
  split; [|exact Hlog].
  destruct Hlog as (r & R1 & R2 & R3).
  unfold obs_agree_crash. split; [|split; [|auto]].
  - exists (map mask_frame (rights r)).
    rewrite <- !rights_cview, <- !rights_mask, R2, rights_app. reflexivity.
  - intros Ka. exists (rights r). rewrite <- !rights_cview, (R3 Ka), rights_app. reflexivity.
Qed.

(** item 2 of the task in its existential form *)
Corollary crash_translate_step_ex s1 s2 b k :
  simT s1 s2 -> SInv s1 ->
  exists k',
    let '(s1', o1) := step cfg1 s1 (ECrash k b) in
    let '(s2', o2) := step cfg2 s2 (ECrash k' b) in
    simT s1' s2' /\ obs_agree_crash cfg1 cfg2 o1 o2.
Proof.
  intros Hs H1. exists (translate_k cfg1 cfg2 s1 s2 k b).
  pose proof (crash_translate_step s1 s2 b k Hs H1) as K. cbv zeta in K.
  destruct (step cfg1 s1 (ECrash k b)) as [s1' o1].
  destruct (step cfg2 s2 (ECrash (translate_k cfg1 cfg2 s1 s2 k b) b)) as [s2' o2].
  destruct K as (A & B & _). auto.
Qed.

(** * Part 3: histories *)

Definition translate_event (s1 s2 : state) (e : event) : event :=
  match e with
  | ECrash k b => ECrash (translate_k cfg1 cfg2 s1 s2 k b) b
  | _ => e
  end.

(** the history of the second run: the crash indices translated along the two runs *)
Fixpoint translate (s1 s2 : state) (h : list event) : list event :=
  match h with
  | [] => []
  | e :: h' =>
      let e' := translate_event s1 s2 e in
      e' :: translate (fst (step cfg1 s1 e)) (fst (step cfg2 s2 e')) h'
  end.

(** how the observations of one event agree: equal (masked) frames for plain
    events and restarts, prefix for crashes *)
Definition ev_agree (e : event) (o1 o2 : obs) : Prop :=
  match e with
  | ECrash _ _ => obs_agree_crash cfg1 cfg2 o1 o2
  | _ => obs_agree cfg1 cfg2 o1 o2
  end.

Lemma ev_agree_weak e o1 o2 : ev_agree e o1 o2 -> obs_agree_crash cfg1 cfg2 o1 o2.
Proof. destruct e; cbn [ev_agree]; auto using obs_agree_weaken. Qed.

Lemma step_simX_all s1 s2 e :
  simT s1 s2 -> SInv s1 ->
  let '(s1', o1) := step cfg1 s1 e in
  let '(s2', o2) := step cfg2 s2 (translate_event s1 s2 e) in
  simT s1' s2' /\ ev_agree e o1 o2.
Proof.
  intros Hs H1. destruct e as [b|k b|]; cbn [translate_event ev_agree].
  - exact (step_simR cfg1 cfg2 Hexp Hper Hwel s1 s2 (EB b) Hs H1 I).
  - pose proof (crash_translate_step s1 s2 b k Hs H1) as K. cbv zeta in K.
    destruct (step cfg1 s1 (ECrash k b)) as [s1' o1].
    destruct (step cfg2 s2 (ECrash (translate_k cfg1 cfg2 s1 s2 k b) b)) as [s2' o2].
    destruct K as (A & B & _). auto.
  - exact (step_simR cfg1 cfg2 Hexp Hper Hwel s1 s2 ERestart Hs H1 I).
Qed.

End Crash.

Inductive Forall3 {A B C} (P : A -> B -> C -> Prop) : list A -> list B -> list C -> Prop :=
| F3_nil : Forall3 P [] [] []
| F3_cons a b c la lb lc :
    P a b c -> Forall3 P la lb lc -> Forall3 P (a :: la) (b :: lb) (c :: lc).

(** the two histories differ in the indices of their crash events only *)
Definition same_but_index (e e' : event) : Prop :=
  match e, e' with
  | EB b, EB b' => b = b'
  | ECrash _ b, ECrash _ b' => b = b'
  | ERestart, ERestart => True
  | _, _ => False
  end.

Lemma translate_shape cfg1 cfg2 h : forall s1 s2,
  Forall2 same_but_index h (translate cfg1 cfg2 s1 s2 h).
Proof.
  induction h as [|e h IH]; intros s1 s2; cbn [translate]; constructor.
  - destruct e; cbn; auto.
  - apply IH.
Qed.

(** plain events and restarts are not touched: a history without crash is
    its own translation *)
Lemma translate_no_crash cfg1 cfg2 h : forall s1 s2,
  Forall no_crash h -> translate cfg1 cfg2 s1 s2 h = h.
Proof.
  induction h as [|e h IH]; intros s1 s2 Hh; [reflexivity|].
  inversion Hh as [|? ? He Hh']; subst. cbn [translate].
  destruct e as [b|k b|]; cbn [translate_event]; try (rewrite IH by exact Hh'; reflexivity).
  destruct He.
Qed.

Section Runs.
Variables cfg1 cfg2 : config.
Hypothesis Hexp : exp cfg1 = exp cfg2.
Hypothesis Hper : period cfg1 = period cfg2.
Hypothesis Hwel : welcome cfg1 = welcome cfg2.
Hypothesis Hpos : 0 < exp cfg1.

Theorem run_simX h : forall s1 s2,
  sim cfg1 cfg2 True s1 s2 -> SInv s1 ->
  let '(s1', os1) := run cfg1 s1 h in
  let '(s2', os2) := run cfg2 s2 (translate cfg1 cfg2 s1 s2 h) in
  sim cfg1 cfg2 True s1' s2' /\ Forall3 (ev_agree cfg1 cfg2) h os1 os2.
Proof.
  induction h as [|e h IH]; intros s1 s2 Hs H1; cbn [run translate].
  - split; [exact Hs|constructor].
  - pose proof (step_simX_all cfg1 cfg2 Hexp Hper Hwel Hpos s1 s2 e Hs H1) as K.
    pose proof (step_spec cfg1 Hpos s1 e H1) as S1.
    destruct (step cfg1 s1 e) as [t1 o1].
    destruct (step cfg2 s2 (translate_event cfg1 cfg2 s1 s2 e)) as [t2 o2].
    cbn [fst]. destruct K as [Ht Ho]. destruct S1 as (I1 & _).
    specialize (IH t1 t2 Ht I1).
    destruct (run cfg1 t1 h) as [u1 os1].
    destruct (run cfg2 t2 (translate cfg1 cfg2 t1 t2 h)) as [u2 os2].
    destruct IH as [A B]. split; [exact A|constructor; assumption].
Qed.

End Runs.

(** what the observation lists have in common *)
Lemma ev_agree_lists cfg1 cfg2 h os1 os2 :
  Forall3 (ev_agree cfg1 cfg2) h os1 os2 ->
  Forall2 (obs_agree_crash cfg1 cfg2) os1 os2 /\
  map o_exc os1 = map o_exc os2 /\
  map o_valid os1 = map o_valid os2 /\
  map (fun o => map mask_frame (frames_of (o_boot_log o))) os1 =
  map (fun o => map mask_frame (frames_of (o_boot_log o))) os2.
Proof.
  induction 1 as [|e o1 o2 h os1 os2 Ho _ IH]; cbn [map].
  - repeat split; constructor.
  - apply ev_agree_weak in Ho. destruct IH as (A' & C' & D' & E').
    pose proof Ho as (_ & _ & C & D & E).
    split; [constructor; assumption|]. split; [f_equal; assumption|].
    split; f_equal; assumption.
Qed.

(** * C18 for every history: the crash indices of the second run translated *)
Theorem config_erasure_translate cfg1 cfg2 t0 h :
  exp cfg1 = exp cfg2 -> period cfg1 = period cfg2 -> welcome cfg1 = welcome cfg2 ->
  0 < exp cfg1 ->
  let h' := translate cfg1 cfg2 (init cfg1 t0) (init cfg2 t0) h in
  let '(s1', os1) := run cfg1 (init cfg1 t0) h in
  let '(s2', os2) := run cfg2 (init cfg2 t0) h' in
  Forall2 same_but_index h h' /\
  view_of s1' = view_of s2' /\
  timer_start s1' = timer_start s2' /\ next_due s1' = next_due s2' /\
  Forall3 (ev_agree cfg1 cfg2) h os1 os2 /\
  Forall2 (obs_agree_crash cfg1 cfg2) os1 os2 /\
  map o_exc os1 = map o_exc os2 /\
  map o_valid os1 = map o_valid os2 /\
  map (fun o => map mask_frame (frames_of (o_boot_log o))) os1 =
  map (fun o => map mask_frame (frames_of (o_boot_log o))) os2.
Proof.
  intros Hexp Hper Hwel Hpos h'.
  pose proof (run_simX cfg1 cfg2 Hexp Hper Hwel Hpos h (init cfg1 t0) (init cfg2 t0)
                       (init_sim cfg1 cfg2 t0 Hexp Hper) (proj1 (init_spec cfg1 Hpos t0))) as K.
  fold h' in K.
  destruct (run cfg1 (init cfg1 t0) h) as [u1 os1]. destruct (run cfg2 (init cfg2 t0) h') as [u2 os2].
  destruct K as [A B]. pose proof (ev_agree_lists _ _ _ _ _ B) as (B1 & B2 & B3 & B4).
  destruct (sim_tm _ _ _ _ _ A I) as [T1 T2].
  split; [apply translate_shape|].
  split; [exact (sim_view _ _ _ _ _ A)|]. repeat (split; [assumption|]). assumption.
Qed.

Theorem config_erasure_with_crashes cfg1 cfg2 t0 h :
  exp cfg1 = exp cfg2 -> period cfg1 = period cfg2 -> welcome cfg1 = welcome cfg2 ->
  0 < exp cfg1 ->
  exists h',
    Forall2 same_but_index h h' /\
    let '(s1', os1) := run cfg1 (init cfg1 t0) h in
    let '(s2', os2) := run cfg2 (init cfg2 t0) h' in
    view_of s1' = view_of s2' /\
    timer_start s1' = timer_start s2' /\ next_due s1' = next_due s2' /\
    Forall3 (ev_agree cfg1 cfg2) h os1 os2 /\
    map o_exc os1 = map o_exc os2 /\
    map o_valid os1 = map o_valid os2 /\
    map (fun o => map mask_frame (frames_of (o_boot_log o))) os1 =
    map (fun o => map mask_frame (frames_of (o_boot_log o))) os2.
Proof.
  intros Hexp Hper Hwel Hpos.
  exists (translate cfg1 cfg2 (init cfg1 t0) (init cfg2 t0) h).
  pose proof (config_erasure_translate cfg1 cfg2 t0 h Hexp Hper Hwel Hpos) as K. cbv zeta in K.
  destruct (run cfg1 (init cfg1 t0) h) as [u1 os1].
  destruct (run cfg2 (init cfg2 t0) (translate cfg1 cfg2 (init cfg1 t0) (init cfg2 t0) h)) as [u2 os2].
  destruct K as (A & B & C & D & E & _ & F & G & H). auto 10.
Qed.

(** * Part 4: non-vacuity *)

Definition x_w : welcome_cfg := mkWelcome (Some "hello") None None.
(** listing allowed, usage database, blur *)
Definition x_c1 : config := gen_cfg_w true true (Some 56) x_w.
(** no listing, no usage database, no blur *)
Definition x_c2 : config := gen_cfg_w false false None x_w.
Definition x_o : oracle := mkOracle None (mkAO None []).
Definition x_od : oracle := mkOracle (Some "AAAAAAAA") (mkAO None []).
Definition x_bind (s : string) : command :=
  mkCmd (Some TBind) None (Some "a") (Some s) None None None None None None None.
Definition x_claim (n : string) : command :=
  mkCmd (Some TClaim) None None None (Some n) None None None None None None.
Definition x_release : command :=
  mkCmd (Some TRelease) None None None None None None None None None None.
Definition x_list : command :=
  mkCmd (Some TList) None None None None None None None None None None.

(** one client binds and claims nameplate 7; its `release` (it is the last
    claimer: mark, commit; delete, [usage row, usage commit], commit) is crashed
    at index k; a second client then binds, lists and claims 7 *)
Definition x_history (k : nat) : list event :=
  [EB (EConnect 1); EB (ECmd 1 (x_bind "s1") x_o); EB (ECmd 1 (x_claim "7") x_od);
   ECrash k (ECmd 1 x_release x_o);
   EB (EConnect 2); EB (ECmd 2 (x_bind "s2") x_o); EB (ECmd 2 x_list x_o);
   EB (ECmd 2 (x_claim "7") x_od)].

(** the kinds of the commits of the event at position n of a run *)
Definition x_kinds (r : state * list obs) (n : nat) : list bool :=
  map is_chan (filter is_commit (o_log (nth n (snd r) (mkObs true [] None [])))).
Definition x_frames (r : state * list obs) : list (list (nat * frame)) :=
  map (fun o => frames_of (o_log o)) (snd r).

(** with usage database -> without: k = 2 (right after the usage commit) is
    translated to k' = 1; the same index 2 would NOT do *)
Example crash_translate_nonvacuous :
  let h := x_history 2 in
  let h' := translate x_c1 x_c2 (init x_c1 0) (init x_c2 0) h in
  let r1 := run x_c1 (init x_c1 0) h in
  let r2 := run x_c2 (init x_c2 0) h' in
  let r2same := run x_c2 (init x_c2 0) h in
  (* the hypotheses of the theorem *)
  exp x_c1 = exp x_c2 /\ period x_c1 = period x_c2 /\ welcome x_c1 = welcome x_c2 /\ 0 < exp x_c1 /\
  (* the commits of the uncrashed `release`: channel, usage, channel / channel, channel *)
  x_kinds (run x_c1 (init x_c1 0) (x_history 9)) 3 = [true; false; true] /\
  x_kinds (run x_c2 (init x_c2 0) (x_history 9)) 3 = [true; true] /\
  (* the translation *)
  h' = x_history 1 /\
  (* the conclusion of the theorem, computed *)
  view_of (fst r1) = view_of (fst r2) /\
  next_due (fst r1) = next_due (fst r2) /\
  map (map mask_frame) (x_frames r1) = map (map mask_frame) (x_frames r2) /\
  map o_exc (snd r1) = map o_exc (snd r2) /\
  (* what the crash left on disk: the claim unmarked, the nameplate not yet deleted;
     the crashed client got its ack only; the second client sees the nameplate *)
  x_kinds r1 3 = [true; false] /\ x_kinds r2 3 = [true] /\
  nth 3 (x_frames r1) [] = [(1%nat, FAck None)] /\ nth 3 (x_frames r2) [] = [(1%nat, FAck None)] /\
  nth 6 (x_frames r1) [] = [(2%nat, FAck None); (2%nat, FNameplates ["7"])] /\
  nth 6 (x_frames r2) [] = [(2%nat, FAck None); (2%nat, FNameplates [])] /\
  map nps_claimed (np_sides (chan_c (fst r1))) = [false; true] /\
  (* the untranslated index denotes another instant: under the second configuration
     the second commit is the deletion *)
  view_of (fst r1) <> view_of (fst r2same) /\
  map nps_claimed (np_sides (chan_c (fst r2same))) = [true].
Proof.
  vm_compute. repeat split; try reflexivity. intros K. discriminate K.
Qed.

(** k = 3 (after the deletion is committed) is translated to k' = 2 *)
Example crash_translate_nonvacuous_3 :
  let h := x_history 3 in
  let h' := translate x_c1 x_c2 (init x_c1 0) (init x_c2 0) h in
  let r1 := run x_c1 (init x_c1 0) h in
  let r2 := run x_c2 (init x_c2 0) h' in
  h' = x_history 2 /\ view_of (fst r1) = view_of (fst r2) /\
  map (map mask_frame) (x_frames r1) = map (map mask_frame) (x_frames r2) /\
  map nps_claimed (np_sides (chan_c (fst r1))) = [true].
Proof. vm_compute. repeat split; reflexivity. Qed.

(** the degenerate direction, without usage database -> with: every commit of
    the first run is a channel commit, j = k; k = 1 stays 1, k = 2 becomes 3
    (index 2 of the second run has seen one channel commit only), an index past
    the end stays past the end *)
Example crash_translate_degenerate :
  let tr k := translate x_c2 x_c1 (init x_c2 0) (init x_c1 0) (x_history k) in
  let r1 k := run x_c2 (init x_c2 0) (x_history k) in
  let r2 k := run x_c1 (init x_c1 0) (tr k) in
  tr 0%nat = x_history 0 /\ tr 1%nat = x_history 1 /\ tr 2%nat = x_history 3 /\ tr 3%nat = x_history 4 /\
  view_of (fst (r1 1%nat)) = view_of (fst (r2 1%nat)) /\
  view_of (fst (r1 2%nat)) = view_of (fst (r2 2%nat)) /\
  map (map mask_frame) (x_frames (r1 1%nat)) = map (map mask_frame) (x_frames (r2 1%nat)) /\
  map (map mask_frame) (x_frames (r1 2%nat)) = map (map mask_frame) (x_frames (r2 2%nat)) /\
  map nps_claimed (np_sides (chan_c (fst (r1 1%nat)))) = [false; true] /\
  map nps_claimed (np_sides (chan_c (fst (r1 2%nat)))) = [true] /\
  (* both indices 1 and 2 of the second run match index 1 of the first *)
  view_of (fst (run x_c1 (init x_c1 0) (x_history 2))) = view_of (fst (r1 1%nat)).
Proof. vm_compute. repeat split; reflexivity. Qed.

(** equality of the frames of a crashed event is false for the least matching
    index: `bind` under the configuration with usage database sends its ack and
    then commits the client-version row; crashed there (k = 1) the client has its
    ack, no channel commit has happened, k' = 0, and the second run dies before
    the event: no ack.  (Here the index k' = 1 -- the event completes, the process
    dies afterwards -- has equal frames and the same files; it is not the least.) *)
Example crash_frames_equal_refuted :
  let s1 := fst (run x_c1 (init x_c1 0) [EB (EConnect 1)]) in
  let s2 := fst (run x_c2 (init x_c2 0) [EB (EConnect 1)]) in
  let b := ECmd 1 (x_bind "s1") x_o in
  let r1 := step x_c1 s1 (ECrash 1 b) in
  let r2 := step x_c2 s2 (ECrash (translate_k x_c1 x_c2 s1 s2 1 b) b) in
  let r2' := step x_c2 s2 (ECrash 1 b) in
  sim x_c1 x_c2 True s1 s2 /\ SInv s1 /\
  translate_k x_c1 x_c2 s1 s2 1 b = 0%nat /\
  frames_of (o_log (snd r1)) = [(1%nat, FAck None)] /\
  frames_of (o_log (snd r2)) = [] /\
  ~ obs_agree x_c1 x_c2 (snd r1) (snd r2) /\
  obs_agree_crash x_c1 x_c2 (snd r1) (snd r2) /\
  view_of (fst r1) = view_of (fst r2) /\
  obs_agree x_c1 x_c2 (snd r1) (snd r2') /\ view_of (fst r1) = view_of (fst r2').
Proof.
  cbv zeta.
  assert (Hs : sim x_c1 x_c2 True (fst (run x_c1 (init x_c1 0) [EB (EConnect 1)]))
                                  (fst (run x_c2 (init x_c2 0) [EB (EConnect 1)]))).
  { pose proof (run_simR x_c1 x_c2 eq_refl eq_refl eq_refl gen_exp_pos [EB (EConnect 1)]
                  (init x_c1 0) (init x_c2 0) (init_sim x_c1 x_c2 0 eq_refl eq_refl)
                  (proj1 (init_spec x_c1 gen_exp_pos 0)) ltac:(repeat constructor)) as K.
    destruct (run x_c1 (init x_c1 0) [EB (EConnect 1)]) as [u1 os1].
    destruct (run x_c2 (init x_c2 0) [EB (EConnect 1)]) as [u2 os2]. exact (proj1 K). }
  split; [exact Hs|].
  split; [exact (proj1 (run_spec x_c1 gen_exp_pos (init x_c1 0) [EB (EConnect 1)]
                          (proj1 (init_spec x_c1 gen_exp_pos 0))))|].
  split; [vm_compute; reflexivity|]. split; [vm_compute; reflexivity|].
  split; [vm_compute; reflexivity|].
  split; [intros (A & _); vm_compute in A; discriminate A|].
  split.
  { split; [exists [(1%nat, FAck None)]; vm_compute; reflexivity|].
    split; [intros K; vm_compute in K; discriminate K|].
    vm_compute. repeat split; reflexivity. }
  split; [vm_compute; reflexivity|].
  split; [|vm_compute; reflexivity].
  split; [vm_compute; reflexivity|]. split; [intros K; vm_compute in K; discriminate K|].
  vm_compute. repeat split; reflexivity.
Qed.

Print Assumptions log_prefix_split.
Print Assumptions log_prefix_chan_pos.
Print Assumptions chan_commits_before_pos.
Print Assumptions chan_pos_least.
Print Assumptions crash_same_files.
Print Assumptions crash_cut.
Print Assumptions step_b_simX.
Print Assumptions simX_sim.
Print Assumptions step_crash_log.
Print Assumptions step_b_logs.
Print Assumptions crash_translate_step_any.
Print Assumptions translate_k_match.
Print Assumptions translate_k_least.
Print Assumptions crash_translate_step.
Print Assumptions crash_translate_step_ex.
Print Assumptions step_simX_all.
Print Assumptions translate_shape.
Print Assumptions translate_no_crash.
Print Assumptions run_simX.
Print Assumptions config_erasure_translate.
Print Assumptions config_erasure_with_crashes.
Print Assumptions crash_translate_nonvacuous.
Print Assumptions crash_translate_nonvacuous_3.
Print Assumptions crash_translate_degenerate.
Print Assumptions crash_frames_equal_refuted.
