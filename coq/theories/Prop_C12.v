(** Prop_C12.v -- C12: expiry never removes a channel that is active or has a subscriber. *)
From MW Require Import Base Store Monad Usage Server Websocket Service Inv Obs
     StepFacts SweepFacts Corollaries Inst_Params Inst_Timer.
From MWGen Require GenParams.
Local Open Scope list_scope.

(** the complete effect of a non-faulty sweep at time [now s] (cut-off
    [now s - exp]) on any well-formed state, for every positive expiration time:
    a subscribed mailbox is kept and stamped; an unsubscribed one is kept,
    unchanged, iff updated after the cut-off; nameplates, side rows and messages
    survive exactly when their mailbox does; nothing else changes *)
Theorem C12_sweep_exact :
  forall cfg, 0 < exp cfg -> forall s, SInv s -> log s = [] ->
  exists s',
    expire cfg false s = Ok tt s' /\
    let d := chan_w s in
    let d' := chan_w s' in
    let old := now s - exp cfg in
    (forall r, In r (mailboxes d') <->
       (In r (mailboxes d) /\ ~ listened s (mb_app r) (mb_id r) /\ old < mb_updated r) \/
       (exists r0, In r0 (mailboxes d) /\ listened s (mb_app r0) (mb_id r0) /\
                   r = mkMb (mb_app r0) (mb_id r0) (now s) (mb_fornp r0))) /\
    (forall n, In n (nameplates d') <-> In n (nameplates d) /\ SweepFacts.mb_alive d' (np_mbox n)) /\
    (forall x, In x (np_sides d') <->
               In x (np_sides d) /\ exists n, In n (nameplates d') /\ np_id n = nps_npid x) /\
    (forall x, In x (mb_sides d') <-> In x (mb_sides d) /\ SweepFacts.mb_alive d' (mbs_mbox x)) /\
    (forall x, In x (messages d') <-> In x (messages d) /\ SweepFacts.mb_alive d' (msg_mbox x)) /\
    np_seq d' = np_seq d /\
    chan_c s' = chan_w s' /\ subs s' = subs s /\ conns s' = conns s /\ now s' = now s.
Proof. exact sweep_char. Qed.
Print Assumptions C12_sweep_exact.

(** a mailbox that saw activity within the expiration time before the sweep
    (every claim / allocate / open / add stamps [updated] with the arrival time:
    MbFactsA.open_db, add_effect, NpFactsA.claim_outcome) or that has a
    subscriber survives with all its side rows, all its messages, the nameplate
    pointing at it and that nameplate's side rows, in whatever app, whatever
    else is swept *)
Theorem C12_sweep_spares :
  forall cfg, 0 < exp cfg -> forall s s' r,
  SInv s -> log s = [] -> expire cfg false s = Ok tt s' ->
  In r (mailboxes (chan_w s)) ->
  (now s - exp cfg < mb_updated r \/ listened s (mb_app r) (mb_id r)) ->
  (exists r', In r' (mailboxes (chan_w s')) /\ mb_app r' = mb_app r /\ mb_id r' = mb_id r /\
              mb_fornp r' = mb_fornp r /\
              (listened s (mb_app r) (mb_id r) -> mb_updated r' = now s) /\
              (~ listened s (mb_app r) (mb_id r) -> r' = r)) /\
  (forall x, In x (mb_sides (chan_w s)) -> mbs_mbox x = mb_id r -> In x (mb_sides (chan_w s'))) /\
  (forall x, In x (messages (chan_w s)) -> msg_mbox x = mb_id r -> In x (messages (chan_w s'))) /\
  (forall n, In n (nameplates (chan_w s)) -> np_mbox n = mb_id r ->
             In n (nameplates (chan_w s')) /\
             forall x, In x (np_sides (chan_w s)) -> nps_npid x = np_id n -> In x (np_sides (chan_w s'))).
Proof. exact sweep_spares. Qed.
Print Assumptions C12_sweep_spares.

(** a sweep whose first database access fails leaves the channel database alone *)
Theorem C12_faulty_sweep_harmless :
  forall cfg, 0 < exp cfg -> forall s, SInv s -> log s = [] ->
  exists s', expire cfg true s = Ok tt s' /\ chan_w s' = chan_w s /\ chan_c s' = chan_c s /\
             subs s' = subs s /\ conns s' = conns s.
Proof. exact sweep_fault. Qed.
Print Assumptions C12_faulty_sweep_harmless.

(** the repository's constants: expiration 11 min > period 5 min > 0 *)
Example C12_constants_ok : params_ok GenParams.gen_exp GenParams.gen_period = true.
Proof. exact gen_params_ok. Qed.
