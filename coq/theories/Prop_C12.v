(** Prop_C12.v -- C12: expiry never removes a channel that is active or has a subscriber. *)
From MW Require Import Base Store Monad Usage Server Websocket Service Inv Obs
     StepFacts SweepFacts Corollaries Inst_Params Inst_Timer ActivityFacts ArrivalFacts.
From MWGen Require GenParams.
Local Open Scope list_scope.

(** the complete effect of a non-faulty sweep at time [now s] (cut-off
    [now s - exp]) on any well-formed state, for every positive expiration time:
    a subscribed mailbox is kept and stamped; an unsubscribed one is kept,
    unchanged, iff updated after the cut-off; nameplates, side rows and messages
    survive exactly when their mailbox does; nothing else changes *)
Theorem C12_sweep_exact :
  forall cfg, 0 < exp cfg -> forall s, SInv s -> log s = [] ->
  exists s',
    expire cfg false s = Ok tt s' /\
    let d := chan_w s in
    let d' := chan_w s' in
    let old := now s - exp cfg in
    (forall r, In r (mailboxes d') <->
       (In r (mailboxes d) /\ ~ listened s (mb_app r) (mb_id r) /\ old < mb_updated r) \/
       (exists r0, In r0 (mailboxes d) /\ listened s (mb_app r0) (mb_id r0) /\
                   r = mkMb (mb_app r0) (mb_id r0) (now s) (mb_fornp r0))) /\
    (forall n, In n (nameplates d') <-> In n (nameplates d) /\ SweepFacts.mb_alive d' (np_mbox n)) /\
    (forall x, In x (np_sides d') <->
               In x (np_sides d) /\ exists n, In n (nameplates d') /\ np_id n = nps_npid x) /\
    (forall x, In x (mb_sides d') <-> In x (mb_sides d) /\ SweepFacts.mb_alive d' (mbs_mbox x)) /\
    (forall x, In x (messages d') <-> In x (messages d) /\ SweepFacts.mb_alive d' (msg_mbox x)) /\
    np_seq d' = np_seq d /\
    chan_c s' = chan_w s' /\ subs s' = subs s /\ conns s' = conns s /\ now s' = now s.
Proof. exact sweep_char. Qed.
Print Assumptions C12_sweep_exact.

(** a mailbox that saw activity within the expiration time before the sweep
    (every claim / allocate / open / add stamps [updated] with the arrival time:
    MbFactsA.open_db, add_effect, NpFactsA.claim_outcome) or that has a
    subscriber survives with all its side rows, all its messages, the nameplate
    pointing at it and that nameplate's side rows, in whatever app, whatever
    else is swept *)
Theorem C12_sweep_spares :
  forall cfg, 0 < exp cfg -> forall s s' r,
  SInv s -> log s = [] -> expire cfg false s = Ok tt s' ->
  In r (mailboxes (chan_w s)) ->
  (now s - exp cfg < mb_updated r \/ listened s (mb_app r) (mb_id r)) ->
  (exists r', In r' (mailboxes (chan_w s')) /\ mb_app r' = mb_app r /\ mb_id r' = mb_id r /\
              mb_fornp r' = mb_fornp r /\
              (listened s (mb_app r) (mb_id r) -> mb_updated r' = now s) /\
              (~ listened s (mb_app r) (mb_id r) -> r' = r)) /\
  (forall x, In x (mb_sides (chan_w s)) -> mbs_mbox x = mb_id r -> In x (mb_sides (chan_w s'))) /\
  (forall x, In x (messages (chan_w s)) -> msg_mbox x = mb_id r -> In x (messages (chan_w s'))) /\
  (forall n, In n (nameplates (chan_w s)) -> np_mbox n = mb_id r ->
             In n (nameplates (chan_w s')) /\
             forall x, In x (np_sides (chan_w s)) -> nps_npid x = np_id n -> In x (np_sides (chan_w s'))).
Proof. exact sweep_spares. Qed.
Print Assumptions C12_sweep_spares.

(** a sweep whose first database access fails leaves the channel database alone *)
Theorem C12_faulty_sweep_harmless :
  forall cfg, 0 < exp cfg -> forall s, SInv s -> log s = [] ->
  exists s', expire cfg true s = Ok tt s' /\ chan_w s' = chan_w s /\ chan_c s' = chan_c s /\
             subs s' = subs s /\ conns s' = conns s.
Proof. exact sweep_fault. Qed.
Print Assumptions C12_faulty_sweep_harmless.

(** the repository's constants: expiration 11 min > period 5 min > 0 *)
(** ** activity is what the stamp records (ActivityFacts.v)

    A served claim, allocate, open or add concerning a mailbox leaves its row stamped with
    the arrival time; a stamp never decreases over any event (restarts and crashes included);
    so a mailbox that saw such activity at time t survives -- with its messages, side
    records and nameplate -- every sweep that fires before t + exp, whatever history lies in
    between; and a subscribed mailbox survives every sweep and is re-stamped by it. *)
Theorem C12_activity_stamps : ltac:(let t := type of activity_stamps in exact t).
Proof. exact activity_stamps. Qed.
Check C12_activity_stamps.
Print Assumptions C12_activity_stamps.

Theorem C12_updated_monotone : ltac:(let t := type of updated_monotone_run in exact t).
Proof. exact updated_monotone_run. Qed.
Check C12_updated_monotone.
Print Assumptions C12_updated_monotone.

Theorem C12_recently_active_survives : ltac:(let t := type of recently_active_survives in exact t).
Proof. exact recently_active_survives. Qed.
Check C12_recently_active_survives.
Print Assumptions C12_recently_active_survives.

Theorem C12_active_within_exp_survives_reachable : ltac:(let t := type of C12_active_within_exp_survives in exact t).
Proof. exact C12_active_within_exp_survives. Qed.
Check C12_active_within_exp_survives_reachable.
Print Assumptions C12_active_within_exp_survives_reachable.

Theorem C12_subscriber_survives : ltac:(let t := type of subscriber_survives in exact t).
Proof. exact subscriber_survives. Qed.
Check C12_subscriber_survives.
Print Assumptions C12_subscriber_survives.

(** "a client may be away for at least the expiration time minus one sweep period": a
    mailbox stamped at t is spared by every sweep up to t + (exp - period) (indeed up to
    t + exp); and a client that WAS subscribed (its mailbox is re-stamped by every sweep
    while it stays, so the stamp is at most one period old when it leaves) may be away for
    exp - period from the moment it leaves -- provided the sweeps before did not fail
    ([timer_fault_free]; [stale_after_faulty_sweeps] is the counterexample otherwise) *)
Theorem C12_away_time : ltac:(let t := type of away_time in exact t).
Proof. exact away_time. Qed.
Check C12_away_time.
Print Assumptions C12_away_time.

Theorem C12_away_time_subscribed : ltac:(let t := type of away_time_subscribed in exact t).
Proof. exact away_time_subscribed. Qed.
Check C12_away_time_subscribed.
Print Assumptions C12_away_time_subscribed.

Example C12_stale_after_faulty_sweeps : ltac:(let t := type of stale_after_faulty_sweeps in exact t).
Proof. exact stale_after_faulty_sweeps. Qed.


Example C12_constants_ok : params_ok GenParams.gen_exp GenParams.gen_period = true.
Proof. exact gen_params_ok. Qed.

(** * the periodic timer's own sweeps (quoted by type from ArrivalFacts.v) *)

(** the away-time bound at a timer firing inside a clock advance *)
Theorem C12_away_time_timer : ltac:(let t := type of away_time_timer in exact t).
Proof. exact away_time_timer. Qed.
Check C12_away_time_timer.
Print Assumptions C12_away_time_timer.

(** ... for a client that was subscribed *)
Theorem C12_away_time_subscribed_timer : ltac:(let t := type of away_time_subscribed_timer in exact t).
Proof. exact away_time_subscribed_timer. Qed.
Check C12_away_time_subscribed_timer.
Print Assumptions C12_away_time_subscribed_timer.

(** a subscribed mailbox survives the timer's sweep and is re-stamped *)
Theorem C12_subscriber_survives_timer : ltac:(let t := type of subscriber_survives_timer in exact t).
Proof. exact subscriber_survives_timer. Qed.
Check C12_subscriber_survives_timer.
Print Assumptions C12_subscriber_survives_timer.

(** (at a run-end state) *)
Theorem C12_subscriber_survives_timer_run : ltac:(let t := type of subscriber_survives_timer_run in exact t).
Proof. exact subscriber_survives_timer_run. Qed.
Check C12_subscriber_survives_timer_run.
Print Assumptions C12_subscriber_survives_timer_run.

(** non-vacuity *)
Theorem C12_timer_forms_nonvacuous : ltac:(let t := type of timer_forms_nonvacuous in exact t).
Proof. exact timer_forms_nonvacuous. Qed.
Check C12_timer_forms_nonvacuous.
Print Assumptions C12_timer_forms_nonvacuous.

