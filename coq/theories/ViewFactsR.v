(** ViewFactsR.v -- C18, closed history-level form.

    ViewFacts.v proves the two-run congruence for histories of plain events and
    with the firing condition of the sweep timer as a hypothesis
    ([same_firing_run]).  Here that hypothesis is discharged -- with equal check
    periods the two timers stay in lock step, which is part of the invariant
    ([sim _ _ True]: view, timer start, next due instant) -- and the histories
    may contain clean restarts ([ERestart]) and crashes before an event
    ([ECrash 0 b]): both boot the two processes from their committed channel
    databases, which the view relates, and the start-up sweep is [expire false],
    whose channel effect is configuration-free (Part 1 of ViewFacts.v).

    Crashes after the k-th commit, k > 0, stay excluded: the position of a
    channel commit in the commit sequence of an event depends on the
    configuration (usage commits are interleaved), so [ECrash (S k) b] does not
    denote the same instant in the two runs. *)
From MW Require Import Base Store Monad Usage Server Websocket Service Findings
     Inv StoreFacts UsageFacts Hoare DbFactsA DbFactsB OpFacts ProtoFacts Obs StepFacts
     ViewFacts Inst_Params.
Local Open Scope list_scope.

(** no crash at all *)
Definition no_crash (e : event) : Prop :=
  match e with ECrash _ _ => False | _ => True end.

(** no crash after a commit: [ECrash 0 b] (die before [b]) is allowed *)
Definition early_crash (e : event) : Prop :=
  match e with ECrash (S _) _ => False | _ => True end.

Lemma no_crash_early e : no_crash e -> early_crash e.
Proof. destruct e as [b|k b|]; cbn; auto. intros []. Qed.

Lemma plain_no_crash e : plain e -> no_crash e.
Proof. destruct e; cbn; auto. Qed.

(** what two observations have in common *)
Definition obs_agree (cfg1 cfg2 : config) (o1 o2 : obs) : Prop :=
  map mask_frame (frames_of (o_log o1)) = map mask_frame (frames_of (o_log o2)) /\
  (allow_list cfg1 = allow_list cfg2 -> frames_of (o_log o1) = frames_of (o_log o2)) /\
  o_exc o1 = o_exc o2 /\ o_valid o1 = o_valid o2 /\
  map mask_frame (frames_of (o_boot_log o1)) = map mask_frame (frames_of (o_boot_log o2)).

(** an ignored event leaves the state alone *)
Lemma step_b_invalid cfg s b t x : step_b cfg s b = (t, false, x) -> t = s /\ x = None.
Proof.
  destruct b as [c|c m o|c|fault|dt fault]; unfold step_b.
  - destruct (has_conn c s); [intros K; inversion K; auto|].
    destruct (run_m (on_open cfg c) _) as [u y]. intros K; inversion K.
  - destruct (has_conn c s); [|intros K; inversion K; auto].
    destruct (on_message cfg c m o s); intros K; inversion K.
  - destruct (has_conn c s); intros K; inversion K; auto.
  - destruct (run_m (expire cfg fault) s) as [u y]. intros K; inversion K.
  - destruct (dt <? 0); [intros K; inversion K; auto|]. cbv zeta.
    destruct (next_due (set_now s (now s + dt)) <=? now (set_now s (now s + dt))).
    + destruct (run_m (expire cfg fault) _) as [u y]. intros K; inversion K.
    + intros K; inversion K.
Qed.

Lemma ltb_0 n : (n <? 0)%nat = false.
Proof. reflexivity. Qed.

Lemma log_prefix_0 l : log_prefix 0 l = [].
Proof. destruct l; reflexivity. Qed.

Section Two.
Variables cfg1 cfg2 : config.
Hypothesis Hexp : exp cfg1 = exp cfg2.
Hypothesis Hper : period cfg1 = period cfg2.
Hypothesis Hwel : welcome cfg1 = welcome cfg2.

Notation simT := (sim cfg1 cfg2 True).

Lemma simT_set_log_nil s1 s2 : simT s1 s2 -> simT (set_log s1 []) (set_log s2 []).
Proof. intros Hs. destruct Hs. constructor; cbn; auto. Qed.

(** the timers of related states fire together *)
Lemma simT_same_firing s1 s2 e : simT s1 s2 -> same_firing s1 s2 e.
Proof.
  intros Hs. destruct e as [b|k b|]; cbn [same_firing]; try exact I.
  destruct b; try exact I.
  destruct (sim_tm _ _ _ _ _ Hs I) as [_ K]. rewrite K, (sim_now _ _ _ _ _ Hs). reflexivity.
Qed.

(** ** process start: same committed channel database, same instant, any usage databases *)
Lemma boot_sim c u1 u2 t :
  DbInv c ->
  let '(s1, bl1, x1) := boot_on cfg1 c u1 t in
  let '(s2, bl2, x2) := boot_on cfg2 c u2 t in
  simT s1 s2 /\ x1 = x2 /\
  map mask_frame (frames_of bl1) = map mask_frame (frames_of bl2).
Proof.
  intros Hdb. rewrite !boot_on_eq.
  set (s01 := mkState c c u1 u1 [] [] t t t (t + period cfg1) []).
  set (s02 := mkState c c u2 u2 [] [] t t t (t + period cfg2) []).
  assert (Hs : simT s01 s02).
  { constructor; unfold s01, s02; cbn; auto. intros _. rewrite Hper. auto. }
  pose proof (R_expire cfg1 cfg2 True Hexp false s01 s02 Hs Hdb) as K.
  destruct (expire cfg1 false s01) as [a1 t1|e1 t1], (expire cfg2 false s02) as [a2 t2|e2 t2];
    try (exfalso; exact K).
  - destruct K as (_ & Kt & _). split; [apply simT_set_log_nil; exact Kt|].
    split; [reflexivity|]. rewrite !frames_of_rev, !map_rev. f_equal. exact (sim_mask _ _ _ _ _ Kt).
  - destruct K as (<- & Kt). split; [apply simT_set_log_nil; exact Kt|].
    split; [reflexivity|]. rewrite !frames_of_rev, !map_rev. f_equal. exact (sim_mask _ _ _ _ _ Kt).
Qed.

(** ** one event: plain, restart, or crash before the event *)
Lemma step_simR s1 s2 e :
  simT s1 s2 -> SInv s1 -> early_crash e ->
  let '(s1', o1) := step cfg1 s1 e in
  let '(s2', o2) := step cfg2 s2 e in
  simT s1' s2' /\ obs_agree cfg1 cfg2 o1 o2.
Proof.
  intros Hs H1 He.
  assert (Hdbw : DbInv (chan_w s1)) by exact (si_db _ H1).
  assert (Hdbc : DbInv (chan_c s1)).
  { destruct (si_clean _ H1) as [E _]. rewrite <- E. exact Hdbw. }
  destruct e as [b|k b|].
  - (* plain *)
    pose proof (step_sim cfg1 cfg2 True Hexp (fun _ => Hper) Hwel s1 s2 b Hs Hdbw
                         (simT_same_firing s1 s2 (EB b) Hs)) as K.
    assert (B1 : o_boot_log (snd (step cfg1 s1 (EB b))) = []).
    { unfold step. cbv zeta. destruct (step_b cfg1 (set_log s1 []) b) as [[? ?] ?]. reflexivity. }
    assert (B2 : o_boot_log (snd (step cfg2 s2 (EB b))) = []).
    { unfold step. cbv zeta. destruct (step_b cfg2 (set_log s2 []) b) as [[? ?] ?]. reflexivity. }
    destruct (step cfg1 s1 (EB b)) as [t1 o1]. destruct (step cfg2 s2 (EB b)) as [t2 o2].
    cbn [snd] in B1, B2.
    destruct K as (A & B & C & D & E). split; [exact A|].
    unfold obs_agree. rewrite B1, B2. auto.
  - (* crash *)
    destruct k as [|k]; [|destruct He].
    unfold step. cbv zeta.
    pose proof (simT_set_log_nil _ _ Hs) as Hs0.
    set (a1 := set_log s1 []) in *. set (a2 := set_log s2 []) in *.
    pose proof (step_b_sim cfg1 cfg2 True Hexp (fun _ => Hper) Hwel a1 a2 b Hs0 Hdbw
                           (simT_same_firing a1 a2 (EB b) Hs0)) as K.
    destruct (step_b cfg1 a1 b) as [[t1 v1] x1] eqn:E1.
    destruct (step_b cfg2 a2 b) as [[t2 v2] x2] eqn:E2.
    destruct K as (Ht & <- & <-). rewrite !ltb_0. cbn [orb].
    destruct v1; cbn [negb].
    + (* the event would have been processed: nothing of it happened *)
      rewrite !log_prefix_0. cbn [replay_commits].
      assert (Ec : chan_c a2 = chan_c a1) by (symmetry; exact (sim_c _ _ _ _ _ Hs0)).
      rewrite Ec, <- (sim_now _ _ _ _ _ Ht).
      pose proof (boot_sim (chan_c a1) (usage_c a1) (usage_c a2) (now t1) Hdbc) as B.
      destruct (boot_on cfg1 (chan_c a1) (usage_c a1) (now t1)) as [[r1 bl1] y1].
      destruct (boot_on cfg2 (chan_c a1) (usage_c a2) (now t1)) as [[r2 bl2] y2].
      destruct B as (Br & _ & Bm). split; [exact Br|].
      unfold obs_agree. cbn [o_log o_exc o_valid o_boot_log frames_of map]. auto.
    + (* ill-formed event: ignored, then the crash *)
      destruct (step_b_invalid _ _ _ _ _ E1) as [-> ->].
      destruct (step_b_invalid _ _ _ _ _ E2) as [-> _].
      assert (Ec : chan_c a2 = chan_c a1) by (symmetry; exact (sim_c _ _ _ _ _ Hs0)).
      rewrite Ec, <- (sim_now _ _ _ _ _ Hs0).
      pose proof (boot_sim (chan_c a1) (usage_c a1) (usage_c a2) (now a1) Hdbc) as B.
      destruct (boot_on cfg1 (chan_c a1) (usage_c a1) (now a1)) as [[r1 bl1] y1].
      destruct (boot_on cfg2 (chan_c a1) (usage_c a2) (now a1)) as [[r2 bl2] y2].
      destruct B as (Br & _ & Bm). split; [exact Br|].
      unfold obs_agree, a1, a2. cbn [o_log o_exc o_valid o_boot_log log set_log rev frames_of map].
      auto.
  - (* restart *)
    unfold step. cbv zeta.
    pose proof (simT_set_log_nil _ _ Hs) as Hs0.
    set (a1 := set_log s1 []) in *. set (a2 := set_log s2 []) in *.
    assert (Ec : chan_c a2 = chan_c a1) by (symmetry; exact (sim_c _ _ _ _ _ Hs0)).
    rewrite Ec, <- (sim_now _ _ _ _ _ Hs0).
    pose proof (boot_sim (chan_c a1) (usage_c a1) (usage_c a2) (now a1) Hdbc) as B.
    destruct (boot_on cfg1 (chan_c a1) (usage_c a1) (now a1)) as [[r1 bl1] y1].
    destruct (boot_on cfg2 (chan_c a1) (usage_c a2) (now a1)) as [[r2 bl2] y2].
    destruct B as (Br & Bx & Bm). split; [exact Br|].
    unfold obs_agree. cbn [o_log o_exc o_valid o_boot_log frames_of map]. auto.
Qed.

(** ** whole histories from related states *)
Hypothesis Hpos : 0 < exp cfg1.

Theorem run_simR h : forall s1 s2,
  simT s1 s2 -> SInv s1 -> Forall early_crash h ->
  let '(s1', os1) := run cfg1 s1 h in
  let '(s2', os2) := run cfg2 s2 h in
  simT s1' s2' /\ Forall2 (obs_agree cfg1 cfg2) os1 os2.
Proof.
  induction h as [|e h IH]; intros s1 s2 Hs H1 Hh; cbn [run].
  - split; [exact Hs|constructor].
  - inversion Hh as [|? ? He Hh']; subst.
    pose proof (step_simR s1 s2 e Hs H1 He) as K.
    pose proof (step_spec cfg1 Hpos s1 e H1) as S1.
    destruct (step cfg1 s1 e) as [t1 o1]. destruct (step cfg2 s2 e) as [t2 o2].
    destruct K as [Ht Ho]. destruct S1 as (I1 & _).
    specialize (IH t1 t2 Ht I1 Hh').
    destruct (run cfg1 t1 h) as [u1 os1]. destruct (run cfg2 t2 h) as [u2 os2].
    destruct IH as [A B]. split; [exact A|constructor; assumption].
Qed.

End Two.

(** ** the conclusion of [run_view_congruence] from pointwise agreement *)
Lemma obs_agree_lists cfg1 cfg2 os1 os2 :
  Forall2 (obs_agree cfg1 cfg2) os1 os2 ->
  map (fun o => map mask_frame (frames_of (o_log o))) os1 =
  map (fun o => map mask_frame (frames_of (o_log o))) os2 /\
  (allow_list cfg1 = allow_list cfg2 ->
   map (fun o => frames_of (o_log o)) os1 = map (fun o => frames_of (o_log o)) os2) /\
  map o_exc os1 = map o_exc os2 /\
  map o_valid os1 = map o_valid os2 /\
  map (fun o => map mask_frame (frames_of (o_boot_log o))) os1 =
  map (fun o => map mask_frame (frames_of (o_boot_log o))) os2.
Proof.
  induction 1 as [|o1 o2 l1 l2 Ho _ IH]; cbn [map].
  - repeat split; reflexivity.
  - destruct Ho as (A & B & C & D & E). destruct IH as (A' & B' & C' & D' & E').
    split; [f_equal; assumption|]. split; [intros K; f_equal; auto|].
    split; [f_equal; assumption|]. split; f_equal; assumption.
Qed.

(** * the initial states *)
Theorem init_sim cfg1 cfg2 t0 :
  exp cfg1 = exp cfg2 -> period cfg1 = period cfg2 ->
  sim cfg1 cfg2 True (init cfg1 t0) (init cfg2 t0).
Proof.
  intros Hexp Hper. unfold init.
  pose proof (boot_sim cfg1 cfg2 Hexp Hper empty_chan empty_usage empty_usage t0 DbInv_empty) as B.
  destruct (boot_on cfg1 empty_chan empty_usage t0) as [[s1 bl1] x1].
  destruct (boot_on cfg2 empty_chan empty_usage t0) as [[s2 bl2] x2].
  cbn [fst]. destruct B as (B & _). exact B.
Qed.

Theorem init_view cfg1 cfg2 t0 :
  exp cfg1 = exp cfg2 -> period cfg1 = period cfg2 ->
  view_of (init cfg1 t0) = view_of (init cfg2 t0) /\
  now (init cfg1 t0) = now (init cfg2 t0) /\
  timer_start (init cfg1 t0) = timer_start (init cfg2 t0) /\
  next_due (init cfg1 t0) = next_due (init cfg2 t0).
Proof.
  intros Hexp Hper. pose proof (init_sim cfg1 cfg2 t0 Hexp Hper) as Hs.
  split; [exact (sim_view _ _ _ _ _ Hs)|]. split; [exact (sim_now _ _ _ _ _ Hs)|].
  exact (sim_tm _ _ _ _ _ Hs I).
Qed.

(** * C18, closed form: every history from the initial state without a crash
    after a commit; restarts and crashes before an event included; no firing
    hypothesis *)
Theorem config_erasure_from_init_full cfg1 cfg2 t0 h :
  exp cfg1 = exp cfg2 -> period cfg1 = period cfg2 -> welcome cfg1 = welcome cfg2 ->
  0 < exp cfg1 ->
  Forall early_crash h ->
  let '(s1', os1) := run cfg1 (init cfg1 t0) h in
  let '(s2', os2) := run cfg2 (init cfg2 t0) h in
  view_of s1' = view_of s2' /\
  timer_start s1' = timer_start s2' /\ next_due s1' = next_due s2' /\
  map (fun o => map mask_frame (frames_of (o_log o))) os1 =
  map (fun o => map mask_frame (frames_of (o_log o))) os2 /\
  (allow_list cfg1 = allow_list cfg2 ->
   map (fun o => frames_of (o_log o)) os1 = map (fun o => frames_of (o_log o)) os2) /\
  map o_exc os1 = map o_exc os2 /\
  map o_valid os1 = map o_valid os2 /\
  map (fun o => map mask_frame (frames_of (o_boot_log o))) os1 =
  map (fun o => map mask_frame (frames_of (o_boot_log o))) os2.
Proof.
  intros Hexp Hper Hwel Hpos Hh.
  pose proof (run_simR cfg1 cfg2 Hexp Hper Hwel Hpos h (init cfg1 t0) (init cfg2 t0)
                       (init_sim cfg1 cfg2 t0 Hexp Hper) (proj1 (init_spec cfg1 Hpos t0)) Hh) as K.
  destruct (run cfg1 (init cfg1 t0) h) as [u1 os1]. destruct (run cfg2 (init cfg2 t0) h) as [u2 os2].
  destruct K as [A B]. apply obs_agree_lists in B.
  destruct B as (B1 & B2 & B3 & B4 & B5). destruct (sim_tm _ _ _ _ _ A I) as [T1 T2].
  split; [exact (sim_view _ _ _ _ _ A)|]. repeat (split; [assumption|]). assumption.
Qed.

(** the conclusion of [run_view_congruence], for histories with restarts and
    crashes before an event *)
Theorem config_erasure_from_init_crash0 cfg1 cfg2 t0 h :
  exp cfg1 = exp cfg2 -> period cfg1 = period cfg2 -> welcome cfg1 = welcome cfg2 ->
  0 < exp cfg1 ->
  Forall early_crash h ->
  let '(s1', os1) := run cfg1 (init cfg1 t0) h in
  let '(s2', os2) := run cfg2 (init cfg2 t0) h in
  view_of s1' = view_of s2' /\
  map (fun o => map mask_frame (frames_of (o_log o))) os1 =
  map (fun o => map mask_frame (frames_of (o_log o))) os2 /\
  (allow_list cfg1 = allow_list cfg2 ->
   map (fun o => frames_of (o_log o)) os1 = map (fun o => frames_of (o_log o)) os2) /\
  map o_exc os1 = map o_exc os2.
Proof.
  intros Hexp Hper Hwel Hpos Hh.
  pose proof (config_erasure_from_init_full cfg1 cfg2 t0 h Hexp Hper Hwel Hpos Hh) as K.
  destruct (run cfg1 (init cfg1 t0) h) as [u1 os1]. destruct (run cfg2 (init cfg2 t0) h) as [u2 os2].
  destruct K as (A & _ & _ & B & C & D & _). auto.
Qed.

(** ... and for histories without any crash (plain events and restarts) *)
Theorem config_erasure_from_init cfg1 cfg2 t0 h :
  exp cfg1 = exp cfg2 -> period cfg1 = period cfg2 -> welcome cfg1 = welcome cfg2 ->
  0 < exp cfg1 ->
  Forall no_crash h ->
  let '(s1', os1) := run cfg1 (init cfg1 t0) h in
  let '(s2', os2) := run cfg2 (init cfg2 t0) h in
  view_of s1' = view_of s2' /\
  map (fun o => map mask_frame (frames_of (o_log o))) os1 =
  map (fun o => map mask_frame (frames_of (o_log o))) os2 /\
  (allow_list cfg1 = allow_list cfg2 ->
   map (fun o => frames_of (o_log o)) os1 = map (fun o => frames_of (o_log o)) os2) /\
  map o_exc os1 = map o_exc os2.
Proof.
  intros Hexp Hper Hwel Hpos Hh. apply config_erasure_from_init_crash0; try assumption.
  eapply Forall_impl; [|exact Hh]. exact no_crash_early.
Qed.

(** the same from any two related reachable states (e.g. different usage
    databases, different boot instants) *)
Theorem config_erasure_run cfg1 cfg2 h s1 s2 :
  exp cfg1 = exp cfg2 -> period cfg1 = period cfg2 -> welcome cfg1 = welcome cfg2 ->
  0 < exp cfg1 ->
  SInv s1 -> log s1 = [] -> log s2 = [] ->
  view_of s1 = view_of s2 -> timer_start s1 = timer_start s2 -> next_due s1 = next_due s2 ->
  Forall early_crash h ->
  let '(s1', os1) := run cfg1 s1 h in
  let '(s2', os2) := run cfg2 s2 h in
  view_of s1' = view_of s2' /\
  timer_start s1' = timer_start s2' /\ next_due s1' = next_due s2' /\
  map (fun o => map mask_frame (frames_of (o_log o))) os1 =
  map (fun o => map mask_frame (frames_of (o_log o))) os2 /\
  (allow_list cfg1 = allow_list cfg2 ->
   map (fun o => frames_of (o_log o)) os1 = map (fun o => frames_of (o_log o)) os2) /\
  map o_exc os1 = map o_exc os2 /\
  map o_valid os1 = map o_valid os2.
Proof.
  intros Hexp Hper Hwel Hpos H1 L1 L2 Hv Ht Hn Hh.
  assert (Hs : sim cfg1 cfg2 True s1 s2) by (apply view_sim; auto).
  pose proof (run_simR cfg1 cfg2 Hexp Hper Hwel Hpos h s1 s2 Hs H1 Hh) as K.
  destruct (run cfg1 s1 h) as [u1 os1]. destruct (run cfg2 s2 h) as [u2 os2].
  destruct K as [A B]. apply obs_agree_lists in B.
  destruct B as (B1 & B2 & B3 & B4 & B5). destruct (sim_tm _ _ _ _ _ A I) as [T1 T2].
  split; [exact (sim_view _ _ _ _ _ A)|]. repeat (split; [assumption|]). assumption.
Qed.

(** * non-vacuity: two configurations differing in listing, usage database and
    blur; claims, `list`, a timer firing with nothing to delete, a restart,
    more commands, a crash before a command, a timer firing that deletes *)
Definition ex_history : list event :=
  let o := mkOracle None (mkAO None []) in
  let od := mkOracle (Some "AAAAAAAA") (mkAO None []) in
  let bind s := mkCmd (Some TBind) None (Some "a") (Some s) None None None None None None None in
  let claim n := mkCmd (Some TClaim) None None None (Some n) None None None None None None in
  let lst := mkCmd (Some TList) None None None None None None None None None None in
  [EB (EConnect 1); EB (ECmd 1 (bind "s1") o); EB (ECmd 1 (claim "7") od);
   EB (EConnect 2); EB (ECmd 2 (bind "s2") o); EB (ECmd 2 lst o);
   EB (EAdvance 2400 false);
   ERestart;
   EB (EConnect 3); EB (ECmd 3 (bind "s1") o); EB (ECmd 3 lst o); EB (ECmd 3 (claim "7") od);
   ECrash 0 (ECmd 3 lst o);
   EB (EConnect 4); EB (ECmd 4 (bind "s2") o); EB (ECmd 4 (claim "7") od);
   EB (EAdvance 6000 false);
   EB (ECmd 4 lst o)].

Example config_erasure_nonvacuous :
  let w := mkWelcome (Some "hello") None None in
  let c1 := gen_cfg_w true true (Some 56) w in
  let c2 := gen_cfg_w false false None w in
  let r1 := run c1 (init c1 0) ex_history in
  let r2 := run c2 (init c2 0) ex_history in
  let frames r := map (fun o => frames_of (o_log o)) (snd r) in
  let commits r := map (fun o => count_commits (o_log o)) (snd r) in
  (* the hypotheses of the theorem *)
  exp c1 = exp c2 /\ period c1 = period c2 /\ welcome c1 = welcome c2 /\ 0 < exp c1 /\
  Forall early_crash ex_history /\
  (* its conclusion, computed *)
  view_of (fst r1) = view_of (fst r2) /\
  map (map mask_frame) (frames r1) = map (map mask_frame) (frames r2) /\
  map o_exc (snd r1) = map o_exc (snd r2) /\
  (* both greet with the configured notices *)
  nth 0 (frames r1) [] = [(1%nat, FWelcome w)] /\ nth 0 (frames r2) [] = [(1%nat, FWelcome w)] /\
  (* the `list` answers differ, and nothing else does *)
  nth 5 (frames r1) [] = [(2%nat, FAck None); (2%nat, FNameplates ["7"])] /\
  nth 5 (frames r2) [] = [(2%nat, FAck None); (2%nat, FNameplates [])] /\
  nth 10 (frames r1) [] = [(3%nat, FAck None); (3%nat, FNameplates ["7"])] /\
  nth 10 (frames r2) [] = [(3%nat, FAck None); (3%nat, FNameplates [])] /\
  nth 17 (frames r1) [] = [(4%nat, FAck None); (4%nat, FNameplates [])] /\
  nth 17 (frames r2) [] = [(4%nat, FAck None); (4%nat, FNameplates [])] /\
  (* both timers fired at both instants; the second firing deleted the nameplate;
     the commit sequences of the two runs differ (usage commits) *)
  nth 6 (commits r1) 0%nat = 2%nat /\ nth 6 (commits r2) 0%nat = 1%nat /\
  nth 16 (commits r1) 0%nat = 4%nat /\ nth 16 (commits r2) 0%nat = 2%nat /\
  nameplates (chan_c (fst r1)) = [] /\
  next_due (fst r1) = 9600 /\ next_due (fst r2) = 9600 /\ now (fst r1) = 8400.
Proof. vm_compute. repeat split; try reflexivity; repeat constructor. Qed.

Print Assumptions boot_sim.
Print Assumptions step_simR.
Print Assumptions run_simR.
Print Assumptions init_sim.
Print Assumptions init_view.
Print Assumptions config_erasure_from_init_full.
Print Assumptions config_erasure_from_init_crash0.
Print Assumptions config_erasure_from_init.
Print Assumptions config_erasure_run.
Print Assumptions config_erasure_nonvacuous.
