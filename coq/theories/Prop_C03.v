(** Prop_C03.v -- C03: a nameplate leads all its claimants to one stable,
    unshared mailbox.  Statements quoted by type from C03Facts.v, NpFactsA/B.v,
    GenidFacts.v (printed by [Check]). *)
From MW Require Import Base Store Monad Usage Server Websocket Service Findings Inv Obs
     ProtoFacts StepFacts NpFactsA NpFactsB GenidFacts C03Facts Inst_Params ClaimedPair NameFacts.
Local Open Scope list_scope.

(** every `claimed` answer is the mailbox id stored in THE nameplate row of the
    caller's app with the claimed name (one row per (app, name): the uniqueness
    that no database constraint provides is part of the proved invariant) -- so
    every side that claims a live nameplate is told the same id *)
Theorem C03_claimed_is_row : ltac:(let t := type of claimed_is_row in exact t).
Proof. exact claimed_is_row. Qed.
Check C03_claimed_is_row.
Print Assumptions C03_claimed_is_row.

(** that row never changes for as long as it exists: over any history (releases of
    other sides, other nameplates, sweeps, restarts, crashes) a nameplates.id
    denotes one row -- one app, one name, one mailbox id *)
Theorem C03_incarnation_stable : ltac:(let t := type of nameplate_incarnation_stable in exact t).
Proof. exact nameplate_incarnation_stable. Qed.
Check C03_incarnation_stable.
Print Assumptions C03_incarnation_stable.

(** ... and ids are never reused: along a whole history from the initial state, two
    rows with the same id seen at any two moments are the same row *)
Theorem C03_rows_seen_functional : ltac:(let t := type of rows_seen_functional in exact t).
Proof. exact rows_seen_functional. Qed.
Check C03_rows_seen_functional.
Print Assumptions C03_rows_seen_functional.

(** unshared: mailbox ids of different nameplate rows seen anywhere along a history
    -- different live nameplates, the same name in different apps, a new
    incarnation of a name after the previous one was retired -- are all different,
    provided the random draws are pairwise distinct 8-byte strings (what
    os.urandom(8) delivers up to a 2^-64 collision chance per pair: trusted) *)
Theorem C03_incarnations_distinct : ltac:(let t := type of incarnations_distinct in exact t).
Proof. exact incarnations_distinct. Qed.
Check C03_incarnations_distinct.
Print Assumptions C03_incarnations_distinct.

(** generate_mailbox_id is injective on 8-byte draws ... *)
Theorem C03_genid_injective : ltac:(let t := type of genid_inj in exact t).
Proof. exact genid_inj. Qed.
Check C03_genid_injective.
Print Assumptions C03_genid_injective.

(** ... always 13 characters ... *)
Theorem C03_genid_length : ltac:(let t := type of genid_length in exact t).
Proof. exact genid_length. Qed.
Check C03_genid_length.
Print Assumptions C03_genid_length.

(** ... of a-z2-7 *)
Theorem C03_genid_alphabet : ltac:(let t := type of genid_alphabet in exact t).
Proof. exact genid_alphabet. Qed.
Check C03_genid_alphabet.
Print Assumptions C03_genid_alphabet.

(** per step: no nameplate row is ever modified; new rows get ids above every id used before *)
Theorem C03_rows_immutable : ltac:(let t := type of np_rows_immutable in exact t).
Proof. exact np_rows_immutable. Qed.
Check C03_rows_immutable.
Print Assumptions C03_rows_immutable.

(** per step: distinct live nameplates keep distinct mailboxes when each generated id is new *)
Theorem C03_live_distinct : ltac:(let t := type of mbox_inj_step in exact t).
Proof. exact mbox_inj_step. Qed.
Check C03_live_distinct.
Print Assumptions C03_live_distinct.


(** the same name in two apps, and a re-claim after retirement: three different ids *)
(** ** pairs of `claimed` answers in one run (ClaimedPair.v): two claims of the same (app, name) answered at
    positions i < j are told the same id if the name stays listed in between ([claimed_pair_same_live]; a key
    that has a row before and after an event -- crashes included -- keeps the same row); under the fresh-draws
    hypothesis two answers are equal IFF they belong to the same nameplate row ([claimed_pair_iff]) *)
Theorem C03_claimed_pair_same_live : ltac:(let t := type of claimed_pair_same_live in exact t).
Proof. exact claimed_pair_same_live. Qed.
Check C03_claimed_pair_same_live.
Print Assumptions C03_claimed_pair_same_live.

Theorem C03_claimed_pair_same : ltac:(let t := type of claimed_pair_same in exact t).
Proof. exact claimed_pair_same. Qed.
Check C03_claimed_pair_same.
Print Assumptions C03_claimed_pair_same.

Theorem C03_claimed_pair_distinct : ltac:(let t := type of claimed_pair_distinct in exact t).
Proof. exact claimed_pair_distinct. Qed.
Check C03_claimed_pair_distinct.
Print Assumptions C03_claimed_pair_distinct.

Theorem C03_claimed_pair_iff : ltac:(let t := type of claimed_pair_iff in exact t).
Proof. exact claimed_pair_iff. Qed.
Print Assumptions C03_claimed_pair_iff.


Example C03_nonvacuous :
  let cfg := gen_cfg true false None in
  let o b := mkOracle (Some b) (mkAO None []) in
  let bind a := mkCmd (Some TBind) None (Some a) (Some "s") None None None None None None None in
  let claim := mkCmd (Some TClaim) None None None (Some "7") None None None None None None in
  let rel := mkCmd (Some TRelease) None None None (Some "7") None None None None None None in
  let cls := mkCmd (Some TClose) None None None None None None None None None None in
  let h := [EB (EConnect 1); EB (ECmd 1 (bind "X") (o "")); EB (ECmd 1 claim (o "AAAAAAAA"));
            EB (EConnect 2); EB (ECmd 2 (bind "Y") (o "")); EB (ECmd 2 claim (o "BBBBBBBB"));
            EB (ECmd 1 rel (o "")); EB (EConnect 3); EB (ECmd 3 (bind "X") (o ""));
            EB (ECmd 3 claim (o "CCCCCCCC"))] in
  let fr := flat_map (fun ob => frames_of (o_log ob)) (snd (run cfg (init cfg 0) h)) in
  filter (fun p => match snd p with FClaimed _ => true | _ => false end) fr =
    [(1%nat, FClaimed (genid "AAAAAAAA")); (2%nat, FClaimed (genid "BBBBBBBB"));
     (3%nat, FClaimed (genid "CCCCCCCC"))].
Proof. vm_compute. reflexivity. Qed.

(** * distinctness from what clients can observe, not from row ids (quoted by type from NameFacts.v) *)

(** two `claimed` answers for different (app, name) pairs anywhere in a history carry different mailbox ids (pairwise distinct 8-byte draws) *)
Theorem C03_claimed_pair_distinct_keys : ltac:(let t := type of claimed_pair_distinct_keys in exact t).
Proof. exact claimed_pair_distinct_keys. Qed.
Check C03_claimed_pair_distinct_keys.
Print Assumptions C03_claimed_pair_distinct_keys.

(** the same (app, name), retired in between: a different id *)
Theorem C03_claimed_pair_distinct_reincarnated : ltac:(let t := type of claimed_pair_distinct_reincarnated in exact t).
Proof. exact claimed_pair_distinct_reincarnated. Qed.
Check C03_claimed_pair_distinct_reincarnated.
Print Assumptions C03_claimed_pair_distinct_reincarnated.

(** the same (app, name): the same id IF AND ONLY IF the nameplate was live throughout *)
Theorem C03_claimed_pair_same_iff_live : ltac:(let t := type of claimed_pair_same_iff_live in exact t).
Proof. exact claimed_pair_same_iff_live. Qed.
Check C03_claimed_pair_same_iff_live.
Print Assumptions C03_claimed_pair_same_iff_live.

(** the fresh-draw hypothesis is necessary *)
Theorem C03_reincarnated_without_fresh_draws_refuted : ltac:(let t := type of NameFactsExamples.reincarnated_without_fresh_draws_refuted in exact t).
Proof. exact NameFactsExamples.reincarnated_without_fresh_draws_refuted. Qed.
Check C03_reincarnated_without_fresh_draws_refuted.
Print Assumptions C03_reincarnated_without_fresh_draws_refuted.

(** non-vacuity on a concrete history *)
Theorem C03_reincarnated_applied : ltac:(let t := type of NameFactsExamples.reincarnated_applied in exact t).
Proof. exact NameFactsExamples.reincarnated_applied. Qed.
Check C03_reincarnated_applied.
Print Assumptions C03_reincarnated_applied.

