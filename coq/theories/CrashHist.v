(** CrashHist.v -- C01 over EVERY event and EVERY history, crashes included:
    the evolution of the message store over an event that dies at any commit
    boundary ([ECrash k b]), and the history-level ledger theorems of
    HistFacts.v without the [Forall not_crash h] hypothesis.

    Route: (1) a calculus [CxM T m] saying that the working channel database
    and every channel snapshot a computation commits are [T]-related to the
    working database it started from; (2) instances: [meq] (messages untouched)
    for every handler but `add` and `close`, a two-phase argument for `close`
    (open phase: messages untouched; delete phase: messages leave only together
    with their mailbox row, and no mailbox row appears), the delete phase alone
    for the sweep; (3) `add` by exact computation of its log; (4) the start-up
    sweep after the crash; (5) composition. *)
From MW Require Import Base Store Monad Usage Server Websocket Service Findings
     Inv StoreFacts Hoare DbFactsA DbFactsB OpFacts ProtoFacts Obs StepFacts SweepFacts
     NpFactsA MbFactsA MbFactsB LifeFacts Corollaries HistFacts ResumeFacts Inst_Params.
From MW Require TimeInv.
Local Open Scope list_scope.

(** * The message a (possibly crashed) event stores *)

(** [ECrash k (ECmd c msg o)]: the add handler commits exactly once, right after
    inserting the row (Server.add_message: tx; commit_chan; broadcast), and cannot
    fail before that commit once the command is well-formed; so the row of a
    well-formed add is stored iff the process dies after that commit, [k >= 1].
    Every other crashed event stores nothing. *)
Definition added_msg_c (s : state) (e : event) : list msg_row :=
  match e with
  | ECrash (S _) (ECmd c msg o) => added_msg s (EB (ECmd c msg o))
  | ECrash _ _ => []
  | _ => added_msg s e
  end.

Lemma added_msg_c_not_crash s e : not_crash e -> added_msg_c s e = added_msg s e.
Proof. destruct e as [b|k b|]; [reflexivity|intros []|reflexivity]. Qed.

(** * Relations between channel databases *)

(** messages are only filtered out, and none whose mailbox row survives *)
Definition Ev (d d' : chan_db) : Prop :=
  exists q, messages d' = filter q (messages d) /\
            forall x, In x (messages d) -> mb_exists d' (msg_mbox x) = true -> q x = true.

(** no mailbox row appears *)
Definition mb_shrink (d d' : chan_db) : Prop :=
  forall m, mb_exists d' m = true -> mb_exists d m = true.

Definition Shr (d d' : chan_db) : Prop := Ev d d' /\ mb_shrink d d'.

Lemma Ev_refl d : Ev d d.
Proof.
  exists (fun _ => true). split; [|reflexivity]. symmetry. apply lf_filter_true. reflexivity.
Qed.

Lemma Ev_meq d d' : meq d d' -> Ev d d'.
Proof.
  unfold meq. intros H. exists (fun _ => true). split; [|reflexivity].
  rewrite H. symmetry. apply lf_filter_true. reflexivity.
Qed.

Lemma meq_Ev d1 d2 d3 : meq d1 d2 -> Ev d2 d3 -> Ev d1 d3.
Proof. unfold meq. intros H [q [Hq Hb]]. exists q. rewrite H in *. auto. Qed.

Lemma Ev_Shr d1 d2 d3 : Ev d1 d2 -> Shr d2 d3 -> Ev d1 d3.
Proof.
  intros [q1 [H1 B1]] [[q2 [H2 B2]] Hs]. exists (fun x => q1 x && q2 x). split.
  - rewrite H2, H1. apply lf_filter_filter.
  - intros x Hx Hex.
    assert (E1 : q1 x = true) by (apply B1; [exact Hx|apply Hs; exact Hex]).
    rewrite E1. cbn [andb]. apply B2; [|exact Hex].
    rewrite H1. apply filter_In. split; assumption.
Qed.

Lemma Shr_refl d : Shr d d.
Proof. split; [apply Ev_refl|intros m H; exact H]. Qed.

Lemma Shr_trans d1 d2 d3 : Shr d1 d2 -> Shr d2 d3 -> Shr d1 d3.
Proof.
  intros [E1 S1] H2. split; [exact (Ev_Shr _ _ _ E1 H2)|].
  destruct H2 as [_ S2]. intros m H. apply S1, S2, H.
Qed.

Lemma mb_exists_ids d d' :
  map mb_id (mailboxes d') = map mb_id (mailboxes d) -> forall m, mb_exists d' m = mb_exists d m.
Proof.
  intros H m. unfold mb_exists.
  assert (K : forall l, existsb (fun r => seqb (mb_id r) m) l =
                        existsb (fun i => seqb i m) (map mb_id l)).
  { induction l as [|r l IH]; cbn; [reflexivity|]. rewrite IH. reflexivity. }
  rewrite !K, H. reflexivity.
Qed.

Lemma Shr_same d d' :
  messages d' = messages d -> map mb_id (mailboxes d') = map mb_id (mailboxes d) -> Shr d d'.
Proof.
  intros Hm Hi. split; [apply Ev_meq; exact Hm|].
  intros m H. rewrite <- (mb_exists_ids d d' Hi m). exact H.
Qed.

Lemma Shr_rm_mb d m : Shr d (rm_mb d m).
Proof.
  split.
  - exists (fun r => negb (seqb (msg_mbox r) m)). split; [reflexivity|].
    intros x _ Hex. apply mb_exists_iff in Hex. destruct Hex as [r [Hr Hid]].
    unfold rm_mb in Hr. cbn [mailboxes] in Hr. apply filter_In in Hr. destruct Hr as [_ Hr].
    rewrite Hid in Hr. exact Hr.
  - intros m' Hex. apply mb_exists_iff in Hex. destruct Hex as [r [Hr Hid]].
    apply mb_exists_iff. exists r. split; [|exact Hid].
    unfold rm_mb in Hr. cbn [mailboxes] in Hr. apply filter_In in Hr. apply Hr.
Qed.

(** the same relations, guarded by (and carrying) well-formedness, so that the
    transaction bodies that cannot fail on a well-formed database fit a frame
    rule that asks nothing of the state *)
Definition meqI (d d' : chan_db) : Prop := DbInv d -> DbInv d' /\ meq d d'.
Definition ShrI (d d' : chan_db) : Prop := DbInv d -> DbInv d' /\ Shr d d'.
Definition EvI (d d' : chan_db) : Prop := DbInv d -> Ev d d'.

(** reflexive and transitive *)
Definition PreO (T : chan_db -> chan_db -> Prop) : Prop :=
  (forall d, T d d) /\ (forall d1 d2 d3, T d1 d2 -> T d2 d3 -> T d1 d3).

Lemma PreO_eq : PreO (@eq chan_db).
Proof. split; [reflexivity|intros; congruence]. Qed.
Lemma PreO_meq : PreO meq.
Proof. split; [apply meq_refl|apply meq_trans]. Qed.
Lemma PreO_meqI : PreO meqI.
Proof.
  split.
  - intros d H. split; [exact H|apply meq_refl].
  - intros d1 d2 d3 H1 H2 H. destruct (H1 H) as [I2 M1]. destruct (H2 I2) as [I3 M2].
    split; [exact I3|eapply meq_trans; eauto].
Qed.
Lemma PreO_ShrI : PreO ShrI.
Proof.
  split.
  - intros d H. split; [exact H|apply Shr_refl].
  - intros d1 d2 d3 H1 H2 H. destruct (H1 H) as [I2 M1]. destruct (H2 I2) as [I3 M2].
    split; [exact I3|eapply Shr_trans; eauto].
Qed.

Lemma EvI_refl d : EvI d d.
Proof. intros _. apply Ev_refl. Qed.
Lemma eq_EvI d d' : d = d' -> EvI d d'.
Proof. intros ->. apply EvI_refl. Qed.
Lemma eq_EvI_comp d1 d2 d3 : d1 = d2 -> EvI d2 d3 -> EvI d1 d3.
Proof. intros ->. auto. Qed.
Lemma EvI_eq_comp d1 d2 d3 : EvI d1 d2 -> d2 = d3 -> EvI d1 d3.
Proof. intros H <-. exact H. Qed.
Lemma meq_EvI d d' : meq d d' -> EvI d d'.
Proof. intros H _. apply Ev_meq. exact H. Qed.
Lemma meqI_EvI d d' : meqI d d' -> EvI d d'.
Proof. intros H I. apply Ev_meq. apply (H I). Qed.
Lemma ShrI_EvI d d' : ShrI d d' -> EvI d d'.
Proof. intros H I. apply (H I). Qed.
Lemma meqI_ShrI_EvI d1 d2 d3 : meqI d1 d2 -> ShrI d2 d3 -> EvI d1 d3.
Proof.
  intros H1 H2 I. destruct (H1 I) as [I2 M]. destruct (H2 I2) as [_ [E _]].
  eapply meq_Ev; eauto.
Qed.

(** * What the deleting transaction bodies do *)

Lemma del_nameplates_body_mbs cfg a w pruned : forall ids d acc,
  mailboxes (txdb (del_nameplates_body cfg d a ids w pruned acc)) = mailboxes d.
Proof.
  induction ids as [|i ids IH]; intros d acc; cbn [del_nameplates_body]; [reflexivity|].
  rewrite del_np_rm. destruct (usage_on cfg).
  - destruct (summarize_nameplate (blur cfg) a (sel_nps_all d i) w pruned); [|reflexivity].
    rewrite IH. reflexivity.
  - rewrite IH. reflexivity.
Qed.

Lemma del_mailbox_body_Shr cfg d a m f rows w p us d' :
  del_mailbox_body cfg d a m f rows w p = TxOk us d' -> Shr d d'.
Proof.
  unfold del_mailbox_body. cbv zeta.
  destruct (del_mb (del_mbs_of (del_msgs_of d m) m) m) as [d3|] eqn:E; [|discriminate].
  intros H. inversion H; subst. unfold del_mb in E.
  match type of E with (if ?b then _ else _) = _ => destruct b end; [discriminate|].
  inversion E; subst. exact (Shr_rm_mb d m).
Qed.

Lemma del_mailboxes_body_Shr cfg a w : forall rows d acc us d',
  del_mailboxes_body cfg d a rows w acc = TxOk us d' -> Shr d d'.
Proof.
  induction rows as [|r rows IH]; intros d acc us d'; cbn [del_mailboxes_body].
  - intros H. inversion H. apply Shr_refl.
  - destruct (del_mailbox_body cfg d a (mb_id r) (mb_fornp r) (sel_mbs_all d (mb_id r)) w true)
      as [us1 d1|e d1] eqn:E1; [|discriminate].
    intros H. eapply Shr_trans; [eapply del_mailbox_body_Shr; exact E1|eapply IH; exact H].
Qed.

Lemma prune_body_Shr cfg d a w old r d' :
  prune_body cfg d a w old = TxOk r d' -> Shr d d'.
Proof.
  unfold prune_body. cbv zeta.
  pose proof (del_nameplates_body_msgs cfg a w true (map np_id (old_nameplates d a old)) d []) as M1.
  pose proof (del_nameplates_body_mbs cfg a w true (map np_id (old_nameplates d a old)) d []) as B1.
  destruct (del_nameplates_body cfg d a (map np_id (old_nameplates d a old)) w true [])
    as [unps d1|e d1]; [|discriminate]. cbn [txdb] in M1, B1.
  destruct (del_mailboxes_body cfg d1 a (old_mailboxes d a old) w []) as [umbs d2|e d2] eqn:E2;
    [|discriminate].
  intros H. inversion H; subst.
  eapply Shr_trans; [apply Shr_same; [exact M1|rewrite B1; reflexivity]|].
  eapply del_mailboxes_body_Shr. exact E2.
Qed.

Lemma close_delete_body_Shr cfg d a m f w r d' :
  close_delete_body cfg d a m f w = TxOk r d' -> Shr d d'.
Proof.
  unfold close_delete_body. cbv zeta.
  destruct (existsb mbs_opened (sel_mbs_all d m)).
  - intros H. inversion H. apply Shr_refl.
  - pose proof (del_nameplates_body_msgs cfg a w false (map np_id (sel_np_by_mbox d m)) d []) as M1.
    pose proof (del_nameplates_body_mbs cfg a w false (map np_id (sel_np_by_mbox d m)) d []) as B1.
    destruct (del_nameplates_body cfg d a (map np_id (sel_np_by_mbox d m)) w false [])
      as [unps d1|e d1]; [|discriminate]. cbn [txdb] in M1, B1.
    destruct (del_mailbox_body cfg d1 a m f (sel_mbs_all d m) w false) as [umbs d2|e d2] eqn:E2;
      [|discriminate].
    intros H. inversion H; subst.
    eapply Shr_trans; [apply Shr_same; [exact M1|rewrite B1; reflexivity]|].
    eapply del_mailbox_body_Shr. exact E2.
Qed.

Lemma ShrI_touch_all d ms w : ShrI d (touch_all d ms w).
Proof.
  intros I. split; [apply (touch_all_ok d ms w I)|].
  apply Shr_same; [apply touch_all_msgs|].
  rewrite touch_all_exact. cbn [mailboxes set_mailboxes]. rewrite map_map.
  apply map_ext. intros r. destruct (smem (mb_id r) ms); reflexivity.
Qed.

Lemma ShrI_prune_body cfg d a w old : ShrI d (txdb (prune_body cfg d a w old)).
Proof.
  intros I. destruct (prune_body_ok cfg d a w old I) as (mo & u1 & u2 & d' & E & I' & _).
  rewrite E. cbn [txdb]. split; [exact I'|]. eapply prune_body_Shr. exact E.
Qed.

Lemma ShrI_close_delete cfg d a m f w : ShrI d (txdb (close_delete_body cfg d a m f w)).
Proof.
  intros I. destruct (close_delete_body_ok cfg d a m f w I) as (r & d' & E & I' & _).
  rewrite E. cbn [txdb]. split; [exact I'|]. eapply close_delete_body_Shr. exact E.
Qed.

Lemma ShrI_close_mark d a m side mood :
  ShrI d (txdb (match close_mark_body d a m side mood with
                | None => TxOk None d
                | Some (fornp, d1) => TxOk (Some fornp) d1
                end)).
Proof.
  intros I. destruct (close_mark_body d a m side mood) as [[f d1]|] eqn:E; cbn [txdb].
  - split; [apply (close_mark_body_ok _ _ _ _ _ _ _ I E)|].
    apply close_mark_body_inv in E. subst d1. apply Shr_same; reflexivity.
  - split; [exact I|apply Shr_refl].
Qed.

Lemma meqI_open_body d a m side w : meqI d (txdb (open_body d a m side w)).
Proof.
  intros I. pose proof (open_body_ok d a m side w I) as H.
  pose proof (open_body_msgs d a m side w) as M.
  destruct (open_body d a m side w) as [u d'|e d']; cbn [txdb] in *.
  - split; [apply H|exact M].
  - destruct H as (_ & -> & _). split; [exact I|reflexivity].
Qed.

(** * The snapshot calculus *)

Section CxCalc.
Variable T : chan_db -> chan_db -> Prop.

(** the working database moved along [T], the log grew, and every channel
    snapshot committed meanwhile is [T]-related to the starting working database *)
Definition Cx (s s' : state) : Prop :=
  T (chan_w s) (chan_w s') /\
  exists l, log s' = l ++ log s /\ forall d, In (LCommitChan d) l -> T (chan_w s) d.

Definition CxM {A} (m : M A) : Prop :=
  forall s, wp m (fun _ s' => Cx s s') (fun _ s' => Cx s s') s.

Lemma Cx_nochan s s' l :
  (forall d, T d d) -> chan_w s' = chan_w s -> log s' = l ++ log s ->
  (forall d, ~ In (LCommitChan d) l) -> Cx s s'.
Proof.
  intros R Hw Hl Hn. split; [rewrite Hw; apply R|].
  exists l. split; [exact Hl|]. intros d Hd. destruct (Hn d Hd).
Qed.

Lemma Cx_pre s0 s s' : chan_w s0 = chan_w s -> log s0 = log s -> Cx s s' -> Cx s0 s'.
Proof. unfold Cx. intros -> ->. auto. Qed.

Lemma Cx_post s s' s'' : chan_w s'' = chan_w s' -> log s'' = log s' -> Cx s s' -> Cx s s''.
Proof. unfold Cx. intros -> ->. auto. Qed.

Lemma CxM_tx {A} (f : chan_db -> txres A) : (forall d, T d (txdb (f d))) -> CxM (tx f).
Proof.
  intros Hf s. unfold wp, tx. specialize (Hf (chan_w s)).
  destruct (f (chan_w s)) as [a d|e d]; cbn [txdb] in Hf;
    (split; [exact Hf|exists []; split; [reflexivity|intros d0 []]]).
Qed.

Hypothesis T_po : PreO T.

Lemma Cx_refl s : Cx s s.
Proof. apply (Cx_nochan s s []); [apply T_po|reflexivity|reflexivity|intros d []]. Qed.

Lemma Cx_trans s1 s2 s3 : Cx s1 s2 -> Cx s2 s3 -> Cx s1 s3.
Proof.
  destruct T_po as [R Tr]. intros [A [l1 [E1 H1]]] [B [l2 [E2 H2]]]. split; [eapply Tr; eauto|].
  exists (l2 ++ l1). split; [rewrite E2, E1; apply app_assoc|].
  intros d Hd. apply in_app_or in Hd. destruct Hd as [Hd|Hd]; [|auto].
  eapply Tr; [exact A|auto].
Qed.

Lemma Cx_same s s' : chan_w s' = chan_w s -> log s' = log s -> Cx s s'.
Proof.
  intros Hw Hl. apply (Cx_nochan s s' []); [apply T_po|exact Hw|exact Hl|intros d []].
Qed.

Lemma Cx_entry s s' e :
  chan_w s' = chan_w s -> log s' = e :: log s ->
  (forall d, e = LCommitChan d -> d = chan_w s) -> Cx s s'.
Proof.
  intros Hw Hl He. split; [rewrite Hw; apply T_po|].
  exists [e]. split; [exact Hl|]. intros d [Hd|[]]. rewrite (He d Hd). apply T_po.
Qed.

Lemma CxM_ret {A} (a : A) : CxM (ret a).
Proof. intros s. apply Cx_refl. Qed.

Lemma CxM_raise {A} e : CxM (@raise A e).
Proof. intros s. apply Cx_refl. Qed.

Lemma CxM_bind {A B} (m : M A) (k : A -> M B) : CxM m -> (forall a, CxM (k a)) -> CxM (bind m k).
Proof.
  intros Hm Hk s. specialize (Hm s). unfold wp, bind in *.
  destruct (m s) as [a s1|e s1]; [|exact Hm].
  specialize (Hk a s1). unfold wp in Hk.
  destruct (k a s1); eapply Cx_trans; eauto.
Qed.

Lemma CxM_try_catch {A} (m : M A) h : CxM m -> (forall e, CxM (h e)) -> CxM (try_catch m h).
Proof.
  intros Hm Hh s. specialize (Hm s). unfold wp, try_catch in *.
  destruct (m s) as [a s1|e s1]; [exact Hm|].
  specialize (Hh e s1). unfold wp in Hh.
  destruct (h e s1); eapply Cx_trans; eauto.
Qed.

Lemma CxM_get : CxM get.
Proof. intros s. apply Cx_refl. Qed.

Lemma CxM_q {A} (f : chan_db -> A) : CxM (q f).
Proof. intros s. apply Cx_refl. Qed.

Lemma CxM_utx f : CxM (utx f).
Proof. intros s. apply Cx_same; reflexivity. Qed.

Lemma CxM_commit_chan : CxM commit_chan.
Proof.
  intros s. unfold wp, commit_chan. eapply Cx_entry; [reflexivity|reflexivity|].
  intros d H. inversion H. reflexivity.
Qed.

Lemma CxM_commit_usage : CxM commit_usage.
Proof.
  intros s. unfold wp, commit_usage. eapply Cx_entry; [reflexivity|reflexivity|].
  intros d H. discriminate.
Qed.

Lemma CxM_send c f : CxM (send c f).
Proof.
  intros s. unfold wp, send. eapply Cx_entry; [reflexivity|reflexivity|].
  intros d H. discriminate.
Qed.

Lemma CxM_get_conn c : CxM (get_conn c).
Proof. intros s. apply Cx_refl. Qed.

Lemma CxM_set_conn c cs : CxM (set_conn c cs).
Proof. intros s. apply Cx_same; reflexivity. Qed.

Lemma CxM_add_sub a m c : CxM (add_sub a m c).
Proof.
  intros s. unfold wp, add_sub. destruct (existsb (sub_is a m c) (subs s));
    apply Cx_same; reflexivity.
Qed.

Lemma CxM_remove_sub a m c : CxM (remove_sub a m c).
Proof. intros s. apply Cx_same; reflexivity. Qed.

Lemma CxM_stop_listeners a m : CxM (stop_listeners a m).
Proof. intros s. apply Cx_same; reflexivity. Qed.

Lemma CxM_send_each c l : CxM (send_each c l).
Proof.
  induction l as [|r l IH]; cbn [send_each]; [apply CxM_ret|].
  apply CxM_bind; [apply CxM_send|intros _; exact IH].
Qed.

Lemma CxM_send_all l f : CxM (send_all l f).
Proof.
  induction l as [|c l IH]; cbn [send_all]; [apply CxM_ret|].
  apply CxM_bind; [apply CxM_send|intros _; exact IH].
Qed.

End CxCalc.

(** changing the relation *)
Lemma Cx_weaken (T T' : chan_db -> chan_db -> Prop) s s' :
  (forall d d', T d d' -> T' d d') -> Cx T s s' -> Cx T' s s'.
Proof.
  intros H [A [l [E K]]]. split; [apply H; exact A|]. exists l. split; [exact E|]. auto.
Qed.

Lemma Cx_comp (T1 T2 T3 : chan_db -> chan_db -> Prop) s1 s2 s3 :
  (forall d1 d2 d3, T1 d1 d2 -> T2 d2 d3 -> T3 d1 d3) -> (forall d d', T1 d d' -> T3 d d') ->
  Cx T1 s1 s2 -> Cx T2 s2 s3 -> Cx T3 s1 s3.
Proof.
  intros Hc Hi [A [l1 [E1 H1]]] [B [l2 [E2 H2]]]. split; [eapply Hc; eauto|].
  exists (l2 ++ l1). split; [rewrite E2, E1; apply app_assoc|].
  intros d Hd. apply in_app_or in Hd. destruct Hd as [Hd|Hd]; [|auto].
  eapply Hc; [exact A|auto].
Qed.

Lemma CxM_weaken (T T' : chan_db -> chan_db -> Prop) {A} (m : M A) :
  (forall d d', T d d' -> T' d d') -> CxM T m -> CxM T' m.
Proof.
  intros H Hm s. specialize (Hm s). unfold wp in *.
  destruct (m s); eapply Cx_weaken; eauto.
Qed.

Lemma CxM_seq (T1 T2 T3 : chan_db -> chan_db -> Prop) {A B} (m : M A) (k : A -> M B) :
  (forall d1 d2 d3, T1 d1 d2 -> T2 d2 d3 -> T3 d1 d3) -> (forall d d', T1 d d' -> T3 d d') ->
  CxM T1 m -> (forall a, CxM T2 (k a)) -> CxM T3 (bind m k).
Proof.
  intros Hc Hi Hm Hk s. specialize (Hm s). unfold wp, bind in *.
  destruct (m s) as [a s1|e s1]; [|eapply Cx_weaken; eauto].
  specialize (Hk a s1). unfold wp in Hk.
  destruct (k a s1); eapply Cx_comp; eauto.
Qed.

Lemma CxM_catch (T1 T2 T3 : chan_db -> chan_db -> Prop) {A} (m : M A) h :
  (forall d1 d2 d3, T1 d1 d2 -> T2 d2 d3 -> T3 d1 d3) -> (forall d d', T1 d d' -> T3 d d') ->
  CxM T1 m -> (forall e, CxM T2 (h e)) -> CxM T3 (try_catch m h).
Proof.
  intros Hc Hi Hm Hh s. specialize (Hm s). unfold wp, try_catch in *.
  destruct (m s) as [a s1|e s1]; [eapply Cx_weaken; eauto|].
  specialize (Hh e s1). unfold wp in Hh.
  destruct (h e s1); eapply Cx_comp; eauto.
Qed.

(** symbolic execution with the snapshot calculus; leaves the side conditions
    of the transactions *)
Create HintDb cxdb.
#[export] Hint Resolve PreO_eq PreO_meq PreO_meqI PreO_ShrI : cxdb.
Ltac cx_side := solve [auto with cxdb nocore].
Ltac cx_step :=
  lazymatch goal with
  | |- CxM _ (bind _ _) => apply CxM_bind; [cx_side| |intros ?]
  | |- CxM _ (ret _) => apply CxM_ret; cx_side
  | |- CxM _ (raise _) => apply CxM_raise; cx_side
  | |- CxM _ (try_catch _ _) => apply CxM_try_catch; [cx_side| |intros ?]
  | |- CxM _ get => apply CxM_get; cx_side
  | |- CxM _ (q _) => apply CxM_q; cx_side
  | |- CxM _ (utx _) => apply CxM_utx; cx_side
  | |- CxM _ commit_chan => apply CxM_commit_chan; cx_side
  | |- CxM _ commit_usage => apply CxM_commit_usage; cx_side
  | |- CxM _ (send _ _) => apply CxM_send; cx_side
  | |- CxM _ (get_conn _) => apply CxM_get_conn; cx_side
  | |- CxM _ (set_conn _ _) => apply CxM_set_conn; cx_side
  | |- CxM _ (add_sub _ _ _) => apply CxM_add_sub; cx_side
  | |- CxM _ (remove_sub _ _ _) => apply CxM_remove_sub; cx_side
  | |- CxM _ (stop_listeners _ _) => apply CxM_stop_listeners; cx_side
  | |- CxM _ (send_each _ _) => apply CxM_send_each; cx_side
  | |- CxM _ (send_all _ _) => apply CxM_send_all; cx_side
  | |- CxM _ (tx _) => apply CxM_tx; intros ?; cbv beta
  | |- CxM _ (match ?x with _ => _ end) => destruct x eqn:?
  | |- CxM _ _ => solve [auto with cxdb nocore]
  end.
Ltac cx := repeat cx_step.

(** * Server operations *)

(** operations without channel transaction: any pre-order *)
Section OpsAny.
Variable cfg : config.
Variable T : chan_db -> chan_db -> Prop.
Hypothesis T_po : PreO T.
Local Hint Resolve T_po : cxdb.

Lemma CxM_log_client_version a side w cv : CxM T (log_client_version cfg a side w cv).
Proof. unfold log_client_version. cx. Qed.

Lemma CxM_dump_stats w r : CxM T (dump_stats cfg w r).
Proof. unfold dump_stats. cx. Qed.

End OpsAny.
#[export] Hint Resolve CxM_log_client_version CxM_dump_stats : cxdb.

(** the operations that leave the messages alone *)
Lemma CxM_open_mailbox a m side w : CxM meq (open_mailbox a m side w).
Proof. unfold open_mailbox. cx. apply open_body_msgs. Qed.
#[export] Hint Resolve CxM_open_mailbox : cxdb.

Lemma CxM_open_mailbox_I a m side w : CxM meqI (open_mailbox a m side w).
Proof. unfold open_mailbox. cx. apply meqI_open_body. Qed.
#[export] Hint Resolve CxM_open_mailbox_I : cxdb.

Lemma CxM_claim_nameplate a n side w draw : CxM meq (claim_nameplate a n side w draw).
Proof. unfold claim_nameplate. cx. apply claim_body_msgs. Qed.
#[export] Hint Resolve CxM_claim_nameplate : cxdb.

Lemma CxM_allocate_nameplate a side w o draw : CxM meq (allocate_nameplate a side w o draw).
Proof. unfold allocate_nameplate. cx. Qed.
#[export] Hint Resolve CxM_allocate_nameplate : cxdb.

Section OpsCfg.
Variable cfg : config.

Lemma CxM_release_nameplate a n side w : CxM meq (release_nameplate cfg a n side w).
Proof.
  unfold release_nameplate, write_usage. cx.
  - apply release_mark_msgs.
  - apply release_delete_body_msgs.
Qed.

(** the operations that delete messages, always with their mailbox row *)
Lemma CxM_mailbox_close a m side mood w : CxM ShrI (mailbox_close cfg a m side mood w).
Proof.
  unfold mailbox_close, write_usage. cx.
  - apply ShrI_close_mark.
  - apply ShrI_close_delete.
Qed.

Lemma CxM_prune_app a w old : CxM ShrI (prune_app cfg a w old).
Proof.
  unfold prune_app, write_usage. cx.
  - cbn [txdb]. apply ShrI_touch_all.
  - apply ShrI_prune_body.
Qed.

Lemma CxM_prune_apps w old apps : CxM ShrI (prune_apps cfg apps w old).
Proof.
  induction apps as [|a apps IH]; cbn [prune_apps]; [apply CxM_ret; cx_side|].
  apply CxM_bind; [cx_side|apply CxM_prune_app|intros _; exact IH].
Qed.

Lemma CxM_expire fault : CxM ShrI (expire cfg fault).
Proof.
  unfold expire, prune_all_apps. cx. apply CxM_prune_apps.
Qed.

End OpsCfg.
#[export] Hint Resolve CxM_release_nameplate CxM_mailbox_close : cxdb.

(** * Handlers *)
Section HandlersCx.
Variable cfg : config.

Lemma CxM_handle_ping c msg : CxM meq (handle_ping c msg).
Proof. unfold handle_ping, err. cx. Qed.

Lemma CxM_handle_bind c msg : CxM meq (handle_bind cfg c msg).
Proof. unfold handle_bind, err. cx. Qed.

Lemma CxM_handle_list c a : CxM meq (handle_list cfg c a).
Proof. unfold handle_list. cx. Qed.

Lemma CxM_handle_allocate c a side o : CxM meq (handle_allocate c a side o).
Proof. unfold handle_allocate, err. cx. Qed.

Lemma CxM_handle_claim c a side msg o : CxM meq (handle_claim c a side msg o).
Proof. unfold handle_claim, err, catch_crowded_reclaimed. cx. Qed.

Lemma CxM_handle_release c a side msg : CxM meq (handle_release cfg c a side msg).
Proof. unfold handle_release, err. cx. Qed.

Lemma CxM_handle_open c a side msg : CxM meq (handle_open c a side msg).
Proof. unfold handle_open, err, catch_crowded, get_messages. cx. Qed.

(** close: an open phase that leaves the messages alone, then a delete phase *)
Lemma CxM_handle_close c a side msg : CxM EvI (handle_close cfg c a side msg).
Proof.
  unfold handle_close.
  apply (CxM_seq eq EvI EvI); [exact eq_EvI_comp|exact eq_EvI|cx|intros cs].
  destruct (c_did_close cs).
  { apply (CxM_weaken eq); [exact eq_EvI|]. unfold err. cx. }
  apply (CxM_seq eq EvI EvI); [exact eq_EvI_comp|exact eq_EvI| |intros m].
  { unfold err. cx. }
  apply (CxM_seq eq EvI EvI); [exact eq_EvI_comp|exact eq_EvI|cx|intros s0].
  apply (CxM_seq meqI ShrI EvI); [exact meqI_ShrI_EvI|exact meqI_EvI| |intros held].
  { unfold catch_crowded. cx. }
  cx.
Qed.

Lemma CxM_dispatch_meq c t msg o :
  t <> TAdd -> t <> TClose -> CxM meq (dispatch cfg c t msg o).
Proof.
  intros Ha Hc. destruct t; unfold dispatch, err;
    first [ apply CxM_handle_ping | apply CxM_handle_bind | idtac ];
    cx;
    first [ apply CxM_handle_list | apply CxM_handle_allocate | apply CxM_handle_claim
          | apply CxM_handle_release | apply CxM_handle_open
          | exfalso; apply Ha; reflexivity | exfalso; apply Hc; reflexivity ].
Qed.

Lemma CxM_dispatch c t msg o : t <> TAdd -> CxM EvI (dispatch cfg c t msg o).
Proof.
  intros Ha.
  destruct (match t with TClose => true | _ => false end) eqn:E.
  - destruct t; try discriminate. unfold dispatch.
    apply (CxM_seq eq EvI EvI); [exact eq_EvI_comp|exact eq_EvI|cx|intros cs].
    destruct (c_bound cs) as [[a side]|].
    + apply CxM_handle_close.
    + apply (CxM_weaken eq); [exact eq_EvI|]. unfold err. cx.
  - apply (CxM_weaken meq); [exact meq_EvI|]. apply CxM_dispatch_meq; [exact Ha|].
    intros ->. discriminate.
Qed.

Lemma CxM_on_message c msg o : m_type msg <> Some TAdd -> CxM EvI (on_message cfg c msg o).
Proof.
  intros Ht. unfold on_message.
  apply (CxM_catch EvI eq EvI); [exact EvI_eq_comp|auto| |].
  - destruct (m_type msg) as [t|].
    + apply (CxM_seq eq EvI EvI); [exact eq_EvI_comp|exact eq_EvI|cx|intros _].
      apply CxM_dispatch. intros ->. apply Ht. reflexivity.
    + apply (CxM_weaken eq); [exact eq_EvI|]. unfold err. cx.
  - intros e. destruct e; cx.
Qed.

End HandlersCx.

(** * Logs: commits, prefixes, replay *)

Lemma filter_commit_nil l : (forall e, In e l -> is_commit e = false) -> filter is_commit l = [].
Proof. apply rs_filter_nil. Qed.

Lemma log_prefix_0 l : log_prefix 0 l = [].
Proof. destruct l; reflexivity. Qed.

Section WithConfig.
Variable cfg : config.
Hypothesis Hexp : 0 < exp cfg.

(** * Base events in the snapshot calculus *)

Lemma Cx_EvI_refl s : Cx EvI s s.
Proof. apply (Cx_nochan EvI s s []); [exact EvI_refl|reflexivity|reflexivity|intros d []]. Qed.

(** an `add` that stores nothing is answered by an error frame and changes nothing *)
Lemma add_nothing_erroneous s c cs msg o :
  lookup_conn c (conns s) = Some cs -> m_type msg = Some TAdd ->
  added_msg s (EB (ECmd c msg o)) = [] -> erroneous cs msg = true.
Proof.
  intros Hl Ht. cbn [added_msg]. rewrite Hl, Ht. unfold erroneous. rewrite Ht.
  destruct (c_bound cs) as [[a side]|]; [|reflexivity].
  destruct (c_mailbox cs); [|reflexivity].
  destruct (m_phase msg); [|reflexivity]. destruct (m_body msg); [discriminate|reflexivity].
Qed.

(** every base event that stores no message: the final working database and
    every snapshot it commits are [EvI]-related to the initial working database *)
Lemma step_b_cx s b :
  added_msg s (EB b) = [] -> Cx EvI s (fst (fst (step_b cfg s b))).
Proof.
  intros Hadd. destruct b as [c|c msg o|c|fault|dt fault]; unfold step_b.
  - destruct (has_conn c s); [apply Cx_EvI_refl|].
    unfold run_m, on_open, send. cbn [fst].
    apply (Cx_nochan EvI _ _ [LFrame c (FWelcome (welcome cfg))
             (is_clean (set_conns s (conns s ++ [(c, new_conn)]))) (now (set_conns s (conns s ++ [(c, new_conn)])))]);
      [exact EvI_refl|reflexivity|reflexivity|].
    intros d [H|[]]. discriminate.
  - unfold has_conn. destruct (lookup_conn c (conns s)) as [cs|] eqn:Hl; [|apply Cx_EvI_refl].
    assert (W : wp (on_message cfg c msg o) (fun _ s' => Cx EvI s s') (fun _ s' => Cx EvI s s') s).
    { destruct (m_type msg) as [t|] eqn:Ht.
      - destruct (match t with TAdd => true | _ => false end) eqn:Et.
        + destruct t; try discriminate.
          pose proof (add_nothing_erroneous s c cs msg o Hl Ht Hadd) as Herr.
          assert (Hc : conn_of s c = cs) by (unfold conn_of; rewrite Hl; reflexivity).
          unfold wp. rewrite erroneous_harmless by (rewrite Hc; exact Herr). rewrite Ht.
          apply (Cx_nochan EvI _ _ [LFrame c (FError ErrOther msg) (is_clean s) (now s);
                                    LFrame c (FAck (m_id msg)) (is_clean s) (now s)]);
            [exact EvI_refl|reflexivity|reflexivity|].
          intros d [H|[H|[]]]; discriminate.
        + apply CxM_on_message. rewrite Ht. intros H. inversion H. subst t. discriminate.
      - apply CxM_on_message. rewrite Ht. discriminate. }
    unfold wp in W. destruct (on_message cfg c msg o s) as [u s'|e s']; cbn [fst]; [exact W|].
    destruct (MbFactsA.drop_conn_frame c s') as [Dw [_ Dl]].
    eapply Cx_post; [exact Dw|exact Dl|exact W].
  - destruct (has_conn c s); cbn [fst]; [|apply Cx_EvI_refl].
    destruct (MbFactsA.drop_conn_frame c s) as [Dw [_ Dl]].
    eapply Cx_post; [exact Dw|exact Dl|apply Cx_EvI_refl].
  - pose proof (CxM_expire cfg fault s) as W. unfold wp in W. unfold run_m.
    destruct (expire cfg fault s) as [u s'|e s']; cbn [fst];
      (eapply Cx_weaken; [exact ShrI_EvI|exact W]).
  - destruct (dt <? 0); [apply Cx_EvI_refl|]. cbv zeta.
    set (s1 := set_now s (now s + dt)).
    destruct (next_due s1 <=? now s1).
    + pose proof (CxM_expire cfg fault s1) as W. unfold wp in W. unfold run_m.
      destruct (expire cfg fault s1) as [u s'|e s']; cbn [fst];
        (eapply Cx_post; [| |eapply (Cx_pre EvI s s1); [reflexivity|reflexivity|
           eapply Cx_weaken; [exact ShrI_EvI|exact W]]]; reflexivity).
    + cbn [fst]. apply (Cx_nochan EvI s s1 []); [exact EvI_refl|reflexivity|reflexivity|intros d []].
Qed.

(** * The database a crash leaves behind *)

(** the committed channel database from which the process starts again after
    [ECrash k b] (Service.step) *)
Definition crash_chan (s : state) (k : nat) (b : bevent) : chan_db :=
  let '(s1, valid, x) := step_b cfg s b in
  let full := rev (log s1) in
  if (count_commits full <? k)%nat || negb valid then chan_c s1
  else fst (replay_commits (log_prefix k full) (chan_c s) (usage_c s)).

Lemma crash_fst s k b :
  log s = [] ->
  exists u, fst (step cfg s (ECrash k b)) =
            fst (fst (boot_on cfg (crash_chan s k b) u (now (fst (fst (step_b cfg s b)))))).
Proof.
  intros Hlog. unfold step, crash_chan. rewrite (set_log_nil s Hlog).
  destruct (step_b cfg s b) as [[s1 valid] x]. cbn [fst].
  destruct ((count_commits (rev (log s1)) <? k)%nat || negb valid).
  - exists (usage_c s1).
    destruct (boot_on cfg (chan_c s1) (usage_c s1) (now s1)) as [[s2 bl] x2]. reflexivity.
  - destruct (replay_commits (log_prefix k (rev (log s1))) (chan_c s) (usage_c s)) as [c u].
    exists u. cbn [fst].
    destruct (boot_on cfg c u (now s1)) as [[s2 bl] x2]. reflexivity.
Qed.

Lemma crash_chan_in s k b :
  let s1 := fst (fst (step_b cfg s b)) in
  crash_chan s k b = chan_c s1 \/ crash_chan s k b = chan_c s \/
  In (LCommitChan (crash_chan s k b)) (log s1).
Proof.
  unfold crash_chan. destruct (step_b cfg s b) as [[s1 valid] x]. cbn [fst].
  destruct ((count_commits (rev (log s1)) <? k)%nat || negb valid); [left; reflexivity|].
  right. destruct (replay_in (rev (log s1)) k (chan_c s) (usage_c s)) as [H|H].
  - left. exact H.
  - right. apply in_rev. exact H.
Qed.

(** ... is well-formed and, when the event stores no message, [Ev]-related to
    the database before the event *)
Lemma step_b_inv s b :
  SInv s -> log s = [] ->
  let s1 := fst (fst (step_b cfg s b)) in SInv s1 /\ log_ok (log s1).
Proof.
  intros Hs Hlog. assert (H : HInv s) by (split; [exact Hs|rewrite Hlog; constructor]).
  pose proof (step_b_spec cfg Hexp s b H) as W.
  destruct (step_b cfg s b) as [[s1 valid] x]. cbn [fst]. apply W.
Qed.

Lemma crash_chan_wf s k b : SInv s -> log s = [] -> DbInv (crash_chan s k b).
Proof.
  intros Hs Hlog. destruct (step_b_inv s b Hs Hlog) as [H1 L1].
  destruct (crash_chan_in s k b) as [E|[E|E]].
  - rewrite E. destruct (si_clean _ H1) as [K _]. rewrite <- K. apply (si_db _ H1).
  - rewrite E. destruct (si_clean _ Hs) as [K _]. rewrite <- K. apply (si_db _ Hs).
  - exact (proj1 (Forall_forall _ _) L1 _ E).
Qed.

Lemma crash_chan_Ev s k b :
  SInv s -> log s = [] -> added_msg s (EB b) = [] -> Ev (chan_w s) (crash_chan s k b).
Proof.
  intros Hs Hlog Hadd. destruct (step_b_inv s b Hs Hlog) as [H1 _].
  destruct (step_b_cx s b Hadd) as [A [l [El Hl]]]. rewrite Hlog, app_nil_r in El.
  pose proof (si_db _ Hs) as I.
  destruct (crash_chan_in s k b) as [E|[E|E]].
  - rewrite E. destruct (si_clean _ H1) as [K _]. rewrite <- K. exact (A I).
  - rewrite E. destruct (si_clean _ Hs) as [K _]. rewrite <- K. apply Ev_refl.
  - rewrite El in E. exact (Hl _ E I).
Qed.

(** * The start-up sweep *)
Lemma boot_shr c u t :
  DbInv c ->
  let d' := chan_w (fst (fst (boot_on cfg c u t))) in
  Shr c d' /\
  forall r, In r (mailboxes c) -> t - exp cfg < mb_updated r -> mb_exists d' (mb_id r) = true.
Proof.
  intros Hdb. rewrite boot_on_eq.
  set (S0 := mkState c c u u [] [] t t t (t + period cfg) []).
  assert (HS0 : SInv S0) by (apply SInv_boot; exact Hdb).
  destruct (sweep_char cfg Hexp S0 HS0 eq_refl) as [s' [He Hch]]. cbv zeta in Hch.
  destruct Hch as (Hmb & _ & _ & _ & Hmsg & _).
  pose proof (Fr_expire cfg (fun _ => False) false S0) as F. unfold wp in F.
  rewrite He in F. destruct F as [[q Hq] _].
  rewrite He. cbn [fst chan_w set_log]. change (chan_w S0) with c in *.
  assert (Hnl : forall a m, ~ listened S0 a m) by (intros a m [c0 []]).
  split; [split|].
  - exists q. split; [exact Hq|]. intros x Hx Hex. apply mb_exists_iff in Hex.
    assert (Hin : In x (messages (chan_w s'))) by (apply Hmsg; split; [exact Hx|exact Hex]).
    rewrite Hq in Hin. apply filter_In in Hin. apply Hin.
  - intros m Hex. apply mb_exists_iff in Hex. destruct Hex as [r [Hr Hid]].
    apply mb_exists_iff. apply Hmb in Hr.
    destruct Hr as [(Hr & _)|(r0 & _ & HL & _)]; [exists r; auto|destruct (Hnl _ _ HL)].
  - intros r Hr Ho. apply mb_exists_iff. exists r. split; [|reflexivity].
    apply Hmb. left. split; [exact Hr|]. split; [apply Hnl|exact Ho].
Qed.

(** * Composition: event up to the crash point, then the start-up sweep *)
Lemma evo_compose d0 c d' add q :
  messages c = filter q (messages d0) ++ add ->
  (forall x, In x (messages d0) -> mb_exists c (msg_mbox x) = true -> q x = true) ->
  Shr c d' -> (forall x, In x add -> mb_exists d' (msg_mbox x) = true) -> DbInv d' ->
  messages d' = filter (fun x => mb_exists d' (msg_mbox x)) (messages d0) ++ add.
Proof.
  intros Hq Hb [[q' [Hq' Hb']] Hs] Hadd Hinv.
  apply (msgs_core d0 d' (fun x => q x && q' x)); [exact Hinv| |].
  - rewrite Hq', Hq, filter_app, lf_filter_filter. f_equal.
    apply lf_filter_true. intros x Hx. apply Hb'; [|apply Hadd; exact Hx].
    rewrite Hq. apply in_or_app. right. exact Hx.
  - intros x Hx Hex.
    assert (E1 : q x = true) by (apply Hb; [exact Hx|apply Hs; exact Hex]).
    rewrite E1. cbn [andb]. apply Hb'; [|exact Hex].
    rewrite Hq. apply in_or_app. left. apply filter_In. split; assumption.
Qed.

(** a crashed event that stores nothing *)
Lemma crash_evo_nothing s k b :
  SInv s -> log s = [] -> Ev (chan_w s) (crash_chan s k b) ->
  let s' := fst (step cfg s (ECrash k b)) in
  messages (chan_w s') = filter (fun x => mb_exists (chan_w s') (msg_mbox x)) (messages (chan_w s)).
Proof.
  intros Hs Hlog [q [Hq Hb]]. cbv zeta.
  pose proof (step_spec cfg Hexp s (ECrash k b) Hs) as Sp.
  destruct (crash_fst s k b Hlog) as [u Ef].
  destruct (step cfg s (ECrash k b)) as [s' ob]. cbn [fst] in *. destruct Sp as [Hs' _].
  pose proof (boot_shr (crash_chan s k b) u (now (fst (fst (step_b cfg s b))))
                (crash_chan_wf s k b Hs Hlog)) as B. cbv zeta in B. rewrite <- Ef in B.
  destruct B as [Bs _].
  rewrite <- (app_nil_r (filter _ (messages (chan_w s)))).
  apply (evo_compose (chan_w s) (crash_chan s k b) (chan_w s') [] q).
  - rewrite app_nil_r. exact Hq.
  - exact Hb.
  - exact Bs.
  - intros x [].
  - apply (si_db _ Hs').
Qed.

(** * add, exactly: ack, one commit of the database with the row appended, then
    the broadcast frames *)
Lemma add_step_b s c cs a side msg o m ph bd :
  log s = [] ->
  lookup_conn c (conns s) = Some cs -> c_bound cs = Some (a, side) -> c_mailbox cs = Some m ->
  m_type msg = Some TAdd -> m_phase msg = Some ph -> m_body msg = Some bd ->
  let r := mkMsg a m side ph bd (now s) (m_id msg) in
  let d1 := upd_touch (ins_msg (chan_w s) r) m (now s) in
  exists s1 fr,
    step_b cfg s (ECmd c msg o) = (s1, true, None) /\ chan_c s1 = d1 /\ now s1 = now s /\
    rev (log s1) = LFrame c (FAck (m_id msg)) (is_clean s) (now s) :: LCommitChan d1 :: fr /\
    (forall e, In e fr -> is_commit e = false).
Proof.
  intros Hlog Hc Hb Hmb Ht Hph Hbd r d1.
  set (s0 := set_log s (LFrame c (FAck (m_id msg)) (is_clean s) (now s) :: log s)).
  assert (Hc0 : conn_of s0 c = cs).
  { unfold conn_of, s0; cbn. rewrite Hc. reflexivity. }
  set (s2 := mkState d1 d1 (usage_w s) (usage_c s) (subs s) (conns s) (now s) (boot s)
                     (timer_start s) (next_due s) (LCommitChan d1 :: log s0)).
  set (fr0 := map (fun c' => LFrame c' (msg_frame r) (is_clean s2) (now s2)) (subs_of a m (subs s))).
  assert (Hom : on_message cfg c msg o s = Ok tt (set_log s2 (rev fr0 ++ log s2))).
  { apply (on_message_dispatch_ok cfg c msg o s TAdd _ Ht). fold s0.
    rewrite (dispatch_bound cfg c TAdd msg o s0 a side)
      by (try discriminate; rewrite Hc0; exact Hb).
    unfold handle_add. rewrite bind_get_conn, Hc0, Hmb, Hph, Hbd.
    rewrite (bind_ok get _ s0 s0 s0) by reflexivity.
    change (now s0) with (now s). fold r.
    unfold add_message.
    rewrite (bind_ok _ _ s0 tt (set_chan_w s0 d1)) by reflexivity.
    rewrite (bind_ok _ _ (set_chan_w s0 d1) tt s2) by reflexivity.
    rewrite (bind_ok get _ s2 s2 s2) by reflexivity.
    rewrite send_all_eval. reflexivity. }
  exists (set_log s2 (rev fr0 ++ log s2)), fr0.
  split; [unfold step_b, has_conn; rewrite Hc, Hom; reflexivity|].
  split; [reflexivity|]. split; [reflexivity|]. split.
  - cbn [log set_log s2 s0]. rewrite Hlog, rev_app_distr, rev_involutive. reflexivity.
  - intros e He. unfold fr0 in He. apply in_map_iff in He. destruct He as [c' [<- _]]. reflexivity.
Qed.

Lemma add_crash_chan s c cs a side msg o m ph bd k :
  log s = [] ->
  lookup_conn c (conns s) = Some cs -> c_bound cs = Some (a, side) -> c_mailbox cs = Some m ->
  m_type msg = Some TAdd -> m_phase msg = Some ph -> m_body msg = Some bd ->
  let r := mkMsg a m side ph bd (now s) (m_id msg) in
  crash_chan s k (ECmd c msg o) =
    match k with O => chan_c s | S _ => upd_touch (ins_msg (chan_w s) r) m (now s) end /\
  now (fst (fst (step_b cfg s (ECmd c msg o)))) = now s.
Proof.
  intros Hlog Hc Hb Hmb Ht Hph Hbd r.
  destruct (add_step_b s c cs a side msg o m ph bd Hlog Hc Hb Hmb Ht Hph Hbd)
    as (s1 & fr & Est & Hcc & Hnow & Hrev & Hfr). cbv zeta in Hcc, Hrev. fold r in Hcc, Hrev.
  unfold crash_chan. rewrite Est. cbn [fst]. split; [|exact Hnow]. rewrite Hrev.
  assert (Hcnt : count_commits (LFrame c (FAck (m_id msg)) (is_clean s) (now s) ::
                                LCommitChan (upd_touch (ins_msg (chan_w s) r) m (now s)) :: fr) = 1%nat).
  { unfold count_commits. cbn [filter is_commit]. rewrite (filter_commit_nil fr Hfr). reflexivity. }
  rewrite Hcnt. cbn [negb orb]. rewrite orb_false_r.
  destruct k as [|[|k]].
  - reflexivity.
  - cbn [Nat.ltb Nat.leb log_prefix is_commit]. rewrite log_prefix_0. reflexivity.
  - cbn [Nat.ltb Nat.leb]. exact Hcc.
Qed.

(** a crashed well-formed add *)
Lemma crash_evo_add s c cs a side msg o m ph bd k :
  SInv s -> log s = [] ->
  lookup_conn c (conns s) = Some cs -> c_bound cs = Some (a, side) -> c_mailbox cs = Some m ->
  m_type msg = Some TAdd -> m_phase msg = Some ph -> m_body msg = Some bd ->
  let r := mkMsg a m side ph bd (now s) (m_id msg) in
  let s' := fst (step cfg s (ECrash k (ECmd c msg o))) in
  messages (chan_w s') =
    filter (fun x => mb_exists (chan_w s') (msg_mbox x)) (messages (chan_w s)) ++
    match k with O => [] | S _ => [r] end.
Proof.
  intros Hs Hlog Hc Hb Hmb Ht Hph Hbd r. cbv zeta.
  destruct (add_crash_chan s c cs a side msg o m ph bd k Hlog Hc Hb Hmb Ht Hph Hbd) as [Ecc Enow].
  cbv zeta in Ecc. fold r in Ecc.
  destruct k as [|k].
  - rewrite app_nil_r. apply crash_evo_nothing; [exact Hs|exact Hlog|].
    rewrite Ecc. destruct (si_clean _ Hs) as [K _]. rewrite <- K. apply Ev_refl.
  - set (d1 := upd_touch (ins_msg (chan_w s) r) m (now s)) in *.
    pose proof (step_spec cfg Hexp s (ECrash (S k) (ECmd c msg o)) Hs) as Sp.
    destruct (crash_fst s (S k) (ECmd c msg o) Hlog) as [u Ef]. rewrite Ecc, Enow in Ef.
    destruct (step cfg s (ECrash (S k) (ECmd c msg o))) as [s' ob]. cbn [fst] in *.
    destruct Sp as [Hs' _].
    assert (Hmbx : has_mb (chan_w s) a m).
    { pose proof (si_conns s Hs c cs Hc) as Hok. unfold conn_ok in Hok. rewrite Hmb in Hok.
      destruct Hok as (a' & side' & Hb' & _ & Hin). rewrite Hb in Hb'. inversion Hb'; subst a' side'.
      exact (proj1 (si_subs s Hs (a, m, c) Hin)). }
    assert (Hd1 : DbInv d1).
    { exact (proj1 (add_msg_ok (chan_w s) r (si_db _ Hs) Hmbx)). }
    pose proof (boot_shr d1 u (now s) Hd1) as B. cbv zeta in B. rewrite <- Ef in B.
    destruct B as [Bs Bk].
    apply (evo_compose (chan_w s) d1 (chan_w s') [r] (fun _ => true)).
    + unfold d1. cbn [messages upd_touch set_mailboxes ins_msg set_messages]. f_equal.
      symmetry. apply lf_filter_true. reflexivity.
    + reflexivity.
    + exact Bs.
    + intros x [<-|[]]. cbn [msg_mbox r].
      destruct Hmbx as (r0 & Hr0 & _ & Hid).
      assert (Hin : In (mkMb (mb_app r0) (mb_id r0) (now s) (mb_fornp r0)) (mailboxes d1)).
      { unfold d1. cbn [mailboxes upd_touch set_mailboxes ins_msg set_messages].
        apply in_map_iff. exists r0. split; [|exact Hr0]. rewrite Hid, seqb_refl. reflexivity. }
      specialize (Bk _ Hin). cbn [mb_updated mb_id] in Bk. rewrite Hid in Bk. apply Bk. lia.
    + apply (si_db _ Hs').
Qed.

(** * C01 over any event, crashes included *)

(** over any event -- a crash at any commit boundary of any base event included --
    the stored messages are the old ones whose mailbox still exists, in the
    same order, plus the one message the event stored (and committed before
    the process died) *)
Theorem messages_evolution_all s e :
  SInv s -> log s = [] ->
  let s' := fst (step cfg s e) in
  messages (chan_w s') =
    filter (fun x => mb_exists (chan_w s') (msg_mbox x)) (messages (chan_w s)) ++ added_msg_c s e.
Proof.
  intros Hs Hlog. destruct e as [b|k b|].
  - exact (messages_evolution cfg Hexp s (EB b) Hs Hlog I).
  - assert (Hnone : added_msg s (EB b) = [] ->
                    let s' := fst (step cfg s (ECrash k b)) in
                    messages (chan_w s') =
                    filter (fun x => mb_exists (chan_w s') (msg_mbox x)) (messages (chan_w s)) ++
                    added_msg_c s (ECrash k b)).
    { intros Hadd. cbv zeta.
      assert (E : added_msg_c s (ECrash k b) = []).
      { destruct k as [|k]; [reflexivity|]. destruct b; try reflexivity. exact Hadd. }
      rewrite E, app_nil_r. apply crash_evo_nothing; [exact Hs|exact Hlog|].
      apply crash_chan_Ev; assumption. }
    destruct b as [c|c msg o|c|fault|dt fault]; try (apply Hnone; reflexivity).
    destruct (lookup_conn c (conns s)) as [cs|] eqn:Hl;
      [|apply Hnone; cbn [added_msg]; rewrite Hl; reflexivity].
    destruct (m_type msg) as [t|] eqn:Ht;
      [|apply Hnone; cbn [added_msg]; rewrite Hl, Ht; reflexivity].
    destruct (match t with TAdd => true | _ => false end) eqn:Et;
      [|apply Hnone; cbn [added_msg]; rewrite Hl, Ht; destruct t; try reflexivity; discriminate].
    destruct t; try discriminate.
    destruct (c_bound cs) as [[a side]|] eqn:Eb;
      [|apply Hnone; cbn [added_msg]; rewrite Hl, Ht, Eb; reflexivity].
    destruct (c_mailbox cs) as [m|] eqn:Em;
      [|apply Hnone; cbn [added_msg]; rewrite Hl, Ht, Eb, Em; reflexivity].
    destruct (m_phase msg) as [ph|] eqn:Eph;
      [|apply Hnone; cbn [added_msg]; rewrite Hl, Ht, Eb, Em, Eph; reflexivity].
    destruct (m_body msg) as [bd|] eqn:Ebd;
      [|apply Hnone; cbn [added_msg]; rewrite Hl, Ht, Eb, Em, Eph, Ebd; reflexivity].
    pose proof (crash_evo_add s c cs a side msg o m ph bd k Hs Hlog Hl Eb Em Ht Eph Ebd) as H.
    cbv zeta in *. rewrite H. f_equal.
    destruct k as [|k]; [reflexivity|].
    cbn [added_msg_c added_msg]. rewrite Hl, Ht, Eb, Em, Eph, Ebd. reflexivity.
  - exact (messages_evolution cfg Hexp s ERestart Hs Hlog I).
Qed.

(** * The ledger over histories with crashes *)

(** as HistFacts.ledger, with the message a crashed add committed before the
    process died ([added_msg_c]) *)
Fixpoint ledger_c (s : state) (h : list event) (a m : string) (acc : list msg_row) : list msg_row :=
  match h with
  | [] => acc
  | e :: h' =>
      let s' := fst (step cfg s e) in
      let acc1 := acc ++ filter (mine a m) (added_msg_c s e) in
      ledger_c s' h' a m (if has_mb_b (chan_w s') a m then acc1 else [])
  end.

(** on a history without crash events it is HistFacts.ledger *)
Lemma ledger_c_no_crash h : forall s a m acc,
  Forall not_crash h -> ledger_c s h a m acc = ledger cfg s h a m acc.
Proof.
  induction h as [|e h IH]; intros s a m acc Hh; [reflexivity|].
  inversion Hh as [|e' h' Hnc Hh']; subst. cbn [ledger_c ledger]. cbv zeta.
  rewrite (added_msg_c_not_crash s e Hnc). apply IH. exact Hh'.
Qed.

Lemma sel_msgs_event_all s e a m :
  SInv s -> log s = [] ->
  let s' := fst (step cfg s e) in
  sel_msgs (chan_w s') a m =
    if has_mb_b (chan_w s') a m
    then sel_msgs (chan_w s) a m ++ filter (mine a m) (added_msg_c s e) else [].
Proof.
  intros Hs Hl s'. apply sel_msgs_step.
  - apply si_db. apply (step_inv cfg Hexp s e Hs).
  - exact (messages_evolution_all s e Hs Hl).
Qed.

(** C01: after ANY history -- crashes at any commit boundary included -- the
    stored messages of (a, m), in rowid order, are exactly its ledger *)
Theorem stored_is_ledger_all h : forall s a m,
  SInv s -> log s = [] ->
  sel_msgs (chan_w (fst (run cfg s h))) a m = ledger_c s h a m (sel_msgs (chan_w s) a m).
Proof.
  induction h as [|e h IH]; intros s a m Hs Hl; [reflexivity|].
  rewrite run_cons_fst. cbn [ledger_c]. cbv zeta.
  destruct (step_inv cfg Hexp s e Hs) as [H1 L1].
  rewrite (IH (fst (step cfg s e)) a m H1 L1).
  f_equal. exact (sel_msgs_event_all s e a m Hs Hl).
Qed.

(** ... so a served open replays exactly the ledger of the whole history so
    far, whatever crashes it contains *)
Theorem open_replays_ledger_all t0 h c cs a side msg o m :
  let s := fst (run cfg (init cfg t0) h) in
  lookup_conn c (conns s) = Some cs -> c_bound cs = Some (a, side) ->
  m_type msg = Some TOpen -> erroneous cs msg = false -> m_mailbox msg = Some m ->
  let '(s', ob) := step cfg s (EB (ECmd c msg o)) in
  holds s' c a m ->
  frames_of (o_log ob) =
    (c, FAck (m_id msg)) ::
    map (fun r => (c, msg_frame r)) (msg_sort (ledger_c (init cfg t0) h a m [])).
Proof.
  intros s Hlk Hb Ht Herr Hm.
  destruct (init_spec cfg Hexp t0) as [Hi Li].
  destruct (run_inv cfg Hexp h (init cfg t0) Hi Li) as [Hs Hl]. fold s in Hs, Hl.
  pose proof (open_outcome cfg s c cs a side msg o m Hs Hl Hlk Hb Ht Herr Hm) as W.
  destruct (step cfg s (EB (ECmd c msg o))) as [s' ob] eqn:Est.
  cbv zeta in W. destruct W as [_ W]. intros Hholds.
  destruct W as [(Hx & _)|(_ & _ & [(_ & _ & _ & Hn)|(_ & Hfr & _)])].
  - exfalso. pose proof (step_exc_dropped cfg s c msg o s' ob XIntegrity Est Hx) as Hnone.
    destruct Hholds as [cs' [side' [Hl' _]]]. congruence.
  - exfalso. exact (Hn Hholds).
  - rewrite Hfr. unfold s.
    rewrite (stored_is_ledger_all h (init cfg t0) a m Hi Li).
    rewrite sel_msgs_mine, init_messages. reflexivity.
Qed.

(** a mailbox that has no row has an empty ledger afterwards *)
Theorem ledger_reset_when_gone_all h : forall s a m acc,
  SInv s -> log s = [] ->
  ~ has_mb (chan_w (fst (run cfg s h))) a m -> h <> [] ->
  ledger_c s h a m acc = [].
Proof.
  induction h as [|e h IH]; intros s a m acc Hs Hl Hno Hne; [contradiction|].
  rewrite run_cons_fst in Hno. cbn [ledger_c]. cbv zeta.
  destruct (step_inv cfg Hexp s e Hs) as [H1 L1].
  destruct h as [|e2 h2].
  - cbn [run fst] in Hno. apply has_mb_b_false in Hno. rewrite Hno. reflexivity.
  - apply IH; try assumption. discriminate.
Qed.

End WithConfig.

(** * Non-vacuity: a message whose add was committed before the process died
    ([ECrash 1]) survives the crash and is replayed to a later open; a message
    whose add died before its commit ([ECrash 0]) is lost; the ledger says so *)
Example crash_ledger_nonvacuous :
  let cfg := gen_cfg true false None in
  let o := mkOracle None (mkAO None []) in
  let bind s := mkCmd (Some TBind) None (Some "a") (Some s) None None None None None None None in
  let opn m := mkCmd (Some TOpen) None None None None (Some m) None None None None None in
  let add b := mkCmd (Some TAdd) None None None None None (Some "p") (Some b) None None None in
  let h := [EB (EConnect 1); EB (ECmd 1 (bind "A") o); EB (ECmd 1 (opn "m") o);
            EB (ECmd 1 (add "one") o); EB (EAdvance 1 false);
            ECrash 1 (ECmd 1 (add "two") o);
            EB (EConnect 2); EB (ECmd 2 (bind "A") o); EB (ECmd 2 (opn "m") o);
            ECrash 0 (ECmd 2 (add "three") o);
            EB (EConnect 3); EB (ECmd 3 (bind "B") o)] in
  let s := fst (run cfg (init cfg 0) h) in
  let '(s1, ob) := step cfg s (EB (ECmd 3 (opn "m") o)) in
  map snd (frames_of (o_log ob)) =
    [FAck None; FMessage "A" "p" "one" 0 None; FMessage "A" "p" "two" 1 None] /\
  ledger_c cfg (init cfg 0) h "a" "m" [] =
    [mkMsg "a" "m" "A" "p" "one" 0 None; mkMsg "a" "m" "A" "p" "two" 1 None] /\
  added_msg_c (fst (run cfg (init cfg 0) (firstn 5 h))) (nth 5 h ERestart) =
    [mkMsg "a" "m" "A" "p" "two" 1 None] /\
  added_msg_c (fst (run cfg (init cfg 0) (firstn 9 h))) (nth 9 h ERestart) = [] /\
  added_msg (fst (run cfg (init cfg 0) (firstn 9 h))) (EB (ECmd 2 (add "three") o)) =
    [mkMsg "a" "m" "A" "p" "three" 1 None].
Proof. vm_compute. repeat split; reflexivity. Qed.

Print Assumptions messages_evolution_all.
Print Assumptions stored_is_ledger_all.
Print Assumptions open_replays_ledger_all.
Print Assumptions ledger_reset_when_gone_all.
Print Assumptions ledger_c_no_crash.
Print Assumptions crash_ledger_nonvacuous.
